import OrdModel.Proofs.IndexFlagsNoIns
import OrdModel.Proofs.IndexLiftRuneFrame
/-
C15 helper lemmas 10: the rune results (`projRunes`: every rune table and counter except
SEQUENCE_NUMBER_TO_RUNE_ID) after a run depend only on the blocks at or above the first rune
height — whatever the optional indexes, whatever the first inscription height, and whatever
happens to the blocks below (delivered in full, or header-only).

* `runeW` erases everything but the six rune fields; the rune pass commutes with it (scripts of
  the C12 stream's `IndexSchedFrameRunes`, re-run for `runeW`; the one place where the pass reads
  a non-rune table, `createRuneEntry` looking up `id2seq` to fill `seq2rune`, writes an erased field);
* the UTXO pass is a frame for the rune fields (`RuneLift.indexUtxoEntries_frame`, imported);
* so `applyBlock` acts on `runeW st` as `runeStep` (= the rune pass if runes are indexed and the
  height is at least the first rune height, else nothing), a run as `runeRunFrom`, and
  `runeRunFrom` skips every block that is not `runeRelevant`.
Used by `Theorems/C15.lean` for the repaired `first_index_height` (finding S2).
-/
namespace Ord.Index
open Outcome Sched

/-- erase everything but the rune results -/
def runeW (_x : Unit) (st : State) : State :=
  { runeEntries := st.runeEntries, rune2id := st.rune2id, balances := st.balances,
    txid2rune := st.txid2rune, runes := st.runes, reservedRunes := st.reservedRunes }

theorem mint_R (st : State) (x : Unit) (h : Nat) (id : RuneId) :
    mint (runeW x st) h id = (runeW x (mint st h id).1, (mint st h id).2) := by
  unfold mint
  show (match AL.get st.runeEntries id with
    | none => (runeW x st, none)
    | some e =>
      match e.mintable h with
      | none => (runeW x st, none)
      | some amount =>
        (runeW x { st with runeEntries := AL.set st.runeEntries id { e with mints := e.mints + 1 } }, some amount)) = _
  cases AL.get st.runeEntries id with
  | none => rfl
  | some e =>
    simp only
    cases e.mintable h with
    | none => rfl
    | some a => rfl


theorem etched_R (st : State) (x : Unit) (blk : Block) (i : Nat) (tx : Tx) (art : Artifact) :
    etched (runeW x st) blk i tx art = omap (fun r => (runeW x r.1, r.2)) (etched st blk i tx art) := by
  unfold etched
  extract_lets named
  clear_value named
  match named with
  | none => rfl
  | some none => rfl
  | some (some rune) =>
    simp only
    show (if rune < blk.minimumRune ∨ rune ≥ RESERVED ∨ AL.contains st.rune2id rune = true then _ else _) = _
    split
    · rfl
    · cases txCommitsToRune blk.height rune tx.inputs with
      | panic s => rfl
      | err e => rfl
      | ok b => cases b <;> rfl


theorem createRuneEntry_R (st : State) (x : Unit) (blk : Block) (tx : Tx) (art : Artifact) (id : RuneId)
    (rune : Nat) :
    createRuneEntry (runeW x st) blk tx art id rune =
      (runeW x (createRuneEntry st blk tx art id rune).1, (createRuneEntry st blk tx art id rune).2) := by
  unfold createRuneEntry
  simp only
  show _ = (runeW x (match AL.get st.id2seq ⟨tx.txid, 0⟩ with
    | some seq => _
    | none => _), _)
  cases AL.get st.id2seq ⟨tx.txid, 0⟩ with
  | none => rfl
  | some seq => rfl


theorem takeInputs_R (ins : List TxIn) (st : State) (x : Unit) (un : Balances) :
    takeInputs ins (runeW x st) un = omap (fun r => (runeW x r.1, r.2)) (takeInputs ins st un) := by
  induction ins generalizing st un with
  | nil => rfl
  | cons i rest ih =>
    simp only [takeInputs]
    show (match AL.get st.balances i.prev with
      | none => _
      | some bs => _) = _
    cases AL.get st.balances i.prev with
    | none => exact ih _ _
    | some bs =>
      simp only
      cases takeInputs.addAll bs un with
      | panic s => rfl
      | err e => rfl
      | ok un' => exact ih { st with balances := AL.erase st.balances i.prev } un'


theorem writeOutputs_R (blk : Block) (tx : Tx) (l : List (Nat × Balances)) (st : State) (x : Unit)
    (burned : Balances) (evs : List Event) :
    writeOutputs blk tx l (runeW x st) burned evs =
      omap (fun r => (runeW x r.1, r.2)) (writeOutputs blk tx l st burned evs) := by
  induction l generalizing st burned evs with
  | nil => rfl
  | cons p rest ih =>
    obtain ⟨vout, bs⟩ := p
    simp only [writeOutputs]
    split
    · exact ih _ _ _
    · have hF := ih { st with balances := AL.set st.balances ⟨tx.txid, vout⟩ (sortBalances bs) } burned
        (evs ++ (sortBalances bs).map (fun (id, b) => Event.runeTransferred b blk.height ⟨tx.txid, vout⟩ id tx.txid))
      have hT : (match addAllTo bs burned false with
          | .ok burned' => writeOutputs blk tx rest (runeW x st) burned' evs
          | .panic s => .panic s
          | .err e => .err e) = omap (fun r => (runeW x r.1, r.2)) (match addAllTo bs burned false with
          | .ok burned' => writeOutputs blk tx rest st burned' evs
          | .panic s => .panic s
          | .err e => .err e) := by
        cases addAllTo bs burned false with
        | panic s => rfl
        | err e => rfl
        | ok b => exact ih st b evs
      cases tx.outputs[vout]? with
      | none =>
        simp only [Bool.false_eq_true, if_false]
        exact hF
      | some o =>
        simp only
        by_cases ho : o.opReturn = true
        · rw [if_pos ho, if_pos ho]; exact hT
        · rw [if_neg ho, if_neg ho]; exact hF


theorem flushBurned_R (bb : Balances) (st : State) (x : Unit) :
    flushBurned bb (runeW x st) = omap (fun r => runeW x r) (flushBurned bb st) := by
  induction bb generalizing st with
  | nil => rfl
  | cons p rest ih =>
    obtain ⟨id, b⟩ := p
    simp only [flushBurned]
    show (match AL.get st.runeEntries id with
      | none => _
      | some e => _) = _
    cases AL.get st.runeEntries id with
    | none => rfl
    | some e =>
      simp only
      split
      · rfl
      · exact ih { st with runeEntries := AL.set st.runeEntries id { e with burned := e.burned + b } }


theorem rtxMint_R (st0 : State) (x : Unit) (un0 : Balances) (blk : Block) (tx : Tx) (mintId : Option RuneId) :
    rtxMint (runeW x st0) un0 blk tx mintId =
      (runeW x (rtxMint st0 un0 blk tx mintId).1, (rtxMint st0 un0 blk tx mintId).2) := by
  unfold rtxMint
  cases mintId with
  | none => rfl
  | some id =>
    simp only
    rw [mint_R]
    cases mint st0 blk.height id with
    | mk s o => cases o <;> rfl


theorem rtxEtch_R (blk : Block) (txIndex : Nat) (tx : Tx) (art : Artifact) (alloc0 : Allocated)
    (st1 : State) (x : Unit) (un1O : Outcome Balances) (ev1 : List Event) :
    rtxEtch blk txIndex tx art alloc0 (runeW x st1) un1O ev1 =
      omap (fun q => (runeW x q.1, q.2)) (rtxEtch blk txIndex tx art alloc0 st1 un1O ev1) := by
  unfold rtxEtch
  cases un1O with
  | panic s => rfl
  | err e => rfl
  | ok un1 =>
    simp only
    rw [etched_R]
    cases etched st1 blk txIndex tx art with
    | panic s => rfl
    | err e => rfl
    | ok r =>
      obtain ⟨st2, et⟩ := r
      simp only [omap_ok]
      cases rtxEdicts tx art alloc0 un1 et with
      | panic s => rfl
      | err e => rfl
      | ok r2 =>
        obtain ⟨un3, alloc1⟩ := r2
        cases et with
        | none => rfl
        | some p =>
          obtain ⟨id, rune⟩ := p
          simp only
          rw [createRuneEntry_R]
          rfl


theorem rtxPhase1_R (st0 : State) (x : Unit) (un0 : Balances) (blk : Block) (txIndex : Nat) (tx : Tx) :
    rtxPhase1 (runeW x st0) un0 blk txIndex tx =
      omap (fun q => (runeW x q.1, q.2)) (rtxPhase1 st0 un0 blk txIndex tx) := by
  unfold rtxPhase1
  cases tx.artifact with
  | none => rfl
  | some art =>
    simp only
    rw [rtxMint_R]
    exact rtxEtch_R _ _ _ _ _ _ _ _ _


theorem rtxRest_R (blk : Block) (tx : Tx) (bb : Balances) (st3 : State) (x : Unit) (un : Balances)
    (alloc : Allocated) (evs : List Event) :
    rtxRest blk tx bb (runeW x st3) un alloc evs =
      omap (fun r => (runeW x r.1, r.2)) (rtxRest blk tx bb st3 un alloc evs) := by
  unfold rtxRest
  cases rtxPhase2 tx un alloc with
  | panic s => rfl
  | err e => rfl
  | ok r =>
    obtain ⟨alloc2, burned0⟩ := r
    simp only
    rw [writeOutputs_R]
    cases writeOutputs blk tx (enumFrom 0 alloc2) st3 burned0 evs with
    | panic s => rfl
    | err e => rfl
    | ok r2 =>
      obtain ⟨st4, burned, evs2⟩ := r2
      simp only [omap_ok]
      cases addAllTo burned bb false with
      | panic s => rfl
      | err e => rfl
      | ok b => rfl


theorem indexRunesTx_R (st : State) (x : Unit) (blk : Block) (txIndex : Nat) (tx : Tx) (bb : Balances) :
    indexRunesTx (runeW x st) blk txIndex tx bb =
      omap (fun r => (runeW x r.1, r.2)) (indexRunesTx st blk txIndex tx bb) := by
  rw [indexRunesTx_eq, indexRunesTx_eq, takeInputs_R]
  cases takeInputs tx.inputs st [] with
  | panic s => rfl
  | err e => rfl
  | ok r =>
    obtain ⟨st0, un0⟩ := r
    simp only [omap_ok]
    rw [rtxPhase1_R]
    cases rtxPhase1 st0 un0 blk txIndex tx with
    | panic s => rfl
    | err e => rfl
    | ok q =>
      obtain ⟨st3, un, alloc, evs⟩ := q
      simp only [omap_ok]
      exact rtxRest_R _ _ _ _ _ _ _ _


theorem indexRunesBlock_go_R (blk : Block) (l : List (Nat × Tx)) (st : State) (x : Unit) (bb : Balances)
    (evs : List Event) :
    indexRunesBlock.go blk l (runeW x st) bb evs =
      omap (fun r => (runeW x r.1, r.2)) (indexRunesBlock.go blk l st bb evs) := by
  induction l generalizing st bb evs with
  | nil => rfl
  | cons p rest ih =>
    obtain ⟨i, tx⟩ := p
    simp only [indexRunesBlock.go]
    rw [indexRunesTx_R]
    cases indexRunesTx st blk i tx bb with
    | panic s => rfl
    | err e => rfl
    | ok r =>
      obtain ⟨st', bb', evs'⟩ := r
      exact ih st' bb' (evs ++ evs')


theorem indexRunesBlock_R (st : State) (x : Unit) (blk : Block) :
    indexRunesBlock (runeW x st) blk = omap (fun r => (runeW x r.1, r.2)) (indexRunesBlock st blk) := by
  unfold indexRunesBlock
  rw [indexRunesBlock_go_R]
  cases indexRunesBlock.go blk (enumFrom 0 blk.txs) st [] [] with
  | panic s => rfl
  | err e => rfl
  | ok r =>
    obtain ⟨st1, bb, evs⟩ := r
    simp only [omap_ok]
    rw [flushBurned_R]
    cases flushBurned bb st1 with
    | panic s => rfl
    | err e => rfl
    | ok st2 => rfl




/-! ### one block, one chain -/

/-- the block is one the rune updater runs on -/
def runeRelevant (cfg : Cfg) (blk : Block) : Bool :=
  cfg.indexRunes && decide (blk.height ≥ cfg.firstRuneHeight)

/-- what `applyBlock` does to the rune results -/
def runeStep (cfg : Cfg) (r : State) (blk : Block) : Outcome (State × List Event) :=
  if runeRelevant cfg blk then indexRunesBlock r blk else .ok (r, [])

def runeRunFrom (cfg : Cfg) : State → List Block → Outcome State
  | r, [] => .ok r
  | r, b :: bs =>
    match runeStep cfg r b with
    | .ok (r1, _) => runeRunFrom cfg r1 bs
    | .panic s => .panic s
    | .err e => .err e

theorem runeW_of_frame {st st1 : State} (h : Runemint.RuneFrame st st1) : runeW () st1 = runeW () st := by
  obtain ⟨a, b, c, d, e, f, _⟩ := h
  simp only [runeW, a, b, c, d, e, f]

/-- **one block**: on the rune results `applyBlock cfg` is `runeStep cfg` — the UTXO pass (sat /
address / inscription indexes, any first inscription height) does not touch them, the rune pass
reads nothing else. -/
theorem applyBlock_runeW (cfg : Cfg) (st : State) (blk : Block) (st' : State) (evs : List Event)
    (h : applyBlock cfg st blk = .ok (st', evs)) :
    ∃ evr, runeStep cfg (runeW () st) blk = .ok (runeW () st', evr) := by
  unfold applyBlock at h
  have key : ∃ st1 ev1, (if (cfg.indexInscriptions || cfg.indexAddresses || cfg.indexSats) = true then indexUtxoEntries cfg st blk
      else Outcome.ok (st, [])) = .ok (st1, ev1) ∧ runeW () st1 = runeW () st := by
    by_cases hc : (cfg.indexInscriptions || cfg.indexAddresses || cfg.indexSats) = true
    · simp only [hc, if_true] at h ⊢
      cases h1 : indexUtxoEntries cfg st blk with
      | panic s => rw [h1] at h; simp at h
      | err e => rw [h1] at h; simp at h
      | ok r =>
        obtain ⟨st1, ev1⟩ := r
        exact ⟨st1, ev1, rfl, runeW_of_frame (RuneLift.indexUtxoEntries_frame cfg st blk st1 ev1 h1)⟩
    · simp only [hc, Bool.false_eq_true, if_false]
      exact ⟨st, [], rfl, rfl⟩
  obtain ⟨st1, ev1, k1, k2⟩ := key
  rw [k1] at h
  dsimp only at h
  unfold runeStep runeRelevant
  rw [← k2]
  by_cases hr : (cfg.indexRunes && decide (blk.height ≥ cfg.firstRuneHeight)) = true
  · simp only [hr, if_true] at h ⊢
    rw [indexRunesBlock_R]
    cases h2 : indexRunesBlock st1 blk with
    | panic s => rw [h2] at h; simp at h
    | err e => rw [h2] at h; simp at h
    | ok r2 =>
      obtain ⟨st2, ev2⟩ := r2
      rw [h2] at h
      simp only [Outcome.ok.injEq, Prod.mk.injEq] at h
      obtain ⟨rfl, rfl⟩ := h
      exact ⟨ev2, rfl⟩
  · simp only [hr, Bool.false_eq_true, if_false] at h ⊢
    simp only [Outcome.ok.injEq, Prod.mk.injEq] at h
    obtain ⟨rfl, rfl⟩ := h
    exact ⟨[], rfl⟩

theorem runFrom_runeW (cfg : Cfg) : ∀ (chain : List Block) (st st' : State) (evs : List Event),
    runFrom cfg st chain = .ok (st', evs) → runeRunFrom cfg (runeW () st) chain = .ok (runeW () st')
  | [], st, st', evs, h => by
    simp only [runFrom, Outcome.ok.injEq, Prod.mk.injEq] at h
    obtain ⟨rfl, rfl⟩ := h
    rfl
  | b :: bs, st, st', evs, h => by
    simp only [runFrom] at h
    cases h1 : applyBlock cfg st b with
    | panic s => rw [h1] at h; simp at h
    | err e => rw [h1] at h; simp at h
    | ok r =>
      obtain ⟨st1, ev1⟩ := r
      rw [h1] at h
      dsimp only at h
      obtain ⟨evr, hs⟩ := applyBlock_runeW cfg st b st1 ev1 h1
      simp only [runeRunFrom, hs]
      cases h2 : runFrom cfg st1 bs with
      | panic s => rw [h2] at h; simp at h
      | err e => rw [h2] at h; simp at h
      | ok r2 =>
        obtain ⟨st2, ev2⟩ := r2
        rw [h2] at h
        simp only [Outcome.ok.injEq, Prod.mk.injEq] at h
        obtain ⟨rfl, rfl⟩ := h
        exact runFrom_runeW cfg bs st1 st2 ev2 h2

/-- blocks the rune updater does not run on can be dropped -/
theorem runeRunFrom_filter (cfg : Cfg) : ∀ (chain : List Block) (r : State),
    runeRunFrom cfg r chain = runeRunFrom cfg r (chain.filter (runeRelevant cfg))
  | [], _ => rfl
  | b :: bs, r => by
    by_cases hb : runeRelevant cfg b = true
    · rw [List.filter_cons_of_pos hb]
      simp only [runeRunFrom]
      cases runeStep cfg r b with
      | panic s => rfl
      | err e => rfl
      | ok p => exact runeRunFrom_filter cfg bs p.1
    · rw [List.filter_cons_of_neg hb]
      have : runeStep cfg r b = .ok (r, []) := by
        unfold runeStep
        rw [if_neg hb]
      simp only [runeRunFrom, this]
      exact runeRunFrom_filter cfg bs r

/-- `runeStep` depends on the configuration only through `indexRunes` and `firstRuneHeight` -/
theorem runeRunFrom_congr (cfg cfg' : Cfg) (hr : cfg.indexRunes = cfg'.indexRunes)
    (hf : cfg.firstRuneHeight = cfg'.firstRuneHeight) : runeRunFrom cfg = runeRunFrom cfg' := by
  have hs : runeStep cfg = runeStep cfg' := by
    funext r b
    unfold runeStep runeRelevant
    rw [hr, hf]
  funext r chain
  induction chain generalizing r with
  | nil => rfl
  | cons b bs ih =>
    simp only [runeRunFrom, hs]
    cases runeStep cfg' r b with
    | panic s => rfl
    | err e => rfl
    | ok p => exact ih p.1

theorem runeRelevant_congr (cfg cfg' : Cfg) (hr : cfg.indexRunes = cfg'.indexRunes)
    (hf : cfg.firstRuneHeight = cfg'.firstRuneHeight) : runeRelevant cfg = runeRelevant cfg' := by
  funext b
  unfold runeRelevant
  rw [hr, hf]

/-- **chain level**: two configurations with the same rune settings, indexing two block lists
that have the same rune-relevant blocks, end with the same rune results. -/
theorem run_runeW_eq (cfg cfg' : Cfg) (hr : cfg.indexRunes = cfg'.indexRunes)
    (hf : cfg.firstRuneHeight = cfg'.firstRuneHeight) (chain chain' : List Block)
    (hrel : chain.filter (runeRelevant cfg) = chain'.filter (runeRelevant cfg))
    (st st' : State) (evs evs' : List Event)
    (h : run cfg chain = .ok (st, evs)) (h' : run cfg' chain' = .ok (st', evs')) :
    runeW () st = runeW () st' := by
  have a := runFrom_runeW cfg chain {} st evs h
  have b := runFrom_runeW cfg' chain' {} st' evs' h'
  rw [runeRunFrom_filter, hrel, ← runeRunFrom_filter] at a
  rw [← runeRunFrom_congr cfg cfg' hr hf, a] at b
  exact Outcome.ok.inj b

theorem projRunes_runeW (st : State) : projRunes (runeW () st) = projRunes st := rfl

theorem projRunes_of_runeW {st st' : State} (h : runeW () st = runeW () st') : projRunes st = projRunes st' := by
  rw [← projRunes_runeW st, ← projRunes_runeW st', h]

/-! ### … with local tracking of the values (`applyBlockTracked`, the fold of `drv_flagsx`) -/

theorem runeRelevant_of_runes_off (cfg : Cfg) (blk : Block) :
    runeRelevant { cfg with indexRunes := false } blk = false := rfl

/-- as soon as `first_index_height ≤ first_rune_height`, a block the configuration gets
header-only is one the rune updater would not run on anyway -/
theorem applyBlockTracked_runeW (fixed : Bool) (cfg : Cfg)
    (hle : cfg.indexRunes = true → ∃ h, cfg.firstIndexHeight fixed = some h ∧ h ≤ cfg.firstRuneHeight)
    (st : State) (blk : Block) (st' : State) (evs : List Event)
    (h : applyBlockTracked fixed cfg st blk = .ok (st', evs)) :
    ∃ evr, runeStep cfg (runeW () st) blk = .ok (runeW () st', evr) := by
  unfold applyBlockTracked at h
  by_cases hfull : cfg.fetchesFull fixed blk.height = true
  · rw [if_pos hfull] at h
    exact applyBlock_runeW cfg st blk st' evs h
  · rw [if_neg hfull] at h
    obtain ⟨evr, hs⟩ := applyBlock_runeW _ st blk st' evs h
    unfold runeStep at hs
    rw [runeRelevant_of_runes_off] at hs
    simp only [Bool.false_eq_true, if_false, Outcome.ok.injEq, Prod.mk.injEq] at hs
    have hn : runeRelevant cfg blk = false := by
      cases hr : cfg.indexRunes with
      | false => simp [runeRelevant, hr]
      | true =>
        obtain ⟨fh, e, le⟩ := hle hr
        have hlt : ¬ blk.height ≥ fh := by
          intro hge
          apply hfull
          unfold Cfg.fetchesFull
          rw [e]
          exact decide_eq_true hge
        have : ¬ blk.height ≥ cfg.firstRuneHeight := fun hge => hlt (Nat.le_trans le hge)
        simp [runeRelevant, this]
    refine ⟨[], ?_⟩
    unfold runeStep
    rw [hn, ← hs.1]
    rfl

theorem runTrackedFrom_runeW (fixed : Bool) (cfg : Cfg)
    (hle : cfg.indexRunes = true → ∃ h, cfg.firstIndexHeight fixed = some h ∧ h ≤ cfg.firstRuneHeight) :
    ∀ (chain : List Block) (st st' : State) (evs : List Event),
    runTrackedFrom fixed cfg st chain = .ok (st', evs) → runeRunFrom cfg (runeW () st) chain = .ok (runeW () st')
  | [], st, st', evs, h => by
    simp only [runTrackedFrom, Outcome.ok.injEq, Prod.mk.injEq] at h
    obtain ⟨rfl, rfl⟩ := h
    rfl
  | b :: bs, st, st', evs, h => by
    simp only [runTrackedFrom] at h
    cases h1 : applyBlockTracked fixed cfg st b with
    | panic s => rw [h1] at h; simp at h
    | err e => rw [h1] at h; simp at h
    | ok r =>
      obtain ⟨st1, ev1⟩ := r
      rw [h1] at h
      dsimp only at h
      obtain ⟨evr, hs⟩ := applyBlockTracked_runeW fixed cfg hle st b st1 ev1 h1
      simp only [runeRunFrom, hs]
      cases h2 : runTrackedFrom fixed cfg st1 bs with
      | panic s => rw [h2] at h; simp at h
      | err e => rw [h2] at h; simp at h
      | ok r2 =>
        obtain ⟨st2, ev2⟩ := r2
        rw [h2] at h
        simp only [Outcome.ok.injEq, Prod.mk.injEq] at h
        obtain ⟨rfl, rfl⟩ := h
        exact runTrackedFrom_runeW fixed cfg hle bs st1 st2 ev2 h2

/-- two configurations with the same rune settings, both with
`first_index_height ≤ first_rune_height`, each indexing the chain as it sees it (values tracked):
same rune results -/
theorem runTracked_runeW_eq (fixed : Bool) (cfg cfg' : Cfg) (hr : cfg.indexRunes = cfg'.indexRunes)
    (hf : cfg.firstRuneHeight = cfg'.firstRuneHeight)
    (hle : cfg.indexRunes = true → ∃ h, cfg.firstIndexHeight fixed = some h ∧ h ≤ cfg.firstRuneHeight)
    (hle' : cfg'.indexRunes = true → ∃ h, cfg'.firstIndexHeight fixed = some h ∧ h ≤ cfg'.firstRuneHeight)
    (chain : List Block) (st st' : State) (evs evs' : List Event)
    (h : runTracked fixed cfg chain = .ok (st, evs)) (h' : runTracked fixed cfg' chain = .ok (st', evs')) :
    runeW () st = runeW () st' := by
  have a := runTrackedFrom_runeW fixed cfg hle chain {} st evs h
  have b := runTrackedFrom_runeW fixed cfg' hle' chain {} st' evs' h'
  rw [← runeRunFrom_congr cfg cfg' hr hf, a] at b
  exact Outcome.ok.inj b

/-! ### what a configuration sees -/

theorem filter_map_view (p : Block → Bool) (f : Block → Block) (hp : ∀ b, p (f b) = p b)
    (hf : ∀ b, p b = true → f b = b) : ∀ chain : List Block, (chain.map f).filter p = chain.filter p
  | [] => rfl
  | b :: bs => by
    rw [List.map_cons]
    by_cases hb : p b = true
    · rw [List.filter_cons_of_pos (by rw [hp]; exact hb), List.filter_cons_of_pos hb, hf b hb,
        filter_map_view p f hp hf bs]
    · rw [List.filter_cons_of_neg (by rw [hp]; exact hb), List.filter_cons_of_neg hb,
        filter_map_view p f hp hf bs]

theorem fetchView_height (fixed : Bool) (cfg : Cfg) (b : Block) : (fetchView fixed cfg b).height = b.height := by
  unfold fetchView
  split
  · split <;> rfl
  · rfl

theorem runeRelevant_fetchView (fixed : Bool) (cfg cfg₀ : Cfg) (b : Block) :
    runeRelevant cfg₀ (fetchView fixed cfg b) = runeRelevant cfg₀ b := by
  simp only [runeRelevant, fetchView_height]

end Ord.Index
