import OrdModel.Proofs.IndexInsnumInv5
/-
Group `insnum`: `update_inscription_location` preserves the numbering invariant (C05, one
inscription), what it records for a new inscription (C06 b), and what `linkParents` records
(C07).
-/
namespace Ord.Index.Insnum
open Ord.Index Ord.Outcome

/-- One call of `update_inscription_location` preserves the numbering invariant, provided the id
of a *new* inscription is not yet the id of an entry. -/
theorem uloc_inv5 {cfg : Cfg} {height time : Nat} {ir : Option (List (Nat × Nat))} {fl : Flotsam} {sp : SatPoint}
    {opr : Bool} {tgt : Target} {ls ls' : LocState}
    (h : updateInscriptionLocation cfg height time ir fl sp opr tgt ls = .ok ls')
    (hinv : Inv5T (tabs ls.st))
    (hfresh : isNew fl = true → ∀ (i : Nat) (e' : InsEntry), ls.st.entries[i]? = some e' → e'.id ≠ fl.id) :
    Inv5T (tabs ls'.st) ∧
    ls'.st.entries.map (·.id) = ls.st.entries.map (·.id) ++ (if isNew fl then [fl.id] else []) := by
  rw [uloc_unfold] at h
  obtain ⟨ub, seq, st, ctx, hstep⟩ := finish_ok h
  rw [hstep] at h
  obtain ⟨htabs, _⟩ := finish_inv h
  have hent : ls'.st.entries = st.entries := congrArg Tabs.entries htabs
  unfold Inv5T
  rw [htabs, hent]
  cases hfo : fl.origin with
  | old oseq oldSp =>
    rw [hfo] at hstep
    simp only at hstep
    have hnew : isNew fl = false := by simp [isNew, hfo]
    obtain ⟨_, hcase⟩ := oldStep_inv hstep
    rcases hcase with ht | ⟨entry, he, ht⟩
    · rw [ht, show st.entries = ls.st.entries from congrArg Tabs.entries ht]
      exact ⟨hinv, by simp [hnew]⟩
    · rw [ht, show st.entries = _ from congrArg Tabs.entries ht]
      refine ⟨inv5_burn hinv oseq entry he, ?_⟩
      simp only [hnew, Bool.false_eq_true, if_false, List.append_nil]
      apply List.ext_getElem?
      intro i
      simp only [List.getElem?_map, List.getElem?_set]
      split
      · rename_i hki; subst hki
        split
        · simp [he]
        · rename_i hlt; rw [List.getElem?_eq_none (by omega)]
      · rfl
  | new c fee g hid ps r u v =>
    rw [hfo] at hstep
    simp only at hstep
    have hnew : isNew fl = true := by simp [isNew, hfo]
    obtain ⟨sat, st3, pids, pseqs, hlt, hsat, hlink, _, _, _, ht⟩ := newStep_inv hstep
    have ht3 := linkParents_tabs hlink
    rw [allocState_tabs] at ht3
    have hE : st.entries = ls.st.entries ++ [⟨newCharms c r sat opr sp.outpoint.isNull u v, fee, height, hid, fl.id,
        numberOf ls.st c, pseqs, sat, ls.st.entries.length, time⟩] := by
      have h1 := congrArg Tabs.entries ht; have h3 := congrArg Tabs.entries ht3
      simp only [tabs] at h1 h3; rw [h1, h3]
    have hI : st.id2seq = AL.set ls.st.id2seq fl.id ls.st.entries.length := by
      have h1 := congrArg Tabs.id2seq ht; have h3 := congrArg Tabs.id2seq ht3
      simp only [tabs] at h1 h3; rw [h1, h3]
    have hN : st.num2seq = AL.set ls.st.num2seq (numberOf ls.st c) ls.st.entries.length := by
      have h1 := congrArg Tabs.num2seq ht; have h3 := congrArg Tabs.num2seq ht3
      simp only [tabs] at h1 h3; rw [h1, h3]
    have hB : st.blessed = if c then ls.st.blessed else ls.st.blessed + 1 := by
      have h1 := congrArg Tabs.blessed ht; have h3 := congrArg Tabs.blessed ht3
      simp only [tabs] at h1 h3; rw [h1, h3]
    have hC : st.cursed = if c then ls.st.cursed + 1 else ls.st.cursed := by
      have h1 := congrArg Tabs.cursed ht; have h3 := congrArg Tabs.cursed ht3
      simp only [tabs] at h1 h3; rw [h1, h3]
    show Inv5 st.entries st.id2seq st.num2seq st.blessed st.cursed ∧ _
    rw [hE, hI, hN, hB, hC]
    have := inv5_new hinv c
      ⟨newCharms c r sat opr sp.outpoint.isNull u v, fee, height, hid, fl.id, numberOf ls.st c, pseqs, sat,
        ls.st.entries.length, time⟩ rfl
      (by simp only [numberOf]; cases c <;> rfl) (newCharms_cursed _ _ _ _ _ _ _) (hfresh hnew)
    refine ⟨by simpa [numberOf, tabs] using this, ?_⟩
    simp [hnew]

/-- C06 (b), entry level: a new inscription whose flotsam is neither cursed nor vindicated nor a
reinscription gets a non-negative number and none of the three charms. -/
theorem newStep_clean {height time : Nat} {ir : Option (List (Nat × Nat))} {fl : Flotsam} {sp : SatPoint} {opr : Bool}
    {ls : LocState} {fee : Nat} {g hid : Bool} {ps : List InscriptionId} {u : Bool}
    {ub : Bool} {seq : Nat} {st : State} {ctx : InsCtx}
    (h : newStep height time ir fl sp opr ls false fee g hid ps false u false = .ok (ub, seq, st, ctx)) :
    ∃ e : InsEntry, st.entries = ls.st.entries ++ [e] ∧ e.id = fl.id ∧ e.number = (ls.st.blessed : Int) ∧ 0 ≤ e.number ∧
      hasCharm e.charms charmCursed = false ∧ hasCharm e.charms charmVindicated = false ∧
      hasCharm e.charms charmReinscription = false := by
  obtain ⟨sat, st3, pids, pseqs, _, _, hlink, _, _, _, ht⟩ := newStep_inv h
  have ht3 := linkParents_tabs hlink
  have he3 : st3.entries = ls.st.entries := by
    have h3 := congrArg Tabs.entries ht3
    simp only [tabs] at h3
    rw [h3]; cases sat <;> rfl
  have hE := congrArg Tabs.entries ht
  simp only [tabs] at hE
  have hE' : st.entries = ls.st.entries ++ [⟨newCharms false false sat opr sp.outpoint.isNull u false, fee, height, hid,
      fl.id, numberOf ls.st false, pseqs, sat, ls.st.entries.length, time⟩] := by rw [hE, he3]
  have hnum : numberOf ls.st false = (ls.st.blessed : Int) := by simp [numberOf]
  refine ⟨_, hE', rfl, hnum, ?_, ?_, ?_, ?_⟩
  · show 0 ≤ numberOf ls.st false
    rw [hnum]; omega
  · show hasCharm (newCharms false false sat opr sp.outpoint.isNull u false) charmCursed = false
    exact newCharms_cursed false false sat opr sp.outpoint.isNull u false
  · show hasCharm (newCharms false false sat opr sp.outpoint.isNull u false) charmVindicated = false
    exact newCharms_vindicated false false sat opr sp.outpoint.isNull u false
  · show hasCharm (newCharms false false sat opr sp.outpoint.isNull u false) charmReinscription = false
    exact newCharms_reinscription false false sat opr sp.outpoint.isNull u false

/-! ### `linkParents` (C07) -/

/-- what the parent loop records: exactly the purported parents already known to
`id_to_sequence_number`, in order -/
theorem linkParents_spec (seq : Nat) (ps : List InscriptionId) :
    ∀ (st : State) (ids : List InscriptionId) (seqs : List Nat) (st' : State) (ids' : List InscriptionId) (seqs' : List Nat),
    linkParents seq ps st ids seqs = .ok (st', ids', seqs') →
    seqs' = seqs ++ ps.filterMap (fun p => AL.get st.id2seq p) ∧
    ids' = ids ++ ps.filter (fun p => (AL.get st.id2seq p).isSome) ∧
    (∀ x ∈ st'.children, x ∈ st.children ∨ (x.2 = seq ∧ ∃ p ∈ ps, AL.get st.id2seq p = some x.1)) ∧
    (∀ x ∈ st.children, x ∈ st'.children) ∧
    (∀ p ∈ ps, ∀ pseq, AL.get st.id2seq p = some pseq → (pseq, seq) ∈ st'.children) := by
  induction ps with
  | nil =>
    intro st ids seqs st' ids' seqs' h
    simp only [linkParents, Outcome.ok.injEq, Prod.mk.injEq] at h
    obtain ⟨rfl, rfl, rfl⟩ := h
    simp
  | cons p rest ih =>
    intro st ids seqs st' ids' seqs' h
    simp only [linkParents] at h
    split at h
    · rename_i hnone
      obtain ⟨h1, h2, h3, h4, h5⟩ := ih _ _ _ _ _ _ h
      refine ⟨by simp [h1, hnone], by simp [h2, hnone], ?_, h4, ?_⟩
      · intro x hx
        rcases h3 x hx with hx | ⟨hx, q, hq, hqs⟩
        · exact Or.inl hx
        · exact Or.inr ⟨hx, q, List.mem_cons_of_mem _ hq, hqs⟩
      · intro q hq pseq hqs
        rcases List.mem_cons.1 hq with rfl | hq
        · rw [hnone] at hqs; cases hqs
        · exact h5 q hq pseq hqs
    · rename_i pseq hsome
      split at h
      · exact absurd h (by simp)
      · rename_i pentry _
        cases hh : pentry.hidden <;> simp only [hh, if_true, if_false, Bool.false_eq_true] at h <;>
          obtain ⟨h1, h2, h3, h4, h5⟩ := ih _ _ _ _ _ _ h <;> dsimp only at h1 h2 h3 h4 h5
        all_goals
          refine ⟨by simp [h1, hsome], by simp [h2, hsome], ?_, ?_, ?_⟩
          · intro x hx
            rcases h3 x hx with hx | ⟨hx, q, hq, hqs⟩
            · rcases (mem_insertUnique _ _ _).1 hx with hx | rfl
              · exact Or.inl hx
              · exact Or.inr ⟨rfl, p, List.mem_cons_self, hsome⟩
            · exact Or.inr ⟨hx, q, List.mem_cons_of_mem _ hq, hqs⟩
          · intro x hx
            exact h4 x ((mem_insertUnique _ _ _).2 (Or.inl hx))
          · intro q hq qseq hqs
            rcases List.mem_cons.1 hq with rfl | hq
            · rw [hsome] at hqs
              simp only [Option.some.injEq] at hqs
              subst hqs
              exact h4 _ ((mem_insertUnique _ _ _).2 (Or.inr rfl))
            · exact h5 q hq qseq hqs

end Ord.Index.Insnum
