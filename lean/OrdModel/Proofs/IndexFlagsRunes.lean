import OrdModel.Proofs.IndexFlagsBlock
import OrdModel.Proofs.IndexSchedFrameRunes
/-
C15 helper lemmas 6: the rune pass commutes with the erasure `stripW u` — it neither reads nor
writes the UTXO table, the sat tables, the address rows, the stored transactions or the
inscription entries (it reads `id2seq`, which the erasure keeps).  The proof scripts are the C12
stream's (`IndexSchedFrameRunes`, there for `W`), re-run for `stripW`; `rtxMint` … `rtxRest`
and `indexRunesTx_eq` are reused from there.
-/
namespace Ord.Index
open Outcome Sched

theorem mint_S (st : State) (x : List (OutPoint × UtxoEntry)) (h : Nat) (id : RuneId) :
    mint (stripW x st) h id = (stripW x (mint st h id).1, (mint st h id).2) := by
  unfold mint
  show (match AL.get st.runeEntries id with
    | none => (stripW x st, none)
    | some e =>
      match e.mintable h with
      | none => (stripW x st, none)
      | some amount =>
        (stripW x { st with runeEntries := AL.set st.runeEntries id { e with mints := e.mints + 1 } }, some amount)) = _
  cases AL.get st.runeEntries id with
  | none => rfl
  | some e =>
    simp only
    cases e.mintable h with
    | none => rfl
    | some a => rfl


theorem etched_S (st : State) (x : List (OutPoint × UtxoEntry)) (blk : Block) (i : Nat) (tx : Tx) (art : Artifact) :
    etched (stripW x st) blk i tx art = omap (fun r => (stripW x r.1, r.2)) (etched st blk i tx art) := by
  unfold etched
  extract_lets named
  clear_value named
  match named with
  | none => rfl
  | some none => rfl
  | some (some rune) =>
    simp only
    show (if rune < blk.minimumRune ∨ rune ≥ RESERVED ∨ AL.contains st.rune2id rune = true then _ else _) = _
    split
    · rfl
    · cases txCommitsToRune blk.height rune tx.inputs with
      | panic s => rfl
      | err e => rfl
      | ok b => cases b <;> rfl


theorem createRuneEntry_S (st : State) (x : List (OutPoint × UtxoEntry)) (blk : Block) (tx : Tx) (art : Artifact) (id : RuneId)
    (rune : Nat) :
    createRuneEntry (stripW x st) blk tx art id rune =
      (stripW x (createRuneEntry st blk tx art id rune).1, (createRuneEntry st blk tx art id rune).2) := by
  unfold createRuneEntry
  simp only
  show (match AL.get st.id2seq ⟨tx.txid, 0⟩ with
    | some seq => _
    | none => _, _) = _
  cases AL.get st.id2seq ⟨tx.txid, 0⟩ with
  | none => rfl
  | some seq => rfl


theorem takeInputs_S (ins : List TxIn) (st : State) (x : List (OutPoint × UtxoEntry)) (un : Balances) :
    takeInputs ins (stripW x st) un = omap (fun r => (stripW x r.1, r.2)) (takeInputs ins st un) := by
  induction ins generalizing st un with
  | nil => rfl
  | cons i rest ih =>
    simp only [takeInputs]
    show (match AL.get st.balances i.prev with
      | none => _
      | some bs => _) = _
    cases AL.get st.balances i.prev with
    | none => exact ih _ _
    | some bs =>
      simp only
      cases takeInputs.addAll bs un with
      | panic s => rfl
      | err e => rfl
      | ok un' => exact ih { st with balances := AL.erase st.balances i.prev } un'


theorem writeOutputs_S (blk : Block) (tx : Tx) (l : List (Nat × Balances)) (st : State) (x : List (OutPoint × UtxoEntry))
    (burned : Balances) (evs : List Event) :
    writeOutputs blk tx l (stripW x st) burned evs =
      omap (fun r => (stripW x r.1, r.2)) (writeOutputs blk tx l st burned evs) := by
  induction l generalizing st burned evs with
  | nil => rfl
  | cons p rest ih =>
    obtain ⟨vout, bs⟩ := p
    simp only [writeOutputs]
    split
    · exact ih _ _ _
    · have hF := ih { st with balances := AL.set st.balances ⟨tx.txid, vout⟩ (sortBalances bs) } burned
        (evs ++ (sortBalances bs).map (fun (id, b) => Event.runeTransferred b blk.height ⟨tx.txid, vout⟩ id tx.txid))
      have hT : (match addAllTo bs burned false with
          | .ok burned' => writeOutputs blk tx rest (stripW x st) burned' evs
          | .panic s => .panic s
          | .err e => .err e) = omap (fun r => (stripW x r.1, r.2)) (match addAllTo bs burned false with
          | .ok burned' => writeOutputs blk tx rest st burned' evs
          | .panic s => .panic s
          | .err e => .err e) := by
        cases addAllTo bs burned false with
        | panic s => rfl
        | err e => rfl
        | ok b => exact ih st b evs
      cases tx.outputs[vout]? with
      | none =>
        simp only [Bool.false_eq_true, if_false]
        exact hF
      | some o =>
        simp only
        by_cases ho : o.opReturn = true
        · rw [if_pos ho, if_pos ho]; exact hT
        · rw [if_neg ho, if_neg ho]; exact hF


theorem flushBurned_S (bb : Balances) (st : State) (x : List (OutPoint × UtxoEntry)) :
    flushBurned bb (stripW x st) = omap (fun r => stripW x r) (flushBurned bb st) := by
  induction bb generalizing st with
  | nil => rfl
  | cons p rest ih =>
    obtain ⟨id, b⟩ := p
    simp only [flushBurned]
    show (match AL.get st.runeEntries id with
      | none => _
      | some e => _) = _
    cases AL.get st.runeEntries id with
    | none => rfl
    | some e =>
      simp only
      split
      · rfl
      · exact ih { st with runeEntries := AL.set st.runeEntries id { e with burned := e.burned + b } }


theorem rtxMint_S (st0 : State) (x : List (OutPoint × UtxoEntry)) (un0 : Balances) (blk : Block) (tx : Tx) (mintId : Option RuneId) :
    rtxMint (stripW x st0) un0 blk tx mintId =
      (stripW x (rtxMint st0 un0 blk tx mintId).1, (rtxMint st0 un0 blk tx mintId).2) := by
  unfold rtxMint
  cases mintId with
  | none => rfl
  | some id =>
    simp only
    rw [mint_S]
    cases mint st0 blk.height id with
    | mk s o => cases o <;> rfl


theorem rtxEtch_S (blk : Block) (txIndex : Nat) (tx : Tx) (art : Artifact) (alloc0 : Allocated)
    (st1 : State) (x : List (OutPoint × UtxoEntry)) (un1O : Outcome Balances) (ev1 : List Event) :
    rtxEtch blk txIndex tx art alloc0 (stripW x st1) un1O ev1 =
      omap (fun q => (stripW x q.1, q.2)) (rtxEtch blk txIndex tx art alloc0 st1 un1O ev1) := by
  unfold rtxEtch
  cases un1O with
  | panic s => rfl
  | err e => rfl
  | ok un1 =>
    simp only
    rw [etched_S]
    cases etched st1 blk txIndex tx art with
    | panic s => rfl
    | err e => rfl
    | ok r =>
      obtain ⟨st2, et⟩ := r
      simp only [omap_ok]
      cases rtxEdicts tx art alloc0 un1 et with
      | panic s => rfl
      | err e => rfl
      | ok r2 =>
        obtain ⟨un3, alloc1⟩ := r2
        cases et with
        | none => rfl
        | some p =>
          obtain ⟨id, rune⟩ := p
          simp only
          rw [createRuneEntry_S]
          rfl


theorem rtxPhase1_S (st0 : State) (x : List (OutPoint × UtxoEntry)) (un0 : Balances) (blk : Block) (txIndex : Nat) (tx : Tx) :
    rtxPhase1 (stripW x st0) un0 blk txIndex tx =
      omap (fun q => (stripW x q.1, q.2)) (rtxPhase1 st0 un0 blk txIndex tx) := by
  unfold rtxPhase1
  cases tx.artifact with
  | none => rfl
  | some art =>
    simp only
    rw [rtxMint_S]
    exact rtxEtch_S _ _ _ _ _ _ _ _ _


theorem rtxRest_S (blk : Block) (tx : Tx) (bb : Balances) (st3 : State) (x : List (OutPoint × UtxoEntry)) (un : Balances)
    (alloc : Allocated) (evs : List Event) :
    rtxRest blk tx bb (stripW x st3) un alloc evs =
      omap (fun r => (stripW x r.1, r.2)) (rtxRest blk tx bb st3 un alloc evs) := by
  unfold rtxRest
  cases rtxPhase2 tx un alloc with
  | panic s => rfl
  | err e => rfl
  | ok r =>
    obtain ⟨alloc2, burned0⟩ := r
    simp only
    rw [writeOutputs_S]
    cases writeOutputs blk tx (enumFrom 0 alloc2) st3 burned0 evs with
    | panic s => rfl
    | err e => rfl
    | ok r2 =>
      obtain ⟨st4, burned, evs2⟩ := r2
      simp only [omap_ok]
      cases addAllTo burned bb false with
      | panic s => rfl
      | err e => rfl
      | ok b => rfl


theorem indexRunesTx_S (st : State) (x : List (OutPoint × UtxoEntry)) (blk : Block) (txIndex : Nat) (tx : Tx) (bb : Balances) :
    indexRunesTx (stripW x st) blk txIndex tx bb =
      omap (fun r => (stripW x r.1, r.2)) (indexRunesTx st blk txIndex tx bb) := by
  rw [indexRunesTx_eq, indexRunesTx_eq, takeInputs_S]
  cases takeInputs tx.inputs st [] with
  | panic s => rfl
  | err e => rfl
  | ok r =>
    obtain ⟨st0, un0⟩ := r
    simp only [omap_ok]
    rw [rtxPhase1_S]
    cases rtxPhase1 st0 un0 blk txIndex tx with
    | panic s => rfl
    | err e => rfl
    | ok q =>
      obtain ⟨st3, un, alloc, evs⟩ := q
      simp only [omap_ok]
      exact rtxRest_S _ _ _ _ _ _ _ _


theorem indexRunesBlock_go_S (blk : Block) (l : List (Nat × Tx)) (st : State) (x : List (OutPoint × UtxoEntry)) (bb : Balances)
    (evs : List Event) :
    indexRunesBlock.go blk l (stripW x st) bb evs =
      omap (fun r => (stripW x r.1, r.2)) (indexRunesBlock.go blk l st bb evs) := by
  induction l generalizing st bb evs with
  | nil => rfl
  | cons p rest ih =>
    obtain ⟨i, tx⟩ := p
    simp only [indexRunesBlock.go]
    rw [indexRunesTx_S]
    cases indexRunesTx st blk i tx bb with
    | panic s => rfl
    | err e => rfl
    | ok r =>
      obtain ⟨st', bb', evs'⟩ := r
      exact ih st' bb' (evs ++ evs')


theorem indexRunesBlock_S (st : State) (x : List (OutPoint × UtxoEntry)) (blk : Block) :
    indexRunesBlock (stripW x st) blk = omap (fun r => (stripW x r.1, r.2)) (indexRunesBlock st blk) := by
  unfold indexRunesBlock
  rw [indexRunesBlock_go_S]
  cases indexRunesBlock.go blk (enumFrom 0 blk.txs) st [] [] with
  | panic s => rfl
  | err e => rfl
  | ok r =>
    obtain ⟨st1, bb, evs⟩ := r
    simp only [omap_ok]
    rw [flushBurned_S]
    cases flushBurned bb st1 with
    | panic s => rfl
    | err e => rfl
    | ok st2 => rfl




end Ord.Index
