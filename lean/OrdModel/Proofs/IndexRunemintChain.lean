import OrdModel.Proofs.IndexRunemintBlock
import OrdModel.Proofs.IndexRunemintFrame
import OrdModel.Index.Run
/-
Group `runemint`, helper lemmas 7: the invariant after every chain (`run` / `Reachable`).
-/
namespace Ord.Index.Runemint
open Ord.Index

/-- blocks are consecutive from height 0 and have at most 2^32 transactions (tx indices are u32) -/
def ChainOK (chain : List Block) : Prop :=
  ∀ i (h : i < chain.length), chain[i].height = i ∧ chain[i].txs.length ≤ 4294967296

/-- `indexUtxoEntries` leaves the rune tables alone (hypothesis of the chain-level theorems when
the sat / inscription / address indexes are on; see `Proofs/IndexRunemintFrame.lean`) -/
def UtxoFrame (cfg : Cfg) : Prop :=
  ∀ st blk st1 ev, indexUtxoEntries cfg st blk = .ok (st1, ev) → RuneFrame st st1

/-- either `indexUtxoEntries` never runs (rune-only index) or it is a frame for the rune tables -/
def FrameOK (cfg : Cfg) : Prop :=
  (cfg.indexInscriptions || cfg.indexAddresses || cfg.indexSats) = false ∨ UtxoFrame cfg

theorem RInv_of_frame {st st1 : State} {H T : Nat} (hf : RuneFrame st st1) (h : RInv st H T) : RInv st1 H T := by
  obtain ⟨f1, f2, f3, _⟩ := hf
  constructor
  · intro id e hg; rw [f1] at hg; exact h.ids id e hg
  · intro id e hg; rw [f1] at hg; rw [f2]; exact h.fwd id e hg
  · intro r id hg; rw [f2] at hg; rw [f1]; exact h.bwd r id hg
  · rw [f1, f3]; exact h.numbers
  · intro id e hg; rw [f1] at hg; exact h.cap id e hg
  · intro id e hg; rw [f1] at hg; exact h.names id e hg

theorem applyBlock_inv (cfg : Cfg) (hfr : FrameOK cfg) {st : State} {H : Nat} (h : RInv st H 0) (blk : Block)
    (st' : State) (evs : List Event) (hH : blk.height = H) (hlen : blk.txs.length ≤ 4294967296)
    (hr : applyBlock cfg st blk = .ok (st', evs)) : RInv st' (H + 1) 0 := by
  unfold applyBlock at hr
  simp only at hr
  -- first phase
  have h1 : ∀ st1 ev1, (if (cfg.indexInscriptions || cfg.indexAddresses || cfg.indexSats) = true
      then indexUtxoEntries cfg st blk else .ok (st, [])) = .ok (st1, ev1) → RInv st1 H 0 := by
    intro st1 ev1 he
    rcases hfr with hoff | hframe
    · rw [hoff] at he
      simp only [Bool.false_eq_true, if_false, Outcome.ok.injEq, Prod.mk.injEq] at he
      rw [← he.1]; exact h
    · split at he
      · exact RInv_of_frame (hframe st blk st1 ev1 he) h
      · simp only [Outcome.ok.injEq, Prod.mk.injEq] at he
        rw [← he.1]; exact h
  split at hr
  · simp at hr
  · simp at hr
  · rename_i st1 ev1 he1
    have hi1 := h1 st1 ev1 he1
    split at hr
    · simp at hr
    · simp at hr
    · rename_i st2 ev2 he2
      simp only [Outcome.ok.injEq, Prod.mk.injEq] at hr
      have hi2 : RInv st2 (H + 1) 0 := by
        split at he2
        · exact block_inv hi1 blk st2 ev2 hH hlen he2
        · simp only [Outcome.ok.injEq, Prod.mk.injEq] at he2
          rw [← he2.1]; exact RInv_next hi1
      rw [← hr.1]
      exact ⟨hi2.ids, hi2.fwd, hi2.bwd, hi2.numbers, hi2.cap, hi2.names⟩

theorem chainOK_snoc {pre : List Block} {b : Block} (h : ChainOK (pre ++ [b])) :
    ChainOK pre ∧ b.height = pre.length ∧ b.txs.length ≤ 4294967296 := by
  refine ⟨?_, ?_⟩
  · intro i hi
    have := h i (by simp; omega)
    simpa [List.getElem_append_left hi] using this
  · have := h pre.length (by simp)
    simpa using this

/-- **Every reachable state of a valid chain satisfies the invariant.** -/
theorem run_inv (cfg : Cfg) (hfr : FrameOK cfg) (chain : List Block) (st : State) (evs : List Event)
    (hr : run cfg chain = .ok (st, evs)) (hc : ChainOK chain) : RInv st chain.length 0 := by
  have := run_induct cfg (fun pre st _ => ChainOK pre → RInv st pre.length 0)
    (fun _ => RInv_empty 0 0)
    (fun pre st evs b st' ev' ih hb hok => by
      obtain ⟨hpre, hh, hl⟩ := chainOK_snoc hok
      have := applyBlock_inv cfg hfr (ih hpre) b st' ev' hh hl hb
      simpa using this)
    chain st evs hr
  exact this hc

end Ord.Index.Runemint
