import OrdModel.Proofs.IndexInslocLoc
namespace Ord.Index.Insloc
open Ord Ord.Index Outcome

/-! ### the placement half: exactly one `push_inscription` -/

def entSeqs (e : UtxoEntry) : List Nat := e.ins.map (·.1)
def optSeqs : Option UtxoEntry → List Nat
  | some e => entSeqs e
  | none => []

/-- sequence numbers already placed by the transaction being indexed: its output entries and the
block's pending null / unbound cache entries -/
def located (outs : List UtxoEntry) (ctx : InsCtx) : List Nat :=
  outs.flatMap entSeqs ++ (optSeqs ctx.nullEntry ++ optSeqs ctx.unboundEntry)

@[simp] theorem entSeqs_pushIns (e : UtxoEntry) (q off : Nat) :
    entSeqs (pushIns e q off) = entSeqs e ++ [q] := by simp [entSeqs, pushIns]

theorem entSeqs_getD_empty (o : Option UtxoEntry) : entSeqs (o.getD UtxoEntry.empty) = optSeqs o := by
  cases o <;> simp [optSeqs, entSeqs, UtxoEntry.empty]

theorem flatMap_set_perm (outs : List UtxoEntry) (vout : Nat) (e e' : UtxoEntry) (q : Nat)
    (h : outs[vout]? = some e) (he : entSeqs e' = entSeqs e ++ [q]) :
    ((outs.set vout e').flatMap entSeqs).Perm (outs.flatMap entSeqs ++ [q]) := by
  induction outs generalizing vout with
  | nil => simp at h
  | cons a rest ih =>
    cases vout with
    | zero =>
      simp at h; subst h
      simp only [List.set_cons_zero, List.flatMap_cons, he, List.append_assoc]
      exact List.Perm.append_left _ List.perm_append_comm
    | succ v =>
      simp at h
      simp only [List.set_cons_succ, List.flatMap_cons, List.append_assoc]
      exact List.Perm.append_left _ (ih v h)

/-- where the single push went; `ucount`, `nullE`, `unbE` are the unbound counter and the pending
null / unbound cache entries before the push -/
inductive Placed (sp : SatPoint) (tgt : Target) (outs : List UtxoEntry) (u : Bool) (q : Nat)
    (ucount : Nat) (nullE unbE : Option UtxoEntry) (ls' : LocState) : Prop where
  | unbound (hu : u = true)
      (houts : ls'.outs = outs) (hnull : ls'.ctx.nullEntry = nullE)
      (hunb : ls'.ctx.unboundEntry = some (pushIns (unbE.getD UtxoEntry.empty) q ucount))
      (hcount : ls'.st.unbound = ucount + 1)
  | output (hu : u = false) (vout : Nat) (e : UtxoEntry) (htgt : tgt = .output vout)
      (hget : outs[vout]? = some e)
      (houts : ls'.outs = outs.set vout (pushIns e q sp.offset))
      (hnull : ls'.ctx.nullEntry = nullE) (hunb : ls'.ctx.unboundEntry = unbE)
      (hcount : ls'.st.unbound = ucount)
  | null (hu : u = false) (htgt : tgt = .null) (hspecial : sp.outpoint.isSpecial = true)
      (houts : ls'.outs = outs)
      (hnull : ls'.ctx.nullEntry = some (pushIns (nullE.getD UtxoEntry.empty) q sp.offset))
      (hunb : ls'.ctx.unboundEntry = unbE)
      (hcount : ls'.st.unbound = ucount)

theorem place_spec (sp : SatPoint) (tgt : Target) (outs : List UtxoEntry) (u : Bool) (q : Nat)
    (st : State) (ctx : InsCtx) (ls' : LocState) (h : place sp tgt outs u q st ctx = .ok ls') :
    Placed sp tgt outs u q st.unbound ctx.nullEntry ctx.unboundEntry ls' ∧
    ls'.st.entries = st.entries ∧ ls'.st.utxo = st.utxo ∧ ls'.st.seq2sp = st.seq2sp ∧
    ls'.st.lostSats = st.lostSats ∧
    ls'.ctx.flotsam = ctx.flotsam ∧ ls'.ctx.reward = ctx.reward ∧ ls'.ctx.lostSats = ctx.lostSats := by
  unfold place at h
  split at h
  · next hu =>
    simp only [ok.injEq] at h; subst h
    exact ⟨.unbound hu rfl rfl rfl rfl, rfl, rfl, rfl, rfl, rfl, rfl, rfl⟩
  · next hu =>
    have hu' : u = false := by simpa using hu
    split at h
    · next vout =>
      split at h
      · simp at h
      · next e he =>
        simp only [ok.injEq] at h; subst h
        exact ⟨.output hu' vout e rfl he rfl rfl rfl rfl, rfl, rfl, rfl, rfl, rfl, rfl, rfl⟩
    · split at h
      · simp at h
      · next hs =>
        simp only [ok.injEq] at h; subst h
        exact ⟨.null hu' rfl (by simpa using hs) rfl rfl rfl rfl, rfl, rfl, rfl, rfl, rfl, rfl, rfl⟩

theorem Placed.outs_length {sp tgt outs u q uc nullE unbE ls'}
    (h : Placed sp tgt outs u q uc nullE unbE ls') : ls'.outs.length = outs.length := by
  cases h with
  | unbound _ houts => rw [houts]
  | output _ _ _ _ _ houts => rw [houts]; simp
  | null _ _ _ houts => rw [houts]

theorem Placed.located_perm {sp tgt outs u q uc ls'} {ctx : InsCtx}
    (h : Placed sp tgt outs u q uc ctx.nullEntry ctx.unboundEntry ls') :
    (located ls'.outs ls'.ctx).Perm (located outs ctx ++ [q]) := by
  unfold located
  cases h with
  | unbound _ houts hnull hunb =>
    rw [houts, hnull, hunb]
    simp only [optSeqs, entSeqs_pushIns, entSeqs_getD_empty, List.append_assoc]
    exact List.Perm.refl _
  | output _ vout e _ hget houts hnull hunb =>
    rw [houts, hnull, hunb]
    have := flatMap_set_perm outs vout e (pushIns e q sp.offset) q hget (by simp)
    refine (List.Perm.append_right _ this).trans ?_
    simp only [List.append_assoc]
    refine List.Perm.append_left _ ?_
    have := List.perm_append_comm (l₁ := [q]) (l₂ := optSeqs ctx.nullEntry ++ optSeqs ctx.unboundEntry)
    simpa using this
  | null _ _ _ houts hnull hunb =>
    rw [houts, hnull, hunb]
    simp only [optSeqs, entSeqs_pushIns, entSeqs_getD_empty, List.append_assoc]
    refine List.Perm.append_left _ (List.Perm.append_left _ ?_)
    exact List.perm_append_comm

/-! ### `update_inscription_location` as a whole -/

/-- what one call of `update_inscription_location` does to the entry table -/
inductive EntryEffect (rs : Option (List (Nat × Nat))) (fl : Flotsam) (sp : SatPoint) (opr : Bool)
    (st st' : State) : Prop where
  | new (hnew : isNew fl = true) (entry : InsEntry)
      (happ : st'.entries = st.entries ++ [entry]) (hseq : entry.seq = st.entries.length)
      (hid : entry.id = fl.id) (hsat : entry.sat = flSat rs fl)
      (hburn : opr = true → hasCharm entry.charms charmBurned = true)
      (hlost : sp.outpoint.isNull = true → hasCharm entry.charms charmLost = true)
      (hunb : flUnbound fl = true → hasCharm entry.charms charmUnbound = true)
  | old (seq : Nat) (osp : SatPoint) (ho : fl.origin = .old seq osp)
      (hlen : st'.entries.length = st.entries.length)
      (hother : ∀ i, i ≠ seq → st'.entries[i]? = st.entries[i]?)
      (hsame : ∀ e, st.entries[seq]? = some e → ∃ e', st'.entries[seq]? = some e' ∧ e'.sat = e.sat ∧
        e'.seq = e.seq ∧ (opr = true → hasCharm e'.charms charmBurned = true) ∧ (opr = false → e' = e))

structure UilSpec (rs : Option (List (Nat × Nat))) (fl : Flotsam) (sp : SatPoint) (opr : Bool)
    (tgt : Target) (ls ls' : LocState) : Prop where
  placed : Placed sp tgt ls.outs (flUnbound fl) (flSeq ls.st.entries.length fl) ls.st.unbound
    ls.ctx.nullEntry ls.ctx.unboundEntry ls'
  entry : EntryEffect rs fl sp opr ls.st ls'.st
  utxo : ls'.st.utxo = ls.st.utxo
  seq2sp : ls'.st.seq2sp = ls.st.seq2sp
  stLost : ls'.st.lostSats = ls.st.lostSats
  flotsam : ls'.ctx.flotsam = ls.ctx.flotsam
  reward : ls'.ctx.reward = ls.ctx.reward
  ctxLost : ls'.ctx.lostSats = ls.ctx.lostSats

theorem uil_spec (cfg : Cfg) (height time : Nat) (rs : Option (List (Nat × Nat))) (fl : Flotsam)
    (sp : SatPoint) (opr : Bool) (tgt : Target) (ls ls' : LocState)
    (h : updateInscriptionLocation cfg height time rs fl sp opr tgt ls = .ok ls') :
    UilSpec rs fl sp opr tgt ls ls' := by
  rw [updateInscriptionLocation_eq] at h
  split at h
  · simp at h
  · simp at h
  · next u q st ctx hstep =>
    obtain ⟨hp, he, hu, hs, hl, hf, hr, hcl⟩ := place_spec _ _ _ _ _ _ _ _ h
    cases horig : fl.origin with
    | old seq osp =>
      obtain ⟨rfl, rfl, hfr, hcf, hlen, hother, hsame⟩ := locStep_old _ _ _ _ _ _ _ _ _ horig _ _ _ _ hstep
      have hq : flSeq ls.st.entries.length fl = q := by simp [flSeq, horig]
      have hub : flUnbound fl = false := by simp [flUnbound, horig]
      refine ⟨?_, .old q osp horig (by rw [he]; exact hlen) (by rw [he]; exact hother) (by rw [he]; exact hsame),
        hu.trans hfr.utxo, hs.trans hfr.seq2sp, hl.trans hfr.lostSats, hf.trans hcf.flotsam,
        hr.trans hcf.reward, hcl.trans hcf.lostSats⟩
      rw [hq, hub, ← hfr.unbound, ← hcf.nullEntry, ← hcf.unboundEntry]; exact hp
    | new cursed fee gallery hidden parents reins unb vind =>
      obtain ⟨rfl, rfl, hfr, hcf, entry, happ, hseq, hid, hsat, hb, hlo, hun⟩ :=
        locStep_new _ _ _ _ _ _ _ _ _ _ _ _ _ _ _ horig _ _ _ _ hstep
      have hq : flSeq ls.st.entries.length fl = ls.st.entries.length := by simp [flSeq, horig]
      have hub : flUnbound fl = u := by simp [flUnbound, horig]
      refine ⟨?_, .new (by simp [isNew, horig]) entry (by rw [he]; exact happ) hseq hid hsat hb hlo
          (by rw [hub]; exact hun),
        hu.trans hfr.utxo, hs.trans hfr.seq2sp, hl.trans hfr.lostSats, hf.trans hcf.flotsam,
        hr.trans hcf.reward, hcl.trans hcf.lostSats⟩
      rw [hq, hub, ← hfr.unbound, ← hcf.nullEntry, ← hcf.unboundEntry]; exact hp

end Ord.Index.Insloc
