import OrdModel.Proofs.BuilderBasic
/-! Stage lemmas for C20 (safety part): which inputs a stage can add, and what the
`select_outgoing` stage established. -/
namespace Ord.Builder
open Ord Ord.Outcome

/-- every input is the outgoing outpoint or a cardinal wallet UTXO -/
def InputsOk (w : Wallet) (r : Request) (ins : List Nat) : Prop :=
  ∀ op ∈ ins, op = r.outgoing.1 ∨ ((w.amounts.lookup op).isSome ∧ isCardinal w op = true)

theorem scanCardinal_some (w : Wallet) (t : Nat) (pu : Bool) :
    ∀ (us : List Nat) (best : Option (Nat × Nat)) (u v : Nat),
      scanCardinal w t pu us best = .ok (some (u, v)) →
      best = some (u, v) ∨ (isCardinal w u = true ∧ w.amounts.lookup u = some v ∧ u ∈ us) := by
  intro us
  induction us with
  | nil => intro best u v h; simp_all [scanCardinal]
  | cons x rest ih =>
    intro best u v h
    unfold scanCardinal at h
    split at h
    · rename_i hc
      split at h
      · simp at h
      · rename_i cur hcur
        split at h
        · rcases ih _ _ _ h with hb | ⟨h1, h2, h3⟩
          · simp only [Option.some.injEq, Prod.mk.injEq] at hb
            obtain ⟨rfl, rfl⟩ := hb
            exact Or.inr ⟨hc, hcur, List.mem_cons_self⟩
          · exact Or.inr ⟨h1, h2, List.mem_cons_of_mem _ h3⟩
        · split at h
          · rcases ih _ _ _ h with hb | ⟨h1, h2, h3⟩
            · simp only [Option.some.injEq, Prod.mk.injEq] at hb
              obtain ⟨rfl, rfl⟩ := hb
              exact Or.inr ⟨hc, hcur, List.mem_cons_self⟩
            · exact Or.inr ⟨h1, h2, List.mem_cons_of_mem _ h3⟩
          · rcases ih _ _ _ h with hb | ⟨h1, h2, h3⟩
            · exact Or.inl hb
            · exact Or.inr ⟨h1, h2, List.mem_cons_of_mem _ h3⟩
    · rcases ih _ _ _ h with hb | ⟨h1, h2, h3⟩
      · exact Or.inl hb
      · exact Or.inr ⟨h1, h2, List.mem_cons_of_mem _ h3⟩

theorem selectCardinal_ok {w : Wallet} {us : List Nat} {t : Nat} {pu : Bool} {u v : Nat} {us' : List Nat}
    (h : selectCardinal w us t pu = .ok (u, v, us')) :
    isCardinal w u = true ∧ w.amounts.lookup u = some v ∧ u ∈ us ∧ us' = us.erase u := by
  unfold selectCardinal at h
  split at h
  · simp at h
  · rename_i u' v' hs
    simp only [Outcome.ok.injEq, Prod.mk.injEq] at h
    obtain ⟨rfl, rfl, rfl⟩ := h
    rcases scanCardinal_some w t pu us none _ _ hs with hb | ⟨h1, h2, h3⟩
    · simp at hb
    · exact ⟨h1, h2, h3, rfl⟩
  · simp at h
  · simp at h

theorem inscriptionCheck_ok (d : Nat) (out : Nat × Nat) :
    ∀ (l : List (Nat × Nat)), inscriptionCheck d out l = .ok () →
      ∀ sp ∈ l, sp.1 = out.1 → sp.2 ≠ out.2 → sp.2 + d ≤ out.2 := by
  intro l
  induction l with
  | nil => intro _ sp h; simp at h
  | cons x rest ih =>
    intro h sp hsp h1 h2
    unfold inscriptionCheck at h
    split at h
    · rename_i hc
      split at h
      · split at h
        · simp at h
        · rcases List.mem_cons.1 hsp with rfl | hm
          · omega
          · exact ih h sp hm h1 h2
      · simp at h
    · rename_i hc
      rcases List.mem_cons.1 hsp with rfl | hm
      · exact absurd ⟨h1.symm, fun h' => h2 h'.symm⟩ hc
      · exact ih h sp hm h1 h2

/-! ### per-stage: inputs -/

theorem selectOutgoing_ok {env : Env} {w : Wallet} {r : Request} {st st' : St}
    (h : selectOutgoing env w r st = .ok st') :
    ∃ c amount, st.unused.head? = some c ∧
      inscriptionCheck (env.dust c) r.outgoing w.inscriptions.reverse = .ok () ∧
      w.amounts.lookup r.outgoing.1 = some amount ∧ r.outgoing.2 < amount ∧
      st' = { st with utxos := st.utxos.erase r.outgoing.1, inputs := st.inputs ++ [r.outgoing.1],
                      outputs := st.outputs ++ [(r.recipient, amount)] } := by
  unfold selectOutgoing at h
  split at h
  · simp at h
  · rename_i c hc
    split at h
    · simp at h
    · simp at h
    · rename_i hi
      split at h
      · simp at h
      · rename_i amount ha
        split at h
        · split at h <;> simp at h
        · simp only [Outcome.ok.injEq] at h
          exact ⟨c, amount, hc, hi, ha, by omega, h.symm⟩

theorem alignOutgoing_inputs {w : Wallet} {r : Request} {st st' : St}
    (h : alignOutgoing w r st = .ok st') : st'.inputs = st.inputs ∧ st'.utxos = st.utxos := by
  unfold alignOutgoing at h
  simp only [bind_def] at h
  obtain ⟨_, _, h⟩ := bind_eq_ok.1 h
  split at h
  · simp at h
  · obtain ⟨_, _, h⟩ := bind_eq_ok.1 h
    obtain ⟨so, _, h⟩ := bind_eq_ok.1 h
    split at h
    · simp only [Outcome.ok.injEq] at h; subst h; exact ⟨rfl, rfl⟩
    · split at h
      · simp at h
      · obtain ⟨outs, _, h⟩ := bind_eq_ok.1 h
        simp only [Outcome.ok.injEq] at h; subst h; exact ⟨rfl, rfl⟩

theorem padLoop_inputs (w : Wallet) (r : Request) (d : Nat) :
    ∀ (fuel : Nat) (st st' : St), padLoop w d fuel st = .ok st' →
      InputsOk w r st.inputs → InputsOk w r st'.inputs := by
  intro fuel
  induction fuel with
  | zero => intro st st' h; simp [padLoop] at h
  | succ n ih =>
    intro st st' h hin
    unfold padLoop at h
    split at h
    · simp at h
    · split at h
      · split at h
        · simp at h
        · simp at h
        · rename_i utxo size utxos' hsel
          split at h
          · simp at h
          · simp at h
          · refine ih _ _ h ?_
            obtain ⟨hc, hl, _, _⟩ := selectCardinal_ok hsel
            intro op hop
            rcases List.mem_cons.1 hop with rfl | hm
            · exact Or.inr ⟨by simp [hl], hc⟩
            · exact hin op hm
      · simp only [Outcome.ok.injEq] at h; subst h; exact hin

theorem padAlignmentOutput_inputs {env : Env} {w : Wallet} {r : Request} {st st' : St}
    (h : padAlignmentOutput env w r st = .ok st') (hin : InputsOk w r st.inputs) :
    InputsOk w r st'.inputs := by
  unfold padAlignmentOutput at h
  split at h
  · simp at h
  · split at h
    · simp only [Outcome.ok.injEq] at h; subst h; exact hin
    · split at h
      · simp at h
      · exact padLoop_inputs w r _ _ _ _ h hin

theorem addLoop_inputs (env : Env) (w : Wallet) (r : Request) :
    ∀ (fuel deficit : Nat) (st st' : St), addLoop env w fuel deficit st = .ok st' →
      InputsOk w r st.inputs → InputsOk w r st'.inputs := by
  intro fuel
  induction fuel with
  | zero => intro d st st' h; simp [addLoop] at h
  | succ n ih =>
    intro d st st' h hin
    unfold addLoop at h
    split at h
    · simp only at h
      split at h
      · split at h
        · simp at h
        · simp at h
        · rename_i utxo value utxos' hsel
          split at h
          · simp at h
          · split at h
            · simp at h
            · simp at h
            · refine ih _ _ _ h ?_
              obtain ⟨hc, hl, _, _⟩ := selectCardinal_ok hsel
              intro op hop
              rcases List.mem_append.1 hop with hm | hm
              · exact hin op hm
              · simp only [List.mem_singleton] at hm; subst hm
                exact Or.inr ⟨by simp [hl], hc⟩
      · simp at h
    · simp only [Outcome.ok.injEq] at h; subst h; exact hin

theorem addValue_inputs {env : Env} {w : Wallet} {r : Request} {st st' : St}
    (h : addValue env w r st = .ok st') (hin : InputsOk w r st.inputs) :
    InputsOk w r st'.inputs := by
  unfold addValue at h
  simp only [bind_def] at h
  obtain ⟨last, _, h⟩ := bind_eq_ok.1 h
  split at h
  · split at h
    · exact addLoop_inputs env w r _ _ _ _ h hin
    · simp only [Outcome.ok.injEq] at h; subst h; exact hin
  · simp at h

theorem stripValue_inputs {env : Env} {w : Wallet} {r : Request} {st st' : St}
    (h : stripValue env w r st = .ok st') : st'.inputs = st.inputs := by
  unfold stripValue at h
  simp only [bind_def] at h
  obtain ⟨so, _, h⟩ := bind_eq_ok.1 h
  obtain ⟨total, _, h⟩ := bind_eq_ok.1 h
  obtain ⟨_, _, h⟩ := bind_eq_ok.1 h
  obtain ⟨value, _, h⟩ := bind_eq_ok.1 h
  split at h
  · split at h
    · obtain ⟨diff, _, h⟩ := bind_eq_ok.1 h
      split at h
      · simp at h
      · obtain ⟨rhs, _, h⟩ := bind_eq_ok.1 h
        split at h
        · obtain ⟨outs, _, h⟩ := bind_eq_ok.1 h
          simp only [Outcome.ok.injEq] at h; subst h; rfl
        · simp only [Outcome.ok.injEq] at h; subst h; rfl
    · simp only [Outcome.ok.injEq] at h; subst h; rfl
  · simp only [Outcome.ok.injEq] at h; subst h; rfl

theorem deductFee_inputs {env : Env} {w : Wallet} {r : Request} {st st' : St}
    (h : deductFee env w r st = .ok st') : st'.inputs = st.inputs := by
  unfold deductFee at h
  simp only [bind_def] at h
  obtain ⟨so, _, h⟩ := bind_eq_ok.1 h
  obtain ⟨total, _, h⟩ := bind_eq_ok.1 h
  obtain ⟨last, _, h⟩ := bind_eq_ok.1 h
  obtain ⟨rest, _, h⟩ := bind_eq_ok.1 h
  obtain ⟨_, _, h⟩ := bind_eq_ok.1 h
  obtain ⟨_, _, h⟩ := bind_eq_ok.1 h
  obtain ⟨outs, _, h⟩ := bind_eq_ok.1 h
  simp only [Outcome.ok.injEq] at h; subst h; rfl

/-- decomposition of a successful `build`: the state handed to the final stage has only
admissible inputs, and `select_outgoing` accepted the satpoint -/
theorem build_ok_decompose {env : Env} {w : Wallet} {r : Request} {tx : Tx}
    (h : build env w r = .ok tx) :
    ∃ s6 amount, buildFinal env w r s6 = .ok tx ∧ InputsOk w r s6.inputs ∧
      precheck env r = .ok () ∧
      inscriptionCheck (env.dust r.change1) r.outgoing w.inscriptions.reverse = .ok () ∧
      w.amounts.lookup r.outgoing.1 = some amount ∧ r.outgoing.2 < amount := by
  unfold build at h
  simp only [bind_def] at h
  obtain ⟨_, hpre, h⟩ := bind_eq_ok.1 h
  obtain ⟨s1, h1, h⟩ := bind_eq_ok.1 h
  obtain ⟨s2, h2, h⟩ := bind_eq_ok.1 h
  obtain ⟨s3, h3, h⟩ := bind_eq_ok.1 h
  obtain ⟨s4, h4, h⟩ := bind_eq_ok.1 h
  obtain ⟨s5, h5, h⟩ := bind_eq_ok.1 h
  obtain ⟨s6, h6, h⟩ := bind_eq_ok.1 h
  obtain ⟨c, amount, hc, hi, ha, hoff, hs1⟩ := selectOutgoing_ok h1
  simp only [initial, List.head?_cons, Option.some.injEq] at hc
  subst hc
  refine ⟨s6, amount, h, ?_, hpre, hi, ha, hoff⟩
  have i1 : InputsOk w r s1.inputs := by
    subst hs1
    intro op hop
    simp only [initial, List.nil_append, List.mem_singleton] at hop
    exact Or.inl hop
  have i2 : InputsOk w r s2.inputs := by rw [(alignOutgoing_inputs h2).1]; exact i1
  have i3 := padAlignmentOutput_inputs h3 i2
  have i4 := addValue_inputs h4 i3
  have i5 : InputsOk w r s5.inputs := by rw [stripValue_inputs h5]; exact i4
  rw [deductFee_inputs h6]; exact i5

end Ord.Builder
