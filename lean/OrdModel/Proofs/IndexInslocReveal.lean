import OrdModel.Proofs.IndexInslocExample
namespace Ord.Index.Insloc
open Ord Ord.Index Outcome

/-- the offset a new inscription is given: its pointer when that is inside the outputs, else the
start of its input -/
def revealOffset (env : Envelope) (inputStart totalOut : Nat) : Nat :=
  match env.pointer with
  | some p => if p < totalOut then p else inputStart
  | none => inputStart

/-- C03, reveal: every flotsam the envelope loop creates for input `i` is new, sits at its
envelope's `revealOffset`, and is flagged unbound when the input has no value or the envelope has
an unrecognised even field. -/
theorem scanNew_flotsam (st : State) (jub : Bool) (txid : Txid) (i off iv totalOut : Nat)
    (envs : List Envelope) (sc sc' : ScanState)
    (h : scanNew st jub txid i off iv totalOut envs sc = .ok sc') :
    ∃ F, sc'.floating = sc.floating ++ F ∧
      ∀ f ∈ F, isNew f = true ∧ ∃ env ∈ envs, f.offset = revealOffset env off totalOut ∧
        (iv = 0 → flUnbound f = true) ∧ (env.unrecognizedEven = true → flUnbound f = true) := by
  induction envs generalizing sc with
  | nil => simp [scanNew] at h; subst h; exact ⟨[], by simp⟩
  | cons env rest ih =>
    simp only [scanNew] at h
    split at h
    · simp only [ok.injEq] at h; subst h; exact ⟨[], by simp⟩
    · split at h
      · simp at h
      · simp at h
      · next curse hc =>
        obtain ⟨F, h1, h2⟩ := ih _ h
        refine ⟨_ :: F, by rw [h1]; simp only [List.append_assoc]; rfl, ?_⟩
        intro f hf
        rcases List.mem_cons.1 hf with rfl | hf
        · refine ⟨rfl, env, List.mem_cons_self .., rfl, ?_, ?_⟩
          · intro h0; simp [flUnbound, h0]
          · intro he; simp [flUnbound, he]
        · obtain ⟨a, e, he, b⟩ := h2 f hf
          exact ⟨a, e, List.mem_cons_of_mem _ he, b⟩

/-- C03, transfer: an inscription already on a spent input floats at
`(value of the earlier inputs) + (its offset in the spent output)` -/
theorem scanOld_flotsam (st : State) (prev : OutPoint) (base : Nat) (l : List (Nat × Nat)) (sc sc' : ScanState)
    (h : scanOld st prev base l sc = .ok sc') :
    ∃ F, sc'.floating = sc.floating ++ F ∧
      F.map (fun f => (f.offset, f.origin)) = l.map (fun p => (base + p.2, Origin.old p.1 ⟨prev, p.2⟩)) := by
  induction l generalizing sc with
  | nil => simp [scanOld] at h; subst h; exact ⟨[], by simp⟩
  | cons p rest ih =>
    obtain ⟨seq, off⟩ := p
    simp only [scanOld] at h
    split at h
    · simp at h
    · next entry he =>
      obtain ⟨F, h1, h2⟩ := ih _ h
      exact ⟨⟨entry.id, base + off, .old seq ⟨prev, off⟩⟩ :: F, by simp [h1], by simp [h2]⟩

/-- the coinbase's left-over loop places each flotsam at the null outpoint at
`lostSats + offset − Σ outputs` -/
theorem applyLost_cons (cfg : Cfg) (height time : Nat) (rs : Option (List (Nat × Nat))) (ov : Nat)
    (fl : Flotsam) (rest : List Flotsam) (ls ls' : LocState)
    (h : applyLost cfg height time rs ov (fl :: rest) ls = .ok ls') :
    ∃ ls1, updateInscriptionLocation cfg height time rs fl
        ⟨OutPoint.null, ls.ctx.lostSats + fl.offset - ov⟩ false .null ls = .ok ls1 ∧
      applyLost cfg height time rs ov rest ls1 = .ok ls' := by
  simp only [applyLost] at h
  split at h
  · simp at h
  · simp at h
  · next ls1 h1 => exact ⟨ls1, h1, h⟩

end Ord.Index.Insloc
