import OrdModel.Wallet.RuneTx
/-
C22 helper lemmas, part 1: the documented allocation (`Spec.allocate`, C09) evaluated on a
runestone whose edicts all name a real output with a non-zero amount and whose amounts are
covered by what is unallocated — the shape every wallet rune transaction has.
-/
namespace Ord.Wallet.RuneTx
open Ord Ord.Index Ord.Index.Spec

/-- units of rune `q` the edicts ask for in total -/
def sumFor (q : RuneId) : List Edict → Nat
  | [] => 0
  | e :: es => (if e.id = q then e.amount else 0) + sumFor q es

/-- units of rune `q` the edicts ask for on output `v` -/
def sumAt (q : RuneId) (v : Nat) : List Edict → Nat
  | [] => 0
  | e :: es => (if e.id = q ∧ e.output = v then e.amount else 0) + sumAt q v es

theorem sumFor_append (q : RuneId) (a b : List Edict) : sumFor q (a ++ b) = sumFor q a + sumFor q b := by
  induction a with
  | nil => simp [sumFor]
  | cons e es ih => simp [sumFor, ih]; omega

theorem sumAt_append (q : RuneId) (v : Nat) (a b : List Edict) : sumAt q v (a ++ b) = sumAt q v a + sumAt q v b := by
  induction a with
  | nil => simp [sumAt]
  | cons e es ih => simp [sumAt, ih]; omega

theorem sumAt_eq_zero (q : RuneId) (v : Nat) (es : List Edict) (h : ∀ e ∈ es, e.output ≠ v) : sumAt q v es = 0 := by
  induction es with
  | nil => rfl
  | cons e es ih =>
    have h1 := h e (List.mem_cons_self ..)
    have h2 := ih (fun e' he' => h e' (List.mem_cons_of_mem _ he'))
    simp only [sumAt, h2]
    rw [if_neg (fun hc => h1 hc.2)]

/-- edicts a wallet writes: a real output, a non-zero amount, a real rune id -/
def Plain (n : Nat) (es : List Edict) : Prop :=
  ∀ e ∈ es, e.output < n ∧ e.amount ≠ 0 ∧ e.id ≠ ⟨0, 0⟩

/-- **Flow of plain, covered edicts**: each edict moves exactly its amount. -/
theorem flow_plain (outs : List Bool) (q : RuneId) : ∀ (es : List Edict) (f : Flow),
    Plain outs.length es → sumFor q es ≤ f.un →
    (flow outs none q es f).un = f.un - sumFor q es ∧
    ∀ v, (flow outs none q es f).out v = f.out v + sumAt q v es := by
  intro es
  induction es with
  | nil => intro f _ _; simp [flow, sumFor, sumAt]
  | cons e es ih =>
    intro f hp hc
    have he := hp e (List.mem_cons_self ..)
    have hp' : Plain outs.length es := fun e' h' => hp e' (List.mem_cons_of_mem _ h')
    simp only [flow]
    have hrune : edictRune none e = some e.id := by
      unfold edictRune; rw [if_neg he.2.2]
    rw [hrune]
    by_cases hq : e.id = q
    · have hq' : (some e.id = some q) := by rw [hq]
      rw [if_pos hq']
      simp only [sumFor, if_pos hq] at hc
      have hedict : f.edict outs e.amount e.output = f.give e.output e.amount := by
        unfold Flow.edict
        rw [if_neg (by omega), if_pos he.1, if_neg he.2.1, Nat.min_eq_left (by omega)]
      rw [hedict]
      have := ih (f.give e.output e.amount) hp' (by simp only [Flow.give]; omega)
      refine ⟨?_, fun v => ?_⟩
      · rw [this.1]; simp only [Flow.give, sumFor, if_pos hq]; omega
      · rw [this.2 v]; simp only [Flow.give, sumAt]
        by_cases hv : v = e.output
        · subst hv; simp [hq]; omega
        · have : ¬ (e.id = q ∧ e.output = v) := fun hc' => hv hc'.2.symm
          simp [hv, this]
    · have hq' : ¬ (some e.id = some q) := fun h => hq (Option.some.inj h)
      rw [if_neg hq']
      simp only [sumFor, if_neg hq] at hc
      have := ih f hp' (by omega)
      refine ⟨?_, fun v => ?_⟩
      · rw [this.1]; simp only [sumFor, if_neg hq]; omega
      · rw [this.2 v]; simp only [sumAt]
        have : ¬ (e.id = q ∧ e.output = v) := fun hc' => hq hc'.1
        simp [this]

/-- nothing sits on an OP_RETURN output ⇒ nothing is burned there -/
theorem sumOpReturnFrom_zero (g : Nat → Nat) : ∀ (outs : List Bool) (i : Nat),
    (∀ j, outs[j]? = some true → g (i + j) = 0) → sumOpReturnFrom g i outs = 0 := by
  intro outs
  induction outs with
  | nil => intro i _; rfl
  | cons b rest ih =>
    intro i h
    simp only [sumOpReturnFrom]
    have hrest : sumOpReturnFrom g (i + 1) rest = 0 := by
      apply ih
      intro j hj
      have := h (j + 1) (by simpa using hj)
      rw [← this]; congr 1; omega
    rw [hrest]
    cases b with
    | false => simp
    | true => have := h 0 (by simp); simpa using this

theorem opReturnAt_append_left (a b : List Bool) (v : Nat) (hv : v < a.length) :
    opReturnAt (a ++ b) v = opReturnAt a v := by
  unfold opReturnAt
  rw [List.getElem?_append_left hv]

/-- the outcome of `Spec.allocate` for a runestone without pointer, in terms of the flow -/
theorem allocate_runestone (outs : List Bool) (es : List Edict) (q : RuneId) (u0 : Nat) :
    Spec.allocate outs (.runestone es none) none q u0
      = settle outs none (flow outs none q es (Flow.start u0)) := rfl

/-- `settle` without pointer when the first non-OP_RETURN output is `c` -/
theorem settle_default (outs : List Bool) (f : Flow) (c : Nat) (hc : (eligible outs).head? = some c) :
    (settle outs none f).out = (fun v => if opReturnAt outs v then 0 else (f.give c f.un).out v) ∧
    (settle outs none f).burned = (f.give c f.un).un + sumOpReturnFrom (f.give c f.un).out 0 outs := by
  simp [settle, hc]

theorem settle_nodefault (outs : List Bool) (f : Flow) (hc : (eligible outs).head? = none) :
    (settle outs none f).out = (fun v => if opReturnAt outs v then 0 else f.out v) ∧
    (settle outs none f).burned = f.un + sumOpReturnFrom f.out 0 outs := by
  simp [settle, hc]

end Ord.Wallet.RuneTx

namespace Ord.Wallet.RuneTx
open Ord Ord.Index Ord.Index.Spec

theorem opReturnAt_of_getElem? (outs : List Bool) (j : Nat) (h : outs[j]? = some true) : opReturnAt outs j = true := by
  unfold opReturnAt; rw [h]

/-- **Allocation of a wallet runestone** on the funded transaction `pre ++ extra` (`pre` = the
outputs the wallet laid out, `extra` = whatever the node appended): when the edicts are plain,
covered by `u0`, aim at non-OP_RETURN outputs of `pre`, and the first non-OP_RETURN output of the
transaction is `c` (inside `pre`), then output `v` ends up with exactly what the edicts naming it
ask for, `c` additionally gets everything the edicts leave over, and nothing is burned. -/
theorem alloc_plain (pre extra : List Bool) (es : List Edict) (q : RuneId) (u0 c : Nat)
    (hp : Plain pre.length es) (hcov : sumFor q es ≤ u0)
    (hc : (eligible (pre ++ extra)).head? = some c) (hcl : c < pre.length)
    (hcn : opReturnAt pre c = false) (ht : ∀ e ∈ es, opReturnAt pre e.output = false) :
    (∀ v, (Spec.allocate (pre ++ extra) (.runestone es none) none q u0).out v
        = sumAt q v es + (if v = c then u0 - sumFor q es else 0)) ∧
    (Spec.allocate (pre ++ extra) (.runestone es none) none q u0).burned = 0 := by
  have hp' : Plain (pre ++ extra).length es := by
    intro e he
    have := hp e he
    refine ⟨?_, this.2⟩
    rw [List.length_append]; omega
  have hf := flow_plain (pre ++ extra) q es (Flow.start u0) hp' hcov
  have hf1 : (flow (pre ++ extra) none q es (Flow.start u0)).un = u0 - sumFor q es := hf.1
  have hf2 : ∀ v, (flow (pre ++ extra) none q es (Flow.start u0)).out v = sumAt q v es := by
    intro v; rw [hf.2 v]; simp [Flow.start]
  rw [allocate_runestone]
  have hs := settle_default (pre ++ extra) (flow (pre ++ extra) none q es (Flow.start u0)) c hc
  -- what sits where after the leftovers went to `c`
  have hg : ∀ v, ((flow (pre ++ extra) none q es (Flow.start u0)).give c
      (flow (pre ++ extra) none q es (Flow.start u0)).un).out v
      = sumAt q v es + (if v = c then u0 - sumFor q es else 0) := by
    intro v
    simp only [Flow.give, hf2 v, hf1]
    by_cases hv : v = c
    · simp [hv]
    · simp [hv]
  -- an OP_RETURN output holds nothing
  have hz : ∀ v, opReturnAt (pre ++ extra) v = true →
      sumAt q v es + (if v = c then u0 - sumFor q es else 0) = 0 := by
    intro v hv
    have h1 : sumAt q v es = 0 := by
      apply sumAt_eq_zero
      intro e he hev
      have hlt := (hp e he).1
      have := ht e he
      rw [hev] at this hlt
      rw [opReturnAt_append_left pre extra v hlt, this] at hv
      cases hv
    have h2 : v ≠ c := by
      intro hvc
      rw [hvc, opReturnAt_append_left pre extra c hcl, hcn] at hv
      cases hv
    simp [h1, h2]
  refine ⟨fun v => ?_, ?_⟩
  · rw [hs.1]
    by_cases hv : opReturnAt (pre ++ extra) v = true
    · simp only [hv, if_true]; exact (hz v hv).symm
    · simp only [hv]; exact hg v
  · rw [hs.2]
    have h0 : ((flow (pre ++ extra) none q es (Flow.start u0)).give c
        (flow (pre ++ extra) none q es (Flow.start u0)).un).un = 0 := by
      simp [Flow.give]
    rw [h0, Nat.zero_add]
    apply sumOpReturnFrom_zero
    intro j hj
    rw [Nat.zero_add, hg j]
    exact hz j (opReturnAt_of_getElem? _ _ hj)

end Ord.Wallet.RuneTx
