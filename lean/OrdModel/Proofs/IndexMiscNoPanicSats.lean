import OrdModel.Index.Inscriptions
/-
C16, part 3: the two sat-range failure sites, each discharged from its arithmetic precondition
(over all inputs; no well-formedness of the ranges is needed because the model and `rangesValue`
use the same truncated `end - start`).
-/
namespace Ord.Index
open Outcome

theorem foldl_rangesValue_shift (l : List (Nat × Nat)) (a : Nat) :
    l.foldl (fun acc r => acc + (r.2 - r.1)) a = a + l.foldl (fun acc r => acc + (r.2 - r.1)) 0 := by
  induction l generalizing a with
  | nil => simp
  | cons r rest ih =>
    simp only [List.foldl_cons]
    rw [ih (a + (r.2 - r.1)), ih (0 + (r.2 - r.1))]
    omega

theorem rangesValue_nil : rangesValue [] = 0 := rfl

theorem rangesValue_cons (s e : Nat) (rest : List (Nat × Nat)) :
    rangesValue ((s, e) :: rest) = (e - s) + rangesValue rest := by
  simp only [rangesValue, List.foldl_cons]
  rw [foldl_rangesValue_shift]
  omega

/-- `calculate_sat`'s `unreachable!()` is unreachable when the offset lies inside the input ranges -/
theorem calculateSat_ok (rs : List (Nat × Nat)) (offset inputOffset : Nat)
    (hlo : offset ≤ inputOffset) (hhi : inputOffset < offset + rangesValue rs) :
    ∃ n, calculateSat rs offset inputOffset = .ok n := by
  induction rs generalizing offset with
  | nil => simp only [rangesValue_nil] at hhi; omega
  | cons r rest ih =>
    obtain ⟨s, e⟩ := r
    rw [rangesValue_cons] at hhi
    simp only [calculateSat]
    split
    · exact ⟨_, rfl⟩
    · exact ih (offset + (e - s)) (by omega) (by omega)

/-- one output can be filled when the queue holds at least its value; the queue shrinks by exactly that -/
theorem fillOutput_some (q : List (Nat × Nat)) (rem done : Nat) (h : rem ≤ rangesValue q) :
    ∃ r, fillOutput q rem done = some r ∧ rangesValue r.queue = rangesValue q - rem := by
  induction q generalizing rem done with
  | nil =>
    cases rem with
    | zero => exact ⟨⟨[], [], []⟩, by simp [fillOutput], by simp⟩
    | succ n => simp only [rangesValue_nil] at h; omega
  | cons r rest ih =>
    obtain ⟨s, e⟩ := r
    cases rem with
    | zero => exact ⟨⟨[], (s, e) :: rest, []⟩, by simp [fillOutput], by simp⟩
    | succ n =>
      rw [rangesValue_cons] at h
      simp only [fillOutput]
      split
      · refine ⟨_, rfl, ?_⟩
        simp only [rangesValue_cons]
        omega
      · obtain ⟨r', hr', hq'⟩ := ih (n + 1 - (e - s)) (done + (e - s)) (by omega)
        rw [hr']
        refine ⟨_, rfl, ?_⟩
        simp only [rangesValue_cons, hq']
        omega

theorem indexTransactionSatsAux_some (values : List Nat) (vout : Nat) (q : List (Nat × Nat))
    (h : values.sum ≤ rangesValue q) : ∃ t, indexTransactionSatsAux values vout q = some t := by
  induction values generalizing vout q with
  | nil => exact ⟨_, rfl⟩
  | cons v vs ih =>
    simp only [List.sum_cons] at h
    obtain ⟨r, hr, hq⟩ := fillOutput_some q v 0 (by omega)
    obtain ⟨t, ht⟩ := ih (vout + 1) r.queue (by omega)
    simp only [indexTransactionSatsAux, hr, ht]
    exact ⟨_, rfl⟩

end Ord.Index
