import OrdModel.Proofs.SatSpecLemmas
import Lean.Elab.Term
/-!
Kernel-cheap unfolding of the `Outcome`-valued sat functions.

`Sat.heightO s` contains `epoch s * 210000` (`Epoch.startingHeightO`).  Whenever the kernel has to
put `Sat.heightO s` (symbolic `s`) into weak-head normal form it unfolds `Nat.mul _ 210000` by
unary recursion on the literal, 210 000 levels deep (≈ 1–2 minutes per declaration).  This
happens in every `f s = match Sat.heightO s with …` equation proved by `rfl` at an *applied* `s`
(`unfold f`, `f.eq_1`, `delta f`): a matcher is reducible, so the kernel unfolds the matcher side
first and then evaluates the discriminant.

Stating the unfolding at the *function* level (`f = fun s => match …`, with literally the value
the definition was compiled to) avoids that: a constant against a lambda is unfolded first and
the bodies are then syntactically identical.  `unfold_eq% f` builds that statement from the
definition's own value; the statement is kernel-checked by `rfl` like any other.
-/
namespace Ord

open Lean Elab Term Meta in
/-- `unfold_eq% f` is the proposition `f = <the value f was defined with>` -/
elab "unfold_eq% " id:ident : term => do
  let c ← realizeGlobalConstNoOverload id
  let info ← getConstInfo c
  let lhs := Lean.mkConst c (info.levelParams.map mkLevelParam)
  mkEq lhs info.value!

theorem Degree.ofSatO_fun : unfold_eq% Degree.ofSatO := rfl
theorem Rarity.ofSatO_fun : unfold_eq% Rarity.ofSatO := rfl
theorem Sat.periodO_fun : unfold_eq% Sat.periodO := rfl
theorem Sat.decimalO_fun : unfold_eq% Sat.decimalO := rfl
theorem Sat.charmsO_fun : unfold_eq% Sat.charmsO := rfl
theorem Sat.palindromeO_fun : unfold_eq% Sat.palindromeO := rfl

namespace Sat
open Ord.Epoch

theorem degreeO_of (s h k : Nat) (h1 : heightO s = .ok h) (h2 : thirdO s = .ok k) :
    Degree.ofSatO s = .ok ⟨h / 1260000, h % 210000, h % 2016, k⟩ := by
  rw [Degree.ofSatO_fun]; dsimp only; rw [h1, h2]; rfl

theorem rarityO_of (s : Nat) (d : Degree) (h1 : Degree.ofSatO s = .ok d) :
    Rarity.ofSatO s = .ok (Rarity.ofDegree d) := by
  rw [Rarity.ofSatO_fun]; dsimp only; rw [h1]

theorem periodO_of (s h : Nat) (h1 : heightO s = .ok h) : periodO s = .ok (h / 2016) := by
  rw [periodO_fun]; dsimp only; rw [h1]; rfl

theorem decimalO_of (s h k : Nat) (h1 : heightO s = .ok h) (h2 : thirdO s = .ok k) :
    decimalO s = .ok (h, k) := by
  rw [decimalO_fun]; dsimp only; rw [h1, h2]

theorem charmsO_of (s : Nat) (pal : Bool) (r : Rarity) (h1 : palindromeO s = .ok pal)
    (h2 : Rarity.ofSatO s = .ok r) :
    charmsO s = .ok (charmsOf (nineball s) pal (coin s) r) := by
  rw [charmsO_fun]; dsimp only; rw [h1, h2]

theorem palindromeO_of (s r : Nat) (h1 : reverseDigitsO 20 s 0 = .ok r) :
    palindromeO s = .ok (s == r) := by
  rw [palindromeO_fun]; dsimp only; rw [h1]

/-- epoch, cycle, period, degree, decimal, rarity of the `k`-th sat of block `h` (the statement of
`c29_attributes`) -/
theorem attributes (h k : Nat) (hh : h < 6930000) (hk : k < Height.subsidy h) :
    Sat.epoch (Height.startingSat h + k) = h / 210000 ∧
    Sat.cycle (Height.startingSat h + k) = h / 1260000 ∧
    Sat.periodO (Height.startingSat h + k) = .ok (h / 2016) ∧
    Degree.ofSatO (Height.startingSat h + k) = .ok ⟨h / 1260000, h % 210000, h % 2016, k⟩ ∧
    Sat.decimalO (Height.startingSat h + k) = .ok (h, k) ∧
    Rarity.ofSatO (Height.startingSat h + k) = .ok (Rarity.ofDegree ⟨h / 1260000, h % 210000, h % 2016, k⟩) := by
  obtain ⟨hlt, hH, hT, hE⟩ := Sat.compose h k hh hk
  generalize Height.startingSat h + k = s at hlt hH hT hE ⊢
  have e1 : Sat.heightO s = .ok h := by rw [Sat.heightO_ok _ hlt, hH]
  have e2 : Sat.thirdO s = .ok k := by rw [Sat.thirdO_ok _ hlt, hT]
  have e3 := degreeO_of s h k e1 e2
  refine ⟨hE, ?_, periodO_of s h e1, e3, decimalO_of s h k e1 e2, rarityO_of s _ e3⟩
  unfold Sat.cycle CYCLE_EPOCHS; rw [hE, Nat.div_div_eq_div_mul]

end Sat
end Ord
