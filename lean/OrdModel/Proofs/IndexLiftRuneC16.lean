import OrdModel.Proofs.IndexLiftRuneNoLotChain
import OrdModel.Proofs.IndexMiscNoPanic
/-
Rune lift, part 3e (bridge to C16): C16 shows that the rune pass can fail only at the three
supply-conservation sites (`Within runeResidualSites`, from the stateless rules `RuneSafe`);
part 3d shows that in a reachable state none of these fires.  Together: the rune pass of the next
block SUCCEEDS.
-/
namespace Ord.Index.RuneLift
open Ord.Index

theorem lotSites_eq : lotSites = runeResidualSites := rfl

/-- **The rune pass of the next block of a reachable state succeeds** (no panic, no error), for
every configuration: `st1` is what the sat / address / inscription pass hands to the rune pass
(any state with the same rune tables as the reachable state `st`). -/
theorem rune_pass_ok (cfg : Cfg) (chain : List Block) (st : State) (evs : List Event)
    (hr : run cfg chain = .ok (st, evs)) (blk : Block) (hc : LotChainOK (chain ++ [blk]))
    (hsafe : ∀ tx ∈ blk.txs, RuneSafe blk.height tx)
    (st1 : State) (hf : Runemint.RuneFrame st st1) : ∃ r, indexRunesBlock st1 blk = .ok r := by
  have hw := indexRunesBlock_within st1 blk hsafe
  have hn := next_block_noLot cfg chain st evs hr blk hc st1 hf
  cases h : indexRunesBlock st1 blk with
  | ok r => exact ⟨r, rfl⟩
  | err e => exact absurd h hw.not_err
  | panic s => exact absurd (lotSites_eq ▸ hw.panic_mem h) (hn s h)

end Ord.Index.RuneLift
