import OrdModel.Proofs.IndexLiftRuneSupplyTx
import OrdModel.Proofs.IndexLiftRuneFrame
/-
Rune lift, part 2c: the C08 supply invariant `SInv` through a block of the rune pass (all
transactions, then `flushBurned`), through `applyBlock` (the sat / address / inscription pass is a
frame: `IndexLiftRuneFrame.lean`; the rune pass may be switched off or below the first rune
height) and through `run`: it holds in every reachable state of every configuration, for chains
of consecutive blocks without a repeated txid.
-/
namespace Ord.Index.RuneLift
open Ord.Index Ord.Index.Spec Ord.Index.RS Ord.Index.Oracle Ord.Outcome
open Ord.Index.Runemint (RInv RuneFrame)

/-! ### the transactions of a block -/

theorem not_mem_of_nodup_append {α : Type} {l : List α} {a : α} {rest : List α}
    (h : (l ++ a :: rest).Nodup) : a ∉ l := by
  intro hm
  have := (List.nodup_append.1 h).2.2 a hm a List.mem_cons_self
  exact this rfl

theorem go_supply (blk : Block) : ∀ (txs : List Tx) (t0 : Nat) (seen : List Tx) (st : State) (bb : Balances)
    (evs : List Event) (st' : State) (bb' : Balances) (evs' : List Event),
    SInv seen st bb → RInv st blk.height t0 → t0 + txs.length ≤ 4294967296 →
    ((seen ++ txs).map (·.txid)).Nodup →
    indexRunesBlock.go blk (enumFrom t0 txs) st bb evs = .ok (st', bb', evs') →
    SInv (seen ++ txs) st' bb' ∧ RInv st' blk.height (t0 + txs.length)
  | [], t0, seen, st, bb, evs, st', bb', evs', hS, hR, _, _, hr => by
    simp only [enumFrom, indexRunesBlock.go, Outcome.ok.injEq, Prod.mk.injEq] at hr
    obtain ⟨rfl, rfl, _⟩ := hr
    simpa using ⟨hS, hR⟩
  | tx :: rest, t0, seen, st, bb, evs, st', bb', evs', hS, hR, hlen, hnd, hr => by
    simp only [enumFrom, indexRunesBlock.go] at hr
    cases htx : indexRunesTx st blk t0 tx bb with
    | panic s => simp [htx] at hr
    | err e => simp [htx] at hr
    | ok r =>
      obtain ⟨st1, bb1, evs1⟩ := r
      simp only [htx] at hr
      simp only [List.length_cons] at hlen
      have hnew : tx.txid ∉ seen.map (·.txid) := by
        rw [List.map_append, List.map_cons] at hnd
        exact not_mem_of_nodup_append hnd
      have hS1 := tx_supply hS hR blk tx st1 bb1 evs1 rfl (by omega) hnew htx
      have hR1 := (Runemint.tx_step hR blk tx bb st1 bb1 evs1 rfl (by omega) htx).1
      have hnd1 : (((seen ++ [tx]) ++ rest).map (·.txid)).Nodup := by
        simpa [List.append_assoc] using hnd
      have := go_supply blk rest (t0 + 1) (seen ++ [tx]) st1 bb1 _ st' bb' evs' hS1 hR1 (by omega) hnd1 hr
      simpa [List.length_cons, List.append_assoc, Nat.add_assoc, Nat.add_comm 1] using this

/-! ### `flushBurned` -/

theorem lk_cons (id : RuneId) (b : Nat) (rest : Balances) (r : RuneId) :
    lk ((id, b) :: rest) r = if id = r then b else lk rest r := by
  unfold lk
  by_cases h : id = r
  · subst h; simp [AL.get]
  · have : (id == r) = false := by simpa using h
    simp [AL.get, this, h]

theorem flushBurned_entries : ∀ (bb : Balances) (st st' : State), flushBurned bb st = .ok st' →
    (keys bb).Nodup → (keys st.runeEntries).Nodup →
    st'.balances = st.balances ∧ (keys st'.runeEntries).Nodup ∧
    ∀ id, AL.get st'.runeEntries id =
      (AL.get st.runeEntries id).map (fun e => { e with burned := e.burned + lk bb id })
  | [], st, st', hr, _, hn => by
    simp only [flushBurned, Outcome.ok.injEq] at hr
    subst hr
    refine ⟨rfl, hn, fun id => ?_⟩
    cases AL.get st.runeEntries id <;> rfl
  | (id, b) :: rest, st, st', hr, hnb, hn => by
    simp only [flushBurned] at hr
    simp only [keys_cons, List.nodup_cons] at hnb
    cases hg : AL.get st.runeEntries id with
    | none => simp [hg] at hr
    | some e =>
      simp only [hg] at hr
      split at hr
      · simp at hr
      · obtain ⟨h1, h2, h3⟩ := flushBurned_entries rest _ st' hr hnb.2 (nodup_set _ _ _ hn)
        refine ⟨h1, h2, fun id2 => ?_⟩
        rw [h3 id2]
        show (AL.get (AL.set st.runeEntries id _) id2).map _ = _
        rw [get_set, lk_cons]
        by_cases heq : id = id2
        · subst heq
          have hz : lk rest id = 0 := lk_eq_zero_of_get_none ((get_eq_none_iff rest id).2 hnb.1)
          simp [hg, hz]
        · have hb : (id == id2) = false := by simpa using heq
          simp [hb, heq]

theorem flushBurned_supply {seen : List Tx} {st st' : State} {bb : Balances}
    (hS : SInv seen st bb) (hr : flushBurned bb st = .ok st') : SInv seen st' [] := by
  obtain ⟨hb, hn, he⟩ := flushBurned_entries bb st st' hr hS.bbNodup hS.entNodup
  have hpersist : ∀ id, AL.get st.runeEntries id ≠ none → AL.get st'.runeEntries id ≠ none := by
    intro id h
    rw [he id]
    cases hg : AL.get st.runeEntries id with
    | none => exact absurd hg h
    | some e => simp
  refine ⟨hn, by simp [keys], ?_, fun _ _ => rfl, ?_⟩
  · intro id e' hg'
    rw [he id] at hg'
    cases hg : AL.get st.runeEntries id with
    | none => rw [hg] at hg'; simp at hg'
    | some e =>
      rw [hg] at hg'
      simp only [Option.map_some, Option.some.injEq] at hg'
      subst hg'
      have := hS.supply id e hg
      rw [hb]
      show supplyIn st.balances id + (e.burned + lk bb id) + lk [] id = e.premine + e.mints * mintAmount e
      simp only [lk_nil]
      omega
  · intro o row hm
    rw [hb] at hm
    obtain ⟨h1, h2, h3, h4, h5⟩ := hS.rows o row hm
    exact ⟨h1, h2, fun id b hb => ⟨(h3 id b hb).1, hpersist id (h3 id b hb).2⟩, h4, h5⟩

/-- **One block of the rune pass.** -/
theorem block_supply {seen : List Tx} {st : State} {H : Nat} (hS : SInv seen st []) (hR : RInv st H 0)
    (blk : Block) (st' : State) (evs : List Event) (hH : blk.height = H) (hlen : blk.txs.length ≤ 4294967296)
    (hnd : ((seen ++ blk.txs).map (·.txid)).Nodup)
    (hr : indexRunesBlock st blk = .ok (st', evs)) : SInv (seen ++ blk.txs) st' [] := by
  subst hH
  unfold indexRunesBlock at hr
  cases hgo : indexRunesBlock.go blk (enumFrom 0 blk.txs) st [] [] with
  | panic s => simp [hgo] at hr
  | err e => simp [hgo] at hr
  | ok r =>
    obtain ⟨st1, bb, evs1⟩ := r
    simp only [hgo] at hr
    have h1 := (go_supply blk blk.txs 0 seen st [] [] st1 bb evs1 hS hR (by omega) hnd hgo).1
    cases hf : flushBurned bb st1 with
    | panic s => simp [hf] at hr
    | err e => simp [hf] at hr
    | ok st2 =>
      simp only [hf, Outcome.ok.injEq, Prod.mk.injEq] at hr
      obtain ⟨rfl, _⟩ := hr
      exact flushBurned_supply h1 hf

/-! ### `applyBlock`, `run` -/

theorem SInv_of_frame {seen : List Tx} {st st1 : State} {bb : Balances} (hf : RuneFrame st st1)
    (h : SInv seen st bb) : SInv seen st1 bb := by
  obtain ⟨f1, _, _, _, _, f6, _⟩ := hf
  exact ⟨by rw [f1]; exact h.entNodup, h.bbNodup, by rw [f1, f6]; exact h.supply,
    by rw [f1]; exact h.bbZero, by rw [f1, f6]; exact h.rows⟩

/-- more transactions seen, none of which repeats a txid: the stored rows are still fine -/
theorem SInv_more {seen more : List Tx} {st : State} (h : SInv seen st [])
    (hnd : ((seen ++ more).map (·.txid)).Nodup) : SInv (seen ++ more) st [] := by
  refine ⟨h.entNodup, h.bbNodup, h.supply, h.bbZero, ?_⟩
  intro o row hm
  obtain ⟨h1, h2, h3, h4, h5⟩ := h.rows o row hm
  refine ⟨h1, h2, h3, ?_, ?_⟩
  · simp only [List.map_append, List.mem_append]; exact Or.inl h4
  · intro tx htx he
    rcases List.mem_append.1 htx with htx | htx
    · exact h5 tx htx he
    · rw [List.map_append] at hnd
      have := (List.nodup_append.1 hnd).2.2 o.txid h4 tx.txid (List.mem_map.2 ⟨tx, htx, rfl⟩)
      exact absurd he.symm this

theorem applyBlock_supply (cfg : Cfg) {seen : List Tx} {st : State} {H : Nat} (hS : SInv seen st [])
    (hR : RInv st H 0) (blk : Block) (st' : State) (evs : List Event) (hH : blk.height = H)
    (hlen : blk.txs.length ≤ 4294967296) (hnd : ((seen ++ blk.txs).map (·.txid)).Nodup)
    (hr : applyBlock cfg st blk = .ok (st', evs)) : SInv (seen ++ blk.txs) st' [] := by
  unfold applyBlock at hr
  simp only at hr
  have h1 : ∀ st1 ev1, (if (cfg.indexInscriptions || cfg.indexAddresses || cfg.indexSats) = true
      then indexUtxoEntries cfg st blk else .ok (st, [])) = .ok (st1, ev1) → RuneFrame st st1 := by
    intro st1 ev1 he
    split at he
    · exact indexUtxoEntries_frame cfg st blk st1 ev1 he
    · simp only [Outcome.ok.injEq, Prod.mk.injEq] at he
      rw [← he.1]; exact frame_refl _
  split at hr
  · simp at hr
  · simp at hr
  · rename_i st1 ev1 he1
    have hf1 := h1 st1 ev1 he1
    have hS1 := SInv_of_frame hf1 hS
    have hR1 := Runemint.RInv_of_frame hf1 hR
    split at hr
    · simp at hr
    · simp at hr
    · rename_i st2 ev2 he2
      simp only [Outcome.ok.injEq, Prod.mk.injEq] at hr
      have hS2 : SInv (seen ++ blk.txs) st2 [] := by
        split at he2
        · exact block_supply hS1 hR1 blk st2 ev2 hH hlen hnd he2
        · simp only [Outcome.ok.injEq, Prod.mk.injEq] at he2
          rw [← he2.1]; exact SInv_more hS1 hnd
      rw [← hr.1]
      exact ⟨hS2.entNodup, hS2.bbNodup, hS2.supply, hS2.bbZero, hS2.rows⟩

/-- the hypotheses of the chain-level C08 theorem: blocks consecutive from height 0 with at most
2^32 transactions each, and no txid occurs twice in the chain (fresh outpoints) -/
structure SupplyChainOK (chain : List Block) : Prop where
  ok : Runemint.ChainOK chain
  txids : ((chain.flatMap (·.txs)).map (·.txid)).Nodup

theorem supplyChainOK_snoc {pre : List Block} {b : Block} (h : SupplyChainOK (pre ++ [b])) :
    SupplyChainOK pre ∧ b.height = pre.length ∧ b.txs.length ≤ 4294967296 ∧
    (((pre.flatMap (·.txs)) ++ b.txs).map (·.txid)).Nodup := by
  obtain ⟨hpre, hh, hl⟩ := Runemint.chainOK_snoc h.ok
  have ht := h.txids
  simp only [List.flatMap_append, List.flatMap_cons, List.flatMap_nil, List.append_nil] at ht
  refine ⟨⟨hpre, ?_⟩, hh, hl, ht⟩
  rw [List.map_append] at ht
  exact (List.nodup_append.1 ht).1

/-- **The supply invariant (and C11's table invariant) in every reachable state.** -/
theorem run_supply (cfg : Cfg) (chain : List Block) (st : State) (evs : List Event)
    (hr : run cfg chain = .ok (st, evs)) (hc : SupplyChainOK chain) :
    SInv (chain.flatMap (·.txs)) st [] ∧ RInv st chain.length 0 := by
  have := run_induct cfg
    (fun pre st _ => SupplyChainOK pre → SInv (pre.flatMap (·.txs)) st [] ∧ RInv st pre.length 0)
    (fun _ => ⟨SInv_empty, Runemint.RInv_empty 0 0⟩)
    (fun pre st evs b st' ev' ih hb hok => by
      obtain ⟨hpre, hh, hl, hnd⟩ := supplyChainOK_snoc hok
      obtain ⟨hS, hR⟩ := ih hpre
      have hR' := Runemint.applyBlock_inv cfg (frameOK cfg) hR b st' ev' hh hl hb
      have hS' := applyBlock_supply cfg hS hR b st' ev' hh hl hnd hb
      simpa [List.flatMap_append] using And.intro hS' hR')
    chain st evs hr
  exact this hc

end Ord.Index.RuneLift
