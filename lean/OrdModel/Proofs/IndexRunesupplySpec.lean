import OrdModel.Index.RuneSpec
/-
Group `runesupply`: facts about the SPECIFICATION (`Spec.allocate`) alone — conservation of
units (every unit unallocated before the edicts ends up on exactly one output or is burned), and
the documented rules in closed form.  Pure arithmetic on `Nat`; no model involved.
-/
namespace Ord.Index.Spec

/-- `Σ_{v = i}^{i+len-1} g v` -/
def sumFrom (g : Nat → Nat) : Nat → Nat → Nat
  | _, 0 => 0
  | i, len + 1 => g i + sumFrom g (i + 1) len

/-- unallocated + allocated to the first `n` outputs -/
def Flow.total (f : Flow) (n : Nat) : Nat := f.un + sumFrom f.out 0 n

theorem sumFrom_congr (g h : Nat → Nat) : ∀ (len i : Nat), (∀ v, i ≤ v → v < i + len → g v = h v) →
    sumFrom g i len = sumFrom h i len := by
  intro len
  induction len with
  | zero => intro i _; rfl
  | succ n ih =>
    intro i hv
    simp only [sumFrom]
    rw [hv i (Nat.le_refl _) (by omega), ih (i + 1) (fun v h1 h2 => hv v (by omega) (by omega))]

theorem sumFrom_update (g : Nat → Nat) (v a : Nat) : ∀ (len i : Nat),
    sumFrom (fun v' => if v' = v then g v' + a else g v') i len
      = sumFrom g i len + (if i ≤ v ∧ v < i + len then a else 0) := by
  intro len
  induction len with
  | zero =>
    intro i
    simp only [sumFrom]
    have : ¬ (i ≤ v ∧ v < i + 0) := by omega
    rw [if_neg this]
  | succ n ih =>
    intro i
    simp only [sumFrom]
    rw [ih (i + 1)]
    by_cases h1 : i = v
    · subst h1
      have : ¬ (i + 1 ≤ i ∧ i < i + 1 + n) := by omega
      simp [this]; omega
    · by_cases h2 : i + 1 ≤ v ∧ v < i + 1 + n
      · have : i ≤ v ∧ v < i + (n + 1) := by omega
        simp [h1, h2, this]; omega
      · have : ¬ (i ≤ v ∧ v < i + (n + 1)) := by omega
        simp [h1, h2, this]

theorem give_total (f : Flow) (v amt n : Nat) (hv : v < n) (ha : amt ≤ f.un) :
    (f.give v amt).total n = f.total n := by
  unfold Flow.total Flow.give
  simp only
  rw [sumFrom_update]
  have : (0 ≤ v ∧ v < 0 + n) := by omega
  rw [if_pos this]; omega

theorem give_un (f : Flow) (v amt : Nat) : (f.give v amt).un = f.un - amt := rfl

/-! ### eligible outputs -/

theorem eligibleFrom_bound : ∀ (outs : List Bool) (j v : Nat), v ∈ eligibleFrom j outs → j ≤ v ∧ v < j + outs.length := by
  intro outs
  induction outs with
  | nil => intro j v h; simp [eligibleFrom] at h
  | cons b rest ih =>
    intro j v h
    simp only [eligibleFrom] at h
    split at h
    · have := ih (j + 1) v h
      simp only [List.length_cons]; omega
    · rcases List.mem_cons.1 h with h | h
      · subst h; simp only [List.length_cons]; omega
      · have := ih (j + 1) v h
        simp only [List.length_cons]; omega

theorem eligible_lt (outs : List Bool) (v : Nat) (h : v ∈ eligible outs) : v < outs.length := by
  have := eligibleFrom_bound outs 0 v h; omega

/-! ### every rule conserves units -/

theorem each_total (amount n : Nat) : ∀ (dests : List Nat) (f : Flow), (∀ v ∈ dests, v < n) →
    (Flow.each amount dests f).total n = f.total n := by
  intro dests
  induction dests with
  | nil => intro f _; rfl
  | cons v rest ih =>
    intro f hd
    simp only [Flow.each]
    rw [ih _ (fun x hx => hd x (List.mem_cons_of_mem _ hx))]
    exact give_total f v _ n (hd v List.mem_cons_self) (Nat.min_le_right _ _)

theorem splitShares_total (q R n : Nat) : ∀ (dests : List Nat) (j : Nat) (f : Flow), (∀ v ∈ dests, v < n) →
    q * dests.length + (R - j) ≤ f.un → R - j ≤ dests.length →
    (splitShares q R j dests f).total n = f.total n := by
  intro dests
  induction dests with
  | nil => intro j f _ _ _; rfl
  | cons v rest ih =>
    intro j f hd hun hR
    simp only [splitShares]
    simp only [List.length_cons, Nat.mul_succ] at hun hR
    have hshare : (if j < R then q + 1 else q) ≤ f.un := by split <;> omega
    rw [ih (j + 1) _ (fun x hx => hd x (List.mem_cons_of_mem _ hx))]
    · exact give_total f v _ n (hd v List.mem_cons_self) hshare
    · rw [give_un]; split <;> omega
    · omega

theorem split_total (f : Flow) (dests : List Nat) (n : Nat) (hd : ∀ v ∈ dests, v < n) :
    (f.split dests).total n = f.total n := by
  unfold Flow.split
  split
  · rfl
  · rename_i hne
    have hpos : 0 < dests.length := by
      cases dests with
      | nil => simp at hne
      | cons _ _ => simp
    apply splitShares_total _ _ _ _ _ _ hd
    · have := Nat.div_add_mod f.un dests.length
      have hc : f.un / dests.length * dests.length = dests.length * (f.un / dests.length) := Nat.mul_comm _ _
      omega
    · have := Nat.mod_lt f.un hpos; omega

theorem edict_total (outs : List Bool) (f : Flow) (amount output : Nat) :
    (f.edict outs amount output).total outs.length = f.total outs.length := by
  unfold Flow.edict
  split
  · split
    · exact split_total _ _ _ (eligible_lt outs)
    · exact each_total _ _ _ _ (eligible_lt outs)
  · split
    · rename_i hlt
      apply give_total _ _ _ _ hlt
      split
      · exact Nat.le_refl _
      · exact Nat.min_le_right _ _
    · rfl

theorem flow_total (outs : List Bool) (etched : Option RuneId) (r : RuneId) : ∀ (edicts : List Edict) (f : Flow),
    (flow outs etched r edicts f).total outs.length = f.total outs.length := by
  intro edicts
  induction edicts with
  | nil => intro f; rfl
  | cons ed rest ih =>
    intro f
    simp only [flow]
    rw [ih]
    split
    · exact edict_total _ _ _ _
    · rfl

theorem sumFrom_zero (i len : Nat) : sumFrom (fun _ => 0) i len = 0 := by
  induction len generalizing i with
  | zero => rfl
  | succ n ih => simp [sumFrom, ih]

theorem start_total (u n : Nat) : (Flow.start u).total n = u := by
  simp [Flow.total, Flow.start, sumFrom_zero]

/-- splitting the allocated amounts into "on OP_RETURN outputs" and "on the others" -/
theorem sum_opret_split (g : Nat → Nat) (p : Nat → Bool) : ∀ (outs : List Bool) (i : Nat),
    (∀ k (hk : k < outs.length), p (i + k) = outs[k]) →
    sumFrom (fun v => if p v then 0 else g v) i outs.length + sumOpReturnFrom g i outs
      = sumFrom g i outs.length := by
  intro outs
  induction outs with
  | nil => intro i _; rfl
  | cons b rest ih =>
    intro i hp
    simp only [List.length_cons, sumFrom, sumOpReturnFrom]
    have h0 : p i = b := hp 0 (by simp)
    have hrest : ∀ k (hk : k < rest.length), p (i + 1 + k) = rest[k] := by
      intro k hk
      have e : i + 1 + k = i + (k + 1) := by omega
      rw [e]
      exact hp (k + 1) (by simp; omega)
    have := ih (i + 1) hrest
    rw [h0]
    cases b <;> simp <;> omega

theorem opReturnAt_eq (outs : List Bool) (k : Nat) (hk : k < outs.length) : opReturnAt outs (0 + k) = outs[k] := by
  simp [opReturnAt, hk]

theorem head_eligible_lt (outs : List Bool) (v : Nat) (h : (eligible outs).head? = some v) : v < outs.length := by
  apply eligible_lt
  cases he : eligible outs with
  | nil => rw [he] at h; simp at h
  | cons a rest => rw [he] at h; simp at h; subst h; simp

/-- `settle` with the default output made explicit -/
def settleAt (outs : List Bool) (dflt : Option Nat) (f : Flow) : Result :=
  let f' := match dflt with
    | some v => f.give v f.un
    | none => f
  ⟨fun v => if opReturnAt outs v then 0 else f'.out v, f'.un + sumOpReturnFrom f'.out 0 outs⟩

theorem settle_eq (outs : List Bool) (pointer : Option Nat) (f : Flow) :
    settle outs pointer f
      = settleAt outs (match pointer with | some p => some p | none => (eligible outs).head?) f := rfl

theorem settleAt_conserves (outs : List Bool) (dflt : Option Nat) (f : Flow)
    (hd : ∀ v, dflt = some v → v < outs.length) :
    sumFrom (settleAt outs dflt f).out 0 outs.length + (settleAt outs dflt f).burned = f.total outs.length := by
  cases dflt with
  | none =>
    simp only [settleAt]
    have := sum_opret_split f.out (opReturnAt outs) outs 0 (opReturnAt_eq outs)
    unfold Flow.total; omega
  | some v =>
    simp only [settleAt]
    have := sum_opret_split (f.give v f.un).out (opReturnAt outs) outs 0 (opReturnAt_eq outs)
    have ht := give_total f v f.un outs.length (hd v rfl) (Nat.le_refl _)
    unfold Flow.total at ht ⊢
    omega

theorem settle_conserves (outs : List Bool) (pointer : Option Nat) (f : Flow)
    (hp : ∀ p, pointer = some p → p < outs.length) :
    sumFrom (settle outs pointer f).out 0 outs.length + (settle outs pointer f).burned = f.total outs.length := by
  rw [settle_eq]
  apply settleAt_conserves
  intro v hv
  cases pointer with
  | some p => simp at hv; subst hv; exact hp p rfl
  | none => exact head_eligible_lt outs v hv

/-- **Conservation (specification level).**  Whatever is unallocated before the edicts is, after
the transaction, on the outputs or burned — nothing is created or lost. -/
theorem allocate_conserves (outs : List Bool) (msg : Message) (etched : Option RuneId) (r : RuneId) (u0 : Nat)
    (hwf : WellFormed outs.length msg) :
    sumFrom (allocate outs msg etched r u0).out 0 outs.length + (allocate outs msg etched r u0).burned = u0 := by
  cases msg with
  | cenotaph => simp [allocate, sumFrom_zero]
  | none =>
    simp only [allocate]
    rw [settle_conserves outs none _ (by simp), start_total]
  | runestone edicts pointer =>
    simp only [allocate]
    rw [settle_conserves outs pointer _ hwf.2, flow_total, start_total]

/-- nothing is ever left on an OP_RETURN output -/
theorem allocate_opreturn_zero (outs : List Bool) (msg : Message) (etched : Option RuneId) (r : RuneId) (u0 v : Nat)
    (hv : opReturnAt outs v = true) : (allocate outs msg etched r u0).out v = 0 := by
  cases msg <;> simp [allocate, settle, hv]

/-- a cenotaph burns everything -/
theorem allocate_cenotaph (outs : List Bool) (etched : Option RuneId) (r : RuneId) (u0 : Nat) :
    (allocate outs .cenotaph etched r u0).burned = u0 ∧ ∀ v, (allocate outs .cenotaph etched r u0).out v = 0 := by
  simp [allocate]

end Ord.Index.Spec
