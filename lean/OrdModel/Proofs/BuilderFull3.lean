import OrdModel.Proofs.BuilderFull2
/-! Evaluation of `strip_value` and `deduct_fee` on a `Good` state. -/
namespace Ord.Builder
open Ord Ord.Outcome

theorem maxTarget_le (t : Target) : (maxTarget t).2 ≤ (maxTarget t).1 := by
  cases t <;> simp [maxTarget, MAX_POSTAGE, TARGET_POSTAGE]

theorem stripValue_eval {env : Env} {w : Wallet} {r : Request} {st : St} {pre : List TxOut} {R : Nat}
    {c : Script} {us : List Script}
    (hcalc : calcSatOffset w r.outgoing st.inputs 0 = .ok (outSum pre))
    (ho : st.outputs = pre ++ [(r.recipient, R)]) (hun : st.unused = c :: us)
    (hlt : outSum pre + R < U64)
    (hnovf : env.fee (vsize st.inputs.length (pre ++ [(r.recipient, R)])) ≤ R →
      R - env.fee (vsize st.inputs.length (pre ++ [(r.recipient, R)])) > (maxTarget r.target).1 →
      env.dust c + env.fee (vsize st.inputs.length (pre ++ [(r.recipient, R)]) + ADDITIONAL_OUTPUT_VBYTES) < U64) :
    stripValue env w r st = .ok (if strips env r st.inputs.length pre R c then
      { st with outputs := pre ++ [(r.recipient, (maxTarget r.target).2), (c, R - (maxTarget r.target).2)],
                unused := us } else st) := by
  have hany : (pre ++ [(r.recipient, R)]).any (fun o => decide (o.1 = r.recipient)) = true := by
    simp [List.any_append]
  have hsum : outSum (pre ++ [(r.recipient, R)]) = outSum pre + R := by
    rw [outSum_append]; simp [outSum]
  have hsub : outSum pre + R - outSum pre = R := by omega
  have hle : outSum pre ≤ outSum pre + R := by omega
  unfold stripValue
  simp only [bind_def, hcalc, Outcome.bind, sumOutputs, ho, hsum, hlt, if_true, hany, assert, subW, hle, hsub]
  unfold strips
  by_cases h1 : env.fee (vsize st.inputs.length (pre ++ [(r.recipient, R)])) ≤ R
  · by_cases h2 : R - env.fee (vsize st.inputs.length (pre ++ [(r.recipient, R)])) > (maxTarget r.target).1
    · have hov := hnovf h1 h2
      have hmt := maxTarget_le r.target
      have h3 : (maxTarget r.target).2 ≤ R := by omega
      simp only [h1, h2, if_true, h3, hun, amountAdd, hov, true_and]
      by_cases h4 : R - (maxTarget r.target).2 >
          env.dust c + env.fee (vsize st.inputs.length (pre ++ [(r.recipient, R)]) + ADDITIONAL_OUTPUT_VBYTES)
      · have hf : (fun (_ : Nat) => (Outcome.ok (maxTarget r.target).2 : Outcome Nat)) (r.recipient, R).2
            = .ok (maxTarget r.target).2 := rfl
        simp only [h4, if_true, updLast_snoc (f := fun (_ : Nat) => (Outcome.ok (maxTarget r.target).2 : Outcome Nat)) (r.recipient, R) hf pre]
        simp
      · simp only [h4, if_false]
    · simp only [h1, h2, if_true, if_false, false_and, and_false]
  · simp only [h1, if_false, false_and]

theorem deductFee_eval {env : Env} {w : Wallet} {r : Request} {st : St} {P : Nat}
    {pre5 : List TxOut} {ls : Script} {lv : Nat}
    (hcalc : calcSatOffset w r.outgoing st.inputs 0 = .ok P)
    (ho : st.outputs = pre5 ++ [(ls, lv)]) (hlt : outSum st.outputs < U64)
    (hfee : env.fee (vsize st.inputs.length st.outputs) ≤ outSum st.outputs)
    (hsat : outSum st.outputs - env.fee (vsize st.inputs.length st.outputs) > P)
    (hlast : env.fee (vsize st.inputs.length st.outputs) ≤ lv) :
    deductFee env w r st = .ok { st with outputs := pre5 ++ [(ls, lv - env.fee (vsize st.inputs.length st.outputs))] } := by
  unfold deductFee
  have hl := lastOut_snoc "No_output_to_deduct_fee_from" (ls, lv) pre5
  have hf : (fun v => subW "amount-sub@deduct_fee" v (env.fee (vsize st.inputs.length st.outputs))) (ls, lv).2
      = .ok (lv - env.fee (vsize st.inputs.length st.outputs)) := by simp [subW, hlast]
  have hu := updLast_snoc (site := "No_output_to_deduct_fee_from")
    (f := fun v => subW "amount-sub@deduct_fee" v (env.fee (vsize st.inputs.length st.outputs))) (ls, lv) hf pre5
  rw [← ho] at hl hu
  have hs : subW "unwrap-none@deduct_fee" (outSum st.outputs) (env.fee (vsize st.inputs.length st.outputs))
      = .ok (outSum st.outputs - env.fee (vsize st.inputs.length st.outputs)) := by simp [subW, hfee]
  simp only [bind_def, hcalc, Outcome.bind, sumOutputs, hlt, if_true, hl, hs, assert, hsat,
    decide_true, hlast, ge_iff_le, hu]

end Ord.Builder
