import OrdModel.Proofs.IndexLiftSatBipBlock
/-
Sat-side lift, part 6 (C01): `applyBlock` against `Bip.assignBlock`, and the table
well-formedness hypothesis (`keys` duplicate-free) discharged for every reachable state.
-/
namespace Ord.Index
open Outcome Ord.Index.Sched

theorem flushCache_keys_nodup (cfg : Cfg) (c : Cache) (s : State) (h : (AL.keys s.utxo).Nodup) :
    (AL.keys (flushCache cfg s c).utxo).Nodup := by
  induction c generalizing s with
  | nil => exact h
  | cons p c ih =>
    obtain ⟨op, e⟩ := p
    rw [flushCache_cons]
    apply ih
    rw [flushEntry_utxo]
    exact AL.nodup_set _ _ _ h

theorem takeInputEntries_keys_nodup (cfg : Cfg) (ins : List TxIn) (bc : BlockCtx) (acc : List (TxIn × UtxoEntry))
    (bc' : BlockCtx) (acc' : List (TxIn × UtxoEntry)) (hN : (AL.keys bc.st.utxo).Nodup)
    (h : takeInputEntries cfg ins bc acc = .ok (bc', acc')) : (AL.keys bc'.st.utxo).Nodup := by
  induction ins generalizing bc acc with
  | nil =>
    simp only [takeInputEntries, Outcome.ok.injEq, Prod.mk.injEq] at h
    obtain ⟨rfl, rfl⟩ := h
    exact hN
  | cons i rest ih =>
    rw [takeInputEntries_cons] at h
    split at h
    · rename_i bc1 e h1
      refine ih bc1 _ ?_ h
      rcases takeOne_cases cfg bc i bc1 e h1 with ⟨-, -, ht⟩ | ⟨-, -, -, ht⟩
      · rw [ht]; exact hN
      · rw [ht]; exact AL.nodup_erase _ _ hN
    · cases h
    · cases h

theorem indexTxs_keys_nodup (cfg : Cfg) (hs : cfg.indexSats = true) (blk : Block) (insOn : Bool) (l : List (Nat × Tx))
    (bc bc' : BlockCtx) (hN : (AL.keys bc.st.utxo).Nodup)
    (h : indexTxs cfg blk insOn l bc = .ok bc') : (AL.keys bc'.st.utxo).Nodup := by
  induction l generalizing bc with
  | nil => simp only [indexTxs, Outcome.ok.injEq] at h; subst h; exact hN
  | cons p l ih =>
    obtain ⟨i, tx⟩ := p
    simp only [indexTxs] at h
    split at h
    · cases h
    · cases h
    · rename_i bc1 h1
      refine ih bc1 ?_ h
      obtain ⟨bc0, inputs, outs, r, htake, -, -, -, hutxo, -⟩ := (indexTx_satEff cfg hs blk insOn i tx bc bc1 h1).ex
      rw [hutxo]
      by_cases hz : i = 0
      · simp only [hz, if_true] at htake
        rw [htake.1]; exact hN
      · simp only [hz, if_false] at htake
        exact takeInputEntries_keys_nodup cfg _ _ _ _ _ hN htake

/-- the UTXO table stays a finite map (no outpoint twice) under `applyBlock` -/
theorem applyBlock_keys_nodup (cfg : Cfg) (hs : cfg.indexSats = true) (st : State) (blk : Block)
    (st' : State) (evs : List Event) (hN : (AL.keys st.utxo).Nodup)
    (h : applyBlock cfg st blk = .ok (st', evs)) : (AL.keys st'.utxo).Nodup := by
  simp only [applyBlock, hs, Bool.or_true, if_true] at h
  split at h
  · cases h
  · cases h
  · rename_i st1 ev1 h1
    have hN1 : (AL.keys st1.utxo).Nodup := by
      rw [indexUtxoEntries_eq] at h1
      split at h1
      · cases h1
      · cases h1
      · rename_i bc hbc
        simp only [Outcome.ok.injEq, Prod.mk.injEq] at h1
        obtain ⟨rfl, -⟩ := h1
        apply flushCache_keys_nodup
        rw [(endState_utxo_height cfg blk (insOnOf cfg blk) bc).1]
        exact indexTxs_keys_nodup cfg hs blk _ _ _ bc hN hbc
    split at h
    · cases h
    · cases h
    · rename_i st2 ev2 h2
      simp only [Outcome.ok.injEq, Prod.mk.injEq] at h
      obtain ⟨rfl, -⟩ := h
      have hss : SatSame st1 st2 := by
        split at h2
        · exact indexRunesBlock_satSame _ _ _ h2
        · simp only [Outcome.ok.injEq, Prod.mk.injEq] at h2
          rw [← h2.1]; exact SatSame.refl _
      show (AL.keys st2.utxo).Nodup
      rw [hss.utxo]; exact hN1

/-- in every reachable state (sat index on) the UTXO table is a finite map -/
theorem reachable_keys_nodup (cfg : Cfg) (hs : cfg.indexSats = true) (chain : List Block) (st : State)
    (evs : List Event) (h : run cfg chain = .ok (st, evs)) : (AL.keys st.utxo).Nodup :=
  run_induct cfg (fun _ st _ => (AL.keys st.utxo).Nodup) (by simp [AL.keys])
    (fun _ st _ b st' ev' ih hb => applyBlock_keys_nodup cfg hs st b st' ev' ih hb) chain st evs h

/-- **`applyBlock` is the BIP's `assign_ordinals(block)`** on the sat-only projection of the table
(the rune pass does not touch it) -/
theorem applyBlock_bip (cfg : Cfg) (hs : cfg.indexSats = true) (st : State) (blk : Block)
    (cbtx : Tx) (rest : List Tx) (hb : blk.txs = cbtx :: rest)
    (hN : (AL.keys st.utxo).Nodup) (hz : ∀ tx ∈ blk.txs, tx.txid ≠ 0) (hsh : NoShadow st.utxo blk)
    (st' : State) (evs : List Event) (h : applyBlock cfg st blk = .ok (st', evs)) :
    ∃ m' unclaimed,
      Bip.assignBlock blk.height (btxOf cbtx) (rest.map btxOf) (satProj st.utxo) = some (m', unclaimed) ∧
      (∀ op, op.isSpecial = false → AL.get (satProj st'.utxo) op = AL.get m' op) ∧
      satsAt (satProj st'.utxo) OutPoint.null = satsAt m' OutPoint.null ++ unclaimed ∧
      satsAt (satProj st'.utxo) OutPoint.unbound = satsAt m' OutPoint.unbound := by
  simp only [applyBlock, hs, Bool.or_true, if_true] at h
  split at h
  · cases h
  · cases h
  · rename_i st1 ev1 h1
    obtain ⟨m', u, ha, h2, h3, h4, -⟩ := indexUtxoEntries_bip cfg hs st blk cbtx rest hb hN hz hsh st1 ev1 h1
    split at h
    · cases h
    · cases h
    · rename_i st2 ev2 hr
      simp only [Outcome.ok.injEq, Prod.mk.injEq] at h
      obtain ⟨rfl, -⟩ := h
      have hss : SatSame st1 st2 := by
        split at hr
        · exact indexRunesBlock_satSame _ _ _ hr
        · simp only [Outcome.ok.injEq, Prod.mk.injEq] at hr
          rw [← hr.1]; exact SatSame.refl _
      refine ⟨m', u, ha, ?_, ?_, ?_⟩
      · intro op hop; show AL.get (satProj st2.utxo) op = _; rw [hss.utxo]; exact h2 op hop
      · show satsAt (satProj st2.utxo) _ = _; rw [hss.utxo]; exact h3
      · show satsAt (satProj st2.utxo) _ = _; rw [hss.utxo]; exact h4

/-! ### `place` overwrites: the displacement clause on the specification side -/

theorem get_place_other (txid : Txid) (os : List Bip.Ordinals) (n : Nat) (m : Bip.Outs) (op : OutPoint)
    (h : op.txid ≠ txid ∨ op.vout < n) : AL.get (Bip.place txid os n m) op = AL.get m op := by
  induction os generalizing n m with
  | nil => rfl
  | cons o os ih =>
    simp only [Bip.place]
    rw [ih (n + 1) _ (by rcases h with h | h; exact Or.inl h; exact Or.inr (by omega))]
    apply AL.get_set_ne
    intro heq
    subst heq
    rcases h with h | h
    · exact h rfl
    · simp at h

/-- `output.ordinals = …` under an outpoint that already exists replaces what was there -/
theorem get_place_self (txid : Txid) (os : List Bip.Ordinals) (n : Nat) (m : Bip.Outs) (k : Nat)
    (hk : k < os.length) : AL.get (Bip.place txid os n m) ⟨txid, n + k⟩ = os[k]? := by
  induction os generalizing n m k with
  | nil => simp at hk
  | cons o os ih =>
    simp only [Bip.place]
    cases k with
    | zero =>
      rw [get_place_other _ _ _ _ _ (Or.inr (by simp))]
      simp [AL.get_set_self]
    | succ k =>
      have := ih (n + 1) (AL.set m ⟨txid, n⟩ o) k (by simpa using hk)
      rw [show n + (k + 1) = n + 1 + k by omega]
      simpa using this

end Ord.Index
