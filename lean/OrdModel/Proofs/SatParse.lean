import OrdModel.Proofs.SatRoundTripDegree
/-! Lemmas for the sat part of C31: totality (no panic) and soundness (accepted ⇒ denotes) of the
parsers behind `Sat::from_str`. -/
namespace Ord.SatNotation
open Ord Ord.Epoch

/-! ### integers -/

theorem parseDigits_ok (w : Nat) : ∀ (cs : List Char) (a r : Nat), parseDigits w cs a = .ok r →
    cs.all isDigit = true ∧ r = numeralValue cs a ∧ r < 2 ^ w ∨ (cs = [] ∧ r = a) := by
  intro cs
  induction cs with
  | nil => intro a r h; simp only [parseDigits] at h; injection h with h; exact Or.inr ⟨rfl, h.symm⟩
  | cons c cs ih =>
    intro a r h
    simp only [parseDigits] at h
    split at h
    · rename_i hd
      split at h
      · rename_i hlt
        rcases ih _ _ h with ⟨h1, h2, h3⟩ | ⟨h1, h2⟩
        · exact Or.inl ⟨by simp [hd, h1], by simpa [numeralValue] using h2, h3⟩
        · subst h1; subst h2
          exact Or.inl ⟨by simp [hd], by simp [numeralValue], hlt⟩
      · cases h
    · cases h

theorem parseDigits_ok' (w : Nat) (c : Char) (cs : List Char) (r : Nat)
    (h : parseDigits w (c :: cs) 0 = .ok r) :
    (c :: cs).all isDigit = true ∧ r = numeralValue (c :: cs) 0 ∧ r < 2 ^ w := by
  rcases parseDigits_ok w _ _ _ h with h' | ⟨h', _⟩
  · exact h'
  · cases h'

/-- an accepted unsigned integer is a numeral `+?[0-9]+` with that (unbounded) value, in range -/
theorem parseUInt_numeral (w : Nat) (cs : List Char) (n : Nat) (h : parseUInt w cs = .ok n) :
    numeral? cs = some n ∧ n < 2 ^ w := by
  cases cs with
  | nil => simp [parseUInt] at h
  | cons c rest =>
    simp only [parseUInt] at h
    split at h
    · cases h
    · split at h
      · rename_i hplus
        cases rest with
        | nil => simp_all
        | cons d ds =>
          obtain ⟨h1, h2, h3⟩ := parseDigits_ok' w d ds n h
          refine ⟨?_, h3⟩
          simp only [numeral?, hplus, if_true]
          simp only [List.isEmpty_cons, Bool.not_false, Bool.true_and, h1, if_true, h2]
      · rename_i hplus
        obtain ⟨h1, h2, h3⟩ := parseDigits_ok' w c rest n h
        refine ⟨?_, h3⟩
        have hp : (c == '+') = false := by simpa using hplus
        simp only [numeral?, hp]
        simp only [Bool.false_eq_true, if_false, List.isEmpty_cons, Bool.not_false, Bool.true_and, h1, if_true, h2]

theorem fromInteger_no_panic (cs : List Char) (p : String) : fromInteger cs ≠ .panic p := by
  unfold fromInteger
  split
  · intro h; cases h
  · split <;> (intro h; cases h)

theorem fromInteger_sound (cs : List Char) (v : Nat) (h : fromInteger cs = .ok v) :
    denotesInteger cs v = true := by
  unfold fromInteger at h
  split at h
  · cases h
  · rename_i n hn
    split at h
    · cases h
    · rename_i hle
      injection h with h; subst h
      obtain ⟨hnum, _⟩ := parseUInt_numeral 64 cs n hn
      unfold denotesInteger
      rw [hnum]
      have : n < SUPPLY := by unfold LAST at hle; unfold SUPPLY at *; omega
      simp [this]

/-! ### names -/

theorem lower_toNat {c : Char} (h : isAsciiLower c = true) : 97 ≤ c.toNat ∧ c.toNat ≤ 122 := by
  simp only [isAsciiLower, Bool.and_eq_true, decide_eq_true_eq] at h
  have ha : 'a'.toNat = 97 := by decide
  have hz : 'z'.toNat = 122 := by decide
  rw [ha, hz] at h; exact h

/-- one iteration of the `from_name` loop on a lower-case letter from an in-range accumulator:
no arithmetic step can overflow -/
theorem fromNameLoop_step (c : Char) (cs : List Char) (x : Nat) (hc : isAsciiLower c = true)
    (hx : x ≤ SUPPLY) :
    fromNameLoop (c :: cs) x =
      if x * 26 + (c.toNat - 97 + 1) > SUPPLY then .err "NameRange"
      else fromNameLoop cs (x * 26 + (c.toNat - 97 + 1)) := by
  obtain ⟨h97, h122⟩ := lower_toNat hc
  unfold SUPPLY at hx
  have ha' : 'a'.toNat = 97 := by decide
  have hp : (2:Nat) ^ 64 = 18446744073709551616 := by decide
  have h1 : x * 26 < 18446744073709551616 := by omega
  have h2 : x * 26 + c.toNat < 18446744073709551616 := by omega
  have h3 : 97 ≤ x * 26 + c.toNat := by omega
  have h6 : x * 26 + c.toNat - 97 + 1 = x * 26 + (c.toNat - 97 + 1) := by omega
  have h4 : x * 26 + (c.toNat - 97 + 1) < 18446744073709551616 := by omega
  simp only [fromNameLoop, hc, if_true, Outcome.mulW, Outcome.addW, Outcome.subW, hp, h1, ha', h2, h3, h6, h4]

theorem fromNameLoop_spec : ∀ (cs : List Char) (x : Nat), x ≤ SUPPLY →
    (∀ p, fromNameLoop cs x ≠ .panic p) ∧
    (∀ r, fromNameLoop cs x = .ok r → r ≤ SUPPLY ∧ r = nameValue cs x ∧ cs.all isAsciiLower = true) := by
  intro cs
  induction cs with
  | nil =>
    intro x hx
    refine ⟨fun p h => (by simp [fromNameLoop] at h), fun r h => ?_⟩
    simp only [fromNameLoop] at h; injection h with h; subst h
    exact ⟨hx, rfl, rfl⟩
  | cons c cs ih =>
    intro x hx
    by_cases hc : isAsciiLower c = true
    · rw [fromNameLoop_step c cs x hc hx]
      have h97 : 'a'.toNat = 97 := by decide
      split
      · exact ⟨fun p h => (by cases h), fun r h => (by cases h)⟩
      · rename_i hle
        obtain ⟨ih1, ih2⟩ := ih _ (Nat.le_of_not_gt hle)
        refine ⟨ih1, fun r h => ?_⟩
        obtain ⟨a, b, c'⟩ := ih2 r h
        exact ⟨a, by simpa [nameValue, h97] using b, by simp [hc, c']⟩
    · have : fromNameLoop (c :: cs) x = .err "NameCharacter" := by
        simp only [fromNameLoop, hc]; rfl
      rw [this]
      exact ⟨fun p h => (by cases h), fun r h => (by cases h)⟩

theorem fromName_no_panic (cs : List Char) (p : String) : fromName cs ≠ .panic p := by
  obtain ⟨h1, h2⟩ := fromNameLoop_spec cs 0 (Nat.zero_le _)
  unfold fromName
  split
  · rename_i x hx
    obtain ⟨hle, _, _⟩ := h2 x hx
    unfold Outcome.subW; rw [if_pos hle]; intro h; cases h
  · intro h; cases h
  · rename_i q hq; exact absurd hq (h1 q)

theorem fromName_sound (cs : List Char) (v : Nat) (hne : cs ≠ []) (h : fromName cs = .ok v) :
    denotesName cs v = true := by
  obtain ⟨_, h2⟩ := fromNameLoop_spec cs 0 (Nat.zero_le _)
  unfold fromName at h
  split at h
  · rename_i x hx
    obtain ⟨hle, hval, hall⟩ := h2 x hx
    unfold Outcome.subW at h; rw [if_pos hle] at h
    injection h with h; subst h
    unfold denotesName
    have : cs.isEmpty = false := by cases cs with | nil => exact absurd rfl hne | cons _ _ => rfl
    rw [← hval]
    simp [this, hall, hle]
  · cases h
  · cases h

/-! ### decimal and the shared final step -/

theorem subsidy_pos_lt {h : Nat} (hpos : 0 < Height.subsidy h) : h < 6930000 := by
  rcases Nat.lt_or_ge h 6930000 with hl | hl
  · exact hl
  · rw [Height.subsidy_zero h hl] at hpos; cases hpos

theorem satAt_ok {h k : Nat} (hk : k < Height.subsidy h) : satAt h k = .ok (Height.startingSat h + k) := by
  have hh := subsidy_pos_lt (Nat.lt_of_le_of_lt (Nat.zero_le _) hk)
  have hlt := (Sat.compose h k hh hk).1
  unfold satAt Outcome.addW
  have hp : (2:Nat) ^ 64 = 18446744073709551616 := by decide
  rw [hp, if_pos (by unfold SUPPLY at hlt; omega)]

theorem fromDecimal_no_panic (cs : List Char) (p : String) : fromDecimal cs ≠ .panic p := by
  unfold fromDecimal
  split
  · intro h; cases h
  · split
    · intro h; cases h
    · split
      · intro h; cases h
      · split
        · intro h; cases h
        · rename_i hlt
          rw [satAt_ok (Nat.lt_of_not_ge hlt)]; intro h; cases h

theorem fromDecimal_sound (cs : List Char) (v : Nat) (h : fromDecimal cs = .ok v) :
    denotesDecimal cs v = true := by
  unfold fromDecimal at h
  split at h
  · cases h
  · rename_i hs os hsplit
    split at h
    · cases h
    · rename_i hh hhh
      split at h
      · cases h
      · rename_i k hk
        split at h
        · cases h
        · rename_i hlt
          have hlt' : k < Height.subsidy hh := Nat.lt_of_not_ge hlt
          rw [satAt_ok hlt'] at h
          injection h with h; subst h
          unfold denotesDecimal
          rw [hsplit]
          simp only
          rw [(parseUInt_numeral 32 hs hh hhh).1, (parseUInt_numeral 64 os k hk).1]
          simp [hlt']

/-! ### percentile -/

theorem fromPercentile_no_panic (fixed : Bool) (cs : List Char) (fc : FloatClass) (p : String) :
    fromPercentileWith fixed cs fc ≠ .panic p := by
  unfold fromPercentileWith
  split
  · intro h; cases h
  · cases fc <;> simp only [] <;> (try (intro h; cases h))
    · cases fixed <;> (intro h; cases h)
    · split <;> (intro h; cases h)

/-- with the NaN repair, an accepted percentile is a finite, non-negative, in-range one -/
theorem fromPercentile_sound_fixed (cs : List Char) (fc : FloatClass) (v : Nat)
    (h : fromPercentileWith true cs fc = .ok v) : denotesPercentile cs fc v = true := by
  unfold fromPercentileWith at h
  split at h
  · cases h
  · rename_i hlast
    have hl : cs.getLast? = some '%' := by
      cases hg : cs.getLast? with
      | none => rw [hg] at hlast; exact absurd (by simp) hlast
      | some c => rw [hg] at hlast; simp only [ne_eq, Option.some.injEq, Classical.not_not] at hlast; rw [hlast]
    cases fc <;> simp only [] at h <;> (try cases h)
    rename_i n
    split at h
    · cases h
    · rename_i hle
      injection h with h; subst h
      unfold denotesPercentile
      have : n < SUPPLY := by unfold LAST at hle; unfold SUPPLY at *; omega
      simp [hl, this]

end Ord.SatNotation
