import OrdModel.Num.SpacedRune
import OrdModel.Proofs.RuneName
/-! Helper lemmas for C32 (spaced round trip) and C31 (`SpacedRune::from_str`). -/
namespace Ord.SpacedRune
open Ord Ord.Rune

theorem isSpacer_bullet : isSpacer bullet = true := by decide
theorem isUpper_bullet : isUpper bullet = false := by decide

theorem not_upper_of_spacer {c : Char} (h : isSpacer c = true) : isUpper c = false := by
  simp [isSpacer] at h
  rcases h with h | h <;> subst h <;> decide

/-! ### bit facts -/

theorem mod_succ_of_testBit (sp i : Nat) (h : sp.testBit i = true) :
    sp % 2 ^ i ||| 2 ^ i = sp % 2 ^ (i + 1) := by
  apply Nat.eq_of_testBit_eq
  intro j
  simp only [Nat.testBit_or, Nat.testBit_mod_two_pow, Nat.testBit_two_pow]
  by_cases hj : j = i
  · subst hj; simp [h]
  · have : (i = j) = False := by simp; omega
    by_cases hlt : j < i
    · have : j < i + 1 := by omega
      simp [*]
    · have : ¬ j < i + 1 := by omega
      simp [*]

theorem mod_succ_of_not_testBit (sp i : Nat) (h : sp.testBit i = false) :
    sp % 2 ^ i = sp % 2 ^ (i + 1) := by
  apply Nat.eq_of_testBit_eq
  intro j
  simp only [Nat.testBit_mod_two_pow]
  by_cases hj : j = i
  · subst hj; simp [h]
  · by_cases hlt : j < i
    · have : j < i + 1 := by omega
      simp [*]
    · have : ¬ j < i + 1 := by omega
      simp [*]

theorem lt_of_not_testBit {s k : Nat} (hs : s < 2 ^ (k + 1)) (hb : s.testBit k = false) :
    s < 2 ^ k := by
  have h1 : s % 2 ^ (k + 1) = s := Nat.mod_eq_of_lt hs
  rw [← mod_succ_of_not_testBit s k hb] at h1
  rw [← h1]
  exact Nat.mod_lt _ (Nat.two_pow_pos k)

theorem or_two_pow {s k : Nat} (hs : s < 2 ^ k) : s ||| 2 ^ k = 2 ^ k + s := by
  have := Nat.two_pow_add_eq_or_of_lt hs 1
  simp only [Nat.mul_one] at this
  rw [this, Nat.or_comm]

theorem bitLen_le {x k : Nat} (h : x < 2 ^ k) : bitLen x ≤ k := by
  unfold bitLen
  split
  · omega
  · rename_i hx
    have := (Nat.log2_lt hx).mpr h
    omega

theorem lt_of_bitLen_lt {x k : Nat} (h : bitLen x < k + 1) : x < 2 ^ k := by
  unfold bitLen at h
  split at h
  · rename_i hx; subst hx; exact Nat.two_pow_pos k
  · rename_i hx
    exact (Nat.log2_lt hx).mp (by omega)

/-! ### printing then parsing -/

theorem parseLoop_interleave (sp : Nat) : ∀ (cs acc : List Char),
    cs ≠ [] → (∀ c ∈ cs, isUpper c = true) → acc.length + cs.length ≤ 33 →
    parseLoop acc (sp % 2 ^ acc.length) (interleave sp acc.length cs) =
      .ok ((cs.reverse ++ acc).reverse, sp % 2 ^ (acc.length + cs.length - 1)) := by
  intro cs
  induction cs with
  | nil => intro acc h; exact absurd rfl h
  | cons c cs ih =>
    intro acc _ hup hlen
    have hc := hup c (by simp)
    cases cs with
    | nil =>
      simp [interleave, parseLoop, hc]
    | cons c' cs' =>
      have hrec := ih (c :: acc) (by simp) (fun x hx => hup x (by simp [hx]))
        (by simp at hlen ⊢; omega)
      have hlen' : (c :: acc).length = acc.length + 1 := by simp
      rw [hlen'] at hrec
      have hidx : acc.length + 1 + (c' :: cs').length - 1 = acc.length + (c :: c' :: cs').length - 1 := by
        simp; omega
      have hlist : ((c' :: cs').reverse ++ c :: acc).reverse = ((c :: c' :: cs').reverse ++ acc).reverse := by
        simp
      rw [hidx, hlist] at hrec
      simp only [interleave]
      split
      · rename_i hbit
        have hk : ¬ (acc.length + 1 - 1 ≥ 32) := by simp at hlen; omega
        have hnb : (sp % 2 ^ acc.length).testBit (acc.length + 1 - 1) = false := by
          simp [Nat.testBit_mod_two_pow]
        simp only [parseLoop, hc, if_true, isUpper_bullet, isSpacer_bullet, hlen', Bool.false_eq_true,
          if_false, hk, hnb]
        have hz : ¬ (acc.length + 1 = 0) := by omega
        simp only [hz, if_false]
        have e : acc.length + 1 - 1 = acc.length := by omega
        rw [e, mod_succ_of_testBit sp _ hbit]
        exact hrec
      · rename_i hbit
        simp only [parseLoop, hc, if_true]
        rw [mod_succ_of_not_testBit sp _ (by simpa using hbit)]
        exact hrec

/-- names have at most 28 letters: `26^len ≤ 25·value + 1` -/
theorem pow_le_bijRev (l : List Char) : 26 ^ l.length ≤ 25 * bijRev l + 1 := by
  induction l with
  | nil => simp [bijRev]
  | cons c cs ih =>
    simp only [List.length_cons, Nat.pow_succ, bijRev]
    omega

theorem print_length_le (n : Nat) (h : n < U128) : (Rune.print n).length ≤ 28 := by
  rw [print_eq_printGen]
  have h1 := pow_le_bijRev (printGen n).reverse
  rw [← bij_eq_bijRev, bij_printGen, List.length_reverse] at h1
  rcases Nat.lt_or_ge (printGen n).length 29 with hl | hl
  · omega
  · have h2 : 26 ^ 29 ≤ 26 ^ (printGen n).length := Nat.pow_le_pow_right (by omega) hl
    have h3 : 25 * (U128 + 1) + 1 < 26 ^ 29 := by decide
    have : 25 * (n + 1) + 1 ≤ 25 * (U128 + 1) + 1 := by omega
    omega

/-! ### soundness of the parser -/

/-- printer that also prints a spacer after the last letter when its bit is set; `i` = number of
letters already written -/
def looseFrom (sp : Nat) : Nat → List Char → List Char
  | i, [] => if sp.testBit (i - 1) then [bullet] else []
  | i, c :: ls => (if sp.testBit (i - 1) then [bullet] else []) ++ c :: looseFrom sp (i + 1) ls

theorem interleave_eq_loose (sp : Nat) : ∀ (ls : List Char) (c : Char) (i : Nat),
    sp.testBit (i + ls.length) = false →
    interleave sp i (c :: ls) = c :: looseFrom sp (i + 1) ls := by
  intro ls
  induction ls with
  | nil => intro c i h; simp at h; simp [interleave, looseFrom, h]
  | cons c' ls ih =>
    intro c i h
    have := ih c' (i + 1) (by simp at h; rw [← h]; congr 1; omega)
    simp only [interleave, looseFrom, this]
    split
    · rename_i hb; simp [hb]
    · rename_i hb; simp [hb]

theorem normalize_cons_upper {c : Char} (h : isUpper c = true) (cs : List Char) :
    normalize (c :: cs) = c :: normalize cs := by
  have hne : c ≠ '.' := by intro hc; subst hc; exact absurd h (by decide)
  simp [normalize, hne]

theorem normalize_cons_spacer {c : Char} (h : isSpacer c = true) (cs : List Char) :
    normalize (c :: cs) = bullet :: normalize cs := by
  simp [isSpacer] at h
  rcases h with h | h <;> subst h <;> simp [normalize] <;> decide

/-- loop invariant for acceptance; `acc.length ≥ 1` -/
theorem parseLoop_ok : ∀ (cs acc : List Char) (s0 : Nat) (letters : List Char) (sp : Nat),
    acc ≠ [] → s0 < 2 ^ acc.length →
    parseLoop acc s0 cs = .ok (letters, sp) →
    letters = acc.reverse ++ cs.filter isUpper ∧ sp < 2 ^ letters.length ∧
    sp % 2 ^ (acc.length - 1) = s0 % 2 ^ (acc.length - 1) ∧
    (s0.testBit (acc.length - 1) = true → sp.testBit (acc.length - 1) = true) ∧
    (if s0.testBit (acc.length - 1) then [bullet] else []) ++ normalize cs =
      looseFrom sp acc.length (cs.filter isUpper) := by
  intro cs
  induction cs with
  | nil =>
    intro acc s0 letters sp _ hs h
    simp only [parseLoop, Outcome.ok.injEq, Prod.mk.injEq] at h
    obtain ⟨h1, h2⟩ := h
    subst h1; subst h2
    simp [looseFrom, normalize, hs]
  | cons c cs ih =>
    intro acc s0 letters sp hacc hs h
    have hi : 1 ≤ acc.length := by
      cases acc with
      | nil => exact absurd rfl hacc
      | cons _ _ => simp
    simp only [parseLoop] at h
    split at h
    · -- a letter
      rename_i hup
      have hs' : s0 < 2 ^ (c :: acc).length := by
        simp only [List.length_cons, Nat.pow_succ]; omega
      obtain ⟨h1, h2, h3, _, h5⟩ := ih (c :: acc) s0 letters sp (by simp) hs' h
      simp only [List.length_cons, Nat.add_sub_cancel] at h3 h5
      have hbit0 : s0.testBit acc.length = false := Nat.testBit_lt_two_pow hs
      rw [Nat.mod_eq_of_lt hs] at h3
      simp only [hbit0, Bool.false_eq_true, if_false, List.nil_append] at h5
      have hdvd : 2 ^ (acc.length - 1) ∣ 2 ^ acc.length :=
        Nat.pow_dvd_pow 2 (by omega)
      have hbits : sp.testBit (acc.length - 1) = s0.testBit (acc.length - 1) := by
        rw [← h3, Nat.testBit_mod_two_pow]
        have : acc.length - 1 < acc.length := by omega
        simp [this]
      refine ⟨?_, h2, ?_, ?_, ?_⟩
      · rw [h1]; simp [hup]
      · rw [← h3, Nat.mod_mod_of_dvd _ hdvd]
      · intro hb; rw [hbits]; exact hb
      · rw [normalize_cons_upper hup]
        simp only [List.filter_cons, hup, if_true, looseFrom, hbits, h5]
    · split at h
      · -- a spacer
        rename_i hnup hsp
        have hz : ¬ (acc.length = 0) := by omega
        simp only [hz, if_false] at h
        split at h
        · cases h
        · split at h
          · cases h
          · rename_i hk hbit
            have hbit' : s0.testBit (acc.length - 1) = false := by simpa using hbit
            have hs1 : s0 < 2 ^ (acc.length - 1) := by
              apply lt_of_not_testBit _ hbit'
              have : acc.length - 1 + 1 = acc.length := by omega
              rw [this]; exact hs
            rw [or_two_pow hs1] at h
            have hs2 : 2 ^ (acc.length - 1) + s0 < 2 ^ acc.length := by
              have : 2 ^ acc.length = 2 ^ (acc.length - 1) * 2 := by
                rw [← Nat.pow_succ]; congr 1; omega
              omega
            obtain ⟨h1, h2, h3, h4, h5⟩ := ih acc _ letters sp hacc hs2 h
            have hset : (2 ^ (acc.length - 1) + s0).testBit (acc.length - 1) = true := by
              rw [Nat.testBit_two_pow_add_eq, hbit']; rfl
            have hmod : (2 ^ (acc.length - 1) + s0) % 2 ^ (acc.length - 1) = s0 := by
              rw [Nat.add_mod, Nat.mod_self, Nat.zero_add, Nat.mod_mod, Nat.mod_eq_of_lt hs1]
            simp only [hset, if_true] at h5
            refine ⟨?_, h2, ?_, ?_, ?_⟩
            · rw [h1]; simp [hnup]
            · rw [h3, hmod, Nat.mod_eq_of_lt hs1]
            · intro hb; rw [hbit'] at hb; cases hb
            · rw [normalize_cons_spacer hsp]
              simp only [hbit', Bool.false_eq_true, if_false, List.nil_append, List.filter_cons, hnup]
              exact h5
      · cases h

/-- the loop panics only on a spacer that follows 33 or more letters -/
theorem parseLoop_ne_panic : ∀ (cs acc : List Char) (s0 : Nat) (p : String),
    acc.length + (cs.filter isUpper).length ≤ 32 → parseLoop acc s0 cs ≠ .panic p := by
  intro cs
  induction cs with
  | nil => intro acc s0 p _; simp [parseLoop]
  | cons c cs ih =>
    intro acc s0 p hlen
    simp only [parseLoop]
    split
    · rename_i hup
      apply ih
      simp [hup] at hlen ⊢; omega
    · rename_i hup
      have hlen' : acc.length + (cs.filter isUpper).length ≤ 32 := by
        simpa [List.filter_cons, hup] using hlen
      split
      · split
        · simp
        · split
          · omega
          · split
            · simp
            · exact ih _ _ _ hlen'
      · simp

/-- length of what the loop returns -/
theorem parseLoop_letters : ∀ (cs acc : List Char) (s0 : Nat) (letters : List Char) (sp : Nat),
    parseLoop acc s0 cs = .ok (letters, sp) → letters = acc.reverse ++ cs.filter isUpper := by
  intro cs
  induction cs with
  | nil => intro acc s0 letters sp h; simp [parseLoop] at h; simp [h.1]
  | cons c cs ih =>
    intro acc s0 letters sp h
    simp only [parseLoop] at h
    split at h
    · rename_i hup
      rw [ih _ _ _ _ h]; simp [hup]
    · rename_i hup
      split at h
      · split at h
        · cases h
        · split at h
          · cases h
          · split at h
            · cases h
            · rw [ih _ _ _ _ h]; simp [hup]
      · cases h

/-- acceptance implies denotation: the letters of `s` form a name with value `r + 1`, the mask
fits below the last letter, and `s` (with `.` read as `•`) is exactly the printed form -/
theorem parse_ok (s : List Char) (r sp : Nat) (h : parse s = .ok (r, sp)) :
    s.filter isUpper ≠ [] ∧
    bij (s.filter isUpper) = r + 1 ∧ r < 2 ^ 128 ∧
    sp < 2 ^ ((s.filter isUpper).length - 1) ∧
    normalize s = interleave sp 0 (s.filter isUpper) := by
  unfold parse at h
  cases hl : parseLoop [] 0 s with
  | panic q => rw [hl] at h; cases h
  | err e => rw [hl] at h; cases h
  | ok res =>
    obtain ⟨letters, sp'⟩ := res
    rw [hl] at h
    simp only at h
    split at h
    · cases h
    · split at h
      · cases h
      · rename_i hbl
        cases hr : Rune.parse letters with
        | err e => rw [hr] at h; cases h
        | panic q => rw [hr] at h; cases h
        | ok v =>
          rw [hr] at h
          simp only [Outcome.ok.injEq, Prod.mk.injEq] at h
          obtain ⟨rfl, rfl⟩ := h
          -- the string starts with a letter
          cases s with
          | nil =>
            simp [parseLoop] at hl
            obtain ⟨rfl, rfl⟩ := hl
            simp [bitLen] at hbl
          | cons c cs =>
            simp only [parseLoop] at hl
            split at hl
            · rename_i hup
              obtain ⟨h1, h2, _, _, h5⟩ := parseLoop_ok cs [c] 0 letters sp' (by simp)
                (by simp) hl
              simp only [List.length_singleton, Nat.sub_self, Nat.zero_testBit, Bool.false_eq_true,
                if_false, List.nil_append, List.reverse_singleton, List.singleton_append] at h1 h5
              have hfil : (c :: cs).filter isUpper = letters := by
                rw [h1]; simp [hup]
              rw [hfil]
              have hL : letters.length = (cs.filter isUpper).length + 1 := by rw [h1]; simp
              have hsp : sp' < 2 ^ (letters.length - 1) := by
                apply lt_of_bitLen_lt
                have : letters.length - 1 + 1 = letters.length := by omega
                rw [this]; omega
              rcases (Rune.parse_ok_iff letters v).mp hr with ⟨h0, _⟩ | ⟨hne, _, hb, hv⟩
              · rw [h0] at hL; simp at hL
              · refine ⟨hne, hb, hv, hsp, ?_⟩
                rw [normalize_cons_upper hup, h5, h1]
                have hbit : sp'.testBit (0 + (cs.filter isUpper).length) = false := by
                  apply Nat.testBit_lt_two_pow
                  rw [hL] at hsp
                  simpa using hsp
                exact (interleave_eq_loose sp' _ c 0 hbit).symm
            · split at hl
              · simp at hl
              · cases hl

end Ord.SpacedRune
