import OrdModel.Num.SpacedRune
import OrdModel.Proofs.RuneName
/-! Helper lemmas for C32 (spaced round trip) and C31 (`SpacedRune::from_str`). -/
namespace Ord.SpacedRune
open Ord Ord.Rune

theorem isSpacer_bullet : isSpacer bullet = true := by decide
theorem isUpper_bullet : isUpper bullet = false := by decide

theorem not_upper_of_spacer {c : Char} (h : isSpacer c = true) : isUpper c = false := by
  simp [isSpacer] at h
  rcases h with h | h <;> subst h <;> decide

/-! ### bit facts -/

theorem mod_succ_of_testBit (sp i : Nat) (h : sp.testBit i = true) :
    sp % 2 ^ i ||| 2 ^ i = sp % 2 ^ (i + 1) := by
  apply Nat.eq_of_testBit_eq
  intro j
  simp only [Nat.testBit_or, Nat.testBit_mod_two_pow, Nat.testBit_two_pow]
  by_cases hj : j = i
  · subst hj; simp [h]
  · have : (i = j) = False := by simp; omega
    by_cases hlt : j < i
    · have : j < i + 1 := by omega
      simp [*]
    · have : ¬ j < i + 1 := by omega
      simp [*]

theorem mod_succ_of_not_testBit (sp i : Nat) (h : sp.testBit i = false) :
    sp % 2 ^ i = sp % 2 ^ (i + 1) := by
  apply Nat.eq_of_testBit_eq
  intro j
  simp only [Nat.testBit_mod_two_pow]
  by_cases hj : j = i
  · subst hj; simp [h]
  · by_cases hlt : j < i
    · have : j < i + 1 := by omega
      simp [*]
    · have : ¬ j < i + 1 := by omega
      simp [*]

theorem lt_of_not_testBit {s k : Nat} (hs : s < 2 ^ (k + 1)) (hb : s.testBit k = false) :
    s < 2 ^ k := by
  have h1 : s % 2 ^ (k + 1) = s := Nat.mod_eq_of_lt hs
  rw [← mod_succ_of_not_testBit s k hb] at h1
  rw [← h1]
  exact Nat.mod_lt _ (Nat.two_pow_pos k)

theorem or_two_pow {s k : Nat} (hs : s < 2 ^ k) : s ||| 2 ^ k = 2 ^ k + s := by
  have := Nat.two_pow_add_eq_or_of_lt hs 1
  simp only [Nat.mul_one] at this
  rw [this, Nat.or_comm]

theorem bitLen_le {x k : Nat} (h : x < 2 ^ k) : bitLen x ≤ k := by
  unfold bitLen
  split
  · omega
  · rename_i hx
    have := (Nat.log2_lt hx).mpr h
    omega

theorem lt_of_bitLen_lt {x k : Nat} (h : bitLen x < k + 1) : x < 2 ^ k := by
  unfold bitLen at h
  split at h
  · rename_i hx; subst hx; exact Nat.two_pow_pos k
  · rename_i hx
    exact (Nat.log2_lt hx).mp (by omega)

/-! ### printing then parsing -/

theorem parseLoop_interleave (fx : Bool) (sp : Nat) : ∀ (cs acc : List Char),
    cs ≠ [] → (∀ c ∈ cs, isUpper c = true) → acc.length + cs.length ≤ 33 →
    parseLoopWith fx acc (sp % 2 ^ acc.length) (interleave sp acc.length cs) =
      .ok ((cs.reverse ++ acc).reverse, sp % 2 ^ (acc.length + cs.length - 1)) := by
  intro cs
  induction cs with
  | nil => intro acc h; exact absurd rfl h
  | cons c cs ih =>
    intro acc _ hup hlen
    have hc := hup c (by simp)
    cases cs with
    | nil =>
      simp [interleave, parseLoopWith, hc]
    | cons c' cs' =>
      have hrec := ih (c :: acc) (by simp) (fun x hx => hup x (by simp [hx]))
        (by simp at hlen ⊢; omega)
      have hlen' : (c :: acc).length = acc.length + 1 := by simp
      rw [hlen'] at hrec
      have hidx : acc.length + 1 + (c' :: cs').length - 1 = acc.length + (c :: c' :: cs').length - 1 := by
        simp; omega
      have hlist : ((c' :: cs').reverse ++ c :: acc).reverse = ((c :: c' :: cs').reverse ++ acc).reverse := by
        simp
      rw [hidx, hlist] at hrec
      simp only [interleave]
      split
      · rename_i hbit
        have hk : ¬ (acc.length + 1 - 1 ≥ 32) := by simp at hlen; omega
        have hnb : (sp % 2 ^ acc.length).testBit (acc.length + 1 - 1) = false := by
          simp [Nat.testBit_mod_two_pow]
        simp only [parseLoopWith, hc, if_true, isUpper_bullet, isSpacer_bullet, hlen', Bool.false_eq_true,
          if_false, hk, hnb]
        have hz : ¬ (acc.length + 1 = 0) := by omega
        simp only [hz, if_false]
        have e : acc.length + 1 - 1 = acc.length := by omega
        rw [e, mod_succ_of_testBit sp _ hbit]
        exact hrec
      · rename_i hbit
        simp only [parseLoopWith, hc, if_true]
        rw [mod_succ_of_not_testBit sp _ (by simpa using hbit)]
        exact hrec

/-- names have at most 28 letters: `26^len ≤ 25·value + 1` -/
theorem pow_le_bijRev (l : List Char) : 26 ^ l.length ≤ 25 * bijRev l + 1 := by
  induction l with
  | nil => simp [bijRev]
  | cons c cs ih =>
    simp only [List.length_cons, Nat.pow_succ, bijRev]
    omega

theorem print_length_le (n : Nat) (h : n < U128) : (Rune.print n).length ≤ 28 := by
  rw [print_eq_printGen]
  have h1 := pow_le_bijRev (printGen n).reverse
  rw [← bij_eq_bijRev, bij_printGen, List.length_reverse] at h1
  rcases Nat.lt_or_ge (printGen n).length 29 with hl | hl
  · omega
  · have h2 : 26 ^ 29 ≤ 26 ^ (printGen n).length := Nat.pow_le_pow_right (by omega) hl
    have h3 : 25 * (U128 + 1) + 1 < 26 ^ 29 := by decide
    have : 25 * (n + 1) + 1 ≤ 25 * (U128 + 1) + 1 := by omega
    omega

/-! ### soundness of the parser -/

/-- printer that also prints a spacer after the last letter when its bit is set; `i` = number of
letters already written -/
def looseFrom (sp : Nat) : Nat → List Char → List Char
  | i, [] => if sp.testBit (i - 1) then [bullet] else []
  | i, c :: ls => (if sp.testBit (i - 1) then [bullet] else []) ++ c :: looseFrom sp (i + 1) ls

theorem interleave_eq_loose (sp : Nat) : ∀ (ls : List Char) (c : Char) (i : Nat),
    sp.testBit (i + ls.length) = false →
    interleave sp i (c :: ls) = c :: looseFrom sp (i + 1) ls := by
  intro ls
  induction ls with
  | nil => intro c i h; simp at h; simp [interleave, looseFrom, h]
  | cons c' ls ih =>
    intro c i h
    have := ih c' (i + 1) (by simp at h; rw [← h]; congr 1; omega)
    simp only [interleave, looseFrom, this]
    split
    · rename_i hb; simp [hb]
    · rename_i hb; simp [hb]

theorem normalize_cons_upper {c : Char} (h : isUpper c = true) (cs : List Char) :
    normalize (c :: cs) = c :: normalize cs := by
  have hne : c ≠ '.' := by intro hc; subst hc; exact absurd h (by decide)
  simp [normalize, hne]

theorem normalize_cons_spacer {c : Char} (h : isSpacer c = true) (cs : List Char) :
    normalize (c :: cs) = bullet :: normalize cs := by
  simp [isSpacer] at h
  rcases h with h | h <;> subst h <;> simp [normalize] <;> decide

/-- loop invariant for acceptance; `acc.length ≥ 1` -/
theorem parseLoop_ok (fx : Bool) : ∀ (cs acc : List Char) (s0 : Nat) (letters : List Char) (sp : Nat),
    acc ≠ [] → s0 < 2 ^ acc.length →
    parseLoopWith fx acc s0 cs = .ok (letters, sp) →
    letters = acc.reverse ++ cs.filter isUpper ∧ sp < 2 ^ letters.length ∧
    sp % 2 ^ (acc.length - 1) = s0 % 2 ^ (acc.length - 1) ∧
    (s0.testBit (acc.length - 1) = true → sp.testBit (acc.length - 1) = true) ∧
    (if s0.testBit (acc.length - 1) then [bullet] else []) ++ normalize cs =
      looseFrom sp acc.length (cs.filter isUpper) := by
  intro cs
  induction cs with
  | nil =>
    intro acc s0 letters sp _ hs h
    simp only [parseLoopWith, Outcome.ok.injEq, Prod.mk.injEq] at h
    obtain ⟨h1, h2⟩ := h
    subst h1; subst h2
    simp [looseFrom, normalize, hs]
  | cons c cs ih =>
    intro acc s0 letters sp hacc hs h
    have hi : 1 ≤ acc.length := by
      cases acc with
      | nil => exact absurd rfl hacc
      | cons _ _ => simp
    simp only [parseLoopWith] at h
    split at h
    · -- a letter
      rename_i hup
      have hs' : s0 < 2 ^ (c :: acc).length := by
        simp only [List.length_cons, Nat.pow_succ]; omega
      obtain ⟨h1, h2, h3, _, h5⟩ := ih (c :: acc) s0 letters sp (by simp) hs' h
      simp only [List.length_cons, Nat.add_sub_cancel] at h3 h5
      have hbit0 : s0.testBit acc.length = false := Nat.testBit_lt_two_pow hs
      rw [Nat.mod_eq_of_lt hs] at h3
      simp only [hbit0, Bool.false_eq_true, if_false, List.nil_append] at h5
      have hdvd : 2 ^ (acc.length - 1) ∣ 2 ^ acc.length :=
        Nat.pow_dvd_pow 2 (by omega)
      have hbits : sp.testBit (acc.length - 1) = s0.testBit (acc.length - 1) := by
        rw [← h3, Nat.testBit_mod_two_pow]
        have : acc.length - 1 < acc.length := by omega
        simp [this]
      refine ⟨?_, h2, ?_, ?_, ?_⟩
      · rw [h1]; simp [hup]
      · rw [← h3, Nat.mod_mod_of_dvd _ hdvd]
      · intro hb; rw [hbits]; exact hb
      · rw [normalize_cons_upper hup]
        simp only [List.filter_cons, hup, if_true, looseFrom, hbits, h5]
    · split at h
      · -- a spacer
        rename_i hnup hsp
        have hz : ¬ (acc.length = 0) := by omega
        simp only [hz, if_false] at h
        split at h
        · split at h <;> cases h
        · split at h
          · cases h
          · rename_i hk hbit
            have hbit' : s0.testBit (acc.length - 1) = false := by simpa using hbit
            have hs1 : s0 < 2 ^ (acc.length - 1) := by
              apply lt_of_not_testBit _ hbit'
              have : acc.length - 1 + 1 = acc.length := by omega
              rw [this]; exact hs
            rw [or_two_pow hs1] at h
            have hs2 : 2 ^ (acc.length - 1) + s0 < 2 ^ acc.length := by
              have : 2 ^ acc.length = 2 ^ (acc.length - 1) * 2 := by
                rw [← Nat.pow_succ]; congr 1; omega
              omega
            obtain ⟨h1, h2, h3, h4, h5⟩ := ih acc _ letters sp hacc hs2 h
            have hset : (2 ^ (acc.length - 1) + s0).testBit (acc.length - 1) = true := by
              rw [Nat.testBit_two_pow_add_eq, hbit']; rfl
            have hmod : (2 ^ (acc.length - 1) + s0) % 2 ^ (acc.length - 1) = s0 := by
              rw [Nat.add_mod, Nat.mod_self, Nat.zero_add, Nat.mod_mod, Nat.mod_eq_of_lt hs1]
            simp only [hset, if_true] at h5
            refine ⟨?_, h2, ?_, ?_, ?_⟩
            · rw [h1]; simp [hnup]
            · rw [h3, hmod, Nat.mod_eq_of_lt hs1]
            · intro hb; rw [hbit'] at hb; cases hb
            · rw [normalize_cons_spacer hsp]
              simp only [hbit', Bool.false_eq_true, if_false, List.nil_append, List.filter_cons, hnup]
              exact h5
      · cases h

/-- the loop panics only on a spacer that follows 33 or more letters -/
theorem parseLoop_ne_panic (fx : Bool) : ∀ (cs acc : List Char) (s0 : Nat) (p : String),
    acc.length + (cs.filter isUpper).length ≤ 32 → parseLoopWith fx acc s0 cs ≠ .panic p := by
  intro cs
  induction cs with
  | nil => intro acc s0 p _; simp [parseLoopWith]
  | cons c cs ih =>
    intro acc s0 p hlen
    simp only [parseLoopWith]
    split
    · rename_i hup
      apply ih
      simp [hup] at hlen ⊢; omega
    · rename_i hup
      have hlen' : acc.length + (cs.filter isUpper).length ≤ 32 := by
        simpa [List.filter_cons, hup] using hlen
      split
      · split
        · simp
        · split
          · omega
          · split
            · simp
            · exact ih _ _ _ hlen'
      · simp

/-- the repaired loop never panics -/
theorem parseLoop_fixed_ne_panic : ∀ (cs acc : List Char) (s0 : Nat) (p : String),
    parseLoopWith true acc s0 cs ≠ .panic p := by
  intro cs
  induction cs with
  | nil => intro acc s0 p; simp [parseLoopWith]
  | cons c cs ih =>
    intro acc s0 p
    simp only [parseLoopWith, ↓reduceIte]
    repeat' split
    all_goals first | exact ih _ _ _ | simp

/-- length of what the loop returns -/
theorem parseLoop_letters (fx : Bool) : ∀ (cs acc : List Char) (s0 : Nat) (letters : List Char) (sp : Nat),
    parseLoopWith fx acc s0 cs = .ok (letters, sp) → letters = acc.reverse ++ cs.filter isUpper := by
  intro cs
  induction cs with
  | nil => intro acc s0 letters sp h; simp [parseLoopWith] at h; simp [h.1]
  | cons c cs ih =>
    intro acc s0 letters sp h
    simp only [parseLoopWith] at h
    split at h
    · rename_i hup
      rw [ih _ _ _ _ h]; simp [hup]
    · rename_i hup
      split at h
      · split at h
        · cases h
        · split at h
          · split at h <;> cases h
          · split at h
            · cases h
            · rw [ih _ _ _ _ h]; simp [hup]
      · cases h

/-! ### completeness of the parser -/

theorem eq_mod_of_bits (s0 sp i : Nat) (hi : 1 ≤ i) (hs : s0 < 2 ^ i)
    (hlow : sp % 2 ^ (i - 1) = s0 % 2 ^ (i - 1)) (hb : s0.testBit (i - 1) = sp.testBit (i - 1)) :
    s0 = sp % 2 ^ i := by
  apply Nat.eq_of_testBit_eq
  intro j
  rw [Nat.testBit_mod_two_pow]
  rcases Nat.lt_trichotomy j (i - 1) with hj | hj | hj
  · have h1 := congrArg (fun x => x.testBit j) hlow
    simp only [Nat.testBit_mod_two_pow, hj, decide_true, Bool.true_and] at h1
    have : j < i := by omega
    simp [this, h1]
  · subst hj
    have : i - 1 < i := by omega
    simp [this, hb]
  · have hji : ¬ j < i := by omega
    have hle : 2 ^ i ≤ 2 ^ j := Nat.pow_le_pow_right (by omega) (by omega)
    have : s0.testBit j = false := Nat.testBit_lt_two_pow (by omega)
    simp [hji, this]

theorem looseFrom_upper (sp : Nat) : ∀ (ls : List Char) (i : Nat) (c : Char),
    (∀ x ∈ ls, isUpper x = true) → c ∈ looseFrom sp i ls → c = bullet ∨ isUpper c = true := by
  intro ls
  induction ls with
  | nil =>
    intro i c _ hc
    simp only [looseFrom] at hc
    split at hc
    · simp at hc; exact Or.inl hc
    · simp at hc
  | cons l ls ih =>
    intro i c hup hc
    simp only [looseFrom] at hc
    rcases List.mem_append.mp hc with h | h
    · split at h
      · simp at h; exact Or.inl h
      · simp at h
    · rcases List.mem_cons.mp h with h | h
      · exact Or.inr (h ▸ hup l (by simp))
      · exact ih _ _ (fun x hx => hup x (by simp [hx])) h

/-- the part of `looseFrom` after the optional spacer starts with a letter or is empty -/
def looseTail (sp : Nat) (i : Nat) : List Char → List Char
  | [] => []
  | c :: ls => c :: looseFrom sp (i + 1) ls

theorem looseFrom_split (sp i : Nat) (ls : List Char) :
    looseFrom sp i ls = (if sp.testBit (i - 1) then [bullet] else []) ++ looseTail sp i ls := by
  cases ls <;> simp [looseFrom, looseTail]

theorem looseTail_head_ne_bullet (sp i : Nat) (ls rest : List Char)
    (hup : ∀ x ∈ ls, isUpper x = true) : looseTail sp i ls ≠ bullet :: rest := by
  cases ls with
  | nil => simp [looseTail]
  | cons c ls =>
    simp only [looseTail]
    intro h
    injection h with h1 _
    have := hup c (by simp)
    rw [h1] at this
    exact absurd this (by decide)

theorem parseLoop_complete (fx : Bool) (sp : Nat) : ∀ (cs acc : List Char) (s0 : Nat),
    acc ≠ [] → s0 < 2 ^ acc.length →
    (∀ c ∈ cs, isUpper c = true ∨ isSpacer c = true) →
    acc.length + (cs.filter isUpper).length ≤ 32 →
    sp % 2 ^ (acc.length - 1) = s0 % 2 ^ (acc.length - 1) →
    (s0.testBit (acc.length - 1) = true → sp.testBit (acc.length - 1) = true) →
    (if s0.testBit (acc.length - 1) then [bullet] else []) ++ normalize cs =
      looseFrom sp acc.length (cs.filter isUpper) →
    parseLoopWith fx acc s0 cs = .ok (acc.reverse ++ cs.filter isUpper,
      sp % 2 ^ (acc.length + (cs.filter isUpper).length)) := by
  intro cs
  induction cs with
  | nil =>
    intro acc s0 hacc hs _ _ hlow himp heq
    have hi : 1 ≤ acc.length := by
      cases acc with
      | nil => exact absurd rfl hacc
      | cons _ _ => simp
    have hb : s0.testBit (acc.length - 1) = sp.testBit (acc.length - 1) := by
      simp only [normalize, List.map_nil, List.append_nil, List.filter_nil, looseFrom] at heq
      cases h1 : s0.testBit (acc.length - 1) <;> cases h2 : sp.testBit (acc.length - 1) <;>
        simp [h1, h2] at heq ⊢
    have := eq_mod_of_bits s0 sp acc.length hi hs hlow hb
    simp [parseLoopWith, ← this]
  | cons c cs ih =>
    intro acc s0 hacc hs hchars hlen hlow himp heq
    have hi : 1 ≤ acc.length := by
      cases acc with
      | nil => exact absurd rfl hacc
      | cons _ _ => simp
    have hfilt : ∀ x ∈ cs.filter isUpper, isUpper x = true := by
      intro x hx; exact (List.mem_filter.mp hx).2
    rcases hchars c (by simp) with hup | hsp
    · -- a letter
      rw [normalize_cons_upper hup] at heq
      simp only [List.filter_cons, hup, if_true, looseFrom] at heq hlen ⊢
      have hcb : c ≠ bullet := by intro h; rw [h] at hup; exact absurd hup (by decide)
      have hb : s0.testBit (acc.length - 1) = sp.testBit (acc.length - 1) ∧
          normalize cs = looseFrom sp (acc.length + 1) (cs.filter isUpper) := by
        cases h1 : s0.testBit (acc.length - 1) <;> cases h2 : sp.testBit (acc.length - 1) <;>
          simp [h1, h2] at heq ⊢
        · exact heq
        · exact absurd heq.1 hcb
        · exact absurd heq.1.symm hcb
        · exact heq
      have hs0 := eq_mod_of_bits s0 sp acc.length hi hs hlow hb.1
      have hrec := ih (c :: acc) s0 (by simp) (by simp only [List.length_cons, Nat.pow_succ]; omega)
        (fun x hx => hchars x (by simp [hx])) (by simp only [List.length_cons] at hlen ⊢; omega)
        (by simp only [List.length_cons, Nat.add_sub_cancel]; rw [Nat.mod_eq_of_lt hs]; exact hs0.symm)
        (by
          intro h
          simp only [List.length_cons, Nat.add_sub_cancel] at h
          rw [Nat.testBit_lt_two_pow hs] at h; cases h)
        (by
          simp only [List.length_cons, Nat.add_sub_cancel, Nat.testBit_lt_two_pow hs,
            Bool.false_eq_true, if_false, List.nil_append]
          exact hb.2)
      simp only [parseLoopWith, hup, if_true]
      rw [hrec]
      simp only [List.reverse_cons, List.append_assoc, List.singleton_append, List.length_cons]
      rw [show acc.length + 1 + (cs.filter isUpper).length =
        acc.length + ((cs.filter isUpper).length + 1) from by omega]
    · -- a spacer
      have hnup := not_upper_of_spacer hsp
      rw [normalize_cons_spacer hsp] at heq
      simp only [List.filter_cons, hnup, Bool.false_eq_true, if_false] at heq hlen ⊢
      rw [looseFrom_split] at heq
      have hb : s0.testBit (acc.length - 1) = false ∧ sp.testBit (acc.length - 1) = true := by
        cases h1 : s0.testBit (acc.length - 1) <;> cases h2 : sp.testBit (acc.length - 1) <;>
          simp [h1, h2] at heq ⊢
        · exact looseTail_head_ne_bullet sp _ _ _ hfilt heq.symm
        · have := himp h1; rw [h2] at this; cases this
        · exact looseTail_head_ne_bullet sp _ _ _ hfilt heq.symm
      have hs1 : s0 < 2 ^ (acc.length - 1) := by
        apply lt_of_not_testBit _ hb.1
        have : acc.length - 1 + 1 = acc.length := by omega
        rw [this]; exact hs
      have hs2 : 2 ^ (acc.length - 1) + s0 < 2 ^ acc.length := by
        have : 2 ^ acc.length = 2 ^ (acc.length - 1) * 2 := by
          rw [← Nat.pow_succ]; congr 1; omega
        omega
      have hset : (2 ^ (acc.length - 1) + s0).testBit (acc.length - 1) = true := by
        rw [Nat.testBit_two_pow_add_eq, hb.1]; rfl
      have hmod : (2 ^ (acc.length - 1) + s0) % 2 ^ (acc.length - 1) = s0 := by
        rw [Nat.add_mod, Nat.mod_self, Nat.zero_add, Nat.mod_mod, Nat.mod_eq_of_lt hs1]
      have hrec := ih acc (2 ^ (acc.length - 1) + s0) hacc hs2
        (fun x hx => hchars x (by simp [hx])) hlen
        (by rw [hmod, hlow, Nat.mod_eq_of_lt hs1])
        (fun _ => hb.2)
        (by
          rw [hset, looseFrom_split, hb.2]
          simp only [hb.1, hb.2, Bool.false_eq_true, if_false, if_true, List.nil_append] at heq ⊢
          exact heq)
      have hz : ¬ (acc.length = 0) := by omega
      have hk : ¬ (acc.length - 1 ≥ 32) := by omega
      simp only [parseLoopWith, hnup, Bool.false_eq_true, if_false, hsp, if_true, hz, hk, hb.1]
      rw [or_two_pow hs1]
      exact hrec

/-- a name whose value fits in 128 bits has at most 28 letters -/
theorem name_length_le (l : List Char) (h : bij l ≤ 2 ^ 128) : l.length ≤ 28 := by
  have h1 := pow_le_bijRev l.reverse
  rw [← bij_eq_bijRev, List.length_reverse] at h1
  rcases Nat.lt_or_ge l.length 29 with hl | hl
  · omega
  · have h2 : 26 ^ 29 ≤ 26 ^ l.length := Nat.pow_le_pow_right (by omega) hl
    have h3 : 25 * (2 ^ 128) + 1 < 26 ^ 29 := by decide
    omega

/-- every string of the grammar whose name fits is accepted, with the rune and mask it denotes -/
theorem parse_complete (fx : Bool) (s : List Char) (r sp : Nat)
    (hchars : ∀ c ∈ s, isUpper c = true ∨ isSpacer c = true)
    (hne : s.filter isUpper ≠ []) (hb : bij (s.filter isUpper) = r + 1) (hr : r < 2 ^ 128)
    (hsp : sp < 2 ^ ((s.filter isUpper).length - 1))
    (hnorm : normalize s = interleave sp 0 (s.filter isUpper)) :
    parseWith fx s = .ok (r, sp) := by
  have hfilt : ∀ x ∈ s.filter isUpper, isUpper x = true := by
    intro x hx; exact (List.mem_filter.mp hx).2
  have hlen28 := name_length_le (s.filter isUpper) (by omega)
  cases s with
  | nil => simp at hne
  | cons c cs =>
    have hup : isUpper c = true := by
      rcases hchars c (by simp) with h | h
      · exact h
      · -- a leading spacer cannot be the first printed character
        exfalso
        have hnup := not_upper_of_spacer h
        rw [normalize_cons_spacer h] at hnorm
        simp only [List.filter_cons, hnup, Bool.false_eq_true, if_false] at hnorm hne
        cases hl : cs.filter isUpper with
        | nil => exact hne hl
        | cons l ls =>
          rw [hl] at hnorm
          have hlu : isUpper l = true := (List.mem_filter.mp (hl ▸ List.mem_cons_self)).2
          cases ls with
          | nil => simp [interleave] at hnorm; rw [← hnorm.1] at hlu; exact absurd hlu (by decide)
          | cons l2 ls2 =>
            simp only [interleave] at hnorm
            split at hnorm <;>
              (injection hnorm with h1 _; rw [← h1] at hlu; exact absurd hlu (by decide))
    simp only [List.filter_cons, hup, if_true] at hne hb hsp hnorm hlen28 hfilt
    rw [normalize_cons_upper hup] at hnorm
    have hbit : sp.testBit (0 + (cs.filter isUpper).length) = false := by
      apply Nat.testBit_lt_two_pow
      simpa using hsp
    rw [interleave_eq_loose sp _ c 0 hbit] at hnorm
    injection hnorm with _ hnorm
    have hloop := parseLoop_complete fx sp cs [c] 0 (by simp) (by simp)
      (fun x hx => hchars x (by simp [hx])) (by simp only [List.length_cons] at hlen28 ⊢; simp; omega)
      (by simp [Nat.mod_one]) (by simp) (by simpa using hnorm)
    simp only [List.length_singleton, List.reverse_singleton, List.singleton_append] at hloop
    have hsp' : sp % 2 ^ (1 + (cs.filter isUpper).length) = sp := by
      apply Nat.mod_eq_of_lt
      have : 2 ^ (cs.filter isUpper).length ≤ 2 ^ (1 + (cs.filter isUpper).length) :=
        Nat.pow_le_pow_right (by omega) (by omega)
      simp only [List.length_cons, Nat.add_sub_cancel] at hsp
      omega
    rw [hsp'] at hloop
    have hparse : Rune.parse (c :: cs.filter isUpper) = .ok r :=
      (parse_ok_iff _ _).mpr (Or.inr ⟨by simp, hfilt, hb, hr⟩)
    have h1 : ¬ (fx = false ∧ (c :: cs.filter isUpper).length ≥ 2 ^ 32) := by
      intro ⟨_, h⟩; omega
    have hmin : min (c :: cs.filter isUpper).length (2 ^ 32 - 1) = (c :: cs.filter isUpper).length := by
      omega
    have hbl := bitLen_le hsp
    have h2 : ¬ (bitLen sp ≥ (c :: cs.filter isUpper).length) := by
      simp only [List.length_cons, Nat.add_sub_cancel] at hbl ⊢; omega
    simp only [parseWith, parseLoopWith, hup, if_true, hloop, h1, hmin, h2, if_false, hparse]

/-- acceptance implies denotation: the letters of `s` form a name with value `r + 1`, the mask
fits below the last letter, and `s` (with `.` read as `•`) is exactly the printed form -/
theorem parse_ok (fx : Bool) (s : List Char) (r sp : Nat) (h : parseWith fx s = .ok (r, sp)) :
    s.filter isUpper ≠ [] ∧
    bij (s.filter isUpper) = r + 1 ∧ r < 2 ^ 128 ∧
    sp < 2 ^ ((s.filter isUpper).length - 1) ∧
    normalize s = interleave sp 0 (s.filter isUpper) := by
  unfold parseWith at h
  cases hl : parseLoopWith fx [] 0 s with
  | panic q => rw [hl] at h; cases h
  | err e => rw [hl] at h; cases h
  | ok res =>
    obtain ⟨letters, sp'⟩ := res
    rw [hl] at h
    simp only at h
    split at h
    · cases h
    · split at h
      · cases h
      · rename_i hbl
        cases hr : Rune.parse letters with
        | err e => rw [hr] at h; cases h
        | panic q => rw [hr] at h; cases h
        | ok v =>
          rw [hr] at h
          simp only [Outcome.ok.injEq, Prod.mk.injEq] at h
          obtain ⟨rfl, rfl⟩ := h
          -- the string starts with a letter
          cases s with
          | nil =>
            simp [parseLoopWith] at hl
            obtain ⟨rfl, rfl⟩ := hl
            simp [bitLen] at hbl
          | cons c cs =>
            simp only [parseLoopWith] at hl
            split at hl
            · rename_i hup
              obtain ⟨h1, h2, _, _, h5⟩ := parseLoop_ok fx cs [c] 0 letters sp' (by simp)
                (by simp) hl
              simp only [List.length_singleton, Nat.sub_self, Nat.zero_testBit, Bool.false_eq_true,
                if_false, List.nil_append, List.reverse_singleton, List.singleton_append] at h1 h5
              have hfil : (c :: cs).filter isUpper = letters := by
                rw [h1]; simp [hup]
              rw [hfil]
              have hL : letters.length = (cs.filter isUpper).length + 1 := by rw [h1]; simp
              rcases (Rune.parse_ok_iff letters v).mp hr with ⟨h0, _⟩ | ⟨hne, _, hb, hv⟩
              · rw [h0] at hL; simp at hL
              · have hl28 : letters.length ≤ 28 :=
                  name_length_le letters (by unfold Rune.U128 at hv; omega)
                have hsp : sp' < 2 ^ (letters.length - 1) := by
                  apply lt_of_bitLen_lt
                  have : letters.length - 1 + 1 = letters.length := by omega
                  rw [this]; omega
                refine ⟨hne, hb, hv, hsp, ?_⟩
                rw [normalize_cons_upper hup, h5, h1]
                have hbit : sp'.testBit (0 + (cs.filter isUpper).length) = false := by
                  apply Nat.testBit_lt_two_pow
                  rw [hL] at hsp
                  simpa using hsp
                exact (interleave_eq_loose sp' _ c 0 hbit).symm
            · split at hl
              · simp at hl
              · cases hl

end Ord.SpacedRune
