import OrdModel.Proofs.IndexFlagsChain
/-
C15 helper lemmas 9: inscriptions NOT indexed (rune results only).  With the sat or address
index the UTXO pass still runs, but it only writes the UTXO table, SAT_TO_SATPOINT, the address
rows and the LostSats statistic (`coreW` erases exactly these), and emits no event; the rune
pass commutes with that erasure (scripts of the C12 stream's `IndexSchedFrameRunes`, re-run for
`coreW`).  So every configuration is simulated by the one with all optional indexes off, which
skips the UTXO pass altogether.
-/
namespace Ord.Index
open Outcome Sched

/-- erase what the UTXO pass writes when inscriptions are not indexed -/
def coreW (_x : Unit) (st : State) : State :=
  { st with utxo := [], sat2sp := [], script2out := [], lostSats := 0 }

theorem mint_C (st : State) (x : Unit) (h : Nat) (id : RuneId) :
    mint (coreW x st) h id = (coreW x (mint st h id).1, (mint st h id).2) := by
  unfold mint
  show (match AL.get st.runeEntries id with
    | none => (coreW x st, none)
    | some e =>
      match e.mintable h with
      | none => (coreW x st, none)
      | some amount =>
        (coreW x { st with runeEntries := AL.set st.runeEntries id { e with mints := e.mints + 1 } }, some amount)) = _
  cases AL.get st.runeEntries id with
  | none => rfl
  | some e =>
    simp only
    cases e.mintable h with
    | none => rfl
    | some a => rfl


theorem etched_C (st : State) (x : Unit) (blk : Block) (i : Nat) (tx : Tx) (art : Artifact) :
    etched (coreW x st) blk i tx art = omap (fun r => (coreW x r.1, r.2)) (etched st blk i tx art) := by
  unfold etched
  extract_lets named
  clear_value named
  match named with
  | none => rfl
  | some none => rfl
  | some (some rune) =>
    simp only
    show (if rune < blk.minimumRune ∨ rune ≥ RESERVED ∨ AL.contains st.rune2id rune = true then _ else _) = _
    split
    · rfl
    · cases txCommitsToRune blk.height rune tx.inputs with
      | panic s => rfl
      | err e => rfl
      | ok b => cases b <;> rfl


theorem createRuneEntry_C (st : State) (x : Unit) (blk : Block) (tx : Tx) (art : Artifact) (id : RuneId)
    (rune : Nat) :
    createRuneEntry (coreW x st) blk tx art id rune =
      (coreW x (createRuneEntry st blk tx art id rune).1, (createRuneEntry st blk tx art id rune).2) := by
  unfold createRuneEntry
  simp only
  show (match AL.get st.id2seq ⟨tx.txid, 0⟩ with
    | some seq => _
    | none => _, _) = _
  cases AL.get st.id2seq ⟨tx.txid, 0⟩ with
  | none => rfl
  | some seq => rfl


theorem takeInputs_C (ins : List TxIn) (st : State) (x : Unit) (un : Balances) :
    takeInputs ins (coreW x st) un = omap (fun r => (coreW x r.1, r.2)) (takeInputs ins st un) := by
  induction ins generalizing st un with
  | nil => rfl
  | cons i rest ih =>
    simp only [takeInputs]
    show (match AL.get st.balances i.prev with
      | none => _
      | some bs => _) = _
    cases AL.get st.balances i.prev with
    | none => exact ih _ _
    | some bs =>
      simp only
      cases takeInputs.addAll bs un with
      | panic s => rfl
      | err e => rfl
      | ok un' => exact ih { st with balances := AL.erase st.balances i.prev } un'


theorem writeOutputs_C (blk : Block) (tx : Tx) (l : List (Nat × Balances)) (st : State) (x : Unit)
    (burned : Balances) (evs : List Event) :
    writeOutputs blk tx l (coreW x st) burned evs =
      omap (fun r => (coreW x r.1, r.2)) (writeOutputs blk tx l st burned evs) := by
  induction l generalizing st burned evs with
  | nil => rfl
  | cons p rest ih =>
    obtain ⟨vout, bs⟩ := p
    simp only [writeOutputs]
    split
    · exact ih _ _ _
    · have hF := ih { st with balances := AL.set st.balances ⟨tx.txid, vout⟩ (sortBalances bs) } burned
        (evs ++ (sortBalances bs).map (fun (id, b) => Event.runeTransferred b blk.height ⟨tx.txid, vout⟩ id tx.txid))
      have hT : (match addAllTo bs burned false with
          | .ok burned' => writeOutputs blk tx rest (coreW x st) burned' evs
          | .panic s => .panic s
          | .err e => .err e) = omap (fun r => (coreW x r.1, r.2)) (match addAllTo bs burned false with
          | .ok burned' => writeOutputs blk tx rest st burned' evs
          | .panic s => .panic s
          | .err e => .err e) := by
        cases addAllTo bs burned false with
        | panic s => rfl
        | err e => rfl
        | ok b => exact ih st b evs
      cases tx.outputs[vout]? with
      | none =>
        simp only [Bool.false_eq_true, if_false]
        exact hF
      | some o =>
        simp only
        by_cases ho : o.opReturn = true
        · rw [if_pos ho, if_pos ho]; exact hT
        · rw [if_neg ho, if_neg ho]; exact hF


theorem flushBurned_C (bb : Balances) (st : State) (x : Unit) :
    flushBurned bb (coreW x st) = omap (fun r => coreW x r) (flushBurned bb st) := by
  induction bb generalizing st with
  | nil => rfl
  | cons p rest ih =>
    obtain ⟨id, b⟩ := p
    simp only [flushBurned]
    show (match AL.get st.runeEntries id with
      | none => _
      | some e => _) = _
    cases AL.get st.runeEntries id with
    | none => rfl
    | some e =>
      simp only
      split
      · rfl
      · exact ih { st with runeEntries := AL.set st.runeEntries id { e with burned := e.burned + b } }


theorem rtxMint_C (st0 : State) (x : Unit) (un0 : Balances) (blk : Block) (tx : Tx) (mintId : Option RuneId) :
    rtxMint (coreW x st0) un0 blk tx mintId =
      (coreW x (rtxMint st0 un0 blk tx mintId).1, (rtxMint st0 un0 blk tx mintId).2) := by
  unfold rtxMint
  cases mintId with
  | none => rfl
  | some id =>
    simp only
    rw [mint_C]
    cases mint st0 blk.height id with
    | mk s o => cases o <;> rfl


theorem rtxEtch_C (blk : Block) (txIndex : Nat) (tx : Tx) (art : Artifact) (alloc0 : Allocated)
    (st1 : State) (x : Unit) (un1O : Outcome Balances) (ev1 : List Event) :
    rtxEtch blk txIndex tx art alloc0 (coreW x st1) un1O ev1 =
      omap (fun q => (coreW x q.1, q.2)) (rtxEtch blk txIndex tx art alloc0 st1 un1O ev1) := by
  unfold rtxEtch
  cases un1O with
  | panic s => rfl
  | err e => rfl
  | ok un1 =>
    simp only
    rw [etched_C]
    cases etched st1 blk txIndex tx art with
    | panic s => rfl
    | err e => rfl
    | ok r =>
      obtain ⟨st2, et⟩ := r
      simp only [omap_ok]
      cases rtxEdicts tx art alloc0 un1 et with
      | panic s => rfl
      | err e => rfl
      | ok r2 =>
        obtain ⟨un3, alloc1⟩ := r2
        cases et with
        | none => rfl
        | some p =>
          obtain ⟨id, rune⟩ := p
          simp only
          rw [createRuneEntry_C]
          rfl


theorem rtxPhase1_C (st0 : State) (x : Unit) (un0 : Balances) (blk : Block) (txIndex : Nat) (tx : Tx) :
    rtxPhase1 (coreW x st0) un0 blk txIndex tx =
      omap (fun q => (coreW x q.1, q.2)) (rtxPhase1 st0 un0 blk txIndex tx) := by
  unfold rtxPhase1
  cases tx.artifact with
  | none => rfl
  | some art =>
    simp only
    rw [rtxMint_C]
    exact rtxEtch_C _ _ _ _ _ _ _ _ _


theorem rtxRest_C (blk : Block) (tx : Tx) (bb : Balances) (st3 : State) (x : Unit) (un : Balances)
    (alloc : Allocated) (evs : List Event) :
    rtxRest blk tx bb (coreW x st3) un alloc evs =
      omap (fun r => (coreW x r.1, r.2)) (rtxRest blk tx bb st3 un alloc evs) := by
  unfold rtxRest
  cases rtxPhase2 tx un alloc with
  | panic s => rfl
  | err e => rfl
  | ok r =>
    obtain ⟨alloc2, burned0⟩ := r
    simp only
    rw [writeOutputs_C]
    cases writeOutputs blk tx (enumFrom 0 alloc2) st3 burned0 evs with
    | panic s => rfl
    | err e => rfl
    | ok r2 =>
      obtain ⟨st4, burned, evs2⟩ := r2
      simp only [omap_ok]
      cases addAllTo burned bb false with
      | panic s => rfl
      | err e => rfl
      | ok b => rfl


theorem indexRunesTx_C (st : State) (x : Unit) (blk : Block) (txIndex : Nat) (tx : Tx) (bb : Balances) :
    indexRunesTx (coreW x st) blk txIndex tx bb =
      omap (fun r => (coreW x r.1, r.2)) (indexRunesTx st blk txIndex tx bb) := by
  rw [indexRunesTx_eq, indexRunesTx_eq, takeInputs_C]
  cases takeInputs tx.inputs st [] with
  | panic s => rfl
  | err e => rfl
  | ok r =>
    obtain ⟨st0, un0⟩ := r
    simp only [omap_ok]
    rw [rtxPhase1_C]
    cases rtxPhase1 st0 un0 blk txIndex tx with
    | panic s => rfl
    | err e => rfl
    | ok q =>
      obtain ⟨st3, un, alloc, evs⟩ := q
      simp only [omap_ok]
      exact rtxRest_C _ _ _ _ _ _ _ _


theorem indexRunesBlock_go_C (blk : Block) (l : List (Nat × Tx)) (st : State) (x : Unit) (bb : Balances)
    (evs : List Event) :
    indexRunesBlock.go blk l (coreW x st) bb evs =
      omap (fun r => (coreW x r.1, r.2)) (indexRunesBlock.go blk l st bb evs) := by
  induction l generalizing st bb evs with
  | nil => rfl
  | cons p rest ih =>
    obtain ⟨i, tx⟩ := p
    simp only [indexRunesBlock.go]
    rw [indexRunesTx_C]
    cases indexRunesTx st blk i tx bb with
    | panic s => rfl
    | err e => rfl
    | ok r =>
      obtain ⟨st', bb', evs'⟩ := r
      exact ih st' bb' (evs ++ evs')


theorem indexRunesBlock_C (st : State) (x : Unit) (blk : Block) :
    indexRunesBlock (coreW x st) blk = omap (fun r => (coreW x r.1, r.2)) (indexRunesBlock st blk) := by
  unfold indexRunesBlock
  rw [indexRunesBlock_go_C]
  cases indexRunesBlock.go blk (enumFrom 0 blk.txs) st [] [] with
  | panic s => rfl
  | err e => rfl
  | ok r =>
    obtain ⟨st1, bb, evs⟩ := r
    simp only [omap_ok]
    rw [flushBurned_C]
    cases flushBurned bb st1 with
    | panic s => rfl
    | err e => rfl
    | ok st2 => rfl




/-! ### the UTXO pass without inscriptions only writes what `coreW` erases -/

theorem takeOne_core (cfg : Cfg) (bc : BlockCtx) (i : TxIn) (bc' : BlockCtx) (e : UtxoEntry)
    (h : takeOne cfg bc i = .ok (bc', e)) : coreW () bc'.st = coreW () bc.st := by
  unfold takeOne at h
  split at h
  · simp only [Outcome.ok.injEq, Prod.mk.injEq] at h; rw [← h.1]
  · split at h
    · simp only at h
      split at h
      · split at h
        · simp only [Outcome.ok.injEq, Prod.mk.injEq] at h; rw [← h.1]; rfl
        · cases h
      · simp only [Outcome.ok.injEq, Prod.mk.injEq] at h; rw [← h.1]; rfl
    · cases h

theorem takeInputEntries_core (cfg : Cfg) (inputs : List TxIn) (bc : BlockCtx) (acc : List (TxIn × UtxoEntry))
    (bc' : BlockCtx) (r : List (TxIn × UtxoEntry))
    (h : takeInputEntries cfg inputs bc acc = .ok (bc', r)) : coreW () bc'.st = coreW () bc.st := by
  induction inputs generalizing bc acc with
  | nil => simp only [takeInputEntries, Outcome.ok.injEq, Prod.mk.injEq] at h; rw [← h.1]
  | cons i rest ih =>
    rw [takeInputEntries_cons] at h
    split at h
    · rename_i bc1 e h1
      rw [ih _ _ h, takeOne_core _ _ _ _ _ h1]
    · cases h
    · cases h

theorem indexTxMid_core (cfg : Cfg) (blk : Block) (off : Nat) (tx : Tx) (bc1 : BlockCtx)
    (inputs : List (TxIn × UtxoEntry)) (bc3 : BlockCtx) (outs3 : List UtxoEntry)
    (h : indexTxMid cfg blk false off tx bc1 inputs = .ok (bc3, outs3)) :
    coreW () bc3.st = coreW () bc1.st ∧ bc3.ins = bc1.ins := by
  unfold indexTxMid at h
  simp only [Bool.false_eq_true, if_false] at h
  by_cases hs : cfg.indexSats = true
  · simp only [hs, if_true] at h
    cases hr : indexTransactionSats (tx.outputs.map (·.value))
        (if off = 0 then bc1.coinbaseInputs else inputs.flatMap (fun x => x.2.ranges)) with
    | none => rw [hr] at h; simp at h
    | some r =>
      rw [hr] at h
      simp only [Outcome.ok.injEq, Prod.mk.injEq] at h
      rw [← h.1]
      by_cases h0 : off = 0 <;> simp [h0, coreW]
  · simp only [hs, Bool.false_eq_true, if_false, Outcome.ok.injEq, Prod.mk.injEq] at h
    rw [← h.1]
    exact ⟨rfl, rfl⟩

theorem indexTx_core (cfg : Cfg) (blk : Block) (off : Nat) (tx : Tx) (bc bc' : BlockCtx)
    (h : indexTx cfg blk false off tx bc = .ok bc') : coreW () bc'.st = coreW () bc.st ∧ bc'.ins = bc.ins := by
  rw [indexTx_eq] at h
  by_cases h0 : off = 0
  · simp only [h0, if_true] at h
    cases hm : indexTxMid cfg blk false 0 tx bc (tx.inputs.map (fun i => (i, UtxoEntry.empty))) with
    | panic s => rw [hm] at h; cases h
    | err e => rw [hm] at h; cases h
    | ok r =>
      obtain ⟨bc3, outs3⟩ := r
      rw [hm] at h
      simp only [Outcome.ok.injEq] at h
      subst h
      exact indexTxMid_core cfg blk 0 tx bc _ bc3 outs3 hm
  · simp only [h0, if_false] at h
    cases ht : takeInputEntries cfg tx.inputs bc [] with
    | panic s => rw [ht] at h; simp at h
    | err e => rw [ht] at h; simp at h
    | ok q =>
      obtain ⟨bc1, inputs⟩ := q
      rw [ht] at h
      dsimp only at h
      cases hm : indexTxMid cfg blk false off tx bc1 inputs with
      | panic s => rw [hm] at h; cases h
      | err e => rw [hm] at h; cases h
      | ok r =>
        obtain ⟨bc3, outs3⟩ := r
        rw [hm] at h
        simp only [Outcome.ok.injEq] at h
        subst h
        obtain ⟨a, b⟩ := indexTxMid_core cfg blk off tx bc1 inputs bc3 outs3 hm
        exact ⟨a.trans (takeInputEntries_core cfg tx.inputs bc [] bc1 inputs ht),
          b.trans (takeInputEntries_ins cfg tx.inputs bc [] bc1 inputs ht)⟩

theorem indexTxs_core (cfg : Cfg) (blk : Block) : ∀ (l : List (Nat × Tx)) (bc bc' : BlockCtx),
    indexTxs cfg blk false l bc = .ok bc' → coreW () bc'.st = coreW () bc.st ∧ bc'.ins = bc.ins
  | [], bc, bc', h => by simp only [indexTxs, Outcome.ok.injEq] at h; subst h; exact ⟨rfl, rfl⟩
  | (i, tx) :: rest, bc, bc', h => by
    simp only [indexTxs] at h
    split at h
    · cases h
    · cases h
    · rename_i bc1 h1
      obtain ⟨a, b⟩ := indexTx_core cfg blk i tx bc bc1 h1
      obtain ⟨c, d⟩ := indexTxs_core cfg blk rest bc1 bc' h
      exact ⟨c.trans a, d.trans b⟩

theorem flushEntry_core (cfg : Cfg) (hi : cfg.indexInscriptions = false) (st : State) (op : OutPoint) (e : UtxoEntry) :
    coreW () (flushEntry cfg st op e) = coreW () st := by
  unfold flushEntry
  simp only [hi, Bool.false_eq_true, if_false]
  cases cfg.indexAddresses <;> rfl

theorem flushCache_core (cfg : Cfg) (hi : cfg.indexInscriptions = false) : ∀ (c : Cache) (st : State),
    coreW () (flushCache cfg st c) = coreW () st
  | [], _ => rfl
  | (op, e) :: c, st => by
    rw [flushCache_cons, flushCache_core cfg hi c, flushEntry_core cfg hi]

theorem endState_core (cfg : Cfg) (blk : Block) (bc : BlockCtx) :
    coreW () (endState cfg blk false bc).1 = coreW () bc.st := by
  unfold endState
  cases bc.lostRanges.isEmpty <;> rfl

/-- the whole UTXO pass: nothing but the erased fields changes, no event -/
theorem indexUtxoEntries_core (cfg : Cfg) (hi : cfg.indexInscriptions = false) (st : State) (blk : Block)
    (st' : State) (evs : List Event) (h : indexUtxoEntries cfg st blk = .ok (st', evs)) :
    coreW () st' = coreW () st ∧ evs = [] := by
  rw [indexUtxoEntries_eq] at h
  have hon : insOnOf cfg blk = false := by simp [insOnOf, hi]
  rw [hon] at h
  cases hx : indexTxs cfg blk false (blockOrder blk) (bc0A cfg st blk) with
  | panic s => rw [hx] at h; simp at h
  | err e => rw [hx] at h; simp at h
  | ok bc =>
    rw [hx] at h
    simp only [Outcome.ok.injEq, Prod.mk.injEq] at h
    obtain ⟨a, b⟩ := indexTxs_core cfg blk _ _ bc hx
    refine ⟨?_, ?_⟩
    · rw [← h.1, flushCache_core cfg hi, endState_core, a]; rfl
    · rw [← h.2, b]; rfl

theorem applyBlock_noIns_sim (cfg : Cfg) (hi : cfg.indexInscriptions = false) (st : State) (blk : Block)
    (st' : State) (evs : List Event) (h : applyBlock cfg st blk = .ok (st', evs)) :
    applyBlock cfg.base (coreW () st) blk = .ok (coreW () st', evs) := by
  unfold applyBlock at h ⊢
  have hbi : cfg.base.indexInscriptions = false := hi
  have hbs : cfg.base.indexSats = false := rfl
  have hba : cfg.base.indexAddresses = false := rfl
  have hbr : cfg.base.indexRunes = cfg.indexRunes := rfl
  have hbf : cfg.base.firstRuneHeight = cfg.firstRuneHeight := rfl
  simp only [hbi, hbs, hba, Bool.or_self, Bool.false_eq_true, if_false, hbr, hbf]
  -- the utxo pass of the cfg run
  have key : ∃ st1, (if (cfg.indexInscriptions || cfg.indexAddresses || cfg.indexSats) = true then indexUtxoEntries cfg st blk
      else Outcome.ok (st, [])) = .ok (st1, []) ∧ coreW () st1 = coreW () st := by
    by_cases hc : (cfg.indexInscriptions || cfg.indexAddresses || cfg.indexSats) = true
    · simp only [hc, if_true] at h ⊢
      cases h1 : indexUtxoEntries cfg st blk with
      | panic s => rw [h1] at h; simp at h
      | err e => rw [h1] at h; simp at h
      | ok r =>
        obtain ⟨st1, ev1⟩ := r
        obtain ⟨a, b⟩ := indexUtxoEntries_core cfg hi st blk st1 ev1 h1
        subst b
        exact ⟨st1, rfl, a⟩
    · simp only [hc, Bool.false_eq_true, if_false]
      exact ⟨st, rfl, rfl⟩
  obtain ⟨st1, k1, k2⟩ := key
  rw [k1] at h
  dsimp only at h ⊢
  rw [← k2]
  by_cases hr : (cfg.indexRunes && decide (blk.height ≥ cfg.firstRuneHeight)) = true
  · simp only [hr, if_true] at h ⊢
    rw [indexRunesBlock_C]
    cases h2 : indexRunesBlock st1 blk with
    | panic s => rw [h2] at h; simp at h
    | err e => rw [h2] at h; simp at h
    | ok r2 =>
      obtain ⟨st2, ev2⟩ := r2
      rw [h2] at h
      simp only [Outcome.ok.injEq, Prod.mk.injEq, List.nil_append] at h
      obtain ⟨rfl, rfl⟩ := h
      rfl
  · simp only [hr, Bool.false_eq_true, if_false] at h ⊢
    simp only [Outcome.ok.injEq, Prod.mk.injEq, List.append_nil] at h
    obtain ⟨rfl, rfl⟩ := h
    rfl

theorem runFrom_noIns_sim (cfg : Cfg) (hi : cfg.indexInscriptions = false) : ∀ (chain : List Block) (st st' : State)
    (evs : List Event), runFrom cfg st chain = .ok (st', evs) →
    runFrom cfg.base (coreW () st) chain = .ok (coreW () st', evs)
  | [], st, st', evs, h => by
    simp only [runFrom, Outcome.ok.injEq, Prod.mk.injEq] at h
    obtain ⟨rfl, rfl⟩ := h
    rfl
  | b :: bs, st, st', evs, h => by
    simp only [runFrom] at h ⊢
    cases h1 : applyBlock cfg st b with
    | panic s => rw [h1] at h; simp at h
    | err e => rw [h1] at h; simp at h
    | ok r =>
      obtain ⟨st1, ev1⟩ := r
      rw [h1] at h
      dsimp only at h
      rw [applyBlock_noIns_sim cfg hi st b st1 ev1 h1]
      dsimp only
      cases h2 : runFrom cfg st1 bs with
      | panic s => rw [h2] at h; simp at h
      | err e => rw [h2] at h; simp at h
      | ok r2 =>
        obtain ⟨st2, ev2⟩ := r2
        rw [h2] at h
        simp only [Outcome.ok.injEq, Prod.mk.injEq] at h
        obtain ⟨rfl, rfl⟩ := h
        rw [runFrom_noIns_sim cfg hi bs st1 st2 ev2 h2]

theorem run_noIns_sim (cfg : Cfg) (hi : cfg.indexInscriptions = false) (chain : List Block) (st' : State)
    (evs : List Event) (h : run cfg chain = .ok (st', evs)) :
    run cfg.base chain = .ok (coreW () st', evs) :=
  runFrom_noIns_sim cfg hi chain {} st' evs h

theorem proj_coreW (st : State) : projInsRunes (coreW () st) = projInsRunes st := rfl

end Ord.Index
