import OrdModel.Proofs.SatParse
/-! Totality of `Sat::from_degree` once the saturating-arithmetic repair is applied. -/
namespace Ord.SatNotation
open Ord Ord.Epoch

theorem finish_no_panic (height k : Nat) (r : List Char) (p : String) :
    (if (!r.isEmpty) = true then Outcome.err "TrailingCharacters"
     else if k ≥ Height.subsidy height then Outcome.err "BlockOffset" else satAt height k) ≠ .panic p := by
  split
  · intro h; cases h
  · split
    · intro h; cases h
    · rename_i hlt
      rw [satAt_ok (Nat.lt_of_not_ge hlt)]; intro h; cases h

theorem degreeTail_no_panic (height : Nat) (rest : List Char) (p : String) :
    degreeTail height rest ≠ .panic p := by
  unfold degreeTail
  simp only []
  split
  · split
    · intro h; cases h
    · exact finish_no_panic _ _ _ _
  · exact finish_no_panic _ _ _ _

theorem degreeHeightFixed_no_panic (c eo po : Nat) (heo : eo < 210000) (hpo : po < 2016) (p : String) :
    degreeHeightFixed c eo po ≠ .panic p := by
  have hp : (2:Nat) ^ 32 = 4294967296 := by decide
  have h1 : po + 210000 * 6 < 4294967296 := Nat.lt_trans (Nat.add_lt_add_right hpo _) (by decide)
  have h2 : eo ≤ po + 210000 * 6 :=
    Nat.le_trans (Nat.le_of_lt heo) (Nat.le_trans (by decide) (Nat.le_add_left _ _))
  unfold degreeHeightFixed CYCLE_EPOCHS SUBSIDY_HALVING_INTERVAL
  rw [hp, if_neg (fun hn => hn h1), if_neg (fun hn => hn h2)]
  split <;> (intro h; cases h)

/-- with notes/fix-sat-degree-overflow.diff applied, `Sat::from_degree` never panics -/
theorem fromDegree_fixed_no_panic (cs : List Char) (p : String) : fromDegreeWith true cs ≠ .panic p := by
  unfold fromDegreeWith
  split
  · intro h; cases h
  · split
    · intro h; cases h
    · split
      · intro h; cases h
      · split
        · intro h; cases h
        · split
          · intro h; cases h
          · rename_i heo
            split
            · intro h; cases h
            · split
              · intro h; cases h
              · split
                · intro h; cases h
                · rename_i hpo
                  rw [show degreeHeightWith true = degreeHeightFixed from rfl]
                  split
                  · exact degreeTail_no_panic _ _ _
                  · intro h; cases h
                  · rename_i q hq
                    exact absurd hq (degreeHeightFixed_no_panic _ _ _
                      (Nat.lt_of_not_ge (by simpa [SUBSIDY_HALVING_INTERVAL] using heo))
                      (Nat.lt_of_not_ge (by simpa [DIFFCHANGE_INTERVAL] using hpo)) q)

end Ord.SatNotation
