import OrdModel.Proofs.IndexInsnumScan
/-
Group `insnum`, C05: the numbering invariant of the inscription tables and its preservation by
the two things `update_inscription_location` does to them (append a new entry; set the Burned
charm of an old one).
-/
namespace Ord.Index.Insnum
open Ord.Index Ord.Outcome

theorem inscriptionId_beq_iff (a b : InscriptionId) : (a == b) = true ↔ a = b := by
  cases a; cases b
  show (_ == _ && _ == _) = true ↔ _
  simp [InscriptionId.mk.injEq]

instance instLawfulBEqInscriptionId : LawfulBEq InscriptionId where
  eq_of_beq {a b} h := (inscriptionId_beq_iff a b).1 h
  rfl {a} := (inscriptionId_beq_iff a a).2 rfl

/-! ### `numberWalk` -/

def walkStep (n : Int) (bc : Nat × Nat) : Option (Nat × Nat) :=
  if n = (bc.1 : Int) then some (bc.1 + 1, bc.2)
  else if n = -((bc.2 : Int) + 1) then some (bc.1, bc.2 + 1)
  else none

theorem numberWalk_append (l : List Int) (n : Int) : ∀ (b c : Nat),
    numberWalk (l ++ [n]) b c = (numberWalk l b c).bind (walkStep n) := by
  induction l with
  | nil => intro b c; simp [numberWalk, walkStep]
  | cons m rest ih =>
    intro b c
    simp only [List.cons_append, numberWalk]
    split
    · exact ih _ _
    · split
      · exact ih _ _
      · rfl

/-- every number met by a successful walk lies in `[b0, b)` or in `[-c, -c0)` -/
theorem numberWalk_bounds (l : List Int) : ∀ (b0 c0 b c : Nat), numberWalk l b0 c0 = some (b, c) →
    b0 ≤ b ∧ c0 ≤ c ∧ b + c = b0 + c0 + l.length ∧
    ∀ n ∈ l, ((b0 : Int) ≤ n ∧ n < (b : Int)) ∨ (-(c : Int) ≤ n ∧ n < -(c0 : Int)) := by
  induction l with
  | nil =>
    intro b0 c0 b c h
    simp only [numberWalk, Option.some.injEq, Prod.mk.injEq] at h
    obtain ⟨rfl, rfl⟩ := h
    simp
  | cons m rest ih =>
    intro b0 c0 b c h
    simp only [numberWalk] at h
    split at h
    · rename_i hm
      obtain ⟨h1, h2, h3, h4⟩ := ih _ _ _ _ h
      refine ⟨by omega, h2, by simp only [List.length_cons]; omega, ?_⟩
      intro n hn
      rcases List.mem_cons.1 hn with rfl | hn
      · left; omega
      · rcases h4 n hn with h5 | h5
        · left; omega
        · right; exact h5
    · split at h
      · rename_i hm
        obtain ⟨h1, h2, h3, h4⟩ := ih _ _ _ _ h
        refine ⟨h1, by omega, by simp only [List.length_cons]; omega, ?_⟩
        intro n hn
        rcases List.mem_cons.1 hn with rfl | hn
        · right; omega
        · rcases h4 n hn with h5 | h5
          · left; exact h5
          · right; omega
      · exact absurd h (by simp)

/-! ### The invariant -/

structure Inv5 (es : List InsEntry) (i2s : List (InscriptionId × Nat)) (n2s : List (Int × Nat)) (b c : Nat) : Prop where
  seq : ∀ (i : Nat) (e : InsEntry), es[i]? = some e → e.seq = i
  walk : numberWalk (es.map (·.number)) 0 0 = some (b, c)
  num_fwd : ∀ (i : Nat) (e : InsEntry), es[i]? = some e → AL.get n2s e.number = some i
  num_bwd : ∀ (n : Int) (s : Nat), AL.get n2s n = some s → ∃ e : InsEntry, es[s]? = some e ∧ e.number = n
  id_fwd : ∀ (i : Nat) (e : InsEntry), es[i]? = some e → AL.get i2s e.id = some i
  id_bwd : ∀ (id : InscriptionId) (s : Nat), AL.get i2s id = some s → ∃ e : InsEntry, es[s]? = some e ∧ e.id = id
  charm : ∀ (i : Nat) (e : InsEntry), es[i]? = some e → hasCharm e.charms charmCursed = decide (e.number < 0)

def Inv5T (t : Tabs) : Prop := Inv5 t.entries t.id2seq t.num2seq t.blessed t.cursed

theorem inv5_empty : Inv5 [] [] [] 0 0 := by
  refine ⟨?_, rfl, ?_, ?_, ?_, ?_, ?_⟩ <;> intros <;> simp_all [AL.get]

theorem getElem?_snoc {α : Type} (l : List α) (a x : α) (i : Nat) (h : (l ++ [a])[i]? = some x) :
    l[i]? = some x ∨ (i = l.length ∧ x = a) := by
  rw [List.getElem?_append] at h
  split at h
  · exact Or.inl h
  · rename_i hge
    right
    have hi : i - l.length = 0 := by
      rcases Nat.eq_zero_or_pos (i - l.length) with h0 | hpos
      · exact h0
      · rw [List.getElem?_eq_none (by simp; omega)] at h; cases h
    rw [hi] at h
    simp at h
    exact ⟨by omega, h.symm⟩

/-- appending a freshly numbered entry -/
theorem inv5_new {es : List InsEntry} {i2s : List (InscriptionId × Nat)} {n2s : List (Int × Nat)} {b c : Nat}
    (hinv : Inv5 es i2s n2s b c) (cur : Bool) (e : InsEntry)
    (hseq : e.seq = es.length)
    (hnum : e.number = if cur then -((c : Int) + 1) else (b : Int))
    (hcharm : hasCharm e.charms charmCursed = cur)
    (hfresh : ∀ (i : Nat) (e' : InsEntry), es[i]? = some e' → e'.id ≠ e.id) :
    Inv5 (es ++ [e]) (AL.set i2s e.id es.length) (AL.set n2s e.number es.length)
      (if cur then b else b + 1) (if cur then c + 1 else c) := by
  obtain ⟨_, _, hcount, hb⟩ := numberWalk_bounds _ _ _ _ _ hinv.walk
  have hnumfresh : ∀ (i : Nat) (e' : InsEntry), es[i]? = some e' → e'.number ≠ e.number := by
    intro i e' hi heq
    have hmem : e'.number ∈ es.map (·.number) := List.mem_map.2 ⟨e', List.mem_of_getElem? hi, rfl⟩
    have := hb _ hmem
    rw [heq, hnum] at this
    cases cur <;> simp at this <;> omega
  refine ⟨?_, ?_, ?_, ?_, ?_, ?_, ?_⟩
  · intro i x hx
    rcases getElem?_snoc _ _ _ _ hx with h | ⟨rfl, rfl⟩
    · exact hinv.seq i x h
    · exact hseq
  · rw [List.map_append, List.map_singleton, numberWalk_append, hinv.walk]
    simp only [Option.bind_some, walkStep, hnum]
    cases cur
    · simp
    · have : ¬ (-((c : Int) + 1) = (b : Int)) := by omega
      simp [this]
  · intro i x hx
    rcases getElem?_snoc _ _ _ _ hx with h | ⟨rfl, rfl⟩
    · rw [AL.get_set_ne _ _ (fun heq => hnumfresh i x h heq.symm)]
      exact hinv.num_fwd i x h
    · exact AL.get_set_self _ _ _
  · intro n s hget
    rw [AL.get_set] at hget
    split at hget
    · rename_i heq
      have heq' : e.number = n := by simpa using heq
      simp only [Option.some.injEq] at hget
      subst hget
      exact ⟨e, by simp, heq'⟩
    · obtain ⟨x, hx, hxn⟩ := hinv.num_bwd n s hget
      refine ⟨x, ?_, hxn⟩
      rw [List.getElem?_append_left]
      · exact hx
      · exact (List.getElem?_eq_some_iff.1 hx).1
  · intro i x hx
    rcases getElem?_snoc _ _ _ _ hx with h | ⟨rfl, rfl⟩
    · rw [AL.get_set_ne _ _ (fun heq => hfresh i x h heq.symm)]
      exact hinv.id_fwd i x h
    · exact AL.get_set_self _ _ _
  · intro id s hget
    rw [AL.get_set] at hget
    split at hget
    · rename_i heq
      have heq' : e.id = id := by simpa using heq
      simp only [Option.some.injEq] at hget
      subst hget
      exact ⟨e, by simp, heq'⟩
    · obtain ⟨x, hx, hxn⟩ := hinv.id_bwd id s hget
      refine ⟨x, ?_, hxn⟩
      rw [List.getElem?_append_left]
      · exact hx
      · exact (List.getElem?_eq_some_iff.1 hx).1
  · intro i x hx
    rcases getElem?_snoc _ _ _ _ hx with h | ⟨rfl, rfl⟩
    · exact hinv.charm i x h
    · rw [hcharm, hnum]
      cases cur <;> simp <;> omega

/-- an old inscription landing in an OP_RETURN output: only its charms change -/
theorem inv5_burn {es : List InsEntry} {i2s : List (InscriptionId × Nat)} {n2s : List (Int × Nat)} {b c : Nat}
    (hinv : Inv5 es i2s n2s b c) (k : Nat) (entry : InsEntry) (hk : es[k]? = some entry) :
    Inv5 (es.set k { entry with charms := setCharm entry.charms charmBurned }) i2s n2s b c := by
  have hget : ∀ (i : Nat) (x : InsEntry), (es.set k { entry with charms := setCharm entry.charms charmBurned })[i]? = some x →
      ∃ y : InsEntry, es[i]? = some y ∧ x.seq = y.seq ∧ x.number = y.number ∧ x.id = y.id
        ∧ hasCharm x.charms charmCursed = hasCharm y.charms charmCursed := by
    intro i x hx
    rw [List.getElem?_set] at hx
    split at hx
    · rename_i hki
      subst hki
      split at hx
      · simp only [Option.some.injEq] at hx
        subst hx
        exact ⟨entry, hk, rfl, rfl, rfl, hasCharm_setBurned _ _ (Or.inl rfl)⟩
      · cases hx
    · exact ⟨x, hx, rfl, rfl, rfl, rfl⟩
  have hmap : (es.set k { entry with charms := setCharm entry.charms charmBurned }).map (·.number) = es.map (·.number) := by
    rw [List.map_set]
    apply List.ext_getElem?
    intro i
    rw [List.getElem?_set]
    split
    · rename_i hki
      subst hki
      split
      · rename_i hlt
        simp [hk]
      · rename_i hlt
        simp at hlt
        rw [List.getElem?_eq_none (by simpa using hlt)]
    · rfl
  refine ⟨?_, by rw [hmap]; exact hinv.walk, ?_, ?_, ?_, ?_, ?_⟩
  · intro i x hx
    obtain ⟨y, hy, h1, _, _, _⟩ := hget i x hx
    rw [h1]; exact hinv.seq i y hy
  · intro i x hx
    obtain ⟨y, hy, _, h2, _, _⟩ := hget i x hx
    rw [h2]; exact hinv.num_fwd i y hy
  · intro n s h
    obtain ⟨y, hy, hyn⟩ := hinv.num_bwd n s h
    by_cases hks : k = s
    · subst hks
      rw [hk] at hy
      simp only [Option.some.injEq] at hy
      subst hy
      refine ⟨{ entry with charms := setCharm entry.charms charmBurned }, ?_, hyn⟩
      rw [List.getElem?_set_self (List.getElem?_eq_some_iff.1 hk).1]
    · exact ⟨y, by rw [List.getElem?_set_ne hks]; exact hy, hyn⟩
  · intro i x hx
    obtain ⟨y, hy, _, _, h3, _⟩ := hget i x hx
    rw [h3]; exact hinv.id_fwd i y hy
  · intro id s h
    obtain ⟨y, hy, hyn⟩ := hinv.id_bwd id s h
    by_cases hks : k = s
    · subst hks
      rw [hk] at hy
      simp only [Option.some.injEq] at hy
      subst hy
      refine ⟨{ entry with charms := setCharm entry.charms charmBurned }, ?_, hyn⟩
      rw [List.getElem?_set_self (List.getElem?_eq_some_iff.1 hk).1]
    · exact ⟨y, by rw [List.getElem?_set_ne hks]; exact hy, hyn⟩
  · intro i x hx
    obtain ⟨y, hy, _, h2, _, h4⟩ := hget i x hx
    rw [h4, h2]; exact hinv.charm i y hy

end Ord.Index.Insnum
