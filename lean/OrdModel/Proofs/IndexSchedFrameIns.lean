import OrdModel.Proofs.IndexSchedDefs
import OrdModel.Proofs.IndexMiscReplayFrame
namespace Ord.Index.Sched
open Ord Ord.Index Outcome

/-! ### scanning only reads `entries` / `id2seq` -/

theorem curseOf_W (st : State) (x : Tri) (env : Envelope) (ins : List (Nat × InscriptionId × Nat))
    (off : Nat) : curseOf (W st x) env ins off = curseOf st env ins off := rfl

theorem scanOld_W (st : State) (x : Tri) (prev : OutPoint) (base : Nat) (l : List (Nat × Nat))
    (sc : ScanState) : scanOld (W st x) prev base l sc = scanOld st prev base l sc := by
  induction l generalizing sc with
  | nil => rfl
  | cons a rest ih =>
    obtain ⟨seq, off⟩ := a
    simp only [scanOld]
    have h : (W st x).entries = st.entries := rfl
    rw [h]
    split
    · rfl
    · exact ih _

theorem scanNew_W (st : State) (x : Tri) (jub : Bool) (txid : Txid) (ii off iv tot : Nat)
    (l : List Envelope) (sc : ScanState) :
    scanNew (W st x) jub txid ii off iv tot l sc = scanNew st jub txid ii off iv tot l sc := by
  induction l generalizing sc with
  | nil => rfl
  | cons env rest ih =>
    simp only [scanNew, curseOf_W]
    split
    · rfl
    · split
      · rfl
      · rfl
      · exact ih _

theorem scanInputs_W (cfg : Cfg) (st : State) (x : Tri) (jub : Bool) (txid : Txid) (height tot : Nat)
    (l : List (TxIn × UtxoEntry)) (i : Nat) (sc : ScanState) :
    scanInputs cfg (W st x) jub txid height tot l i sc = scanInputs cfg st jub txid height tot l i sc := by
  induction l generalizing i sc with
  | nil => rfl
  | cons a rest ih =>
    obtain ⟨txin, entry⟩ := a
    simp only [scanInputs, scanOld_W, scanNew_W, ih]

/-! ### `linkParents` -/

theorem linkParents_W (seq : Nat) (ps : List InscriptionId) (st : State) (x : Tri)
    (ids : List InscriptionId) (seqs : List Nat) :
    linkParents seq ps (W st x) ids seqs =
      omap (fun r => (W r.1 x, r.2.1, r.2.2)) (linkParents seq ps st ids seqs) := by
  induction ps generalizing st ids seqs with
  | nil => rfl
  | cons p rest ih =>
    simp only [linkParents]
    have h1 : (W st x).id2seq = st.id2seq := rfl
    have h2 : (W st x).entries = st.entries := rfl
    rw [h1, h2]
    cases AL.get st.id2seq p with
    | none => exact ih _ _ _
    | some pseq =>
      simp only
      cases st.entries[pseq]? with
      | none => rfl
      | some pentry =>
        simp only
        rw [← ih]
        congr 1
        cases pentry.hidden <;> rfl

/-! ### `updateInscriptionLocation` -/

/-- number / counter / `num2seq` writes of a new inscription -/
def nsA (cursed : Bool) (st : State) : State :=
  let number : Int := if cursed then -((st.cursed : Int) + 1) else (st.blessed : Int)
  let st0 := if cursed then { st with cursed := st.cursed + 1 } else { st with blessed := st.blessed + 1 }
  { st0 with num2seq := AL.set st0.num2seq number st0.entries.length }

def nsNumber (cursed : Bool) (st : State) : Int :=
  if cursed then -((st.cursed : Int) + 1) else (st.blessed : Int)

def nsSat (ir : Option (List (Nat × Nat))) (unbound : Bool) (offset : Nat) : Outcome (Option Nat) :=
  if unbound then .ok none
  else match ir with
    | none => .ok none
    | some rs => match calculateSat rs 0 offset with
      | .ok s => .ok (some s)
      | .panic s => .panic s
      | .err e => .err e

def nsCharms (cursed reinscription opReturn unbound vindicated : Bool) (newSatpoint : SatPoint)
    (sat : Option Nat) : Nat :=
  let c0 := if cursed then charmCursed else 0
  let c1 := if reinscription then setCharm c0 charmReinscription else c0
  let c2 := match sat with | some s => c1 + satCharms s | none => c1
  let c3 := if opReturn then setCharm c2 charmBurned else c2
  let c4 := if newSatpoint.outpoint.isNull then setCharm c3 charmLost else c3
  let c5 := if unbound then setCharm c4 charmUnbound else c4
  if vindicated then setCharm c5 charmVindicated else c5

def nsB (sat : Option Nat) (seq : Nat) (st1 : State) : State :=
  match sat with
  | some s => { st1 with sat2seq := insertUnique st1.sat2seq (s, seq) }
  | none => st1

def nsC (gallery hidden : Bool) (entry : InsEntry) (id : InscriptionId) (seq hc : Nat) (st3 : State) :
    State × Nat :=
  let st4 := if gallery && !hidden then { st3 with gallery := insertUnique st3.gallery seq } else st3
  let st5 := { st4 with entries := st4.entries ++ [entry], id2seq := AL.set st4.id2seq id seq }
  if hidden then (st5, hc)
  else
    let home := st5.home ++ [(seq, id)]
    if hc = 100 then ({ st5 with home := home.drop 1 }, hc)
    else ({ st5 with home := home }, hc + 1)

theorem uilStep_new (height time : Nat) (ir : Option (List (Nat × Nat))) (id : InscriptionId) (offset : Nat)
    (cursed : Bool) (fee : Nat) (gallery hidden : Bool) (parents : List InscriptionId)
    (reinscription unbound vindicated : Bool) (sp : SatPoint) (opr : Bool) (ls : LocState) :
    uilStep height time ir ⟨id, offset, .new cursed fee gallery hidden parents reinscription unbound vindicated⟩
        sp opr ls =
      if (if cursed then ls.st.cursed else ls.st.blessed) ≥ 2147483648 then
        .panic "inscription count try_into::<i32>().unwrap()"
      else
      match nsSat ir unbound offset with
      | .panic s => .panic s
      | .err e => .err e
      | .ok sat =>
        match linkParents (nsA cursed ls.st).entries.length parents
            (nsB sat (nsA cursed ls.st).entries.length (nsA cursed ls.st)) [] [] with
        | .panic s => .panic s
        | .err e => .err e
        | .ok (st3, parentIds, parentSeqs) =>
          match nsC gallery hidden
            ⟨nsCharms cursed reinscription opr unbound vindicated sp sat, fee, height, hidden, id,
              nsNumber cursed ls.st, parentSeqs, sat, (nsA cursed ls.st).entries.length, time⟩ id
            (nsA cursed ls.st).entries.length ls.ctx.homeCount st3 with
          | (st6, homeCount) =>
            .ok (unbound, (nsA cursed ls.st).entries.length, st6,
              { ls.ctx with
                events := ls.ctx.events ++ [Event.inscriptionCreated height
                  (nsCharms cursed reinscription opr unbound vindicated sp sat) id
                  (if unbound then none else some sp) parentIds (nsA cursed ls.st).entries.length],
                homeCount := homeCount }) := by
  rfl

theorem nsA_W (cursed : Bool) (st : State) (x : Tri) : nsA cursed (W st x) = W (nsA cursed st) x := by
  cases cursed <;> rfl

theorem nsB_W (sat : Option Nat) (seq : Nat) (st : State) (x : Tri) :
    nsB sat seq (W st x) = W (nsB sat seq st) x := by
  cases sat <;> rfl

theorem nsC_W (gallery hidden : Bool) (entry : InsEntry) (id : InscriptionId) (seq hc : Nat) (st : State)
    (x : Tri) :
    nsC gallery hidden entry id seq hc (W st x) =
      (W (nsC gallery hidden entry id seq hc st).1 x, (nsC gallery hidden entry id seq hc st).2) := by
  unfold nsC
  cases gallery <;> cases hidden <;> by_cases h : hc = 100 <;> simp [h] <;> rfl

theorem uilStep_tls (height time : Nat) (ir : Option (List (Nat × Nat))) (fl : Flotsam) (sp : SatPoint)
    (opr : Bool) (x : Tri) (gn gu : Option UtxoEntry → Option UtxoEntry) (ls : LocState) :
    uilStep height time ir fl sp opr (tls x gn gu ls) =
      omap (fun r => (r.1, r.2.1, W r.2.2.1 x, tctx gn gu r.2.2.2))
        (uilStep height time ir fl sp opr ls) := by
  obtain ⟨id, offset, origin⟩ := fl
  cases origin with
  | old seq oldSp =>
    simp only [uilStep]
    have h : (tls x gn gu ls).st.entries = ls.st.entries := rfl
    rw [h]
    cases ls.st.entries[seq]? with
    | none => cases opr <;> rfl
    | some e => cases opr <;> rfl
  | new cursed fee gallery hidden parents reinscription unbound vindicated =>
    rw [uilStep_new, uilStep_new]
    have h1 : (tls x gn gu ls).st = W ls.st x := rfl
    have h2 : (tls x gn gu ls).ctx = tctx gn gu ls.ctx := rfl
    rw [h1, h2, nsA_W]
    have h3 : (W ls.st x).cursed = ls.st.cursed := rfl
    have h4 : (W ls.st x).blessed = ls.st.blessed := rfl
    have h5 : (W (nsA cursed ls.st) x).entries = (nsA cursed ls.st).entries := rfl
    have h6 : nsNumber cursed (W ls.st x) = nsNumber cursed ls.st := rfl
    have h7 : (tctx gn gu ls.ctx).homeCount = ls.ctx.homeCount := rfl
    rw [h3, h4, h5, h6, h7]
    by_cases hlim : (if cursed then ls.st.cursed else ls.st.blessed) ≥ 2147483648
    · rw [if_pos hlim, if_pos hlim]; rfl
    · rw [if_neg hlim, if_neg hlim]
      cases nsSat ir unbound offset with
      | panic s => rfl
      | err e => rfl
      | ok sat =>
        simp only [nsB_W, linkParents_W]
        cases linkParents (nsA cursed ls.st).entries.length parents
            (nsB sat (nsA cursed ls.st).entries.length (nsA cursed ls.st)) [] [] with
        | panic s => rfl
        | err e => rfl
        | ok r =>
          obtain ⟨st3, pids, pseqs⟩ := r
          simp only [omap, nsC_W]
          rfl

theorem uilFinish_tls (sp : SatPoint) (tgt : Target) (outs : List UtxoEntry) (x : Tri)
    (gn gu : Option UtxoEntry → Option UtxoEntry) (hn : PushHom gn) (hu : PushHom gu)
    (b : Bool) (seq : Nat) (st : State) (ctx : InsCtx) :
    uilFinish sp tgt outs (b, seq, W st x, tctx gn gu ctx) =
      omap (tls x gn gu) (uilFinish sp tgt outs (b, seq, st, ctx)) := by
  cases b with
  | true =>
    have := hu ctx.unboundEntry seq st.unbound
    simp only [pushOpt] at this
    simp only [uilFinish, if_true, omap, tls, tctx, this]
    rfl
  | false =>
    cases tgt with
    | output vout =>
      simp only [uilFinish]
      cases outs[vout]? <;> rfl
    | null =>
      have := hn ctx.nullEntry seq sp.offset
      simp only [pushOpt] at this
      simp only [uilFinish]
      cases sp.outpoint.isSpecial with
      | false => rfl
      | true =>
        simp only [Bool.not_true, Bool.false_eq_true, if_false, omap, tls, tctx, this]

theorem updateInscriptionLocation_tls (cfg : Cfg) (height time : Nat) (ir : Option (List (Nat × Nat)))
    (fl : Flotsam) (sp : SatPoint) (opr : Bool) (tgt : Target) (x : Tri)
    (gn gu : Option UtxoEntry → Option UtxoEntry) (hn : PushHom gn) (hu : PushHom gu) (ls : LocState) :
    updateInscriptionLocation cfg height time ir fl sp opr tgt (tls x gn gu ls) =
      omap (tls x gn gu) (updateInscriptionLocation cfg height time ir fl sp opr tgt ls) := by
  rw [uil_eq, uil_eq, uilStep_tls]
  cases uilStep height time ir fl sp opr ls with
  | panic s => rfl
  | err e => rfl
  | ok r =>
    obtain ⟨b, seq, st, ctx⟩ := r
    exact uilFinish_tls sp tgt ls.outs x gn gu hn hu b seq st ctx

theorem applyLocations_tls (cfg : Cfg) (height time : Nat) (ir : Option (List (Nat × Nat)))
    (l : List (SatPoint × Flotsam × Bool)) (x : Tri)
    (gn gu : Option UtxoEntry → Option UtxoEntry) (hn : PushHom gn) (hu : PushHom gu) (ls : LocState) :
    applyLocations cfg height time ir l (tls x gn gu ls) =
      omap (tls x gn gu) (applyLocations cfg height time ir l ls) := by
  induction l generalizing ls with
  | nil => rfl
  | cons a rest ih =>
    obtain ⟨sp, fl, opr⟩ := a
    simp only [applyLocations, updateInscriptionLocation_tls _ _ _ _ _ _ _ _ _ _ _ hn hu]
    cases updateInscriptionLocation cfg height time ir fl sp opr (.output sp.outpoint.vout) ls with
    | panic s => rfl
    | err e => rfl
    | ok ls' => exact ih ls'

theorem applyLost_tls (cfg : Cfg) (height time : Nat) (ir : Option (List (Nat × Nat))) (ov : Nat)
    (l : List Flotsam) (x : Tri)
    (gn gu : Option UtxoEntry → Option UtxoEntry) (hn : PushHom gn) (hu : PushHom gu) (ls : LocState) :
    applyLost cfg height time ir ov l (tls x gn gu ls) =
      omap (tls x gn gu) (applyLost cfg height time ir ov l ls) := by
  induction l generalizing ls with
  | nil => rfl
  | cons fl rest ih =>
    have h : (tls x gn gu ls).ctx.lostSats = ls.ctx.lostSats := rfl
    simp only [applyLost, h, updateInscriptionLocation_tls _ _ _ _ _ _ _ _ _ _ _ hn hu]
    cases updateInscriptionLocation cfg height time ir fl
        ⟨OutPoint.null, ls.ctx.lostSats + fl.offset - ov⟩ false .null ls with
    | panic s => rfl
    | err e => rfl
    | ok ls' => exact ih ls'

/-! ### `indexInscriptions` -/

def iiCoinbase (tx : Tx) : Bool := match tx.inputs with | i :: _ => i.prev.isNull | [] => false

/-- the sorted flotsam list (fee split, parent dedup, carried flotsam on the coinbase) -/
def iiSorted (tx : Tx) (sc : ScanState) (carry : List Flotsam) : List Flotsam :=
  let totalOut := tx.outputs.foldl (fun a o => a + o.value) 0
  let potential := sc.floating.map (·.id)
  let dedup (ps : List InscriptionId) : List InscriptionId :=
    (ps.foldl (fun (acc : List InscriptionId × List InscriptionId) p =>
      if acc.2.contains p then acc
      else (if potential.contains p then acc.1 ++ [p] else acc.1, acc.2 ++ [p])) ([], [])).1
  let fee := if sc.idCounter = 0 then 0 else (sc.totalInputValue - totalOut) / sc.idCounter
  let floating := sc.floating.map (fun f => match f.origin with
    | .new c _ g h ps r u v => { f with origin := .new c fee g h (dedup ps) r u v }
    | .old .. => f)
  let floating := if iiCoinbase tx then floating ++ carry else floating
  sortByKey (·.offset) floating

def iiStart (cfg : Cfg) (tx : Tx) (ls : LocState) : LocState :=
  let st1 := if cfg.indexTransactions && !tx.envelopes.isEmpty then
      { ls.st with txid2tx := AL.set ls.st.txid2tx tx.txid tx.size } else ls.st
  let ctx1 := if iiCoinbase tx then { ls.ctx with flotsam := [] } else ls.ctx
  { st := st1, ctx := ctx1, outs := ls.outs }

def iiFinish (cfg : Cfg) (height time : Nat) (ir : Option (List (Nat × Nat))) (isCoinbase : Bool)
    (totalIn outputValue : Nat) (rest : List Flotsam) (ls2 : LocState) : Outcome LocState :=
  if isCoinbase then
    match applyLost cfg height time ir outputValue rest ls2 with
    | .panic s => .panic s
    | .err e => .err e
    | .ok ls3 =>
      if ls3.ctx.reward < outputValue then .panic "self.reward - output_value"
      else .ok { ls3 with ctx := { ls3.ctx with lostSats := ls3.ctx.lostSats + (ls3.ctx.reward - outputValue) } }
  else
    if totalIn < outputValue then .panic "total_input_value - output_value"
    else
    let carried := rest.map (fun f => { f with offset := ls2.ctx.reward + f.offset - outputValue })
    .ok { ls2 with ctx := { ls2.ctx with flotsam := ls2.ctx.flotsam ++ carried,
                                         reward := ls2.ctx.reward + (totalIn - outputValue) } }

theorem indexInscriptions_eq (cfg : Cfg) (height time : Nat) (tx : Tx) (inputs : List (TxIn × UtxoEntry))
    (ir : Option (List (Nat × Nat))) (ls : LocState) :
    indexInscriptions cfg height time tx inputs ir ls =
      match scanInputs cfg ls.st (decide (height ≥ cfg.jubileeHeight)) tx.txid height
          (tx.outputs.foldl (fun a o => a + o.value) 0) inputs 0 { envelopes := tx.envelopes } with
      | .panic s => .panic s
      | .err e => .err e
      | .ok sc =>
        if sc.floating.any isNew ∧ sc.totalInputValue < tx.outputs.foldl (fun a o => a + o.value) 0 then
          .panic "total_input_value - total_output_value"
        else if sc.floating.any isNew ∧ sc.idCounter = 0 then .panic "division by zero"
        else
          match assignOutputs tx.txid tx.outputs 0 0 (iiSorted tx sc ls.ctx.flotsam) [] with
          | (locs, rest, outputValue) =>
            match applyLocations cfg height time ir locs (iiStart cfg tx ls) with
            | .panic s => .panic s
            | .err e => .err e
            | .ok ls2 =>
              iiFinish cfg height time ir (iiCoinbase tx) sc.totalInputValue outputValue rest ls2 := by
  rfl

theorem iiStart_tls (cfg : Cfg) (tx : Tx) (x : Tri) (gn gu : Option UtxoEntry → Option UtxoEntry)
    (ls : LocState) : iiStart cfg tx (tls x gn gu ls) = tls x gn gu (iiStart cfg tx ls) := by
  unfold iiStart
  cases (cfg.indexTransactions && !tx.envelopes.isEmpty) <;> cases iiCoinbase tx <;> rfl

theorem iiFinish_tls (cfg : Cfg) (height time : Nat) (ir : Option (List (Nat × Nat))) (isCoinbase : Bool)
    (totalIn outputValue : Nat) (rest : List Flotsam) (x : Tri)
    (gn gu : Option UtxoEntry → Option UtxoEntry) (hn : PushHom gn) (hu : PushHom gu) (ls2 : LocState) :
    iiFinish cfg height time ir isCoinbase totalIn outputValue rest (tls x gn gu ls2) =
      omap (tls x gn gu) (iiFinish cfg height time ir isCoinbase totalIn outputValue rest ls2) := by
  cases isCoinbase with
  | true =>
    simp only [iiFinish, if_true, applyLost_tls _ _ _ _ _ _ _ _ _ hn hu]
    cases applyLost cfg height time ir outputValue rest ls2 with
    | panic s => rfl
    | err e => rfl
    | ok ls3 =>
      have h : (tls x gn gu ls3).ctx.reward = ls3.ctx.reward := rfl
      simp only [omap, h]
      split <;> rfl
  | false =>
    simp only [iiFinish, Bool.false_eq_true, if_false]
    split <;> rfl

/-- the inscription pass neither reads nor writes `utxo`/`seq2sp`/`script2out`, and touches the
special-outpoint entries of the context only through `pushOpt` -/
theorem indexInscriptions_tls (cfg : Cfg) (height time : Nat) (tx : Tx) (inputs : List (TxIn × UtxoEntry))
    (ir : Option (List (Nat × Nat))) (x : Tri) (gn gu : Option UtxoEntry → Option UtxoEntry)
    (hn : PushHom gn) (hu : PushHom gu) (ls : LocState) :
    indexInscriptions cfg height time tx inputs ir (tls x gn gu ls) =
      omap (tls x gn gu) (indexInscriptions cfg height time tx inputs ir ls) := by
  rw [indexInscriptions_eq, indexInscriptions_eq]
  have h1 : (tls x gn gu ls).st = W ls.st x := rfl
  have h2 : (tls x gn gu ls).ctx.flotsam = ls.ctx.flotsam := rfl
  rw [h1, h2, scanInputs_W, iiStart_tls]
  cases scanInputs cfg ls.st (decide (height ≥ cfg.jubileeHeight)) tx.txid height
      (tx.outputs.foldl (fun a o => a + o.value) 0) inputs 0 { envelopes := tx.envelopes } with
  | panic s => rfl
  | err e => rfl
  | ok sc =>
    simp only
    split
    · rfl
    · split
      · rfl
      · obtain ⟨locs, rest, ov⟩ := assignOutputs tx.txid tx.outputs 0 0 (iiSorted tx sc ls.ctx.flotsam) []
        simp only [applyLocations_tls _ _ _ _ _ _ _ _ hn hu]
        cases applyLocations cfg height time ir locs (iiStart cfg tx ls) with
        | panic s => rfl
        | err e => rfl
        | ok ls2 => exact iiFinish_tls cfg height time ir _ _ _ _ x gn gu hn hu ls2

end Ord.Index.Sched
