import OrdModel.Proofs.IndexLiftSatRare
import OrdModel.Proofs.IndexLiftSatC03
/-
Sat-side lift, part 13 (C02, rare sats): every range of every entry that starts with a non-common
sat has its SAT_TO_SATPOINT row (`RowsOK`), through one transaction of the real `indexTx`.

A transaction writes the rows of its outputs (`setRare`, rows = `rareRows outputs`); the sats it
writes rows for are sats of its inputs, which — the pool being duplicate-free — occur in no other
entry, so every other entry's rows are untouched.
-/
namespace Ord.Index
open Outcome Ord.Index.Sched

/-- every non-common range start of every listed entry has its row -/
def RowsOK (m : List (Nat × SatPoint)) (l : List (OutPoint × UtxoEntry)) : Prop :=
  ∀ op e, (op, e) ∈ l → ∀ s off, (s, off) ∈ rareOf e.ranges 0 → AL.get m s = some ⟨op, off⟩

theorem al_mem_erase {κ ν : Type} [BEq κ] (l : List (κ × ν)) (k : κ) (p : κ × ν) (h : p ∈ AL.erase l k) : p ∈ l := by
  induction l with
  | nil => simp [AL.erase] at h
  | cons q rest ih =>
    obtain ⟨k0, v0⟩ := q
    simp only [AL.erase] at h
    split at h
    · exact List.mem_cons_of_mem _ h
    · rcases List.mem_cons.1 h with h | h
      · exact h ▸ List.mem_cons_self
      · exact List.mem_cons_of_mem _ (ih h)

theorem al_mem_set {κ ν : Type} [BEq κ] (l : List (κ × ν)) (k : κ) (v : ν) (p : κ × ν) (h : p ∈ AL.set l k v) :
    p = (k, v) ∨ p ∈ l := by
  induction l with
  | nil => simp [AL.set] at h; exact Or.inl h
  | cons q rest ih =>
    obtain ⟨k0, v0⟩ := q
    simp only [AL.set] at h
    split at h
    · rcases List.mem_cons.1 h with h | h
      · exact Or.inl h
      · exact Or.inr (List.mem_cons_of_mem _ h)
    · rcases List.mem_cons.1 h with h | h
      · exact Or.inr (h ▸ List.mem_cons_self)
      · rcases ih h with h | h
        · exact Or.inl h
        · exact Or.inr (List.mem_cons_of_mem _ h)

/-! ### ranges, their starts and their sats -/

theorem mem_den_iff {rs : Ranges} {s : Nat} : s ∈ den rs ↔ ∃ r ∈ rs, r.1 ≤ s ∧ s < r.2 := by
  induction rs with
  | nil => simp
  | cons r rs ih =>
    obtain ⟨a, b⟩ := r
    simp only [den_cons, List.mem_append, List.mem_range'_1, ih, List.mem_cons]
    constructor
    · rintro (h | ⟨r, hr, h⟩)
      · exact ⟨(a, b), Or.inl rfl, by simp; omega, by simp; omega⟩
      · exact ⟨r, Or.inr hr, h⟩
    · rintro ⟨r, hr | hr, h1, h2⟩
      · subst hr; left; simp at h1 h2; omega
      · exact Or.inr ⟨r, hr, h1, h2⟩

theorem rangeStarts_map_fst (rs : Ranges) (off : Nat) : (rangeStarts rs off).map (·.1) = rs.map (·.1) := by
  induction rs generalizing off with
  | nil => rfl
  | cons r rs ih => obtain ⟨a, b⟩ := r; simp [rangeStarts, ih]

theorem starts_sublist_den (rs : Ranges) (hw : WF rs) : (rs.map (·.1)).Sublist (den rs) := by
  induction rs with
  | nil => simp
  | cons r rs ih =>
    obtain ⟨a, b⟩ := r
    obtain ⟨hab, hw'⟩ := WF_cons.1 hw
    simp only [List.map_cons, den_cons]
    have : List.range' a (b - a) = a :: List.range' (a + 1) (b - a - 1) := by
      have : b - a = (b - a - 1) + 1 := by omega
      rw [this, List.range'_succ]; simp
    rw [this, List.cons_append]
    exact List.Sublist.cons₂ _ ((ih hw').trans (List.sublist_append_right _ _))

theorem rareOf_sats_sublist (rs : Ranges) (off : Nat) : ((rareOf rs off).map (·.1)).Sublist (rs.map (·.1)) := by
  rw [← rangeStarts_map_fst rs off]
  exact (List.filter_sublist (l := rangeStarts rs off)).map _

theorem rareRows_sats_sublist (outs : List Ranges) (n : Nat) :
    ((rareRows outs n).map (·.1)).Sublist (outs.flatten.map (·.1)) := by
  induction outs generalizing n with
  | nil => simp [rareRows]
  | cons o outs ih =>
    simp only [rareRows, List.map_append, List.map_map, List.flatten_cons]
    refine List.Sublist.append ?_ (ih (n + 1))
    have : ((fun x : Nat × Nat × Nat => x.1) ∘ fun x : Nat × Nat => (x.1, n, x.2)) = (fun x : Nat × Nat => x.1) := rfl
    rw [this]
    exact rareOf_sats_sublist o 0

theorem mem_rareRows (outs : List Ranges) (n j : Nat) (rs : Ranges) (s off : Nat)
    (hj : outs[j]? = some rs) (h : (s, off) ∈ rareOf rs 0) : (s, n + j, off) ∈ rareRows outs n := by
  induction outs generalizing n j with
  | nil => simp at hj
  | cons o outs ih =>
    simp only [rareRows, List.mem_append, List.mem_map]
    cases j with
    | zero =>
      simp only [List.getElem?_cons_zero, Option.some.injEq] at hj
      subst hj
      exact Or.inl ⟨(s, off), h, rfl⟩
    | succ j =>
      simp only [List.getElem?_cons_succ] at hj
      right
      have := ih (n + 1) j hj
      rwa [show n + 1 + j = n + (j + 1) by omega] at this

/-- a rare start of an entry is one of its sats -/
theorem rare_mem_den (rs : Ranges) (hw : WF rs) (off s o : Nat) (h : (s, o) ∈ rareOf rs off) : s ∈ den rs := by
  have h1 : s ∈ (rareOf rs off).map (·.1) := List.mem_map.2 ⟨(s, o), h, rfl⟩
  exact (starts_sublist_den rs hw).subset ((rareOf_sats_sublist rs off).subset h1)

theorem rareOf_append (a b : Ranges) (off : Nat) : rareOf (a ++ b) off = rareOf a off ++ rareOf b (off + lenR a) := by
  induction a generalizing off with
  | nil => simp [rareOf_nil, lenR]
  | cons r a ih =>
    obtain ⟨s, e⟩ := r
    rw [List.cons_append, rareOf_cons, rareOf_cons, ih, List.append_assoc]
    simp only [lenR]
    congr 3; omega

/-! ### the row writers -/

theorem get_setRare_notin (txid : Txid) (rows : List (Nat × Nat × Nat)) (m : List (Nat × SatPoint)) (s : Nat)
    (h : s ∉ rows.map (·.1)) : AL.get (setRare txid m rows) s = AL.get m s := by
  induction rows generalizing m with
  | nil => rfl
  | cons r rows ih =>
    obtain ⟨s0, v, off⟩ := r
    simp only [List.map_cons, List.mem_cons, not_or] at h
    simp only [setRare]
    rw [ih _ h.2, AL.get_set_ne _ _ (fun heq => h.1 heq.symm)]

theorem get_setRare_mem (txid : Txid) (rows : List (Nat × Nat × Nat)) (m : List (Nat × SatPoint))
    (hn : (rows.map (·.1)).Nodup) (s v off : Nat) (h : (s, v, off) ∈ rows) :
    AL.get (setRare txid m rows) s = some ⟨⟨txid, v⟩, off⟩ := by
  induction rows generalizing m with
  | nil => cases h
  | cons r rows ih =>
    obtain ⟨s0, v0, off0⟩ := r
    simp only [List.map_cons, List.nodup_cons] at hn
    simp only [setRare]
    rcases List.mem_cons.1 h with h | h
    · simp only [Prod.mk.injEq] at h
      obtain ⟨rfl, rfl, rfl⟩ := h
      rw [get_setRare_notin _ _ _ _ hn.1, AL.get_set_self]
    · exact ih _ hn.2 h

theorem lostRare_fst_notin (rs : Ranges) (m : List (Nat × SatPoint)) (l0 s : Nat)
    (h : s ∉ rs.map (·.1)) : AL.get (lostRare m rs l0).1 s = AL.get m s := by
  induction rs generalizing m l0 with
  | nil => rfl
  | cons r rs ih =>
    obtain ⟨a, b⟩ := r
    simp only [List.map_cons, List.mem_cons, not_or] at h
    simp only [lostRare]
    rw [ih _ _ h.2]
    split
    · exact AL.get_set_ne _ _ (fun heq => h.1 heq.symm)
    · rfl

theorem lostRare_fst_mem (rs : Ranges) (m : List (Nat × SatPoint)) (l0 : Nat)
    (hn : (rs.map (·.1)).Nodup) (s off : Nat) (h : (s, off) ∈ rareOf rs l0) :
    AL.get (lostRare m rs l0).1 s = some ⟨OutPoint.null, off⟩ := by
  induction rs generalizing m l0 with
  | nil => simp [rareOf_nil] at h
  | cons r rs ih =>
    obtain ⟨a, b⟩ := r
    simp only [List.map_cons, List.nodup_cons] at hn
    rw [rareOf_cons] at h
    simp only [lostRare]
    rcases List.mem_append.1 h with h | h
    · split at h
      · rename_i hr
        simp only [List.mem_singleton, Prod.mk.injEq] at h
        obtain ⟨rfl, rfl⟩ := h
        rw [lostRare_fst_notin _ _ _ _ hn.1]
        simp [hr, AL.get_set_self]
      · cases h
    · exact ih _ _ hn.2 h

/-! ### one transaction -/

theorem mem_fold_set (txid : Txid) (outs : List UtxoEntry) (n : Nat) (c : Cache) (p : OutPoint × UtxoEntry)
    (h : p ∈ (enumFrom n outs).foldl (fun c (q : Nat × UtxoEntry) => AL.set c ⟨txid, q.1⟩ q.2) c) :
    p ∈ c ∨ ∃ j e, outs[j]? = some e ∧ p = (⟨txid, n + j⟩, e) := by
  induction outs generalizing n c with
  | nil => exact Or.inl h
  | cons o outs ih =>
    simp only [enumFrom, List.foldl_cons] at h
    rcases ih _ _ h with h1 | ⟨j, e, hj, hp⟩
    · rcases al_mem_set _ _ _ _ h1 with h2 | h2
      · exact Or.inr ⟨0, o, by simp, by simpa using h2⟩
      · exact Or.inl h2
    · exact Or.inr ⟨j + 1, e, by simpa using hj, by rw [hp]; congr 2; omega⟩

theorem takeInputEntries_mem (cfg : Cfg) (ins : List TxIn) (bc : BlockCtx) (acc : List (TxIn × UtxoEntry))
    (bc' : BlockCtx) (acc' : List (TxIn × UtxoEntry))
    (h : takeInputEntries cfg ins bc acc = .ok (bc', acc')) :
    (∀ p, p ∈ bc'.st.utxo → p ∈ bc.st.utxo) ∧ (∀ p, p ∈ bc'.cache → p ∈ bc.cache) := by
  induction ins generalizing bc acc with
  | nil =>
    simp only [takeInputEntries, Outcome.ok.injEq, Prod.mk.injEq] at h
    rw [← h.1]; exact ⟨fun _ h => h, fun _ h => h⟩
  | cons i rest ih =>
    rw [takeInputEntries_cons] at h
    split at h
    · rename_i bc1 e h1
      obtain ⟨i1, i2⟩ := ih bc1 _ h
      rcases takeOne_cases cfg bc i bc1 e h1 with ⟨-, hc, ht⟩ | ⟨-, -, hc, ht⟩
      · exact ⟨fun p hp => by have := i1 p hp; rwa [ht] at this,
          fun p hp => by have := i2 p hp; rw [hc] at this; exact al_mem_erase _ _ _ this⟩
      · exact ⟨fun p hp => by have := i1 p hp; rw [ht] at this; exact al_mem_erase _ _ _ this,
          fun p hp => by have := i2 p hp; rwa [hc] at this⟩
    · cases h
    · cases h

theorem mem_allRanges_den {l : List (OutPoint × UtxoEntry)} {op : OutPoint} {e : UtxoEntry} (h : (op, e) ∈ l)
    {s : Nat} (hs : s ∈ den e.ranges) : s ∈ den (allRanges l) := by
  rw [mem_den_iff] at hs ⊢
  obtain ⟨r, hr, h1, h2⟩ := hs
  exact ⟨r, by simp only [allRanges, List.mem_flatMap]; exact ⟨(op, e), h, hr⟩, h1, h2⟩

theorem wf_of_mem_allRanges {l : List (OutPoint × UtxoEntry)} {op : OutPoint} {e : UtxoEntry} (h : (op, e) ∈ l)
    (hw : WF (allRanges l)) : WF e.ranges :=
  fun r hr => hw r (by simp only [allRanges, List.mem_flatMap]; exact ⟨(op, e), h, hr⟩)

/-- the rows `index_transaction_sats` reports are those of its outputs -/
theorem tx_rare_rows (values : List Nat) (inputs : Ranges) (t : TxSats)
    (h : indexTransactionSats values inputs = some t) : t.rare = rareRows t.outputs 0 := by
  rw [indexTransactionSats_spec] at h
  split at h
  · cases h; rfl
  · cases h

/-- **one transaction keeps the rows right** -/
theorem indexTx_rows (cfg : Cfg) (hs : cfg.indexSats = true) (blk : Block) (insOn : Bool) (off : Nat)
    (tx : Tx) (bc bc' : BlockCtx) (B : Nat) (g : GoodR B (poolR bc))
    (hrows : RowsOK bc.st.sat2sp (bc.st.utxo ++ bc.cache))
    (h : indexTx cfg blk insOn off tx bc = .ok bc') : RowsOK bc'.st.sat2sp (bc'.st.utxo ++ bc'.cache) := by
  have eff := indexTx_satEff cfg hs blk insOn off tx bc bc' h
  obtain ⟨bc1, inputs, outs, r, htake, hr, houts, hcache, hutxo, hsat, -, -⟩ := eff.ex
  rw [tx_rare_rows _ _ r hr] at hsat
  -- the input ranges, well-formed, duplicate-free and disjoint from what stays in table and cache
  obtain ⟨hw, hnd, -⟩ := g
  have hpre : (∀ p, p ∈ bc1.st.utxo → p ∈ bc.st.utxo) ∧ (∀ p, p ∈ bc1.cache → p ∈ bc.cache) ∧
      ∃ inR, indexTransactionSats (tx.outputs.map (·.value)) inR = some r ∧ WF inR ∧ (den inR).Nodup ∧
        WF (allRanges bc1.st.utxo ++ allRanges bc1.cache) ∧
        ∀ s, s ∈ den (allRanges bc1.st.utxo ++ allRanges bc1.cache) → s ∉ den inR := by
    by_cases hoff : off = 0
    · subst hoff
      simp only [if_true] at htake hr
      obtain ⟨rfl, -⟩ := htake
      refine ⟨fun _ h => h, fun _ h => h, bc1.coinbaseInputs, hr, ?_, ?_, ?_, ?_⟩
      · simp only [poolR] at hw; exact (WF_append.1 (WF_append.1 hw).1).2
      · simp only [poolR, den_append] at hnd
        exact (List.nodup_append.1 (List.nodup_append.1 hnd).1).2.1
      · simp only [poolR] at hw; exact (WF_append.1 (WF_append.1 hw).1).1
      · intro s hs hcon
        simp only [poolR, den_append] at hnd hs
        exact (List.nodup_append.1 (List.nodup_append.1 hnd).1).2.2 s (by simpa [den_append] using hs) s hcon rfl
    · simp only [hoff, if_false] at htake hr
      obtain ⟨hperm, -, -, -, -⟩ := takeInputEntries_pool cfg tx.inputs bc [] bc1 inputs htake
      simp only [entryRanges, List.flatMap_nil, List.append_nil] at hperm
      obtain ⟨m1, m2⟩ := takeInputEntries_mem cfg tx.inputs bc [] bc1 inputs htake
      have hw2 : WF (allRanges bc.st.utxo ++ allRanges bc.cache) := by
        simp only [poolR] at hw; exact (WF_append.1 (WF_append.1 hw).1).1
      have hnd2 : (den (allRanges bc.st.utxo ++ allRanges bc.cache)).Nodup := by
        simp only [poolR, den_append] at hnd ⊢
        exact (List.nodup_append.1 (List.nodup_append.1 hnd).1).1
      have hw3 := WF_perm hperm.symm hw2
      have hnd3 := (den_perm hperm).nodup_iff.2 hnd2
      rw [den_append] at hnd3
      refine ⟨m1, m2, entryRanges inputs, hr, (WF_append.1 hw3).2, (List.nodup_append.1 hnd3).2.1,
        (WF_append.1 hw3).1, ?_⟩
      intro s hs hcon
      exact (List.nodup_append.1 hnd3).2.2 s hs s hcon rfl
  obtain ⟨m1, m2, inR, hrr, hwi, hndi, hwrest, hdisj⟩ := hpre
  obtain ⟨-, hden, hwf⟩ := indexTransactionSats_facts _ _ r hrr
  have hwo : WF (r.outputs.flatten) := (WF_append.1 (hwf hwi)).1
  -- the sats rows are written for
  have hWsub : ∀ s, s ∈ (rareRows r.outputs 0).map (·.1) → s ∈ den inR := by
    intro s hs'
    have h1 := (starts_sublist_den _ hwo).subset ((rareRows_sats_sublist r.outputs 0).subset hs')
    rw [← hden, den_append]
    exact List.mem_append_left _ h1
  have hWnd : ((rareRows r.outputs 0).map (·.1)).Nodup := by
    have h1 : ((rareRows r.outputs 0).map (·.1)).Sublist (den (r.outputs.flatten)) :=
      (rareRows_sats_sublist r.outputs 0).trans (starts_sublist_den _ hwo)
    refine h1.nodup ?_
    have : (den (r.outputs.flatten ++ r.leftover)).Nodup := by rw [hden]; exact hndi
    rw [den_append] at this
    exact (List.nodup_append.1 this).1
  -- entries that stay
  have hold : ∀ op e, (op, e) ∈ bc1.st.utxo ++ bc1.cache → ∀ s o, (s, o) ∈ rareOf e.ranges 0 →
      AL.get bc'.st.sat2sp s = some ⟨op, o⟩ := by
    intro op e hm s o hso
    have hmem : (op, e) ∈ bc.st.utxo ++ bc.cache := by
      rcases List.mem_append.1 hm with h | h
      · exact List.mem_append_left _ (m1 _ h)
      · exact List.mem_append_right _ (m2 _ h)
    have hwe : WF e.ranges := by
      have : WF (allRanges (bc1.st.utxo ++ bc1.cache)) := by rw [allRanges_append]; exact hwrest
      exact wf_of_mem_allRanges hm this
    have hsd : s ∈ den (allRanges bc1.st.utxo ++ allRanges bc1.cache) := by
      rw [← allRanges_append]
      exact mem_allRanges_den hm (rare_mem_den _ hwe _ _ _ hso)
    rw [hsat, get_setRare_notin _ _ _ _ (fun hc => hdisj s hsd (hWsub s hc))]
    exact hrows op e hmem s o hso
  intro op e hm s o hso
  rw [hutxo, hcache] at hm
  rcases List.mem_append.1 hm with hm | hm
  · exact hold op e (List.mem_append_left _ hm) s o hso
  · rcases mem_fold_set tx.txid outs 0 bc1.cache (op, e) hm with h1 | ⟨j, e', hj, hp⟩
    · exact hold op e (List.mem_append_right _ h1) s o hso
    · simp only [Prod.mk.injEq] at hp
      obtain ⟨rfl, rfl⟩ := hp
      have hrj : r.outputs[j]? = some e.ranges := by
        rw [← houts, List.getElem?_map, hj]; rfl
      have := mem_rareRows r.outputs 0 j e.ranges s o hrj hso
      rw [hsat]
      have h2 := get_setRare_mem tx.txid _ bc.st.sat2sp hWnd s (0 + j) o this
      simpa using h2

end Ord.Index
