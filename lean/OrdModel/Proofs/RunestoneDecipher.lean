import OrdModel.Proofs.RunestoneScript
import OrdModel.Proofs.Varint
/-! Helper lemmas for C25: the message layer (`Message::from_integers`, `Tag::take`, flaws). -/
namespace Ord.Runestone
open Ord Ord.Script

/-! ### totality -/

theorem Edict.fromIntegers_ok (n : Nat) (hn : n < 2 ^ 32) (id : RuneId) (a o : Nat) :
    Edict.fromIntegers n id a o
      = .ok (if o < 2 ^ 32 ∧ o ≤ n then some ⟨id, a, o⟩ else none) := by
  unfold Edict.fromIntegers
  by_cases h1 : o < 2 ^ 32
  · by_cases h2 : o > n
    · have : ¬ o ≤ n := by omega
      simp [h1, hn, h2, this]
    · have : o ≤ n := by omega
      simp [h1, hn, h2, this]
  · simp [h1]

/-- with fewer than 2^32 outputs the body loop returns; its flaw is `edictsFlaw` -/
theorem parseEdicts_ok_aux (n : Nat) (hn : n < 2 ^ 32) : ∀ (k : Nat) (ints : List Nat),
    ints.length ≤ k → ∀ id : RuneId, ∃ es, parseEdicts n id ints = .ok (edictsFlaw n id ints, es) := by
  intro k
  induction k with
  | zero =>
    intro ints h id
    have : ints = [] := List.eq_nil_of_length_eq_zero (by omega)
    subst this; exact ⟨[], by simp [parseEdicts, edictsFlaw]⟩
  | succ k ih =>
    intro ints h id
    match ints, h with
    | [], _ => exact ⟨[], by simp [parseEdicts, edictsFlaw]⟩
    | [_], _ => exact ⟨[], by simp [parseEdicts, edictsFlaw]⟩
    | [_, _], _ => exact ⟨[], by simp [parseEdicts, edictsFlaw]⟩
    | [_, _, _], _ => exact ⟨[], by simp [parseEdicts, edictsFlaw]⟩
    | a :: b :: c :: d :: rest, h =>
      simp only [parseEdicts, edictsFlaw]
      cases hnx : id.next a b with
      | none => exact ⟨[], by simp⟩
      | some nx =>
        simp only [Edict.fromIntegers_ok n hn]
        by_cases hd : d < 2 ^ 32 ∧ d ≤ n
        · obtain ⟨es, he⟩ := ih rest (by simp at h; omega) nx
          simp only [hd, and_self, if_true, he]
          exact ⟨_, rfl⟩
        · simp only [hd, if_false]
          exact ⟨[], rfl⟩

theorem parseEdicts_ok (n : Nat) (hn : n < 2 ^ 32) (ints : List Nat) (id : RuneId) :
    ∃ es, parseEdicts n id ints = .ok (edictsFlaw n id ints, es) :=
  parseEdicts_ok_aux n hn ints.length ints (Nat.le_refl _) id

/-- with fewer than 2^32 outputs `Message::from_integers` returns; its flaw is `structureFlaw`, its
fields are `fieldPairs` -/
theorem fromIntegers_ok_aux (n : Nat) (hn : n < 2 ^ 32) : ∀ (k : Nat) (ints : List Nat),
    ints.length ≤ k →
    ∃ es, Message.fromIntegers n ints = .ok ⟨structureFlaw n ints, es, fieldPairs ints⟩ := by
  intro k
  induction k with
  | zero =>
    intro ints h
    have : ints = [] := List.eq_nil_of_length_eq_zero (by omega)
    subst this; exact ⟨[], by simp [Message.fromIntegers, structureFlaw, fieldPairs]⟩
  | succ k ih =>
    intro ints h
    match ints, h with
    | [], _ => exact ⟨[], by simp [Message.fromIntegers, structureFlaw, fieldPairs]⟩
    | [t], _ =>
      by_cases ht : t = 0
      · subst ht
        exact ⟨[], by simp [Message.fromIntegers, structureFlaw, fieldPairs, parseEdicts]⟩
      · exact ⟨[], by simp [Message.fromIntegers, structureFlaw, fieldPairs, ht]⟩
    | t :: v :: rest, h =>
      by_cases ht : t = 0
      · subst ht
        obtain ⟨es, he⟩ := parseEdicts_ok n hn (v :: rest) ⟨0, 0⟩
        exact ⟨es, by simp [Message.fromIntegers, structureFlaw, fieldPairs, he]⟩
      · obtain ⟨es, he⟩ := ih rest (by simp at h; omega)
        exact ⟨es, by simp [Message.fromIntegers, structureFlaw, fieldPairs, ht, he]⟩

theorem fromIntegers_ok (n : Nat) (hn : n < 2 ^ 32) (ints : List Nat) :
    ∃ es, Message.fromIntegers n ints = .ok ⟨structureFlaw n ints, es, fieldPairs ints⟩ :=
  fromIntegers_ok_aux n hn ints.length ints (Nat.le_refl _)

theorem decipherInts_ok (n : Nat) (hn : n < 2 ^ 32) (ints : List Nat) :
    ∃ es, decipherInts n ints = .ok (decipherMsg n ⟨structureFlaw n ints, es, fieldPairs ints⟩) := by
  obtain ⟨es, he⟩ := fromIntegers_ok n hn ints
  exact ⟨es, by simp [decipherInts, he]⟩

/-! ### `Tag::take` in terms of the per-tag value lists -/

theorem first_eq_head (t : Nat) (fs : Fields) : first t fs = (vals t fs).head? := by
  induction fs with
  | nil => rfl
  | cons p fs ih =>
    obtain ⟨k, v⟩ := p
    by_cases h : k = t <;> simp [first, vals, h, ih]

theorem vals_erase1_ne {t' t : Nat} (h : t' ≠ t) (fs : Fields) :
    vals t' (erase1 t fs) = vals t' fs := by
  induction fs with
  | nil => rfl
  | cons p fs ih =>
    obtain ⟨k, v⟩ := p
    by_cases hk : k = t
    · subst hk
      simp [erase1, vals, Ne.symm h]
    · by_cases hk' : k = t'
      · subst hk'
        simp [erase1, vals, hk, ih]
      · simp [erase1, vals, hk, hk', ih]

theorem vals_erase1_same (t : Nat) (fs : Fields) : vals t (erase1 t fs) = (vals t fs).tail := by
  induction fs with
  | nil => rfl
  | cons p fs ih =>
    obtain ⟨k, v⟩ := p
    by_cases hk : k = t <;> simp [erase1, vals, hk, ih]

theorem take1_fst {α : Type} (t : Nat) (w : Nat → Option α) (fs : Fields) :
    (take1 t w fs).1 = (vals t fs).head?.bind w := by
  unfold take1
  rw [first_eq_head]
  cases (vals t fs).head? with
  | none => rfl
  | some v => cases h : w v <;> simp [h]

theorem vals_take1_ne {α : Type} {t' t : Nat} (h : t' ≠ t) (w : Nat → Option α) (fs : Fields) :
    vals t' (take1 t w fs).2 = vals t' fs := by
  unfold take1
  cases first t fs with
  | none => rfl
  | some v => cases hw : w v <;> simp [hw, vals_erase1_ne h]

theorem vals_take1_same {α : Type} (t : Nat) (w : Nat → Option α) (fs : Fields) :
    vals t (take1 t w fs).2
      = if ((vals t fs).head?.bind w).isSome then (vals t fs).tail else vals t fs := by
  unfold take1
  rw [first_eq_head]
  cases (vals t fs).head? with
  | none => rfl
  | some v => cases hw : w v <;> simp [hw, vals_erase1_same]

theorem take2_fst {α : Type} (t : Nat) (w : Nat → Nat → Option α) (fs : Fields) :
    (take2 t w fs).1 = match vals t fs with | a :: b :: _ => w a b | _ => none := by
  unfold take2
  rw [first_eq_head, first_eq_head, vals_erase1_same]
  match h : vals t fs with
  | [] => simp
  | [a] => simp
  | a :: b :: r => cases hw : w a b <;> simp [hw]

theorem vals_take2_ne {α : Type} {t' t : Nat} (h : t' ≠ t) (w : Nat → Nat → Option α) (fs : Fields) :
    vals t' (take2 t w fs).2 = vals t' fs := by
  unfold take2
  cases first t fs with
  | none => rfl
  | some v0 =>
    cases first t (erase1 t fs) with
    | none => rfl
    | some v1 => cases hw : w v0 v1 <;> simp [hw, vals_erase1_ne h]

theorem vals_take2_same {α : Type} (t : Nat) (w : Nat → Nat → Option α) (fs : Fields) :
    vals t (take2 t w fs).2
      = if (take2 t w fs).1.isSome then (vals t fs).drop 2 else vals t fs := by
  rw [take2_fst]
  unfold take2
  rw [first_eq_head, first_eq_head, vals_erase1_same]
  match h : vals t fs with
  | [] => simp [h]
  | [a] => simp [h]
  | a :: b :: r =>
    cases hw : w a b <;> simp [hw, vals_erase1_same, h]

/-! ### the etching / terms blocks -/

@[simp] theorem bind_wAny (o : Option Nat) : o.bind wAny = o := by
  cases o <;> rfl

theorem vals_takeTerms_ne (t' flags : Nat) (fs : Fields)
    (h8 : t' ≠ 8) (h10 : t' ≠ 10) (h12 : t' ≠ 12) (h14 : t' ≠ 14) (h16 : t' ≠ 16) (h18 : t' ≠ 18) :
    vals t' (takeTerms flags fs).2.2 = vals t' fs := by
  unfold takeTerms
  by_cases h : (takeFlag 1 flags).1 = true <;> simp [h, vals_take1_ne, *]

theorem takeTerms_fst (flags : Nat) (fs : Fields) :
    (takeTerms flags fs).1 =
      if flags.testBit 1 then
        some ⟨(vals 10 fs).head?, (vals 8 fs).head?, (vals 12 fs).head?.bind wU64,
          (vals 14 fs).head?.bind wU64, (vals 16 fs).head?.bind wU64, (vals 18 fs).head?.bind wU64⟩
      else none := by
  unfold takeTerms takeFlag
  by_cases h : flags.testBit 1 <;> simp [h, take1_fst, vals_take1_ne]

theorem takeTerms_flags (flags : Nat) (fs : Fields) :
    (takeTerms flags fs).2.1 = if flags.testBit 1 then flags - 2 else flags := by
  unfold takeTerms takeFlag
  by_cases h : flags.testBit 1 <;> simp [h]

theorem vals_takeEtching_ne (t' flags : Nat) (fs : Fields)
    (h1 : t' ≠ 1) (h3 : t' ≠ 3) (h4 : t' ≠ 4) (h5 : t' ≠ 5) (h6 : t' ≠ 6)
    (h8 : t' ≠ 8) (h10 : t' ≠ 10) (h12 : t' ≠ 12) (h14 : t' ≠ 14) (h16 : t' ≠ 16) (h18 : t' ≠ 18) :
    vals t' (takeEtching flags fs).2.2 = vals t' fs := by
  unfold takeEtching
  by_cases h : (takeFlag 0 flags).1 = true <;> simp [h, vals_take1_ne, vals_takeTerms_ne, *]

theorem takeEtching_rune (flags : Nat) (fs : Fields) :
    (takeEtching flags fs).1.bind (·.rune) = if flags.testBit 0 then (vals 4 fs).head? else none := by
  unfold takeEtching takeFlag
  by_cases h : flags.testBit 0 <;> simp [h, take1_fst, vals_take1_ne]

theorem testBit1_pred (F : Nat) (h : F.testBit 0 = true) : (F - 1).testBit 1 = F.testBit 1 := by
  simp only [Nat.testBit_eq_decide_div_mod_eq] at *
  simp at *
  omega

theorem takeEtching_supply (flags : Nat) (fs : Fields) :
    supplyOverflows (takeEtching flags fs).1 =
      (flags.testBit 0 &&
        !(decide ((if flags.testBit 1 then (vals 8 fs).head?.getD 0 else 0)
              * (if flags.testBit 1 then (vals 10 fs).head?.getD 0 else 0) < 2 ^ 128) &&
          decide ((vals 6 fs).head?.getD 0
              + (if flags.testBit 1 then (vals 8 fs).head?.getD 0 else 0)
                * (if flags.testBit 1 then (vals 10 fs).head?.getD 0 else 0) < 2 ^ 128))) := by
  unfold takeEtching takeFlag
  by_cases h : flags.testBit 0
  · have hb := testBit1_pred flags h
    by_cases h1 : flags.testBit 1
    · rw [h1] at hb
      simp [h, h1, supplyOverflows, Etching.supply, takeTerms_fst, hb, take1_fst, vals_take1_ne]
      split <;> simp_all
      split <;> simp_all
    · have h1' : flags.testBit 1 = false := by simpa using h1
      rw [h1'] at hb
      simp [h, h1', supplyOverflows, Etching.supply, takeTerms_fst, hb, take1_fst, vals_take1_ne]
      split <;> simp_all
  · simp [h, supplyOverflows]

theorem takeEtching_flags (flags : Nat) (fs : Fields) :
    ((takeEtching flags fs).2.1 != 0) = (if flags.testBit 0 then decide (8 ≤ flags) else flags != 0) := by
  unfold takeEtching takeFlag
  by_cases h : flags.testBit 0
  · simp only [h, if_true, takeTerms_flags]
    have hb := testBit1_pred flags h
    simp only [Nat.testBit_eq_decide_div_mod_eq] at *
    simp at h hb ⊢
    by_cases h1 : (flags - 1) / 2 % 2 = 1
    · simp only [h1, if_true]
      by_cases h2 : (flags - 1 - 2) / 4 % 2 = 1
      · simp only [h2, if_true]
        by_cases h8 : 8 ≤ flags <;> simp [h8] <;> omega
      · simp only [h2, if_false]
        by_cases h8 : 8 ≤ flags <;> simp [h8] <;> omega
    · simp only [h1, if_false]
      by_cases h2 : (flags - 1) / 4 % 2 = 1
      · simp only [h2, if_true]
        by_cases h8 : 8 ≤ flags <;> simp [h8] <;> omega
      · simp only [h2, if_false]
        by_cases h8 : 8 ≤ flags <;> simp [h8] <;> omega
  · simp [h]

/-! ### `parseFields` against the specification vocabulary -/

theorem take_flags (fs : Fields) : (take1 2 wAny fs).1.getD 0 = specFlags fs := by
  simp [take1_fst, specFlags]

theorem parseFields_rune (n : Nat) (fs : Fields) :
    (parseFields n fs).etching.bind (·.rune) = specRune fs := by
  simp only [parseFields, takeEtching_rune, take_flags, specRune]
  split <;> simp [vals_take1_ne]

theorem parseFields_mint (n : Nat) (fs : Fields) : (parseFields n fs).mint = specMint fs := by
  simp only [parseFields, take2_fst, specMint]
  rw [vals_takeEtching_ne 20 _ _ (by decide) (by decide) (by decide) (by decide) (by decide)
    (by decide) (by decide) (by decide) (by decide) (by decide) (by decide),
    vals_take1_ne (by decide)]
  generalize vals 20 fs = l
  match l with
  | [] => rfl
  | [_] => rfl
  | _ :: _ :: _ => rfl

theorem parseFields_supply (n : Nat) (fs : Fields) :
    supplyOverflows (parseFields n fs).etching = specSupplyOverflow fs := by
  simp only [parseFields, takeEtching_supply, take_flags, specSupplyOverflow]
  simp [vals_take1_ne]

theorem parseFields_flags (n : Nat) (fs : Fields) :
    ((parseFields n fs).flags != 0) = specUnrecognizedFlag fs := by
  simp only [parseFields, takeEtching_flags, take_flags, specUnrecognizedFlag]

/-! ### flaw sequencing -/

theorem decipherMsg_flaw (n : Nat) (msg : Message) :
    (decipherMsg n msg).flaw =
      firstFlaw [msg.flaw,
        flawIf (supplyOverflows (parseFields n msg.fields).etching) .supplyOverflow,
        flawIf ((parseFields n msg.fields).flags != 0) .unrecognizedFlag,
        flawIf (hasEvenTag (parseFields n msg.fields).fields) .unrecognizedEvenTag] := by
  unfold decipherMsg
  dsimp only
  generalize msg.flaw = f
  generalize supplyOverflows (parseFields n msg.fields).etching = a
  generalize ((parseFields n msg.fields).flags != 0) = b
  generalize hasEvenTag (parseFields n msg.fields).fields = c
  cases f <;> cases a <;> cases b <;> cases c <;> simp [orFlaw, firstFlaw, flawIf, Artifact.flaw]

theorem decipherMsg_rune (n : Nat) (msg : Message) :
    (decipherMsg n msg).rune = specRune msg.fields := by
  unfold decipherMsg
  dsimp only
  split <;> simp [Artifact.rune, parseFields_rune]

theorem decipherMsg_mint (n : Nat) (msg : Message) :
    (decipherMsg n msg).mint = specMint msg.fields := by
  unfold decipherMsg
  dsimp only
  split <;> simp [Artifact.mint, parseFields_mint]

/-- the message-level flaw of `decipherInts` is the first violation in the documented order -/
theorem decipherInts_flaw (n : Nat) (hn : n < 2 ^ 32) (ints : List Nat) (a : Artifact)
    (h : decipherInts n ints = .ok a) :
    a.flaw = firstFlaw (messageFlaws leftoverEvenTag n (structureFlaw n ints) (fieldPairs ints))
    ∧ a.rune = specRune (fieldPairs ints) ∧ a.mint = specMint (fieldPairs ints) := by
  obtain ⟨es, he⟩ := decipherInts_ok n hn ints
  rw [he] at h
  injection h with h
  subst h
  refine ⟨?_, decipherMsg_rune _ _, decipherMsg_mint _ _⟩
  rw [decipherMsg_flaw]
  simp only [messageFlaws, leftoverEvenTag, parseFields_supply, parseFields_flags]

/-- what the push-collecting loop answers, by the first item that is not a data push -/
theorem collectPushes_spec (its : List Item) : collectPushes its = pushesResult its := by
  unfold pushesResult
  induction its with
  | nil => rfl
  | cons it its ih =>
    match it with
    | .ok (.push bs) =>
      have hf : List.find? (fun i => !i.isPush) (Item.ok (.push bs) :: its)
          = List.find? (fun i => !i.isPush) its := by simp [List.find?_cons, Item.isPush]
      rw [hf]
      simp only [collectPushes, ih, List.flatMap_cons, Item.bytes]
      cases List.find? (fun i => !i.isPush) its with
      | none => rfl
      | some x =>
        match x with
        | .ok (.op _) => rfl
        | .ok (.push _) => rfl
        | .err => rfl
    | .ok (.op b) => simp [collectPushes, Item.isPush]
    | .err => simp [collectPushes, Item.isPush]

end Ord.Runestone
