import OrdModel.Proofs.RunestoneScript
import OrdModel.Proofs.Varint
/-! Helper lemmas for C25: the message layer (`Message::from_integers`, `Tag::take`, flaws). -/
namespace Ord.Runestone
open Ord Ord.Script

/-! ### totality -/

theorem Edict.fromIntegers_ok (n : Nat) (hn : n < 2 ^ 32) (id : RuneId) (a o : Nat) :
    Edict.fromIntegers n id a o
      = .ok (if o < 2 ^ 32 ∧ o ≤ n then some ⟨id, a, o⟩ else none) := by
  unfold Edict.fromIntegers
  by_cases h1 : o < 2 ^ 32
  · by_cases h2 : o > n
    · have : ¬ o ≤ n := by omega
      simp [h1, hn, h2, this]
    · have : o ≤ n := by omega
      simp [h1, hn, h2, this]
  · simp [h1]

/-- with fewer than 2^32 outputs the body loop returns; its flaw is `edictsFlaw` -/
theorem parseEdicts_ok_aux (n : Nat) (hn : n < 2 ^ 32) : ∀ (k : Nat) (ints : List Nat),
    ints.length ≤ k → ∀ id : RuneId, ∃ es, parseEdicts n id ints = .ok (edictsFlaw n id ints, es) := by
  intro k
  induction k with
  | zero =>
    intro ints h id
    have : ints = [] := List.eq_nil_of_length_eq_zero (by omega)
    subst this; exact ⟨[], by simp [parseEdicts, edictsFlaw]⟩
  | succ k ih =>
    intro ints h id
    match ints, h with
    | [], _ => exact ⟨[], by simp [parseEdicts, edictsFlaw]⟩
    | [_], _ => exact ⟨[], by simp [parseEdicts, edictsFlaw]⟩
    | [_, _], _ => exact ⟨[], by simp [parseEdicts, edictsFlaw]⟩
    | [_, _, _], _ => exact ⟨[], by simp [parseEdicts, edictsFlaw]⟩
    | a :: b :: c :: d :: rest, h =>
      simp only [parseEdicts, edictsFlaw]
      cases hnx : id.next a b with
      | none => exact ⟨[], by simp⟩
      | some nx =>
        simp only [Edict.fromIntegers_ok n hn]
        by_cases hd : d < 2 ^ 32 ∧ d ≤ n
        · obtain ⟨es, he⟩ := ih rest (by simp at h; omega) nx
          simp only [hd, and_self, if_true, he]
          exact ⟨_, rfl⟩
        · simp only [hd, if_false]
          exact ⟨[], rfl⟩

theorem parseEdicts_ok (n : Nat) (hn : n < 2 ^ 32) (ints : List Nat) (id : RuneId) :
    ∃ es, parseEdicts n id ints = .ok (edictsFlaw n id ints, es) :=
  parseEdicts_ok_aux n hn ints.length ints (Nat.le_refl _) id

/-- with fewer than 2^32 outputs `Message::from_integers` returns; its flaw is `structureFlaw`, its
fields are `fieldPairs` -/
theorem fromIntegers_ok_aux (n : Nat) (hn : n < 2 ^ 32) : ∀ (k : Nat) (ints : List Nat),
    ints.length ≤ k →
    ∃ es, Message.fromIntegers n ints = .ok ⟨structureFlaw n ints, es, fieldPairs ints⟩ := by
  intro k
  induction k with
  | zero =>
    intro ints h
    have : ints = [] := List.eq_nil_of_length_eq_zero (by omega)
    subst this; exact ⟨[], by simp [Message.fromIntegers, structureFlaw, fieldPairs]⟩
  | succ k ih =>
    intro ints h
    match ints, h with
    | [], _ => exact ⟨[], by simp [Message.fromIntegers, structureFlaw, fieldPairs]⟩
    | [t], _ =>
      by_cases ht : t = 0
      · subst ht
        exact ⟨[], by simp [Message.fromIntegers, structureFlaw, fieldPairs, parseEdicts]⟩
      · exact ⟨[], by simp [Message.fromIntegers, structureFlaw, fieldPairs, ht]⟩
    | t :: v :: rest, h =>
      by_cases ht : t = 0
      · subst ht
        obtain ⟨es, he⟩ := parseEdicts_ok n hn (v :: rest) ⟨0, 0⟩
        exact ⟨es, by simp [Message.fromIntegers, structureFlaw, fieldPairs, he]⟩
      · obtain ⟨es, he⟩ := ih rest (by simp at h; omega)
        exact ⟨es, by simp [Message.fromIntegers, structureFlaw, fieldPairs, ht, he]⟩

theorem fromIntegers_ok (n : Nat) (hn : n < 2 ^ 32) (ints : List Nat) :
    ∃ es, Message.fromIntegers n ints = .ok ⟨structureFlaw n ints, es, fieldPairs ints⟩ :=
  fromIntegers_ok_aux n hn ints.length ints (Nat.le_refl _)

theorem decipherInts_ok (n : Nat) (hn : n < 2 ^ 32) (ints : List Nat) :
    ∃ es, decipherInts n ints = .ok (decipherMsg n ⟨structureFlaw n ints, es, fieldPairs ints⟩) := by
  obtain ⟨es, he⟩ := fromIntegers_ok n hn ints
  exact ⟨es, by simp [decipherInts, he]⟩

end Ord.Runestone
