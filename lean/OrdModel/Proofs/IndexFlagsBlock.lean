import OrdModel.Proofs.IndexFlagsAcct
import OrdModel.Proofs.IndexSatsBlock
/-
C15 helper lemmas 5: the end of a block (`LostSats`, the special entries, `commit`) and the whole
of `index_utxo_entries` under the simulation.
-/
namespace Ord.Index
open Outcome Sched

/-! ### accounting over the transactions of a block -/

theorem indexTxs_acct (cfg : Cfg) (hs : cfg.indexSats = true) (blk : Block) : ∀ (l : List (Nat × Tx)) (bc bc' : BlockCtx)
    (L : Nat), (∀ p ∈ l, p.1 ≠ 0 ∧ TxShape p.1 p.2 = true) → indexTxs cfg blk true l bc = .ok bc' →
    Acct L bc → Acct L bc'
  | [], bc, bc', L, _, h, A => by
    simp only [indexTxs, Outcome.ok.injEq] at h; subst h; exact A
  | (i, tx) :: rest, bc, bc', L, hp, h, A => by
    simp only [indexTxs] at h
    split at h
    · cases h
    · cases h
    · rename_i bc1 h1
      have := hp (i, tx) List.mem_cons_self
      exact indexTxs_acct cfg hs blk rest bc1 bc' L (fun p hq => hp p (List.mem_cons_of_mem _ hq)) h
        (indexTx_acct_noncb cfg hs blk i tx bc bc1 this.1 this.2 h1 L A)

/-- without the sat index no ranges are ever collected -/
theorem indexTxMid_noSats (cfg : Cfg) (hs : cfg.indexSats = false) (blk : Block) (insOn : Bool) (off : Nat) (tx : Tx)
    (bc1 : BlockCtx) (inputs : List (TxIn × UtxoEntry)) (bc3 : BlockCtx) (outs3 : List UtxoEntry)
    (hmid : indexTxMid cfg blk insOn off tx bc1 inputs = .ok (bc3, outs3)) : bc3.lostRanges = bc1.lostRanges := by
  unfold indexTxMid at hmid
  simp only [hs, Bool.false_eq_true, if_false] at hmid
  cases insOn with
  | false =>
    simp only [Bool.false_eq_true, if_false, Outcome.ok.injEq, Prod.mk.injEq] at hmid
    rw [← hmid.1]
  | true =>
    simp only [if_true] at hmid
    split at hmid
    · cases hmid
    · cases hmid
    · simp only [Outcome.ok.injEq, Prod.mk.injEq] at hmid
      rw [← hmid.1]

theorem indexTx_noSats (cfg : Cfg) (hs : cfg.indexSats = false) (blk : Block) (insOn : Bool) (off : Nat) (tx : Tx)
    (bc bc' : BlockCtx) (h : indexTx cfg blk insOn off tx bc = .ok bc') :
    bc'.lostRanges = bc.lostRanges := by
  rw [indexTx_eq] at h
  by_cases h0 : off = 0
  · simp only [h0, if_true] at h
    cases hmid : indexTxMid cfg blk insOn 0 tx bc (tx.inputs.map (fun i => (i, UtxoEntry.empty))) with
    | panic s => rw [hmid] at h; cases h
    | err e => rw [hmid] at h; cases h
    | ok r =>
      obtain ⟨bc3, outs3⟩ := r
      rw [hmid] at h
      simp only [Outcome.ok.injEq] at h
      subst h
      exact indexTxMid_noSats cfg hs blk insOn 0 tx bc _ bc3 outs3 hmid
  · simp only [h0, if_false] at h
    cases ht : takeInputEntries cfg tx.inputs bc [] with
    | panic s => rw [ht] at h; simp at h
    | err e => rw [ht] at h; simp at h
    | ok q =>
      obtain ⟨bc1, inputs⟩ := q
      rw [ht] at h
      dsimp only at h
      cases hmid : indexTxMid cfg blk insOn off tx bc1 inputs with
      | panic s => rw [hmid] at h; cases h
      | err e => rw [hmid] at h; cases h
      | ok r =>
        obtain ⟨bc3, outs3⟩ := r
        rw [hmid] at h
        simp only [Outcome.ok.injEq] at h
        subst h
        show bc3.lostRanges = bc.lostRanges
        rw [indexTxMid_noSats cfg hs blk insOn off tx bc1 inputs bc3 outs3 hmid]
        exact (takeInputEntries_frame cfg tx.inputs bc [] bc1 inputs ht).2.1

theorem indexTxs_noSats (cfg : Cfg) (hs : cfg.indexSats = false) (blk : Block) (insOn : Bool) :
    ∀ (l : List (Nat × Tx)) (bc bc' : BlockCtx), indexTxs cfg blk insOn l bc = .ok bc' →
      bc'.lostRanges = bc.lostRanges
  | [], bc, bc', h => by simp only [indexTxs, Outcome.ok.injEq] at h; subst h; rfl
  | (i, tx) :: rest, bc, bc', h => by
    simp only [indexTxs] at h
    split at h
    · cases h
    · cases h
    · rename_i bc1 h1
      rw [indexTxs_noSats cfg hs blk insOn rest bc1 bc' h, indexTx_noSats cfg hs blk insOn i tx bc bc1 h1]

theorem lostRare_snd : ∀ (l : List (Nat × Nat)) (m : List (Nat × SatPoint)) (lost : Nat),
    (lostRare m l lost).2 = lost + lenR l
  | [], m, lost => by simp [lostRare, lenR]
  | (s, e) :: rest, m, lost => by
    simp only [lostRare, lenR]
    rw [lostRare_snd rest]
    omega

theorem blockOrder_cons (blk : Block) (cb : Tx) (rest : List Tx) (h : blk.txs = cb :: rest) :
    blockOrder blk = enumFrom 1 rest ++ [(0, cb)] := by
  simp [blockOrder, h, enumFrom]

theorem shape_of_block (blk : Block) (h : BlockShape blk = true) :
    ∃ cb rest, blk.txs = cb :: rest ∧ TxShape 0 cb = true ∧ ∀ p ∈ enumFrom 1 rest, p.1 ≠ 0 ∧ TxShape p.1 p.2 = true := by
  simp only [BlockShape, Bool.and_eq_true, Bool.not_eq_true', List.all_eq_true] at h
  cases ht : blk.txs with
  | nil => rw [ht] at h; simp at h
  | cons cb rest =>
    rw [ht] at h
    refine ⟨cb, rest, rfl, ?_, ?_⟩
    · exact h.2 (0, cb) (by simp [enumFrom])
    · intro p hp
      exact ⟨enumFrom_succ_ne_zero 0 rest p hp, h.2 p (by simp [enumFrom, hp])⟩

/-- the `LostSats` statistic written at the end of the block, with the sat index on: it is the
inscription updater's counter -/
theorem block_lostSats (cfg : Cfg) (hs : cfg.indexSats = true) (blk : Block) (st : State) (bc : BlockCtx)
    (hshape : BlockShape blk = true)
    (h : indexTxs cfg blk true (blockOrder blk) (bc0A cfg st blk) = .ok bc) :
    bc.ins.lostSats = bc.st.lostSats + lenR bc.lostRanges := by
  obtain ⟨cb, rest, htxs, hcb, hrest⟩ := shape_of_block blk hshape
  rw [blockOrder_cons blk cb rest htxs] at h
  obtain ⟨bc1, h1, h2⟩ := indexTxs_append cfg blk true _ _ _ _ h
  have A0 : Acct st.lostSats (bc0A cfg st blk) := by
    refine ⟨rfl, rfl, rfl, ?_⟩
    show subsidy blk.height = lenR (coinbaseInputsOf cfg blk)
    unfold coinbaseInputsOf
    by_cases hpos : subsidy blk.height > 0
    · simp [hs, hpos, lenR]
    · simp [hs, hpos, lenR]; omega
  have A1 := indexTxs_acct cfg hs blk _ _ _ _ hrest h1 A0
  simp only [indexTxs] at h2
  split at h2
  · cases h2
  · cases h2
  · rename_i bc2 h3
    simp only [Outcome.ok.injEq] at h2
    subst h2
    obtain ⟨a, b⟩ := indexTx_acct_cb cfg hs blk cb bc1 bc2 hcb h3 _ A1
    rw [b, a]

/-! ### `commit` -/

theorem AL_set_same {κ ν : Type} [BEq κ] [LawfulBEq κ] (l : List (κ × ν)) (k : κ) (v : ν)
    (h : AL.get l k = some v) : AL.set l k v = l := by
  induction l with
  | nil => simp [AL.get] at h
  | cons p rest ih =>
    obtain ⟨k0, v0⟩ := p
    simp only [AL.get] at h
    simp only [AL.set]
    split
    · rename_i hk
      rw [if_pos hk] at h
      have : k0 = k := by simpa using hk
      simp only [Option.some.injEq] at h
      rw [this, h]
    · rename_i hk
      rw [if_neg hk] at h
      rw [ih h]

theorem fold_set_same (op : OutPoint) : ∀ (l : List (Nat × Nat)) (m : List (Nat × SatPoint)),
    (∀ p ∈ l, AL.get m p.1 = some ⟨op, p.2⟩) →
    l.foldl (fun m (x : Nat × Nat) => match x with | (seq, off) => AL.set m seq ⟨op, off⟩) m = m
  | [], m, _ => rfl
  | (s, o) :: rest, m, h => by
    simp only [List.foldl_cons]
    rw [AL_set_same m s ⟨op, o⟩ (h (s, o) List.mem_cons_self)]
    exact fold_set_same op rest m (fun p hp => h p (List.mem_cons_of_mem _ hp))

theorem isSpecial_false_of_reg {op : OutPoint} (h : regKey op = true) : op.isSpecial = false := by
  simpa [regKey] using h

theorem flushEntry_reg_eq (cfg : Cfg) (u₀ : List (OutPoint × UtxoEntry)) (st : State) (op : OutPoint) (e : UtxoEntry)
    (h : regKey op = true) :
    flushEntry cfg.base (stripW u₀ st) op (stripUtxo cfg e) =
        stripW (AL.set u₀ op (stripUtxo cfg e)) (flushEntry cfg st op e) ∧
      (flushEntry cfg st op e).utxo = AL.set st.utxo op e := by
  have hsp := isSpecial_false_of_reg h
  have hba : cfg.base.indexAddresses = false := rfl
  have hbi : cfg.base.indexInscriptions = cfg.indexInscriptions := rfl
  unfold flushEntry
  simp only [hsp, Bool.false_eq_true, if_false, hba, hbi]
  cases cfg.indexAddresses <;> cases cfg.indexInscriptions <;> exact ⟨rfl, rfl⟩

theorem flushCache_cons (cfg : Cfg) (st : State) (op : OutPoint) (e : UtxoEntry) (c : Cache) :
    flushCache cfg st ((op, e) :: c) = flushCache cfg (flushEntry cfg st op e) c := rfl

theorem flushCache_reg (cfg : Cfg) : ∀ (c : Cache) (st : State) (u₀ : List (OutPoint × UtxoEntry)),
    CacheReg c → UtxoRel cfg st.utxo u₀ →
    ∃ u₀', flushCache cfg.base (stripW u₀ st) (stripCache cfg c) = stripW u₀' (flushCache cfg st c) ∧
      UtxoRel cfg (flushCache cfg st c).utxo u₀'
  | [], st, u₀, _, R => ⟨u₀, rfl, R⟩
  | (op, e) :: c, st, u₀, hc, R => by
    have hreg : regKey op = true := hc (op, e) List.mem_cons_self
    obtain ⟨e1, e2⟩ := flushEntry_reg_eq cfg u₀ st op e hreg
    have hstrip : stripCache cfg ((op, e) :: c) = (op, stripUtxo cfg e) :: stripCache cfg c := rfl
    rw [hstrip, flushCache_cons, flushCache_cons, e1]
    exact flushCache_reg cfg c _ _ (fun p hp => hc p (List.mem_cons_of_mem _ hp)) (by rw [e2]; exact R.set_reg op e hreg)

theorem regKey_false_of_special {k : OutPoint} (h : k.isSpecial = true) : regKey k = false := by
  simp [regKey, h]

def mergedWith (o : Option UtxoEntry) (e : UtxoEntry) : UtxoEntry :=
  match o with
  | some old => UtxoEntry.merged old e
  | none => e

theorem mergedWith_ins (o : Option UtxoEntry) (e : UtxoEntry) : (mergedWith o e).ins = insOf o ++ e.ins := by
  cases o <;> simp [mergedWith, insOf, UtxoEntry.merged]

/-- `flushEntry` once the entry to write is known -/
def flushWith (cfg : Cfg) (st : State) (op : OutPoint) (e' : UtxoEntry) : State :=
  let st1 := { st with utxo := AL.set st.utxo op e' }
  let st2 := if cfg.indexAddresses then { st1 with script2out := insertUnique st1.script2out (e'.script, op) } else st1
  if cfg.indexInscriptions then
    { st2 with seq2sp := e'.ins.foldl (fun m (seq, off) => AL.set m seq ⟨op, off⟩) st2.seq2sp }
  else st2

theorem flushEntry_special (cfg : Cfg) (st : State) (k : OutPoint) (e : UtxoEntry) (hk : k.isSpecial = true) :
    flushEntry cfg st k e = flushWith cfg st k (mergedWith (AL.get st.utxo k) e) := by
  unfold flushEntry flushWith mergedWith
  simp only [hk, if_true]
  cases AL.get st.utxo k <;> rfl

theorem flushWith_utxo (cfg : Cfg) (st : State) (k : OutPoint) (e' : UtxoEntry) :
    (flushWith cfg st k e').utxo = AL.set st.utxo k e' := by
  unfold flushWith
  cases cfg.indexAddresses <;> cases cfg.indexInscriptions <;> rfl

theorem flushWith_strip (cfg : Cfg) (u₀ : List (OutPoint × UtxoEntry)) (st : State) (k : OutPoint)
    (eA' eB' : UtxoEntry) (hins' : eA'.ins = eB'.ins) :
    flushWith cfg.base (stripW u₀ st) k eB' = stripW (AL.set u₀ k eB') (flushWith cfg st k eA') := by
  have hba : cfg.base.indexAddresses = false := rfl
  have hbi : cfg.base.indexInscriptions = cfg.indexInscriptions := rfl
  unfold flushWith
  simp only [hba, hbi, Bool.false_eq_true, if_false]
  cases cfg.indexAddresses <;> cases cfg.indexInscriptions <;> simp [stripW, hins']

theorem utxoRel_set_special (cfg : Cfg) (u u₀ : List (OutPoint × UtxoEntry)) (k : OutPoint) (eA' eB' : UtxoEntry)
    (hk : k.isSpecial = true) (hins' : eA'.ins = eB'.ins) (R : UtxoRel cfg u u₀) :
    UtxoRel cfg (AL.set u k eA') (AL.set u₀ k eB') := by
  refine ⟨?_, ?_⟩
  · rw [AL.set_filterk_not regKey u k eA' (regKey_false_of_special hk),
      AL.set_filterk_not regKey u₀ k eB' (regKey_false_of_special hk)]
    exact R.regular
  · intro k' hk'
    by_cases hkk : k = k'
    · subst hkk
      rw [AL.get_set_self, AL.get_set_self]
      exact hins'
    · rw [AL.get_set_ne _ _ hkk, AL.get_set_ne _ _ hkk]
      exact R.special k' hk'

/-- a special entry flushed in both runs, with the same inscription list -/
theorem flushEntry_special_eq (cfg : Cfg) (u₀ : List (OutPoint × UtxoEntry)) (st : State) (k : OutPoint)
    (eA eB : UtxoEntry) (hk : k.isSpecial = true) (hins : eA.ins = eB.ins) (R : UtxoRel cfg st.utxo u₀) :
    ∃ u₀', flushEntry cfg.base (stripW u₀ st) k eB = stripW u₀' (flushEntry cfg st k eA) ∧
      UtxoRel cfg (flushEntry cfg st k eA).utxo u₀' := by
  have hu : (stripW u₀ st).utxo = u₀ := rfl
  have hins' : (mergedWith (AL.get st.utxo k) eA).ins = (mergedWith (AL.get u₀ k) eB).ins := by
    rw [mergedWith_ins, mergedWith_ins, R.special k hk, hins]
  rw [flushEntry_special cfg st k eA hk, flushEntry_special cfg.base (stripW u₀ st) k eB hk, hu]
  refine ⟨AL.set u₀ k (mergedWith (AL.get u₀ k) eB), flushWith_strip cfg u₀ st k _ _ hins', ?_⟩
  rw [flushWith_utxo]
  exact utxoRel_set_special cfg st.utxo u₀ k _ _ hk hins' R

/-- the null entry flushed only in the run with the sat index (lost sats, no lost inscription in
this block): nothing changes for the base run, provided the rows of the inscriptions already at
the null outpoint are in place -/
theorem flushEntry_null_onesided (cfg : Cfg) (u₀ : List (OutPoint × UtxoEntry)) (st : State) (eA : UtxoEntry)
    (hins : eA.ins = []) (R : UtxoRel cfg st.utxo u₀)
    (hrows : ∀ e, AL.get st.utxo OutPoint.null = some e → ∀ p ∈ e.ins, AL.get st.seq2sp p.1 = some ⟨OutPoint.null, p.2⟩) :
    stripW u₀ (flushEntry cfg st OutPoint.null eA) = stripW u₀ st ∧
      UtxoRel cfg (flushEntry cfg st OutPoint.null eA).utxo u₀ := by
  have hk : OutPoint.null.isSpecial = true := by decide
  rw [flushEntry_special cfg st _ eA hk]
  have hins' : (mergedWith (AL.get st.utxo OutPoint.null) eA).ins = insOf (AL.get st.utxo OutPoint.null) := by
    rw [mergedWith_ins, hins, List.append_nil]
  have hfold : (mergedWith (AL.get st.utxo OutPoint.null) eA).ins.foldl
      (fun m (x : Nat × Nat) => match x with | (seq, off) => AL.set m seq ⟨OutPoint.null, off⟩) st.seq2sp = st.seq2sp := by
    apply fold_set_same
    intro p hp
    rw [hins'] at hp
    cases hg : AL.get st.utxo OutPoint.null with
    | none => rw [hg] at hp; simp [insOf] at hp
    | some e => rw [hg] at hp; exact hrows e hg p hp
  refine ⟨?_, ?_⟩
  · unfold flushWith
    cases cfg.indexAddresses <;> cases cfg.indexInscriptions <;> simp [stripW, hfold]
  · rw [flushWith_utxo]
    refine ⟨?_, ?_⟩
    · rw [AL.set_filterk_not regKey st.utxo _ _ (regKey_false_of_special hk)]
      exact R.regular
    · intro k' hk'
      by_cases hkk : OutPoint.null = k'
      · subst hkk
        rw [AL.get_set_self]
        show (mergedWith _ eA).ins = _
        rw [hins']
        exact R.special _ hk
      · rw [AL.get_set_ne _ _ hkk]
        exact R.special k' hk'

/-! ### the end of the block -/

theorem endState_utxo (cfg : Cfg) (blk : Block) (insOn : Bool) (bc : BlockCtx) :
    (endState cfg blk insOn bc).1.utxo = bc.st.utxo := by
  unfold endState
  cases insOn <;> cases bc.lostRanges.isEmpty <;> rfl

theorem isEmpty_eq_nil {α : Type} (l : List α) (h : l.isEmpty = true) : l = [] := by
  cases l with
  | nil => rfl
  | cons a l => simp at h

/-- the statistics and the null entry at the end of the block, in both runs -/
theorem endState_sim (cfg : Cfg) (blk : Block) (bc : BlockCtx) (u1 : List (OutPoint × UtxoEntry))
    (hlost : cfg.indexSats = true → bc.ins.lostSats = bc.st.lostSats + lenR bc.lostRanges)
    (hnos : cfg.indexSats = false → bc.lostRanges = []) :
    (endState cfg.base blk true (mkB cfg bc u1)).1 = stripW u1 (endState cfg blk true bc).1 ∧
    (endState cfg.base blk true (mkB cfg bc u1)).2 = bc.ins.nullEntry ∧
    ((endState cfg blk true bc).2 = bc.ins.nullEntry ∨
      (cfg.indexSats = true ∧
        (endState cfg blk true bc).2 =
          some (UtxoEntry.merged (bc.ins.nullEntry.getD UtxoEntry.empty) ⟨0, bc.lostRanges, [], []⟩))) := by
  have hbs : cfg.base.indexSats = false := rfl
  have hl0 : (mkB cfg bc u1).lostRanges = [] := rfl
  have hlen : (stripW u1 bc.st).entries.length = bc.st.entries.length := by simp [stripW]
  unfold endState
  simp only [if_true, hl0, List.isEmpty_nil, hbs, Bool.false_eq_true, if_false]
  cases he : bc.lostRanges.isEmpty with
  | true =>
    have hnil := isEmpty_eq_nil _ he
    rw [hnil] at hlost
    simp only [lenR, Nat.add_zero] at hlost
    simp only [if_true]
    refine ⟨?_, rfl, Or.inl trivial⟩
    cases hs : cfg.indexSats with
    | false => simp [mkB, stripW, stripCtx]
    | true => simp [mkB, stripW, stripCtx, hlost hs]
  | false =>
    simp only [Bool.false_eq_true, if_false]
    have hs : cfg.indexSats = true := by
      cases hs : cfg.indexSats with
      | true => rfl
      | false => rw [hnos hs] at he; simp at he
    refine ⟨?_, rfl, Or.inr ⟨hs, trivial⟩⟩
    simp only [hs, if_true, lostRare_snd]
    simp [mkB, stripW, stripCtx, hlost hs]

theorem flushCache_append (cfg : Cfg) (st : State) (a b : Cache) :
    flushCache cfg st (a ++ b) = flushCache cfg (flushCache cfg st a) b := by
  simp [flushCache, List.foldl_append]

/-- the rows of the inscriptions already at the null outpoint are in place -/
def NullRows (st : State) : Prop :=
  ∀ e, AL.get st.utxo OutPoint.null = some e → ∀ p ∈ e.ins, AL.get st.seq2sp p.1 = some ⟨OutPoint.null, p.2⟩

theorem specialOf_split (a b : Option UtxoEntry) : specialOf a b = specialOf a none ++ specialOf none b := by
  cases a <;> cases b <;> rfl

/-- one optional special entry: flushed in both runs with the same inscriptions, or only in the
run with the sat index and without inscriptions -/
def OptRel (st : State) (a b : Option UtxoEntry) : Prop :=
  (a = none ∧ b = none) ∨ (∃ ea eb, a = some ea ∧ b = some eb ∧ ea.ins = eb.ins) ∨
  (∃ ea, a = some ea ∧ b = none ∧ ea.ins = [] ∧ NullRows st)

theorem flush_opt_null (cfg : Cfg) (u₀ : List (OutPoint × UtxoEntry)) (st : State) (a b : Option UtxoEntry)
    (ho : OptRel st a b) (R : UtxoRel cfg st.utxo u₀) :
    ∃ u₀', flushCache cfg.base (stripW u₀ st) (specialOf b none) =
        stripW u₀' (flushCache cfg st (specialOf a none)) ∧
      UtxoRel cfg (flushCache cfg st (specialOf a none)).utxo u₀' := by
  rcases ho with ⟨rfl, rfl⟩ | ⟨ea, eb, rfl, rfl, hins⟩ | ⟨ea, rfl, rfl, hins, hrows⟩
  · exact ⟨u₀, rfl, R⟩
  · exact flushEntry_special_eq cfg u₀ st OutPoint.null ea eb (by decide) hins R
  · obtain ⟨h1, h2⟩ := flushEntry_null_onesided cfg u₀ st ea hins R hrows
    exact ⟨u₀, h1.symm, h2⟩

theorem flush_opt_unbound (cfg : Cfg) (u₀ : List (OutPoint × UtxoEntry)) (st : State) (a : Option UtxoEntry)
    (R : UtxoRel cfg st.utxo u₀) :
    ∃ u₀', flushCache cfg.base (stripW u₀ st) (specialOf none a) =
        stripW u₀' (flushCache cfg st (specialOf none a)) ∧
      UtxoRel cfg (flushCache cfg st (specialOf none a)).utxo u₀' := by
  cases a with
  | none => exact ⟨u₀, rfl, R⟩
  | some e => exact flushEntry_special_eq cfg u₀ st OutPoint.unbound e e (by decide) rfl R

/-- hypothesis of the block theorem, used only with the sat index on: when the special entries
of the block are committed, every inscription already listed at the null outpoint has its
satpoint row there (an instance of C04's invariant "listed ⇒ row", at the mid-commit state) -/
def NullRowsStable (cfg : Cfg) (st : State) (blk : Block) : Prop :=
  ∀ bc, indexTxs cfg blk (insOnOf cfg blk) (blockOrder blk) (bc0A cfg st blk) = .ok bc →
    NullRows (flushCache cfg (endState cfg blk (insOnOf cfg blk) bc).1 bc.cache)

theorem blockOrder_shape (blk : Block) (h : BlockShape blk = true) : ∀ p ∈ blockOrder blk, TxShape p.1 p.2 = true := by
  obtain ⟨cb, rest, htxs, hcb, hrest⟩ := shape_of_block blk h
  rw [blockOrder_cons blk cb rest htxs]
  intro p hp
  rcases List.mem_append.mp hp with hp | hp
  · exact (hrest p hp).2
  · simp only [List.mem_singleton] at hp
    subst hp; exact hcb

/-- **stage (b): one block of `index_utxo_entries`** (inscriptions indexed in every block) -/
theorem indexUtxoEntries_sim (cfg : Cfg) (hi : cfg.indexInscriptions = true) (hf : cfg.firstInscriptionHeight = 0)
    (st : State) (u₀ : List (OutPoint × UtxoEntry)) (blk : Block) (st' : State) (evs : List Event)
    (hshape : BlockShape blk = true) (R : UtxoRel cfg st.utxo u₀)
    (hnull : cfg.indexSats = true → NullRowsStable cfg st blk)
    (h : indexUtxoEntries cfg st blk = .ok (st', evs)) :
    ∃ u₀', indexUtxoEntries cfg.base (stripW u₀ st) blk = .ok (stripW u₀' st', evs.map stripEvent) ∧
      UtxoRel cfg st'.utxo u₀' := by
  rw [indexUtxoEntries_eq] at h ⊢
  have hon : insOnOf cfg blk = true := by simp [insOnOf, hf, hi]
  have honb : insOnOf cfg.base blk = insOnOf cfg blk := rfl
  have hb0 : bc0A cfg.base (stripW u₀ st) blk = mkB cfg (bc0A cfg st blk) u₀ := by
    simp [bc0A, mkB, coinbaseInputsOf, Cfg.base, stripW, stripCtx, stripCache]
  rw [honb, hb0]
  cases hx : indexTxs cfg blk (insOnOf cfg blk) (blockOrder blk) (bc0A cfg st blk) with
  | panic s => rw [hx] at h; simp at h
  | err e => rw [hx] at h; simp at h
  | ok bc =>
    rw [hx] at h
    simp only [Outcome.ok.injEq, Prod.mk.injEq] at h
    obtain ⟨hst', hevs⟩ := h
    obtain ⟨u1, h1, R1, c1⟩ := indexTxs_sim cfg blk _ (blockOrder blk) _ u₀ bc (blockOrder_shape blk hshape) R hx
    have hcr : CacheReg bc.cache := c1 (by intro p hp; cases hp)
    rw [h1]
    dsimp only
    -- accounting
    have hx' := hx
    rw [hon] at hx'
    have hlost : cfg.indexSats = true → bc.ins.lostSats = bc.st.lostSats + lenR bc.lostRanges :=
      fun hs => block_lostSats cfg hs blk st bc hshape hx'
    have hnos : cfg.indexSats = false → bc.lostRanges = [] := fun hs =>
      indexTxs_noSats cfg hs blk true (blockOrder blk) _ bc hx'
    obtain ⟨E1, E2, E3⟩ := endState_sim cfg blk bc u1 hlost hnos
    rw [hon]
    rw [E1, E2]
    have hmc : (mkB cfg bc u1).cache = stripCache cfg bc.cache := rfl
    have hmu : (mkB cfg bc u1).ins.unboundEntry = bc.ins.unboundEntry := rfl
    have hme : (mkB cfg bc u1).ins.events = bc.ins.events.map stripEvent := rfl
    rw [hmc, hmu, hme, hevs]
    rw [hon] at hst'
    rw [← hst']
    rw [specialOf_split (endState cfg blk true bc).2, specialOf_split bc.ins.nullEntry]
    rw [flushCache_append, flushCache_append, flushCache_append, flushCache_append]
    -- regular entries
    have RE : UtxoRel cfg (endState cfg blk true bc).1.utxo u1 := by rw [endState_utxo]; exact R1
    obtain ⟨u2, f2, R2⟩ := flushCache_reg cfg bc.cache _ u1 hcr RE
    rw [f2]
    -- the null entry
    have hopt : OptRel (flushCache cfg (endState cfg blk true bc).1 bc.cache) (endState cfg blk true bc).2 bc.ins.nullEntry := by
      rcases E3 with e3 | ⟨hs, e3⟩
      · rw [e3]
        cases hn : bc.ins.nullEntry with
        | none => exact Or.inl ⟨rfl, rfl⟩
        | some e => exact Or.inr (Or.inl ⟨e, e, rfl, rfl, rfl⟩)
      · rw [e3]
        cases hn : bc.ins.nullEntry with
        | none =>
          refine Or.inr (Or.inr ⟨_, rfl, rfl, ?_, ?_⟩)
          · simp [UtxoEntry.merged, UtxoEntry.empty]
          · have := hnull hs bc hx
            rw [hon] at this
            exact this
        | some e =>
          refine Or.inr (Or.inl ⟨_, e, rfl, rfl, ?_⟩)
          simp [UtxoEntry.merged]
    obtain ⟨u3, f3, R3⟩ := flush_opt_null cfg u2 _ _ _ hopt R2
    rw [f3]
    obtain ⟨u4, f4, R4⟩ := flush_opt_unbound cfg u3 _ bc.ins.unboundEntry R3
    rw [f4]
    exact ⟨u4, rfl, R4⟩

end Ord.Index
