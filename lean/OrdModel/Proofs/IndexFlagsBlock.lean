import OrdModel.Proofs.IndexFlagsAcct
import OrdModel.Proofs.IndexSatsBlock
/-
C15 helper lemmas 5: the end of a block (`LostSats`, the special entries, `commit`) and the whole
of `index_utxo_entries` under the simulation.
-/
namespace Ord.Index
open Outcome Sched

/-! ### accounting over the transactions of a block -/

theorem indexTxs_acct (cfg : Cfg) (hs : cfg.indexSats = true) (blk : Block) : ∀ (l : List (Nat × Tx)) (bc bc' : BlockCtx)
    (L : Nat), (∀ p ∈ l, p.1 ≠ 0 ∧ TxShape p.1 p.2 = true) → indexTxs cfg blk true l bc = .ok bc' →
    Acct L bc → Acct L bc'
  | [], bc, bc', L, _, h, A => by
    simp only [indexTxs, Outcome.ok.injEq] at h; subst h; exact A
  | (i, tx) :: rest, bc, bc', L, hp, h, A => by
    simp only [indexTxs] at h
    split at h
    · cases h
    · cases h
    · rename_i bc1 h1
      have := hp (i, tx) List.mem_cons_self
      exact indexTxs_acct cfg hs blk rest bc1 bc' L (fun p hq => hp p (List.mem_cons_of_mem _ hq)) h
        (indexTx_acct_noncb cfg hs blk i tx bc bc1 this.1 this.2 h1 L A)

/-- without the sat index no ranges are ever collected -/
theorem indexTxMid_noSats (cfg : Cfg) (hs : cfg.indexSats = false) (blk : Block) (insOn : Bool) (off : Nat) (tx : Tx)
    (bc1 : BlockCtx) (inputs : List (TxIn × UtxoEntry)) (bc3 : BlockCtx) (outs3 : List UtxoEntry)
    (hmid : indexTxMid cfg blk insOn off tx bc1 inputs = .ok (bc3, outs3)) : bc3.lostRanges = bc1.lostRanges := by
  unfold indexTxMid at hmid
  simp only [hs, Bool.false_eq_true, if_false] at hmid
  cases insOn with
  | false =>
    simp only [Bool.false_eq_true, if_false, Outcome.ok.injEq, Prod.mk.injEq] at hmid
    rw [← hmid.1]
  | true =>
    simp only [if_true] at hmid
    split at hmid
    · cases hmid
    · cases hmid
    · simp only [Outcome.ok.injEq, Prod.mk.injEq] at hmid
      rw [← hmid.1]

theorem indexTx_noSats (cfg : Cfg) (hs : cfg.indexSats = false) (blk : Block) (insOn : Bool) (off : Nat) (tx : Tx)
    (bc bc' : BlockCtx) (h : indexTx cfg blk insOn off tx bc = .ok bc') :
    bc'.lostRanges = bc.lostRanges := by
  rw [indexTx_eq] at h
  by_cases h0 : off = 0
  · simp only [h0, if_true] at h
    cases hmid : indexTxMid cfg blk insOn 0 tx bc (tx.inputs.map (fun i => (i, UtxoEntry.empty))) with
    | panic s => rw [hmid] at h; cases h
    | err e => rw [hmid] at h; cases h
    | ok r =>
      obtain ⟨bc3, outs3⟩ := r
      rw [hmid] at h
      simp only [Outcome.ok.injEq] at h
      subst h
      exact indexTxMid_noSats cfg hs blk insOn 0 tx bc _ bc3 outs3 hmid
  · simp only [h0, if_false] at h
    cases ht : takeInputEntries cfg tx.inputs bc [] with
    | panic s => rw [ht] at h; simp at h
    | err e => rw [ht] at h; simp at h
    | ok q =>
      obtain ⟨bc1, inputs⟩ := q
      rw [ht] at h
      dsimp only at h
      cases hmid : indexTxMid cfg blk insOn off tx bc1 inputs with
      | panic s => rw [hmid] at h; cases h
      | err e => rw [hmid] at h; cases h
      | ok r =>
        obtain ⟨bc3, outs3⟩ := r
        rw [hmid] at h
        simp only [Outcome.ok.injEq] at h
        subst h
        show bc3.lostRanges = bc.lostRanges
        rw [indexTxMid_noSats cfg hs blk insOn off tx bc1 inputs bc3 outs3 hmid]
        exact (takeInputEntries_frame cfg tx.inputs bc [] bc1 inputs ht).2.1

theorem indexTxs_noSats (cfg : Cfg) (hs : cfg.indexSats = false) (blk : Block) (insOn : Bool) :
    ∀ (l : List (Nat × Tx)) (bc bc' : BlockCtx), indexTxs cfg blk insOn l bc = .ok bc' →
      bc'.lostRanges = bc.lostRanges
  | [], bc, bc', h => by simp only [indexTxs, Outcome.ok.injEq] at h; subst h; rfl
  | (i, tx) :: rest, bc, bc', h => by
    simp only [indexTxs] at h
    split at h
    · cases h
    · cases h
    · rename_i bc1 h1
      rw [indexTxs_noSats cfg hs blk insOn rest bc1 bc' h, indexTx_noSats cfg hs blk insOn i tx bc bc1 h1]

theorem lostRare_snd : ∀ (l : List (Nat × Nat)) (m : List (Nat × SatPoint)) (lost : Nat),
    (lostRare m l lost).2 = lost + lenR l
  | [], m, lost => by simp [lostRare, lenR]
  | (s, e) :: rest, m, lost => by
    simp only [lostRare, lenR]
    rw [lostRare_snd rest]
    omega

theorem blockOrder_cons (blk : Block) (cb : Tx) (rest : List Tx) (h : blk.txs = cb :: rest) :
    blockOrder blk = enumFrom 1 rest ++ [(0, cb)] := by
  simp [blockOrder, h, enumFrom]

theorem shape_of_block (blk : Block) (h : BlockShape blk = true) :
    ∃ cb rest, blk.txs = cb :: rest ∧ TxShape 0 cb = true ∧ ∀ p ∈ enumFrom 1 rest, p.1 ≠ 0 ∧ TxShape p.1 p.2 = true := by
  simp only [BlockShape, Bool.and_eq_true, Bool.not_eq_true', List.all_eq_true] at h
  cases ht : blk.txs with
  | nil => rw [ht] at h; simp at h
  | cons cb rest =>
    rw [ht] at h
    refine ⟨cb, rest, rfl, ?_, ?_⟩
    · exact h.2 (0, cb) (by simp [enumFrom])
    · intro p hp
      exact ⟨enumFrom_succ_ne_zero 0 rest p hp, h.2 p (by simp [enumFrom, hp])⟩

/-- the `LostSats` statistic written at the end of the block, with the sat index on: it is the
inscription updater's counter -/
theorem block_lostSats (cfg : Cfg) (hs : cfg.indexSats = true) (blk : Block) (st : State) (bc : BlockCtx)
    (hshape : BlockShape blk = true)
    (h : indexTxs cfg blk true (blockOrder blk) (bc0A cfg st blk) = .ok bc) :
    bc.ins.lostSats = bc.st.lostSats + lenR bc.lostRanges := by
  obtain ⟨cb, rest, htxs, hcb, hrest⟩ := shape_of_block blk hshape
  rw [blockOrder_cons blk cb rest htxs] at h
  obtain ⟨bc1, h1, h2⟩ := indexTxs_append cfg blk true _ _ _ _ h
  have A0 : Acct st.lostSats (bc0A cfg st blk) := by
    refine ⟨rfl, rfl, rfl, ?_⟩
    show subsidy blk.height = lenR (coinbaseInputsOf cfg blk)
    unfold coinbaseInputsOf
    by_cases hpos : subsidy blk.height > 0
    · simp [hs, hpos, lenR]
    · simp [hs, hpos, lenR]; omega
  have A1 := indexTxs_acct cfg hs blk _ _ _ _ hrest h1 A0
  simp only [indexTxs] at h2
  split at h2
  · cases h2
  · cases h2
  · rename_i bc2 h3
    simp only [Outcome.ok.injEq] at h2
    subst h2
    obtain ⟨a, b⟩ := indexTx_acct_cb cfg hs blk cb bc1 bc2 hcb h3 _ A1
    rw [b, a]

/-! ### `commit` -/

theorem AL_set_same {κ ν : Type} [BEq κ] [LawfulBEq κ] (l : List (κ × ν)) (k : κ) (v : ν)
    (h : AL.get l k = some v) : AL.set l k v = l := by
  induction l with
  | nil => simp [AL.get] at h
  | cons p rest ih =>
    obtain ⟨k0, v0⟩ := p
    simp only [AL.get] at h
    simp only [AL.set]
    split
    · rename_i hk
      rw [if_pos hk] at h
      have : k0 = k := by simpa using hk
      simp only [Option.some.injEq] at h
      rw [this, h]
    · rename_i hk
      rw [if_neg hk] at h
      rw [ih h]

theorem fold_set_same (op : OutPoint) : ∀ (l : List (Nat × Nat)) (m : List (Nat × SatPoint)),
    (∀ p ∈ l, AL.get m p.1 = some ⟨op, p.2⟩) →
    l.foldl (fun m (x : Nat × Nat) => match x with | (seq, off) => AL.set m seq ⟨op, off⟩) m = m
  | [], m, _ => rfl
  | (s, o) :: rest, m, h => by
    simp only [List.foldl_cons]
    rw [AL_set_same m s ⟨op, o⟩ (h (s, o) List.mem_cons_self)]
    exact fold_set_same op rest m (fun p hp => h p (List.mem_cons_of_mem _ hp))

theorem isSpecial_false_of_reg {op : OutPoint} (h : regKey op = true) : op.isSpecial = false := by
  simpa [regKey] using h

theorem flushEntry_reg_eq (cfg : Cfg) (u₀ : List (OutPoint × UtxoEntry)) (st : State) (op : OutPoint) (e : UtxoEntry)
    (h : regKey op = true) :
    flushEntry cfg.base (stripW u₀ st) op (stripUtxo cfg e) =
        stripW (AL.set u₀ op (stripUtxo cfg e)) (flushEntry cfg st op e) ∧
      (flushEntry cfg st op e).utxo = AL.set st.utxo op e := by
  have hsp := isSpecial_false_of_reg h
  have hba : cfg.base.indexAddresses = false := rfl
  have hbi : cfg.base.indexInscriptions = cfg.indexInscriptions := rfl
  unfold flushEntry
  simp only [hsp, Bool.false_eq_true, if_false, hba, hbi]
  cases cfg.indexAddresses <;> cases cfg.indexInscriptions <;> exact ⟨rfl, rfl⟩

theorem flushCache_cons (cfg : Cfg) (st : State) (op : OutPoint) (e : UtxoEntry) (c : Cache) :
    flushCache cfg st ((op, e) :: c) = flushCache cfg (flushEntry cfg st op e) c := rfl

theorem flushCache_reg (cfg : Cfg) : ∀ (c : Cache) (st : State) (u₀ : List (OutPoint × UtxoEntry)),
    CacheReg c → UtxoRel cfg st.utxo u₀ →
    ∃ u₀', flushCache cfg.base (stripW u₀ st) (stripCache cfg c) = stripW u₀' (flushCache cfg st c) ∧
      UtxoRel cfg (flushCache cfg st c).utxo u₀'
  | [], st, u₀, _, R => ⟨u₀, rfl, R⟩
  | (op, e) :: c, st, u₀, hc, R => by
    have hreg : regKey op = true := hc (op, e) List.mem_cons_self
    obtain ⟨e1, e2⟩ := flushEntry_reg_eq cfg u₀ st op e hreg
    have hstrip : stripCache cfg ((op, e) :: c) = (op, stripUtxo cfg e) :: stripCache cfg c := rfl
    rw [hstrip, flushCache_cons, flushCache_cons, e1]
    exact flushCache_reg cfg c _ _ (fun p hp => hc p (List.mem_cons_of_mem _ hp)) (by rw [e2]; exact R.set_reg op e hreg)

theorem regKey_false_of_special {k : OutPoint} (h : k.isSpecial = true) : regKey k = false := by
  simp [regKey, h]

def mergedWith (o : Option UtxoEntry) (e : UtxoEntry) : UtxoEntry :=
  match o with
  | some old => UtxoEntry.merged old e
  | none => e

theorem mergedWith_ins (o : Option UtxoEntry) (e : UtxoEntry) : (mergedWith o e).ins = insOf o ++ e.ins := by
  cases o <;> simp [mergedWith, insOf, UtxoEntry.merged]

/-- `flushEntry` once the entry to write is known -/
def flushWith (cfg : Cfg) (st : State) (op : OutPoint) (e' : UtxoEntry) : State :=
  let st1 := { st with utxo := AL.set st.utxo op e' }
  let st2 := if cfg.indexAddresses then { st1 with script2out := insertUnique st1.script2out (e'.script, op) } else st1
  if cfg.indexInscriptions then
    { st2 with seq2sp := e'.ins.foldl (fun m (seq, off) => AL.set m seq ⟨op, off⟩) st2.seq2sp }
  else st2

theorem flushEntry_special (cfg : Cfg) (st : State) (k : OutPoint) (e : UtxoEntry) (hk : k.isSpecial = true) :
    flushEntry cfg st k e = flushWith cfg st k (mergedWith (AL.get st.utxo k) e) := by
  unfold flushEntry flushWith mergedWith
  simp only [hk, if_true]
  cases AL.get st.utxo k <;> rfl

theorem flushWith_utxo (cfg : Cfg) (st : State) (k : OutPoint) (e' : UtxoEntry) :
    (flushWith cfg st k e').utxo = AL.set st.utxo k e' := by
  unfold flushWith
  cases cfg.indexAddresses <;> cases cfg.indexInscriptions <;> rfl

theorem flushWith_strip (cfg : Cfg) (u₀ : List (OutPoint × UtxoEntry)) (st : State) (k : OutPoint)
    (eA' eB' : UtxoEntry) (hins' : eA'.ins = eB'.ins) :
    flushWith cfg.base (stripW u₀ st) k eB' = stripW (AL.set u₀ k eB') (flushWith cfg st k eA') := by
  have hba : cfg.base.indexAddresses = false := rfl
  have hbi : cfg.base.indexInscriptions = cfg.indexInscriptions := rfl
  unfold flushWith
  simp only [hba, hbi, Bool.false_eq_true, if_false]
  cases cfg.indexAddresses <;> cases cfg.indexInscriptions <;> simp [stripW, hins']

theorem utxoRel_set_special (cfg : Cfg) (u u₀ : List (OutPoint × UtxoEntry)) (k : OutPoint) (eA' eB' : UtxoEntry)
    (hk : k.isSpecial = true) (hins' : eA'.ins = eB'.ins) (R : UtxoRel cfg u u₀) :
    UtxoRel cfg (AL.set u k eA') (AL.set u₀ k eB') := by
  refine ⟨?_, ?_⟩
  · rw [AL.set_filterk_not regKey u k eA' (regKey_false_of_special hk),
      AL.set_filterk_not regKey u₀ k eB' (regKey_false_of_special hk)]
    exact R.regular
  · intro k' hk'
    by_cases hkk : k = k'
    · subst hkk
      rw [AL.get_set_self, AL.get_set_self]
      exact hins'
    · rw [AL.get_set_ne _ _ hkk, AL.get_set_ne _ _ hkk]
      exact R.special k' hk'

/-- a special entry flushed in both runs, with the same inscription list -/
theorem flushEntry_special_eq (cfg : Cfg) (u₀ : List (OutPoint × UtxoEntry)) (st : State) (k : OutPoint)
    (eA eB : UtxoEntry) (hk : k.isSpecial = true) (hins : eA.ins = eB.ins) (R : UtxoRel cfg st.utxo u₀) :
    ∃ u₀', flushEntry cfg.base (stripW u₀ st) k eB = stripW u₀' (flushEntry cfg st k eA) ∧
      UtxoRel cfg (flushEntry cfg st k eA).utxo u₀' := by
  have hu : (stripW u₀ st).utxo = u₀ := rfl
  have hins' : (mergedWith (AL.get st.utxo k) eA).ins = (mergedWith (AL.get u₀ k) eB).ins := by
    rw [mergedWith_ins, mergedWith_ins, R.special k hk, hins]
  rw [flushEntry_special cfg st k eA hk, flushEntry_special cfg.base (stripW u₀ st) k eB hk, hu]
  refine ⟨AL.set u₀ k (mergedWith (AL.get u₀ k) eB), flushWith_strip cfg u₀ st k _ _ hins', ?_⟩
  rw [flushWith_utxo]
  exact utxoRel_set_special cfg st.utxo u₀ k _ _ hk hins' R

/-- the null entry flushed only in the run with the sat index (lost sats, no lost inscription in
this block): nothing changes for the base run, provided the rows of the inscriptions already at
the null outpoint are in place -/
theorem flushEntry_null_onesided (cfg : Cfg) (u₀ : List (OutPoint × UtxoEntry)) (st : State) (eA : UtxoEntry)
    (hins : eA.ins = []) (R : UtxoRel cfg st.utxo u₀)
    (hrows : ∀ e, AL.get st.utxo OutPoint.null = some e → ∀ p ∈ e.ins, AL.get st.seq2sp p.1 = some ⟨OutPoint.null, p.2⟩) :
    stripW u₀ (flushEntry cfg st OutPoint.null eA) = stripW u₀ st ∧
      UtxoRel cfg (flushEntry cfg st OutPoint.null eA).utxo u₀ := by
  have hk : OutPoint.null.isSpecial = true := by decide
  rw [flushEntry_special cfg st _ eA hk]
  have hins' : (mergedWith (AL.get st.utxo OutPoint.null) eA).ins = insOf (AL.get st.utxo OutPoint.null) := by
    rw [mergedWith_ins, hins, List.append_nil]
  have hfold : (mergedWith (AL.get st.utxo OutPoint.null) eA).ins.foldl
      (fun m (x : Nat × Nat) => match x with | (seq, off) => AL.set m seq ⟨OutPoint.null, off⟩) st.seq2sp = st.seq2sp := by
    apply fold_set_same
    intro p hp
    rw [hins'] at hp
    cases hg : AL.get st.utxo OutPoint.null with
    | none => rw [hg] at hp; simp [insOf] at hp
    | some e => rw [hg] at hp; exact hrows e hg p hp
  refine ⟨?_, ?_⟩
  · unfold flushWith
    cases cfg.indexAddresses <;> cases cfg.indexInscriptions <;> simp [stripW, hfold]
  · rw [flushWith_utxo]
    refine ⟨?_, ?_⟩
    · rw [AL.set_filterk_not regKey st.utxo _ _ (regKey_false_of_special hk)]
      exact R.regular
    · intro k' hk'
      by_cases hkk : OutPoint.null = k'
      · subst hkk
        rw [AL.get_set_self]
        show (mergedWith _ eA).ins = _
        rw [hins']
        exact R.special _ hk
      · rw [AL.get_set_ne _ _ hkk]
        exact R.special k' hk'

end Ord.Index
