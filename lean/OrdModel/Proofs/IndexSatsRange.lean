import OrdModel.Proofs.IndexSatsFind
/-
`find_range`: every hit it returns is a genuine overlap — a run of consecutive sats of the
requested range sitting at consecutive offsets of the reported satpoint — and the sizes of the
hits account exactly for the decrease of `remaining_sats`.
-/
namespace Ord.Index
open Outcome

/-- what a correct hit is, relative to one entry's ranges scanned from `offset` -/
def HitOk (rs re : Nat) (op : OutPoint) (ranges : Ranges) (offset : Nat) (x : FindRangeOutput) : Prop :=
  x.satpoint.outpoint = op ∧ rs ≤ x.start ∧ x.start + x.size ≤ re ∧
  ∃ i, x.satpoint.offset = offset + i ∧ ∀ k, k < x.size → (den ranges)[i + k]? = some (x.start + k)

theorem findRangeEntry_sound (rs re : Nat) (hle : rs ≤ re) (op : OutPoint) (ranges : Ranges)
    (offset remaining r : Nat) (hits : List FindRangeOutput)
    (h : findRangeEntry rs re op ranges offset remaining = .ok (r, hits)) :
    (hits.map (·.size)).sum + r = remaining ∧ ∀ x ∈ hits, HitOk rs re op ranges offset x := by
  induction ranges generalizing offset remaining r hits with
  | nil =>
    simp only [findRangeEntry, Outcome.ok.injEq, Prod.mk.injEq] at h
    obtain ⟨rfl, rfl⟩ := h
    simp
  | cons rg rest ih =>
    obtain ⟨s, e⟩ := rg
    simp only [findRangeEntry] at h
    split at h
    · rename_i hov
      -- the hit of this range
      have hhit : HitOk rs re op ((s, e) :: rest) offset
          ⟨max s rs, min e re - max s rs, ⟨op, offset + max s rs - s⟩⟩ := by
        unfold HitOk
        dsimp only
        refine ⟨rfl, by omega, by omega, max s rs - s, by omega, ?_⟩
        intro k hk
        rw [den_cons, List.getElem?_append_left (by simp; omega)]
        rw [List.getElem?_range' (by omega)]
        congr 1; omega
      split at h
      · cases h
      · rename_i hrem
        split at h
        · rename_i hz
          simp only [Outcome.ok.injEq, Prod.mk.injEq] at h
          obtain ⟨rfl, rfl⟩ := h
          refine ⟨by simp; omega, ?_⟩
          intro x hx
          simp only [List.mem_singleton] at hx
          subst hx; exact hhit
        · split at h
          · rename_i r' hits' hrec
            simp only [Outcome.ok.injEq, Prod.mk.injEq] at h
            obtain ⟨rfl, rfl⟩ := h
            obtain ⟨hsum, hall⟩ := ih _ _ _ _ hrec
            refine ⟨by simp only [List.map_cons, List.sum_cons]; omega, ?_⟩
            intro x hx
            rcases List.mem_cons.mp hx with rfl | hx
            · exact hhit
            · obtain ⟨h1, h2, h3, i, hi, hk⟩ := hall x hx
              refine ⟨h1, h2, h3, (e - s) + i, by omega, ?_⟩
              intro k hk'
              rw [den_cons, List.getElem?_append_right (by simp; omega)]
              have := hk k hk'
              simpa [Nat.add_assoc] using this
          · cases h
          · cases h
    · obtain ⟨hsum, hall⟩ := ih _ _ _ _ h
      refine ⟨hsum, ?_⟩
      intro x hx
      obtain ⟨h1, h2, h3, i, hi, hk⟩ := hall x hx
      refine ⟨h1, h2, h3, (e - s) + i, by omega, ?_⟩
      intro k hk'
      rw [den_cons, List.getElem?_append_right (by simp; omega)]
      have := hk k hk'
      simpa [Nat.add_assoc] using this

/-- a correct hit relative to the whole table: `size` consecutive sats from `start`, inside the
requested range, at consecutive offsets of the reported satpoint -/
def HitAt (rs re : Nat) (u : List (OutPoint × UtxoEntry)) (x : FindRangeOutput) : Prop :=
  rs ≤ x.start ∧ x.start + x.size ≤ re ∧
  ∀ k, k < x.size → SatAt u (x.start + k) ⟨x.satpoint.outpoint, x.satpoint.offset + k⟩

theorem findRangeUtxo_sound (rs re : Nat) (hle : rs ≤ re) (u : List (OutPoint × UtxoEntry))
    (remaining : Nat) (hits : List FindRangeOutput)
    (h : findRangeUtxo rs re u remaining = .ok hits) :
    (hits.map (·.size)).sum ≤ remaining ∧ ∀ x ∈ hits, HitAt rs re u x := by
  induction u generalizing remaining hits with
  | nil =>
    simp only [findRangeUtxo, Outcome.ok.injEq] at h
    subst h; simp
  | cons q u ih =>
    obtain ⟨op, e⟩ := q
    simp only [findRangeUtxo] at h
    split at h
    · cases h
    · cases h
    · rename_i r hs hent
      obtain ⟨hsum, hall⟩ := findRangeEntry_sound rs re hle op e.ranges 0 remaining r hs hent
      split at h
      · rename_i more hrec
        simp only [Outcome.ok.injEq] at h
        subst h
        obtain ⟨hsum2, hall2⟩ := ih _ _ hrec
        refine ⟨by simp only [List.map_append, List.sum_append]; omega, ?_⟩
        intro x hx
        rcases List.mem_append.mp hx with hx | hx
        · obtain ⟨h1, h2, h3, i, hi, hk⟩ := hall x hx
          refine ⟨h2, h3, fun k hk' => ⟨e, by simp [h1], ?_⟩⟩
          have := hk k hk'
          simpa [hi] using this
        · obtain ⟨h2, h3, hk⟩ := hall2 x hx
          refine ⟨h2, h3, fun k hk' => ?_⟩
          obtain ⟨e', hm, hs'⟩ := hk k hk'
          exact ⟨e', by simp [hm], hs'⟩
      · cases h
      · cases h

end Ord.Index
