import OrdModel.Proofs.IndexInsnumUloc
/-
Group `insnum`, C05: the numbering invariant through the two loops of `index_inscriptions` that call
`update_inscription_location` (`applyLocations`: flotsam landing in outputs; `applyLost`: flotsam
lost at the coinbase), for a flotsam list whose new ids are pairwise distinct and not yet entry ids.
-/
namespace Ord.Index.Insnum
open Ord.Index Ord.Outcome

def newIds (fls : List Flotsam) : List InscriptionId := (fls.filter isNew).map (·.id)

theorem newIds_cons (f : Flotsam) (fls : List Flotsam) :
    newIds (f :: fls) = (if isNew f then [f.id] else []) ++ newIds fls := by
  unfold newIds
  by_cases h : isNew f = true <;> simp [List.filter_cons, h]

theorem fresh_of_not_mem {es : List InsEntry} {id : InscriptionId} (h : id ∉ es.map (·.id)) :
    ∀ (i : Nat) (e' : InsEntry), es[i]? = some e' → e'.id ≠ id := by
  intro i e' hi heq
  exact h (List.mem_map.2 ⟨e', List.mem_of_getElem? hi, heq⟩)

/-- generic loop lemma: any loop that calls `update_inscription_location` once per element -/
theorem loop_inv5 {α : Type} (fl : α → Flotsam) (loop : List α → LocState → Outcome LocState)
    (hnil : ∀ ls, loop [] ls = .ok ls)
    (hcons : ∀ a rest ls ls', loop (a :: rest) ls = .ok ls' → ∃ (cfg : Cfg) (height time : Nat) (ir : Option (List (Nat × Nat)))
      (sp : SatPoint) (opr : Bool) (tgt : Target) (ls1 : LocState),
      updateInscriptionLocation cfg height time ir (fl a) sp opr tgt ls = .ok ls1 ∧ loop rest ls1 = .ok ls') :
    ∀ (l : List α) (ls ls' : LocState), loop l ls = .ok ls' → Inv5T (tabs ls.st) →
      (newIds (l.map fl)).Nodup → (∀ id ∈ newIds (l.map fl), id ∉ ls.st.entries.map (·.id)) →
      Inv5T (tabs ls'.st) ∧ ls'.st.entries.map (·.id) = ls.st.entries.map (·.id) ++ newIds (l.map fl) := by
  intro l
  induction l with
  | nil =>
    intro ls ls' h hinv _ _
    rw [hnil] at h
    simp only [Outcome.ok.injEq] at h
    subst h
    exact ⟨hinv, by simp [newIds]⟩
  | cons a rest ih =>
    intro ls ls' h hinv hnd hfr
    obtain ⟨cfg, height, time, ir, sp, opr, tgt, ls1, hu, hrest⟩ := hcons a rest ls ls' h
    rw [List.map_cons, newIds_cons] at hnd hfr
    have hfresh : isNew (fl a) = true → ∀ (i : Nat) (e' : InsEntry), ls.st.entries[i]? = some e' → e'.id ≠ (fl a).id := by
      intro hn
      exact fresh_of_not_mem (hfr _ (by simp [hn]))
    obtain ⟨hinv1, hids1⟩ := uloc_inv5 hu hinv hfresh
    have hnd' : (newIds (rest.map fl)).Nodup := (List.nodup_append.1 hnd).2.1
    have hfr' : ∀ id ∈ newIds (rest.map fl), id ∉ ls1.st.entries.map (·.id) := by
      intro id hid hmem
      rw [hids1, List.mem_append] at hmem
      rcases hmem with hmem | hmem
      · exact hfr id (List.mem_append_right _ hid) hmem
      · exact (List.nodup_append.1 hnd).2.2 id hmem id hid rfl
    obtain ⟨hinv', hids'⟩ := ih ls1 ls' hrest hinv1 hnd' hfr'
    refine ⟨hinv', ?_⟩
    rw [hids', hids1, List.map_cons, newIds_cons, List.append_assoc]

theorem applyLocations_inv5 (cfg : Cfg) (height time : Nat) (ir : Option (List (Nat × Nat)))
    (locs : List (SatPoint × Flotsam × Bool)) (ls ls' : LocState)
    (h : applyLocations cfg height time ir locs ls = .ok ls') (hinv : Inv5T (tabs ls.st))
    (hnd : (newIds (locs.map (·.2.1))).Nodup)
    (hfr : ∀ id ∈ newIds (locs.map (·.2.1)), id ∉ ls.st.entries.map (·.id)) :
    Inv5T (tabs ls'.st) ∧ ls'.st.entries.map (·.id) = ls.st.entries.map (·.id) ++ newIds (locs.map (·.2.1)) := by
  refine loop_inv5 (·.2.1) (applyLocations cfg height time ir) (fun _ => rfl) ?_ locs ls ls' h hinv hnd hfr
  intro a rest ls ls' h
  obtain ⟨sp, fl, opr⟩ := a
  simp only [applyLocations] at h
  split at h
  · exact absurd h (by simp)
  · exact absurd h (by simp)
  · rename_i ls1 hu
    exact ⟨cfg, height, time, ir, sp, opr, _, ls1, hu, h⟩

theorem applyLost_inv5 (cfg : Cfg) (height time : Nat) (ir : Option (List (Nat × Nat))) (outputValue : Nat)
    (fls : List Flotsam) (ls ls' : LocState)
    (h : applyLost cfg height time ir outputValue fls ls = .ok ls') (hinv : Inv5T (tabs ls.st))
    (hnd : (newIds fls).Nodup) (hfr : ∀ id ∈ newIds fls, id ∉ ls.st.entries.map (·.id)) :
    Inv5T (tabs ls'.st) ∧ ls'.st.entries.map (·.id) = ls.st.entries.map (·.id) ++ newIds fls := by
  have := loop_inv5 id (applyLost cfg height time ir outputValue) (fun _ => rfl) ?_ fls ls ls' h hinv
    (by simpa using hnd) (by simpa using hfr)
  · simpa using this
  · intro a rest ls ls' h
    simp only [applyLost] at h
    split at h
    · exact absurd h (by simp)
    · exact absurd h (by simp)
    · rename_i ls1 hu
      exact ⟨cfg, height, time, ir, _, false, _, ls1, hu, h⟩

end Ord.Index.Insnum
