import OrdModel.Proofs.IndexLiftInsNum
/-
Lift of the inscription-side invariants, part 8 (C05): the numbering / jubilee invariants through
`indexTx`, a block and the chain.  Only hypothesis on the chain: pairwise distinct txids.
-/
namespace Ord.Index.InsLift
open Ord Ord.Index Outcome Sched Insloc Insnum

theorem tabs_of_core {a b : State} (h : core a = core b) : tabs a = tabs b := by
  have := congrArg tabs h; exact this

theorem tabs_of_insCore {a b : State} (h : insCore a = insCore b) : tabs a = tabs b := by
  have := congrArg tabs h; exact this

theorem NumInv.congr {jubH height : Nat} {st st' : State} {ctx ctx' : InsCtx} (h : NumInv jubH height st ctx)
    (ht : tabs st' = tabs st) (hc : ctx'.flotsam = ctx.flotsam) : NumInv jubH height st' ctx' := by
  have he : st'.entries = st.entries := congrArg Tabs.entries ht
  exact ⟨by rw [ht]; exact h.inv5, by rw [he]; exact h.jinv, by rw [hc]; exact h.nodup,
    by rw [hc, he]; exact h.fresh, by rw [hc]; exact h.flj⟩

/-- block-context invariant for the numbering side; `seen` = txids indexed so far -/
structure NInv (cfg : Cfg) (height : Nat) (seen : List Txid) (bc : BlockCtx) : Prop where
  num : NumInv cfg.jubileeHeight height bc.st bc.ins
  prov : ∀ id ∈ bc.st.entries.map (·.id) ++ newIds bc.ins.flotsam, id.txid ∈ seen

theorem indexTx_ninv (cfg : Cfg) (blk : Block) (insOn : Bool) (txOffset : Nat) (tx : Tx) (seen : List Txid)
    (bc bc' : BlockCtx) (hfresh : tx.txid ∉ seen) (hinv : NInv cfg blk.height seen bc)
    (h : indexTx cfg blk insOn txOffset tx bc = .ok bc') : NInv cfg blk.height (tx.txid :: seen) bc' := by
  obtain ⟨bc1, inputs, bc3, outs3, hin, hmid, rfl⟩ := indexTx_decomp _ _ _ _ _ _ _ h
  have hin' : bc1.ins = bc.ins ∧ tabs bc1.st = tabs bc.st := by
    by_cases hz : txOffset = 0
    · simp only [hz, if_true] at hin
      obtain ⟨rfl, rfl⟩ := hin
      exact ⟨rfl, rfl⟩
    · simp only [hz, if_false] at hin
      obtain ⟨i1, i2, _⟩ := takeInputEntries_basic _ _ _ _ _ _ hin
      exact ⟨i1, tabs_of_core i2⟩
  obtain ⟨hins1, htabs1⟩ := hin'
  have hent1 : bc1.st.entries = bc.st.entries := congrArg Tabs.entries htabs1
  obtain ⟨m, outs2, ir, _, _, _, hcase⟩ := indexTxMid_cases _ _ _ _ _ _ _ _ _ hmid
  cases hi : insOn with
  | false =>
    simp only [hi, Bool.false_eq_true, if_false] at hcase
    obtain ⟨hst, hins3, _⟩ := hcase
    have ht3 : tabs bc3.st = tabs bc.st := by rw [hst]; exact htabs1
    have he3 : bc3.st.entries = bc.st.entries := congrArg Tabs.entries ht3
    refine ⟨hinv.num.congr ht3 (by show bc3.ins.flotsam = _; rw [hins3, hins1]), ?_⟩
    intro id hid
    have : id ∈ bc.st.entries.map (·.id) ++ newIds bc.ins.flotsam := by
      have hid' : id ∈ bc3.st.entries.map (·.id) ++ newIds bc3.ins.flotsam := hid
      rwa [he3, hins3, hins1] at hid'
    exact List.mem_cons_of_mem _ (hinv.prov id this)
  | true =>
    simp only [hi, if_true] at hcase
    obtain ⟨ls', hls, hst, hins3, _⟩ := hcase
    have hnum0 : NumInv cfg.jubileeHeight blk.height { bc1.st with sat2sp := m } bc1.ins :=
      hinv.num.congr (by rw [show tabs { bc1.st with sat2sp := m } = tabs bc1.st from rfl, htabs1]) (by rw [hins1])
    obtain ⟨r1, r2⟩ := indexInscriptions_numInv cfg blk.height blk.time tx inputs ir _ ls' hnum0
      (by
        intro id hid hcon
        have hid' : id ∈ bc.st.entries.map (·.id) ++ newIds bc.ins.flotsam := by
          have : id ∈ bc1.st.entries.map (·.id) ++ newIds bc1.ins.flotsam := hid
          rwa [hent1, hins1] at this
        exact hfresh (hcon ▸ hinv.prov id hid'))
      hls
    refine ⟨?_, ?_⟩
    · show NumInv _ _ bc3.st bc3.ins
      rw [hst, hins3]; exact r1
    · intro id hid
      have hid' : id ∈ ls'.st.entries.map (·.id) ++ newIds ls'.ctx.flotsam := by
        have : id ∈ bc3.st.entries.map (·.id) ++ newIds bc3.ins.flotsam := hid
        rwa [hst, hins3] at this
      rcases r2 id hid' with h1 | h1
      · have : id ∈ bc.st.entries.map (·.id) ++ newIds bc.ins.flotsam := by
          have h1' : id ∈ bc1.st.entries.map (·.id) ++ newIds bc1.ins.flotsam := h1
          rwa [hent1, hins1] at h1'
        exact List.mem_cons_of_mem _ (hinv.prov id this)
      · rw [h1]; exact List.mem_cons_self

theorem indexTxs_ninv (cfg : Cfg) (blk : Block) (insOn : Bool) (l : List (Nat × Tx)) (seen : List Txid)
    (hnd : (l.map (·.2.txid)).Nodup) (hfresh : ∀ p ∈ l, p.2.txid ∉ seen)
    (bc bc' : BlockCtx) (hinv : NInv cfg blk.height seen bc)
    (h : indexTxs cfg blk insOn l bc = .ok bc') : NInv cfg blk.height (seenAfter l seen) bc' := by
  induction l generalizing seen bc with
  | nil =>
    simp only [indexTxs, Outcome.ok.injEq] at h
    subst h
    simpa [seenAfter] using hinv
  | cons p rest ih =>
    obtain ⟨i, tx⟩ := p
    simp only [indexTxs] at h
    split at h
    · cases h
    · cases h
    · rename_i bc1 h1
      simp only [List.map_cons, List.nodup_cons] at hnd
      have n1 := indexTx_ninv cfg blk insOn i tx seen bc bc1 (hfresh (i, tx) List.mem_cons_self) hinv h1
      have := ih (tx.txid :: seen) hnd.2
        (fun p hp => by
          intro hcon
          rcases List.mem_cons.1 hcon with hc | hc
          · exact hnd.1 (List.mem_map.2 ⟨p, hp, hc⟩)
          · exact hfresh p (List.mem_cons_of_mem _ hp) hc)
        bc1 n1 h
      simpa [seenAfter] using this

/-! ### block boundaries -/

/-- the numbering-side invariant at block boundaries: `Inv5`, cursed entries are older than the
jubilee, and every entry id carries the txid of an indexed transaction -/
structure N5 (cfg : Cfg) (seen : List Txid) (st : State) : Prop where
  inv5 : Inv5T (tabs st)
  jinv : JInv cfg.jubileeHeight st.entries
  prov : ∀ id ∈ st.entries.map (·.id), id.txid ∈ seen

theorem N5.congr {cfg : Cfg} {seen seen' : List Txid} {a b : State} (h : N5 cfg seen a) (ht : tabs b = tabs a)
    (hs : ∀ t ∈ seen, t ∈ seen') : N5 cfg seen' b := by
  have he : b.entries = a.entries := congrArg Tabs.entries ht
  exact ⟨by rw [ht]; exact h.inv5, by rw [he]; exact h.jinv, by rw [he]; exact fun id hid => hs _ (h.prov id hid)⟩

theorem endState_tabs (cfg : Cfg) (blk : Block) (insOn : Bool) (bc : BlockCtx) :
    tabs (endState cfg blk insOn bc).1 = tabs bc.st := by
  unfold endState
  cases insOn <;> cases bc.lostRanges.isEmpty <;> rfl

theorem blockOrder_perm (blk : Block) : ((blockOrder blk).map (·.2)).Perm blk.txs := by
  unfold blockOrder
  rw [List.map_append, List.map_drop, List.map_take, enumFrom_map_snd]
  exact List.perm_append_comm.trans (by rw [List.take_append_drop])

theorem applyBlock_n5 (cfg : Cfg) (seen : List Txid) (st : State) (blk : Block) (st' : State) (ev : List Event)
    (hnd : (blk.txs.map (·.txid)).Nodup) (hfresh : ∀ t ∈ blk.txs.map (·.txid), t ∉ seen)
    (hS : N5 cfg seen st) (h : applyBlock cfg st blk = .ok (st', ev)) :
    N5 cfg (blk.txs.map (·.txid) ++ seen) st' := by
  unfold applyBlock at h
  cases hflags : (cfg.indexInscriptions || cfg.indexAddresses || cfg.indexSats) with
  | false =>
    simp only [hflags, Bool.false_eq_true, if_false] at h
    have hc := applyBlock_after cfg blk st [] st' ev h
    exact hS.congr (tabs_of_insCore hc) (fun t ht => List.mem_append_right _ ht)
  | true =>
    simp only [hflags, if_true] at h
    cases hu : indexUtxoEntries cfg st blk with
    | panic e => rw [hu] at h; cases h
    | err e => rw [hu] at h; cases h
    | ok r =>
      obtain ⟨a1, ev1⟩ := r
      rw [hu] at h
      simp only at h
      have hc := applyBlock_after cfg blk a1 ev1 st' ev h
      rw [indexUtxoEntries_eq] at hu
      cases ht : indexTxs cfg blk (insOnOf cfg blk) (blockOrder blk) (bc0A cfg st blk) with
      | panic e => rw [ht] at hu; cases hu
      | err e => rw [ht] at hu; cases hu
      | ok bc =>
        rw [ht] at hu
        simp only [Outcome.ok.injEq, Prod.mk.injEq] at hu
        obtain ⟨ha1, _⟩ := hu
        have hperm := blockOrder_perm blk
        have hpt : ((blockOrder blk).map (·.2.txid)).Perm (blk.txs.map (·.txid)) := by
          have := hperm.map (·.txid)
          simpa [List.map_map, Function.comp_def] using this
        have hstart : NInv cfg blk.height seen (bc0A cfg st blk) := by
          refine ⟨⟨hS.inv5, hS.jinv, by simp [bc0A, newIds], by simp [bc0A, newIds], by simp [bc0A, FlJ]⟩, ?_⟩
          intro id hid
          simp only [bc0A, newIds, List.filter_nil, List.map_nil, List.append_nil] at hid
          exact hS.prov id hid
        have n := indexTxs_ninv cfg blk (insOnOf cfg blk) (blockOrder blk) seen (hpt.nodup_iff.2 hnd)
          (fun p hp => hfresh _ (hpt.mem_iff.1 (List.mem_map.2 ⟨p, hp, rfl⟩))) _ bc hstart ht
        have ht1 : tabs a1 = tabs bc.st := by
          rw [← ha1, tabs_of_core (flushCache_core cfg _ _), endState_tabs]
        have hts : tabs st' = tabs bc.st := (tabs_of_insCore hc).trans ht1
        have hes : st'.entries = bc.st.entries := congrArg Tabs.entries hts
        refine ⟨by rw [hts]; exact n.num.inv5, by rw [hes]; exact n.num.jinv, ?_⟩
        intro id hid
        rw [hes] at hid
        have := n.prov id (List.mem_append_left _ hid)
        rw [mem_seenAfter] at this
        rcases this with h1 | h1
        · exact List.mem_append_right _ h1
        · exact List.mem_append_left _ (hpt.mem_iff.1 h1)

/-! ### the chain -/

theorem chainTxids_append' (a b : List Block) : Sched.chainTxids (a ++ b) = Sched.chainTxids a ++ Sched.chainTxids b := by
  simp [Sched.chainTxids]

theorem N5.init (cfg : Cfg) : N5 cfg [] {} :=
  ⟨inv5_empty, (fun e he => by cases he), (fun id hid => by cases hid)⟩

/-- **C05 on every reachable state**: for every chain whose txids are pairwise distinct, the state
after the chain satisfies the numbering invariant, the jubilee discipline, and every inscription id
carries the txid of a transaction of the chain. -/
theorem run_n5 (cfg : Cfg) (chain : List Block) (st : State) (evs : List Event)
    (hc : (Sched.chainTxids chain).Nodup) (h : run cfg chain = .ok (st, evs)) : N5 cfg (Sched.chainTxids chain) st := by
  have := run_induct cfg (fun pre st _ => (Sched.chainTxids pre).Nodup → N5 cfg (Sched.chainTxids pre) st) ?_ ?_ chain st evs h
  · exact this hc
  · intro _; exact N5.init cfg
  · intro pre st evs b st' ev' hP hb hq
    rw [chainTxids_append'] at hq
    have hq' := List.nodup_append.1 hq
    have hbt : Sched.chainTxids [b] = b.txs.map (·.txid) := by simp [Sched.chainTxids]
    rw [hbt] at hq'
    have n := applyBlock_n5 cfg (Sched.chainTxids pre) st b st' ev' hq'.2.1
      (fun t ht hs => hq'.2.2 t hs t ht rfl) (hP hq'.1) hb
    rw [chainTxids_append', hbt]
    exact n.congr rfl (fun t ht => by
      rcases List.mem_append.1 ht with h1 | h1
      · exact List.mem_append_right _ h1
      · exact List.mem_append_left _ h1)

end Ord.Index.InsLift
