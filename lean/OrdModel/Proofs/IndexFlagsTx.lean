import OrdModel.Proofs.IndexFlagsIns
import OrdModel.Proofs.IndexSchedBlock
import OrdModel.Proofs.IndexSatsTx
import OrdModel.Proofs.IndexMiscAddrFrame
/-
C15 helper lemmas 3: one transaction of `index_utxo_entries` (`indexTx`) under the simulation.
The UTXO tables of the two runs are related entry-wise for real outpoints (as a mapped list) and
only through their inscription lists for the two special outpoints.
-/
namespace Ord.Index
open Outcome Sched

/-! ### association lists under key filters and value maps -/
namespace AL
variable {κ ν μ : Type} [BEq κ] [LawfulBEq κ]

theorem get_mapv (f : ν → μ) (l : List (κ × ν)) (k : κ) :
    get (l.map (fun p => (p.1, f p.2))) k = (get l k).map f := by
  induction l with
  | nil => rfl
  | cons p rest ih =>
    obtain ⟨k0, v0⟩ := p
    simp only [List.map_cons, get]
    split
    · rfl
    · exact ih

theorem erase_mapv (f : ν → μ) (l : List (κ × ν)) (k : κ) :
    erase (l.map (fun p => (p.1, f p.2))) k = (erase l k).map (fun p => (p.1, f p.2)) := by
  induction l with
  | nil => rfl
  | cons p rest ih =>
    obtain ⟨k0, v0⟩ := p
    simp only [List.map_cons, erase]
    split
    · rfl
    · simp [ih]

theorem set_mapv (f : ν → μ) (l : List (κ × ν)) (k : κ) (v : ν) :
    set (l.map (fun p => (p.1, f p.2))) k (f v) = (set l k v).map (fun p => (p.1, f p.2)) := by
  induction l with
  | nil => rfl
  | cons p rest ih =>
    obtain ⟨k0, v0⟩ := p
    simp only [List.map_cons, set]
    split
    · rfl
    · simp [ih]

theorem get_filterk (q : κ → Bool) (l : List (κ × ν)) (k : κ) (hk : q k = true) :
    get (l.filter (fun p => q p.1)) k = get l k := by
  induction l with
  | nil => rfl
  | cons p rest ih =>
    obtain ⟨k0, v0⟩ := p
    simp only [List.filter_cons]
    by_cases h0 : (k0 == k) = true
    · have : k0 = k := by simpa using h0
      subst this
      simp [hk, get]
    · by_cases hq : q k0 = true
      · simp [hq, get, h0, ih]
      · simp [hq, get, h0, ih]

theorem erase_filterk (q : κ → Bool) (l : List (κ × ν)) (k : κ) (hk : q k = true) :
    erase (l.filter (fun p => q p.1)) k = (erase l k).filter (fun p => q p.1) := by
  induction l with
  | nil => rfl
  | cons p rest ih =>
    obtain ⟨k0, v0⟩ := p
    simp only [List.filter_cons]
    by_cases h0 : (k0 == k) = true
    · have : k0 = k := by simpa using h0
      subst this
      simp [hk, erase]
    · by_cases hq : q k0 = true
      · simp [hq, erase, h0, ih]
      · simp [hq, erase, h0, ih]

theorem set_filterk (q : κ → Bool) (l : List (κ × ν)) (k : κ) (v : ν) (hk : q k = true) :
    set (l.filter (fun p => q p.1)) k v = (set l k v).filter (fun p => q p.1) := by
  induction l with
  | nil => simp [set, hk]
  | cons p rest ih =>
    obtain ⟨k0, v0⟩ := p
    simp only [List.filter_cons]
    by_cases h0 : (k0 == k) = true
    · have : k0 = k := by simpa using h0
      subst this
      simp [hk, set]
    · by_cases hq : q k0 = true
      · simp [hq, set, h0, ih]
      · simp [hq, set, h0, ih]

theorem set_filterk_not (q : κ → Bool) (l : List (κ × ν)) (k : κ) (v : ν) (hk : q k = false) :
    (set l k v).filter (fun p => q p.1) = l.filter (fun p => q p.1) := by
  induction l with
  | nil => simp [set, hk]
  | cons p rest ih =>
    obtain ⟨k0, v0⟩ := p
    by_cases h0 : (k0 == k) = true
    · have : k0 = k := by simpa using h0
      subst this
      simp [hk, set]
    · by_cases hq : q k0 = true
      · simp [set, h0, ih, hq]
      · simp [set, h0, ih, hq]

end AL

/-! ### the relation between the UTXO tables -/

def regKey (op : OutPoint) : Bool := !op.isSpecial

def stripKV (cfg : Cfg) (p : OutPoint × UtxoEntry) : OutPoint × UtxoEntry := (p.1, stripUtxo cfg p.2)

theorem stripKV_eq (cfg : Cfg) : stripKV cfg = fun p => (p.1, stripUtxo cfg p.2) := rfl

def insOf : Option UtxoEntry → List (Nat × Nat)
  | some e => e.ins
  | none => []

structure UtxoRel (cfg : Cfg) (u u₀ : List (OutPoint × UtxoEntry)) : Prop where
  regular : (u.filter (fun p => regKey p.1)).map (stripKV cfg) = u₀.filter (fun p => regKey p.1)
  special : ∀ k : OutPoint, k.isSpecial = true → insOf (AL.get u k) = insOf (AL.get u₀ k)

theorem regKey_of_txid {op : OutPoint} (h : op.txid ≠ 0) : regKey op = true := by
  simp [regKey, OutPoint.isSpecial, h]

theorem ne_of_reg_special {op k : OutPoint} (h : regKey op = true) (hk : k.isSpecial = true) : op ≠ k := by
  intro e; subst e; simp [regKey, hk] at h

theorem UtxoRel.get_reg {cfg : Cfg} {u u₀ : List (OutPoint × UtxoEntry)} (R : UtxoRel cfg u u₀) (op : OutPoint)
    (h : regKey op = true) : AL.get u₀ op = (AL.get u op).map (stripUtxo cfg) := by
  rw [← AL.get_filterk regKey u₀ op h, ← R.regular, ← AL.get_filterk regKey u op h]
  exact AL.get_mapv (stripUtxo cfg) _ op

theorem UtxoRel.erase_reg {cfg : Cfg} {u u₀ : List (OutPoint × UtxoEntry)} (R : UtxoRel cfg u u₀) (op : OutPoint)
    (h : regKey op = true) : UtxoRel cfg (AL.erase u op) (AL.erase u₀ op) := by
  refine ⟨?_, ?_⟩
  · rw [← AL.erase_filterk regKey u op h, ← AL.erase_filterk regKey u₀ op h, ← R.regular]
    exact (AL.erase_mapv (stripUtxo cfg) _ op).symm
  · intro k hk
    rw [AL.get_erase_ne u (ne_of_reg_special h hk), AL.get_erase_ne u₀ (ne_of_reg_special h hk)]
    exact R.special k hk

theorem UtxoRel.set_reg {cfg : Cfg} {u u₀ : List (OutPoint × UtxoEntry)} (R : UtxoRel cfg u u₀) (op : OutPoint)
    (e : UtxoEntry) (h : regKey op = true) : UtxoRel cfg (AL.set u op e) (AL.set u₀ op (stripUtxo cfg e)) := by
  refine ⟨?_, ?_⟩
  · rw [← AL.set_filterk regKey u op e h, ← AL.set_filterk regKey u₀ op _ h, ← R.regular]
    exact (AL.set_mapv (stripUtxo cfg) _ op e).symm
  · intro k hk
    rw [AL.get_set_ne u e (ne_of_reg_special h hk), AL.get_set_ne u₀ _ (ne_of_reg_special h hk)]
    exact R.special k hk

/-! ### the block context of the base run -/

def stripCache (cfg : Cfg) (c : Cache) : Cache := c.map (stripKV cfg)

/-- the block context of the run without optional indexes: tables erased, UTXO table `u₀` -/
def mkB (cfg : Cfg) (bc : BlockCtx) (u₀ : List (OutPoint × UtxoEntry)) : BlockCtx :=
  { st := stripW u₀ bc.st, cache := stripCache cfg bc.cache, coinbaseInputs := [], lostRanges := [],
    ins := stripCtx bc.ins }

def CacheReg (c : Cache) : Prop := ∀ p ∈ c, regKey p.1 = true

theorem mem_erase_sub {κ ν : Type} [BEq κ] (l : List (κ × ν)) (k : κ) (p : κ × ν) (h : p ∈ AL.erase l k) : p ∈ l := by
  induction l with
  | nil => simp [AL.erase] at h
  | cons q rest ih =>
    obtain ⟨k0, v0⟩ := q
    simp only [AL.erase] at h
    split at h
    · exact List.mem_cons_of_mem _ h
    · rcases List.mem_cons.mp h with h | h
      · exact h ▸ List.mem_cons_self
      · exact List.mem_cons_of_mem _ (ih h)

theorem takeOne_sim (cfg : Cfg) (bc : BlockCtx) (u₀ : List (OutPoint × UtxoEntry)) (i : TxIn)
    (hi : i.prev.txid ≠ 0) (R : UtxoRel cfg bc.st.utxo u₀) (bc' : BlockCtx) (e : UtxoEntry)
    (h : takeOne cfg bc i = .ok (bc', e)) :
    ∃ u₀', takeOne cfg.base (mkB cfg bc u₀) i = .ok (mkB cfg bc' u₀', stripUtxo cfg e) ∧
      UtxoRel cfg bc'.st.utxo u₀' ∧ (CacheReg bc.cache → CacheReg bc'.cache) := by
  have hreg := regKey_of_txid hi
  unfold takeOne at h ⊢
  have hc : AL.get (mkB cfg bc u₀).cache i.prev = (AL.get bc.cache i.prev).map (stripUtxo cfg) :=
    AL.get_mapv (stripUtxo cfg) bc.cache i.prev
  rw [hc]
  cases hg : AL.get bc.cache i.prev with
  | some e0 =>
    rw [hg] at h
    simp only [Outcome.ok.injEq, Prod.mk.injEq] at h
    obtain ⟨rfl, rfl⟩ := h
    refine ⟨u₀, ?_, R, ?_⟩
    · simp only [Option.map_some, mkB, stripCache, stripKV_eq]
      rw [AL.erase_mapv (stripUtxo cfg) bc.cache i.prev]
    · intro hcr p hp
      exact hcr p (mem_erase_sub bc.cache i.prev p hp)
  | none =>
    rw [hg] at h
    simp only [Option.map_none]
    have hu : AL.get (mkB cfg bc u₀).st.utxo i.prev = (AL.get bc.st.utxo i.prev).map (stripUtxo cfg) :=
      R.get_reg i.prev hreg
    rw [hu]
    cases hg2 : AL.get bc.st.utxo i.prev with
    | none => rw [hg2] at h; simp at h
    | some e0 =>
      rw [hg2] at h
      simp only [Option.map_some]
      have hb : cfg.base.indexAddresses = false := rfl
      simp only [hb, Bool.false_eq_true, if_false]
      by_cases ha : cfg.indexAddresses = true
      · simp only [ha, if_true] at h
        split at h
        · simp only [Outcome.ok.injEq, Prod.mk.injEq] at h
          obtain ⟨rfl, rfl⟩ := h
          exact ⟨AL.erase u₀ i.prev, rfl, R.erase_reg i.prev hreg, id⟩
        · simp at h
      · simp only [ha, Bool.false_eq_true, if_false, Outcome.ok.injEq, Prod.mk.injEq] at h
        obtain ⟨rfl, rfl⟩ := h
        exact ⟨AL.erase u₀ i.prev, rfl, R.erase_reg i.prev hreg, id⟩

theorem stripInputs_append (cfg : Cfg) (a b : List (TxIn × UtxoEntry)) :
    stripInputs cfg (a ++ b) = stripInputs cfg a ++ stripInputs cfg b := by
  simp [stripInputs]

theorem takeInputEntries_sim (cfg : Cfg) : ∀ (ins : List TxIn) (bc : BlockCtx) (u₀ : List (OutPoint × UtxoEntry))
    (acc : List (TxIn × UtxoEntry)) (bc' : BlockCtx) (acc' : List (TxIn × UtxoEntry)),
    (∀ i ∈ ins, i.prev.txid ≠ 0) → UtxoRel cfg bc.st.utxo u₀ →
    takeInputEntries cfg ins bc acc = .ok (bc', acc') →
    ∃ u₀', takeInputEntries cfg.base ins (mkB cfg bc u₀) (stripInputs cfg acc) =
        .ok (mkB cfg bc' u₀', stripInputs cfg acc') ∧
      UtxoRel cfg bc'.st.utxo u₀' ∧ (CacheReg bc.cache → CacheReg bc'.cache)
  | [], bc, u₀, acc, bc', acc', _, R, h => by
    simp only [takeInputEntries, Outcome.ok.injEq, Prod.mk.injEq] at h
    obtain ⟨rfl, rfl⟩ := h
    exact ⟨u₀, by simp [takeInputEntries], R, id⟩
  | i :: rest, bc, u₀, acc, bc', acc', hins, R, h => by
    rw [takeInputEntries_cons] at h ⊢
    cases ht : takeOne cfg bc i with
    | panic s => rw [ht] at h; simp at h
    | err e => rw [ht] at h; simp at h
    | ok r =>
      obtain ⟨bc1, e⟩ := r
      rw [ht] at h
      dsimp only at h
      obtain ⟨u1, h1, R1, c1⟩ := takeOne_sim cfg bc u₀ i (hins i List.mem_cons_self) R bc1 e ht
      rw [h1]
      dsimp only
      obtain ⟨u2, h2, R2, c2⟩ := takeInputEntries_sim cfg rest bc1 u1 (acc ++ [(i, e)]) bc' acc'
        (fun j hj => hins j (List.mem_cons_of_mem _ hj)) R1 h
      refine ⟨u2, ?_, R2, fun hc => c2 (c1 hc)⟩
      rw [stripInputs_append] at h2
      exact h2

/-! ### the output entries -/

theorem stripUtxo_empty (cfg : Cfg) : stripUtxo cfg UtxoEntry.empty = UtxoEntry.empty := by
  simp [stripUtxo, UtxoEntry.empty, UtxoEntry.totalValue, rangesValue]

theorem outs_values_strip (cfg : Cfg) (hs : cfg.indexSats = false) (os : List TxOut) :
    (((os.map (fun _ => UtxoEntry.empty)).zip os).map (fun (x : UtxoEntry × TxOut) => { x.1 with value := x.2.value })).map
        (stripUtxo cfg) =
      ((os.map (fun _ => UtxoEntry.empty)).zip os).map (fun (x : UtxoEntry × TxOut) => { x.1 with value := x.2.value }) := by
  induction os with
  | nil => rfl
  | cons o os ih =>
    simp only [List.map_cons, List.zip_cons_cons] at ih ⊢
    rw [ih]
    simp [stripUtxo, UtxoEntry.empty, UtxoEntry.totalValue, hs]

theorem outs_ranges_strip (cfg : Cfg) (hs : cfg.indexSats = true) : ∀ (os : List TxOut) (rss : List (List (Nat × Nat))),
    rss.map lenR = os.map (·.value) →
    (((os.map (fun _ => UtxoEntry.empty)).zip rss).map (fun (x : UtxoEntry × List (Nat × Nat)) => { x.1 with ranges := x.2 })).map
        (stripUtxo cfg) =
      ((os.map (fun _ => UtxoEntry.empty)).zip os).map (fun (x : UtxoEntry × TxOut) => { x.1 with value := x.2.value })
  | [], rss, _ => by simp
  | o :: os, [], h => by simp at h
  | o :: os, rs :: rss, h => by
    simp only [List.map_cons, List.cons.injEq] at h
    simp only [List.map_cons, List.zip_cons_cons]
    rw [outs_ranges_strip cfg hs os rss h.2]
    simp [stripUtxo, UtxoEntry.empty, UtxoEntry.totalValue, hs, rangesValue_eq_lenR, h.1]

theorem outs_script_strip (cfg : Cfg) : ∀ (l : List UtxoEntry) (os : List TxOut), l.length = os.length →
    ((l.zip os).map (fun (x : UtxoEntry × TxOut) => { x.1 with script := x.2.script })).map (stripUtxo cfg) =
      l.map (stripUtxo cfg)
  | [], _, _ => by simp
  | e :: l, [], h => by simp at h
  | e :: l, o :: os, h => by
    simp only [List.length_cons, Nat.add_right_cancel_iff] at h
    simp only [List.zip_cons_cons, List.map_cons]
    rw [outs_script_strip cfg l os h]
    simp [stripUtxo, UtxoEntry.totalValue]

/-! ### the middle of `indexTx` -/

theorem indexTxMid_sim (cfg : Cfg) (blk : Block) (insOn : Bool) (off : Nat) (tx : Tx) (bc1 : BlockCtx)
    (u₀ : List (OutPoint × UtxoEntry)) (inputs : List (TxIn × UtxoEntry)) (bc3 : BlockCtx) (outs3 : List UtxoEntry)
    (h : indexTxMid cfg blk insOn off tx bc1 inputs = .ok (bc3, outs3)) :
    indexTxMid cfg.base blk insOn off tx (mkB cfg bc1 u₀) (stripInputs cfg inputs) =
        .ok (mkB cfg bc3 u₀, outs3.map (stripUtxo cfg)) ∧
      bc3.st.utxo = bc1.st.utxo ∧ bc3.cache = bc1.cache := by
  unfold indexTxMid at h ⊢
  have hbs : cfg.base.indexSats = false := rfl
  have hba : cfg.base.indexAddresses = false := rfl
  simp only [hbs, hba, Bool.false_eq_true, if_false]
  -- the output entries of the cfg run and the state handed to the inscription pass
  have key : ∀ (bc2 : BlockCtx) (outs2 : List UtxoEntry) (ir : Option (List (Nat × Nat))),
      stripW u₀ bc2.st = stripW u₀ bc1.st → bc2.ins = bc1.ins → bc2.cache = bc1.cache →
      bc2.st.utxo = bc1.st.utxo →
      outs2.map (stripUtxo cfg) =
        ((tx.outputs.map (fun _ => UtxoEntry.empty)).zip tx.outputs).map
          (fun (x : UtxoEntry × TxOut) => { x.1 with value := x.2.value }) →
      (if insOn = true then
          match indexInscriptions cfg blk.height blk.time tx inputs ir { st := bc2.st, ctx := bc2.ins, outs := outs2 } with
          | .panic s => .panic s
          | .err e => .err e
          | .ok ls => .ok ({ bc2 with st := ls.st, ins := ls.ctx }, ls.outs)
        else .ok (bc2, outs2)) = Outcome.ok (bc3, outs3) →
      (if insOn = true then
          match indexInscriptions cfg.base blk.height blk.time tx (stripInputs cfg inputs) none
            { st := (mkB cfg bc1 u₀).st, ctx := (mkB cfg bc1 u₀).ins,
              outs := ((tx.outputs.map (fun _ => UtxoEntry.empty)).zip tx.outputs).map
                (fun (x : UtxoEntry × TxOut) => { x.1 with value := x.2.value }) } with
          | .panic s => .panic s
          | .err e => .err e
          | .ok ls => .ok ({ mkB cfg bc1 u₀ with st := ls.st, ins := ls.ctx }, ls.outs)
        else .ok (mkB cfg bc1 u₀, ((tx.outputs.map (fun _ => UtxoEntry.empty)).zip tx.outputs).map
                (fun (x : UtxoEntry × TxOut) => { x.1 with value := x.2.value }))) =
          Outcome.ok (mkB cfg bc3 u₀, outs3.map (stripUtxo cfg)) ∧
        bc3.st.utxo = bc1.st.utxo ∧ bc3.cache = bc1.cache := by
    intro bc2 outs2 ir hst hins hcache hutxo houts hh
    cases insOn with
    | false =>
      simp only [Bool.false_eq_true, if_false, Outcome.ok.injEq, Prod.mk.injEq] at hh ⊢
      obtain ⟨rfl, rfl⟩ := hh
      refine ⟨⟨?_, houts.symm⟩, hutxo, hcache⟩
      simp only [mkB, hst, hins, hcache]
    | true =>
      simp only [if_true] at hh ⊢
      cases hi : indexInscriptions cfg blk.height blk.time tx inputs ir { st := bc2.st, ctx := bc2.ins, outs := outs2 } with
      | panic s => rw [hi] at hh; simp at hh
      | err e => rw [hi] at hh; simp at hh
      | ok ls =>
        rw [hi] at hh
        simp only [Outcome.ok.injEq, Prod.mk.injEq] at hh
        obtain ⟨rfl, rfl⟩ := hh
        have hsim := indexInscriptions_strip cfg u₀ blk.height blk.time tx inputs ir _ ls hi
        have hstart : stripLs cfg u₀ { st := bc2.st, ctx := bc2.ins, outs := outs2 } =
            { st := (mkB cfg bc1 u₀).st, ctx := (mkB cfg bc1 u₀).ins,
              outs := ((tx.outputs.map (fun _ => UtxoEntry.empty)).zip tx.outputs).map
                (fun (x : UtxoEntry × TxOut) => { x.1 with value := x.2.value }) } := by
          simp only [stripLs, mkB, hst, hins, houts]
        rw [hstart] at hsim
        rw [hsim]
        have hf := indexInscriptions_frame cfg blk.height blk.time tx inputs ir _ ls hi
        refine ⟨?_, hf.1.trans hutxo, hcache⟩
        simp only [mkB, stripLs, hcache]
  by_cases hs : cfg.indexSats = true
  · simp only [hs, if_true] at h
    cases hr : indexTransactionSats (tx.outputs.map (·.value))
        (if off = 0 then bc1.coinbaseInputs else inputs.flatMap (fun x => x.2.ranges)) with
    | none => rw [hr] at h; simp at h
    | some r =>
      rw [hr] at h
      dsimp only at h
      -- lengths of the assigned ranges
      have hlens : r.outputs.map lenR = tx.outputs.map (·.value) := by
        generalize (if off = 0 then bc1.coinbaseInputs else inputs.flatMap (fun x => x.2.ranges)) = q at hr
        rw [indexTransactionSats_spec] at hr
        by_cases hle : (tx.outputs.map (·.value)).sum ≤ lenR q
        · rw [if_pos hle] at hr
          simp only [Option.some.injEq] at hr
          subst hr
          exact assignOutputsR_lens _ _ hle
        · rw [if_neg hle] at hr
          cases hr
      have hlen : r.outputs.length = tx.outputs.length := by
        have := congrArg List.length hlens; simpa using this
      have ho1 := outs_ranges_strip cfg hs tx.outputs r.outputs hlens
      by_cases ha : cfg.indexAddresses = true
      · simp only [ha, if_true] at h
        refine key _ _ _ ?_ ?_ ?_ ?_ ?_ h
        · by_cases h0 : off = 0 <;> simp [h0, stripW]
        · by_cases h0 : off = 0 <;> simp [h0]
        · by_cases h0 : off = 0 <;> simp [h0]
        · by_cases h0 : off = 0 <;> simp [h0]
        · rw [outs_script_strip cfg _ tx.outputs (by simp [hlen]), ho1]
      · simp only [ha, Bool.false_eq_true, if_false] at h
        refine key _ _ _ ?_ ?_ ?_ ?_ ho1 h
        · by_cases h0 : off = 0 <;> simp [h0, stripW]
        · by_cases h0 : off = 0 <;> simp [h0]
        · by_cases h0 : off = 0 <;> simp [h0]
        · by_cases h0 : off = 0 <;> simp [h0]
  · have hs' : cfg.indexSats = false := by simpa using hs
    simp only [hs', Bool.false_eq_true, if_false] at h
    have ho1 := outs_values_strip cfg hs' tx.outputs
    by_cases ha : cfg.indexAddresses = true
    · simp only [ha, if_true] at h
      refine key _ _ _ rfl rfl rfl rfl ?_ h
      rw [outs_script_strip cfg _ tx.outputs (by simp), ho1]
    · simp only [ha, Bool.false_eq_true, if_false] at h
      exact key _ _ _ rfl rfl rfl rfl ho1 h

/-! ### cache insertion and the whole transaction -/

theorem enumFrom_map {α β : Type} (f : α → β) : ∀ (n : Nat) (l : List α),
    enumFrom n (l.map f) = (enumFrom n l).map (fun p => (p.1, f p.2))
  | _, [] => rfl
  | n, a :: l => by simp [enumFrom, enumFrom_map f (n + 1) l]

theorem cacheFold_strip (cfg : Cfg) (txid : Txid) : ∀ (l : List (Nat × UtxoEntry)) (c : Cache),
    (l.map (fun p => (p.1, stripUtxo cfg p.2))).foldl (fun c (x : Nat × UtxoEntry) => AL.set c ⟨txid, x.1⟩ x.2)
        (stripCache cfg c) =
      stripCache cfg (l.foldl (fun c (x : Nat × UtxoEntry) => AL.set c ⟨txid, x.1⟩ x.2) c)
  | [], c => rfl
  | (v, e) :: l, c => by
    simp only [List.map_cons, List.foldl_cons]
    have : AL.set (stripCache cfg c) ⟨txid, v⟩ (stripUtxo cfg e) = stripCache cfg (AL.set c ⟨txid, v⟩ e) := by
      simp only [stripCache, stripKV_eq]
      exact AL.set_mapv (stripUtxo cfg) c ⟨txid, v⟩ e
    rw [this]
    exact cacheFold_strip cfg txid l _

theorem cacheIns_strip (cfg : Cfg) (txid : Txid) (outs : List UtxoEntry) (c : Cache) :
    cacheIns txid (outs.map (stripUtxo cfg)) (stripCache cfg c) = stripCache cfg (cacheIns txid outs c) := by
  unfold cacheIns
  rw [enumFrom_map]
  exact cacheFold_strip cfg txid _ c

theorem mem_set_cases {κ ν : Type} [BEq κ] (l : List (κ × ν)) (k : κ) (v : ν) (p : κ × ν) (h : p ∈ AL.set l k v) :
    p ∈ l ∨ p = (k, v) := by
  induction l with
  | nil => simp [AL.set] at h; exact Or.inr h
  | cons q rest ih =>
    obtain ⟨k0, v0⟩ := q
    simp only [AL.set] at h
    split at h
    · rcases List.mem_cons.mp h with h | h
      · exact Or.inr h
      · exact Or.inl (List.mem_cons_of_mem _ h)
    · rcases List.mem_cons.mp h with h | h
      · exact Or.inl (h ▸ List.mem_cons_self)
      · rcases ih h with h | h
        · exact Or.inl (List.mem_cons_of_mem _ h)
        · exact Or.inr h

theorem cacheReg_fold (txid : Txid) (ht : txid ≠ 0) : ∀ (l : List (Nat × UtxoEntry)) (c : Cache), CacheReg c →
    CacheReg (l.foldl (fun c (x : Nat × UtxoEntry) => AL.set c ⟨txid, x.1⟩ x.2) c)
  | [], c, h => h
  | (v, e) :: l, c, h => by
    simp only [List.foldl_cons]
    apply cacheReg_fold txid ht l
    intro p hp
    rcases mem_set_cases c _ _ p hp with hp | hp
    · exact h p hp
    · subst hp; exact regKey_of_txid ht

theorem cacheReg_cacheIns (txid : Txid) (ht : txid ≠ 0) (outs : List UtxoEntry) (c : Cache) (h : CacheReg c) :
    CacheReg (cacheIns txid outs c) := cacheReg_fold txid ht _ c h

theorem stripInputs_empties (cfg : Cfg) (ins : List TxIn) :
    stripInputs cfg (ins.map (fun i => (i, UtxoEntry.empty))) = ins.map (fun i => (i, UtxoEntry.empty)) := by
  simp [stripInputs, stripUtxo_empty]

theorem indexTx_sim (cfg : Cfg) (blk : Block) (insOn : Bool) (off : Nat) (tx : Tx) (bc : BlockCtx)
    (u₀ : List (OutPoint × UtxoEntry)) (bc' : BlockCtx) (hshape : TxShape off tx = true)
    (R : UtxoRel cfg bc.st.utxo u₀) (h : indexTx cfg blk insOn off tx bc = .ok bc') :
    ∃ u₀', indexTx cfg.base blk insOn off tx (mkB cfg bc u₀) = .ok (mkB cfg bc' u₀') ∧
      UtxoRel cfg bc'.st.utxo u₀' ∧ (CacheReg bc.cache → CacheReg bc'.cache) := by
  have htx : tx.txid ≠ 0 := by
    simp only [TxShape, Bool.and_eq_true, bne_iff_ne, ne_eq] at hshape
    exact hshape.1
  rw [indexTx_eq] at h ⊢
  by_cases h0 : off = 0
  · simp only [h0, if_true] at h ⊢
    cases hm : indexTxMid cfg blk insOn 0 tx bc (tx.inputs.map (fun i => (i, UtxoEntry.empty))) with
    | panic s => rw [hm] at h; simp at h
    | err e => rw [hm] at h; simp at h
    | ok r =>
      obtain ⟨bc3, outs3⟩ := r
      rw [hm] at h
      simp only [Outcome.ok.injEq] at h
      subst h
      obtain ⟨hsim, hu, hc⟩ := indexTxMid_sim cfg blk insOn 0 tx bc u₀ _ bc3 outs3 hm
      rw [stripInputs_empties] at hsim
      rw [hsim]
      refine ⟨u₀, ?_, by rw [hu]; exact R, fun hcr => cacheReg_cacheIns tx.txid htx outs3 _ (hc ▸ hcr)⟩
      simp only [Outcome.ok.injEq]
      have := cacheIns_strip cfg tx.txid outs3 bc3.cache
      simp only [mkB] at this ⊢
      rw [this]
  · simp only [h0, if_false] at h ⊢
    have hins : ∀ i ∈ tx.inputs, i.prev.txid ≠ 0 := by
      simp only [TxShape, h0, if_false, Bool.and_eq_true, List.all_eq_true, bne_iff_ne, ne_eq] at hshape
      exact hshape.2
    cases ht : takeInputEntries cfg tx.inputs bc [] with
    | panic s => rw [ht] at h; simp at h
    | err e => rw [ht] at h; simp at h
    | ok q =>
      obtain ⟨bc1, inputs⟩ := q
      rw [ht] at h
      dsimp only at h
      obtain ⟨u1, ht1, R1, c1⟩ := takeInputEntries_sim cfg tx.inputs bc u₀ [] bc1 inputs hins R ht
      have hnil : stripInputs cfg [] = [] := rfl
      rw [hnil] at ht1
      rw [ht1]
      dsimp only
      cases hm : indexTxMid cfg blk insOn off tx bc1 inputs with
      | panic s => rw [hm] at h; simp at h
      | err e => rw [hm] at h; simp at h
      | ok r =>
        obtain ⟨bc3, outs3⟩ := r
        rw [hm] at h
        simp only [Outcome.ok.injEq] at h
        subst h
        obtain ⟨hsim, hu, hc⟩ := indexTxMid_sim cfg blk insOn off tx bc1 u1 inputs bc3 outs3 hm
        rw [hsim]
        refine ⟨u1, ?_, by rw [hu]; exact R1, fun hcr => cacheReg_cacheIns tx.txid htx outs3 _ (hc ▸ c1 hcr)⟩
        simp only [Outcome.ok.injEq]
        have := cacheIns_strip cfg tx.txid outs3 bc3.cache
        simp only [mkB] at this ⊢
        rw [this]

theorem indexTxs_sim (cfg : Cfg) (blk : Block) (insOn : Bool) : ∀ (l : List (Nat × Tx)) (bc : BlockCtx)
    (u₀ : List (OutPoint × UtxoEntry)) (bc' : BlockCtx), (∀ p ∈ l, TxShape p.1 p.2 = true) →
    UtxoRel cfg bc.st.utxo u₀ → indexTxs cfg blk insOn l bc = .ok bc' →
    ∃ u₀', indexTxs cfg.base blk insOn l (mkB cfg bc u₀) = .ok (mkB cfg bc' u₀') ∧
      UtxoRel cfg bc'.st.utxo u₀' ∧ (CacheReg bc.cache → CacheReg bc'.cache)
  | [], bc, u₀, bc', _, R, h => by
    simp only [indexTxs, Outcome.ok.injEq] at h
    subst h
    exact ⟨u₀, rfl, R, id⟩
  | (i, tx) :: rest, bc, u₀, bc', hs, R, h => by
    simp only [indexTxs] at h ⊢
    cases ht : indexTx cfg blk insOn i tx bc with
    | panic s => rw [ht] at h; simp at h
    | err e => rw [ht] at h; simp at h
    | ok bc1 =>
      rw [ht] at h
      dsimp only at h
      obtain ⟨u1, h1, R1, c1⟩ := indexTx_sim cfg blk insOn i tx bc u₀ bc1 (hs (i, tx) List.mem_cons_self) R ht
      rw [h1]
      dsimp only
      obtain ⟨u2, h2, R2, c2⟩ := indexTxs_sim cfg blk insOn rest bc1 u1 bc'
        (fun p hp => hs p (List.mem_cons_of_mem _ hp)) R1 h
      exact ⟨u2, h2, R2, fun hc => c2 (c1 hc)⟩

end Ord.Index
