import OrdModel.Proofs.IndexInslocPlace
namespace Ord.Index.Insloc
open Ord Ord.Index Outcome

/-! ### folding `update_inscription_location` over a list of flotsam -/

def oldSeqs (fls : List Flotsam) : List Nat :=
  fls.filterMap (fun f => match f.origin with | .old s _ => some s | .new .. => none)

def newCount (fls : List Flotsam) : Nat := (fls.filter isNew).length

@[simp] theorem oldSeqs_nil : oldSeqs [] = [] := rfl
@[simp] theorem newCount_nil : newCount [] = 0 := rfl
theorem oldSeqs_append (a b : List Flotsam) : oldSeqs (a ++ b) = oldSeqs a ++ oldSeqs b := by
  simp [oldSeqs, List.filterMap_append]
theorem newCount_append (a b : List Flotsam) : newCount (a ++ b) = newCount a + newCount b := by
  simp [newCount, List.filter_append]

theorem oldSeqs_cons_old (f : Flotsam) (rest : List Flotsam) (s : Nat) (osp : SatPoint)
    (h : f.origin = .old s osp) : oldSeqs (f :: rest) = s :: oldSeqs rest ∧ newCount (f :: rest) = newCount rest := by
  simp [oldSeqs, newCount, isNew, h]

theorem oldSeqs_cons_new (f : Flotsam) (rest : List Flotsam) (h : isNew f = true) :
    oldSeqs (f :: rest) = oldSeqs rest ∧ newCount (f :: rest) = newCount rest + 1 := by
  cases ho : f.origin with
  | old s osp => simp [isNew, ho] at h
  | new => simp [oldSeqs, newCount, isNew, ho]

/-- one placement step, as far as C04's accounting is concerned -/
structure Step (fl : Flotsam) (ls ls' : LocState) : Prop where
  located : (located ls'.outs ls'.ctx).Perm (located ls.outs ls.ctx ++ [flSeq ls.st.entries.length fl])
  outsLen : ls'.outs.length = ls.outs.length
  entriesLen : ls'.st.entries.length = ls.st.entries.length + (if isNew fl then 1 else 0)
  utxo : ls'.st.utxo = ls.st.utxo
  seq2sp : ls'.st.seq2sp = ls.st.seq2sp
  stLost : ls'.st.lostSats = ls.st.lostSats
  flotsam : ls'.ctx.flotsam = ls.ctx.flotsam
  reward : ls'.ctx.reward = ls.ctx.reward
  ctxLost : ls'.ctx.lostSats = ls.ctx.lostSats

theorem UilSpec.step {rs fl sp opr tgt ls ls'} (h : UilSpec rs fl sp opr tgt ls ls') : Step fl ls ls' := by
  refine ⟨h.placed.located_perm, h.placed.outs_length, ?_, h.utxo, h.seq2sp, h.stLost, h.flotsam, h.reward, h.ctxLost⟩
  cases h.entry with
  | new hnew entry happ => simp [happ, hnew]
  | old seq osp ho hlen => simp [hlen, isNew, ho]

inductive Steps : List Flotsam → LocState → LocState → Prop where
  | nil (ls : LocState) : Steps [] ls ls
  | cons {fl rest ls ls1 ls2} : Step fl ls ls1 → Steps rest ls1 ls2 → Steps (fl :: rest) ls ls2

/-- C04 accounting over a run of placements: every old flotsam's sequence number and one fresh
sequence number per new flotsam are added to the placed lists, each exactly once -/
theorem Steps.conserve {fls ls ls'} (h : Steps fls ls ls') :
    (located ls'.outs ls'.ctx).Perm
      (located ls.outs ls.ctx ++ (oldSeqs fls ++ List.range' ls.st.entries.length (newCount fls))) ∧
    ls'.outs.length = ls.outs.length ∧
    ls'.st.entries.length = ls.st.entries.length + newCount fls ∧
    ls'.st.utxo = ls.st.utxo ∧ ls'.st.seq2sp = ls.st.seq2sp ∧ ls'.st.lostSats = ls.st.lostSats ∧
    ls'.ctx.flotsam = ls.ctx.flotsam ∧ ls'.ctx.reward = ls.ctx.reward ∧ ls'.ctx.lostSats = ls.ctx.lostSats := by
  induction h with
  | nil ls => simp
  | @cons fl rest ls ls1 ls2 hs _ ih =>
    obtain ⟨ihp, ihl, ihe, ihu, ihs, ihlo, ihf, ihr, ihc⟩ := ih
    refine ⟨?_, ihl.trans hs.outsLen, ?_, ihu.trans hs.utxo, ihs.trans hs.seq2sp, ihlo.trans hs.stLost,
      ihf.trans hs.flotsam, ihr.trans hs.reward, ihc.trans hs.ctxLost⟩
    · rw [List.perm_iff_count]
      intro a
      have h1 := ihp.count_eq a
      have h2 := hs.located.count_eq a
      cases ho : fl.origin with
      | old s osp =>
        obtain ⟨e1, e2⟩ := oldSeqs_cons_old fl rest s osp ho
        have hn : isNew fl = false := by simp [isNew, ho]
        have hlen := hs.entriesLen
        simp only [hn, Bool.false_eq_true, ↓reduceIte, Nat.add_zero] at hlen
        rw [e1, e2]
        rw [hlen] at h1
        simp only [flSeq, ho] at h2
        simp only [List.count_append, List.count_cons, List.count_nil] at h1 h2 ⊢
        omega
      | new c f g hd ps r u v =>
        have hn : isNew fl = true := by simp [isNew, ho]
        obtain ⟨e1, e2⟩ := oldSeqs_cons_new fl rest hn
        have hlen := hs.entriesLen
        simp only [hn, ↓reduceIte] at hlen
        rw [e1, e2]
        rw [hlen] at h1
        simp only [flSeq, ho] at h2
        rw [List.range'_succ]
        simp only [List.count_append, List.count_cons, List.count_nil] at h1 h2 ⊢
        omega
    · rw [ihe, hs.entriesLen]
      cases ho : fl.origin with
      | old s osp => rw [(oldSeqs_cons_old fl rest s osp ho).2]; simp [isNew, ho]
      | new c f g hd ps r u v =>
        have hn : isNew fl = true := by simp [isNew, ho]
        rw [(oldSeqs_cons_new fl rest hn).2]; simp [hn]; omega

theorem applyLocations_steps (cfg : Cfg) (height time : Nat) (rs : Option (List (Nat × Nat)))
    (locs : List (SatPoint × Flotsam × Bool)) (ls ls' : LocState)
    (h : applyLocations cfg height time rs locs ls = .ok ls') :
    Steps (locs.map (·.2.1)) ls ls' := by
  induction locs generalizing ls with
  | nil => simp [applyLocations] at h; subst h; exact .nil _
  | cons x rest ih =>
    obtain ⟨sp, fl, opr⟩ := x
    simp only [applyLocations] at h
    split at h
    · simp at h
    · simp at h
    · next ls1 h1 => exact .cons (uil_spec _ _ _ _ _ _ _ _ _ _ h1).step (ih _ h)

theorem applyLost_steps (cfg : Cfg) (height time : Nat) (rs : Option (List (Nat × Nat))) (ov : Nat)
    (fls : List Flotsam) (ls ls' : LocState)
    (h : applyLost cfg height time rs ov fls ls = .ok ls') : Steps fls ls ls' := by
  induction fls generalizing ls with
  | nil => simp [applyLost] at h; subst h; exact .nil _
  | cons fl rest ih =>
    simp only [applyLost] at h
    split at h
    · simp at h
    · simp at h
    · next ls1 h1 => exact .cons (uil_spec _ _ _ _ _ _ _ _ _ _ h1).step (ih _ h)

end Ord.Index.Insloc
