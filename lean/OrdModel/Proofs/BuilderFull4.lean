import OrdModel.Proofs.BuilderFull3
/-! Evaluation of the loops of the final stage `build` on outputs of the shape
`pre ++ (recipient, T) :: post` where `pre`, `post` pay change scripts only. -/
namespace Ord.Builder
open Ord Ord.Outcome

theorem filter_amounts_one (a off : Nat) : ∀ (l : List (Nat × Nat)) (v : Nat), (l.map (·.1)).Nodup →
    l.lookup a = some v → off < v →
    (l.filter (fun kv => kv.1 == a && decide (off < kv.2))).length = 1 := by
  intro l
  induction l with
  | nil => intro v _ h; simp [List.lookup] at h
  | cons x rest ih =>
    intro v hnd hl hoff
    simp only [List.map_cons, List.nodup_cons] at hnd
    simp only [List.lookup] at hl
    split at hl
    · rename_i heq
      simp only [beq_iff_eq] at heq
      simp only [Option.some.injEq] at hl
      have hrest : rest.filter (fun kv => kv.1 == a && decide (off < kv.2)) = [] := by
        apply List.filter_eq_nil_iff.2
        intro kv hkv
        have : kv.1 ≠ a := by
          intro h
          apply hnd.1
          rw [← heq, ← h]
          exact List.mem_map.2 ⟨kv, hkv, rfl⟩
        simp [this]
      have hx : (x.1 == a && decide (off < x.2)) = true := by
        simp [← heq, hl, hoff]
      simp [List.filter_cons, hx, hrest]
    · rename_i hne
      have hx : (x.1 == a && decide (off < x.2)) = false := by
        have h1 : ¬ a = x.1 := by simpa using hne
        have h2 : (x.1 == a) = false := by
          simp only [beq_eq_false_iff_ne, ne_eq]; exact fun h => h1 h.symm
        simp [h2]
      simp only [List.filter_cons, hx, Bool.false_eq_true, if_false]
      exact ih v hnd.2 hl hoff

theorem buildFindOutput_eval (rcp : Script) (so T : Nat) (post : List TxOut) (hT : 0 < T) :
    ∀ (pre : List TxOut) (acc : Nat), acc + outSum pre = so → so + T < U64 →
      buildFindOutput rcp so (pre ++ (rcp, T) :: post) acc = .ok true := by
  intro pre
  induction pre with
  | nil =>
    intro acc h hlt
    simp only [outSum, Nat.add_zero] at h
    subst h
    have : acc + T > acc := by omega
    simp [buildFindOutput, hlt, this]
  | cons p rest ih =>
    intro acc h hlt
    simp only [outSum] at h
    have h1 : acc + p.2 < U64 := by omega
    have h2 : ¬ (acc + p.2 > so) := by omega
    simp only [List.cons_append, buildFindOutput, h1, if_true, h2, if_false]
    exact ih (acc + p.2) (by omega) hlt

/-- outputs that pay change scripts only, never the recipient -/
def ChangeOnly (r : Request) (l : List TxOut) : Prop :=
  ∀ o ∈ l, o.1 ≠ r.recipient ∧ (o.1 = r.change0 ∨ o.1 = r.change1)

theorem buildCheckOutputs_change (env : Env) (r : Request) (so : Nat) :
    ∀ (l : List TxOut) (acc : Nat), ChangeOnly r l → acc + outSum l < U64 →
      buildCheckOutputs env r so l acc = .ok () := by
  intro l
  induction l with
  | nil => intro acc _ _; simp [buildCheckOutputs]
  | cons o rest ih =>
    intro acc hc hlt
    obtain ⟨hne, hch⟩ := hc o List.mem_cons_self
    simp only [outSum] at hlt
    have h1 : acc + o.2 < U64 := by omega
    simp only [buildCheckOutputs, bind_def, checkOutput, hne, if_false, assert, hch, decide_true, if_true,
      Outcome.bind, u64Add, h1]
    exact ih _ (fun o' ho' => hc o' (List.mem_cons_of_mem _ ho')) (by omega)

theorem buildCheckOutputs_eval (env : Env) (r : Request) (so T : Nat) (post : List TxOut)
    (hpost : ChangeOnly r post) (hT : checkRecipientValue env r T = .ok ()) :
    ∀ (pre : List TxOut) (acc : Nat), ChangeOnly r pre → acc + outSum pre = so →
      so + T + outSum post < U64 →
      buildCheckOutputs env r so (pre ++ (r.recipient, T) :: post) acc = .ok () := by
  intro pre
  induction pre with
  | nil =>
    intro acc _ h hlt
    simp only [outSum, Nat.add_zero] at h
    subst h
    have h1 : acc + T < U64 := by omega
    simp only [List.nil_append, buildCheckOutputs, bind_def, checkOutput, if_true, hT, Outcome.bind, assert,
      beq_self_eq_true, u64Add, h1]
    exact buildCheckOutputs_change env r acc post _ hpost (by omega)
  | cons o rest ih =>
    intro acc hc h hlt
    obtain ⟨hne, hch⟩ := hc o List.mem_cons_self
    simp only [outSum] at h
    have h1 : acc + o.2 < U64 := by omega
    simp only [List.cons_append, buildCheckOutputs, bind_def, checkOutput, hne, if_false, assert, hch,
      decide_true, if_true, Outcome.bind, u64Add, h1]
    exact ih _ (fun o' ho' => hc o' (List.mem_cons_of_mem _ ho')) (by omega) hlt

theorem buildSumInputs_eval (w : Wallet) : ∀ (l : List Nat) (acc : Nat),
    (∀ u ∈ l, (w.amounts.lookup u).isSome) → acc + inSum w l < U64 →
    buildSumInputs w l acc = .ok (acc + inSum w l) := by
  intro l
  induction l with
  | nil => intro acc _ _; simp [buildSumInputs, inSum]
  | cons x rest ih =>
    intro acc hk hlt
    obtain ⟨v, hv⟩ := Option.isSome_iff_exists.1 (hk x List.mem_cons_self)
    have hiv := inVal_of_lookup hv
    simp only [inSum, hiv] at hlt
    have h1 : acc + v < U64 := by omega
    simp only [buildSumInputs, hv, h1, if_true]
    rw [ih (acc + v) (fun u hu => hk u (List.mem_cons_of_mem _ hu)) (by omega)]
    simp only [inSum, hiv]; congr 1; omega

theorem buildSubOutputs_eval : ∀ (l : List TxOut) (acc : Nat), outSum l ≤ acc →
    buildSubOutputs l acc = .ok (acc - outSum l) := by
  intro l
  induction l with
  | nil => intro acc _; simp [buildSubOutputs, outSum]
  | cons o rest ih =>
    intro acc h
    simp only [outSum] at h
    have h1 : o.2 ≤ acc := by omega
    simp only [buildSubOutputs, h1, if_true]
    rw [ih (acc - o.2) (by omega)]
    simp only [outSum]; congr 1; omega

theorem buildDust_eval (env : Env) : ∀ (l : List TxOut), (∀ o ∈ l, env.dust o.1 ≤ o.2) →
    buildDust env l = .ok () := by
  intro l
  induction l with
  | nil => intro _; simp [buildDust]
  | cons o rest ih =>
    intro h
    have h1 := h o List.mem_cons_self
    simp only [buildDust, h1, if_true]
    exact ih (fun o' ho' => h o' (List.mem_cons_of_mem _ ho'))

theorem countScript_append (s : Script) (a b : List TxOut) :
    countScript s (a ++ b) = countScript s a + countScript s b := by
  simp [countScript, List.filter_append]

theorem countScript_zero {s : Script} {l : List TxOut} (h : ∀ o ∈ l, o.1 ≠ s) : countScript s l = 0 := by
  unfold countScript
  rw [List.filter_eq_nil_iff.2]
  · rfl
  · intro o ho; simp [h o ho]

/-- the fee estimate only depends on the scripts -/
theorem outsSize_map_fst : ∀ (a b : List TxOut), a.map (·.1) = b.map (·.1) → outsSize a = outsSize b := by
  intro a
  induction a with
  | nil => intro b h; cases b <;> simp_all [outsSize]
  | cons x rest ih =>
    intro b h
    cases b with
    | nil => simp at h
    | cons y rest' =>
      simp only [List.map_cons, List.cons.injEq] at h
      simp only [outsSize, h.1, ih rest' h.2]

theorem vsize_map_fst (n : Nat) (a b : List TxOut) (h : a.map (·.1) = b.map (·.1)) :
    vsize n a = vsize n b := by
  have hl : a.length = b.length := by
    have := congrArg List.length h; simpa using this
  unfold vsize baseSize
  rw [outsSize_map_fst a b h, hl]

end Ord.Builder
