import OrdModel.Proofs.IndexLiftNoPanicSpec
import OrdModel.Proofs.IndexMiscNoPanicAll
import OrdModel.Proofs.IndexMiscAddrSpend
/-
C16 lift, part 2: the invariants that tie the index state to the UTXO set of `Valid.validChain`
at every transaction start inside a block (`Mid`) and at block boundaries (`Bnd`, in the chain file),
and the first consumer: `takeInputEntries` succeeds on the inputs accepted by `Valid.spendInputs`
and hands out entries that carry the spent values.

* `EntryRel cfg n v e`: entry `e` has total value `v` (sat ranges or stored value, whichever the
  configuration uses) and lists only sequence numbers `< n` (`n` = number of inscription entries).
* `URel`: every outpoint unspent according to the spec is in the cache, or (not in the cache and)
  in the table together with its script row, with an `EntryRel` entry.
* `IdsOK`: every entry's id has an `id2seq` row; every `id2seq` row points below `entries.length`.
-/
namespace Ord.Index.NoPanic
open Ord Ord.Index Outcome Sched

/-- the failure sites of the sat / address / inscription pass that are **not** discharged on valid
chains.  The lift (`IndexLiftNoPanic{Inv,Scan,Uil,Ins,Tx,Block,Chain}.lean`) discharges all 13 sites of
`utxoResidualSites`, so the list is empty: every lemma of the lift is stated as "the function returns
`ok`", not as "it panics only at a site of a residual list". -/
def remainingSites : List String := []

def EntryRel (cfg : Cfg) (n v : Nat) (e : UtxoEntry) : Prop :=
  e.totalValue cfg = v ∧ ∀ p ∈ e.ins, p.1 < n

theorem EntryRel.mono {cfg : Cfg} {n n' v : Nat} {e : UtxoEntry} (h : EntryRel cfg n v e) (hn : n ≤ n') :
    EntryRel cfg n' v e := ⟨h.1, fun p hp => Nat.lt_of_lt_of_le (h.2 p hp) hn⟩

def URel (cfg : Cfg) (n : Nat) (u : Valid.Utxos) (utxo : List (OutPoint × UtxoEntry))
    (s2o : List (List UInt8 × OutPoint)) (cache : Cache) : Prop :=
  ∀ (op : OutPoint) (v : Nat), AL.get u op = some v →
    (∃ e, AL.get cache op = some e ∧ EntryRel cfg n v e) ∨
    (AL.get cache op = none ∧ ∃ e, AL.get utxo op = some e ∧ EntryRel cfg n v e ∧
      (cfg.indexAddresses = true → (e.script, op) ∈ s2o))

theorem URel.mono {cfg : Cfg} {n n' : Nat} {u : Valid.Utxos} {utxo : List (OutPoint × UtxoEntry)}
    {s2o : List (List UInt8 × OutPoint)} {cache : Cache} (h : URel cfg n u utxo s2o cache) (hn : n ≤ n') :
    URel cfg n' u utxo s2o cache := by
  intro op v hg
  rcases h op v hg with ⟨e, h1, h2⟩ | ⟨h0, e, h1, h2, h3⟩
  · exact Or.inl ⟨e, h1, h2.mono hn⟩
  · exact Or.inr ⟨h0, e, h1, h2.mono hn, h3⟩

structure IdsOK (st : State) : Prop where
  has : ∀ e ∈ st.entries, ∃ seq, AL.get st.id2seq e.id = some seq
  lt : ∀ (id : InscriptionId) (seq : Nat), AL.get st.id2seq id = some seq → seq < st.entries.length

theorem IdsOK.congr {a b : State} (h : IdsOK a) (he : b.entries = a.entries) (hi : b.id2seq = a.id2seq) : IdsOK b :=
  ⟨by rw [he, hi]; exact h.has, by rw [he, hi]; exact h.lt⟩

/-- a new inscription that is not unbound (the only flotsam `calculate_sat` is called for) -/
def NewBound (f : Flotsam) : Prop :=
  ∃ c fee g h ps r v, f.origin = .new c fee g h ps r false v

def countNew (l : List Flotsam) : Nat := (l.filter isNew).length

theorem countNew_append (a b : List Flotsam) : countNew (a ++ b) = countNew a + countNew b := by
  simp [countNew, List.filter_append]

theorem countNew_cons (f : Flotsam) (l : List Flotsam) :
    countNew (f :: l) = (if isNew f = true then 1 else 0) + countNew l := by
  simp only [countNew, List.filter_cons]
  split <;> simp <;> omega

theorem countNew_perm {a b : List Flotsam} (h : a.Perm b) : countNew a = countNew b :=
  (h.filter _).length_eq

def OldOK (n : Nat) (f : Flotsam) : Prop := ∀ seq sp, f.origin = .old seq sp → seq < n

/-- the inscription-side tables and counters the no-panic argument reads -/
def InsSame (a b : State) : Prop :=
  b.entries = a.entries ∧ b.id2seq = a.id2seq ∧ b.cursed = a.cursed ∧ b.blessed = a.blessed

theorem InsSame.refl (a : State) : InsSame a a := ⟨rfl, rfl, rfl, rfl⟩
theorem InsSame.trans {a b c : State} (h1 : InsSame a b) (h2 : InsSame b c) : InsSame a c :=
  ⟨h2.1.trans h1.1, h2.2.1.trans h1.2.1, h2.2.2.1.trans h1.2.2.1, h2.2.2.2.trans h1.2.2.2⟩

theorem InsSame.of_core {a b : State} (h : core b = core a) : InsSame a b :=
  ⟨(congrArg State.entries h : _), (congrArg State.id2seq h : _), (congrArg State.cursed h : _),
   (congrArg State.blessed h : _)⟩

/-- what holds at every transaction start inside a block, as far as table/cache/ids/counters go -/
structure Core (cfg : Cfg) (u : Valid.Utxos) (budget : Nat) (bc : BlockCtx) : Prop where
  urel : URel cfg bc.st.entries.length u bc.st.utxo bc.st.script2out bc.cache
  cnodup : (AL.keys bc.cache).Nodup
  ids : IdsOK bc.st
  flSeq : ∀ f ∈ bc.ins.flotsam, OldOK bc.st.entries.length f
  count : bc.st.cursed + bc.st.blessed + countNew bc.ins.flotsam ≤ budget

/-- … plus the value bookkeeping of the block: the coinbase's input ranges and the inscription
updater's `reward` are both `subsidy + fees so far`, and carried new inscriptions sit below it -/
structure Mid (cfg : Cfg) (height : Nat) (insOn : Bool) (u : Valid.Utxos) (fees budget : Nat) (bc : BlockCtx) : Prop
    extends Core cfg u budget bc where
  cbIn : cfg.indexSats = true → rangesValue bc.coinbaseInputs = subsidy height + fees
  reward : insOn = true → bc.ins.reward = subsidy height + fees
  flOff : ∀ f ∈ bc.ins.flotsam, NewBound f → f.offset < bc.ins.reward

/-! ### taking the input entries -/

/-- the entries handed on for the inputs of a non-coinbase transaction, against the spent values -/
def InRel (cfg : Cfg) (n : Nat) : List Nat → List (TxIn × UtxoEntry) → Prop
  | [], [] => True
  | v :: vs, p :: ps => p.1.prev.isNull = false ∧ EntryRel cfg n v p.2 ∧ InRel cfg n vs ps
  | _, _ => False

theorem InRel.snoc {cfg : Cfg} {n : Nat} {vs : List Nat} {ps : List (TxIn × UtxoEntry)} (h : InRel cfg n vs ps)
    (v : Nat) (p : TxIn × UtxoEntry) (h1 : p.1.prev.isNull = false) (h2 : EntryRel cfg n v p.2) :
    InRel cfg n (vs ++ [v]) (ps ++ [p]) := by
  induction vs generalizing ps with
  | nil => cases ps with
    | nil => exact ⟨h1, h2, trivial⟩
    | cons _ _ => exact absurd h (by simp [InRel])
  | cons w ws ih => cases ps with
    | nil => exact absurd h (by simp [InRel])
    | cons q qs =>
      simp only [InRel] at h
      exact ⟨h.1, h.2.1, ih h.2.2⟩

theorem InRel.mono {cfg : Cfg} {n n' : Nat} {vs : List Nat} {ps : List (TxIn × UtxoEntry)} (h : InRel cfg n vs ps)
    (hn : n ≤ n') : InRel cfg n' vs ps := by
  induction vs generalizing ps with
  | nil => cases ps with
    | nil => trivial
    | cons _ _ => exact absurd h (by simp [InRel])
  | cons w ws ih => cases ps with
    | nil => exact absurd h (by simp [InRel])
    | cons q qs =>
      simp only [InRel] at h ⊢
      exact ⟨h.1, h.2.1.mono hn, ih h.2.2⟩

/-- what `takeInputEntries` leaves alone -/
def TakeFrame (bc bc1 : BlockCtx) : Prop :=
  bc1.ins = bc.ins ∧ bc1.coinbaseInputs = bc.coinbaseInputs ∧ bc1.lostRanges = bc.lostRanges ∧
  core bc1.st = core bc.st

theorem TakeFrame.refl (bc : BlockCtx) : TakeFrame bc bc := ⟨rfl, rfl, rfl, rfl⟩
theorem TakeFrame.trans {a b c : BlockCtx} (h1 : TakeFrame a b) (h2 : TakeFrame b c) : TakeFrame a c :=
  ⟨h2.1.trans h1.1, h2.2.1.trans h1.2.1, h2.2.2.1.trans h1.2.2.1, h2.2.2.2.trans h1.2.2.2⟩

/-- **`takeInputEntries` on inputs accepted by `Valid.spendInputs`**: succeeds (neither
`assert!(!have_full_utxo_index())` nor `script pubkey entry not found`), hands out entries with the
spent values, and leaves an overlay that holds every outpoint still unspent. -/
theorem takeInputEntries_valid (cfg : Cfg) (n : Nat) (ins : List TxIn) (u u' : Valid.Utxos) (spent : List Nat)
    (bc : BlockCtx) (acc : List (TxIn × UtxoEntry)) (accV : List Nat)
    (hs : Valid.spendInputs ins u = some (u', spent)) (hnd : (AL.keys u).Nodup)
    (hrel : URel cfg n u bc.st.utxo bc.st.script2out bc.cache) (hcn : (AL.keys bc.cache).Nodup)
    (hacc : InRel cfg n accV acc) :
    ∃ bc1 inputs, takeInputEntries cfg ins bc acc = .ok (bc1, inputs) ∧
      URel cfg n u' bc1.st.utxo bc1.st.script2out bc1.cache ∧ (AL.keys bc1.cache).Nodup ∧
      InRel cfg n (accV ++ spent) inputs ∧ TakeFrame bc bc1 ∧
      (∃ (d : List OutPoint), u' = d.foldl AL.erase u) := by
  induction ins generalizing u bc acc accV spent with
  | nil =>
    simp only [Valid.spendInputs, Option.some.injEq, Prod.mk.injEq] at hs
    obtain ⟨rfl, rfl⟩ := hs
    exact ⟨bc, acc, rfl, hrel, hcn, by simpa using hacc, TakeFrame.refl _, [], rfl⟩
  | cons i rest ih =>
    simp only [Valid.spendInputs] at hs
    split at hs
    · cases hs
    · rename_i hnull
      have hnull' : i.prev.isNull = false := by simpa using hnull
      split at hs
      · cases hs
      · rename_i v hv
        split at hs
        · cases hs
        · rename_i u1 vs hrest
          simp only [Option.some.injEq, Prod.mk.injEq] at hs
          obtain ⟨rfl, rfl⟩ := hs
          rw [lookup_eq_get] at hv
          rw [remove_eq_erase] at hrest
          have hnd1 : (AL.keys (AL.erase u i.prev)).Nodup := AL.nodup_erase _ _ hnd
          -- the spec side after removing `i.prev`
          have hother : ∀ op w, AL.get (AL.erase u i.prev) op = some w → op ≠ i.prev ∧ AL.get u op = some w :=
            fun op w hg => AL.get_erase_some hnd hg
          simp only [takeInputEntries]
          rcases hrel i.prev v hv with ⟨e, hc, he⟩ | ⟨hc, e, ht, he, hrow⟩
          · -- in the cache
            rw [hc]
            simp only
            have hrel1 : URel cfg n (AL.erase u i.prev) bc.st.utxo bc.st.script2out (AL.erase bc.cache i.prev) := by
              intro op w hg
              obtain ⟨hne, hg'⟩ := hother op w hg
              rw [AL.get_erase_ne _ (fun h => hne h.symm)]
              exact hrel op w hg'
            obtain ⟨bc1, inputs, h1, h2, h3, h4, h5, d, h6⟩ :=
              ih (AL.erase u i.prev) vs { bc with cache := AL.erase bc.cache i.prev } (acc ++ [(i, e)]) (accV ++ [v])
                hrest hnd1 hrel1 (AL.nodup_erase _ _ hcn) (hacc.snoc v (i, e) hnull' he)
            refine ⟨bc1, inputs, h1, h2, h3, by simpa [List.append_assoc] using h4, ?_, i.prev :: d, h6⟩
            exact TakeFrame.trans ⟨rfl, rfl, rfl, rfl⟩ h5
          · -- in the table
            rw [hc, ht]
            simp only
            cases ha : cfg.indexAddresses with
            | false =>
              simp only [Bool.false_eq_true, if_false]
              have hrel1 : URel cfg n (AL.erase u i.prev) (AL.erase bc.st.utxo i.prev) bc.st.script2out bc.cache := by
                intro op w hg
                obtain ⟨hne, hg'⟩ := hother op w hg
                rcases hrel op w hg' with h | ⟨h0, e', h1, h2, h3⟩
                · exact Or.inl h
                · refine Or.inr ⟨h0, e', ?_, h2, fun hh => by rw [ha] at hh; cases hh⟩
                  rw [AL.get_erase_ne _ (fun h => hne h.symm)]; exact h1
              obtain ⟨bc1, inputs, h1, h2, h3, h4, h5, d, h6⟩ :=
                ih (AL.erase u i.prev) vs { bc with st := { bc.st with utxo := AL.erase bc.st.utxo i.prev } }
                  (acc ++ [(i, e)]) (accV ++ [v]) hrest hnd1 hrel1 hcn (hacc.snoc v (i, e) hnull' he)
              refine ⟨bc1, inputs, h1, h2, h3, by simpa [List.append_assoc] using h4, ?_, i.prev :: d, h6⟩
              exact TakeFrame.trans ⟨rfl, rfl, rfl, rfl⟩ h5
            | true =>
              have hcont : bc.st.script2out.contains (e.script, i.prev) = true := by
                simpa using hrow ha
              simp only [if_true, hcont]
              have hrel1 : URel cfg n (AL.erase u i.prev) (AL.erase bc.st.utxo i.prev)
                  (bc.st.script2out.filter (fun x => !(x == (e.script, i.prev)))) bc.cache := by
                intro op w hg
                obtain ⟨hne, hg'⟩ := hother op w hg
                rcases hrel op w hg' with h | ⟨h0, e', h1, h2, h3⟩
                · exact Or.inl h
                · refine Or.inr ⟨h0, e', ?_, h2, fun hh => ?_⟩
                  · rw [AL.get_erase_ne _ (fun h => hne h.symm)]; exact h1
                  · simp only [List.mem_filter, Bool.not_eq_true', beq_eq_false_iff_ne, ne_eq, Prod.mk.injEq, not_and]
                    exact ⟨h3 hh, fun _ => hne⟩
              obtain ⟨bc1, inputs, h1, h2, h3, h4, h5, d, h6⟩ :=
                ih (AL.erase u i.prev) vs
                  { bc with st := { { bc.st with utxo := AL.erase bc.st.utxo i.prev } with
                      script2out := bc.st.script2out.filter (fun x => !(x == (e.script, i.prev))) } }
                  (acc ++ [(i, e)]) (accV ++ [v]) hrest hnd1 hrel1 hcn (hacc.snoc v (i, e) hnull' he)
              refine ⟨bc1, inputs, h1, h2, h3, by simpa [List.append_assoc] using h4, ?_, i.prev :: d, h6⟩
              exact TakeFrame.trans ⟨rfl, rfl, rfl, rfl⟩ h5

theorem UWF.foldl_erase {seen : List Txid} (d : List OutPoint) {u : Valid.Utxos} (h : UWF seen u) :
    UWF seen (d.foldl AL.erase u) := by
  induction d generalizing u with
  | nil => exact h
  | cons o rest ih => exact ih (h.erase o)

end Ord.Index.NoPanic
