import OrdModel.Codec.Envelope
import OrdModel.Proofs.ScriptW5
/-! Totality lemmas for the envelope parser model: no `.panic` branch is reachable. -/
namespace Ord.Envelope
open Ord Ord.ScriptW5

/-- `collect` never panics and hands back a suffix no longer than its input -/
theorem collect_spec : ∀ (items : List Item),
    (∀ s, collect items ≠ .panic s) ∧
    (∀ r rest, collect items = .ok (r, rest) → rest.length ≤ items.length) := by
  intro items
  induction items with
  | nil => simp [collect]
  | cons x xs ih =>
    obtain ⟨ihp, ihl⟩ := ih
    cases x with
    | error => simp [collect]
    | ok ins =>
      cases ins with
      | push bs =>
        simp only [collect]
        cases h : collect xs with
        | ok v =>
          obtain ⟨o, r⟩ := v
          have := ihl o r h
          cases o with
          | none => simp; omega
          | some pn => obtain ⟨p, n⟩ := pn; simp; omega
        | err e => simp
        | panic s => exact absurd h (ihp s)
      | op b =>
        simp only [collect]
        split
        · simp
        · split
          · cases h : collect xs with
            | ok v =>
              obtain ⟨o, r⟩ := v
              have := ihl o r h
              cases o with
              | none => simp; omega
              | some pn => obtain ⟨p, n⟩ := pn; simp; omega
            | err e => simp
            | panic s => exact absurd h (ihp s)
          · simp

theorem accept_length (i : Instr) (items : List Item) :
    (accept i items).2.length ≤ items.length := by
  cases items with
  | nil => simp [accept]
  | cons x xs =>
    simp only [accept]
    split <;> simp

theorem fromInstructions_spec (input offset : Nat) (stutter : Bool) (items : List Item)
    (hi : input < 2 ^ 32) (ho : offset < 2 ^ 32) :
    (∀ s, fromInstructions input offset stutter items ≠ .panic s) ∧
    (∀ r rest, fromInstructions input offset stutter items = .ok (r, rest) →
      rest.length ≤ items.length) := by
  unfold fromInstructions
  have h1 := accept_length (.op opIf) items
  cases ha : accept (.op opIf) items with
  | mk b1 items1 =>
    rw [ha] at h1
    simp only at h1
    cases b1 with
    | false =>
      simp only
      refine ⟨by simp, ?_⟩
      intro r rest h
      simp only [Outcome.ok.injEq, Prod.mk.injEq] at h
      obtain ⟨_, h⟩ := h
      subst h
      omega
    | true =>
      simp only
      have h2 := accept_length (.push protocolId) items1
      cases hb : accept (.push protocolId) items1 with
      | mk b2 items2 =>
        rw [hb] at h2
        simp only at h2
        cases b2 with
        | false =>
          simp only
          refine ⟨by simp, ?_⟩
          intro r rest h
          simp only [Outcome.ok.injEq, Prod.mk.injEq] at h
          obtain ⟨_, h⟩ := h
          subst h
          omega
        | true =>
          simp only
          obtain ⟨cp, cl⟩ := collect_spec items2
          cases hc : collect items2 with
          | ok v =>
            obtain ⟨o, r⟩ := v
            have := cl o r hc
            cases o with
            | none =>
              simp only
              refine ⟨by simp, ?_⟩
              intro r' rest h
              simp only [Outcome.ok.injEq, Prod.mk.injEq] at h
              obtain ⟨_, h⟩ := h
              subst h
              omega
            | some pn =>
              obtain ⟨p, n⟩ := pn
              simp only [toU32, hi, ho, if_true]
              refine ⟨by simp, ?_⟩
              intro r' rest h
              simp only [Outcome.ok.injEq, Prod.mk.injEq] at h
              obtain ⟨_, h⟩ := h
              subst h
              omega
          | err e => simp
          | panic s => exact absurd hc (cp s)

/-- the main loop: with enough fuel and room for the `u32` envelope counter, no panic -/
theorem tapscriptLoop_total (input : Nat) (hi : input < 2 ^ 32) :
    ∀ (fuel : Nat) (stuttered : Bool) (count : Nat) (items : List Item),
      items.length < fuel → count + items.length ≤ 2 ^ 32 →
      ∀ s, tapscriptLoop input fuel stuttered count items ≠ .panic s := by
  intro fuel
  induction fuel with
  | zero => intro _ _ items h; omega
  | succ fuel ih =>
    intro stuttered count items hf hc s
    cases items with
    | nil => simp [tapscriptLoop]
    | cons x rest =>
      simp only [List.length_cons] at hf hc
      cases x with
      | error => simp [tapscriptLoop]
      | ok ins =>
        simp only [tapscriptLoop]
        split
        · obtain ⟨fp, fl⟩ := fromInstructions_spec input count stuttered rest hi (by omega)
          cases hfi : fromInstructions input count stuttered rest with
          | ok v =>
            obtain ⟨⟨st, o⟩, rest'⟩ := v
            have hl := fl _ _ hfi
            cases o with
            | none =>
              simp only
              exact ih st count rest' (by omega) (by omega) s
            | some env =>
              simp only
              have := ih stuttered (count + 1) rest' (by omega) (by omega)
              cases hr : tapscriptLoop input fuel stuttered (count + 1) rest' with
              | ok envs => simp
              | err e => simp
              | panic s' => exact absurd hr (this s')
          | err e => simp
          | panic s' => exact absurd hfi (fp s')
        · exact ih stuttered count rest (by omega) (by omega) s

theorem fromTapscript_total (input : Nat) (script : Bytes) (hi : input < 2 ^ 32)
    (hs : script.length ≤ 2 ^ 32) : ∀ s, fromTapscript input script ≠ .panic s := by
  have := instructions_length_le script
  exact tapscriptLoop_total input hi _ false 0 _ (by omega) (by omega)

theorem tapscriptOf_mem (w : List Bytes) (script : Bytes) (h : tapscriptOf w = some script) :
    script ∈ w := by
  unfold tapscriptOf at h
  have hm : ∀ x, x ∈ w.reverse → x ∈ w := fun x hx => by simpa using hx
  split at h
  · simp at h
  · simp at h
  · rename_i last second more heq
    split at h
    · split at h
      · simp at h
      · rename_i third _
        simp only [Option.some.injEq] at h
        subst h
        exact hm _ (by rw [heq]; simp)
    · simp only [Option.some.injEq] at h
      subst h
      exact hm _ (by rw [heq]; simp)

theorem rawFromWitnesses_total : ∀ (ws : List (List Bytes)) (i : Nat),
    i + ws.length ≤ 2 ^ 32 → (∀ w ∈ ws, ∀ e ∈ w, e.length ≤ 2 ^ 32) →
    ∀ s, rawFromWitnesses i ws ≠ .panic s := by
  intro ws
  induction ws with
  | nil => intro i _ _ s; simp [rawFromWitnesses]
  | cons w ws ih =>
    intro i hi hl s
    simp only [List.length_cons] at hi
    have ih' := ih (i + 1) (by omega) (fun w' hw' => hl w' (by simp [hw']))
    simp only [rawFromWitnesses]
    split
    · exact ih' s
    · rename_i script hts
      have hmem := tapscriptOf_mem w script hts
      have hlen := hl w (by simp) script hmem
      have ht := fromTapscript_total i script (by omega) hlen
      cases hft : fromTapscript i script with
      | ok envs =>
        simp only
        cases hr : rawFromWitnesses (i + 1) ws with
        | ok more => simp
        | err e => simp
        | panic s' => exact absurd hr (ih' s')
      | err e => exact ih' s
      | panic s' => exact absurd hft (ht s')

theorem bodyPos_bounds : ∀ (l : List Bytes) (i j : Nat), bodyPos i l = some j →
    i ≤ j ∧ j < i + l.length := by
  intro l
  induction l with
  | nil => intro i j h; simp [bodyPos] at h
  | cons p ps ih =>
    intro i j h
    simp only [bodyPos] at h
    split at h
    · simp only [Option.some.injEq] at h
      subst h; simp
    · have := ih (i + 1) j h
      simp only [List.length_cons]; omega

/-- `ParsedEnvelope::from` never panics: both slice indices are in range -/
theorem parse_total (e : Raw) : ∀ s, parse e ≠ .panic s := by
  intro s
  unfold parse
  cases hb : bodyPos 0 e.payload with
  | none => simp
  | some i =>
    have := bodyPos_bounds e.payload 0 i hb
    have h1 : i ≤ e.payload.length := by omega
    have h2 : i + 1 ≤ e.payload.length := by omega
    simp [h1, h2]

theorem parseAll_total : ∀ (es : List Raw) s, parseAll es ≠ .panic s := by
  intro es
  induction es with
  | nil => intro s; simp [parseAll]
  | cons e es ih =>
    intro s
    simp only [parseAll]
    cases hp : parse e with
    | ok p =>
      simp only
      cases hr : parseAll es with
      | ok ps => simp
      | err e => simp
      | panic s' => exact absurd hr (ih s')
    | err e => simp
    | panic s' => exact absurd hp (parse_total e s')

end Ord.Envelope
