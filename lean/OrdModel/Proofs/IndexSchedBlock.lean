import OrdModel.Proofs.IndexSchedRel
/-
C12 helper lemmas 5: one block.  `SRel` relates a concrete store (tables + pending cache) to the
abstract state in which everything was flushed after every block; `indexBlockC` vs `applyBlock`
preserve it, and so does `commit`.
-/
namespace Ord.Index.Sched
open Ord Ord.Index Outcome

theorem isSpecial_iff (op : OutPoint) : op.isSpecial = true ↔ op = OutPoint.null ∨ op = OutPoint.unbound := by
  obtain ⟨t, v⟩ := op
  simp only [OutPoint.isSpecial, OutPoint.null, OutPoint.unbound, Bool.and_eq_true, Bool.or_eq_true, beq_iff_eq,
    OutPoint.mk.injEq]
  constructor
  · rintro ⟨h1, h2 | h2⟩
    · exact Or.inl ⟨h1, h2⟩
    · exact Or.inr ⟨h1, h2⟩
  · rintro (⟨h1, h2⟩ | ⟨h1, h2⟩)
    · exact ⟨h1, Or.inl h2⟩
    · exact ⟨h1, Or.inr h2⟩

theorem null_ne_unbound : OutPoint.null ≠ OutPoint.unbound := by decide

theorem AL_get_append {κ ν : Type} [BEq κ] (l1 l2 : List (κ × ν)) (k : κ) :
    AL.get (l1 ++ l2) k = match AL.get l1 k with | some v => some v | none => AL.get l2 k := by
  induction l1 with
  | nil => rfl
  | cons p rest ih =>
    obtain ⟨k0, v0⟩ := p
    simp only [List.cons_append, AL.get]
    split
    · rfl
    · exact ih

theorem flushCache_script2out_noAddr (cfg : Cfg) (c : Cache) (st : State) (h : cfg.indexAddresses = false) :
    (flushCache cfg st c).script2out = st.script2out := by
  induction c generalizing st with
  | nil => rfl
  | cons p rest ih =>
    obtain ⟨op, e⟩ := p
    rw [flushCache_cons, ih, flushEntry_script2out, h]; rfl

theorem flushCache_seq2sp_noIns (cfg : Cfg) (c : Cache) (st : State) (h : cfg.indexInscriptions = false) :
    (flushCache cfg st c).seq2sp = st.seq2sp := by
  induction c generalizing st with
  | nil => rfl
  | cons p rest ih =>
    obtain ⟨op, e⟩ := p
    rw [flushCache_cons, ih, flushEntry_seq2sp, h]; rfl

/-! ### special entries keep the empty script -/

/-- forget the script of an optional entry -/
def gS (n : Option UtxoEntry) : Option UtxoEntry := n.map (fun e => { e with script := [] })

theorem pushHom_gS : PushHom gS := by
  intro n seq off
  cases n <;> rfl

/-- the special entries of the context carry the empty script -/
def SpOk (c : InsCtx) : Prop := tctx gS gS c = c

theorem gS_fix {n : Option UtxoEntry} (h : gS n = n) : ∀ e, n = some e → e.script = [] := by
  intro e he
  subst he
  simp only [gS, Option.map_some, Option.some.injEq] at h
  have := congrArg UtxoEntry.script h
  exact this.symm

theorem SpOk.null {c : InsCtx} (h : SpOk c) : ∀ e, c.nullEntry = some e → e.script = [] :=
  gS_fix (congrArg InsCtx.nullEntry h)
theorem SpOk.unbound {c : InsCtx} (h : SpOk c) : ∀ e, c.unboundEntry = some e → e.script = [] :=
  gS_fix (congrArg InsCtx.unboundEntry h)

theorem SpOk.of {c : InsCtx} (hn : ∀ e, c.nullEntry = some e → e.script = [])
    (hu : ∀ e, c.unboundEntry = some e → e.script = []) : SpOk c := by
  obtain ⟨fl, rw, ls, n, u, hc, ev⟩ := c
  simp only [SpOk, tctx, InsCtx.mk.injEq, true_and, and_true]
  simp only at hn hu
  constructor
  · cases n with
    | none => rfl
    | some e => obtain ⟨a, b, s, d⟩ := e; have := hn _ rfl; simp only at this; subst this; rfl
  · cases u with
    | none => rfl
    | some e => obtain ⟨a, b, s, d⟩ := e; have := hu _ rfl; simp only at this; subst this; rfl

theorem takeOne_ins (cfg : Cfg) (bc : BlockCtx) (i : TxIn) (bc' : BlockCtx) (e : UtxoEntry)
    (h : takeOne cfg bc i = .ok (bc', e)) : bc'.ins = bc.ins := by
  unfold takeOne at h
  split at h
  · simp only [Outcome.ok.injEq, Prod.mk.injEq] at h; rw [← h.1]
  · split at h
    · simp only at h
      split at h
      · split at h
        · simp only [Outcome.ok.injEq, Prod.mk.injEq] at h; rw [← h.1]
        · cases h
      · simp only [Outcome.ok.injEq, Prod.mk.injEq] at h; rw [← h.1]
    · cases h

theorem takeInputEntries_ins (cfg : Cfg) (inputs : List TxIn) (bc : BlockCtx) (acc : List (TxIn × UtxoEntry))
    (bc' : BlockCtx) (r : List (TxIn × UtxoEntry))
    (h : takeInputEntries cfg inputs bc acc = .ok (bc', r)) : bc'.ins = bc.ins := by
  induction inputs generalizing bc acc with
  | nil => simp only [takeInputEntries, Outcome.ok.injEq, Prod.mk.injEq] at h; rw [← h.1]
  | cons i rest ih =>
    rw [takeInputEntries_cons] at h
    split at h
    · rename_i bc1 e h1
      rw [ih _ _ h, takeOne_ins _ _ _ _ _ h1]
    · cases h
    · cases h

theorem indexTx_spOk (cfg : Cfg) (blk : Block) (insOn : Bool) (txOffset : Nat) (tx : Tx) (bc bc' : BlockCtx)
    (h : indexTx cfg blk insOn txOffset tx bc = .ok bc') (hs : SpOk bc.ins) : SpOk bc'.ins := by
  rw [indexTx_eq] at h
  have mid : ∀ (bc1 : BlockCtx) (inputs : List (TxIn × UtxoEntry)), SpOk bc1.ins →
      (match indexTxMid cfg blk insOn txOffset tx bc1 inputs with
        | .panic s => .panic s
        | .err e => .err e
        | .ok (bc3, outs3) => Outcome.ok { bc3 with cache := cacheIns tx.txid outs3 bc3.cache } : Outcome BlockCtx) = .ok bc' →
      SpOk bc'.ins := by
    intro bc1 inputs hs1 h1
    have := indexTxMid_tbc cfg blk insOn txOffset tx (tri bc1.st) gS gS pushHom_gS pushHom_gS bc1.cache bc1 inputs
    have hfix : tbc (tri bc1.st) gS gS bc1.cache bc1 = bc1 := by
      obtain ⟨st, c, cbi, lost, ins⟩ := bc1
      simp only [tbc, BlockCtx.mk.injEq, true_and, W_tri]
      exact hs1
    rw [hfix] at this
    cases hm : indexTxMid cfg blk insOn txOffset tx bc1 inputs with
    | panic s => rw [hm] at h1; cases h1
    | err e => rw [hm] at h1; cases h1
    | ok r =>
      obtain ⟨bc3, outs3⟩ := r
      rw [hm] at h1 this
      simp only [Outcome.ok.injEq] at h1
      simp only [omap_ok, Outcome.ok.injEq, Prod.mk.injEq, and_true] at this
      rw [← h1]
      show tctx gS gS bc3.ins = bc3.ins
      have h2 := congrArg BlockCtx.ins this
      simpa [tbc] using h2.symm
  by_cases hz : txOffset = 0
  · subst hz
    simp only [if_true] at h
    exact mid _ _ hs h
  · simp only [hz, if_false] at h
    cases ht : takeInputEntries cfg tx.inputs bc [] with
    | panic s => rw [ht] at h; cases h
    | err e => rw [ht] at h; cases h
    | ok r =>
      obtain ⟨bc1, inputs⟩ := r
      rw [ht] at h
      simp only at h
      exact mid bc1 inputs (by rw [takeInputEntries_ins _ _ _ _ _ _ ht]; exact hs) h

theorem indexTxs_spOk (cfg : Cfg) (blk : Block) (insOn : Bool) (l : List (Nat × Tx)) (bc bc' : BlockCtx)
    (h : indexTxs cfg blk insOn l bc = .ok bc') (hs : SpOk bc.ins) : SpOk bc'.ins := by
  induction l generalizing bc with
  | nil => simp only [indexTxs, Outcome.ok.injEq] at h; rw [← h]; exact hs
  | cons p rest ih =>
    obtain ⟨i, tx⟩ := p
    simp only [indexTxs] at h
    split at h
    · cases h
    · cases h
    · rename_i bc1 h1
      exact ih _ h (indexTx_spOk _ _ _ _ _ _ _ h1 hs)

/-! ### end of the block -/

/-- the special entries' cache rows -/
def specialOf (nullNew unb : Option UtxoEntry) : Cache :=
  (match nullNew with | some e => [(OutPoint.null, e)] | none => []) ++
  (match unb with | some e => [(OutPoint.unbound, e)] | none => [])

/-- the statistics written after the transactions of a block, and the null entry with the
block's lost ranges -/
def endState (cfg : Cfg) (blk : Block) (insOn : Bool) (bc : BlockCtx) : State × Option UtxoEntry :=
  let st1 := if insOn then { bc.st with height2lastseq := AL.set bc.st.height2lastseq blk.height bc.st.entries.length } else bc.st
  if bc.lostRanges.isEmpty then
    ({ st1 with lostSats := if cfg.indexSats then st1.lostSats else bc.ins.lostSats }, bc.ins.nullEntry)
  else
    ({ st1 with sat2sp := (lostRare st1.sat2sp bc.lostRanges st1.lostSats).1,
                lostSats := if cfg.indexSats then (lostRare st1.sat2sp bc.lostRanges st1.lostSats).2 else bc.ins.lostSats },
     some (UtxoEntry.merged (bc.ins.nullEntry.getD UtxoEntry.empty) ⟨0, bc.lostRanges, [], []⟩))

def blockOrder (blk : Block) : List (Nat × Tx) := (enumFrom 0 blk.txs).drop 1 ++ (enumFrom 0 blk.txs).take 1

def insOnOf (cfg : Cfg) (blk : Block) : Bool := blk.height ≥ cfg.firstInscriptionHeight && cfg.indexInscriptions

def coinbaseInputsOf (cfg : Cfg) (blk : Block) : List (Nat × Nat) :=
  if cfg.indexSats ∧ subsidy blk.height > 0 then [(startingSat blk.height, startingSat blk.height + subsidy blk.height)] else []

def bc0C (cfg : Cfg) (s : Store) (blk : Block) : BlockCtx :=
  { st := s.st, cache := (AL.erase (AL.erase s.cache OutPoint.null) OutPoint.unbound),
    coinbaseInputs := coinbaseInputsOf cfg blk,
    ins := { reward := subsidy blk.height, lostSats := s.st.lostSats, homeCount := s.st.home.length,
             nullEntry := AL.get s.cache OutPoint.null, unboundEntry := AL.get s.cache OutPoint.unbound } }

def bc0A (cfg : Cfg) (st : State) (blk : Block) : BlockCtx :=
  { st := st, coinbaseInputs := coinbaseInputsOf cfg blk,
    ins := { reward := subsidy blk.height, lostSats := st.lostSats, homeCount := st.home.length } }

theorem indexUtxoEntriesC_eq (cfg : Cfg) (s : Store) (blk : Block) :
    indexUtxoEntriesC cfg s blk =
      match indexTxs cfg blk (insOnOf cfg blk) (blockOrder blk) (bc0C cfg s blk) with
      | .panic e => .panic e
      | .err e => .err e
      | .ok bc =>
        .ok ({ st := (endState cfg blk (insOnOf cfg blk) bc).1,
               cache := bc.cache ++ specialOf (endState cfg blk (insOnOf cfg blk) bc).2 bc.ins.unboundEntry },
             bc.ins.events) := by
  unfold indexUtxoEntriesC insOnOf blockOrder bc0C coinbaseInputsOf
  dsimp only
  generalize indexTxs _ _ _ _ _ = r
  cases r with
  | panic e => rfl
  | err e => rfl
  | ok bc =>
    simp only [endState, specialOf]
    cases bc.lostRanges.isEmpty <;> rfl

theorem indexUtxoEntries_eq (cfg : Cfg) (st : State) (blk : Block) :
    indexUtxoEntries cfg st blk =
      match indexTxs cfg blk (insOnOf cfg blk) (blockOrder blk) (bc0A cfg st blk) with
      | .panic e => .panic e
      | .err e => .err e
      | .ok bc =>
        .ok (flushCache cfg (endState cfg blk (insOnOf cfg blk) bc).1
               (bc.cache ++ specialOf (endState cfg blk (insOnOf cfg blk) bc).2 bc.ins.unboundEntry),
             bc.ins.events) := by
  unfold indexUtxoEntries insOnOf blockOrder bc0A coinbaseInputsOf
  dsimp only
  generalize indexTxs _ _ _ _ _ = r
  cases r with
  | panic e => rfl
  | err e => rfl
  | ok bc =>
    simp only [endState, specialOf]
    cases bc.lostRanges.isEmpty <;> rfl

theorem endState_tri (cfg : Cfg) (blk : Block) (insOn : Bool) (bc : BlockCtx) :
    tri (endState cfg blk insOn bc).1 = tri bc.st := by
  unfold endState
  cases insOn <;> cases bc.lostRanges.isEmpty <;> rfl

theorem endState_tbc (cfg : Cfg) (blk : Block) (insOn : Bool) (x : Tri) (P : Option UtxoEntry)
    (gu : Option UtxoEntry → Option UtxoEntry) (c : Cache) (bc : BlockCtx) :
    endState cfg blk insOn (tbc x (mo P) gu c bc) =
      (W (endState cfg blk insOn bc).1 x, mo P (endState cfg blk insOn bc).2) := by
  unfold endState
  cases hl : bc.lostRanges.isEmpty with
  | true =>
    have : (tbc x (mo P) gu c bc).lostRanges.isEmpty = true := hl
    simp only [this, if_true]
    cases insOn <;> rfl
  | false =>
    have : (tbc x (mo P) gu c bc).lostRanges.isEmpty = false := hl
    simp only [this, Bool.false_eq_true, if_false]
    have hnull : some (UtxoEntry.merged ((tbc x (mo P) gu c bc).ins.nullEntry.getD UtxoEntry.empty) ⟨0, (tbc x (mo P) gu c bc).lostRanges, [], []⟩)
        = mo P (some (UtxoEntry.merged (bc.ins.nullEntry.getD UtxoEntry.empty) ⟨0, bc.lostRanges, [], []⟩)) := by
      show some (UtxoEntry.merged ((mo P bc.ins.nullEntry).getD UtxoEntry.empty) ⟨0, bc.lostRanges, [], []⟩) = _
      cases P with
      | none => simp
      | some p =>
        cases bc.ins.nullEntry with
        | none => simp [mo, UtxoEntry.merged, UtxoEntry.empty]
        | some e => simp [mo, merged_assoc]
    rw [hnull]
    cases insOn <;> rfl

end Ord.Index.Sched
