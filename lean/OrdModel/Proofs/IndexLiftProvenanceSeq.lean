import OrdModel.Proofs.IndexLiftProvenanceChain
/-
C07, provenance on reachable states, part 4: from ids to sequence numbers.  On a chain with
pairwise distinct txids (C05's hypothesis) inscription ids are injective, so the witness of
`run_pinv` speaks about the parent itself: its sequence number is listed on an input of the
reveal transaction, or it was created by (not before) that transaction.  Needs
* the ids of existing entries never change (`beforeTx_idStab`), and
* every entry present before a transaction carries the txid of an earlier transaction
  (`beforeTx_entry_txids`, from C05's `NInv`).
-/
namespace Ord.Index.Prov
open Ord Ord.Index Outcome Sched Insloc Insnum InsLift

/-! ### entry ids are permanent -/

/-- the entries `a` are still there, with their ids -/
def IdStab (a : List InsEntry) (t : Tabs) : Prop :=
  ∀ (q : Nat) (en : InsEntry), a[q]? = some en → ∃ en' : InsEntry, t.entries[q]? = some en' ∧ en'.id = en.id

theorem idStab_refl (st : State) : IdStab st.entries (tabs st) := fun _ en h => ⟨en, h, rfl⟩

theorem uloc_idStab {cfg : Cfg} {height time : Nat} {ir : Option (List (Nat × Nat))} {fl : Flotsam} {sp : SatPoint}
    {opr : Bool} {tgt : Target} {ls ls' : LocState}
    (h : updateInscriptionLocation cfg height time ir fl sp opr tgt ls = .ok ls') :
    IdStab ls.st.entries (tabs ls'.st) := by
  rw [uloc_unfold] at h
  obtain ⟨ub, seq, st, ctx, hstep⟩ := finish_ok h
  rw [hstep] at h
  obtain ⟨htabs, _⟩ := finish_inv h
  rw [htabs]
  cases hfo : fl.origin with
  | old oseq oldSp =>
    rw [hfo] at hstep
    simp only at hstep
    obtain ⟨_, hcase⟩ := oldStep_inv hstep
    rcases hcase with ht | ⟨entry, he, ht⟩
    · rw [ht]; exact idStab_refl _
    · rw [ht]
      intro q en hq
      exact set_burn_fwd _ oseq entry he q en hq
  | new c fee g hid ps r u v =>
    rw [hfo] at hstep
    simp only at hstep
    obtain ⟨sat, st3, pids, pseqs, _, _, hlink, _, _, _, ht⟩ := newStep_inv hstep
    have heA : (allocState ls.st c sat).entries = ls.st.entries := by
      have := congrArg Tabs.entries (allocState_tabs ls.st c sat); exact this
    have he3 : st3.entries = ls.st.entries := by
      rw [(Insnum.linkParents_frame _ _ _ _ _ _ _ _ hlink).1, heA]
    rw [ht]
    intro q en hq
    refine ⟨en, ?_, rfl⟩
    show (st3.entries ++ [_])[q]? = some en
    rw [he3]
    exact getElem?_append_some _ _ _ _ hq

theorem idStab_stable (a : List InsEntry) : UlocStable (IdStab a) := by
  intro cfg height time ir fl sp opr tgt ls ls' h h0 q en hq
  obtain ⟨e1, h1, hid1⟩ := h0 q en hq
  obtain ⟨e2, h2, hid2⟩ := uloc_idStab h q e1 h1
  exact ⟨e2, h2, hid2.trans hid1⟩

/-! ### the chain fold, split -/

theorem runFrom_append (cfg : Cfg) (a c : List Block) (s st : State) (evs : List Event)
    (h : runFrom cfg s (a ++ c) = .ok (st, evs)) :
    ∃ (s1 : State) (e1 e2 : List Event), runFrom cfg s a = .ok (s1, e1) ∧ runFrom cfg s1 c = .ok (st, e2) := by
  induction a generalizing s evs with
  | nil => exact ⟨s, [], evs, rfl, h⟩
  | cons x rest ih =>
    simp only [List.cons_append, runFrom] at h
    split at h
    · cases h
    · cases h
    · rename_i st1 ev1 hx
      split at h
      · cases h
      · cases h
      · rename_i st2 ev2 hrest
        simp only [Outcome.ok.injEq, Prod.mk.injEq] at h
        obtain ⟨rfl, _⟩ := h
        obtain ⟨s1, e1, e2, k1, k2⟩ := ih st1 ev2 hrest
        exact ⟨s1, ev1 ++ e1, e2, by simp only [runFrom, hx, k1], k2⟩

theorem runFrom_tabsP {P : Tabs → Prop} (hP : UlocStable P) (cfg : Cfg) (bs : List Block) (s st : State)
    (evs : List Event) (h : runFrom cfg s bs = .ok (st, evs)) (h0 : P (tabs s)) : P (tabs st) :=
  runFrom_induct cfg (fun _ st _ => P (tabs st))
    (fun _ st _ b st' ev' hp hb => applyBlock_tabsP hP cfg st b st' ev' hb hp) bs [] s [] st evs h0 h

/-- from the context before a transaction to the end of its block -/
theorem applyBlock_idStab (cfg : Cfg) (st0 : State) (b : Block) (st1 : State) (ev1 : List Event) (k : Nat) (bc : BlockCtx)
    (h : applyBlock cfg st0 b = .ok (st1, ev1)) (hon : insOnOf cfg b = true)
    (htake : indexTxs cfg b (insOnOf cfg b) ((blockOrder b).take k) (bc0A cfg st0 b) = .ok bc) :
    IdStab bc.st.entries (tabs st1) := by
  have hins : cfg.indexInscriptions = true := by
    simp only [insOnOf, Bool.and_eq_true] at hon
    exact hon.2
  unfold applyBlock at h
  simp only [hins, Bool.true_or, if_true] at h
  cases hu : indexUtxoEntries cfg st0 b with
  | panic e => rw [hu] at h; cases h
  | err e => rw [hu] at h; cases h
  | ok r =>
    obtain ⟨a1, ev1'⟩ := r
    rw [hu] at h
    simp only at h
    rw [tabs_of_insCore (applyBlock_after cfg b a1 ev1' st1 ev1 h)]
    rw [indexUtxoEntries_eq] at hu
    cases ht : indexTxs cfg b (insOnOf cfg b) (blockOrder b) (bc0A cfg st0 b) with
    | panic e => rw [ht] at hu; cases hu
    | err e => rw [ht] at hu; cases hu
    | ok bcE =>
      rw [ht] at hu
      simp only [Outcome.ok.injEq, Prod.mk.injEq] at hu
      rw [← hu.1, tabs_of_core (flushCache_core cfg _ _), endState_tabs]
      rw [← List.take_append_drop k (blockOrder b), indexTxs_append, htake] at ht
      exact indexTxs_tabsP (idStab_stable _) _ _ _ _ _ _ ht (idStab_refl _)

/-- **Entry ids are permanent**: the entries the updater saw just before a transaction of the chain
are still there after the whole chain, with the same ids. -/
theorem beforeTx_idStab (cfg : Cfg) (pre : List Block) (b : Block) (post : List Block) (k : Nat) (bc : BlockCtx)
    (st : State) (evs : List Event) (hrun : run cfg (pre ++ b :: post) = .ok (st, evs))
    (hb : BeforeTx cfg pre b k bc) (hon : insOnOf cfg b = true) : IdStab bc.st.entries (tabs st) := by
  obtain ⟨st0, ev0, hpre, htake⟩ := hb
  obtain ⟨s1, e1, e2, h1, h2⟩ := runFrom_append cfg pre (b :: post) {} st evs hrun
  have hs : s1 = st0 := by
    have : runFrom cfg {} pre = .ok (st0, ev0) := hpre
    rw [h1] at this
    simp only [Outcome.ok.injEq, Prod.mk.injEq] at this
    exact this.1
  subst hs
  simp only [runFrom] at h2
  split at h2
  · cases h2
  · cases h2
  · rename_i st1 ev1 hblk
    split at h2
    · cases h2
    · cases h2
    · rename_i st2 ev2 hrest
      simp only [Outcome.ok.injEq, Prod.mk.injEq] at h2
      obtain ⟨rfl, _⟩ := h2
      exact runFrom_tabsP (idStab_stable _) cfg post st1 st2 ev2 hrest
        (applyBlock_idStab cfg s1 b st1 ev1 k bc hblk hon htake)

/-! ### where the entries present before a transaction come from -/

theorem blockOrder_txids_perm (b : Block) : ((blockOrder b).map (·.2.txid)).Perm (b.txs.map (·.txid)) := by
  have := (blockOrder_perm b).map (·.txid)
  simpa [List.map_map, Function.comp_def] using this

/-- on a chain with pairwise distinct txids, every entry present just before a transaction carries
the txid of a transaction indexed before it -/
theorem beforeTx_entry_txids (cfg : Cfg) (pre : List Block) (b : Block) (k : Nat) (bc : BlockCtx)
    (hnd : (Sched.chainTxids (pre ++ [b])).Nodup) (hb : BeforeTx cfg pre b k bc) :
    ∀ id ∈ bc.st.entries.map (·.id), id.txid ∈ Sched.chainTxids pre ∨ id.txid ∈ ((blockOrder b).take k).map (·.2.txid) := by
  obtain ⟨st0, ev0, hpre, htake⟩ := hb
  rw [chainTxids_append'] at hnd
  have hq := List.nodup_append.1 hnd
  have hbt : Sched.chainTxids [b] = b.txs.map (·.txid) := by simp [Sched.chainTxids]
  rw [hbt] at hq
  have hS := run_n5 cfg pre st0 ev0 hq.1 hpre
  have hpt := blockOrder_txids_perm b
  have hstart : NInv cfg b.height (Sched.chainTxids pre) (bc0A cfg st0 b) := by
    refine ⟨⟨hS.inv5, hS.jinv, by simp [bc0A, newIds], by simp [bc0A, newIds], by simp [bc0A, FlJ]⟩, ?_⟩
    intro id hid
    simp only [bc0A, newIds, List.filter_nil, List.map_nil, List.append_nil] at hid
    exact hS.prov id hid
  have hsub : List.Sublist (((blockOrder b).take k).map (·.2.txid)) ((blockOrder b).map (·.2.txid)) :=
    (List.take_sublist k (blockOrder b)).map _
  have n := indexTxs_ninv cfg b (insOnOf cfg b) ((blockOrder b).take k) (Sched.chainTxids pre)
    (hsub.nodup (hpt.nodup_iff.2 hq.2.1))
    (fun p hp hs => hq.2.2 _ hs _ (hpt.mem_iff.1 (List.mem_map.2 ⟨p, List.mem_of_mem_take hp, rfl⟩)) rfl)
    _ bc hstart htake
  intro id hid
  have := n.prov id (List.mem_append_left _ hid)
  rw [mem_seenAfter] at this
  exact this

/-- the transaction at position `k` of a block's indexing order is none of the earlier ones, nor
one of an earlier block, if the chain's txids are pairwise distinct -/
theorem txid_fresh_at (pre : List Block) (b : Block) (k i : Nat) (tx : Tx)
    (hnd : (Sched.chainTxids (pre ++ [b])).Nodup) (hk : (blockOrder b)[k]? = some (i, tx)) :
    tx.txid ∉ Sched.chainTxids pre ∧ tx.txid ∉ ((blockOrder b).take k).map (·.2.txid) := by
  rw [chainTxids_append'] at hnd
  have hq := List.nodup_append.1 hnd
  have hbt : Sched.chainTxids [b] = b.txs.map (·.txid) := by simp [Sched.chainTxids]
  rw [hbt] at hq
  have hpt := blockOrder_txids_perm b
  have hmemO : (i, tx) ∈ blockOrder b := List.mem_of_getElem? hk
  have hmem : tx.txid ∈ b.txs.map (·.txid) := hpt.mem_iff.1 (List.mem_map.2 ⟨(i, tx), hmemO, rfl⟩)
  refine ⟨fun hs => hq.2.2 _ hs _ hmem rfl, ?_⟩
  have hlt : k < (blockOrder b).length := (List.getElem?_eq_some_iff.1 hk).1
  have hget : (blockOrder b)[k] = (i, tx) := (List.getElem?_eq_some_iff.1 hk).2
  have hsplit : blockOrder b = (blockOrder b).take k ++ (i, tx) :: (blockOrder b).drop (k + 1) := by
    rw [← hget, List.getElem_cons_drop, List.take_append_drop]
  have hndO : ((blockOrder b).map (·.2.txid)).Nodup := hpt.nodup_iff.2 hq.2.1
  rw [hsplit, List.map_append, List.map_cons] at hndO
  intro hm
  exact (List.nodup_append.1 hndO).2.2 _ hm _ List.mem_cons_self rfl

/-! ### the parent itself -/

/-- the sequence number `p` is listed on a UTXO entry held at a non-null previous output of `tx` -/
def SpentSeq (bc : BlockCtx) (txOffset : Nat) (tx : Tx) (p : Nat) : Prop :=
  txOffset ≠ 0 ∧ ∃ inp ∈ tx.inputs, inp.prev.isNull = false ∧
    ∃ e : UtxoEntry, ((inp.prev, e) ∈ bc.cache ∨ (inp.prev, e) ∈ bc.st.utxo) ∧ ∃ off : Nat, (p, off) ∈ e.ins

/-- **Provenance, sequence-number form**: on a chain with pairwise distinct txids the parent `p`
of a children row `(p, c)` is itself listed on an input of the child's reveal transaction, or was
created by (not before) that transaction. -/
theorem run_provenance_seq (cfg : Cfg) (chain : List Block) (st : State) (evs : List Event)
    (hnd : (Sched.chainTxids chain).Nodup) (h : run cfg chain = .ok (st, evs)) (p c : Nat) (hpc : (p, c) ∈ st.children) :
    ∃ (ep ec : InsEntry), st.entries[p]? = some ep ∧ st.entries[c]? = some ec ∧
    ∃ (pre : List Block) (b : Block) (post : List Block) (k i : Nat) (tx : Tx) (bc : BlockCtx),
      chain = pre ++ b :: post ∧ (blockOrder b)[k]? = some (i, tx) ∧ BeforeTx cfg pre b k bc ∧
      insOnOf cfg b = true ∧ (∃ bc', indexTx cfg b (insOnOf cfg b) i tx bc = .ok bc') ∧
      RevealedBy tx ec.id ∧ bc.st.entries.length ≤ c ∧
      (SpentSeq bc i tx p ∨ (RevealedBy tx ep.id ∧ bc.st.entries.length ≤ p)) := by
  obtain ⟨ep, ec, h1, h2, pre, b, post, k, i, tx, bc, w1, w2, w3, w4, w5, w6, w7, w8⟩ :=
    (run_pinv cfg chain st evs h).prov p c hpc
  have h1 : st.entries[p]? = some ep := h1
  have h2 : st.entries[c]? = some ec := h2
  refine ⟨ep, ec, h1, h2, pre, b, post, k, i, tx, bc, w1, w2, w3, w4, w5, w6, w8, ?_⟩
  have hstab : IdStab bc.st.entries (tabs st) := beforeTx_idStab cfg pre b post k bc st evs (w1 ▸ h) w3 w4
  have hndp : (Sched.chainTxids (pre ++ [b])).Nodup := by
    have hc : chain = (pre ++ [b]) ++ post := by rw [w1]; simp
    rw [hc, chainTxids_append'] at hnd
    exact (List.nodup_append.1 hnd).1
  rcases w7 with ⟨hz, inp, hinp, hnull, e, hmem, q, off, en, hq, hen, hid⟩ | hrev
  · -- spent: `q` and `p` carry the same id in the final state, and ids are injective there
    left
    obtain ⟨en', hen', hid'⟩ := hstab q en hen
    have hinv := (run_n5 cfg chain st evs hnd h).inv5
    have g1 := hinv.id_fwd q en' hen'
    have g2 := hinv.id_fwd p ep h1
    rw [hid', hid] at g1
    rw [g1] at g2
    simp only [Option.some.injEq] at g2
    subst g2
    exact ⟨hz, inp, hinp, hnull, e, hmem, off, hq⟩
  · -- revealed: an entry present before `tx` cannot carry the txid of `tx`
    right
    refine ⟨hrev, ?_⟩
    apply Nat.le_of_not_lt
    intro hlt
    obtain ⟨x, hx⟩ : ∃ x : InsEntry, bc.st.entries[p]? = some x := ⟨_, List.getElem?_eq_getElem hlt⟩
    obtain ⟨x', hx', hidx⟩ := hstab p x hx
    have hx'' : st.entries[p]? = some x' := hx'
    rw [h1] at hx''
    simp only [Option.some.injEq] at hx''
    subst hx''
    have hsrc := beforeTx_entry_txids cfg pre b k bc hndp w3 x.id
      (List.mem_map.2 ⟨x, List.mem_of_getElem? hx, rfl⟩)
    obtain ⟨f1, f2⟩ := txid_fresh_at pre b k i tx hndp w2
    rw [← hidx, hrev.1] at hsrc
    rcases hsrc with hsrc | hsrc
    · exact f1 hsrc
    · exact f2 hsrc

end Ord.Index.Prov
