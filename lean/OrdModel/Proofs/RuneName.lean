import OrdModel.Num.RuneName
/-! Helper lemmas for C32 / C31 (rune names): bijective base 26. -/
namespace Ord.Rune

theorem letter_toNat : ∀ d, d < 26 → (letter d).toNat = 65 + d := by decide

theorem digit_letter (d : Nat) (h : d < 26) : digit (letter d) = d := by
  simp [digit, letter_toNat d h]

theorem isUpper_letter (d : Nat) (h : d < 26) : isUpper (letter d) = true := by
  simp [isUpper, letter_toNat d h]; omega

theorem digit_lt {c : Char} (h : isUpper c = true) : digit c < 26 := by
  simp [isUpper] at h; simp [digit]; omega

theorem letter_digit {c : Char} (h : isUpper c = true) : letter (digit c) = c := by
  simp [isUpper] at h
  have h1 : 65 + digit c = c.toNat := by simp [digit]; omega
  simp [letter, h1]

/-! ### `bij` / `bijRev` -/

theorem bij_append_singleton (l : List Char) (c : Char) :
    bij (l ++ [c]) = bij l * 26 + (digit c + 1) := by
  simp [bij, List.foldl_append]

theorem bij_reverse (l : List Char) : bij l.reverse = bijRev l := by
  induction l with
  | nil => rfl
  | cons c cs ih => rw [List.reverse_cons, bij_append_singleton, ih]; rfl

theorem bij_eq_bijRev (s : List Char) : bij s = bijRev s.reverse := by
  rw [← bij_reverse, List.reverse_reverse]

/-- the printed symbols denote the number that was printed -/
theorem bijRev_symbolRev (m : Nat) : bijRev (symbolRev m) = m := by
  induction m using Nat.strongRecOn with
  | _ m ih =>
    rw [symbolRev]
    split
    · simp [bijRev, *]
    · rename_i h
      have hlt : (m - 1) % 26 < 26 := Nat.mod_lt _ (by omega)
      simp only [bijRev, digit_letter _ hlt, ih ((m - 1) / 26) (by omega)]
      omega

theorem symbolRev_upper (m : Nat) : ∀ c ∈ symbolRev m, isUpper c = true := by
  induction m using Nat.strongRecOn with
  | _ m ih =>
    rw [symbolRev]
    split
    · simp
    · intro c hc
      rcases List.mem_cons.mp hc with rfl | hc
      · exact isUpper_letter _ (Nat.mod_lt _ (by omega))
      · exact ih ((m - 1) / 26) (by omega) c hc

/-- printing the value of an upper-case symbol list gives the list back -/
theorem symbolRev_bijRev (l : List Char) (h : ∀ c ∈ l, isUpper c = true) :
    symbolRev (bijRev l) = l := by
  induction l with
  | nil => rw [bijRev, symbolRev]; simp
  | cons c cs ih =>
    have hc := h c (by simp)
    have hd := digit_lt hc
    have ihc := ih (fun c' hc' => h c' (by simp [hc']))
    rw [bijRev, symbolRev]
    have h1 : (bijRev cs * 26 + (digit c + 1) - 1) % 26 = digit c := by omega
    have h2 : (bijRev cs * 26 + (digit c + 1) - 1) / 26 = bijRev cs := by omega
    have h3 : ¬ (bijRev cs * 26 + (digit c + 1) = 0) := by omega
    simp only [h3, if_false, h1, h2, ihc, letter_digit hc]

theorem symbolRev_ne_nil {m : Nat} (h : 0 < m) : symbolRev m ≠ [] := by
  rw [symbolRev]; split
  · omega
  · simp

theorem bij_printGen (n : Nat) : bij (printGen n) = n + 1 := by
  rw [printGen, bij_reverse, bijRev_symbolRev]

theorem printGen_upper (n : Nat) : ∀ c ∈ printGen n, isUpper c = true := by
  intro c hc
  exact symbolRev_upper (n + 1) c (by simpa [printGen] using hc)

theorem printGen_ne_nil (n : Nat) : printGen n ≠ [] := by
  simp [printGen, symbolRev_ne_nil (Nat.succ_pos n)]

theorem printGen_bij (s : List Char) (hne : s ≠ []) (h : ∀ c ∈ s, isUpper c = true) :
    printGen (bij s - 1) = s := by
  have hpos : 0 < bijRev s.reverse := by
    cases hr : s.reverse with
    | nil => simp at hr; exact absurd hr hne
    | cons c cs => simp only [bijRev]; omega
  rw [printGen, bij_eq_bijRev, Nat.sub_add_cancel hpos,
    symbolRev_bijRev _ (by intro c hc; exact h c (by simpa using hc)), List.reverse_reverse]

/-- bijective base 26 is injective on upper-case names -/
theorem bij_injective {s t : List Char} (hs : ∀ c ∈ s, isUpper c = true)
    (ht : ∀ c ∈ t, isUpper c = true) (h : bij s = bij t) : s = t := by
  have h1 := symbolRev_bijRev s.reverse (by intro c hc; exact hs c (by simpa using hc))
  have h2 := symbolRev_bijRev t.reverse (by intro c hc; exact ht c (by simpa using hc))
  rw [bij_eq_bijRev, bij_eq_bijRev] at h
  rw [h] at h1
  have := h1.symm.trans h2
  simpa using this

/-! ### the special case -/

theorem bij_maxName : bij maxName = U128 := by decide

theorem maxName_upper : ∀ c ∈ maxName, isUpper c = true := by decide

/-- the literal written for `u128::MAX` is what the generic branch would have produced -/
theorem print_eq_printGen (n : Nat) : print n = printGen n := by
  unfold print
  split
  · rename_i h
    subst h
    have := printGen_bij maxName (by decide) maxName_upper
    rw [bij_maxName] at this
    exact this.symm
  · rfl

/-! ### the parser -/

/-- value reached from accumulator `y` (already incremented) -/
def bijFrom (y : Nat) (cs : List Char) : Nat := cs.foldl (fun y c => y * 26 + (digit c + 1)) y

theorem bijFrom_cons (y : Nat) (c : Char) (cs : List Char) :
    bijFrom y (c :: cs) = bijFrom (y * 26 + (digit c + 1)) cs := rfl

theorem le_bijFrom (cs : List Char) : ∀ y, y ≤ bijFrom y cs := by
  induction cs with
  | nil => intro y; simp [bijFrom]
  | cons c cs ih =>
    intro y
    rw [bijFrom_cons]
    have := ih (y * 26 + (digit c + 1))
    omega

theorem bij_cons (c : Char) (cs : List Char) : bij (c :: cs) = bijFrom (digit c + 1) cs := by
  simp [bij, bijFrom]

/-- soundness of the loop after the first character -/
theorem parseLoop_false_ok : ∀ (cs : List Char) (x v : Nat),
    parseLoop false x cs = .ok v →
    (∀ c ∈ cs, isUpper c = true) ∧ bijFrom (x + 1) cs = v + 1 ∧ (x < U128 → v < U128) := by
  intro cs
  induction cs with
  | nil => intro x v h; simp [parseLoop] at h; subst h; simp [bijFrom]
  | cons c cs ih =>
    intro x v h
    simp only [parseLoop, Bool.false_eq_true, if_false] at h
    split at h
    · cases h
    · split at h
      · cases h
      · split at h
        · rename_i hup
          split at h
          · cases h
          · rename_i hx3
            obtain ⟨h1, h2, h3⟩ := ih _ _ h
            refine ⟨?_, ?_, ?_⟩
            · intro c' hc'
              rcases List.mem_cons.mp hc' with rfl | hc'
              · exact hup
              · exact h1 c' hc'
            · rw [bijFrom_cons]
              have : (x + 1) * 26 + (digit c + 1) = (x + 1) * 26 + digit c + 1 := by omega
              rw [this]; exact h2
            · intro _; exact h3 (by omega)
        · cases h

/-- completeness of the loop after the first character -/
theorem parseLoop_false_complete : ∀ (cs : List Char) (x : Nat),
    (∀ c ∈ cs, isUpper c = true) → x < U128 → bijFrom (x + 1) cs ≤ U128 →
    parseLoop false x cs = .ok (bijFrom (x + 1) cs - 1) := by
  intro cs
  induction cs with
  | nil => intro x _ _ _; simp [parseLoop, bijFrom]
  | cons c cs ih =>
    intro x hup hx hb
    have hc := hup c (by simp)
    rw [bijFrom_cons] at hb ⊢
    have hmono := le_bijFrom cs ((x + 1) * 26 + (digit c + 1))
    have h1 : ¬ (x + 1 ≥ U128) := by omega
    have h2 : ¬ ((x + 1) * 26 ≥ U128) := by omega
    have h3 : ¬ ((x + 1) * 26 + digit c ≥ U128) := by omega
    simp only [parseLoop, Bool.false_eq_true, if_false, h1, h2, h3, hc, if_true]
    have := ih ((x + 1) * 26 + digit c) (fun c' hc' => hup c' (by simp [hc'])) (by omega)
      (by
        have e : (x + 1) * 26 + digit c + 1 = (x + 1) * 26 + (digit c + 1) := by omega
        rw [e]; exact hb)
    rw [this]
    have e : (x + 1) * 26 + digit c + 1 = (x + 1) * 26 + (digit c + 1) := by omega
    rw [e]

theorem parseLoop_ne_panic : ∀ (cs : List Char) (b : Bool) (x : Nat) (p : String),
    parseLoop b x cs ≠ .panic p := by
  intro cs
  induction cs with
  | nil => intro b x p; simp [parseLoop]
  | cons c cs ih =>
    intro b x p
    simp only [parseLoop]
    repeat' split
    all_goals first | exact ih _ _ _ | simp

/-- exact characterisation of the accepted strings -/
theorem parse_ok_iff (s : List Char) (v : Nat) :
    parse s = .ok v ↔
      (s = [] ∧ v = 0) ∨ (s ≠ [] ∧ (∀ c ∈ s, isUpper c = true) ∧ bij s = v + 1 ∧ v < U128) := by
  cases s with
  | nil => simp [parse, parseLoop]; exact eq_comm
  | cons c cs =>
    simp only [parse, parseLoop, if_true]
    have hU : ¬ (0 ≥ U128) := by decide
    have hU' : ¬ (0 * 26 ≥ U128) := by decide
    simp only [hU, if_false, Nat.zero_mul, Nat.zero_add]
    constructor
    · intro h
      right
      split at h
      · rename_i hup
        split at h
        · cases h
        · rename_i hd
          obtain ⟨h1, h2, h3⟩ := parseLoop_false_ok _ _ _ h
          refine ⟨by simp, ?_, ?_, h3 (by omega)⟩
          · intro c' hc'
            rcases List.mem_cons.mp hc' with rfl | hc'
            · exact hup
            · exact h1 c' hc'
          · rw [bij_cons]; exact h2
      · cases h
    · intro h
      rcases h with ⟨h, _⟩ | ⟨_, hup, hb, hv⟩
      · cases h
      · have hc := hup c (by simp)
        rw [bij_cons] at hb
        have hmono := le_bijFrom cs (digit c + 1)
        have hd : ¬ (digit c ≥ U128) := by omega
        simp only [hc, if_true, hd, if_false]
        rw [parseLoop_false_complete cs (digit c) (fun c' hc' => hup c' (by simp [hc'])) (by omega)
          (by omega)]
        congr 1; omega

end Ord.Rune
