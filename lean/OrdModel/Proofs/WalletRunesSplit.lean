import OrdModel.Proofs.WalletRunesSendTx
/- C22 helper lemmas, part 4: the split file scan (zero amounts are rejected). -/
namespace Ord.Wallet.RuneTx
open Ord Ord.Index Ord.Index.Spec

theorem scanRunes_ok : ∀ (runes acc acc' : List (Nat × Nat)), scanRunes runes acc = .ok acc' →
    ∀ p ∈ runes, p.2 ≠ 0 := by
  intro runes
  induction runes with
  | nil => intro _ _ _ p hp; simp at hp
  | cons x rest ih =>
    intro acc acc' h p hp
    obtain ⟨r, a⟩ := x
    simp only [scanRunes] at h
    split at h
    · cases h
    · rename_i ha
      split at h
      · rcases List.mem_cons.mp hp with hp | hp
        · subst hp; exact ha
        · exact ih _ _ h p hp
      · cases h

theorem scanOutputs_ok : ∀ (outs : List SplitOut) (acc req : List (Nat × Nat)), scanOutputs outs acc = .ok req →
    ∀ o ∈ outs, ∀ p ∈ o.runes, p.2 ≠ 0 := by
  intro outs
  induction outs with
  | nil => intro _ _ _ o ho; simp at ho
  | cons x rest ih =>
    intro acc req h o ho
    simp only [scanOutputs] at h
    split at h
    · rename_i acc' hsr
      rcases List.mem_cons.mp ho with ho | ho
      · subst ho; exact scanRunes_ok _ _ _ hsr
      · exact ih _ _ h o ho
    · cases h
    · cases h

/-- a split file with a zero amount anywhere never produces a transaction -/
theorem split_zero_rejected (inv : List WOut) (ids : Nat → RuneId) (noLimit : Bool) (postage : Option Nat)
    (changeDust : Nat) (outputs : List SplitOut) (o : SplitOut) (p : Nat × Nat)
    (ho : o ∈ outputs) (hp : p ∈ o.runes) (hz : p.2 = 0) (tx : Tx) :
    split inv ids noLimit postage changeDust outputs ≠ .ok tx := by
  intro h
  unfold split at h
  split at h
  · cases h
  · simp only at h
    split at h
    · cases h
    · split at h
      · cases h
      · cases h
      · rename_i req hreq
        exact scanOutputs_ok outputs [] req hreq o ho p hp hz

end Ord.Wallet.RuneTx
