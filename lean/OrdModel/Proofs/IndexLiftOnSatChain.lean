import OrdModel.Proofs.IndexLiftOnSatBlock
/-
C03 lift to reachable states, part 6: the chain.  `UtxoSat` holds in every reachable state of the
full index model with the sat index on (chain hypotheses: `InsLift.InsChain`), and together with
C04's `InsPartitioned` (every inscription is listed by exactly one row, and `seq2sp` says what the
rows say) it gives C03's `OnSat`.
-/
namespace Ord.Index.OnSatLift
open Ord Ord.Index Outcome Sched
open Ord.Index.Insloc hiding den den_nil den_cons den_append

/-! ### `run` one block further -/

theorem runFrom_snoc (cfg : Cfg) (pre : List Block) (b : Block) (st0 st st' : State) (evs ev' : List Event)
    (h1 : runFrom cfg st0 pre = .ok (st, evs)) (h2 : applyBlock cfg st b = .ok (st', ev')) :
    runFrom cfg st0 (pre ++ [b]) = .ok (st', evs ++ ev') := by
  induction pre generalizing st0 evs with
  | nil =>
    simp only [runFrom, Outcome.ok.injEq, Prod.mk.injEq] at h1
    obtain ⟨rfl, rfl⟩ := h1
    simp [runFrom, h2]
  | cons x rest ih =>
    simp only [runFrom] at h1
    split at h1
    · cases h1
    · cases h1
    · rename_i s1 e1 hx
      split at h1
      · cases h1
      · cases h1
      · rename_i s2 e2 hr
        simp only [Outcome.ok.injEq, Prod.mk.injEq] at h1
        obtain ⟨rfl, rfl⟩ := h1
        have := ih s1 e2 hr
        simp only [List.cons_append, runFrom, hx, this, List.append_assoc]

theorem run_snoc (cfg : Cfg) (pre : List Block) (b : Block) (st st' : State) (evs ev' : List Event)
    (h1 : run cfg pre = .ok (st, evs)) (h2 : applyBlock cfg st b = .ok (st', ev')) :
    run cfg (pre ++ [b]) = .ok (st', evs ++ ev') :=
  runFrom_snoc cfg pre b {} st st' evs ev' h1 h2

/-! ### no inscriptions: nothing listed -/

theorem utxoSat_of_no_entries (cfg : Cfg) (st : State) (hp : InsPartitioned cfg st)
    (hz : st.entries.length = 0) : UtxoSat st := by
  have hnil : allSeqs st.utxo = [] := by
    have := hp.perm
    rw [hz] at this
    exact List.perm_nil.1 (by simpa using this)
  have hno : ∀ p ∈ st.utxo, ∀ seq off, (seq, off) ∈ p.2.ins → False := by
    intro p hp' seq off hm
    have : seq ∈ allSeqs st.utxo :=
      (InsLift.mem_allSeqs _ _).2 ⟨p.1, off, (mem_allIns _ _ _ _).2 ⟨p.2, hp', hm⟩⟩
    rw [hnil] at this
    cases this
  intro p hp'
  exact ⟨fun _ seq off hm => (hno p hp' seq off hm).elim, fun _ seq off hm => (hno p hp' seq off hm).elim⟩

/-! ### the chain -/

/-- **every reachable state (sat index on) has every table row on its sats** -/
theorem run_utxoSat (cfg : Cfg) (hs : cfg.indexSats = true) (chain : List Block) (st : State) (evs : List Event)
    (hc : InsLift.InsChainOK [] chain) (hp : ChainPlain chain)
    (h : run cfg chain = .ok (st, evs)) : UtxoSat st := by
  have := run_induct cfg
    (fun pre st evs => InsLift.InsChainOK [] pre → ChainPlain pre → run cfg pre = .ok (st, evs) ∧ UtxoSat st)
    ?_ ?_ chain st evs h
  · exact (this hc hp).2
  · intro _ _
    exact ⟨rfl, fun p hp => by cases hp⟩
  · intro pre st evs b st' ev' hP hb hq hpl
    obtain ⟨q1, q2, q3, q4⟩ := hq.snoc
    have hpl1 : ChainPlain pre := fun x hx => hpl x (List.mem_append_left _ hx)
    obtain ⟨hrun, hU⟩ := hP q1 hpl1
    have hrun' := run_snoc cfg pre b st st' evs ev' hrun hb
    refine ⟨hrun', ?_⟩
    cases hon : insOnOf cfg b with
    | true =>
      exact applyBlock_utxoSat cfg hs st b st' ev' (hpl b (by simp)) q3 hon
        (reachable_nullLen cfg hs pre hpl1 st evs hrun) hU hb
    | false =>
      -- no inscription pass: there are no inscriptions before or after
      obtain ⟨hS, hE⟩ := InsLift.run_chainInv cfg pre st evs q1 hrun
      have hz : st.entries.length = 0 := by
        apply Classical.byContradiction
        intro hne
        obtain ⟨hidx, x, hx, hxh⟩ := hE (Nat.pos_of_ne_zero hne)
        have := q4 x hx
        have : insOnOf cfg b = true := by
          simp only [insOnOf, hidx, Bool.and_true, decide_eq_true_eq]
          omega
        rw [this] at hon; cases hon
      obtain ⟨s1, _, s3⟩ := InsLift.applyBlock_sinv cfg _ st b st' ev' hS ⟨q2, q3, fun _ => hz⟩ hb
      exact utxoSat_of_no_entries cfg st' s1.part (by rw [s3 hon]; exact hz)

/-! ### from the rows to `OnSat` -/

/-- rows on their sats + C04's partition ⇒ every bound inscription is located where the sat index
has its sat -/
theorem onSat_of_utxoSat (cfg : Cfg) (st : State) (hU : UtxoSat st) (hp : InsPartitioned cfg st)
    (hn : (AL.keys st.utxo).Nodup) : OnSat st := by
  intro i entry s hi hsat
  have hlt : i < st.entries.length := (List.getElem?_eq_some_iff.1 hi).1
  have hmem : i ∈ allSeqs st.utxo := (InsLift.mem_range_of_perm hp.perm).2 hlt
  obtain ⟨o, off, hl⟩ := (InsLift.mem_allSeqs _ _).1 hmem
  obtain ⟨e, he, hin⟩ := (mem_allIns _ _ _ _).1 hl
  refine ⟨⟨o, off⟩, e, hp.sp_of_listed o i off hl, AL.get_of_mem hn he, ?_⟩
  rw [insloc_den_eq]
  by_cases ho : o = OutPoint.unbound
  · obtain ⟨entry', h1, h2⟩ := (hU (o, e) he).2 ho i off hin
    rw [hi] at h1
    obtain rfl := Option.some.inj h1
    rw [hsat] at h2; cases h2
  · obtain ⟨entry', s', h1, h2, h3⟩ := (hU (o, e) he).1 ho i off hin
    rw [hi] at h1
    obtain rfl := Option.some.inj h1
    rw [hsat] at h2
    obtain rfl := Option.some.inj h2
    exact h3

/-- rows + C04's partition ⇒ (sat index on) an inscription has no sat exactly when it is located at
the unbound pseudo-output -/
theorem unbound_iff_of_utxoSat (cfg : Cfg) (st : State) (hU : UtxoSat st) (hp : InsPartitioned cfg st)
    (i : Nat) (entry : InsEntry) (hi : st.entries[i]? = some entry) :
    entry.sat = none ↔ ∃ off, AL.get st.seq2sp i = some ⟨OutPoint.unbound, off⟩ := by
  have hlt : i < st.entries.length := (List.getElem?_eq_some_iff.1 hi).1
  have hmem : i ∈ allSeqs st.utxo := (InsLift.mem_range_of_perm hp.perm).2 hlt
  obtain ⟨o, off, hl⟩ := (InsLift.mem_allSeqs _ _).1 hmem
  obtain ⟨e, he, hin⟩ := (mem_allIns _ _ _ _).1 hl
  have hsp := hp.sp_of_listed o i off hl
  constructor
  · intro hnone
    by_cases ho : o = OutPoint.unbound
    · subst ho; exact ⟨off, hsp⟩
    · obtain ⟨entry', s', h1, h2, _⟩ := (hU (o, e) he).1 ho i off hin
      rw [hi] at h1
      obtain rfl := Option.some.inj h1
      rw [hnone] at h2; cases h2
  · rintro ⟨off', hg⟩
    rw [hsp] at hg
    have ho : o = OutPoint.unbound := by
      have := Option.some.inj hg
      exact congrArg SatPoint.outpoint this
    obtain ⟨entry', h1, h2⟩ := (hU (o, e) he).2 ho i off hin
    rw [hi] at h1
    obtain rfl := Option.some.inj h1
    exact h2

theorem chainPlain_of_insChain {chain : List Block} (hc : InsLift.InsChain chain) : ChainPlain chain :=
  fun b hb => ⟨hc.cond.txidsNonzero b hb, hc.cond.noSpecialSpend b hb⟩

/-- **C03 for reachable states** -/
theorem run_onSat (cfg : Cfg) (hs : cfg.indexSats = true) (chain : List Block) (st : State) (evs : List Event)
    (hc : InsLift.InsChain chain) (h : run cfg chain = .ok (st, evs)) : OnSat st := by
  have hU := run_utxoSat cfg hs chain st evs hc.ok (chainPlain_of_insChain hc) h
  have hI := (InsLift.run_chainInv cfg chain st evs hc.ok h).1
  exact onSat_of_utxoSat cfg st hU hI.part hI.tinv.nodup

/-- **no sat ⇔ at the unbound pseudo-output**, for reachable states (sat index on) -/
theorem run_unbound_iff (cfg : Cfg) (hs : cfg.indexSats = true) (chain : List Block) (st : State) (evs : List Event)
    (hc : InsLift.InsChain chain) (h : run cfg chain = .ok (st, evs))
    (i : Nat) (entry : InsEntry) (hi : st.entries[i]? = some entry) :
    entry.sat = none ↔ ∃ off, AL.get st.seq2sp i = some ⟨OutPoint.unbound, off⟩ := by
  have hU := run_utxoSat cfg hs chain st evs hc.ok (chainPlain_of_insChain hc) h
  have hI := (InsLift.run_chainInv cfg chain st evs hc.ok h).1
  exact unbound_iff_of_utxoSat cfg st hU hI.part i entry hi

end Ord.Index.OnSatLift
