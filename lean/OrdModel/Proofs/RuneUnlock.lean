import OrdModel.Num.Unlock
import OrdModel.Proofs.RuneSpaced
/-! Helper lemmas for C33: the interpolation is antitone; `unlock_height` is its inverse. -/
namespace Ord.Unlock
open Ord.Rune

/-- `STEPS[i]` (0 outside the table; every use below is inside, see `c33_well_defined`) -/
def stp (i : Nat) : Nat := STEPS.getD i 0

theorem getD_steps (i : Nat) : STEPS.getD i 0 = stp i := rfl

theorem steps_length : STEPS.length = 28 := by decide

theorem steps_strict : ∀ i, i < 27 → stp i < stp (i + 1) := by decide

theorem steps_mono : ∀ i, i < 28 → ∀ j, j < 28 → i ≤ j → stp i ≤ stp j := by decide

theorem stp_zero : stp 0 = 0 := by decide

/-- value of the interpolation in interval `k` at remainder `r` -/
theorem interp_eq (k r : Nat) (hr : r < 17500) :
    interp (17500 * k + r) = stp (12 - k) - (stp (12 - k) - stp (12 - k - 1)) * r / 17500 := by
  have h1 : (17500 * k + r) / 17500 = k := by
    rw [Nat.mul_add_div (by omega), Nat.div_eq_of_lt hr]; rfl
  have h2 : (17500 * k + r) % 17500 = r := by
    rw [Nat.mul_add_mod, Nat.mod_eq_of_lt hr]
  simp only [interp, INTERVAL, UNLOCKED, h1, h2, getD_steps]

theorem decompose (p : Nat) : p = 17500 * (p / 17500) + p % 17500 := (Nat.div_add_mod p 17500).symm

/-- inside interval `k` the value stays in `(STEPS[11-k], STEPS[12-k]]` -/
theorem seg_bounds (k r : Nat) (hk : k < 12) (hr : r < 17500) :
    stp (12 - k - 1) < stp (12 - k) - (stp (12 - k) - stp (12 - k - 1)) * r / 17500 ∧
    stp (12 - k) - (stp (12 - k) - stp (12 - k - 1)) * r / 17500 ≤ stp (12 - k) := by
  have hlt : stp (12 - k - 1) < stp (12 - k) := by
    have := steps_strict (12 - k - 1) (by omega)
    have e : 12 - k - 1 + 1 = 12 - k := by omega
    rw [e] at this; exact this
  generalize stp (12 - k) = s at *
  generalize stp (12 - k - 1) = e at *
  have hd : (s - e) * r / 17500 < s - e := by
    rw [Nat.div_lt_iff_lt_mul (by omega)]
    exact (Nat.mul_lt_mul_left (by omega)).mpr hr
  omega

theorem interp_antitone (p p' : Nat) (h : p ≤ p') (hp' : p' < 210000) : interp p' ≤ interp p := by
  have hk' : p' / 17500 < 12 := by omega
  have hk : p / 17500 ≤ p' / 17500 := Nat.div_le_div_right h
  have hr : p % 17500 < 17500 := Nat.mod_lt _ (by omega)
  have hr' : p' % 17500 < 17500 := Nat.mod_lt _ (by omega)
  rw [decompose p, decompose p', interp_eq _ _ hr, interp_eq _ _ hr']
  rcases Nat.lt_or_ge (p / 17500) (p' / 17500) with hlt | hge
  · -- later interval: below the lower end of the earlier one
    have b := seg_bounds (p / 17500) (p % 17500) (by omega) hr
    have b' := seg_bounds (p' / 17500) (p' % 17500) hk' hr'
    have hm := steps_mono (12 - p' / 17500) (by omega) (12 - p / 17500 - 1) (by omega) (by omega)
    omega
  · have hkk : p / 17500 = p' / 17500 := by omega
    have hrr : p % 17500 ≤ p' % 17500 := by
      have := decompose p; have := decompose p'; omega
    rw [hkk]
    have hm : (stp (12 - p' / 17500) - stp (12 - p' / 17500 - 1)) * (p % 17500) / 17500 ≤
        (stp (12 - p' / 17500) - stp (12 - p' / 17500 - 1)) * (p' % 17500) / 17500 :=
      Nat.div_le_div_right (Nat.mul_le_mul_left _ hrr)
    omega

theorem interp_le_top (p : Nat) (hp : p < 210000) : interp p ≤ stp 12 := by
  have hr : p % 17500 < 17500 := Nat.mod_lt _ (by omega)
  rw [decompose p, interp_eq _ _ hr]
  have b := seg_bounds (p / 17500) (p % 17500) (by omega) hr
  have hm := steps_mono (12 - p / 17500) (by omega) 12 (by omega) (by omega)
  omega

theorem interp_zero : interp 0 = stp 12 := by decide

/-- `minimum_at_height` as a function of `offset` -/
def minOff (first o : Nat) : Nat :=
  if o < first then stp 12 else if o ≥ first + 210000 then 0 else interp (o - first)

theorem minimumAt_eq (first h : Nat) : minimumAt first h = minOff first (min (h + 1) (2 ^ 32 - 1)) := by
  rfl

theorem minOff_antitone (first o o' : Nat) (h : o ≤ o') : minOff first o' ≤ minOff first o := by
  unfold minOff
  by_cases h1 : o' < first
  · have : o < first := by omega
    simp [h1, this]
  · by_cases h2 : o' ≥ first + 210000
    · simp [h1, h2]
    · simp only [h1, h2, if_false]
      by_cases h3 : o < first
      · simp only [h3, if_true]; exact interp_le_top _ (by omega)
      · have h4 : ¬ o ≥ first + 210000 := by omega
        simp only [h3, h4, if_false]
        exact interp_antitone _ _ (by omega) (by omega)

theorem minOff_le_top (first o : Nat) : minOff first o ≤ stp 12 := by
  unfold minOff
  split
  · exact Nat.le_refl _
  · split
    · exact Nat.zero_le _
    · exact interp_le_top _ (by omega)

/-! ### the inverse -/

theorem findIdx_spec (r : Nat) : ∀ (l : List Nat),
    (∀ j, j < l.findIdx (fun s => decide (r < s)) → l.getD j 0 ≤ r) ∧
    (l.findIdx (fun s => decide (r < s)) < l.length →
      r < l.getD (l.findIdx (fun s => decide (r < s))) 0) := by
  intro l
  induction l with
  | nil => simp
  | cons a l ih =>
    rw [List.findIdx_cons]
    by_cases ha : r < a
    · simp [ha]
    · simp only [ha, decide_false, cond_false]
      refine ⟨?_, ?_⟩
      · intro j hj
        cases j with
        | zero => simp; omega
        | succ j => simpa using ih.1 j (by omega)
      · intro hlt
        simpa using ih.2 (by simpa using hlt)

/-- the row `unlock_height` picks for a name below `STEPS[12]` -/
theorem index_spec (r : Nat) (hr : r < stp 12) :
    let i := STEPS.findIdx (fun s => decide (r < s))
    1 ≤ i ∧ i ≤ 12 ∧ stp (i - 1) ≤ r ∧ r < stp i := by
  intro i
  have hs := findIdx_spec r STEPS
  have hi12 : i ≤ 12 := by
    rcases Nat.lt_or_ge 12 i with h | h
    · have : stp 12 ≤ r := hs.1 12 h
      omega
    · exact h
  have hlt : r < stp i := hs.2 (by rw [steps_length]; omega)
  have hi1 : 1 ≤ i := by
    rcases Nat.eq_zero_or_pos i with h | h
    · rw [h, stp_zero] at hlt; omega
    · exact h
  exact ⟨hi1, hi12, hs.1 (i - 1) (by omega), hlt⟩

/-- arithmetic core of the inverse: with `D = s - e > 0`, `1 ≤ p ≤ D`, `q = (17500p − 1)/D` -/
theorem inverse_core (D p : Nat) (hD : 0 < D) (hp1 : 1 ≤ p) (hpD : p ≤ D) :
    let q := (p * 17500 - 1) / D
    q < 17500 ∧ p ≤ D * (q + 1) / 17500 ∧ D * q / 17500 < p := by
  intro q
  have hq1 : q * D ≤ p * 17500 - 1 := Nat.div_mul_le_self _ _
  have hq2 : p * 17500 - 1 < D * (q + 1) := Nat.lt_mul_div_succ _ hD
  have hpos : 1 ≤ p * 17500 := by omega
  refine ⟨?_, ?_, ?_⟩
  · -- q·D < 17500·D
    have h1 : p * 17500 ≤ D * 17500 := Nat.mul_le_mul_right _ hpD
    have h2 : q * D < 17500 * D := by
      have : D * 17500 = 17500 * D := Nat.mul_comm _ _
      omega
    exact Nat.lt_of_mul_lt_mul_right h2
  · rw [Nat.le_div_iff_mul_le (by omega)]; omega
  · rw [Nat.div_lt_iff_lt_mul (by omega)]
    have : D * q = q * D := Nat.mul_comm _ _
    omega

/-- at the reported height the minimum is at or below the name -/
theorem minOff_at_unlock (first i r q : Nat) (hi1 : 1 ≤ i) (hi12 : i ≤ 12)
    (hlo : stp (i - 1) ≤ r) (hq17 : q < 17500)
    (hge : stp i - r ≤ (stp i - stp (i - 1)) * (q + 1) / 17500) :
    minOff first (first + (12 - i) * 17500 + q + 1) ≤ r := by
  unfold minOff
  have h1 : ¬ (first + (12 - i) * 17500 + q + 1 < first) := by omega
  simp only [h1, if_false]
  split
  · exact Nat.zero_le _
  · have hp : first + (12 - i) * 17500 + q + 1 - first = (12 - i) * 17500 + (q + 1) := by omega
    rw [hp]
    rcases Nat.lt_or_ge (q + 1) 17500 with hq1 | hq1
    · have e : (12 - i) * 17500 + (q + 1) = 17500 * (12 - i) + (q + 1) := by omega
      rw [e, interp_eq _ _ hq1]
      have e1 : 12 - (12 - i) = i := by omega
      rw [e1]
      generalize stp i = s at *
      generalize stp (i - 1) = e' at *
      generalize (s - e') * (q + 1) / 17500 = X at *
      omega
    · have e : (12 - i) * 17500 + (q + 1) = 17500 * (12 - i + 1) + 0 := by omega
      rw [e, interp_eq _ _ (by omega)]
      have e1 : 12 - (12 - i + 1) = i - 1 := by omega
      rw [e1]
      simp only [Nat.mul_zero, Nat.zero_div, Nat.sub_zero]
      exact hlo

/-- one block earlier it is still above the name -/
theorem minOff_before_unlock (first i r q : Nat) (hi1 : 1 ≤ i) (hi12 : i ≤ 12)
    (hhi : r < stp i) (hq17 : q < 17500)
    (hlt : (stp i - stp (i - 1)) * q / 17500 < stp i - r) :
    r < minOff first (first + (12 - i) * 17500 + q) := by
  unfold minOff
  have h1 : ¬ (first + (12 - i) * 17500 + q < first) := by omega
  have h2 : ¬ (first + (12 - i) * 17500 + q ≥ first + 210000) := by omega
  simp only [h1, h2, if_false]
  have hp : first + (12 - i) * 17500 + q - first = 17500 * (12 - i) + q := by omega
  rw [hp, interp_eq _ _ hq17]
  have e1 : 12 - (12 - i) = i := by omega
  rw [e1]
  generalize stp i = s at *
  generalize stp (i - 1) = e' at *
  generalize (s - e') * q / 17500 = X at *
  omega

end Ord.Unlock
