import OrdModel.Proofs.IndexFlagsRunes
/-
C15 helper lemmas 7: `applyBlock` and whole chains under the simulation (inscriptions indexed
from height 0).
-/
namespace Ord.Index
open Outcome Sched

theorem applyBlock_sim (cfg : Cfg) (hi : cfg.indexInscriptions = true) (hf : cfg.firstInscriptionHeight = 0)
    (st : State) (u₀ : List (OutPoint × UtxoEntry)) (blk : Block) (st' : State) (evs : List Event)
    (hshape : BlockShape blk = true) (R : UtxoRel cfg st.utxo u₀)
    (hnull : cfg.indexSats = true → NullRowsStable cfg st blk)
    (h : applyBlock cfg st blk = .ok (st', evs)) :
    ∃ u₀' evs₀, applyBlock cfg.base (stripW u₀ st) blk = .ok (stripW u₀' st', evs₀) ∧ UtxoRel cfg st'.utxo u₀' := by
  unfold applyBlock at h ⊢
  have hbi : cfg.base.indexInscriptions = true := hi
  have hbr : cfg.base.indexRunes = cfg.indexRunes := rfl
  have hbf : cfg.base.firstRuneHeight = cfg.firstRuneHeight := rfl
  simp only [hi, hbi, Bool.true_or, if_true, hbr, hbf] at h ⊢
  cases h1 : indexUtxoEntries cfg st blk with
  | panic s => rw [h1] at h; simp at h
  | err e => rw [h1] at h; simp at h
  | ok r =>
    obtain ⟨st1, ev1⟩ := r
    rw [h1] at h
    dsimp only at h
    obtain ⟨u1, s1, R1⟩ := indexUtxoEntries_sim cfg hi hf st u₀ blk st1 ev1 hshape R hnull h1
    rw [s1]
    dsimp only
    by_cases hr : (cfg.indexRunes && decide (blk.height ≥ cfg.firstRuneHeight)) = true
    · simp only [hr, if_true] at h ⊢
      rw [indexRunesBlock_S]
      cases h2 : indexRunesBlock st1 blk with
      | panic s => rw [h2] at h; simp at h
      | err e => rw [h2] at h; simp at h
      | ok r2 =>
        obtain ⟨st2, ev2⟩ := r2
        rw [h2] at h
        simp only [Outcome.ok.injEq, Prod.mk.injEq] at h
        obtain ⟨rfl, _⟩ := h
        simp only [omap_ok]
        refine ⟨u1, _, rfl, ?_⟩
        have := (indexRunesBlock_frame st1 blk (st2, ev2) h2).1
        show UtxoRel cfg st2.utxo u1
        rw [this]; exact R1
    · simp only [hr, Bool.false_eq_true, if_false] at h ⊢
      simp only [Outcome.ok.injEq, Prod.mk.injEq] at h
      obtain ⟨rfl, _⟩ := h
      exact ⟨u1, _, rfl, R1⟩

/-- the hypothesis `NullRowsStable` along the run (only asked with the sat index on) -/
def NullStableFrom (cfg : Cfg) : State → List Block → Prop
  | _, [] => True
  | st, b :: bs =>
    (cfg.indexSats = true → NullRowsStable cfg st b) ∧
    ∀ st1 ev1, applyBlock cfg st b = .ok (st1, ev1) → NullStableFrom cfg st1 bs

theorem runFrom_sim (cfg : Cfg) (hi : cfg.indexInscriptions = true) (hf : cfg.firstInscriptionHeight = 0) :
    ∀ (chain : List Block) (st : State) (u₀ : List (OutPoint × UtxoEntry)) (st' : State) (evs : List Event),
    (∀ b ∈ chain, BlockShape b = true) → UtxoRel cfg st.utxo u₀ → NullStableFrom cfg st chain →
    runFrom cfg st chain = .ok (st', evs) →
    ∃ u₀' evs₀, runFrom cfg.base (stripW u₀ st) chain = .ok (stripW u₀' st', evs₀)
  | [], st, u₀, st', evs, _, _, _, h => by
    simp only [runFrom, Outcome.ok.injEq, Prod.mk.injEq] at h
    obtain ⟨rfl, _⟩ := h
    exact ⟨u₀, [], rfl⟩
  | b :: bs, st, u₀, st', evs, hs, R, hn, h => by
    simp only [runFrom] at h ⊢
    cases h1 : applyBlock cfg st b with
    | panic s => rw [h1] at h; simp at h
    | err e => rw [h1] at h; simp at h
    | ok r =>
      obtain ⟨st1, ev1⟩ := r
      rw [h1] at h
      dsimp only at h
      obtain ⟨u1, e1, s1, R1⟩ := applyBlock_sim cfg hi hf st u₀ b st1 ev1 (hs b List.mem_cons_self) R hn.1 h1
      rw [s1]
      dsimp only
      cases h2 : runFrom cfg st1 bs with
      | panic s => rw [h2] at h; simp at h
      | err e => rw [h2] at h; simp at h
      | ok r2 =>
        obtain ⟨st2, ev2⟩ := r2
        rw [h2] at h
        simp only [Outcome.ok.injEq, Prod.mk.injEq] at h
        obtain ⟨rfl, _⟩ := h
        obtain ⟨u2, e2, s2⟩ := runFrom_sim cfg hi hf bs st1 u1 st2 ev2
          (fun b' hb => hs b' (List.mem_cons_of_mem _ hb)) R1 (hn.2 st1 ev1 h1) h2
        rw [s2]
        exact ⟨u2, _, rfl⟩

theorem utxoRel_nil (cfg : Cfg) : UtxoRel cfg [] [] := ⟨rfl, fun _ _ => rfl⟩

theorem run_sim (cfg : Cfg) (hi : cfg.indexInscriptions = true) (hf : cfg.firstInscriptionHeight = 0)
    (chain : List Block) (st' : State) (evs : List Event) (hs : ∀ b ∈ chain, BlockShape b = true)
    (hn : NullStableFrom cfg {} chain) (h : run cfg chain = .ok (st', evs)) :
    ∃ u₀' evs₀, run cfg.base chain = .ok (stripW u₀' st', evs₀) := by
  have h0 : stripW [] ({} : State) = {} := rfl
  have := runFrom_sim cfg hi hf chain {} [] st' evs hs (utxoRel_nil cfg) hn h
  rw [h0] at this
  exact this

theorem base_eq_of_same {a b : Cfg} (h : SameUpToOptionalIndexes a b) : a.base = b.base := by
  obtain ⟨h1, h2, h3, h4, h5⟩ := h
  cases a; cases b
  simp only [Cfg.base] at *
  simp_all

/-! ### the hypothesis `NullStableFrom`: trivial without the sat index, decidable on a given chain -/

theorem nullStableFrom_of_noSats (cfg : Cfg) (hs : cfg.indexSats = false) :
    ∀ (chain : List Block) (st : State), NullStableFrom cfg st chain
  | [], _ => trivial
  | b :: bs, st => by
    refine ⟨fun h => ?_, fun st1 _ _ => nullStableFrom_of_noSats cfg hs bs st1⟩
    rw [hs] at h
    cases h

def nullRowsB (st : State) : Bool :=
  match AL.get st.utxo OutPoint.null with
  | none => true
  | some e => e.ins.all (fun p => decide (AL.get st.seq2sp p.1 = some ⟨OutPoint.null, p.2⟩))

theorem nullRowsB_sound (st : State) (h : nullRowsB st = true) : NullRows st := by
  intro e he p hp
  unfold nullRowsB at h
  rw [he] at h
  simp only [List.all_eq_true, decide_eq_true_eq] at h
  exact h p hp

def nullRowsStableB (cfg : Cfg) (st : State) (blk : Block) : Bool :=
  match indexTxs cfg blk (insOnOf cfg blk) (blockOrder blk) (bc0A cfg st blk) with
  | .ok bc => nullRowsB (flushCache cfg (endState cfg blk (insOnOf cfg blk) bc).1 bc.cache)
  | _ => true

theorem nullRowsStableB_sound (cfg : Cfg) (st : State) (blk : Block) (h : nullRowsStableB cfg st blk = true) :
    NullRowsStable cfg st blk := by
  intro bc hbc
  unfold nullRowsStableB at h
  rw [hbc] at h
  exact nullRowsB_sound _ h

def nullStableFromB (cfg : Cfg) : State → List Block → Bool
  | _, [] => true
  | st, b :: bs =>
    (!cfg.indexSats || nullRowsStableB cfg st b) &&
    (match applyBlock cfg st b with
     | .ok (st1, _) => nullStableFromB cfg st1 bs
     | _ => true)

theorem nullStableFromB_sound (cfg : Cfg) : ∀ (chain : List Block) (st : State),
    nullStableFromB cfg st chain = true → NullStableFrom cfg st chain
  | [], _, _ => trivial
  | b :: bs, st, h => by
    simp only [nullStableFromB, Bool.and_eq_true, Bool.or_eq_true, Bool.not_eq_true'] at h
    refine ⟨fun hs => ?_, fun st1 ev1 h1 => ?_⟩
    · rcases h.1 with h0 | h0
      · rw [hs] at h0; cases h0
      · exact nullRowsStableB_sound cfg st b h0
    · have h2 := h.2
      rw [h1] at h2
      exact nullStableFromB_sound cfg bs st1 h2

end Ord.Index
