/-
Helper lemmas for C19, part 3: from the generated router table to `respond`.
-/
import OrdModel.Proofs.ContentHandlers

namespace Ord.Server.Content
open Ord.Server.Csp

theorem applyLayer_irrelevant (r : Response) (l : LayerKind)
    (h : (l == .cspIfNotPresent || l == .cspOverriding) = false) : applyLayer r l = r := by
  cases l <;> simp_all [applyLayer]

/-- only the CSP layers act on the modelled fields -/
theorem applyLayers_relevant (ls : List LayerKind) (r : Response) :
    applyLayers ls r = applyLayers (cspRelevant ls) r := by
  induction ls generalizing r with
  | nil => rfl
  | cons l rest ih =>
    simp only [applyLayers, List.foldl_cons, cspRelevant, List.filter_cons]
    split
    · simpa [applyLayers, cspRelevant] using ih (applyLayer r l)
    · rename_i h
      rw [applyLayer_irrelevant r l (by simpa using h)]
      simpa [applyLayers, cspRelevant] using ih r

theorem allRoutesWrapped_spec {defs : List RouterDef} {v : Nat} (h : allRoutesWrapped defs v = true) :
    ∃ es fb, servedEntries defs v = some es ∧ es.find? (fun e => e.path.isNone) = some fb ∧
      ∀ e ∈ es, cspGuaranteed e.layers = true ∧ cspPreserved e.layers = true ∧
        cspRelevant e.layers = cspRelevant fb.layers := by
  unfold allRoutesWrapped at h
  split at h
  · simp at h
  · rename_i es hes
    split at h
    · simp at h
    · rename_i fb hfb
      refine ⟨es, fb, hes, hfb, ?_⟩
      intro e he
      have := (List.all_eq_true.mp h) e he
      simp only [Bool.and_eq_true, beq_iff_eq] at this
      exact ⟨this.1.1, this.1.2, this.2⟩

/-- the table as extracted from the current source -/
theorem generated_routes_wrapped : allRoutesWrapped Generated.routerDefs Generated.servedVar = true := by
  decide

theorem outerLayers_spec :
    ∃ es fb, servedEntries Generated.routerDefs Generated.servedVar = some es ∧
      es.find? (fun e => e.path.isNone) = some fb ∧ outerLayers = fb.layers ∧ fb ∈ es ∧
      ∀ e ∈ es, cspGuaranteed e.layers = true ∧ cspPreserved e.layers = true ∧
        cspRelevant e.layers = cspRelevant fb.layers := by
  obtain ⟨es, fb, h1, h2, h3⟩ := allRoutesWrapped_spec generated_routes_wrapped
  refine ⟨es, fb, h1, h2, ?_, List.mem_of_find?_eq_some h2, h3⟩
  simp [outerLayers, h1, h2]

theorem outerLayers_guaranteed : cspGuaranteed outerLayers = true := by
  obtain ⟨es, fb, _, _, h3, h4, h5⟩ := outerLayers_spec
  rw [h3]; exact (h5 fb h4).1

theorem outerLayers_preserved : cspPreserved outerLayers = true := by
  obtain ⟨es, fb, _, _, h3, h4, h5⟩ := outerLayers_spec
  rw [h3]; exact (h5 fb h4).2.1

theorem respond_fields (cfg : Config) (view : View) (route : Route) (req : Request) :
    let r := respond cfg view route req
    let h := handler cfg view route req
    r.status = h.status ∧ r.contentType = h.contentType ∧ r.contentEncoding = h.contentEncoding ∧
    r.cacheControl = h.cacheControl ∧ r.body = h.body ∧ r.served = h.served :=
  applyLayers_fields outerLayers (handler cfg view route req)

theorem respond_csp_of_handler (cfg : Config) (view : View) (route : Route) (req : Request)
    (h : (handler cfg view route req).csp ≠ []) :
    (respond cfg view route req).csp = (handler cfg view route req).csp :=
  applyLayers_csp_preserved outerLayers _ outerLayers_preserved h

/-- `sat_at_index_content` -/
theorem satAtIndexContent_spec (cfg : Config) (view : View) (sat : Nat) (index : Int) (req : Request) :
    let r := satAtIndexContent cfg view sat index req
    (NoContent cfg req [] r ∧ (view.hasSatIndex = false ∨ satIndexed (view.sat sat) index = none)) ∨
      ∃ id, view.hasSatIndex = true ∧ satIndexed (view.sat sat) index = some id ∧
        r = contentInner cfg view id req (decide (index ≥ 0)) := by
  intro r
  simp only [r, satAtIndexContent]
  split
  · left; exact ⟨noContent_notFound .., by simp_all⟩
  · rename_i hs
    split
    · rename_i hn
      left; exact ⟨noContent_notFound .., Or.inr hn⟩
    · rename_i id hid
      right; exact ⟨id, by simpa using hs, hid, rfl⟩

/-- what a content route asks for: (requested id, follows delegates, delegate checked against the hidden
list, cacheable) -/
def Route.resolve (cfg : Config) (view : View) : Route → Option (Id × Bool × Bool × Bool)
  | .content (some id) => some (id, true, cfg.fixes.contentInner, true)
  | .undelegated (some id) => some (id, false, true, true)
  | .preview (some id) => some (id, true, cfg.fixes.preview, true)
  | .satContent (some (sat, index)) =>
    if sat > lastSat || index < -(2 ^ 63 : Int) || index ≥ (2 ^ 63 : Int) then none
    else if !view.hasSatIndex then none
    else (satIndexed (view.sat sat) index).map (fun id => (id, true, cfg.fixes.contentInner, decide (index ≥ 0)))
  | _ => none

/-- the inscription `x` a route may serve for the requested `id` -/
def SourceOf (cfg : Config) (view : View) (delegating fixed : Bool) (id x : Id) (i : Ins) : Prop :=
  ¬ cfg.hidden.contains id = true ∧ view.ins x = some i ∧
  if delegating then
    ∃ ri, view.ins id = some ri ∧
      ((ri.delegate = none ∧ x = id) ∨ (ri.delegate = some x ∧ (fixed = true → ¬ cfg.hidden.contains x = true)))
  else x = id

def Route.isOther : Route → Bool
  | .other _ => true
  | _ => false

/-- every modelled content route: either no inscription bytes at all, or the answer is built from the
inscription the route resolves to -/
theorem handler_spec (cfg : Config) (view : View) (route : Route) (req : Request) (hr : route.isOther = false) :
    let r := handler cfg view route req
    (∃ cands, NoContent cfg req cands r ∧
        ∀ i ∈ cands, ∃ id d f c, route.resolve cfg view = some (id, d, f, c) ∧ i ∈ candidates view d id) ∨
      ∃ id delegating fixed cache x i, route.resolve cfg view = some (id, delegating, fixed, cache) ∧
        SourceOf cfg view delegating fixed id x i ∧ BuiltFrom cfg view req x i cache r := by
  intro r
  cases route with
  | other h => simp [Route.isOther] at hr
  | content a =>
    cases a with
    | none => left; exact ⟨[], noContent_bad .., by simp⟩
    | some id =>
      rcases contentInner_spec cfg view id req true with h | ⟨x, i, hs, hb⟩
      · left; exact ⟨_, h, fun i hi => ⟨id, true, _, true, rfl, hi⟩⟩
      · right
        refine ⟨id, true, cfg.fixes.contentInner, true, x, i, rfl, ?_, hb⟩
        exact ⟨hs.1, hs.2.1, by simpa using hs.2.2⟩
  | undelegated a =>
    cases a with
    | none => left; exact ⟨[], noContent_bad .., by simp⟩
    | some id =>
      rcases undelegated_spec cfg view id req with h | ⟨i, h1, h2, hb⟩
      · left; exact ⟨_, h, fun i hi => ⟨id, false, true, true, rfl, hi⟩⟩
      · right
        exact ⟨id, false, true, true, id, i, rfl, ⟨h1, h2, by simp⟩, hb⟩
  | preview a =>
    cases a with
    | none => left; exact ⟨[], noContent_bad .., by simp⟩
    | some id =>
      rcases preview_spec cfg view id req with h | ⟨x, i, hs, _, hb⟩
      · left; exact ⟨_, h, fun i hi => ⟨id, true, _, true, rfl, hi⟩⟩
      · right
        refine ⟨id, true, cfg.fixes.preview, true, x, i, rfl, ?_, hb⟩
        exact ⟨hs.1, hs.2.1, by simpa using hs.2.2⟩
  | satContent a =>
    cases a with
    | none => left; exact ⟨[], noContent_bad .., by simp⟩
    | some p =>
      obtain ⟨sat, index⟩ := p
      simp only [r, handler]
      split
      · left; exact ⟨[], noContent_bad .., by simp⟩
      · rename_i hrange
        rcases satAtIndexContent_spec cfg view sat index req with ⟨h, _⟩ | ⟨id, h1, h2, h3⟩
        · left; exact ⟨[], h, by simp⟩
        · have hres : Route.resolve cfg view (.satContent (some (sat, index))) =
              some (id, true, cfg.fixes.contentInner, decide (index ≥ 0)) := by
            simp only [Route.resolve]
            rw [if_neg hrange]
            simp [h1, h2]
          rw [h3]
          rcases contentInner_spec cfg view id req (decide (index ≥ 0)) with h | ⟨x, i, hs, hb⟩
          · left; exact ⟨_, h, fun i hi => ⟨id, true, _, _, hres, hi⟩⟩
          · right
            refine ⟨id, true, cfg.fixes.contentInner, _, x, i, hres, ?_, hb⟩
            exact ⟨hs.1, hs.2.1, by simpa using hs.2.2⟩

end Ord.Server.Content
