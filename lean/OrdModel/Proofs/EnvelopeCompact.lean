import OrdModel.Codec.Envelope
import OrdModel.Proofs.ScriptW5
/-! The compact little-endian encodings of pointers and inscription ids. -/
namespace Ord.Envelope
open Ord Ord.ScriptW5

theorem leValue_append_zeros (l : Bytes) (n : Nat) : leValue (l ++ List.replicate n 0) = leValue l := by
  induction l with
  | nil =>
    induction n with
    | zero => simp [leValue]
    | succ n ih => simp only [List.nil_append] at ih; simp [List.replicate_succ, leValue, ih]
  | cons b bs ih => simp [leValue, ih]

theorem leBytes_length (k n : Nat) : (leBytes k n).length = k := by
  induction k generalizing n with
  | zero => simp [leBytes]
  | succ k ih => simp [leBytes, ih]

theorem leValue_leBytes (k : Nat) : ∀ n, n < 256 ^ k → leValue (leBytes k n) = n := by
  induction k with
  | zero => intro n h; simp at h; simp [leBytes, leValue, h]
  | succ k ih =>
    intro n h
    have hb : (UInt8.ofNat (n % 256)).toNat = n % 256 := toNat_ofNat_lt (Nat.mod_lt _ (by omega))
    have hd : n / 256 < 256 ^ k := by
      rw [Nat.div_lt_iff_lt_mul (by omega)]; rw [Nat.pow_succ] at h; exact h
    simp only [leBytes, leValue, hb, ih _ hd]
    omega

theorem takeWhile_all (p : UInt8 → Bool) : ∀ (l : Bytes), ∀ b ∈ l.takeWhile p, p b = true := by
  intro l
  induction l with
  | nil => intro b h; simp at h
  | cons a l ih =>
    intro b h
    simp only [List.takeWhile_cons] at h
    split at h
    · simp only [List.mem_cons] at h
      rcases h with h | h
      · subst h; assumption
      · exact ih b h
    · simp at h

theorem dropWhile_length_le (p : UInt8 → Bool) (l : Bytes) : (l.dropWhile p).length ≤ l.length := by
  have := congrArg List.length (List.takeWhile_append_dropWhile (p := p) (l := l))
  simp only [List.length_append] at this
  omega

/-- stripping only removes zeros at the end -/
theorem strip_decomp (l : Bytes) :
    l = stripTrailingZeros l ++ List.replicate (l.length - (stripTrailingZeros l).length) 0 := by
  unfold stripTrailingZeros
  have h := List.takeWhile_append_dropWhile (p := fun b : UInt8 => decide (b = 0)) (l := l.reverse)
  have hz : l.reverse.takeWhile (fun b => decide (b = 0)) =
      List.replicate (l.reverse.takeWhile (fun b => decide (b = 0))).length 0 := by
    rw [List.eq_replicate_iff]
    refine ⟨rfl, ?_⟩
    intro b hb
    simpa using takeWhile_all _ _ b hb
  have hl : l = (l.reverse.dropWhile (fun b => decide (b = 0))).reverse ++
      (l.reverse.takeWhile (fun b => decide (b = 0))).reverse := by
    rw [← List.reverse_append, h, List.reverse_reverse]
  have hlen : l.length = (l.reverse.dropWhile (fun b => decide (b = 0))).length +
      (l.reverse.takeWhile (fun b => decide (b = 0))).length := by
    have := congrArg List.length h
    simp only [List.length_append, List.length_reverse] at this
    omega
  rw [hz, List.reverse_replicate] at hl
  have e : l.length - (l.reverse.dropWhile (fun b => decide (b = 0))).reverse.length =
      (l.reverse.takeWhile (fun b => decide (b = 0))).length := by
    rw [List.length_reverse]; omega
  rw [e]
  exact hl

theorem strip_length_le (l : Bytes) : (stripTrailingZeros l).length ≤ l.length := by
  unfold stripTrailingZeros
  rw [List.length_reverse]
  have := dropWhile_length_le (fun b : UInt8 => decide (b = 0)) l.reverse
  simpa using this

theorem strip_last_ne_zero (l : Bytes) (x : UInt8) (h : (stripTrailingZeros l).getLast? = some x) :
    x ≠ 0 := by
  unfold stripTrailingZeros at h
  rw [List.getLast?_reverse] at h
  have := List.head?_dropWhile_not (fun b : UInt8 => decide (b = 0)) l.reverse
  rw [h] at this
  simpa using this

/-- reading a stripped little-endian value back with zero padding gives the value of the
unstripped bytes -/
theorem lePadded_strip (k : Nat) (l : Bytes) (hl : l.length = k) :
    lePadded k (stripTrailingZeros l) = leValue l := by
  unfold lePadded
  have hd := strip_decomp l
  have hle := strip_length_le l
  have : (stripTrailingZeros l ++ List.replicate k 0).take k =
      stripTrailingZeros l ++ List.replicate (k - (stripTrailingZeros l).length) 0 := by
    rw [List.take_append]
    rw [List.take_of_length_le (by omega)]
    simp [List.take_replicate]
  rw [this, leValue_append_zeros]
  conv => rhs; rw [hd]
  rw [leValue_append_zeros]

theorem pointer_roundtrip (p : Nat) (hp : p < 2 ^ 64) : pointerOf (some (pointerValue p)) = some p := by
  unfold pointerOf pointerValue
  have hlen : (leBytes 8 p).length = 8 := leBytes_length 8 p
  have hle := strip_length_le (leBytes 8 p)
  have hdrop : (stripTrailingZeros (leBytes 8 p)).drop 8 = [] := List.drop_of_length_le (by omega)
  simp only [hdrop, List.any_nil, Bool.false_eq_true, if_false]
  rw [lePadded_strip 8 _ hlen, leValue_leBytes 8 p (by
    have : (256:Nat) ^ 8 = 2 ^ 64 := by decide
    omega)]

theorem fromValue_value (id : InscriptionId) (ht : id.txid.length = 32) (hi : id.index < 2 ^ 32) :
    InscriptionId.fromValue id.value = .ok (some id) := by
  unfold InscriptionId.fromValue InscriptionId.value
  have hlen : (leBytes 4 id.index).length = 4 := leBytes_length 4 id.index
  have hle := strip_length_le (leBytes 4 id.index)
  have h1 : ¬ (id.txid ++ stripTrailingZeros (leBytes 4 id.index)).length < 32 := by
    simp; omega
  have h2 : ¬ (id.txid ++ stripTrailingZeros (leBytes 4 id.index)).length > 32 + 4 := by
    simp; omega
  have htake : (id.txid ++ stripTrailingZeros (leBytes 4 id.index)).take 32 = id.txid := by
    rw [← ht]; simp
  have hdrop : (id.txid ++ stripTrailingZeros (leBytes 4 id.index)).drop 32 =
      stripTrailingZeros (leBytes 4 id.index) := by
    rw [← ht]; simp
  simp only [h1, h2, if_false, htake, hdrop, ht, if_true]
  have hidx : lePadded 4 (stripTrailingZeros (leBytes 4 id.index)) = id.index := by
    rw [lePadded_strip 4 _ hlen, leValue_leBytes 4 id.index (by
      have : (256:Nat) ^ 4 = 2 ^ 32 := by decide
      omega)]
  rw [hidx]
  cases hg : (stripTrailingZeros (leBytes 4 id.index)).getLast? with
  | none => simp
  | some x =>
    have := strip_last_ne_zero _ x hg
    simp [this]

theorem fromValue_total (v : Bytes) : ∀ s, InscriptionId.fromValue v ≠ .panic s := by
  intro s
  unfold InscriptionId.fromValue
  split
  · simp
  · split
    · simp
    · rename_i h1 h2
      have : (v.take 32).length = 32 := by simp; omega
      simp only [this, if_true]
      split
      · split <;> simp
      · simp

theorem parentsOf_values : ∀ (ids : List InscriptionId),
    (∀ id ∈ ids, id.txid.length = 32 ∧ id.index < 2 ^ 32) →
    parentsOf (ids.map InscriptionId.value) = .ok ids := by
  intro ids
  induction ids with
  | nil => intro _; simp [parentsOf]
  | cons id ids ih =>
    intro h
    have h0 := h id (by simp)
    simp only [List.map_cons, parentsOf, fromValue_value id h0.1 h0.2,
      ih (fun j hj => h j (by simp [hj]))]

end Ord.Envelope
