import OrdModel.Index.OracleInsloc
/-
Group `insloc` (C03, C04): basic lemmas — the sats of a range list (`den`, `nthSat`,
`calculateSat`, `rangesValue`) and the equivalence of the executable oracle predicates with the
propositions the theorems speak about.
-/
namespace Ord.Index.Insloc
open Ord Ord.Index

/-! ### `den`, `nthSat`, `calculateSat` -/

@[simp] theorem den_nil : den [] = [] := rfl
@[simp] theorem den_cons (s e : Nat) (rest : List (Nat × Nat)) :
    den ((s, e) :: rest) = List.range' s (e - s) ++ den rest := rfl

theorem den_append (a b : List (Nat × Nat)) : den (a ++ b) = den a ++ den b := by
  induction a with
  | nil => simp
  | cons r rest ih => obtain ⟨s, e⟩ := r; simp [ih]

theorem nthSat_eq_den (rs : List (Nat × Nat)) (k : Nat) : nthSat rs k = (den rs)[k]? := by
  induction rs generalizing k with
  | nil => simp [nthSat]
  | cons r rest ih =>
    obtain ⟨s, e⟩ := r
    simp only [nthSat, den_cons, List.getElem?_append, List.length_range']
    split
    · next h => rw [List.getElem?_range' h]; simp
    · next h => exact ih _

theorem foldl_rangesValue (rs : List (Nat × Nat)) (a : Nat) :
    rs.foldl (fun acc r => acc + (r.2 - r.1)) a = a + (den rs).length := by
  induction rs generalizing a with
  | nil => simp
  | cons r rest ih => obtain ⟨s, e⟩ := r; simp [ih]; omega

theorem rangesValue_eq_den_length (rs : List (Nat × Nat)) : rangesValue rs = (den rs).length := by
  simp [rangesValue, foldl_rangesValue]

/-- `calculate_sat` walks the ranges with a running offset: started at `base`, asked for
`base + k`, it answers the `k`-th sat of the ranges, and hits `unreachable!()` exactly when
there is no `k`-th sat. -/
theorem calculateSat_base (rs : List (Nat × Nat)) (base k : Nat) :
    calculateSat rs base (base + k) =
      match (den rs)[k]? with
      | some s => .ok s
      | none => .panic "calculate_sat: unreachable!()" := by
  induction rs generalizing base k with
  | nil => simp [calculateSat]
  | cons r rest ih =>
    obtain ⟨s, e⟩ := r
    simp only [calculateSat, den_cons, List.getElem?_append, List.length_range']
    by_cases h : k < e - s
    · have h1 : base + (e - s) > base + k := by omega
      simp only [h1, ↓reduceIte, h, List.getElem?_range' h]
      congr 1; omega
    · have h1 : ¬ base + (e - s) > base + k := by omega
      simp only [h1, ↓reduceIte, h]
      have := ih (base + (e - s)) (k - (e - s))
      have h2 : base + (e - s) + (k - (e - s)) = base + k := by omega
      rw [h2] at this
      exact this

theorem calculateSat_eq (rs : List (Nat × Nat)) (k : Nat) (h : k < (den rs).length) :
    calculateSat rs 0 k = .ok ((den rs)[k]) := by
  have := calculateSat_base rs 0 k
  simp only [Nat.zero_add] at this
  rw [this, List.getElem?_eq_getElem h]

theorem calculateSat_ok_iff (rs : List (Nat × Nat)) (k s : Nat) :
    calculateSat rs 0 k = .ok s ↔ (den rs)[k]? = some s := by
  have := calculateSat_base rs 0 k
  simp only [Nat.zero_add] at this
  rw [this]
  cases h : (den rs)[k]? <;> simp

/-! ### `onSatB ↔ OnSat` -/

theorem onSatAt_iff (st : State) (i : Nat) (entry : InsEntry) :
    onSatAt st i entry = true ↔
      ∀ s, entry.sat = some s → ∃ sp e, AL.get st.seq2sp i = some sp ∧
        AL.get st.utxo sp.outpoint = some e ∧ (den e.ranges)[sp.offset]? = some s := by
  unfold onSatAt
  cases hs : entry.sat with
  | none => simp
  | some s =>
    cases hsp : AL.get st.seq2sp i with
    | none => simp
    | some sp =>
      cases he : AL.get st.utxo sp.outpoint with
      | none => simp [he]
      | some e => simp [he, nthSat_eq_den]

theorem onSatFrom_iff (st : State) (k : Nat) (l : List InsEntry) :
    onSatFrom st k l = true ↔ ∀ j entry, l[j]? = some entry → onSatAt st (k + j) entry = true := by
  induction l generalizing k with
  | nil => simp [onSatFrom]
  | cons a rest ih =>
    simp only [onSatFrom, Bool.and_eq_true, ih]
    constructor
    · rintro ⟨h0, h1⟩ j entry hj
      cases j with
      | zero => simp at hj; subst hj; simpa using h0
      | succ j => simp at hj; have := h1 j entry hj; rwa [show k + 1 + j = k + (j + 1) by omega] at this
    · intro h
      refine ⟨by simpa using h 0 a (by simp), fun j entry hj => ?_⟩
      have := h (j + 1) entry (by simpa using hj)
      rwa [show k + (j + 1) = k + 1 + j by omega] at this

theorem onSatB_iff (st : State) : onSatB st = true ↔ OnSat st := by
  unfold onSatB OnSat
  rw [onSatFrom_iff]
  constructor
  · intro h i entry s hi hs
    have := (onSatAt_iff st i entry).1 (by simpa using h i entry hi) s hs
    exact this
  · intro h j entry hj
    rw [Nat.zero_add, onSatAt_iff]
    intro s hs
    exact h j entry s hj hs

end Ord.Index.Insloc

namespace Ord.Index.Insloc
open Ord Ord.Index

/-! ### the derived `BEq` instances of the keys are lawful -/

theorem outPoint_beq_iff (a b : OutPoint) : (a == b) = true ↔ a = b := by
  cases a; cases b
  simp only [BEq.beq, instBEqOutPoint.beq]
  simp

instance : LawfulBEq OutPoint where
  eq_of_beq {a b} h := (outPoint_beq_iff a b).1 h
  rfl {a} := (outPoint_beq_iff a a).2 rfl

theorem satPoint_beq_iff (a b : SatPoint) : (a == b) = true ↔ a = b := by
  cases a; cases b
  simp only [BEq.beq, instBEqSatPoint.beq]
  simp only [Bool.and_eq_true, decide_eq_true_eq, SatPoint.mk.injEq]
  constructor
  · rintro ⟨h1, h2⟩; exact ⟨(outPoint_beq_iff _ _).1 h1, h2⟩
  · rintro ⟨h1, h2⟩; exact ⟨(outPoint_beq_iff _ _).2 h1, h2⟩

instance : LawfulBEq SatPoint where
  eq_of_beq {a b} h := (satPoint_beq_iff a b).1 h
  rfl {a} := (satPoint_beq_iff a a).2 rfl

/-! ### `insPartitionedB ↔ InsPartitioned` -/

theorem perm_range_iff (l : List Nat) (n : Nat) :
    l.Perm (List.range n) ↔ (∀ i ∈ l, i < n) ∧ ∀ i, i < n → l.count i = 1 := by
  constructor
  · intro h
    refine ⟨fun i hi => by simpa using (h.mem_iff.1 hi), fun i hi => ?_⟩
    rw [h.count_eq, List.count_range]; simp [hi]
  · rintro ⟨h1, h2⟩
    rw [List.perm_iff_count]
    intro a
    rw [List.count_range]
    split
    · next h => exact h2 a h
    · next h => exact List.count_eq_zero.2 (fun hm => h (h1 a hm))

theorem insPartitionedB_iff (cfg : Cfg) (st : State) :
    insPartitionedB cfg st = true ↔ InsPartitioned cfg st := by
  unfold insPartitionedB
  simp only [Bool.and_eq_true, List.all_eq_true, decide_eq_true_eq, beq_iff_eq, Bool.or_eq_true,
    List.contains_iff_mem, List.mem_range]
  constructor
  · rintro ⟨⟨⟨⟨h1, h2⟩, h3⟩, h4⟩, h5⟩
    refine ⟨(perm_range_iff _ _).2 ⟨h1, h2⟩, fun o s off hm => h3 (o, s, off) hm,
      fun s sp hm => h4 (s, sp) hm, fun o e s off hm hsp hin => ?_⟩
    rcases h5 (o, e) hm with h | h
    · simp [hsp] at h
    · exact h (s, off) hin
  · intro h
    obtain ⟨hp, h3, h4, h5⟩ := h
    obtain ⟨h1, h2⟩ := (perm_range_iff _ _).1 hp
    refine ⟨⟨⟨⟨h1, h2⟩, fun x hx => h3 x.1 x.2.1 x.2.2 hx⟩, fun x hx => h4 x.1 x.2 hx⟩, fun p hp => ?_⟩
    cases hs : p.1.isSpecial with
    | true => exact Or.inl rfl
    | false => exact Or.inr (fun q hq => h5 p.1 p.2 q.1 q.2 hp hs hq)

end Ord.Index.Insloc
