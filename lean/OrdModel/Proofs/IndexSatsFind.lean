import OrdModel.Proofs.IndexSatsDen
/-
`find` over a table in which no sat occurs twice: it returns exactly the place of the sat,
whatever the order in which the table is scanned.
-/
namespace Ord.Index

/-- all sat ranges of a table, in table order -/
def allRanges (u : List (OutPoint × UtxoEntry)) : Ranges := u.flatMap (fun p => p.2.ranges)

/-- all ordinals held by a table -/
def allSats (u : List (OutPoint × UtxoEntry)) : List Nat := den (allRanges u)

/-- sat `s` is the `offset`-th sat of the entry stored under `outpoint` -/
def SatAt (u : List (OutPoint × UtxoEntry)) (s : Nat) (p : SatPoint) : Prop :=
  ∃ e, (p.outpoint, e) ∈ u ∧ (den e.ranges)[p.offset]? = some s

theorem allSats_cons (op : OutPoint) (e : UtxoEntry) (u : List (OutPoint × UtxoEntry)) :
    allSats ((op, e) :: u) = den e.ranges ++ allSats u := by
  simp [allSats, allRanges, den_append]

theorem allSats_nil : allSats [] = [] := rfl

theorem mem_allSats {u : List (OutPoint × UtxoEntry)} {s : Nat} :
    s ∈ allSats u ↔ ∃ op e, (op, e) ∈ u ∧ s ∈ den e.ranges := by
  induction u with
  | nil => simp [allSats_nil]
  | cons p u ih =>
    obtain ⟨op1, e1⟩ := p
    rw [allSats_cons, List.mem_append, ih]
    constructor
    · rintro (h | ⟨op, e, hm, hs⟩)
      · exact ⟨op1, e1, by simp, h⟩
      · exact ⟨op, e, by simp [hm], hs⟩
    · rintro ⟨op, e, hm, hs⟩
      rcases List.mem_cons.mp hm with h | h
      · cases h; exact Or.inl hs
      · exact Or.inr ⟨op, e, h, hs⟩

theorem findInRanges_none {s : Nat} {rs : Ranges} {off : Nat} :
    findInRanges s rs off = none ↔ s ∉ den rs := by
  induction rs generalizing off with
  | nil => simp [findInRanges]
  | cons r rs ih =>
    obtain ⟨a, b⟩ := r
    simp only [findInRanges, den_cons, List.mem_append, List.mem_range'_1]
    split
    · rename_i h; simp only [reduceCtorEq, false_iff, Classical.not_not]; left; omega
    · rename_i h; rw [ih]
      constructor
      · intro h1 h2; rcases h2 with h2 | h2
        · omega
        · exact h1 h2
      · intro h1 h2; exact h1 (Or.inr h2)

theorem findInRanges_some {s : Nat} {rs : Ranges} {off k : Nat} (h : findInRanges s rs off = some k) :
    ∃ i, k = off + i ∧ (den rs)[i]? = some s := by
  induction rs generalizing off with
  | nil => simp [findInRanges] at h
  | cons r rs ih =>
    obtain ⟨a, b⟩ := r
    simp only [findInRanges] at h
    split at h
    · rename_i hab
      cases h
      refine ⟨s - a, by omega, ?_⟩
      rw [den_cons, List.getElem?_append_left (by simp; omega)]
      simp only [List.getElem?_range' (by omega : s - a < b - a)]
      congr 1; omega
    · obtain ⟨i, hk, hi⟩ := ih h
      refine ⟨(b - a) + i, by omega, ?_⟩
      rw [den_cons, List.getElem?_append_right (by simp)]
      simpa using hi

/-- in a duplicate-free list the index of an element is unique -/
theorem nodup_getElem?_inj {l : List Nat} (hl : l.Nodup) {i j : Nat} {s : Nat}
    (hi : l[i]? = some s) (hj : l[j]? = some s) : i = j := by
  obtain ⟨hi', hie⟩ := List.getElem?_eq_some_iff.mp hi
  obtain ⟨hj', hje⟩ := List.getElem?_eq_some_iff.mp hj
  exact (List.getElem_inj hl).mp (hie.trans hje.symm)

theorem findInRanges_of_nodup {s : Nat} {rs : Ranges} (hn : (den rs).Nodup) {i : Nat}
    (hi : (den rs)[i]? = some s) (off : Nat) : findInRanges s rs off = some (off + i) := by
  have hmem : s ∈ den rs := List.mem_of_getElem? hi
  cases hf : findInRanges s rs off with
  | none => exact absurd hmem (findInRanges_none.mp hf)
  | some k =>
    obtain ⟨j, hk, hj⟩ := findInRanges_some hf
    have := nodup_getElem?_inj hn hi hj
    subst this; rw [hk]

theorem findInUtxo_sound {s : Nat} {u : List (OutPoint × UtxoEntry)} {p : SatPoint}
    (h : findInUtxo s u = some p) : SatAt u s p := by
  induction u with
  | nil => simp [findInUtxo] at h
  | cons q u ih =>
    obtain ⟨op, e⟩ := q
    simp only [findInUtxo] at h
    split at h
    · rename_i off hf
      cases h
      obtain ⟨i, hk, hi⟩ := findInRanges_some hf
      exact ⟨e, by simp, by simpa [hk] using hi⟩
    · obtain ⟨e', hm, hs⟩ := ih h
      exact ⟨e', by simp [hm], hs⟩

theorem findInUtxo_none {s : Nat} {u : List (OutPoint × UtxoEntry)} :
    findInUtxo s u = none ↔ s ∉ allSats u := by
  induction u with
  | nil => simp [findInUtxo, allSats_nil]
  | cons q u ih =>
    obtain ⟨op, e⟩ := q
    simp only [findInUtxo, allSats_cons, List.mem_append]
    cases hf : findInRanges s e.ranges 0 with
    | none =>
      have := findInRanges_none.mp hf
      simp only [ih]
      constructor
      · intro h1 h2; rcases h2 with h2 | h2
        · exact this h2
        · exact h1 h2
      · intro h1 h2; exact h1 (Or.inr h2)
    | some k =>
      obtain ⟨i, _, hi⟩ := findInRanges_some hf
      simp only [reduceCtorEq, false_iff, Classical.not_not]
      exact Or.inl (List.mem_of_getElem? hi)

theorem findInUtxo_complete {s : Nat} {u : List (OutPoint × UtxoEntry)} (hn : (allSats u).Nodup)
    {p : SatPoint} (h : SatAt u s p) : findInUtxo s u = some p := by
  induction u with
  | nil => obtain ⟨e, hm, _⟩ := h; simp at hm
  | cons q u ih =>
    obtain ⟨op, e⟩ := q
    rw [allSats_cons] at hn
    obtain ⟨hn1, hn2, hdis⟩ := List.nodup_append.mp hn
    obtain ⟨e', hm, hs⟩ := h
    simp only [findInUtxo]
    rcases List.mem_cons.mp hm with heq | hm'
    · cases heq
      rw [findInRanges_of_nodup hn1 hs 0]
      simp
    · have hmem : s ∈ allSats u := mem_allSats.mpr ⟨_, e', hm', List.mem_of_getElem? hs⟩
      have hnot : s ∉ den e.ranges := fun h1 => hdis s h1 s hmem rfl
      rw [findInRanges_none.mpr hnot]
      exact ih hn2 ⟨e', hm', hs⟩

/-- **find is exact** on a table without duplicate sats -/
theorem findInUtxo_iff {s : Nat} {u : List (OutPoint × UtxoEntry)} (hn : (allSats u).Nodup) (p : SatPoint) :
    findInUtxo s u = some p ↔ SatAt u s p :=
  ⟨findInUtxo_sound, findInUtxo_complete hn⟩

theorem allSats_perm {u v : List (OutPoint × UtxoEntry)} (h : u.Perm v) : (allSats u).Perm (allSats v) := by
  induction h with
  | nil => exact List.Perm.refl _
  | cons x _ ih => obtain ⟨op, e⟩ := x; rw [allSats_cons, allSats_cons]; exact List.Perm.append_left _ ih
  | swap x y l =>
    obtain ⟨op, e⟩ := x; obtain ⟨op', e'⟩ := y
    simp only [allSats_cons, ← List.append_assoc]
    exact List.Perm.append_right _ List.perm_append_comm
  | trans _ _ ih1 ih2 => exact ih1.trans ih2

/-- the scan order of the table cannot be observed -/
theorem findInUtxo_perm {s : Nat} {u v : List (OutPoint × UtxoEntry)} (h : u.Perm v) (hn : (allSats u).Nodup) :
    findInUtxo s u = findInUtxo s v := by
  have hn' : (allSats v).Nodup := (allSats_perm h).nodup_iff.mp hn
  have hat : ∀ p, SatAt u s p ↔ SatAt v s p := fun p =>
    ⟨fun ⟨e, hm, hs⟩ => ⟨e, h.mem_iff.mp hm, hs⟩, fun ⟨e, hm, hs⟩ => ⟨e, h.mem_iff.mpr hm, hs⟩⟩
  cases hu : findInUtxo s u with
  | none =>
    have : s ∉ allSats v := fun hm => findInUtxo_none.mp hu ((allSats_perm h).mem_iff.mpr hm)
    exact (findInUtxo_none.mpr this).symm
  | some p =>
    exact ((findInUtxo_iff hn' p).mpr ((hat p).mp ((findInUtxo_iff hn p).mp hu))).symm

end Ord.Index
