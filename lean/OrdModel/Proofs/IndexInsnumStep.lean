import OrdModel.Proofs.IndexInsnumCharms
/-
Group `insnum`: what one call of `update_inscription_location` does to the inscription tables
(`updateInscriptionLocation`, `linkParents` of OrdModel/Index/Inscriptions.lean).
-/
namespace Ord.Index.Insnum
open Ord.Index Ord.Outcome

/-! ### `linkParents` -/

/-- `linkParents` touches only the three parent/child tables -/
theorem linkParents_frame (seq : Nat) (ps : List InscriptionId) :
    ∀ (st : State) (ids : List InscriptionId) (seqs : List Nat) (st' : State) (ids' : List InscriptionId) (seqs' : List Nat),
    linkParents seq ps st ids seqs = .ok (st', ids', seqs') →
    st'.entries = st.entries ∧ st'.id2seq = st.id2seq ∧ st'.num2seq = st.num2seq ∧ st'.sat2seq = st.sat2seq
    ∧ st'.blessed = st.blessed ∧ st'.cursed = st.cursed ∧ st'.height2lastseq = st.height2lastseq := by
  induction ps with
  | nil =>
    intro st ids seqs st' ids' seqs' h
    simp only [linkParents, Outcome.ok.injEq, Prod.mk.injEq] at h
    obtain ⟨rfl, _, _⟩ := h
    exact ⟨rfl, rfl, rfl, rfl, rfl, rfl, rfl⟩
  | cons p rest ih =>
    intro st ids seqs st' ids' seqs' h
    simp only [linkParents] at h
    split at h
    · exact ih _ _ _ _ _ _ h
    · split at h
      · exact absurd h (by simp)
      · have := ih _ _ _ _ _ _ h
        split at this <;> simpa using this

/-! ### `updateInscriptionLocation` cut into its stages

The model function is one large `let`-chain; for reasoning it is re-stated as a composition of
named stages and proved equal to the model function (`uloc_unfold`, by `rfl`). -/

/-- the tail of `updateInscriptionLocation`: push the inscription onto its UTXO entry -/
def finish (newSatpoint : SatPoint) (target : Target) (outs : List UtxoEntry)
    (step : Outcome (Bool × Nat × State × InsCtx)) : Outcome LocState :=
  match step with
  | .panic s => .panic s
  | .err e => .err e
  | .ok (unbound, seq, st, ctx) =>
    if unbound then
      let off := st.unbound
      let e := (ctx.unboundEntry.getD UtxoEntry.empty)
      .ok { st := { st with unbound := st.unbound + 1 },
            ctx := { ctx with unboundEntry := some (pushIns e seq off) }, outs := outs }
    else
      match target with
      | .output vout =>
        match outs[vout]? with
        | none => .panic "output_utxo_entries[vout]"
        | some e => .ok { st := st, ctx := ctx, outs := outs.set vout (pushIns e seq newSatpoint.offset) }
      | .null =>
        if !newSatpoint.outpoint.isSpecial then .panic "assert!(Index::is_special_outpoint(satpoint.outpoint))"
        else
          let e := (ctx.nullEntry.getD UtxoEntry.empty)
          .ok { st := st, ctx := { ctx with nullEntry := some (pushIns e seq newSatpoint.offset) }, outs := outs }

def oldStep (height : Nat) (fl : Flotsam) (newSatpoint : SatPoint) (opReturn : Bool) (ls : LocState)
    (seq : Nat) (oldSp : SatPoint) : Outcome (Bool × Nat × State × InsCtx) :=
  match ls.st.entries[seq]? with
  | none => if opReturn then .panic "sequence_number_to_entry.get(&sequence_number).unwrap()" else
      .ok (false, seq, ls.st,
        { ls.ctx with events := ls.ctx.events ++ [.inscriptionTransferred height fl.id newSatpoint oldSp seq] })
  | some entry =>
    let st1 := if opReturn then
        { ls.st with entries := ls.st.entries.set seq { entry with charms := setCharm entry.charms charmBurned } }
      else ls.st
    .ok (false, seq, st1,
      { ls.ctx with events := ls.ctx.events ++ [.inscriptionTransferred height fl.id newSatpoint oldSp seq] })

def numberOf (st : State) (cursed : Bool) : Int := if cursed then -((st.cursed : Int) + 1) else (st.blessed : Int)

/-- counters, number table and sat table after allocating a new inscription -/
def allocState (st : State) (cursed : Bool) (sat : Option Nat) : State :=
  let st0 := if cursed then { st with cursed := st.cursed + 1 } else { st with blessed := st.blessed + 1 }
  let st1 := { st0 with num2seq := AL.set st0.num2seq (numberOf st cursed) st0.entries.length }
  match sat with
  | some s => { st1 with sat2seq := insertUnique st1.sat2seq (s, st0.entries.length) }
  | none => st1

def satOf (unbound : Bool) (inputRanges : Option (List (Nat × Nat))) (offset : Nat) : Outcome (Option Nat) :=
  if unbound then .ok none
  else match inputRanges with
    | none => .ok none
    | some rs => match calculateSat rs 0 offset with
      | .ok s => .ok (some s)
      | .panic s => .panic s
      | .err e => .err e

def newStep (height time : Nat) (inputRanges : Option (List (Nat × Nat))) (fl : Flotsam) (newSatpoint : SatPoint)
    (opReturn : Bool) (ls : LocState) (cursed : Bool) (fee : Nat) (gallery hidden : Bool) (parents : List InscriptionId)
    (reinscription unbound vindicated : Bool) : Outcome (Bool × Nat × State × InsCtx) :=
  if (if cursed then ls.st.cursed else ls.st.blessed) ≥ 2147483648 then
    .panic "inscription count try_into::<i32>().unwrap()"
  else
  match satOf unbound inputRanges fl.offset with
  | .panic s => .panic s
  | .err e => .err e
  | .ok sat =>
    match linkParents ls.st.entries.length parents (allocState ls.st cursed sat) [] [] with
    | .panic s => .panic s
    | .err e => .err e
    | .ok (st3, parentIds, parentSeqs) =>
      let seq := ls.st.entries.length
      let charms := newCharms cursed reinscription sat opReturn newSatpoint.outpoint.isNull unbound vindicated
      let st4 := if gallery && !hidden then { st3 with gallery := insertUnique st3.gallery seq } else st3
      let ev := Event.inscriptionCreated height charms fl.id (if unbound then none else some newSatpoint) parentIds seq
      let entry : InsEntry := ⟨charms, fee, height, hidden, fl.id, numberOf ls.st cursed, parentSeqs, sat, seq, time⟩
      let st5 := { st4 with entries := st4.entries ++ [entry], id2seq := AL.set st4.id2seq fl.id seq }
      let (st6, homeCount) :=
        if hidden then (st5, ls.ctx.homeCount)
        else
          let home := st5.home ++ [(seq, fl.id)]
          if ls.ctx.homeCount = 100 then ({ st5 with home := home.drop 1 }, ls.ctx.homeCount)
          else ({ st5 with home := home }, ls.ctx.homeCount + 1)
      .ok (unbound, seq, st6, { ls.ctx with events := ls.ctx.events ++ [ev], homeCount := homeCount })

theorem uloc_unfold (cfg : Cfg) (height time : Nat) (ir : Option (List (Nat × Nat))) (fl : Flotsam) (sp : SatPoint)
    (opr : Bool) (tgt : Target) (ls : LocState) :
    updateInscriptionLocation cfg height time ir fl sp opr tgt ls =
      finish sp tgt ls.outs (match fl.origin with
        | .old seq oldSp => oldStep height fl sp opr ls seq oldSp
        | .new c fee g hid ps r u v => newStep height time ir fl sp opr ls c fee g hid ps r u v) := by
  obtain ⟨id, off, origin⟩ := fl
  cases origin with
  | old seq oldSp => rfl
  | new c fee g hid ps r u v => cases c <;> rfl

/-! ### The inscription tables as one record -/

structure Tabs where
  entries : List InsEntry
  id2seq : List (InscriptionId × Nat)
  num2seq : List (Int × Nat)
  sat2seq : List (Nat × Nat)
  children : List (Nat × Nat)
  coll2latest : List (Nat × Nat)
  latest2coll : List (Nat × Nat)
  blessed : Nat
  cursed : Nat

def tabs (st : State) : Tabs :=
  ⟨st.entries, st.id2seq, st.num2seq, st.sat2seq, st.children, st.coll2latest, st.latest2coll, st.blessed, st.cursed⟩

theorem allocState_tabs (st : State) (c : Bool) (sat : Option Nat) :
    tabs (allocState st c sat) =
      { tabs st with
        num2seq := AL.set st.num2seq (numberOf st c) st.entries.length,
        sat2seq := (match sat with | some s => insertUnique st.sat2seq (s, st.entries.length) | none => st.sat2seq),
        blessed := if c then st.blessed else st.blessed + 1,
        cursed := if c then st.cursed + 1 else st.cursed } := by
  cases c <;> cases sat <;> rfl

theorem linkParents_tabs {seq : Nat} {ps : List InscriptionId} {st st' : State} {ids ids' : List InscriptionId}
    {seqs seqs' : List Nat} (h : linkParents seq ps st ids seqs = .ok (st', ids', seqs')) :
    tabs st' = { tabs st with children := st'.children, coll2latest := st'.coll2latest, latest2coll := st'.latest2coll } := by
  obtain ⟨h1, h2, h3, h4, h5, h6, _⟩ := linkParents_frame seq ps st ids seqs st' ids' seqs' h
  simp [tabs, h1, h2, h3, h4, h5, h6]

theorem finish_inv {sp : SatPoint} {tgt : Target} {outs : List UtxoEntry} {ub : Bool} {seq : Nat} {st : State}
    {ctx : InsCtx} {ls' : LocState} (h : finish sp tgt outs (.ok (ub, seq, st, ctx)) = .ok ls') :
    tabs ls'.st = tabs st ∧ ls'.st.height2lastseq = st.height2lastseq := by
  unfold finish at h
  simp only at h
  split at h
  · simp only [Outcome.ok.injEq] at h; subst h; exact ⟨rfl, rfl⟩
  · split at h
    · split at h
      · exact absurd h (by simp)
      · simp only [Outcome.ok.injEq] at h; subst h; exact ⟨rfl, rfl⟩
    · split at h
      · exact absurd h (by simp)
      · simp only [Outcome.ok.injEq] at h; subst h; exact ⟨rfl, rfl⟩

theorem finish_ok {sp : SatPoint} {tgt : Target} {outs : List UtxoEntry} {step : Outcome (Bool × Nat × State × InsCtx)}
    {ls' : LocState} (h : finish sp tgt outs step = .ok ls') : ∃ ub seq st ctx, step = .ok (ub, seq, st, ctx) := by
  unfold finish at h
  split at h
  · exact absurd h (by simp)
  · exact absurd h (by simp)
  · exact ⟨_, _, _, _, rfl⟩

theorem oldStep_inv {height : Nat} {fl : Flotsam} {sp : SatPoint} {opr : Bool} {ls : LocState} {seq : Nat}
    {oldSp : SatPoint} {ub : Bool} {seq' : Nat} {st : State} {ctx : InsCtx}
    (h : oldStep height fl sp opr ls seq oldSp = .ok (ub, seq', st, ctx)) :
    st.height2lastseq = ls.st.height2lastseq ∧
    (tabs st = tabs ls.st ∨ ∃ entry, ls.st.entries[seq]? = some entry ∧
      tabs st = { tabs ls.st with entries := ls.st.entries.set seq { entry with charms := setCharm entry.charms charmBurned } }) := by
  unfold oldStep at h
  split at h
  · split at h
    · exact absurd h (by simp)
    · simp only [Outcome.ok.injEq, Prod.mk.injEq] at h
      obtain ⟨_, _, rfl, _⟩ := h
      exact ⟨rfl, Or.inl rfl⟩
  · rename_i entry he
    simp only [Outcome.ok.injEq, Prod.mk.injEq] at h
    obtain ⟨_, _, rfl, _⟩ := h
    split
    · exact ⟨rfl, Or.inr ⟨entry, he, rfl⟩⟩
    · exact ⟨rfl, Or.inl rfl⟩

theorem newStep_inv {height time : Nat} {ir : Option (List (Nat × Nat))} {fl : Flotsam} {sp : SatPoint} {opr : Bool}
    {ls : LocState} {c : Bool} {fee : Nat} {g hid : Bool} {ps : List InscriptionId} {r u v : Bool}
    {ub : Bool} {seq : Nat} {st : State} {ctx : InsCtx}
    (h : newStep height time ir fl sp opr ls c fee g hid ps r u v = .ok (ub, seq, st, ctx)) :
    ∃ (sat : Option Nat) (st3 : State) (pids : List InscriptionId) (pseqs : List Nat),
      (if c then ls.st.cursed else ls.st.blessed) < 2147483648 ∧ satOf u ir fl.offset = .ok sat ∧
      linkParents ls.st.entries.length ps (allocState ls.st c sat) [] [] = .ok (st3, pids, pseqs) ∧
      ub = u ∧ seq = ls.st.entries.length ∧ st.height2lastseq = st3.height2lastseq ∧
      tabs st = { tabs st3 with
        entries := st3.entries ++ [⟨newCharms c r sat opr sp.outpoint.isNull u v, fee, height, hid, fl.id,
          numberOf ls.st c, pseqs, sat, ls.st.entries.length, time⟩],
        id2seq := AL.set st3.id2seq fl.id ls.st.entries.length } := by
  unfold newStep at h
  by_cases hge : (if c = true then ls.st.cursed else ls.st.blessed) ≥ 2147483648
  · rw [if_pos hge] at h; exact absurd h (by simp)
  · rw [if_neg hge] at h
    split at h
    · exact absurd h (by simp)
    · exact absurd h (by simp)
    · rename_i sat hsat
      split at h
      · exact absurd h (by simp)
      · exact absurd h (by simp)
      · rename_i st3 pids pseqs hl
        refine ⟨sat, st3, pids, pseqs, by omega, hsat, hl, ?_⟩
        cases hid <;> cases g <;> by_cases hh : ls.ctx.homeCount = 100 <;>
          simp only [hh, Bool.false_and, Bool.true_and, Bool.not_true, Bool.not_false, Bool.and_false, Bool.and_true,
            if_true, if_false, Bool.false_eq_true, Outcome.ok.injEq, Prod.mk.injEq] at h <;>
          obtain ⟨rfl, rfl, rfl, _⟩ := h <;> exact ⟨rfl, rfl, rfl, rfl⟩

end Ord.Index.Insnum
