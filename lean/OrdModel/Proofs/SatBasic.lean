import OrdModel.Num.Sat
/-!
Helper lemmas for C29: the epoch table, `Epoch.ofSat`, the (height, offset) ↔ sat bijection.
-/
namespace Ord.Epoch

theorem startingSats_length : startingSats.length = 34 := by decide

theorem startingSat_of_lt {e : Nat} (h : e < 34) : startingSat e = startingSats[e]'(by rw [startingSats_length]; exact h) := by
  unfold startingSat
  rw [List.getElem?_eq_getElem (by rw [startingSats_length]; exact h)]

theorem startingSat_of_ge {e : Nat} (h : 33 ≤ e) : startingSat e = SUPPLY := by
  unfold startingSat
  rcases Nat.lt_or_ge e 34 with h34 | h34
  · have : e = 33 := by omega
    subst this; decide
  · rw [List.getElem?_eq_none (by rw [startingSats_length]; exact h34)]; decide

theorem subsidy_of_ge {e : Nat} (h : 33 ≤ e) : subsidy e = 0 := by
  unfold subsidy FIRST_POST_SUBSIDY; rw [if_neg (by omega)]

/-- the table satisfies the halving recurrence, row by row -/
theorem table_step : ∀ e, e < 33 → startingSat (e + 1) = startingSat e + 210000 * subsidy e := by
  decide

theorem startingSat_succ (e : Nat) : startingSat (e + 1) = startingSat e + 210000 * subsidy e := by
  rcases Nat.lt_or_ge e 33 with h | h
  · exact table_step e h
  · rw [startingSat_of_ge (by omega), startingSat_of_ge h, subsidy_of_ge h]; simp

theorem subsidy_pos : ∀ e, e < 33 → 0 < subsidy e := by decide

theorem table_mono : ∀ a, a < 34 → ∀ b, b < 34 → a ≤ b → startingSat a ≤ startingSat b := by decide

theorem startingSat_zero : startingSat 0 = 0 := by decide


/-- what the if-chain search returns -/
theorem ofSatAux_spec (bs : List Nat) (s : Nat) : ∀ e0 : Nat,
    e0 ≤ ofSatAux bs s e0 ∧ ofSatAux bs s e0 - e0 ≤ bs.length ∧
    (∀ i, i < ofSatAux bs s e0 - e0 → ∃ h : i < bs.length, bs[i] ≤ s) ∧
    (∀ h : ofSatAux bs s e0 - e0 < bs.length, s < bs[ofSatAux bs s e0 - e0]) := by
  induction bs with
  | nil => intro e0; simp [ofSatAux]
  | cons b bs ih =>
    intro e0
    simp only [ofSatAux]
    split
    · rename_i hlt
      refine ⟨by omega, by omega, ?_, ?_⟩
      · intro i hi; omega
      · intro _; simpa using hlt
    · rename_i hge
      obtain ⟨h1, h2, h3, h4⟩ := ih (e0 + 1)
      refine ⟨by omega, by simp; omega, ?_, ?_⟩
      · intro i hi
        cases i with
        | zero => exact ⟨by simp, by simpa using Nat.le_of_not_lt hge⟩
        | succ i =>
          obtain ⟨hl, hle⟩ := h3 i (by omega)
          exact ⟨by simp; omega, by simpa using hle⟩
      · intro hlen
        have hidx : ofSatAux bs s (e0 + 1) - e0 = (ofSatAux bs s (e0 + 1) - (e0 + 1)) + 1 := by omega
        have hl' : ofSatAux bs s (e0 + 1) - (e0 + 1) < bs.length := by
          simp only [List.length_cons] at hlen; omega
        have := h4 hl'
        simp only [hidx, List.getElem_cons_succ]
        exact this

theorem drop1_getElem (i : Nat) (h : i < (startingSats.drop 1).length) :
    (startingSats.drop 1)[i] = startingSat (i + 1) := by
  have hl : (startingSats.drop 1).length = 33 := by decide
  rw [startingSat_of_lt (by omega), List.getElem_drop]
  congr 1; omega

theorem ofSat_le (s : Nat) : ofSat s ≤ 33 := by
  have := (ofSatAux_spec (startingSats.drop 1) s 0).2.1
  have hl : (startingSats.drop 1).length = 33 := by decide
  unfold ofSat; omega

theorem ofSat_lower (s : Nat) : startingSat (ofSat s) ≤ s := by
  have h3 := (ofSatAux_spec (startingSats.drop 1) s 0).2.2.1
  rcases Nat.eq_zero_or_pos (ofSat s) with h0 | hpos
  · rw [h0, startingSat_zero]; omega
  · obtain ⟨hl, hle⟩ := h3 (ofSat s - 1) (by unfold ofSat at hpos ⊢; omega)
    rw [drop1_getElem] at hle
    have : ofSat s - 1 + 1 = ofSat s := by omega
    rw [this] at hle; exact hle

theorem ofSat_upper (s : Nat) (h : ofSat s < 33) : s < startingSat (ofSat s + 1) := by
  have h4 := (ofSatAux_spec (startingSats.drop 1) s 0).2.2.2
  have hl : (startingSats.drop 1).length = 33 := by decide
  have := h4 (by unfold ofSat at h; omega)
  rw [drop1_getElem] at this
  simpa [ofSat] using this

/-- the epoch of a sat is the unique table interval containing it -/
theorem ofSat_unique (s e : Nat) (he : e ≤ 33) (h1 : startingSat e ≤ s)
    (h2 : e < 33 → s < startingSat (e + 1)) : ofSat s = e := by
  have hle := ofSat_le s
  have hlo := ofSat_lower s
  rcases Nat.lt_trichotomy (ofSat s) e with hlt | heq | hgt
  · have hup := ofSat_upper s (by omega)
    have := table_mono (ofSat s + 1) (by omega) e (by omega) (by omega)
    omega
  · exact heq
  · have := h2 (by omega)
    have := table_mono (e + 1) (by omega) (ofSat s) (by omega) (by omega)
    omega

theorem ofSat_lt_of_lt_supply (s : Nat) (h : s < SUPPLY) : ofSat s < 33 := by
  rcases Nat.lt_or_ge (ofSat s) 33 with h' | h'
  · exact h'
  · have := ofSat_lower s
    rw [startingSat_of_ge h'] at this; omega

theorem ofSat_of_ge_supply (s : Nat) (h : SUPPLY ≤ s) : ofSat s = 33 :=
  ofSat_unique s 33 (by omega) (by rw [startingSat_of_ge (by omega)]; exact h) (by omega)

end Ord.Epoch

namespace Ord.Height
open Ord.Epoch

theorem ofHeight_eq (e q : Nat) (hq : q < 210000) : Epoch.ofHeight (e * 210000 + q) = e := by
  unfold Epoch.ofHeight SUBSIDY_HALVING_INTERVAL; omega

theorem startingSat_eq (e q : Nat) (hq : q < 210000) :
    startingSat (e * 210000 + q) = Epoch.startingSat e + q * Epoch.subsidy e := by
  unfold startingSat
  simp only [ofHeight_eq e q hq, Epoch.startingHeight, SUBSIDY_HALVING_INTERVAL]
  congr 2; omega

theorem subsidy_eq (e q : Nat) (hq : q < 210000) : subsidy (e * 210000 + q) = Epoch.subsidy e := by
  unfold subsidy; rw [ofHeight_eq e q hq]

theorem decompose (h : Nat) : h = (h / 210000) * 210000 + h % 210000 ∧ h % 210000 < 210000 := by
  omega

/-- consecutive numbering: each block starts where the previous one ends -/
theorem startingSat_succ (h : Nat) : startingSat (h + 1) = startingSat h + subsidy h := by
  obtain ⟨hd, hr⟩ := decompose h
  generalize h / 210000 = e at hd
  generalize h % 210000 = r at hd hr
  subst hd
  rw [startingSat_eq e r hr, subsidy_eq e r hr]
  rcases Nat.lt_or_ge (r + 1) 210000 with h1 | h1
  · have : e * 210000 + r + 1 = e * 210000 + (r + 1) := by omega
    rw [this, startingSat_eq e (r + 1) h1, Nat.add_mul]; omega
  · have hr' : r = 209999 := by omega
    subst hr'
    have : e * 210000 + 209999 + 1 = (e + 1) * 210000 + 0 := by omega
    rw [this, startingSat_eq (e + 1) 0 (by omega), Epoch.startingSat_succ]
    generalize Epoch.subsidy e = sub
    omega

theorem startingSat_zero : startingSat 0 = 0 := by decide

theorem subsidy_pos (h : Nat) (hh : h < 6930000) : 0 < subsidy h := by
  unfold subsidy
  apply Epoch.subsidy_pos
  unfold Epoch.ofHeight SUBSIDY_HALVING_INTERVAL; omega

theorem subsidy_zero (h : Nat) (hh : 6930000 ≤ h) : subsidy h = 0 := by
  unfold subsidy
  apply Epoch.subsidy_of_ge
  unfold Epoch.ofHeight SUBSIDY_HALVING_INTERVAL; omega

theorem startingSat_last : startingSat 6930000 = SUPPLY := by decide

theorem startingSat_const (h : Nat) (hh : 6930000 ≤ h) : startingSat h = SUPPLY := by
  induction h with
  | zero => omega
  | succ n ih =>
    rcases Nat.lt_or_ge n 6930000 with h1 | h1
    · have : n + 1 = 6930000 := by omega
      rw [this]; exact startingSat_last
    · rw [startingSat_succ, ih h1, subsidy_zero n h1]; rfl

theorem startingSat_lt_succ (h : Nat) (hh : h < 6930000) : startingSat h < startingSat (h + 1) := by
  rw [startingSat_succ]; have := subsidy_pos h hh; omega

theorem startingSat_mono_le (a b : Nat) (hab : a ≤ b) : startingSat a ≤ startingSat b := by
  induction b with
  | zero => have : a = 0 := by omega
            subst this; exact Nat.le_refl _
  | succ n ih =>
    rcases Nat.lt_or_ge a (n + 1) with h | h
    · have := ih (by omega); rw [startingSat_succ]; omega
    · have : a = n + 1 := by omega
      subst this; exact Nat.le_refl _

theorem startingSat_strict (a b : Nat) (hab : a < b) (hb : b ≤ 6930000) : startingSat a < startingSat b := by
  have h1 := startingSat_lt_succ a (by omega)
  have h2 := startingSat_mono_le (a + 1) b (by omega)
  omega

end Ord.Height

namespace Ord.Sat
open Ord.Epoch

/-- the facts about a sat below the supply inside its epoch -/
theorem in_epoch (s : Nat) (hs : s < SUPPLY) :
    epoch s < 33 ∧ 0 < Epoch.subsidy (epoch s) ∧ Epoch.startingSat (epoch s) ≤ s ∧
    epochPosition s < 210000 * Epoch.subsidy (epoch s) := by
  have he := Epoch.ofSat_lt_of_lt_supply s hs
  have hlo := Epoch.ofSat_lower s
  have hup := Epoch.ofSat_upper s he
  rw [Epoch.startingSat_succ] at hup
  refine ⟨he, Epoch.subsidy_pos _ he, hlo, ?_⟩
  unfold epochPosition epoch; omega

theorem quotient_lt (s : Nat) (hs : s < SUPPLY) :
    epochPosition s / Epoch.subsidy (epoch s) < 210000 := by
  obtain ⟨_, hpos, _, hlt⟩ := in_epoch s hs
  rw [Nat.div_lt_iff_lt_mul hpos]; exact hlt

/-- `Sat::height` does not panic below the supply and returns `heightN` -/
theorem heightO_ok (s : Nat) (hs : s < SUPPLY) : heightO s = .ok (heightN s) := by
  obtain ⟨he, hpos, _, _⟩ := in_epoch s hs
  have hq := quotient_lt s hs
  unfold heightO heightN
  simp only [Epoch.startingHeightO, Outcome.mulW, Outcome.addW, Epoch.startingHeight, SUBSIDY_HALVING_INTERVAL]
  generalize epochPosition s / Epoch.subsidy (epoch s) = q at hq ⊢
  generalize Epoch.subsidy (epoch s) = sub at hpos ⊢
  generalize epoch s = e at he ⊢
  have hp : (2:Nat) ^ 32 = 4294967296 := by decide
  rw [hp]
  have h4 : e * 210000 + q < 4294967296 := by omega
  have h1 : e * 210000 < 4294967296 := Nat.lt_of_le_of_lt (Nat.le_add_right _ _) h4
  have h3 : q < 4294967296 := Nat.lt_of_le_of_lt (Nat.le_add_left _ _) h4
  have h2 : ¬ sub = 0 := by omega
  simp [h1, h2, h3, h4]

theorem thirdO_ok (s : Nat) (hs : s < SUPPLY) : thirdO s = .ok (thirdN s) := by
  obtain ⟨_, hpos, _, _⟩ := in_epoch s hs
  unfold thirdO thirdN
  have h2 : ¬ Epoch.subsidy (epoch s) = 0 := by omega
  simp [h2]

theorem heightN_lt (s : Nat) (hs : s < SUPPLY) : heightN s < 6930000 := by
  obtain ⟨he, _, _, _⟩ := in_epoch s hs
  have hq := quotient_lt s hs
  unfold heightN Epoch.startingHeight SUBSIDY_HALVING_INTERVAL; omega

theorem heightN_epoch (s : Nat) (hs : s < SUPPLY) : heightN s / 210000 = epoch s := by
  have hq := quotient_lt s hs
  unfold heightN Epoch.startingHeight SUBSIDY_HALVING_INTERVAL
  generalize epochPosition s / Epoch.subsidy (epoch s) = q at hq ⊢
  omega

/-- a sat below the supply is the `third`-th sat of block `height` -/
theorem decompose (s : Nat) (hs : s < SUPPLY) :
    Height.startingSat (heightN s) + thirdN s = s ∧ thirdN s < Height.subsidy (heightN s) := by
  obtain ⟨he, hpos, hlo, hlt⟩ := in_epoch s hs
  have hq := quotient_lt s hs
  unfold heightN thirdN Epoch.startingHeight SUBSIDY_HALVING_INTERVAL
  rw [Height.startingSat_eq _ _ hq, Height.subsidy_eq _ _ hq]
  refine ⟨?_, Nat.mod_lt _ hpos⟩
  have := Nat.div_add_mod (epochPosition s) (Epoch.subsidy (epoch s))
  rw [Nat.mul_comm] at this
  have hp : epochPosition s = s - Epoch.startingSat (epoch s) := rfl
  omega

/-- conversely, the `k`-th sat of block `h` has height `h` and third `k` -/
theorem compose (h k : Nat) (hh : h < 6930000) (hk : k < Height.subsidy h) :
    Height.startingSat h + k < SUPPLY ∧ heightN (Height.startingSat h + k) = h ∧
    thirdN (Height.startingSat h + k) = k ∧ epoch (Height.startingSat h + k) = h / 210000 := by
  obtain ⟨hd, hr⟩ := Height.decompose h
  generalize hE : h / 210000 = e at hd
  generalize h % 210000 = r at hd hr
  subst hd
  have he : e < 33 := by omega
  rw [Height.subsidy_eq e r hr] at hk
  rw [Height.startingSat_eq e r hr]
  have hsub := Epoch.subsidy_pos e he
  have hstep := Epoch.startingSat_succ e
  -- r * sub + k < 210000 * sub
  have hbound : r * Epoch.subsidy e + k < 210000 * Epoch.subsidy e := by
    have : (r + 1) * Epoch.subsidy e ≤ 210000 * Epoch.subsidy e := Nat.mul_le_mul_right _ (by omega)
    rw [Nat.add_mul] at this; omega
  have hep : epoch (Epoch.startingSat e + r * Epoch.subsidy e + k) = e := by
    apply Epoch.ofSat_unique _ e (by omega) (by omega)
    intro _; rw [hstep]; omega
  have hlt : Epoch.startingSat e + r * Epoch.subsidy e + k < SUPPLY := by
    have := Epoch.table_mono (e + 1) (by omega) 33 (by omega) (by omega)
    rw [Epoch.startingSat_of_ge (Nat.le_refl 33)] at this
    omega
  have hposeq : epochPosition (Epoch.startingSat e + r * Epoch.subsidy e + k) = r * Epoch.subsidy e + k := by
    unfold epochPosition; rw [hep]; omega
  refine ⟨hlt, ?_, ?_, hep⟩
  · unfold heightN; rw [hposeq, hep]
    unfold Epoch.startingHeight SUBSIDY_HALVING_INTERVAL
    congr 1
    rw [Nat.mul_comm r, Nat.mul_add_div hsub, Nat.div_eq_of_lt hk]; omega
  · unfold thirdN; rw [hposeq, hep]
    rw [Nat.mul_comm r, Nat.mul_add_mod, Nat.mod_eq_of_lt hk]

end Ord.Sat
