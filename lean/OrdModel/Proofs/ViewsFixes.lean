import OrdModel.Proofs.IndexMiscAL
import OrdModel.Proofs.Views
/-
C18 findings F1 / F2 and their repairs: what `r::inscription`, `Server::sat` and the children /
parents accessors answer at the null outpoint / for huge page numbers, without and with the patches
`notes/fix-C18-null-outpoint.diff` and `notes/fix-C18-page-overflow.diff` (`Fixes`).
-/
namespace Ord.Server
open Ord Ord.Index

theorem null_ne_unbound : (OutPoint.null == OutPoint.unbound) = false := by decide

/-- unrepaired: an indexed inscription whose stored satpoint is at the null outpoint is answered 404 -/
theorem rInscription_null_unfixed (fx : Fixes) (hfx : fx.nullOutpoint = false) (st : State) (id : InscriptionId)
    (node : Option NodeOut) (seq : Nat) (e : InsEntry) (sp : SatPoint)
    (hq : AL.get st.id2seq id = some seq) (he : st.entries[seq]? = some e) (hsp : AL.get st.seq2sp seq = some sp)
    (hnull : sp.outpoint = OutPoint.null) :
    rInscription fx st id node = .notFound := by
  unfold rInscription
  simp [hq, he, hsp, hfx, hnull, null_ne_unbound]

/-- repaired: every indexed inscription is served whenever the node knows its output or it sits at
one of the two special outpoints; there (unbound / null) it is shown without value and address,
and always with the stored entry fields, the stored satpoint and the stored charms -/
theorem rInscription_served_fixed (fx : Fixes) (hfx : fx.nullOutpoint = true) (st : State) (id : InscriptionId)
    (node : Option NodeOut) (seq : Nat) (e : InsEntry) (sp : SatPoint)
    (hq : AL.get st.id2seq id = some seq) (he : st.entries[seq]? = some e) (hsp : AL.get st.seq2sp seq = some sp)
    (hserv : sp.outpoint = OutPoint.unbound ∨ sp.outpoint = OutPoint.null ∨ node.isSome = true) :
    ∃ v, rInscription fx st id node = .ok v ∧ v.id = id ∧ v.number = e.number ∧ v.height = e.height ∧
      v.fee = e.fee ∧ v.sat = e.sat ∧ v.timestamp = e.timestamp ∧ v.satpoint = sp ∧ v.charms = e.charms ∧
      ((sp.outpoint = OutPoint.unbound ∨ sp.outpoint = OutPoint.null) → v.value = none ∧ v.address = none) := by
  unfold rInscription
  simp only [hq, he, hsp, hfx, Bool.true_and]
  by_cases hs : (sp.outpoint == OutPoint.unbound || sp.outpoint == OutPoint.null) = true
  · simp only [hs, if_true]
    refine ⟨_, rfl, ?_⟩
    exact ⟨rfl, rfl, rfl, rfl, rfl, rfl, rfl, rfl, fun _ => ⟨rfl, rfl⟩⟩
  · have hs' : (sp.outpoint == OutPoint.unbound || sp.outpoint == OutPoint.null) = false := by
      simpa using hs
    have hnu : ¬ sp.outpoint = OutPoint.unbound := by
      intro h; simp [h] at hs'
    have hnn : ¬ sp.outpoint = OutPoint.null := by
      intro h; simp [h] at hs'
    have hnode : node.isSome = true := by
      rcases hserv with h | h | h
      · exact absurd h hnu
      · exact absurd h hnn
      · exact h
    obtain ⟨n, rfl⟩ := Option.isSome_iff_exists.mp hnode
    have hnb : (sp.outpoint == OutPoint.null) = false := by simpa using hnn
    have hnub : (sp.outpoint == OutPoint.unbound) = false := by simpa using hnu
    simp only [hnub, hnb, Bool.or_false, Bool.false_eq_true, if_false]
    refine ⟨_, rfl, ?_⟩
    refine ⟨rfl, rfl, rfl, rfl, rfl, rfl, rfl, rfl, ?_⟩
    intro h
    rcases h with h | h
    · exact absurd h hnu
    · exact absurd h hnn

/-- unrepaired: a sat whose shown satpoint is at the null outpoint is answered 500 -/
theorem satView_null_unfixed (fx : Fixes) (hfx : fx.nullOutpoint = false) (st : State) (sat : Nat)
    (node : Option NodeOut) (ids : List InscriptionId) (sp : SatPoint)
    (hids : idsOfSeqs st (seqsOfSat st sat) = some ids) (hsp : satSatpoint st sat = some sp)
    (hnull : sp.outpoint = OutPoint.null) :
    satView fx st sat node = .internal := by
  unfold satView
  simp [hids, hsp, hfx, hnull, null_ne_unbound]

/-- repaired: the sat page answers whenever the node knows the shown output or the shown satpoint
is absent / at a special outpoint; it lists the stored inscriptions and the stored satpoint -/
theorem satView_served_fixed (fx : Fixes) (hfx : fx.nullOutpoint = true) (st : State) (sat : Nat)
    (node : Option NodeOut) (ids : List InscriptionId)
    (hids : idsOfSeqs st (seqsOfSat st sat) = some ids)
    (hserv : ∀ sp, satSatpoint st sat = some sp →
      sp.outpoint = OutPoint.unbound ∨ sp.outpoint = OutPoint.null ∨ node.isSome = true) :
    ∃ v, satView fx st sat node = .ok v ∧ v.inscriptions = ids ∧ v.satpoint = satSatpoint st sat ∧
      (∀ sp, satSatpoint st sat = some sp → (sp.outpoint = OutPoint.unbound ∨ sp.outpoint = OutPoint.null) →
        v.address = none) := by
  unfold satView
  simp only [hids, hfx, Bool.true_and]
  cases hsp : satSatpoint st sat with
  | none =>
    refine ⟨_, rfl, ?_⟩
    exact ⟨rfl, rfl, fun _ h => by cases h⟩
  | some sp =>
    simp only
    by_cases hs : (sp.outpoint == OutPoint.unbound || sp.outpoint == OutPoint.null) = true
    · simp only [hs, if_true]
      refine ⟨_, rfl, ?_⟩
      exact ⟨rfl, rfl, fun _ _ _ => rfl⟩
    · have hs' : (sp.outpoint == OutPoint.unbound || sp.outpoint == OutPoint.null) = false := by
        simpa using hs
      have hnu : ¬ sp.outpoint = OutPoint.unbound := by
        intro h; simp [h] at hs'
      have hnn : ¬ sp.outpoint = OutPoint.null := by
        intro h; simp [h] at hs'
      have hnode : node.isSome = true := by
        rcases hserv sp hsp with h | h | h
        · exact absurd h hnu
        · exact absurd h hnn
        · exact h
      obtain ⟨n, rfl⟩ := Option.isSome_iff_exists.mp hnode
      have hnb : (sp.outpoint == OutPoint.null) = false := by simpa using hnn
      have hnub : (sp.outpoint == OutPoint.unbound) = false := by simpa using hnu
      simp only [hnub, hnb, Bool.or_false, Bool.false_eq_true, if_false]
      refine ⟨_, rfl, ?_⟩
      refine ⟨rfl, rfl, ?_⟩
      intro sp' h' hsp'
      cases h'
      rcases hsp' with h | h
      · exact absurd h hnu
      · exact absurd h hnn

/-- away from the null outpoint the repair changes nothing -/
theorem rInscription_fx_irrelevant (fx fx' : Fixes) (st : State) (id : InscriptionId) (node : Option NodeOut)
    (h : ∀ seq sp, AL.get st.id2seq id = some seq → AL.get st.seq2sp seq = some sp → sp.outpoint ≠ OutPoint.null) :
    rInscription fx st id node = rInscription fx' st id node := by
  unfold rInscription
  cases hq : AL.get st.id2seq id with
  | none => rfl
  | some seq =>
    simp only
    cases he : st.entries[seq]? with
    | none => rfl
    | some e =>
      cases hsp : AL.get st.seq2sp seq with
      | none => rfl
      | some sp =>
        have hnb : (sp.outpoint == OutPoint.null) = false := by simpa using h seq sp hq hsp
        simp [hnb]

theorem satView_fx_irrelevant (fx fx' : Fixes) (st : State) (sat : Nat) (node : Option NodeOut)
    (h : ∀ sp, satSatpoint st sat = some sp → sp.outpoint ≠ OutPoint.null) :
    satView fx st sat node = satView fx' st sat node := by
  unfold satView
  cases hids : idsOfSeqs st (seqsOfSat st sat) with
  | none => rfl
  | some ids =>
    simp only
    cases hsp : satSatpoint st sat with
    | none => rfl
    | some sp =>
      have hnb : (sp.outpoint == OutPoint.null) = false := by simpa using h sp hsp
      simp [hnb]

end Ord.Server
