import OrdModel.Proofs.IndexSchedSeq
import OrdModel.Proofs.IndexInslocCount
import OrdModel.Proofs.IndexMiscAddrOuts
/-
Lift of the inscription-side invariants to all reachable states, part 1: list lemmas.
`allSeqs` / `allIns` (the sequence numbers listed by a `utxo`-shaped association list) under
`AL.erase`, `AL.set`, cache insertion of fresh keys, and the uniqueness that `Nodup` gives.
-/
namespace Ord.Index.InsLift
open Ord Ord.Index Outcome Sched Insloc

/-! ### `allSeqs` of association-list operations -/

theorem allSeqs_nil : allSeqs [] = [] := rfl
theorem allSeqs_cons (k : OutPoint) (e : UtxoEntry) (l : List (OutPoint × UtxoEntry)) :
    allSeqs ((k, e) :: l) = entSeqs e ++ allSeqs l := rfl
theorem allSeqs_append (a b : List (OutPoint × UtxoEntry)) : allSeqs (a ++ b) = allSeqs a ++ allSeqs b := by
  simp [allSeqs]

theorem allSeqs_erase (l : List (OutPoint × UtxoEntry)) (k : OutPoint) (e : UtxoEntry)
    (h : AL.get l k = some e) : (allSeqs l).Perm (entSeqs e ++ allSeqs (AL.erase l k)) := by
  induction l with
  | nil => simp [AL.get] at h
  | cons p rest ih =>
    obtain ⟨k0, v0⟩ := p
    simp only [AL.get] at h
    simp only [AL.erase]
    split at h
    · rename_i hk
      simp only [Option.some.injEq] at h; subst h
      rw [if_pos hk]
      exact List.Perm.refl _
    · rename_i hk
      rw [if_neg hk]
      rw [allSeqs_cons, allSeqs_cons]
      refine (List.Perm.append_left _ (ih h)).trans ?_
      exact List.perm_append_comm_assoc _ _ _

theorem allSeqs_set_none (l : List (OutPoint × UtxoEntry)) (k : OutPoint) (v : UtxoEntry)
    (h : AL.get l k = none) : allSeqs (AL.set l k v) = allSeqs l ++ entSeqs v := by
  induction l with
  | nil => simp [AL.set, allSeqs, entSeqs]
  | cons p rest ih =>
    obtain ⟨k0, v0⟩ := p
    simp only [AL.get] at h
    simp only [AL.set]
    split at h
    · cases h
    · rename_i hk
      rw [if_neg hk, allSeqs_cons, allSeqs_cons, ih h, List.append_assoc]

theorem allSeqs_set_some (l : List (OutPoint × UtxoEntry)) (k : OutPoint) (v old : UtxoEntry) (x : List Nat)
    (h : AL.get l k = some old) (hv : entSeqs v = entSeqs old ++ x) :
    (allSeqs (AL.set l k v)).Perm (allSeqs l ++ x) := by
  induction l with
  | nil => simp [AL.get] at h
  | cons p rest ih =>
    obtain ⟨k0, v0⟩ := p
    simp only [AL.get] at h
    simp only [AL.set]
    split at h
    · rename_i hk
      simp only [Option.some.injEq] at h; subst h
      rw [if_pos hk, allSeqs_cons, allSeqs_cons, hv, List.append_assoc, List.append_assoc]
      exact List.Perm.append_left _ List.perm_append_comm
    · rename_i hk
      rw [if_neg hk, allSeqs_cons, allSeqs_cons, List.append_assoc]
      exact List.Perm.append_left _ (ih h)

theorem mem_set_sub {κ ν : Type} [BEq κ] (l : List (κ × ν)) (k : κ) (v : ν) (p : κ × ν)
    (h : p ∈ AL.set l k v) : p = (k, v) ∨ p ∈ l := by
  induction l with
  | nil => simp [AL.set] at h; exact Or.inl h
  | cons q rest ih =>
    obtain ⟨k0, v0⟩ := q
    simp only [AL.set] at h
    split at h
    · rcases List.mem_cons.1 h with h | h
      · exact Or.inl h
      · exact Or.inr (List.mem_cons_of_mem _ h)
    · rcases List.mem_cons.1 h with h | h
      · exact Or.inr (h ▸ List.mem_cons_self)
      · rcases ih h with h | h
        · exact Or.inl h
        · exact Or.inr (List.mem_cons_of_mem _ h)

/-- inserting the outputs of a transaction whose txid does not occur among the keys appends
their lists -/
theorem allSeqs_setAll_fresh (txid : Txid) (outs : List UtxoEntry) (n : Nat) (c : Cache)
    (hf : ∀ op ∈ AL.keys c, op.txid = txid → op.vout < n) :
    allSeqs (setAll txid (enumFrom n outs) c) = allSeqs c ++ outs.flatMap entSeqs := by
  induction outs generalizing n c with
  | nil => simp [setAll, enumFrom]
  | cons e es ih =>
    simp only [enumFrom, setAll, List.foldl_cons]
    have hnone : AL.get c ⟨txid, n⟩ = none := by
      rw [AL.get_eq_none_iff]
      intro hm
      exact absurd (hf _ hm rfl) (Nat.lt_irrefl _)
    have := ih (n + 1) (AL.set c ⟨txid, n⟩ e) (by
      intro op hm ht
      rcases (AL.mem_keys_set _ _ _ _).1 hm with h | h
      · subst h; exact Nat.lt_succ_self _
      · exact Nat.lt_succ_of_lt (hf op h ht))
    simp only [setAll] at this
    rw [this, allSeqs_set_none _ _ _ hnone, List.flatMap_cons, List.append_assoc]

theorem mem_setAll_sub (txid : Txid) (l : List (Nat × UtxoEntry)) (c : Cache) (p : OutPoint × UtxoEntry)
    (h : p ∈ setAll txid l c) : p ∈ c ∨ ∃ q ∈ l, p = (⟨txid, q.1⟩, q.2) := by
  induction l generalizing c with
  | nil => exact Or.inl h
  | cons q rest ih =>
    obtain ⟨v, e⟩ := q
    simp only [setAll, List.foldl_cons] at h
    rcases ih _ h with h1 | ⟨q, hq, hp⟩
    · rcases mem_set_sub _ _ _ _ h1 with h2 | h2
      · exact Or.inr ⟨(v, e), List.mem_cons_self, h2⟩
      · exact Or.inl h2
    · exact Or.inr ⟨q, List.mem_cons_of_mem _ hq, hp⟩

theorem mem_enumFrom_get {α : Type} (l : List α) (n : Nat) (p : Nat × α) (h : p ∈ enumFrom n l) :
    n ≤ p.1 ∧ l[p.1 - n]? = some p.2 := by
  induction l generalizing n with
  | nil => simp [enumFrom] at h
  | cons a rest ih =>
    simp only [enumFrom, List.mem_cons] at h
    rcases h with h | h
    · subst h; simp
    · obtain ⟨h1, h2⟩ := ih _ h
      refine ⟨by omega, ?_⟩
      have : p.1 - n = (p.1 - (n + 1)) + 1 := by omega
      rw [this]; simpa using h2

/-! ### uniqueness from `Nodup` -/

theorem allSeqs_eq_map_allIns (u : List (OutPoint × UtxoEntry)) : allSeqs u = (allIns u).map (·.2.1) := by
  induction u with
  | nil => rfl
  | cons p rest ih =>
    obtain ⟨k, e⟩ := p
    show e.ins.map (·.1) ++ allSeqs rest = _
    rw [ih]
    simp [allIns, List.map_append, List.map_map, Function.comp_def]

theorem inj_of_nodup_map {α β : Type} (f : α → β) (l : List α) (h : (l.map f).Nodup) {a b : α}
    (ha : a ∈ l) (hb : b ∈ l) (hab : f a = f b) : a = b := by
  induction l with
  | nil => cases ha
  | cons x rest ih =>
    simp only [List.map_cons, List.nodup_cons, List.mem_map, not_exists, not_and] at h
    rcases List.mem_cons.1 ha with ha' | ha' <;> rcases List.mem_cons.1 hb with hb' | hb'
    · rw [ha', hb']
    · rw [ha'] at hab; exact absurd hab.symm (h.1 b hb')
    · rw [hb'] at hab; exact absurd hab (h.1 a ha')
    · exact ih h.2 ha' hb'

theorem allIns_unique (u : List (OutPoint × UtxoEntry)) (h : (allSeqs u).Nodup) {o o' : OutPoint} {s off off' : Nat}
    (h1 : (o, s, off) ∈ allIns u) (h2 : (o', s, off') ∈ allIns u) : o = o' ∧ off = off' := by
  rw [allSeqs_eq_map_allIns] at h
  have := inj_of_nodup_map _ _ h h1 h2 rfl
  simp only [Prod.mk.injEq] at this
  exact ⟨this.1, this.2.2⟩

theorem mem_allSeqs (u : List (OutPoint × UtxoEntry)) (s : Nat) :
    s ∈ allSeqs u ↔ ∃ o off, (o, s, off) ∈ allIns u := by
  rw [allSeqs_eq_map_allIns]
  simp only [List.mem_map, Prod.exists]
  constructor
  · rintro ⟨o, s', off, hm, rfl⟩; exact ⟨o, off, hm⟩
  · rintro ⟨o, off, hm⟩; exact ⟨o, s, off, hm, rfl⟩

theorem isNull_false_of_not_special {o : OutPoint} (h : o.isSpecial = false) : o.isNull = false := by
  unfold OutPoint.isSpecial at h
  unfold OutPoint.isNull
  cases h1 : (o.txid == 0) <;> cases h2 : (o.vout == 4294967295) <;> simp_all

theorem inputSeqs_append (a b : List (TxIn × UtxoEntry)) : inputSeqs (a ++ b) = inputSeqs a ++ inputSeqs b := by
  induction a with
  | nil => rfl
  | cons p rest ih => obtain ⟨i, e⟩ := p; simp [inputSeqs, ih]

theorem inputSeqs_empty (l : List TxIn) : inputSeqs (l.map (fun i => (i, UtxoEntry.empty))) = [] := by
  induction l with
  | nil => rfl
  | cons i rest ih => simp only [List.map_cons, inputSeqs, ih]; split <;> simp [entSeqs, UtxoEntry.empty]

end Ord.Index.InsLift
