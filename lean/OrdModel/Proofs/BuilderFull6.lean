import OrdModel.Proofs.BuilderFull5
/-! Stages 5–7 succeed on a `Good` state under `Cond`. -/
namespace Ord.Builder
open Ord Ord.Outcome

theorem tail567_ok {env : Env} {w : Wallet} {r : Request} {s4 : St} {amount : Nat}
    (g : Good w r s4) (hnd : (w.amounts.map (·.1)).Nodup) (htot : walletTotal w < U64)
    (ha : w.amounts.lookup r.outgoing.1 = some amount) (hoff : r.outgoing.2 < amount)
    (h01 : r.change0 ≠ r.change1) (hr0 : r.recipient ≠ r.change0) (hr1 : r.recipient ≠ r.change1)
    (hcond : ∀ pre R c us, s4.outputs = pre ++ [(r.recipient, R)] → s4.unused = c :: us →
      Cond env r s4.inputs.length pre R c) :
    ∃ tx, tail567 env w r s4 = .ok tx := by
  obtain ⟨pre, R, ho, hpre, hshape⟩ := g.shape
  -- the next unused change script and the facts about `pre`
  obtain ⟨c, us, hun, hcpre, hc, hcnotpre⟩ :
      ∃ c us, s4.unused = c :: us ∧ ChangeOnly r pre ∧ (c = r.change0 ∨ c = r.change1) ∧ (∀ o ∈ pre, o.1 ≠ c) := by
    rcases hshape with ⟨rfl, hun⟩ | ⟨P, rfl, hun⟩
    · exact ⟨r.change1, [r.change0], hun, by intro o h; simp at h, Or.inr rfl, by intro o h; simp at h⟩
    · refine ⟨r.change0, [], hun, ?_, Or.inl rfl, ?_⟩
      · intro o h
        simp only [List.mem_singleton] at h; subst h
        exact ⟨fun h => hr1 h.symm, Or.inr rfl⟩
      · intro o h
        simp only [List.mem_singleton] at h; subst h
        exact fun h => h01 h.symm
  have hcr : c ≠ r.recipient := by
    rcases hc with rfl | rfl
    · exact fun h => hr0 h.symm
    · exact fun h => hr1 h.symm
  have cond := hcond pre R c us ho hun
  have hv : inVal w r.outgoing.1 = amount := inVal_of_lookup ha
  have hin := mem_of_filter_one g.core.out_once
  have hcons := g.core.conserve
  have hbud := g.core.budget
  rw [ho, outSum_append] at hcons hbud
  simp only [outSum, Nat.add_zero] at hcons hbud
  have hlt : outSum pre + R < U64 := by omega
  have hcalc : calcSatOffset w r.outgoing s4.inputs 0 = .ok (outSum pre) := by
    rw [calcSatOffset_eq w r.outgoing (by omega) s4.inputs 0 hin g.core.inputs_keys (by omega), hpre]
    simp
  have hstrip := stripValue_eval hcalc ho hun hlt cond.strip_no_overflow
  have hmt := maxTarget_le r.target
  unfold tail567
  simp only [bind_def, hstrip, Outcome.bind]
  by_cases hs : strips env r s4.inputs.length pre R c
  · -- a change output was split off
    have hfF : feeFinal env r s4.inputs.length pre R c =
        env.fee (vsize s4.inputs.length (pre ++ [(r.recipient, (maxTarget r.target).2), (c, R - (maxTarget r.target).2)])) := by
      simp [feeFinal, hs]
    have hfO : finalOuts env r s4.inputs.length pre R c =
        pre ++ [(r.recipient, (maxTarget r.target).2), (c, R - (maxTarget r.target).2 - feeFinal env r s4.inputs.length pre R c)] := by
      simp [finalOuts, hs]
    have hTR : (maxTarget r.target).2 ≤ R := by
      have := hs.2.1; omega
    have hflt := cond.fee_lt_value
    have hpay := cond.change_pays_fee hs
    have hpos := cond.target_pos hs
    have hdust := cond.no_dust
    rw [hfO] at hdust
    rw [hfF] at hflt hpay hdust
    simp only [hs, if_true]
    generalize hs5 : ({ s4 with outputs := pre ++ [(r.recipient, (maxTarget r.target).2), (c, R - (maxTarget r.target).2)], unused := us } : St) = s5
    have hin5 : s5.inputs = s4.inputs := by rw [← hs5]
    have ho5 : s5.outputs = (pre ++ [(r.recipient, (maxTarget r.target).2)]) ++ [(c, R - (maxTarget r.target).2)] := by
      rw [← hs5]; simp
    have ho5' : s5.outputs = pre ++ [(r.recipient, (maxTarget r.target).2), (c, R - (maxTarget r.target).2)] := by
      rw [← hs5]
    have hsum5 : outSum s5.outputs = outSum pre + R := by
      rw [ho5, outSum_append, outSum_append]; simp only [outSum]; omega
    rw [← ho5', ← hin5] at hflt hpay hdust
    rw [← hin5] at hcalc
    have hded := deductFee_eval (env := env) (st := s5) (P := outSum pre) hcalc ho5 (by omega)
      (by rw [hsum5]; omega) (by rw [hsum5]; omega) hpay
    simp only [hded]
    refine ⟨_, buildFinal_eval (pre := pre) (T := (maxTarget r.target).2)
      (post := [(c, R - (maxTarget r.target).2 - env.fee (vsize s5.inputs.length s5.outputs))])
      hnd ha hoff (by show ∀ u ∈ s5.inputs, _; rw [hin5]; exact g.core.inputs_keys)
      (by show (s5.inputs.filter _).length = 1; rw [hin5]; exact g.core.out_once) (by simp)
      (by show outSum pre = prefixBefore w r.outgoing.1 s5.inputs + _; rw [hin5]; exact hpre)
      (by show inSum w s5.inputs < U64; rw [hin5]; omega) hpos hcpre
      ?_ ?_ ?_ ?_ ?_⟩
    · intro o h; simp only [List.mem_singleton] at h; subst h; exact ⟨hcr, hc⟩
    · show countScript r.change0 (pre ++ [(r.recipient, (maxTarget r.target).2)] ++ [(c, _)]) ≤ 1 ∧
          countScript r.change1 (pre ++ [(r.recipient, (maxTarget r.target).2)] ++ [(c, _)]) ≤ 1
      rcases hshape with ⟨rfl, hun'⟩ | ⟨P, rfl, hun'⟩
      · rw [hun'] at hun; simp only [List.cons.injEq] at hun; obtain ⟨rfl, _⟩ := hun
        simp [countScript, List.filter_cons, hr0, hr1, h01, Ne.symm h01]
      · rw [hun'] at hun; simp only [List.cons.injEq] at hun; obtain ⟨rfl, _⟩ := hun
        simp [countScript, List.filter_cons, hr0, hr1, h01, Ne.symm h01]
    · apply checkRecipientValue_of_TargetOk _ cond.slop_no_overflow
      unfold TargetOk
      cases ht : r.target <;> simp [maxTarget, ht, MAX_POSTAGE, TARGET_POSTAGE] <;> omega
    · show outSum (pre ++ [(r.recipient, (maxTarget r.target).2)] ++ [(c, _)]) +
          env.fee (vsize s5.inputs.length (pre ++ [(r.recipient, (maxTarget r.target).2)] ++ [(c, _)])) = inSum w s5.inputs
      have hvs : vsize s5.inputs.length (pre ++ [(r.recipient, (maxTarget r.target).2)] ++
            [(c, R - (maxTarget r.target).2 - env.fee (vsize s5.inputs.length s5.outputs))])
          = vsize s5.inputs.length s5.outputs := by
        apply vsize_map_fst; rw [ho5]; simp
      have hi5 : inSum w s5.inputs = inSum w s4.inputs := by rw [hin5]
      rw [hvs, outSum_append, outSum_append, hi5]
      simp only [outSum]
      omega
    · intro o h
      apply hdust o
      simpa using h
  · -- nothing stripped
    have hfF : feeFinal env r s4.inputs.length pre R c = env.fee (vsize s4.inputs.length (pre ++ [(r.recipient, R)])) := by
      simp [feeFinal, hs]
    have hfO : finalOuts env r s4.inputs.length pre R c =
        pre ++ [(r.recipient, R - feeFinal env r s4.inputs.length pre R c)] := by
      simp [finalOuts, hs]
    have hflt := cond.fee_lt_value
    have hcap := cond.postage_cap hs
    have hreach := cond.value_reached hs
    have habove := cond.value_not_above hs
    have hdust := cond.no_dust
    rw [hfO] at hdust
    rw [hfF] at hflt hcap hreach habove hdust
    simp only [hs, if_false]
    have hsum4 : outSum s4.outputs = outSum pre + R := by
      rw [ho, outSum_append]; simp only [outSum]; omega
    have hded := deductFee_eval (env := env) (st := s4) (P := outSum pre) hcalc ho (by omega)
      (by rw [hsum4, ho]; omega) (by rw [hsum4, ho]; omega) (by rw [ho]; omega)
    simp only [hded]
    rw [ho] at hded ⊢
    refine ⟨_, buildFinal_eval (pre := pre) (T := R - env.fee (vsize s4.inputs.length (pre ++ [(r.recipient, R)])))
      (post := []) hnd ha hoff g.core.inputs_keys g.core.out_once (by simp) hpre
      (by show inSum w s4.inputs < U64; omega) (by omega) hcpre (by intro o h; simp at h) ?_ ?_ ?_ ?_⟩
    · show countScript r.change0 (pre ++ [(r.recipient, _)]) ≤ 1 ∧ countScript r.change1 (pre ++ [(r.recipient, _)]) ≤ 1
      rcases hshape with ⟨rfl, _⟩ | ⟨P, rfl, _⟩
      · simp [countScript, List.filter_cons, hr0, hr1]
      · simp [countScript, List.filter_cons, hr0, hr1, h01, Ne.symm h01]
    · refine checkRecipientValue_of_TargetOk ?_ cond.slop_no_overflow
      exact TargetOk_of_parts hcap hreach habove
    · show outSum (pre ++ [(r.recipient, _)]) + env.fee (vsize s4.inputs.length (pre ++ [(r.recipient, _)])) = inSum w s4.inputs
      have hvs : vsize s4.inputs.length (pre ++ [(r.recipient, R - env.fee (vsize s4.inputs.length (pre ++ [(r.recipient, R)])))])
          = vsize s4.inputs.length (pre ++ [(r.recipient, R)]) := by
        apply vsize_map_fst; simp
      rw [hvs, outSum_append]
      simp only [outSum]
      omega
    · intro o h
      exact hdust o h

end Ord.Builder

namespace Ord.Builder

theorem cond_iff_bits (env : Env) (r : Request) (n : Nat) (pre : List TxOut) (R : Nat) (c : Script) :
    Cond env r n pre R c ↔ condBits env r n pre R c = List.replicate 9 true := by
  constructor
  · intro h
    simp only [condBits, List.replicate, List.cons.injEq, decide_eq_true_eq, and_true]
    exact ⟨h.strip_no_overflow, h.slop_no_overflow, h.fee_lt_value, h.change_pays_fee, h.target_pos,
      h.postage_cap, h.value_reached, h.value_not_above, h.no_dust⟩
  · intro h
    simp only [condBits, List.replicate, List.cons.injEq, decide_eq_true_eq, and_true] at h
    obtain ⟨h1, h2, h3, h4, h5, h6, h7, h8, h9⟩ := h
    exact ⟨h1, h2, h3, h4, h5, h6, h7, h8, h9⟩

end Ord.Builder
