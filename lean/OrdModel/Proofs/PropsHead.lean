import OrdModel.Codec.Properties
/-! CBOR head and primitive encode/decode round-trips (C28 clause 1, level 0). -/
namespace Ord.Cbor
open Ord

theorem toNat_ofNat_lt {n : Nat} (h : n < 256) : (UInt8.ofNat n).toNat = n := by
  simp [UInt8.toNat_ofNat', Nat.mod_eq_of_lt h]

theorem toBE_length (k n : Nat) : (toBE k n).length = k := by
  induction k with
  | zero => rfl
  | succ k ih => simp [toBE, ih]

theorem foldl_toBE (k : Nat) : ∀ (n acc : Nat),
    (toBE k n).foldl (fun acc b => acc * 256 + b.toNat) acc = acc * 256 ^ k + n % 256 ^ k := by
  induction k with
  | zero => intro n acc; simp [toBE, Nat.mod_one]
  | succ k ih =>
    intro n acc
    have hd : n / 256 ^ k % 256 < 256 := Nat.mod_lt _ (by omega)
    simp only [toBE, List.foldl_cons, toNat_ofNat_lt hd, ih]
    rw [Nat.pow_succ, Nat.mod_mul]
    generalize 256 ^ k = q
    generalize n / q % 256 = d
    generalize n % q = m
    rw [Nat.add_mul, Nat.mul_assoc, Nat.mul_comm 256 q, Nat.mul_comm q d]
    omega

theorem beNat_toBE (k n : Nat) (h : n < 256 ^ k) : beNat (toBE k n) = n := by
  simp [beNat, foldl_toBE, Nat.mod_eq_of_lt h]

theorem argN_toBE (k n : Nat) (h : n < 256 ^ k) (rest : Bytes) :
    argN k (toBE k n ++ rest) = .ok (n, rest) := by
  have hl := toBE_length k n
  unfold argN
  rw [if_pos (by simp [hl])]
  have h1 : (toBE k n ++ rest).take k = toBE k n := by
    rw [List.take_append_of_le_length (by omega)]; simp [List.take_of_length_le, hl]
  have h2 : (toBE k n ++ rest).drop k = rest := by
    have := List.drop_left (l₁ := toBE k n) (l₂ := rest)
    rwa [hl] at this
  rw [h1, h2, beNat_toBE k n h]

/-- The head written by `type_len(major, x)`: first byte `major*32 + i`, and reading the argument
selected by `i` from what follows gives back `x` and leaves `rest`. -/
theorem typeLen_spec (m x : Nat) (hm : m < 8) (hx : x < 2 ^ 64) (rest : Bytes) :
    ∃ (b : UInt8) (t : Bytes) (i : Nat), typeLen m x ++ rest = b :: t ∧ b.toNat = m * 32 + i ∧ i < 28 ∧
      arg i t = .ok (x, rest) ∧ (24 ≤ i → t ≠ []) := by
  unfold typeLen
  split
  · rename_i h
    refine ⟨_, rest, x, rfl, toNat_ofNat_lt (by omega), by omega, ?_, by omega⟩
    simp [arg, h]
  split
  · rename_i h1 h
    refine ⟨_, toBE 1 x ++ rest, 24, rfl, toNat_ofNat_lt (by omega), by omega, ?_, by intro _; simp [toBE]⟩
    simp only [arg]; rw [if_pos True.intro]
    exact argN_toBE 1 x (by simpa using h) rest
  split
  · rename_i h1 h2 h
    refine ⟨_, toBE 2 x ++ rest, 25, rfl, toNat_ofNat_lt (by omega), by omega, ?_, by intro _; simp [toBE]⟩
    simp only [arg]; rw [if_pos True.intro]
    exact argN_toBE 2 x (by simpa using h) rest
  split
  · rename_i h1 h2 h3 h
    refine ⟨_, toBE 4 x ++ rest, 26, rfl, toNat_ofNat_lt (by omega), by omega, ?_, by intro _; simp [toBE]⟩
    simp only [arg]; rw [if_pos True.intro]
    exact argN_toBE 4 x (by simpa using h) rest
  · refine ⟨_, toBE 8 x ++ rest, 27, rfl, toNat_ofNat_lt (by omega), by omega, ?_, by intro _; simp [toBE]⟩
    simp only [arg]; rw [if_pos True.intro]
    exact argN_toBE 8 x (by simpa using hx) rest

theorem probe_cons (b : UInt8) (t : Bytes) (h : ¬ (0x38 ≤ b.toNat ∧ b.toNat ≤ 0x3b) ∨ t ≠ []) :
    probe (b :: t) = .ok b.toNat := by
  simp only [probe]
  rw [if_neg]
  intro ⟨h1, h2, h3⟩
  rcases h with h | h
  · exact h ⟨h1, h2⟩
  · cases t with
    | nil => exact h rfl
    | cons _ _ => simp at h3

theorem decLenHdr_enc (m x : Nat) (hm : m < 8) (hx : x < 2 ^ 64) (rest : Bytes) :
    decLenHdr m (typeLen m x ++ rest) = .ok (some x, rest) := by
  obtain ⟨b, t, i, he, hb, hi, ha, _⟩ := typeLen_spec m x hm hx rest
  rw [he]; simp only [decLenHdr]
  have h1 : b.toNat / 32 = m := by omega
  have h2 : b.toNat % 32 = i := by omega
  rw [if_neg (by omega), if_neg (by omega), h2, ha]; rfl

theorem decU32_enc (x : Nat) (hx : x < 2 ^ 32) (rest : Bytes) :
    decU32 (encU32 x ++ rest) = .ok (x, rest) := by
  obtain ⟨b, t, i, he, hb, hi, ha, _⟩ := typeLen_spec 0 x (by omega) (by omega) rest
  unfold encU32; rw [he]; simp only [decU32]
  have h1 : b.toNat = i := by omega
  rw [if_pos (by omega), h1, ha]
  simp [Outcome.bind, hx]

theorem decI64_enc (x : Int) (h1 : -(2 : Int) ^ 63 ≤ x) (h2 : x < (2 : Int) ^ 63) (rest : Bytes) :
    decI64 (encI64 x ++ rest) = .ok (x, rest) := by
  unfold encI64
  split
  · rename_i hpos
    have hn : x.toNat < 2 ^ 63 := by omega
    obtain ⟨b, t, i, he, hb, hi, ha, _⟩ := typeLen_spec 0 x.toNat (by omega) (by omega) rest
    rw [he]; simp only [decI64]
    have hbi : b.toNat = i := by omega
    rw [if_pos (by omega), hbi, ha]
    simp only [Outcome.bind, hn, if_true]
    congr 2; omega
  · rename_i hneg
    have hn : (-1 - x).toNat < 2 ^ 63 := by omega
    obtain ⟨b, t, i, he, hb, hi, ha, _⟩ := typeLen_spec 1 (-1 - x).toNat (by omega) (by omega) rest
    rw [he]; simp only [decI64]
    have hbi : b.toNat - 0x20 = i := by omega
    rw [if_neg (by omega), if_pos (by omega), hbi, ha]
    simp only [Outcome.bind, hn, if_true]
    congr 2; omega

theorem takeN_append (b rest : Bytes) : takeN b.length (b ++ rest) = .ok (b, rest) := by
  unfold takeN
  rw [if_pos (by simp)]
  simp

theorem decBytes_enc (v : Bytes) (hv : v.length < 2 ^ 64) (rest : Bytes) :
    decBytes (encBytes v ++ rest) = .ok (v, rest) := by
  obtain ⟨b, t, i, he, hb, hi, ha, _⟩ := typeLen_spec 2 v.length (by omega) hv (v ++ rest)
  unfold encBytes; rw [List.append_assoc, he]; simp only [decBytes]
  have h1 : b.toNat / 32 = 2 := by omega
  have h2 : b.toNat % 32 = i := by omega
  rw [if_neg (by omega), h2, ha]
  simp only [Outcome.bind, takeN_append]

theorem decStr_enc (v : Bytes) (hv : v.length < 2 ^ 64) (hu : validUtf8 v = true) (rest : Bytes) :
    decStr (encStr v ++ rest) = .ok (v, rest) := by
  obtain ⟨b, t, i, he, hb, hi, ha, _⟩ := typeLen_spec 3 v.length (by omega) hv (v ++ rest)
  unfold encStr; rw [List.append_assoc, he]; simp only [decStr]
  have h1 : b.toNat / 32 = 3 := by omega
  have h2 : b.toNat % 32 = i := by omega
  rw [if_neg (by omega), h2, ha]
  simp only [Outcome.bind, takeN_append, hu, if_true]

/-- first byte of a head -/
theorem typeLen_head (m x : Nat) (hm : m < 8) (hx : x < 2 ^ 64) (rest : Bytes) :
    ∃ (b : UInt8) (t : Bytes), typeLen m x ++ rest = b :: t ∧ m * 32 ≤ b.toNat ∧ b.toNat < m * 32 + 28 ∧
      (m * 32 + 24 ≤ b.toNat → t ≠ []) := by
  obtain ⟨b, t, i, he, hb, hi, _, hne⟩ := typeLen_spec m x hm hx rest
  exact ⟨b, t, he, by omega, by omega, fun h => hne (by omega)⟩

end Ord.Cbor
