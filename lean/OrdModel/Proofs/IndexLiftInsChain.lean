import OrdModel.Proofs.IndexLiftInsBlock
import OrdModel.Index.Run
/-
Lift of the inscription-side invariants, part 6: counting envelopes per transaction / block, and
the induction over the chain (`run`, `Reachable`).
-/
namespace Ord.Index.InsLift
open Ord Ord.Index Outcome Sched Insloc

/-! ### input lookup without invariants -/

theorem takeOne_entries (cfg : Cfg) (bc : BlockCtx) (i : TxIn) (bc' : BlockCtx) (e : UtxoEntry)
    (h : takeOne cfg bc i = .ok (bc', e)) : core bc'.st = core bc.st := by
  unfold takeOne at h
  split at h
  · simp only [Outcome.ok.injEq, Prod.mk.injEq] at h; rw [← h.1]
  · split at h
    · simp only at h
      split at h
      · split at h
        · simp only [Outcome.ok.injEq, Prod.mk.injEq] at h; rw [← h.1]; rfl
        · cases h
      · simp only [Outcome.ok.injEq, Prod.mk.injEq] at h; rw [← h.1]; rfl
    · cases h

theorem takeInputEntries_basic (cfg : Cfg) (inputs : List TxIn) (bc : BlockCtx) (acc : List (TxIn × UtxoEntry))
    (bc' : BlockCtx) (r : List (TxIn × UtxoEntry))
    (h : takeInputEntries cfg inputs bc acc = .ok (bc', r)) :
    bc'.ins = bc.ins ∧ core bc'.st = core bc.st ∧ r.map (·.1) = acc.map (·.1) ++ inputs := by
  induction inputs generalizing bc acc with
  | nil =>
    simp only [takeInputEntries, Outcome.ok.injEq, Prod.mk.injEq] at h
    obtain ⟨rfl, rfl⟩ := h
    exact ⟨rfl, rfl, by simp⟩
  | cons i rest ih =>
    rw [takeInputEntries_cons] at h
    split at h
    · rename_i bc1 e h1
      obtain ⟨i1, i2, i3⟩ := ih _ _ h
      exact ⟨i1.trans (takeOne_ins _ _ _ _ _ h1), i2.trans (takeOne_entries _ _ _ _ _ h1), by rw [i3]; simp⟩
    · cases h
    · cases h

/-! ### counting envelopes -/

/-- **One transaction, counting.**  A non-first transaction with well-formed envelopes and no
special input turns every envelope into an inscription (numbered now or pending until the
coinbase); a first transaction whose inputs are all null creates none. -/
theorem indexTx_count (cfg : Cfg) (blk : Block) (insOn : Bool) (txOffset : Nat) (tx : Tx) (bc bc' : BlockCtx)
    (hsp : txOffset ≠ 0 → ∀ i ∈ tx.inputs, i.prev.isSpecial = false)
    (hwf : txOffset ≠ 0 → envelopesWF tx = true)
    (hcb : txOffset = 0 → ∀ i ∈ tx.inputs, i.prev.isNull = true)
    (h : indexTx cfg blk insOn txOffset tx bc = .ok bc') :
    bc'.st.entries.length + newCount bc'.ins.flotsam =
      bc.st.entries.length + newCount bc.ins.flotsam + (if insOn = true ∧ txOffset ≠ 0 then tx.envelopes.length else 0) ∧
    (insOn = true → txIsCoinbase tx = true → bc'.ins.flotsam = []) ∧
    (insOn = false → bc'.ins.flotsam = bc.ins.flotsam) := by
  obtain ⟨bc1, inputs, bc3, outs3, hin, hmid, rfl⟩ := indexTx_decomp _ _ _ _ _ _ _ h
  have hin' : bc1.ins = bc.ins ∧ bc1.st.entries = bc.st.entries ∧ inputs.map (·.1) = tx.inputs := by
    by_cases hz : txOffset = 0
    · simp only [hz, if_true] at hin
      obtain ⟨rfl, rfl⟩ := hin
      exact ⟨rfl, rfl, by simp [List.map_map, Function.comp_def]⟩
    · simp only [hz, if_false] at hin
      obtain ⟨i1, i2, i3⟩ := takeInputEntries_basic _ _ _ _ _ _ hin
      exact ⟨i1, core_entries i2, by simpa using i3⟩
  obtain ⟨hins1, hent1, hmap⟩ := hin'
  obtain ⟨m, outs2, ir, _, _, _, hcase⟩ := indexTxMid_cases _ _ _ _ _ _ _ _ _ hmid
  cases hi : insOn with
  | false =>
    simp only [hi, Bool.false_eq_true, if_false] at hcase
    obtain ⟨hst, hins3, _⟩ := hcase
    have hent3 : bc3.st.entries = bc.st.entries := by rw [hst]; exact hent1
    refine ⟨?_, (fun hc => by cases hc), fun _ => by show bc3.ins.flotsam = _; rw [hins3, hins1]⟩
    show bc3.st.entries.length + newCount bc3.ins.flotsam = _
    rw [hent3, hins3, hins1]; simp
  | true =>
    simp only [hi, if_true] at hcase
    obtain ⟨ls', hls, hst, hins3, _⟩ := hcase
    refine ⟨?_, fun _ hc => ?_, fun hc => by cases hc⟩
    · show bc3.st.entries.length + newCount bc3.ins.flotsam = _
      rw [hst, hins3]
      by_cases hz : txOffset = 0
      · have hall : ∀ p ∈ inputs, p.1.prev.isNull = true := by
          intro p hp
          have : p.1 ∈ tx.inputs := by rw [← hmap]; exact List.mem_map_of_mem hp
          exact hcb hz _ this
        have := indexInscriptions_counts_none _ _ _ _ _ _ _ _ hall hls
        simp only at this
        rw [this, hent1, hins1]; simp [hz]
      · have hnn : ∀ p ∈ inputs, p.1.prev.isNull = false := by
          intro p hp
          have : p.1 ∈ tx.inputs := by rw [← hmap]; exact List.mem_map_of_mem hp
          exact isNull_false_of_not_special (hsp hz _ this)
        have hlen : inputs.length = tx.inputs.length := by rw [← hmap]; simp
        have hw : envelopeInputsWF inputs.length (tx.envelopes.map (·.input)) = true := by
          rw [hlen]; exact hwf hz
        have := indexInscriptions_counts_all _ _ _ _ _ _ _ _ hnn hw hls
        simp only at this
        rw [this, hent1, hins1]; simp [hz]
    · show bc3.ins.flotsam = []
      rw [hins3]
      obtain ⟨_, _, _, _, _, hcbf, _⟩ := indexInscriptions_conserve _ _ _ _ _ _ _ _ hls
      exact hcbf hc

/-- envelopes of the non-first transactions of a walk -/
def walkEnvelopes (l : List (Nat × Tx)) : Nat :=
  (l.map (fun p => if p.1 ≠ 0 then p.2.envelopes.length else 0)).sum

theorem indexTxs_count (cfg : Cfg) (blk : Block) (insOn : Bool) (l : List (Nat × Tx)) (bc bc' : BlockCtx)
    (hsp : ∀ p ∈ l, p.1 ≠ 0 → ∀ i ∈ p.2.inputs, i.prev.isSpecial = false)
    (hwf : ∀ p ∈ l, p.1 ≠ 0 → envelopesWF p.2 = true)
    (hcb : ∀ p ∈ l, p.1 = 0 → ∀ i ∈ p.2.inputs, i.prev.isNull = true)
    (h : indexTxs cfg blk insOn l bc = .ok bc') :
    bc'.st.entries.length + newCount bc'.ins.flotsam =
      bc.st.entries.length + newCount bc.ins.flotsam + (if insOn = true then walkEnvelopes l else 0) ∧
    (insOn = true → ∀ l0 cb, l = l0 ++ [cb] → txIsCoinbase cb.2 = true → bc'.ins.flotsam = []) ∧
    (insOn = false → bc'.ins.flotsam = bc.ins.flotsam) := by
  induction l generalizing bc with
  | nil =>
    simp only [indexTxs, Outcome.ok.injEq] at h
    subst h
    refine ⟨by simp [walkEnvelopes], ?_, fun _ => rfl⟩
    intro _ l0 cb hl; simp at hl
  | cons p rest ih =>
    obtain ⟨i, tx⟩ := p
    simp only [indexTxs] at h
    split at h
    · cases h
    · cases h
    · rename_i bc1 h1
      obtain ⟨c1, f1, o1⟩ := indexTx_count cfg blk insOn i tx bc bc1 (hsp (i, tx) List.mem_cons_self)
        (hwf (i, tx) List.mem_cons_self) (hcb (i, tx) List.mem_cons_self) h1
      obtain ⟨c2, f2, o2⟩ := ih bc1 (fun p hp => hsp p (List.mem_cons_of_mem _ hp))
        (fun p hp => hwf p (List.mem_cons_of_mem _ hp)) (fun p hp => hcb p (List.mem_cons_of_mem _ hp)) h
      refine ⟨?_, ?_, fun hi => (o2 hi).trans (o1 hi)⟩
      · rw [c2, c1]
        cases insOn with
        | false => simp
        | true =>
          simp only [walkEnvelopes, List.map_cons, List.sum_cons, true_and, if_true]
          by_cases hz : i = 0 <;> simp [hz] <;> omega
      · intro hi l0 cb hl hcbx
        cases l0 with
        | nil =>
          simp only [List.nil_append, List.cons.injEq] at hl
          obtain ⟨rfl, rfl⟩ := hl
          simp only [indexTxs, Outcome.ok.injEq] at h
          subst h
          exact f1 hi hcbx
        | cons q l0' =>
          simp only [List.cons_append, List.cons.injEq] at hl
          exact f2 hi l0' cb hl.2 hcbx

theorem walkEnvelopes_enumFrom (ts : List Tx) (n : Nat) (hn : n ≠ 0) :
    walkEnvelopes (enumFrom n ts) = (ts.map (fun tx => tx.envelopes.length)).sum := by
  induction ts generalizing n with
  | nil => rfl
  | cons t rest ih =>
    simp only [walkEnvelopes, enumFrom, List.map_cons, List.sum_cons, hn, ne_eq, not_false_eq_true, if_true]
    have := ih (n + 1) (by omega)
    simp only [walkEnvelopes] at this
    rw [this]

theorem walkEnvelopes_blockOrder (blk : Block) (cb : Tx) (rest : List Tx) (h : blk.txs = cb :: rest) :
    walkEnvelopes (blockOrder blk) = blockEnvelopes blk := by
  rw [blockOrder_cons blk cb rest h]
  have h1 : walkEnvelopes (enumFrom 1 rest ++ [(0, cb)]) = walkEnvelopes (enumFrom 1 rest) := by
    simp [walkEnvelopes]
  rw [h1, walkEnvelopes_enumFrom _ _ (by omega)]
  simp [blockEnvelopes, h]

/-- what the counting statement needs of a block -/
structure BlockCount (blk : Block) : Prop where
  noSpecialSpend : ∀ tx ∈ blk.txs.drop 1, ∀ i ∈ tx.inputs, i.prev.isSpecial = false
  envelopesWF : ∀ tx ∈ blk.txs.drop 1, envelopesWF tx = true
  coinbase : ∃ cb rest, blk.txs = cb :: rest ∧ txIsCoinbase cb = true ∧ ∀ i ∈ cb.inputs, i.prev.isNull = true

/-- the number of inscriptions a block adds -/
def blockCount (cfg : Cfg) (blk : Block) : Nat := if insOnOf cfg blk = true then blockEnvelopes blk else 0

theorem applyBlock_count (cfg : Cfg) (st : State) (blk : Block) (st' : State) (ev : List Event)
    (hb : BlockCount blk) (h : applyBlock cfg st blk = .ok (st', ev)) :
    st'.entries.length = st.entries.length + blockCount cfg blk := by
  unfold applyBlock at h
  cases hflags : (cfg.indexInscriptions || cfg.indexAddresses || cfg.indexSats) with
  | false =>
    simp only [hflags, Bool.false_eq_true, if_false] at h
    have hc := applyBlock_after cfg blk st [] st' ev h
    have hi : cfg.indexInscriptions = false := by
      cases hx : cfg.indexInscriptions <;> simp_all
    rw [insCore_entries hc]
    simp [blockCount, insOnOf, hi]
  | true =>
    simp only [hflags, if_true] at h
    cases hu : indexUtxoEntries cfg st blk with
    | panic e => rw [hu] at h; cases h
    | err e => rw [hu] at h; cases h
    | ok r =>
      obtain ⟨a1, ev1⟩ := r
      rw [hu] at h
      simp only at h
      have hc := applyBlock_after cfg blk a1 ev1 st' ev h
      rw [insCore_entries hc]
      rw [indexUtxoEntries_eq] at hu
      cases ht : indexTxs cfg blk (insOnOf cfg blk) (blockOrder blk) (bc0A cfg st blk) with
      | panic e => rw [ht] at hu; cases hu
      | err e => rw [ht] at hu; cases hu
      | ok bc =>
        rw [ht] at hu
        simp only [Outcome.ok.injEq, Prod.mk.injEq] at hu
        obtain ⟨ha1, _⟩ := hu
        obtain ⟨cb, rest, htxs, hcb, hnull⟩ := hb.coinbase
        have hmem : ∀ p ∈ blockOrder blk, (p.1 ≠ 0 → p.2 ∈ blk.txs.drop 1) ∧ (p.1 = 0 → p.2 = cb) := by
          intro p hp
          rw [blockOrder_cons blk cb rest htxs, List.mem_append] at hp
          rcases hp with hp | hp
          · have := mem_enumFrom _ _ _ hp
            exact ⟨fun _ => by rw [htxs]; simpa using this.2, fun h0 => by omega⟩
          · simp only [List.mem_singleton] at hp
            subst hp
            exact ⟨fun h0 => absurd rfl h0, fun _ => rfl⟩
        obtain ⟨c, f, o⟩ := indexTxs_count cfg blk (insOnOf cfg blk) (blockOrder blk) _ bc
          (fun p hp hz => hb.noSpecialSpend _ ((hmem p hp).1 hz))
          (fun p hp hz => hb.envelopesWF _ ((hmem p hp).1 hz))
          (fun p hp hz => by rw [(hmem p hp).2 hz]; exact hnull) ht
        have hfl : bc.ins.flotsam = [] := by
          cases hi : insOnOf cfg blk with
          | true => exact f hi _ (0, cb) (blockOrder_cons blk cb rest htxs) hcb
          | false => exact o hi
        have hea1 : a1.entries = bc.st.entries := by
          rw [← ha1, flushCache_entries, endState_entries]
        rw [hea1]
        rw [hfl] at c
        simp only [newCount_nil, Nat.add_zero] at c
        rw [c, walkEnvelopes_blockOrder blk cb rest htxs]
        simp [blockCount, bc0A]

/-! ### the chain -/

/-- chain hypotheses of the inscription-side invariants, relative to the txids seen before -/
structure InsChainOK (seen : List Txid) (chain : List Block) : Prop where
  ok : ChainOK seen chain
  coinbaseFirst : ∀ b ∈ chain, ∃ cb rest, b.txs = cb :: rest ∧ txIsCoinbase cb = true
  heights : chain.Pairwise (fun a b => a.height ≤ b.height)

theorem InsChainOK.snoc {pre : List Block} {b : Block} (h : InsChainOK [] (pre ++ [b])) :
    InsChainOK [] pre ∧ BlockOK (seenChain [] pre) b ∧
    (∃ cb rest, b.txs = cb :: rest ∧ txIsCoinbase cb = true) ∧ ∀ x ∈ pre, x.height ≤ b.height := by
  have h1 := (ChainOK_append [] pre [b]).1 h.ok
  have h2 := List.pairwise_append.1 h.heights
  refine ⟨⟨h1.1, fun x hx => h.coinbaseFirst x (List.mem_append_left _ hx), h2.1⟩, h1.2.1,
    h.coinbaseFirst b (by simp), fun x hx => h2.2.2 x hx b (by simp)⟩

theorem SInv.init (cfg : Cfg) : SInv cfg [] {} := by
  refine ⟨(SRel.init cfg).tinvA, fun op h => absurd rfl h, ⟨?_, ?_, ?_, ?_⟩, List.nodup_nil⟩
  · exact List.Perm.refl _
  · intro o s off h; cases h
  · intro s sp h; cases h
  · intro o e s off h; cases h

/-- the chain invariant: the block-boundary invariant, and inscriptions exist only after a block
at or above the first inscription height was indexed with the inscription index on -/
def ChainInv (cfg : Cfg) (pre : List Block) (st : State) : Prop :=
  SInv cfg (seenChain [] pre) st ∧
  (0 < st.entries.length → cfg.indexInscriptions = true ∧ ∃ b ∈ pre, cfg.firstInscriptionHeight ≤ b.height)

theorem run_chainInv (cfg : Cfg) (chain : List Block) (st : State) (evs : List Event)
    (hc : InsChainOK [] chain) (h : run cfg chain = .ok (st, evs)) : ChainInv cfg chain st := by
  have := run_induct cfg (fun pre st _ => InsChainOK [] pre → ChainInv cfg pre st) ?_ ?_ chain st evs h
  · exact this hc
  · intro _
    exact ⟨SInv.init cfg, fun h => by simp at h⟩
  · intro pre st evs b st' ev' hP hb hq
    obtain ⟨q1, q2, q3, q4⟩ := hq.snoc
    obtain ⟨hS, hE⟩ := hP q1
    have hoff : insOnOf cfg b = false → st.entries.length = 0 := by
      intro hi
      apply Classical.byContradiction
      intro hne
      obtain ⟨hidx, x, hx, hxh⟩ := hE (Nat.pos_of_ne_zero hne)
      have := q4 x hx
      have : insOnOf cfg b = true := by
        simp only [insOnOf, hidx, Bool.and_true, decide_eq_true_eq]
        omega
      rw [this] at hi; cases hi
    obtain ⟨s1, s2, s3⟩ := applyBlock_sinv cfg _ st b st' ev' hS ⟨q2, q3, hoff⟩ hb
    refine ⟨?_, ?_⟩
    · have : seenChain [] (pre ++ [b]) = b.txs.map (·.txid) ++ seenChain [] pre := by
        rw [seenChain_append]; rfl
      rw [this]; exact s1
    · intro hpos
      cases hi : insOnOf cfg b with
      | true =>
        simp only [insOnOf, Bool.and_eq_true, decide_eq_true_eq] at hi
        exact ⟨hi.2, b, by simp, hi.1⟩
      | false =>
        rw [s3 hi] at hpos
        obtain ⟨h1, x, hx, hxh⟩ := hE hpos
        exact ⟨h1, x, List.mem_append_left _ hx, hxh⟩

/-- Σ over the chain of the envelopes of non-first transactions in blocks indexed with the
inscription pass on -/
def chainCount (cfg : Cfg) (chain : List Block) : Nat := (chain.map (blockCount cfg)).sum

theorem run_count (cfg : Cfg) (chain : List Block) (st : State) (evs : List Event)
    (hc : ∀ b ∈ chain, BlockCount b) (h : run cfg chain = .ok (st, evs)) :
    st.entries.length = chainCount cfg chain := by
  have := run_induct cfg (fun pre st _ => (∀ b ∈ pre, BlockCount b) → st.entries.length = chainCount cfg pre)
    ?_ ?_ chain st evs h
  · exact this hc
  · intro _; rfl
  · intro pre st evs b st' ev' hP hb hq
    have h1 := hP (fun x hx => hq x (List.mem_append_left _ hx))
    have h2 := applyBlock_count cfg st b st' ev' (hq b (by simp)) hb
    rw [h2, h1]
    simp [chainCount]

/-! ### the chain hypotheses in readable form -/

/-- The chain hypotheses under which the inscription-side invariants are lifted to every
reachable state: C12's `ChainCond` (pairwise distinct, non-zero txids; only the first transaction
of a block may have the null / unbound outpoint as an input), every block starts with a coinbase
(first input null), and block heights never decrease. -/
structure InsChain (chain : List Block) : Prop where
  cond : ChainCond chain
  coinbaseFirst : ∀ b ∈ chain, ∃ cb rest, b.txs = cb :: rest ∧ txIsCoinbase cb = true
  heights : chain.Pairwise (fun a b => a.height ≤ b.height)

theorem InsChain.ok {chain : List Block} (h : InsChain chain) : InsChainOK [] chain :=
  ⟨h.cond.chainOK, h.coinbaseFirst, h.heights⟩

theorem InsChainOK.prefix {pre suf : List Block} (h : InsChainOK [] (pre ++ suf)) : InsChainOK [] pre :=
  ⟨((ChainOK_append [] pre suf).1 h.ok).1, fun x hx => h.coinbaseFirst x (List.mem_append_left _ hx),
    (List.pairwise_append.1 h.heights).1⟩

/-- Additional hypotheses of the counting statement: the parsed envelopes of every non-first
transaction come in input order and name existing inputs (true of
`ParsedEnvelope::from_transaction`), and every input of a block's first transaction is null. -/
structure EnvChain (chain : List Block) : Prop where
  envelopesWF : ∀ b ∈ chain, ∀ tx ∈ b.txs.drop 1, envelopesWF tx = true
  coinbaseNull : ∀ b ∈ chain, ∀ cb, b.txs.head? = some cb → ∀ i ∈ cb.inputs, i.prev.isNull = true

theorem blockCount_of {chain : List Block} (hc : InsChain chain) (he : EnvChain chain) :
    ∀ b ∈ chain, BlockCount b := by
  intro b hb
  obtain ⟨cb, rest, htxs, hcb⟩ := hc.coinbaseFirst b hb
  exact ⟨hc.cond.noSpecialSpend b hb, he.envelopesWF b hb,
    cb, rest, htxs, hcb, he.coinbaseNull b hb cb (by rw [htxs]; rfl)⟩

/-- `runBlocks` (C12's abstract run) is `runFrom` without the events -/
theorem runBlocks_eq_runFrom (cfg : Cfg) (bs : List Block) (st : State) :
    runBlocks cfg bs st = omap (·.1) (runFrom cfg st bs) := by
  induction bs generalizing st with
  | nil => rfl
  | cons b rest ih =>
    simp only [runBlocks, runFrom]
    cases applyBlock cfg st b with
    | panic e => rfl
    | err e => rfl
    | ok r =>
      obtain ⟨st1, ev1⟩ := r
      simp only
      rw [ih]
      cases runFrom cfg st1 rest with
      | panic e => rfl
      | err e => rfl
      | ok r2 => rfl

theorem run_of_runBlocks (cfg : Cfg) (bs : List Block) (a : State) (h : runBlocks cfg bs {} = .ok a) :
    ∃ evs, run cfg bs = .ok (a, evs) := by
  rw [runBlocks_eq_runFrom] at h
  unfold run
  cases hr : runFrom cfg {} bs with
  | panic e => rw [hr] at h; cases h
  | err e => rw [hr] at h; cases h
  | ok r =>
    rw [hr] at h
    simp only [omap_ok, Outcome.ok.injEq] at h
    exact ⟨r.2, by rw [← h]⟩

end Ord.Index.InsLift
