import OrdModel.Wallet.Offer
/-!
Helper lemmas for C24 (`OrdModel/Theorems/C24.lean`): specifications of the list walks of
`OrdModel/Wallet/Offer.lean` and the unfolding of `pre` / `post`.
-/
namespace Ord.Offer

/-! ### `outgoing` -/

theorem mem_outgoing (utxos : List OutPoint) (ins : List PIn) (base k : Nat) (op : OutPoint) :
    (k, op) ∈ outgoing utxos ins base ↔
      ∃ j i, ins[j]? = some i ∧ k = base + j ∧ i.outpoint = op ∧ op ∈ utxos := by
  induction ins generalizing base with
  | nil => simp [outgoing]
  | cons a rest ih =>
    unfold outgoing
    by_cases hc : utxos.contains a.outpoint = true
    · rw [if_pos hc]
      simp only [List.mem_cons, Prod.mk.injEq]
      constructor
      · rintro (⟨rfl, rfl⟩ | h)
        · exact ⟨0, a, by simp, by simp, rfl, by simpa using hc⟩
        · obtain ⟨j, i, hj, hk, hi, hm⟩ := (ih (base + 1)).1 h
          exact ⟨j + 1, i, by simpa using hj, by omega, hi, hm⟩
      · rintro ⟨j, i, hj, hk, hi, hm⟩
        cases j with
        | zero =>
          simp at hj
          subst hj
          left
          exact ⟨by omega, hi.symm⟩
        | succ j =>
          right
          exact (ih (base + 1)).2 ⟨j, i, by simpa using hj, by omega, hi, hm⟩
    · rw [if_neg hc]
      constructor
      · intro h
        obtain ⟨j, i, hj, hk, hi, hm⟩ := (ih (base + 1)).1 h
        exact ⟨j + 1, i, by simpa using hj, by omega, hi, hm⟩
      · rintro ⟨j, i, hj, hk, hi, hm⟩
        cases j with
        | zero =>
          simp at hj
          subst hj
          subst hi
          exact absurd (by simpa using hm) hc
        | succ j =>
          exact (ih (base + 1)).2 ⟨j, i, by simpa using hj, by omega, hi, hm⟩

/-- `outgoing` lists indices in strictly increasing order (so an index appears once) -/
theorem outgoing_lt (utxos : List OutPoint) (ins : List PIn) (base : Nat) :
    ∀ p ∈ outgoing utxos ins base, base ≤ p.1 := by
  intro p hp
  obtain ⟨k, op⟩ := p
  obtain ⟨j, _, _, hk, _, _⟩ := (mem_outgoing utxos ins base k op).1 hp
  simp only
  omega

theorem outgoing_singleton {utxos : List OutPoint} {ins : List PIn} {idx : Nat} {op : OutPoint}
    (h : outgoing utxos ins 0 = [(idx, op)]) :
    (∃ i, ins[idx]? = some i ∧ i.outpoint = op ∧ op ∈ utxos) ∧
    (∀ k i, ins[k]? = some i → i.outpoint ∈ utxos → k = idx) := by
  constructor
  · have : (idx, op) ∈ outgoing utxos ins 0 := by rw [h]; simp
    obtain ⟨j, i, hj, hk, hi, hm⟩ := (mem_outgoing utxos ins 0 idx op).1 this
    have : idx = j := by omega
    subst this
    exact ⟨i, hj, hi, hm⟩
  · intro k i hk hm
    have : (k, i.outpoint) ∈ outgoing utxos ins 0 :=
      (mem_outgoing utxos ins 0 k i.outpoint).2 ⟨k, i, hk, by omega, rfl, hm⟩
    rw [h] at this
    simp at this
    exact this.1

/-! ### signature walks -/

theorem psbtSigs_spec : ∀ (ins : List PIn) (ss : List (Option Sig)), psbtSigs ins = .ok ss →
    ss.length = ins.length ∧ ∀ (k : Nat) (i : PIn), ins[k]? = some i → ∃ s, ss[k]? = some s ∧ psbtSig i = .ok s
  | [], ss, h => by
    simp [psbtSigs] at h
    subst h
    simp
  | a :: rest, ss, h => by
    unfold psbtSigs at h
    split at h
    · simp at h
    · rename_i s hs
      split at h
      · simp at h
      · rename_i ss' hss
        simp at h
        subst h
        obtain ⟨hl, hall⟩ := psbtSigs_spec rest ss' hss
        refine ⟨by simp [hl], ?_⟩
        intro k i hk
        cases k with
        | zero =>
          simp at hk
          subst hk
          exact ⟨s, by simp, hs⟩
        | succ k =>
          obtain ⟨s', h1, h2⟩ := hall k i (by simpa using hk)
          exact ⟨s', by simpa using h1, h2⟩

theorem txSigs_spec : ∀ (tins : List TIn) (ss : List (Option Sig)), txSigs tins = .ok ss →
    ss.length = tins.length ∧ ∀ (k : Nat) (t : TIn), tins[k]? = some t → ∃ s, ss[k]? = some s ∧ txSig t = .ok s
  | [], ss, h => by
    simp [txSigs] at h
    subst h
    simp
  | a :: rest, ss, h => by
    unfold txSigs at h
    split at h
    · simp at h
    · rename_i s hs
      split at h
      · simp at h
      · rename_i ss' hss
        simp at h
        subst h
        obtain ⟨hl, hall⟩ := txSigs_spec rest ss' hss
        refine ⟨by simp [hl], ?_⟩
        intro k i hk
        cases k with
        | zero =>
          simp at hk
          subst hk
          exact ⟨s, by simp, hs⟩
        | succ k =>
          obtain ⟨s', h1, h2⟩ := hall k i (by simpa using hk)
          exact ⟨s', by simpa using h1, h2⟩

theorem checkSigs_spec (seller : Nat) : ∀ (ss : List (Option Sig)) (base : Nat),
    checkSigs seller ss base = .ok () →
    ∀ (k : Nat) (s : Option Sig), ss[k]? = some s → (base + k = seller → s = none) ∧ (base + k ≠ seller → s.isSome = true)
  | [], _, _ => by simp
  | a :: rest, base, h => by
    unfold checkSigs at h
    intro k s hk
    by_cases hb : (base == seller) = true
    · rw [if_pos hb] at h
      split at h
      · rename_i hnone
        have ih := checkSigs_spec seller rest (base + 1) h
        cases k with
        | zero =>
          simp at hk
          subst hk
          have : base = seller := by simpa using hb
          refine ⟨fun _ => by simpa using hnone, fun hne => absurd this (by omega)⟩
        | succ k =>
          have := ih k s (by simpa using hk)
          refine ⟨fun he => this.1 (by omega), fun hne => this.2 (by omega)⟩
      · simp at h
    · rw [if_neg hb] at h
      split at h
      · rename_i hsome
        have ih := checkSigs_spec seller rest (base + 1) h
        cases k with
        | zero =>
          simp at hk
          subst hk
          have : base ≠ seller := by simpa using hb
          refine ⟨fun he => absurd (by omega) this, fun _ => hsome⟩
        | succ k =>
          have := ih k s (by simpa using hk)
          refine ⟨fun he => this.1 (by omega), fun hne => this.2 (by omega)⟩
      · simp at h

theorem checkAfter_spec (seller : Nat) : ∀ (os ns : List (Option Sig)) (base : Nat),
    checkAfter seller os ns base = .ok () →
    ∀ (k : Nat) (o n : Option Sig), os[k]? = some o → ns[k]? = some n →
      (base + k = seller → n.isSome = true) ∧ (base + k ≠ seller → o = n)
  | [], _, _, _ => by simp
  | _ :: _, [], _, _ => by simp
  | a :: os, b :: ns, base, h => by
    unfold checkAfter at h
    intro k o n hko hkn
    by_cases hb : (base == seller) = true
    · rw [if_pos hb] at h
      split at h
      · rename_i hsome
        have ih := checkAfter_spec seller os ns (base + 1) h
        cases k with
        | zero =>
          simp at hko hkn
          subst hko hkn
          have : base = seller := by simpa using hb
          exact ⟨fun _ => hsome, fun hne => absurd this (by omega)⟩
        | succ k =>
          have := ih k o n (by simpa using hko) (by simpa using hkn)
          exact ⟨fun he => this.1 (by omega), fun hne => this.2 (by omega)⟩
      · simp at h
    · rw [if_neg hb] at h
      split at h
      · rename_i heq
        have ih := checkAfter_spec seller os ns (base + 1) h
        cases k with
        | zero =>
          simp at hko hkn
          subst hko hkn
          have : base ≠ seller := by simpa using hb
          exact ⟨fun he => absurd (by omega) this, fun _ => by simpa using heq⟩
        | succ k =>
          have := ih k o n (by simpa using hko) (by simpa using hkn)
          exact ⟨fun he => this.1 (by omega), fun hne => this.2 (by omega)⟩
      · simp at h

/-! ### the advertised trade as a proposition -/

/-- C24's first conclusion: exactly one input (index `seller`) is a wallet UTXO, the wallet's
view of it shows exactly the named inscription and no runes (`none` = the server has no rune
index, nothing to see), the simulated balance change is the named amount, every other input
carries a final signature (of exactly one kind) and the seller's carries none. -/
structure Advertised (v : View) (named : InsId) (amount : Nat) (sim : Option Int)
    (ins : List PIn) (seller : Nat) : Prop where
  sellerIsWallet : ∃ i, ins[seller]? = some i ∧ i.outpoint ∈ v.utxos
  onlyOne : ∀ k i, ins[k]? = some i → i.outpoint ∈ v.utxos → k = seller
  holds : ∃ i info, ins[seller]? = some i ∧ lookupInfo v.info i.outpoint = some info ∧
    info.inscriptions = some [named] ∧ (info.runes = some 0 ∨ info.runes = none)
  balance : sim = some (amount : Int)
  othersSigned : ∀ k i, ins[k]? = some i → k ≠ seller → ∃ s, psbtSig i = .ok (some s)
  sellerUnsigned : ∀ i, ins[seller]? = some i → i.finalScriptSig = none ∧ i.finalScriptWitness = none

theorem psbtSig_none {i : PIn} (h : psbtSig i = .ok none) :
    i.finalScriptSig = none ∧ i.finalScriptWitness = none := by
  unfold psbtSig at h
  split at h <;> simp_all

theorem pickSeller_ok {v : View} {ins : List PIn} {idx : Nat} {op : OutPoint}
    (h : pickSeller v ins = .ok (idx, op)) : outgoing v.utxos ins 0 = [(idx, op)] := by
  unfold pickSeller at h
  simp only at h
  split at h
  · simp at h
  · rename_i hlen
    split at h
    · simp at h
    · rename_i p tail hog
      simp at h
      subst h
      rw [hog] at hlen
      cases tail with
      | nil => exact hog
      | cons _ _ => simp at hlen

theorem checkHolding_ok {v : View} {named : InsId} {op : OutPoint}
    (h : checkHolding v named op = .ok ()) :
    ∃ info, lookupInfo v.info op = some info ∧ info.inscriptions = some [named] ∧
      (info.runes = some 0 ∨ info.runes = none) := by
  unfold checkHolding at h
  split at h
  · simp at h
  · rename_i info hinfo
    refine ⟨info, hinfo, ?_⟩
    split at h
    · simp at h
    · rename_i hrunes
      have hr : info.runes = some 0 ∨ info.runes = none := by
        cases hr : info.runes with
        | none => right; rfl
        | some n =>
          left
          rw [hr] at hrunes
          simp [seesRunes] at hrunes
          rw [hrunes]
      refine ⟨?_, hr⟩
      split at h
      · simp at h
      · rename_i l hl
        split at h
        · simp at h
        · rename_i hl1
          split at h
          · simp at h
          · rename_i i0 ltail
            split at h
            · simp at h
            · rename_i hnamed
              have : i0 = named := by simpa using hnamed
              subst this
              cases ltail with
              | nil => exact hl
              | cons _ _ => simp at hl1

theorem checkBalance_ok {amount : Nat} {sim : Option Int} (h : checkBalance amount sim = .ok ()) :
    sim = some (amount : Int) ∧ amount ≤ i64Max := by
  unfold checkBalance at h
  split at h
  · simp at h
  · rename_i change
    split at h
    · simp at h
    · rename_i hamt
      split at h
      · simp at h
      · rename_i hc
        have : change = (amount : Int) := by simpa using hc
        subst this
        exact ⟨rfl, by omega⟩

theorem checkPsbtSigs_ok {idx : Nat} {ins : List PIn} {sigs : List (Option Sig)}
    (h : checkPsbtSigs idx ins = .ok sigs) : psbtSigs ins = .ok sigs ∧ checkSigs idx sigs 0 = .ok () := by
  unfold checkPsbtSigs at h
  split at h
  · simp at h
  · rename_i ss hss
    split at h
    · simp at h
    · rename_i hc
      simp at h
      subst h
      exact ⟨hss, hc⟩

/-- unfolding of `pre` -/
theorem pre_ok {v : View} {named : InsId} {amount : Nat} {sim : Option Int} {ins : List PIn}
    {seller : Nat} {sigs : List (Option Sig)} (h : pre v named amount sim ins = .ok (seller, sigs)) :
    Advertised v named amount sim ins seller ∧ psbtSigs ins = .ok sigs ∧ amount ≤ i64Max := by
  unfold pre at h
  split at h
  · simp at h
  · rename_i idx op hpick
    split at h
    · simp at h
    · rename_i hhold
      split at h
      · simp at h
      · rename_i hbal
        split at h
        · simp at h
        · rename_i ss hsig
          simp at h
          obtain ⟨rfl, rfl⟩ := h
          obtain ⟨⟨i, hi, hop, hmem⟩, honly⟩ := outgoing_singleton (pickSeller_ok hpick)
          obtain ⟨info, hinfo, hins, hrunes⟩ := checkHolding_ok hhold
          obtain ⟨hsim, hamt⟩ := checkBalance_ok hbal
          obtain ⟨hss, hcheck⟩ := checkPsbtSigs_ok hsig
          obtain ⟨_, hsall⟩ := psbtSigs_spec ins ss hss
          have hcs := checkSigs_spec idx ss 0 hcheck
          refine ⟨⟨⟨i, hi, by rw [hop]; exact hmem⟩, honly, ⟨i, info, hi, by rw [hop]; exact hinfo, hins, hrunes⟩,
            hsim, ?_, ?_⟩, hss, hamt⟩
          · intro k j hk hne
            obtain ⟨s, hs1, hs2⟩ := hsall k j hk
            have := (hcs k s hs1).2 (by omega)
            cases s with
            | none => simp at this
            | some s => exact ⟨s, hs2⟩
          · intro j hj
            obtain ⟨s, hs1, hs2⟩ := hsall idx j hj
            have := (hcs idx s hs1).1 (by omega)
            subst this
            exact psbtSig_none hs2

/-- unfolding of `post` -/
theorem post_broadcast {seller : Nat} {old : List (Option Sig)} {nIn : Nat} {fin : Fin} {sendOk : Bool}
    (h : post seller old nIn fin sendOk = .broadcast) :
    sendOk = true ∧ ∃ tins new, fin = .tx tins ∧ tins.length = nIn ∧ txSigs tins = .ok new ∧
      checkAfter seller old new 0 = .ok () := by
  unfold post at h
  split at h
  · simp at h
  · simp at h
  · simp at h
  · simp at h
  · rename_i tins
    split at h
    · simp at h
    · rename_i hlen
      split at h
      · simp at h
      · rename_i new hnew
        split at h
        · simp at h
        · rename_i hafter
          split at h
          · rename_i hs
            exact ⟨hs, tins, new, rfl, by simpa using hlen, hnew, hafter⟩
          · simp at h

theorem post_signs (seller : Nat) (old : List (Option Sig)) (nIn : Nat) (fin : Fin) (sendOk : Bool) :
    (post seller old nIn fin sendOk).signs = true := by
  unfold post
  repeat' split
  all_goals rfl

end Ord.Offer
