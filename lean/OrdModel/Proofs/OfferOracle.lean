import OrdModel.Proofs.Offer
/-!
The executable predicate `advertised` (evaluated by the driver's oracle lines) against the
proposition `Advertised`, and the converse of the gate (an advertised trade is approved).
-/
namespace Ord.Offer

theorem signed_spec {i : PIn} (h : i.signed = true) : ∃ s, psbtSig i = .ok (some s) := by
  unfold PIn.signed at h
  split at h
  · rename_i s hs
    exact ⟨s, hs⟩
  · simp at h

theorem unsigned_spec {i : PIn} (h : i.unsigned = true) :
    i.finalScriptSig = none ∧ i.finalScriptWitness = none := by
  unfold PIn.unsigned at h
  simp at h
  exact h

theorem unsigned_psbtSig {i : PIn} (h : i.unsigned = true) : psbtSig i = .ok none := by
  obtain ⟨h1, h2⟩ := unsigned_spec h
  unfold psbtSig
  rw [h1, h2]

theorem othersSigned_spec (seller : Nat) : ∀ (ins : List PIn) (base : Nat),
    othersSigned seller ins base = true →
    ∀ (k : Nat) (i : PIn), ins[k]? = some i →
      (base + k = seller → i.unsigned = true) ∧ (base + k ≠ seller → i.signed = true)
  | [], _, _ => by simp
  | a :: rest, base, h => by
    unfold othersSigned at h
    simp only [Bool.and_eq_true] at h
    obtain ⟨h1, h2⟩ := h
    have ih := othersSigned_spec seller rest (base + 1) h2
    intro k i hk
    cases k with
    | zero =>
      simp at hk
      subst hk
      by_cases hb : (base == seller) = true
      · rw [if_pos hb] at h1
        have : base = seller := by simpa using hb
        exact ⟨fun _ => h1, fun hne => absurd this (by omega)⟩
      · rw [if_neg hb] at h1
        have : base ≠ seller := by simpa using hb
        exact ⟨fun he => absurd (by omega) this, fun _ => h1⟩
    | succ k =>
      have := ih k i (by simpa using hk)
      exact ⟨fun he => this.1 (by omega), fun hne => this.2 (by omega)⟩

/-- the signature stage succeeds on an offer whose non-seller inputs are signed -/
theorem othersSigned_checks (seller : Nat) : ∀ (ins : List PIn) (base : Nat),
    othersSigned seller ins base = true →
    ∃ sigs, psbtSigs ins = .ok sigs ∧ checkSigs seller sigs base = .ok ()
  | [], _, _ => ⟨[], rfl, rfl⟩
  | a :: rest, base, h => by
    unfold othersSigned at h
    simp only [Bool.and_eq_true] at h
    obtain ⟨h1, h2⟩ := h
    obtain ⟨sigs, hs, hc⟩ := othersSigned_checks seller rest (base + 1) h2
    by_cases hb : (base == seller) = true
    · rw [if_pos hb] at h1
      refine ⟨none :: sigs, ?_, ?_⟩
      · unfold psbtSigs
        rw [unsigned_psbtSig h1, hs]
      · unfold checkSigs
        rw [if_pos hb]
        simpa using hc
    · rw [if_neg hb] at h1
      obtain ⟨s, hsig⟩ := signed_spec h1
      refine ⟨some s :: sigs, ?_, ?_⟩
      · unfold psbtSigs
        rw [hsig, hs]
      · unfold checkSigs
        rw [if_neg hb]
        simpa using hc

theorem advertised_sound (v : View) (named : InsId) (amount : Nat) (sim : Option Int)
    (ins : List PIn) (h : advertised v named amount sim ins = true) :
    ∃ seller, Advertised v named amount sim ins seller := by
  unfold advertised at h
  split at h
  · rename_i idx op hog
    simp only [Bool.and_eq_true] at h
    obtain ⟨⟨hhold, hsim⟩, hsigned⟩ := h
    obtain ⟨⟨i, hi, hop, hmem⟩, honly⟩ := outgoing_singleton hog
    have hos := othersSigned_spec idx ins 0 hsigned
    split at hhold
    · rename_i info hinfo
      simp only [Bool.and_eq_true, Bool.or_eq_true, beq_iff_eq] at hhold
      refine ⟨idx, ⟨i, hi, by rw [hop]; exact hmem⟩, honly,
        ⟨i, info, hi, by rw [hop]; exact hinfo, hhold.2, hhold.1⟩, by simpa using hsim, ?_, ?_⟩
      · intro k j hk hne
        exact signed_spec ((hos k j hk).2 (by omega))
      · intro j hj
        exact unsigned_spec ((hos idx j hj).1 (by omega))
    · simp at hhold
  · simp at h

theorem accept_of_advertised (v : View) (named : InsId) (amount : Nat) (sim : Option Int)
    (ins : List PIn) (fin : Fin) (send : Bool)
    (h : advertised v named amount sim ins = true) (hamt : amount ≤ i64Max) :
    accept true v named amount sim ins fin send = .dryOk := by
  unfold advertised at h
  split at h
  · rename_i idx op hog
    simp only [Bool.and_eq_true] at h
    obtain ⟨⟨hhold, hsim⟩, hsigned⟩ := h
    split at hhold
    · rename_i info hinfo
      simp only [Bool.and_eq_true, Bool.or_eq_true, beq_iff_eq] at hhold
      obtain ⟨hrunes, hins⟩ := hhold
      have hsim' : sim = some (amount : Int) := by simpa using hsim
      obtain ⟨sigs, hs, hc⟩ := othersSigned_checks idx ins 0 hsigned
      have hpick : pickSeller v ins = .ok (idx, op) := by
        unfold pickSeller
        simp [hog]
      have hhold' : checkHolding v named op = .ok () := by
        unfold checkHolding
        rw [hinfo]
        have : seesRunes info.runes = false := by
          rcases hrunes with hr | hr <;> rw [hr] <;> rfl
        simp [this, hins]
      have hbal : checkBalance amount sim = .ok () := by
        unfold checkBalance
        rw [hsim']
        have : ¬ amount > i64Max := by omega
        simp [this]
      have hsig : checkPsbtSigs idx ins = .ok sigs := by
        unfold checkPsbtSigs
        rw [hs]
        simp only
        rw [hc]
      unfold accept pre
      rw [hpick]
      simp only
      rw [hhold']
      simp only
      rw [hbal]
      simp only
      rw [hsig]
      simp
    · simp at hhold
  · simp at h

end Ord.Offer
