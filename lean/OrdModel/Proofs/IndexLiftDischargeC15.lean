import OrdModel.Proofs.IndexFlagsChain
import OrdModel.Proofs.IndexLiftDischargeChain
import OrdModel.Proofs.IndexLiftInsValid
/-
Discharge of C15's side hypothesis `NullStableFrom` from the chain-level C04 invariant.

`NullRowsStable cfg st blk` asks, at the *mid-commit* state of a block (the regular cache entries
flushed, the block's null / unbound entries not yet), that every inscription listed by the null
UTXO entry has its `seq2sp` row there.  That is the "listed ⇒ row" half of C04's
`InsPartitioned`; at the mid-commit state it follows from the mid-block invariant `MInv`
(duplicate-free sequence numbers over table ++ cache ++ pending special entries ++ saved flotsam)
exactly as `flush_insPartitioned` derives it at the end of the commit.
-/
namespace Ord.Index.InsLift
open Ord Ord.Index Outcome Sched Insloc

/-- "listed ⇒ row" after flushing *any* cache `C` with fresh non-special keys whose sequence
numbers are disjoint from the table's (no completeness of the lists needed, so it applies to a
partial commit). -/
theorem flush_sp_of_listed (cfg : Cfg) (hi : cfg.indexInscriptions = true) (pre E : State) (C : Cache)
    (hpre : InsPartitioned cfg pre)
    (hseq : E.seq2sp = pre.seq2sp) (hsub : ∀ p ∈ E.utxo, p ∈ pre.utxo)
    (hnodupE : (AL.keys E.utxo).Nodup) (hn : (AL.keys C).Nodup)
    (hd : ∀ op ∈ AL.keys C, op.isSpecial = false → AL.get E.utxo op = none)
    (hnd : (allSeqs E.utxo ++ allSeqs C).Nodup) :
    ∀ o s off, (o, s, off) ∈ allIns (flushCache cfg E C).utxo →
      AL.get (flushCache cfg E C).seq2sp s = some ⟨o, off⟩ := by
  have hnodF : (AL.keys (flushCache cfg E C).utxo).Nodup := nodup_flushCache_utxo cfg C E hnodupE
  have hndS : (allSeqs (flushCache cfg E C).utxo).Nodup :=
    (flushCache_allSeqs cfg C E hn hd).nodup_iff.2 hnd
  intro o s off hm
  obtain ⟨e, hme, hin⟩ := (mem_allIns _ _ _ _).1 hm
  have hge : AL.get (flushCache cfg E C).utxo o = some e := AL.get_of_mem hnodF hme
  rcases flushCache_seq2sp_cases cfg hi C E hn s with ⟨hnw, hg⟩ | ⟨op, hop, e', off', hu, hm', hg⟩
  · have hk : o ∉ AL.keys C := fun hk => hnw o hk e hge off hin
    rw [get_flushCache_utxo cfg C E hn, (AL.get_eq_none_iff _ _).2 hk] at hge
    simp only at hge
    have h1 : (o, e) ∈ pre.utxo := hsub _ (AL.mem_of_get hge)
    have h2 := hpre.sp_of_listed o s off ((mem_allIns _ _ _ _).2 ⟨e, h1, hin⟩)
    rw [hg, hseq]; exact h2
  · have h2 : (op, s, off') ∈ allIns (flushCache cfg E C).utxo :=
      (mem_allIns _ _ _ _).2 ⟨e', AL.mem_of_get hu, hm'⟩
    obtain ⟨rfl, rfl⟩ := allIns_unique _ hndS hm h2
    exact hg

/-- **`NullRowsStable` is a consequence of the block-boundary invariant** (C04's
`InsPartitioned` with well-formed tables) and the per-block chain hypotheses. -/
theorem nullRowsStable_of_sinv (cfg : Cfg) (hi : cfg.indexInscriptions = true) (seen : List Txid)
    (st : State) (blk : Block) (hS : SInv cfg seen st) (hb : BlockIns cfg seen st blk) :
    NullRowsStable cfg st blk := by
  intro bc ht
  obtain ⟨f0, fnd, ffresh, fsp, _⟩ := blockOrder_facts seen blk hb.ok
  have hstart := MInv.start hS blk
  have hoff0 : insOnOf cfg blk = false → (bc0A cfg st blk).st.entries.length = 0 := hb.off
  obtain ⟨m, _, _, _⟩ := indexTxs_minv cfg blk (insOnOf cfg blk) (blockOrder blk) seen f0 fnd ffresh fsp
    _ bc hstart hoff0 ht
  have hsubT := indexTxs_sub _ _ _ _ _ _ ht
  have hsq : bc.st.seq2sp = st.seq2sp := hsubT.1
  have hsu : ∀ p ∈ bc.st.utxo, p ∈ st.utxo := hsubT.2.1
  have htriE := endState_tri cfg blk (insOnOf cfg blk) bc
  have hEu : (endState cfg blk (insOnOf cfg blk) bc).1.utxo = bc.st.utxo := congrArg Tri.utxo htriE
  have hEq : (endState cfg blk (insOnOf cfg blk) bc).1.seq2sp = bc.st.seq2sp := congrArg Tri.seq2sp htriE
  have hnd : (allSeqs (endState cfg blk (insOnOf cfg blk) bc).1.utxo ++ allSeqs bc.cache).Nodup := by
    rw [hEu]
    have h1 : (ctxSeqs bc).Nodup := m.perm.nodup_iff.2 List.nodup_range
    unfold ctxSeqs at h1
    exact (List.nodup_append.1 (List.nodup_append.1 h1).1).1
  have hsp := flush_sp_of_listed cfg hi st (endState cfg blk (insOnOf cfg blk) bc).1 bc.cache hS.part
    (by rw [hEq]; exact hsq) (by rw [hEu]; exact hsu) (by rw [hEu]; exact m.binv.tinv.nodup)
    m.binv.cinv.nodup (by intro op hm hs; rw [hEu]; exact m.binv.cinv.disj op hs hm) hnd
  intro e he p hp
  exact hsp OutPoint.null p.1 p.2 ((mem_allIns _ _ _ _).2 ⟨e, AL.mem_of_get he, hp⟩)

/-- `NullStableFrom` along the rest of a chain, from the chain invariant at the state reached -/
theorem nullStableFrom_of_chainInv (cfg : Cfg) (hi : cfg.indexInscriptions = true) :
    ∀ (suf pre : List Block) (st : State), InsChainOK [] (pre ++ suf) → ChainInv cfg pre st →
      NullStableFrom cfg st suf
  | [], _, _, _, _ => trivial
  | b :: bs, pre, st, hc, hP => by
    have hc' : InsChainOK [] ((pre ++ [b]) ++ bs) := by simpa [List.append_assoc] using hc
    have hq : InsChainOK [] (pre ++ [b]) := hc'.prefix
    refine ⟨fun _ => nullRowsStable_of_sinv cfg hi _ st b hP.1 (blockIns_of_chainInv cfg pre st b hq hP), ?_⟩
    intro st1 ev1 h1
    exact nullStableFrom_of_chainInv cfg hi bs (pre ++ [b]) st1 hc' (chainInv_step cfg pre st b st1 ev1 hq hP h1)

/-- **`NullStableFrom` holds for every chain satisfying `InsChain`** (inscriptions indexed). -/
theorem nullStableFrom_of_insChain (cfg : Cfg) (hi : cfg.indexInscriptions = true) (chain : List Block)
    (hc : InsChain chain) : NullStableFrom cfg {} chain :=
  nullStableFrom_of_chainInv cfg hi chain [] {} (by simpa using hc.ok)
    ⟨SInv.init cfg, fun h => by simp at h⟩

end Ord.Index.InsLift
