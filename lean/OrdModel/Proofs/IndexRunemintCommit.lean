import OrdModel.Index.Runes
import OrdModel.Proofs.RuneCommit
/-
Group `runemint`, helper lemmas 3: the index model's `commitment` (stop at the first zero
quotient) is the same function as the C32 model's `Rune.commitment` (16 little-endian bytes with
the trailing zero bytes stripped), so the C32 theorems apply to what `etched` looks for.
-/
namespace Ord.Index.Runemint
open Ord.Index

theorem commitmentAux_zero (k : Nat) : commitmentAux k 0 = [] := by
  cases k <;> simp [commitmentAux]

theorem stripZeros_leBytes_zero (k : Nat) : Ord.Rune.stripZeros (Ord.Rune.leBytes k 0) = [] := by
  induction k with
  | zero => rfl
  | succ k ih =>
    simp only [Ord.Rune.leBytes, Nat.zero_mod, Nat.zero_div, Ord.Rune.stripZeros, ih]
    rfl

theorem commitmentAux_ne_nil (k n : Nat) (hk : 0 < k) (hn : n ≠ 0) : commitmentAux k n ≠ [] := by
  cases k with
  | zero => omega
  | succ k => simp [commitmentAux, hn]

theorem commitmentAux_eq : ∀ (k n : Nat), n < 256 ^ k →
    commitmentAux k n = Ord.Rune.stripZeros (Ord.Rune.leBytes k n)
  | 0, n, _ => by simp [commitmentAux, Ord.Rune.leBytes, Ord.Rune.stripZeros]
  | k + 1, n, hn => by
    have hq : n / 256 < 256 ^ k := by
      rw [Nat.pow_succ] at hn
      exact Nat.div_lt_of_lt_mul (by omega)
    have ih := commitmentAux_eq k (n / 256) hq
    by_cases h0 : n = 0
    · subst h0
      rw [commitmentAux_zero, stripZeros_leBytes_zero]
    · simp only [commitmentAux, h0, if_false, Ord.Rune.leBytes, Ord.Rune.stripZeros, ← ih]
      by_cases hq0 : n / 256 = 0
      · rw [hq0, commitmentAux_zero]
        have hlt : n < 256 := by omega
        have hmod : n % 256 = n := Nat.mod_eq_of_lt hlt
        have : (UInt8.ofNat (n % 256)).toNat ≠ 0 := by
          rw [Ord.Rune.toNat_ofNat_lt (by omega)]; omega
        simp [this]
        omega
      · have hk : 0 < k := by
          rcases k with _ | k
          · simp at hq; omega
          · omega
        have hne := commitmentAux_ne_nil k (n / 256) hk hq0
        cases hc : commitmentAux k (n / 256) with
        | nil => exact absurd hc hne
        | cons b bs => rfl

/-- the two models of `Rune::commitment` agree on every 128-bit rune -/
theorem commitment_eq_c32 (n : Nat) (hn : n < 2 ^ 128) : commitment n = Ord.Rune.commitment n := by
  have h256 : n < 256 ^ 16 := by
    have : (256 : Nat) ^ 16 = 2 ^ 128 := by decide
    omega
  exact commitmentAux_eq 16 n h256

end Ord.Index.Runemint
