import OrdModel.Proofs.IndexMiscReplayFrame
import OrdModel.Proofs.IndexMiscAddrFrame
/-
Sat-side lift, part 1 (frame): the inscription updater (`indexInscriptions` and everything under
it) and the rune updater (`indexRunesBlock`) never write the four pieces of a `State` the sat
index lives in — OUTPOINT_TO_UTXO_ENTRY, SAT_TO_SATPOINT, the height and the LostSats
statistic (`satView`).  Proof scripts follow `IndexMiscAddrFrame` / `IndexMiscReplayFrame`
(same case analysis, other fields).
-/
namespace Ord.Index
open Outcome

/-- the part of the index content the sat index lives in -/
def satView (st : State) : List (OutPoint × UtxoEntry) × List (Nat × SatPoint) × Nat × Nat :=
  (st.utxo, st.sat2sp, st.height, st.lostSats)

/-- `b` has the same sat view as `a` -/
def SatSame (a b : State) : Prop := satView b = satView a

theorem SatSame.refl (a : State) : SatSame a a := rfl
theorem SatSame.trans {a b c : State} (h1 : SatSame a b) (h2 : SatSame b c) : SatSame a c :=
  Eq.trans h2 h1
theorem SatSame.utxo {a b : State} (h : SatSame a b) : b.utxo = a.utxo := congrArg (·.1) h
theorem SatSame.sat2sp {a b : State} (h : SatSame a b) : b.sat2sp = a.sat2sp := congrArg (·.2.1) h
theorem SatSame.height {a b : State} (h : SatSame a b) : b.height = a.height := congrArg (·.2.2.1) h
theorem SatSame.lostSats {a b : State} (h : SatSame a b) : b.lostSats = a.lostSats := congrArg (·.2.2.2) h

/-! ### inscription updater -/

theorem linkParents_satSame (seq : Nat) (ps : List InscriptionId) (st : State) (ids : List InscriptionId) (seqs : List Nat)
    (r : State × List InscriptionId × List Nat) (h : linkParents seq ps st ids seqs = .ok r) : SatSame st r.1 := by
  induction ps generalizing st ids seqs with
  | nil => simp [linkParents] at h; subst h; exact SatSame.refl _
  | cons p rest ih =>
    simp only [linkParents] at h
    split at h
    · exact ih _ _ _ h
    · split at h
      · simp at h
      · have := ih _ _ _ h
        refine SatSame.trans ?_ this
        show satView _ = satView _
        split <;> rfl

theorem uilStep_satSame (height time : Nat) (ir : Option (List (Nat × Nat))) (fl : Flotsam) (sp : SatPoint)
    (opr : Bool) (ls : LocState) (r : Bool × Nat × State × InsCtx)
    (hr : uilStep height time ir fl sp opr ls = .ok r) : SatSame ls.st r.2.2.1 := by
  unfold uilStep at hr
  split at hr
  · -- old
    split at hr
    · split at hr
      · simp at hr
      · cases hr; exact SatSame.refl _
    · extract_lets src st1 at hr
      cases hr
      show satView st1 = satView ls.st
      simp only [st1]; split <;> rfl
  · -- new
    rename_i cursed fee gallery hidden parents reinscription unbound vindicated horigin
    by_cases hc : (if cursed = true then ls.st.cursed else ls.st.blessed) ≥ 2147483648
    · rw [if_pos hc] at hr; simp at hr
    · rw [if_neg hc] at hr
      extract_lets number src st0 seq st1 satO c0 c1 at hr
      clear_value satO
      split at hr
      · simp at hr
      · simp at hr
      · extract_lets c2 c3 c4 c5 charms st2 at hr
        split at hr
        · simp at hr
        · simp at hr
        · rename_i st3 pids pseqs hlp
          have hf := linkParents_satSame _ _ _ _ _ _ hlp
          extract_lets st4 ev entry st5 at hr
          have h2 : SatSame ls.st st2 := by
            show satView st2 = satView ls.st
            simp only [st2, st1, st0, src]
            split <;> split <;> rfl
          have h3 : SatSame ls.st st3 := h2.trans hf
          have h5 : SatSame ls.st st5 := by
            refine h3.trans ?_
            show satView st5 = satView st3
            simp only [st5, st4]
            split <;> rfl
          split at hr
          rename_i st6 homeCount heq
          obtain rfl := Outcome.ok.inj hr
          show SatSame ls.st st6
          split at heq
          · cases heq; exact h5
          · split at heq <;> (cases heq; exact h5.trans rfl)

theorem uilFinish_satSame (sp : SatPoint) (tgt : Target) (outs : List UtxoEntry) (u : Bool) (seq : Nat) (st : State)
    (ctx : InsCtx) (ls' : LocState) (h : uilFinish sp tgt outs (u, seq, st, ctx) = .ok ls') :
    SatSame st ls'.st := by
  unfold uilFinish at h
  dsimp only at h
  split at h
  · cases h; exact rfl
  · split at h
    · split at h
      · cases h
      · cases h; exact rfl
    · split at h
      · cases h
      · cases h; exact rfl

theorem uil_satSame (cfg : Cfg) (height time : Nat) (ir : Option (List (Nat × Nat))) (fl : Flotsam) (sp : SatPoint)
    (opr : Bool) (target : Target) (ls ls' : LocState)
    (h : updateInscriptionLocation cfg height time ir fl sp opr target ls = .ok ls') : SatSame ls.st ls'.st := by
  rw [uil_eq] at h
  split at h
  · cases h
  · cases h
  · rename_i u seq st ctx hs
    exact (uilStep_satSame _ _ _ _ _ _ _ _ hs).trans (uilFinish_satSame _ _ _ _ _ _ _ _ h)

theorem applyLocations_satSame (cfg : Cfg) (height time : Nat) (ir : Option (List (Nat × Nat)))
    (locs : List (SatPoint × Flotsam × Bool)) (ls ls' : LocState)
    (h : applyLocations cfg height time ir locs ls = .ok ls') : SatSame ls.st ls'.st := by
  induction locs generalizing ls with
  | nil => simp only [applyLocations, Outcome.ok.injEq] at h; subst h; exact SatSame.refl _
  | cons p rest ih =>
    obtain ⟨sp, fl, opr⟩ := p
    simp only [applyLocations] at h
    split at h
    · simp at h
    · simp at h
    · rename_i ls1 h1
      exact SatSame.trans (uil_satSame _ _ _ _ _ _ _ _ _ _ h1) (ih _ h)

theorem applyLost_satSame (cfg : Cfg) (height time : Nat) (ir : Option (List (Nat × Nat))) (ov : Nat)
    (fls : List Flotsam) (ls ls' : LocState)
    (h : applyLost cfg height time ir ov fls ls = .ok ls') : SatSame ls.st ls'.st := by
  induction fls generalizing ls with
  | nil => simp only [applyLost, Outcome.ok.injEq] at h; subst h; exact SatSame.refl _
  | cons fl rest ih =>
    simp only [applyLost] at h
    split at h
    · simp at h
    · simp at h
    · rename_i ls1 h1
      exact SatSame.trans (uil_satSame _ _ _ _ _ _ _ _ _ _ h1) (ih _ h)

/-- **the inscription pass of one transaction leaves the sat view alone** -/
theorem indexInscriptions_satSame (cfg : Cfg) (height time : Nat) (tx : Tx) (inputs : List (TxIn × UtxoEntry))
    (ir : Option (List (Nat × Nat))) (ls ls' : LocState)
    (h : indexInscriptions cfg height time tx inputs ir ls = .ok ls') : SatSame ls.st ls'.st := by
  unfold indexInscriptions at h
  extract_lets jubilant totalOut hasNew src st1 isCoinbase src2 ctx1 at h
  have h0 : SatSame ls.st st1 := by
    show satView st1 = satView ls.st
    simp only [st1]; split <;> rfl
  clear_value st1 ctx1
  split at h
  · simp at h
  · simp at h
  · rename_i sc hsc
    extract_lets at h
    split at h
    · simp at h
    · split at h
      · simp at h
      · split at h
        rename_i locs rest outputValue hao
        split at h
        · simp at h
        · simp at h
        · rename_i ls2 h2
          have f2 : SatSame ls.st ls2.st := SatSame.trans h0 (applyLocations_satSame _ _ _ _ _ _ _ h2)
          split at h
          · split at h
            · simp at h
            · simp at h
            · rename_i ls3 h3
              have f3 : SatSame ls.st ls3.st := SatSame.trans f2 (applyLost_satSame _ _ _ _ _ _ _ _ h3)
              split at h
              · simp at h
              · obtain rfl := Outcome.ok.inj h
                exact f3
          · split at h
            · simp at h
            · obtain rfl := Outcome.ok.inj h
              exact f2

/-! ### the special-outpoint entries of the block carry no sat ranges -/

/-- the special entries held in the inscription context have no sat ranges (the lost ranges of
the block are kept apart, in `BlockCtx.lostRanges`, until the end of the block) -/
def NoRanges (c : InsCtx) : Prop :=
  (∀ e, c.nullEntry = some e → e.ranges = []) ∧ (∀ e, c.unboundEntry = some e → e.ranges = [])

theorem uilStep_special (height time : Nat) (ir : Option (List (Nat × Nat))) (fl : Flotsam) (sp : SatPoint)
    (opr : Bool) (ls : LocState) (r : Bool × Nat × State × InsCtx)
    (hr : uilStep height time ir fl sp opr ls = .ok r) :
    r.2.2.2.nullEntry = ls.ctx.nullEntry ∧ r.2.2.2.unboundEntry = ls.ctx.unboundEntry := by
  unfold uilStep at hr
  split at hr
  · split at hr
    · split at hr
      · simp at hr
      · cases hr; exact ⟨rfl, rfl⟩
    · extract_lets src st1 at hr
      cases hr
      exact ⟨rfl, rfl⟩
  · rename_i cursed fee gallery hidden parents reinscription unbound vindicated horigin
    by_cases hc : (if cursed = true then ls.st.cursed else ls.st.blessed) ≥ 2147483648
    · rw [if_pos hc] at hr; simp at hr
    · rw [if_neg hc] at hr
      extract_lets number src st0 seq st1 satO c0 c1 at hr
      clear_value satO
      split at hr
      · simp at hr
      · simp at hr
      · extract_lets c2 c3 c4 c5 charms st2 at hr
        split at hr
        · simp at hr
        · simp at hr
        · extract_lets st4 ev entry st5 at hr
          split at hr
          rename_i st6 homeCount heq
          obtain rfl := Outcome.ok.inj hr
          exact ⟨rfl, rfl⟩

theorem uilFinish_noRanges (sp : SatPoint) (tgt : Target) (outs : List UtxoEntry) (u : Bool) (seq : Nat) (st : State)
    (ctx : InsCtx) (ls' : LocState) (h : uilFinish sp tgt outs (u, seq, st, ctx) = .ok ls') (hok : NoRanges ctx) :
    NoRanges ls'.ctx := by
  unfold uilFinish at h
  dsimp only at h
  split at h
  · cases h
    refine ⟨hok.1, fun e' he' => ?_⟩
    simp only [Option.some.injEq] at he'
    subst he'
    show (ctx.unboundEntry.getD UtxoEntry.empty).ranges = []
    cases hue : ctx.unboundEntry with
    | none => rfl
    | some x => exact hok.2 x hue
  · split at h
    · split at h
      · cases h
      · cases h; exact hok
    · split at h
      · cases h
      · cases h
        refine ⟨fun e' he' => ?_, hok.2⟩
        simp only [Option.some.injEq] at he'
        subst he'
        show (ctx.nullEntry.getD UtxoEntry.empty).ranges = []
        cases hne : ctx.nullEntry with
        | none => rfl
        | some x => exact hok.1 x hne

theorem uil_noRanges (cfg : Cfg) (height time : Nat) (ir : Option (List (Nat × Nat))) (fl : Flotsam) (sp : SatPoint)
    (opr : Bool) (target : Target) (ls ls' : LocState)
    (h : updateInscriptionLocation cfg height time ir fl sp opr target ls = .ok ls') (hok : NoRanges ls.ctx) :
    NoRanges ls'.ctx := by
  rw [uil_eq] at h
  split at h
  · cases h
  · cases h
  · rename_i u seq st ctx hs
    obtain ⟨h1, h2⟩ := uilStep_special _ _ _ _ _ _ _ _ hs
    simp only at h1 h2
    exact uilFinish_noRanges _ _ _ _ _ _ _ _ h ⟨by rw [h1]; exact hok.1, by rw [h2]; exact hok.2⟩

theorem applyLocations_noRanges (cfg : Cfg) (height time : Nat) (ir : Option (List (Nat × Nat)))
    (locs : List (SatPoint × Flotsam × Bool)) (ls ls' : LocState)
    (h : applyLocations cfg height time ir locs ls = .ok ls') (hok : NoRanges ls.ctx) : NoRanges ls'.ctx := by
  induction locs generalizing ls with
  | nil => simp only [applyLocations, Outcome.ok.injEq] at h; subst h; exact hok
  | cons p rest ih =>
    obtain ⟨sp, fl, opr⟩ := p
    simp only [applyLocations] at h
    split at h
    · simp at h
    · simp at h
    · rename_i ls1 h1
      exact ih _ h (uil_noRanges _ _ _ _ _ _ _ _ _ _ h1 hok)

theorem applyLost_noRanges (cfg : Cfg) (height time : Nat) (ir : Option (List (Nat × Nat))) (ov : Nat)
    (fls : List Flotsam) (ls ls' : LocState)
    (h : applyLost cfg height time ir ov fls ls = .ok ls') (hok : NoRanges ls.ctx) : NoRanges ls'.ctx := by
  induction fls generalizing ls with
  | nil => simp only [applyLost, Outcome.ok.injEq] at h; subst h; exact hok
  | cons fl rest ih =>
    simp only [applyLost] at h
    split at h
    · simp at h
    · simp at h
    · rename_i ls1 h1
      exact ih _ h (uil_noRanges _ _ _ _ _ _ _ _ _ _ h1 hok)

/-- **the inscription pass never gives the special entries sat ranges** -/
theorem indexInscriptions_noRanges (cfg : Cfg) (height time : Nat) (tx : Tx) (inputs : List (TxIn × UtxoEntry))
    (ir : Option (List (Nat × Nat))) (ls ls' : LocState)
    (h : indexInscriptions cfg height time tx inputs ir ls = .ok ls') (hok : NoRanges ls.ctx) : NoRanges ls'.ctx := by
  unfold indexInscriptions at h
  extract_lets jubilant totalOut hasNew src st1 isCoinbase src2 ctx1 at h
  have h0 : NoRanges ctx1 := by
    simp only [ctx1]
    split
    · exact hok
    · exact hok
  clear_value st1 ctx1
  split at h
  · simp at h
  · simp at h
  · rename_i sc hsc
    extract_lets at h
    split at h
    · simp at h
    · split at h
      · simp at h
      · split at h
        rename_i locs rest outputValue hao
        split at h
        · simp at h
        · simp at h
        · rename_i ls2 h2
          have f2 : NoRanges ls2.ctx := applyLocations_noRanges _ _ _ _ _ _ _ h2 h0
          split at h
          · split at h
            · simp at h
            · simp at h
            · rename_i ls3 h3
              have f3 : NoRanges ls3.ctx := applyLost_noRanges _ _ _ _ _ _ _ _ h3 f2
              split at h
              · simp at h
              · obtain rfl := Outcome.ok.inj h
                exact f3
          · split at h
            · simp at h
            · obtain rfl := Outcome.ok.inj h
              exact f2

/-! ### rune updater -/

theorem takeInputs_satSame (ins : List TxIn) (st : State) (un : Balances) (r : State × Balances)
    (h : takeInputs ins st un = .ok r) : SatSame st r.1 := by
  induction ins generalizing st un with
  | nil => simp only [takeInputs, Outcome.ok.injEq] at h; subst h; exact SatSame.refl _
  | cons i rest ih =>
    simp only [takeInputs] at h
    split at h
    · exact ih _ _ h
    · split at h
      · have := ih _ _ h; exact this
      · simp at h
      · simp at h

theorem mint_satSame (st : State) (height : Nat) (id : RuneId) : SatSame st (mint st height id).1 := by
  unfold mint
  split
  · exact SatSame.refl _
  · split
    · exact SatSame.refl _
    · exact rfl

theorem etched_satSame (st : State) (blk : Block) (i : Nat) (tx : Tx) (art : Artifact) (r : State × Option (RuneId × Nat))
    (h : etched st blk i tx art = .ok r) : SatSame st r.1 := by
  unfold etched at h
  extract_lets named at h
  clear_value named
  split at h
  · obtain rfl := Outcome.ok.inj h; exact SatSame.refl _
  · split at h
    · obtain rfl := Outcome.ok.inj h; exact SatSame.refl _
    · split at h
      · simp at h
      · simp at h
      · obtain rfl := Outcome.ok.inj h; exact SatSame.refl _
      · obtain rfl := Outcome.ok.inj h; exact SatSame.refl _
  · obtain rfl := Outcome.ok.inj h; exact rfl

theorem createRuneEntry_satSame (st : State) (blk : Block) (tx : Tx) (art : Artifact) (id : RuneId) (rune : Nat) :
    SatSame st (createRuneEntry st blk tx art id rune).1 := by
  unfold createRuneEntry
  extract_lets number entry st1 st2
  show SatSame st st2
  simp only [st2]
  split
  · exact rfl
  · exact rfl

theorem writeOutputs_satSame (blk : Block) (tx : Tx) (l : List (Nat × Balances)) (st : State) (burned : Balances)
    (evs : List Event) (r : State × Balances × List Event)
    (h : writeOutputs blk tx l st burned evs = .ok r) : SatSame st r.1 := by
  induction l generalizing st burned evs with
  | nil => simp only [writeOutputs, Outcome.ok.injEq] at h; subst h; exact SatSame.refl _
  | cons p rest ih =>
    obtain ⟨vout, bs⟩ := p
    simp only [writeOutputs] at h
    repeat' (split at h)
    all_goals first | (have := ih _ _ _ h; exact this) | (simp at h; done)

theorem flushBurned_satSame (bb : Balances) (st st' : State) (h : flushBurned bb st = .ok st') : SatSame st st' := by
  induction bb generalizing st with
  | nil => simp only [flushBurned, Outcome.ok.injEq] at h; subst h; exact SatSame.refl _
  | cons p rest ih =>
    obtain ⟨id, b⟩ := p
    simp only [flushBurned] at h
    split at h
    · simp at h
    · split at h
      · simp at h
      · have := ih _ h; exact this



theorem indexRunesTx_satSame (st : State) (blk : Block) (i : Nat) (tx : Tx) (bb : Balances)
    (r : State × Balances × List Event) (h : indexRunesTx st blk i tx bb = .ok r) : SatSame st r.1 := by
  unfold indexRunesTx at h
  split at h
  · simp at h
  · simp at h
  · rename_i st0 un0 h0
    have f0 := takeInputs_satSame _ _ _ _ h0
    simp only at f0
    extract_lets alloc0 phase1 at h
    have hp1 : ∀ q, phase1 = .ok q → SatSame st0 q.1 := by
      intro q hq
      simp -zeta only [phase1] at hq
      clear h phase1
      split at hq
      · obtain rfl := Outcome.ok.inj hq; exact SatSame.refl _
      · rename_i art hart
        extract_lets mintId at hq
        clear_value mintId
        cases mintId with
        | none =>
          simp -zeta only [] at hq
          have hst : SatSame st0 st0 := SatSame.refl _
          split at hq
          · simp at hq
          · simp at hq
          · rename_i st2 et he
            have fe := etched_satSame _ _ _ _ _ _ he
            extract_lets afterEdicts at hq
            clear_value afterEdicts
            split at hq
            · simp at hq
            · simp at hq
            · split at hq
              · obtain rfl := Outcome.ok.inj hq
                exact SatSame.trans (SatSame.trans hst fe) (createRuneEntry_satSame _ _ _ _ _ _)
              · obtain rfl := Outcome.ok.inj hq
                exact SatSame.trans hst fe
        | some id =>
          have hm := mint_satSame st0 blk.height id
          cases hmint : mint st0 blk.height id with
          | mk s o =>
            rw [hmint] at hm
            simp only at hm
            cases o with
            | none =>
              simp -zeta only [hmint] at hq
              split at hq
              · simp at hq
              · simp at hq
              · rename_i st2 et he
                have fe := etched_satSame _ _ _ _ _ _ he
                extract_lets afterEdicts at hq
                clear_value afterEdicts
                split at hq
                · simp at hq
                · simp at hq
                · split at hq
                  · obtain rfl := Outcome.ok.inj hq
                    exact SatSame.trans (SatSame.trans hm fe) (createRuneEntry_satSame _ _ _ _ _ _)
                  · obtain rfl := Outcome.ok.inj hq
                    exact SatSame.trans hm fe
            | some amount =>
              simp -zeta only [hmint] at hq
              split at hq
              · simp at hq
              · simp at hq
              · skip
                split at hq
                · simp at hq
                · simp at hq
                · rename_i st2 et he
                  have fe := etched_satSame _ _ _ _ _ _ he
                  extract_lets afterEdicts at hq
                  clear_value afterEdicts
                  split at hq
                  · simp at hq
                  · simp at hq
                  · split at hq
                    · obtain rfl := Outcome.ok.inj hq
                      exact SatSame.trans (SatSame.trans hm fe) (createRuneEntry_satSame _ _ _ _ _ _)
                    · obtain rfl := Outcome.ok.inj hq
                      exact SatSame.trans hm fe
    clear_value phase1
    split at h
    · simp at h
    · simp at h
    · rename_i st3 un alloc evs
      have f3 := f0.trans (hp1 _ rfl)
      simp only at f3
      extract_lets phase2 at h
      clear_value phase2
      split at h
      · simp at h
      · simp at h
      · split at h
        · simp at h
        · simp at h
        · rename_i st4 burned evs2 hw
          have f4 := writeOutputs_satSame _ _ _ _ _ _ _ hw
          simp only at f4
          split at h
          · simp at h
          · simp at h
          · obtain rfl := Outcome.ok.inj h
            exact f3.trans f4

theorem indexRunesBlock_go_satSame (blk : Block) (l : List (Nat × Tx)) (st : State) (bb : Balances) (evs : List Event)
    (r : State × Balances × List Event) (h : indexRunesBlock.go blk l st bb evs = .ok r) : SatSame st r.1 := by
  induction l generalizing st bb evs with
  | nil => simp only [indexRunesBlock.go, Outcome.ok.injEq] at h; subst h; exact SatSame.refl _
  | cons p rest ih =>
    obtain ⟨i, tx⟩ := p
    simp only [indexRunesBlock.go] at h
    split at h
    · simp at h
    · simp at h
    · rename_i st' bb' evs' h1
      exact (indexRunesTx_satSame _ _ _ _ _ _ h1).trans (ih _ _ _ h)

theorem indexRunesBlock_satSame (st : State) (blk : Block) (r : State × List Event)
    (h : indexRunesBlock st blk = .ok r) : SatSame st r.1 := by
  unfold indexRunesBlock at h
  split at h
  · simp at h
  · simp at h
  · rename_i st1 bb evs h1
    have f1 := indexRunesBlock_go_satSame _ _ _ _ _ _ h1
    split at h
    · simp at h
    · simp at h
    · rename_i st2 h2
      obtain rfl := Outcome.ok.inj h
      exact f1.trans (flushBurned_satSame _ _ _ h2)
end Ord.Index
