import OrdModel.Proofs.IndexLiftSatNull
import OrdModel.Proofs.IndexInslocCarry
/-
Sat-side lift, part 10 (block invariant used by C03): while the non-coinbase transactions of a
block are indexed with the inscription pass on, the inscription updater's running `reward`
(`subsidy + Σ fees so far`, the base of the fee-carry offsets) equals the total size of the sat
ranges queued for the coinbase (`coinbaseInputs` = subsidy range ++ leftovers so far).  So a
flotsam saved at offset `reward + k − Σ outputs` (`c03_fee_carry`) points, in the coinbase's
input ranges, exactly at position `k − Σ outputs` of this transaction's leftover
(`fifo_pointwise`).
-/
namespace Ord.Index
open Outcome Ord.Index.Sched Ord.Index.Insloc

theorem scanInputs_total (cfg : Cfg) (st : State) (jub : Bool) (txid : Txid) (height totalOut : Nat)
    (inputs : List (TxIn × UtxoEntry)) (i : Nat) (sc sc' : ScanState)
    (hnn : ∀ p ∈ inputs, p.1.prev.isNull = false)
    (h : scanInputs cfg st jub txid height totalOut inputs i sc = .ok sc') :
    sc'.totalInputValue = sc.totalInputValue + (inputs.map (fun p => p.2.totalValue cfg)).sum := by
  induction inputs generalizing i sc with
  | nil => simp only [scanInputs, Outcome.ok.injEq] at h; subst h; simp
  | cons p rest ih =>
    obtain ⟨txin, entry⟩ := p
    simp only [scanInputs] at h
    have hn : txin.prev.isNull = false := hnn (txin, entry) (by simp)
    simp only [hn, Bool.false_eq_true, if_false] at h
    split at h
    · cases h
    · cases h
    · rename_i sc1 hs1
      split at h
      · cases h
      · cases h
      · rename_i sc3 hs3
        obtain ⟨_, _, _, _, _, _, _, a7⟩ := scanOld_spec _ _ _ _ _ _ hs1
        obtain ⟨_, _, _, _, _, _, b6⟩ := scanNew_spec _ _ _ _ _ _ _ _ _ _ hs3
        rw [ih _ _ (fun p hp => hnn p (by simp [hp])) h, b6]
        simp only [List.map_cons, List.sum_cons]
        rw [a7]; omega

theorem lenR_flatten (l : List Ranges) : lenR l.flatten = (l.map lenR).sum := by
  induction l with
  | nil => simp [lenR]
  | cons a l ih => simp [lenR_append, ih]

theorem sum_totalValue (cfg : Cfg) (hs : cfg.indexSats = true) (inputs : List (TxIn × UtxoEntry)) :
    (inputs.map (fun p => p.2.totalValue cfg)).sum = lenR (entryRanges inputs) := by
  induction inputs with
  | nil => simp [entryRanges, lenR]
  | cons p l ih =>
    simp only [List.map_cons, List.sum_cons, ih]
    have : entryRanges (p :: l) = p.2.ranges ++ entryRanges l := by simp [entryRanges]
    rw [this, lenR_append]
    simp [UtxoEntry.totalValue, hs, rangesValue_eq_lenR]

/-- sizes after `index_transaction_sats`: the outputs hold their values, the leftover the rest -/
theorem indexTransactionSats_sizes (values : List Nat) (inputs : Ranges) (t : TxSats)
    (h : indexTransactionSats values inputs = some t) :
    values.sum ≤ lenR inputs ∧ lenR t.leftover = lenR inputs - values.sum := by
  have hfl := (indexTransactionSats_facts values inputs t h).2.1
  rw [indexTransactionSats_spec] at h
  split at h
  · rename_i hv
    cases h
    have hl := assignOutputsR_lens values inputs hv
    have h1 := congrArg List.length hfl
    rw [den_length, den_length, lenR_append, lenR_flatten, hl] at h1
    exact ⟨hv, by omega⟩
  · cases h

/-- the inscription context through the middle of `indexTx` for a transaction that is not the
block's first: with the pass off nothing changes, with it on the reward grows by the fee -/
theorem indexTxMid_reward (cfg : Cfg) (hs : cfg.indexSats = true) (blk : Block) (insOn : Bool) (txOffset : Nat)
    (hoff : txOffset ≠ 0) (tx : Tx) (bc1 : BlockCtx) (inputs : List (TxIn × UtxoEntry)) (bc3 : BlockCtx)
    (outs3 : List UtxoEntry) (hnn : ∀ p ∈ inputs, p.1.prev.isNull = false) (hncb : txIsCoinbase tx = false)
    (hm : indexTxMid cfg blk insOn txOffset tx bc1 inputs = .ok (bc3, outs3)) :
    bc3.ins.reward = if insOn then bc1.ins.reward + (lenR (entryRanges inputs) - (tx.outputs.map (·.value)).sum)
      else bc1.ins.reward := by
  unfold indexTxMid at hm
  simp only [hs, if_true, hoff, if_false] at hm
  cases hr : indexTransactionSats (tx.outputs.map (·.value)) (inputs.flatMap (fun x => x.2.ranges)) with
  | none => rw [hr] at hm; cases hm
  | some r =>
    rw [hr] at hm
    simp only at hm
    cases insOn with
    | false =>
      simp only [Bool.false_eq_true, if_false, Outcome.ok.injEq, Prod.mk.injEq] at hm
      obtain ⟨rfl, -⟩ := hm
      rfl
    | true =>
      simp only [if_true] at hm
      split at hm
      · cases hm
      · cases hm
      · rename_i ls hii
        simp only [Outcome.ok.injEq, Prod.mk.injEq] at hm
        obtain ⟨rfl, -⟩ := hm
        rw [Insloc.indexInscriptions_eq] at hii
        split at hii
        · cases hii
        · cases hii
        · rename_i sc hsc
          have htot := scanInputs_total cfg _ _ _ _ _ inputs 0 _ sc hnn hsc
          simp only [Nat.zero_add] at htot
          rw [sum_totalValue cfg hs] at htot
          split at hii
          · cases hii
          · split at hii
            · cases hii
            · rw [hncb] at hii
              obtain ⟨e1, _, _, e4, _, _⟩ := placeTx_carry cfg blk.height blk.time tx _ _ _ _ _ _ hii
              simp only [if_true]
              show ls.ctx.reward = _
              rw [e4, e1, htot]

/-- the running reward of the inscription updater over the non-coinbase transactions of a block -/
theorem indexTxs_reward (cfg : Cfg) (hs : cfg.indexSats = true) (blk : Block) (l : List (Nat × Tx))
    (hl : ∀ p ∈ l, p.1 ≠ 0) (hsp : ∀ p ∈ l, ∀ i ∈ p.2.inputs, i.prev.isSpecial = false)
    (bc bc' : BlockCtx) (hinv : bc.ins.reward = lenR bc.coinbaseInputs)
    (h : indexTxs cfg blk true l bc = .ok bc') : bc'.ins.reward = lenR bc'.coinbaseInputs := by
  induction l generalizing bc with
  | nil => simp only [indexTxs, Outcome.ok.injEq] at h; subst h; exact hinv
  | cons p l ih =>
    obtain ⟨i, tx⟩ := p
    simp only [indexTxs] at h
    split at h
    · cases h
    · cases h
    · rename_i bc1 h1
      refine ih (fun p hp => hl p (by simp [hp])) (fun p hp => hsp p (by simp [hp])) bc1 ?_ h
      have hi : i ≠ 0 := hl (i, tx) (by simp)
      have hspi := hsp (i, tx) (by simp)
      have hnull_of : ∀ op : OutPoint, op.isSpecial = false → op.isNull = false := by
        intro op hop
        cases hn : op.isNull with
        | false => rfl
        | true =>
          have : op.isSpecial = true := by
            unfold OutPoint.isNull at hn; unfold OutPoint.isSpecial
            simp only [Bool.and_eq_true] at hn ⊢
            exact ⟨hn.1, by simp [hn.2]⟩
          rw [this] at hop; cases hop
      have hncb : txIsCoinbase tx = false := by
        unfold txIsCoinbase
        cases htx : tx.inputs with
        | nil => rfl
        | cons i0 rest => exact hnull_of _ (hspi i0 (by simp [htx]))
      -- open `indexTx`
      have eff := indexTx_satEff cfg hs blk true i tx bc bc1 h1
      obtain ⟨b1, inputs, outs, r, htake, hr, -, -, -, -, hcbi, -⟩ := eff.ex
      simp only [hi, if_false] at htake hr hcbi
      rw [indexTx_eq] at h1
      simp only [hi, if_false, htake] at h1
      split at h1
      · cases h1
      · cases h1
      · rename_i bc3 outs3 hm
        obtain rfl := Outcome.ok.inj h1
        have hins : ∀ p ∈ inputs, p.1 ∈ tx.inputs := by
          have key : ∀ (ins : List TxIn) (b : BlockCtx) (acc : List (TxIn × UtxoEntry)) (b' : BlockCtx)
              (acc' : List (TxIn × UtxoEntry)), takeInputEntries cfg ins b acc = .ok (b', acc') →
              ∀ p ∈ acc', p ∈ acc ∨ p.1 ∈ ins := by
            intro ins
            induction ins with
            | nil =>
              intro b acc b' acc' ht p hp
              simp only [takeInputEntries, Outcome.ok.injEq, Prod.mk.injEq] at ht
              rw [← ht.2] at hp; exact Or.inl hp
            | cons i0 rest ih' =>
              intro b acc b' acc' ht p hp
              rw [takeInputEntries_cons] at ht
              split at ht
              · rename_i b2 e0 _
                rcases ih' b2 _ b' acc' ht p hp with h | h
                · rcases List.mem_append.1 h with h | h
                  · exact Or.inl h
                  · simp only [List.mem_singleton] at h; subst h; exact Or.inr (by simp)
                · exact Or.inr (by simp [h])
              · cases ht
              · cases ht
          intro p hp
          rcases key _ _ _ _ _ htake p hp with h | h
          · cases h
          · exact h
        have hnn : ∀ p ∈ inputs, p.1.prev.isNull = false := fun p hp => hnull_of _ (hspi _ (hins p hp))
        have hrew := indexTxMid_reward cfg hs blk true i hi tx b1 inputs bc3 outs3 hnn hncb hm
        simp only [if_true] at hrew
        have hb1 : b1.ins = bc.ins := (takeInputEntries_satEff _ _ _ _ _ _ htake).ins
        obtain ⟨hle, hlo⟩ := indexTransactionSats_sizes _ _ r hr
        show bc3.ins.reward = lenR (_ : BlockCtx).coinbaseInputs
        have hc3 : ({ bc3 with cache := cacheIns tx.txid outs3 bc3.cache } : BlockCtx).coinbaseInputs =
            bc.coinbaseInputs ++ r.leftover := hcbi
        rw [hc3, lenR_append, hlo, hrew, hb1, hinv]

end Ord.Index
