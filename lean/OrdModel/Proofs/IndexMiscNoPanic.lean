import OrdModel.Index.Run
import OrdModel.Index.Valid
import OrdModel.Proofs.IndexMiscAL
/-
C16, part 1: "which failure can a run end in" — the rune updater.

`WithinP S P o`: the outcome `o` is never an `err`, a `panic` only at a site named in `S`, and an
`ok` value satisfies `P`.  Every function of the index model is shown to be `Within residualSites`
on transactions that satisfy the *stateless* rules of `Valid.lean`; the sites that are discharged
here (they do not appear in `residualSites`) are exactly those whose safety follows from the
transaction alone plus local reasoning; the residual ones need a chain invariant.
-/
namespace Ord.Index
open Outcome

def WithinP {α : Type} (S : List String) (P : α → Prop) : Outcome α → Prop
  | .ok a => P a
  | .err _ => False
  | .panic s => s ∈ S

abbrev Within {α : Type} (S : List String) (o : Outcome α) : Prop := WithinP S (fun _ => True) o

theorem WithinP.mono {α : Type} {S : List String} {P Q : α → Prop} {o : Outcome α}
    (h : WithinP S P o) (hpq : ∀ a, P a → Q a) : WithinP S Q o := by
  cases o <;> simp_all [WithinP]

theorem WithinP.within {α : Type} {S : List String} {P : α → Prop} {o : Outcome α}
    (h : WithinP S P o) : Within S o := h.mono (fun _ _ => trivial)

theorem WithinP.of_ok {α : Type} {S : List String} {P : α → Prop} {o : Outcome α} {a : α}
    (h : WithinP S P o) (e : o = .ok a) : P a := by subst e; exact h

theorem WithinP.not_err {α : Type} {S : List String} {P : α → Prop} {o : Outcome α} {e : String}
    (h : WithinP S P o) : o ≠ .err e := by
  intro he; subst he; exact h

theorem WithinP.panic_mem {α : Type} {S : List String} {P : α → Prop} {o : Outcome α} {s : String}
    (h : WithinP S P o) (e : o = .panic s) : s ∈ S := by subst e; exact h

/-- The failure sites of the model that are **not** discharged from the stateless validity rules:
each needs an invariant of the chain (named on the right). -/
def residualSites : List String := [
  -- C17 rows invariant (address index rows exist for table-resident entries)
  "script pubkey entry not found",
  -- UTXO-domain invariant: model utxo ∪ cache = spec UTXO set (`Valid.spendInputs`)
  "assert!(!self.index.have_full_utxo_index())",
  -- value invariant: entry.totalValue = value of the output (`Valid.conserves`)
  "insufficient inputs for transaction outputs",
  "total_input_value - total_output_value",
  "total_input_value - output_value",
  "self.reward - output_value",
  "calculate_sat: unreachable!()",
  -- C04: every sequence number stored anywhere is < entries.length, ids of entries are in id2seq
  "id_to_sequence_number.get(id).unwrap()",
  "sequence_number_to_entry.get(initial).unwrap()",
  "sequence_number_to_entry.get(sequence_number).unwrap()",
  "sequence_number_to_entry.get(parent_sequence_number).unwrap()",
  "sequence_number_to_entry.get(&sequence_number).unwrap()",
  -- counting invariant: cursed + blessed ≤ envelopes seen (`Valid.maxInscriptions`)
  "inscription count try_into::<i32>().unwrap()",
  -- local facts of the inscription updater, not yet proved: output entries have one element per
  -- output; a new flotsam implies id_counter ≥ 1; lost flotsam goes to the null outpoint
  "output_utxo_entries[vout]",
  "division by zero",
  "assert!(Index::is_special_outpoint(satpoint.outpoint))",
  -- C08 supply conservation: every balance and burned total of a rune is < 2^128, burned ids exist
  "lot overflow",
  "entry.burned.checked_add(burned).unwrap()",
  "id_to_entry.get(rune_id).unwrap()"]

/-- the residual sites of the rune updater (all three are C08 supply conservation) -/
def runeResidualSites : List String := [
  "lot overflow",
  "entry.burned.checked_add(burned).unwrap()",
  "id_to_entry.get(rune_id).unwrap()"]

abbrev R := runeResidualSites

theorem runeResidual_subset : ∀ s ∈ runeResidualSites, s ∈ residualSites := by
  intro s hs
  simp only [runeResidualSites, List.mem_cons, List.not_mem_nil, or_false] at hs
  rcases hs with rfl | rfl | rfl <;> simp [residualSites]

instance instLawfulBEqRuneIdC16 : LawfulBEq RuneId where
  eq_of_beq {a b} h := by
    cases a; cases b
    have : (_ == _ && _ == _) = true := h
    simp_all
  rfl {a} := by
    cases a
    show (_ == _ && _ == _) = true
    simp

/-! ### rune updater -/

theorem addLot_within (m : Balances) (id : RuneId) (a : Nat) : Within R (addLot m id a) := by
  simp only [addLot]
  split
  · trivial
  · simp [WithinP, runeResidualSites]

/-- an input cannot make `tx_commits_to_rune` fail: it carries no tapscript push at all, or the
node knows the confirmation height of the output it spends and that is not in the future -/
def commitSafe (height : Nat) (i : TxIn) : Prop :=
  i.pushes = [] ∨ ∃ c, i.confHeight = some c ∧ c ≤ height

theorem txCommitsToRune_within (height rune : Nat) (ins : List TxIn)
    (h : ∀ i ∈ ins, commitSafe height i) : Within R (txCommitsToRune height rune ins) := by
  induction ins with
  | nil => simp [txCommitsToRune, WithinP]
  | cons i rest ih =>
    have ih' := ih (fun j hj => h j (List.mem_cons_of_mem _ hj))
    simp only [txCommitsToRune]
    split
    · rename_i hany
      split
      · exact ih'
      · rcases h i List.mem_cons_self with hp | ⟨c, hc, hle⟩
        · rw [hp] at hany; simp at hany
        · rw [hc]
          simp only
          split
          · omega
          · split
            · trivial
            · exact ih'
    · exact ih'

theorem etched_within (st : State) (blk : Block) (txIndex : Nat) (tx : Tx) (art : Artifact)
    (h : ∀ i ∈ tx.inputs, commitSafe blk.height i) : Within R (etched st blk txIndex tx art) := by
  unfold etched
  simp only []
  repeat' split
  all_goals first
    | trivial
    | (rename_i heq; exact (txCommitsToRune_within _ _ _ h).panic_mem heq)
    | (rename_i heq; exact (txCommitsToRune_within _ _ _ h).not_err heq)

theorem takeInputs_addAll_within (bs un : Balances) : Within R (takeInputs.addAll bs un) := by
  induction bs generalizing un with
  | nil => simp [takeInputs.addAll, WithinP]
  | cons p more ih =>
    obtain ⟨id, b⟩ := p
    simp only [takeInputs.addAll]
    have := addLot_within un id b
    split <;> simp_all [WithinP]

theorem takeInputs_within (ins : List TxIn) (st : State) (un : Balances) : Within R (takeInputs ins st un) := by
  induction ins generalizing st un with
  | nil => simp [takeInputs, WithinP]
  | cons i rest ih =>
    simp only [takeInputs]
    split
    · exact ih _ _
    · rename_i bs _
      have := takeInputs_addAll_within bs un
      split <;> simp_all [WithinP]

/-- postcondition of the allocation functions: the per-output table keeps its length -/
def SameLen (n : Nat) (r : Balances × Allocated) : Prop := r.2.length = n

theorem allocate_within (un : Balances) (alloc : Allocated) (id : RuneId) (amount output : Nat)
    (hamt : amount ≤ (AL.get un id).getD 0) (hout : output < alloc.length) :
    WithinP R (fun r => SameLen alloc.length r ∧ (AL.get r.1 id).getD 0 = (AL.get un id).getD 0 - amount)
      (allocate un alloc id amount output) := by
  unfold allocate
  split
  · simp_all [WithinP, SameLen]
  · simp only
    split
    · omega
    · have hsome : alloc[output]? = some alloc[output] := by simp [hout]
      rw [hsome]
      simp only
      have := addLot_within alloc[output] id amount
      split <;> simp_all [WithinP, SameLen, AL.get_set_self]

theorem allocateEach_within (id : RuneId) (l : List (Nat × Nat)) (un : Balances) (alloc : Allocated)
    (hsum : (l.map (·.1)).sum ≤ (AL.get un id).getD 0) (hout : ∀ p ∈ l, p.2 < alloc.length) :
    WithinP R (SameLen alloc.length) (allocateEach id l un alloc) := by
  induction l generalizing un alloc with
  | nil => simp [allocateEach, WithinP, SameLen]
  | cons p rest ih =>
    obtain ⟨amount, output⟩ := p
    simp only [List.map_cons, List.sum_cons] at hsum
    have h1 := allocate_within un alloc id amount output (by omega) (hout _ List.mem_cons_self)
    simp only [allocateEach]
    split
    · rename_i un' alloc' heq
      rw [heq] at h1
      obtain ⟨hl, hb⟩ := h1
      simp only [SameLen] at hl
      have := ih un' alloc' (by rw [hb]; omega) (fun p hp => by rw [hl]; exact hout p (List.mem_cons_of_mem _ hp))
      rw [hl] at this
      exact this
    · rename_i s heq; rw [heq] at h1; exact h1
    · rename_i e heq; rw [heq] at h1; exact h1

theorem allocateCapped_within (id : RuneId) (amount : Nat) (l : List Nat) (un : Balances) (alloc : Allocated)
    (hout : ∀ o ∈ l, o < alloc.length) :
    WithinP R (SameLen alloc.length) (allocateCapped id amount l un alloc) := by
  induction l generalizing un alloc with
  | nil => simp [allocateCapped, WithinP, SameLen]
  | cons o rest ih =>
    have h1 := allocate_within un alloc id (min amount ((AL.get un id).getD 0)) o (by omega) (hout _ List.mem_cons_self)
    simp only [allocateCapped]
    split
    · rename_i un' alloc' heq
      rw [heq] at h1
      obtain ⟨hl, _⟩ := h1
      simp only [SameLen] at hl
      have := ih un' alloc' (fun p hp => by rw [hl]; exact hout p (List.mem_cons_of_mem _ hp))
      rw [hl] at this
      exact this
    · rename_i s heq; rw [heq] at h1; exact h1
    · rename_i e heq; rw [heq] at h1; exact h1

theorem mem_enumFrom {α : Type} (l : List α) (k i : Nat) (a : α) (h : (i, a) ∈ enumFrom k l) :
    k ≤ i ∧ i < k + l.length := by
  induction l generalizing k with
  | nil => simp [enumFrom] at h
  | cons b bs ih =>
    simp only [enumFrom, List.mem_cons, Prod.mk.injEq] at h
    rcases h with ⟨rfl, _⟩ | h
    · simp
    · have := ih (k + 1) h
      simp only [List.length_cons]
      omega

theorem enumFrom_length {α : Type} (l : List α) (k : Nat) : (enumFrom k l).length = l.length := by
  induction l generalizing k with
  | nil => rfl
  | cons b bs ih => simp [enumFrom, ih]

/-- the even split `balance / n` (+1 for the first `balance % n`) never hands out more than the balance -/
theorem split_sum_le (q r : Nat) (dests : List Nat) (k : Nat) :
    (((enumFrom k dests).map (fun (p : Nat × Nat) => (if p.1 < r then q + 1 else q, p.2))).map (·.1)).sum
      ≤ q * dests.length + (r - k) := by
  induction dests generalizing k with
  | nil => simp [enumFrom]
  | cons d ds ih =>
    have := ih (k + 1)
    simp only [enumFrom, List.map_cons, List.sum_cons, List.length_cons, Nat.mul_succ]
    split <;> omega

theorem applyEdict_within (tx : Tx) (etchedId : Option RuneId) (ed : Edict) (un : Balances) (alloc : Allocated)
    (hed : ed.output ≤ tx.outputs.length) (hlen : alloc.length = tx.outputs.length) :
    WithinP R (SameLen tx.outputs.length) (applyEdict tx etchedId ed un alloc) := by
  unfold applyEdict
  simp only
  split
  · omega
  · split
    · simp [WithinP, SameLen, hlen]
    · rename_i id _
      split
      · simp [WithinP, SameLen, hlen]
      · rename_i balance hbal
        have hdests : ∀ o ∈ (enumFrom 0 tx.outputs).filterMap (fun (p : Nat × TxOut) => if p.2.opReturn then none else some p.1),
            o < alloc.length := by
          intro o ho
          simp only [List.mem_filterMap] at ho
          obtain ⟨⟨i, t⟩, hm, hv⟩ := ho
          have := mem_enumFrom _ _ _ _ hm
          split at hv
          · cases hv
          · simp only [Option.some.injEq] at hv
            omega
        split
        · split
          · simp [WithinP, SameLen, hlen]
          · rename_i hne
            split
            · have h := allocateEach_within id
                ((enumFrom 0 ((enumFrom 0 tx.outputs).filterMap (fun (p : Nat × TxOut) => if p.2.opReturn then none else some p.1))).map
                  (fun (p : Nat × Nat) => (if p.1 < balance % ((enumFrom 0 tx.outputs).filterMap (fun (p : Nat × TxOut) => if p.2.opReturn then none else some p.1)).length
                    then balance / ((enumFrom 0 tx.outputs).filterMap (fun (p : Nat × TxOut) => if p.2.opReturn then none else some p.1)).length + 1
                    else balance / ((enumFrom 0 tx.outputs).filterMap (fun (p : Nat × TxOut) => if p.2.opReturn then none else some p.1)).length, p.2)))
                un alloc
                (by
                  have h1 := split_sum_le (balance / ((enumFrom 0 tx.outputs).filterMap (fun (p : Nat × TxOut) => if p.2.opReturn then none else some p.1)).length)
                    (balance % ((enumFrom 0 tx.outputs).filterMap (fun (p : Nat × TxOut) => if p.2.opReturn then none else some p.1)).length)
                    ((enumFrom 0 tx.outputs).filterMap (fun (p : Nat × TxOut) => if p.2.opReturn then none else some p.1)) 0
                  have h2 := Nat.div_add_mod balance ((enumFrom 0 tx.outputs).filterMap (fun (p : Nat × TxOut) => if p.2.opReturn then none else some p.1)).length
                  rw [hbal]
                  simp only [Option.getD_some]
                  rw [Nat.mul_comm] at h2
                  omega)
                (by
                  intro p hp
                  simp only [List.mem_map] at hp
                  obtain ⟨⟨i, o⟩, hm, rfl⟩ := hp
                  have hm' := mem_enumFrom _ _ _ _ hm
                  -- `o` is an element of dests
                  have : o ∈ (enumFrom 0 tx.outputs).filterMap (fun (p : Nat × TxOut) => if p.2.opReturn then none else some p.1) := by
                    clear hm'
                    generalize (enumFrom 0 tx.outputs).filterMap (fun (p : Nat × TxOut) => if p.2.opReturn then none else some p.1) = ds at hm
                    generalize (0 : Nat) = k at hm
                    induction ds generalizing k with
                    | nil => simp [enumFrom] at hm
                    | cons d ds ih =>
                      simp only [enumFrom, List.mem_cons, Prod.mk.injEq] at hm
                      rcases hm with ⟨_, rfl⟩ | hm
                      · simp
                      · exact List.mem_cons_of_mem _ (ih _ hm)
                  exact hdests o this)
              rw [hlen] at h
              exact h
            · have h := allocateCapped_within id ed.amount _ un alloc hdests
              rw [hlen] at h
              exact h
        · rename_i hne
          have h := allocate_within un alloc id (if ed.amount = 0 then balance else min ed.amount balance) ed.output
            (by rw [hbal]; simp only [Option.getD_some]; split <;> omega) (by omega)
          rw [hlen] at h
          exact h.mono (fun _ hp => hp.1)

theorem applyEdicts_within (tx : Tx) (etchedId : Option RuneId) (eds : List Edict) (un : Balances) (alloc : Allocated)
    (hed : ∀ ed ∈ eds, ed.output ≤ tx.outputs.length) (hlen : alloc.length = tx.outputs.length) :
    WithinP R (SameLen tx.outputs.length) (applyEdicts tx etchedId eds un alloc) := by
  induction eds generalizing un alloc with
  | nil => simp [applyEdicts, WithinP, SameLen, hlen]
  | cons ed rest ih =>
    have h1 := applyEdict_within tx etchedId ed un alloc (hed _ List.mem_cons_self) hlen
    simp only [applyEdicts]
    split
    · rename_i un' alloc' heq
      rw [heq] at h1
      exact ih un' alloc' (fun e he => hed e (List.mem_cons_of_mem _ he)) h1
    · rename_i s heq; rw [heq] at h1; exact h1
    · rename_i e heq; rw [heq] at h1; exact h1

theorem addAllTo_within (src acc : Balances) (skip : Bool) : Within R (addAllTo src acc skip) := by
  induction src generalizing acc with
  | nil => simp [addAllTo, WithinP]
  | cons p rest ih =>
    obtain ⟨id, b⟩ := p
    simp only [addAllTo]
    split
    · exact ih _
    · have := addLot_within acc id b
      split <;> simp_all [WithinP]

theorem writeOutputs_within (blk : Block) (tx : Tx) (l : List (Nat × Balances)) (st : State) (burned : Balances)
    (evs : List Event) : Within R (writeOutputs blk tx l st burned evs) := by
  induction l generalizing st burned evs with
  | nil => simp [writeOutputs, WithinP]
  | cons p rest ih =>
    obtain ⟨vout, bs⟩ := p
    simp only [writeOutputs]
    repeat' split
    all_goals first
      | exact ih _ _ _
      | (rename_i heq; exact (addAllTo_within _ _ _).panic_mem heq)
      | (rename_i heq; exact (addAllTo_within _ _ _).not_err heq)

theorem flushBurned_within (bb : Balances) (st : State) : Within R (flushBurned bb st) := by
  induction bb generalizing st with
  | nil => simp [flushBurned, WithinP]
  | cons p rest ih =>
    obtain ⟨id, b⟩ := p
    simp only [flushBurned]
    split
    · simp [WithinP, runeResidualSites]
    · split
      · simp [WithinP, runeResidualSites]
      · exact ih _

/-! ### `indexRunesTx`, decomposed into its phases (definitionally the same function) -/

/-- the mint of `indexRunesTx` -/
def runesMint (st0 : State) (un0 : Balances) (blk : Block) (tx : Tx) (mintId : Option RuneId) :
    State × Outcome Balances × List Event :=
  match mintId with
  | none => (st0, .ok un0, [])
  | some id =>
    match mint st0 blk.height id with
    | (s, none) => (s, .ok un0, [])
    | (s, some amount) => (s, addLot un0 id amount, [.runeMinted amount blk.height id tx.txid])

/-- premine + edicts of `indexRunesTx` -/
def runesAfterEdicts (tx : Tx) (art : Artifact) (et : Option (RuneId × Nat)) (un1 : Balances) (alloc0 : Allocated) :
    Outcome (Balances × Allocated) :=
  match art with
  | .cenotaph .. => .ok (un1, alloc0)
  | .runestone edicts etching _ _ =>
    let un2O : Outcome Balances := match et with
      | some (id, _) => addLot un1 id ((etching.bind (·.premine)).getD 0)
      | none => .ok un1
    match un2O with
    | .panic s => .panic s
    | .err e => .err e
    | .ok un2 => applyEdicts tx (et.map (·.1)) edicts un2 alloc0

/-- mint, etching, edicts (the `phase1` of `indexRunesTx`) -/
def runesPhase1 (st0 : State) (un0 : Balances) (alloc0 : Allocated) (blk : Block) (txIndex : Nat) (tx : Tx) :
    Outcome (State × Balances × Allocated × List Event) :=
  match tx.artifact with
  | none => .ok (st0, un0, alloc0, [])
  | some art =>
    match runesMint st0 un0 blk tx (match art with | .runestone _ _ m _ => m | .cenotaph _ m => m) with
    | (st1, un1O, ev1) =>
    match un1O with
    | .panic s => .panic s
    | .err e => .err e
    | .ok un1 =>
      match etched st1 blk txIndex tx art with
      | .panic s => .panic s
      | .err e => .err e
      | .ok (st2, et) =>
        match runesAfterEdicts tx art et un1 alloc0 with
        | .panic s => .panic s
        | .err e => .err e
        | .ok (un3, alloc1) =>
          match et with
          | some (id, rune) =>
            let (st3, ev2) := createRuneEntry st2 blk tx art id rune
            .ok (st3, un3, alloc1, ev1 ++ ev2)
          | none => .ok (st2, un3, alloc1, ev1)

/-- the leftovers (the `phase2` of `indexRunesTx`) -/
def runesPhase2 (tx : Tx) (un : Balances) (alloc : Allocated) : Outcome (Allocated × Balances) :=
  match tx.artifact with
  | some (.cenotaph ..) =>
    match addAllTo un [] false with
    | .ok b => .ok (alloc, b)
    | .panic s => .panic s
    | .err e => .err e
  | _ =>
    let pointer : Option Nat := match tx.artifact with
      | some (.runestone _ _ _ p) => p
      | _ => none
    let firstNonOpReturn := ((enumFrom 0 tx.outputs).find? (fun (_, o) => !o.opReturn)).map (·.1)
    match pointer with
    | some p =>
      if p ≥ alloc.length then .panic "assert!(pointer < allocated.len())"
      else match addAllTo un (alloc[p]?.getD []) true with
        | .ok m => .ok (alloc.set p m, [])
        | .panic s => .panic s
        | .err e => .err e
    | none =>
      match firstNonOpReturn with
      | some v =>
        match addAllTo un (alloc[v]?.getD []) true with
        | .ok m => .ok (alloc.set v m, [])
        | .panic s => .panic s
        | .err e => .err e
      | none =>
        match addAllTo un [] true with
        | .ok b => .ok (alloc, b)
        | .panic s => .panic s
        | .err e => .err e

theorem indexRunesTx_eq (st : State) (blk : Block) (txIndex : Nat) (tx : Tx) (blockBurned : Balances) :
    indexRunesTx st blk txIndex tx blockBurned =
      match takeInputs tx.inputs st [] with
      | .panic s => .panic s
      | .err e => .err e
      | .ok (st0, un0) =>
        match runesPhase1 st0 un0 (tx.outputs.map (fun _ => [])) blk txIndex tx with
        | .panic s => .panic s
        | .err e => .err e
        | .ok (st3, un, alloc, evs) =>
          match runesPhase2 tx un alloc with
          | .panic s => .panic s
          | .err e => .err e
          | .ok (alloc2, burned0) =>
            match writeOutputs blk tx (enumFrom 0 alloc2) st3 burned0 evs with
            | .panic s => .panic s
            | .err e => .err e
            | .ok (st4, burned, evs2) =>
              match addAllTo burned blockBurned false with
              | .panic s => .panic s
              | .err e => .err e
              | .ok bb =>
                .ok (st4, bb, evs2 ++ burned.map (fun (id, a) => Event.runeBurned a blk.height id tx.txid)) := rfl

theorem runesMint_within (st0 : State) (un0 : Balances) (blk : Block) (tx : Tx) (mintId : Option RuneId) :
    Within R (runesMint st0 un0 blk tx mintId).2.1 := by
  unfold runesMint
  repeat' split
  all_goals first | trivial | exact addLot_within _ _ _

theorem runesAfterEdicts_within (tx : Tx) (art : Artifact) (et : Option (RuneId × Nat)) (un1 : Balances)
    (alloc0 : Allocated) (hlen : alloc0.length = tx.outputs.length)
    (hed : ∀ edicts e m p, art = .runestone edicts e m p → ∀ ed ∈ edicts, ed.output ≤ tx.outputs.length) :
    WithinP R (SameLen tx.outputs.length) (runesAfterEdicts tx art et un1 alloc0) := by
  unfold runesAfterEdicts
  split
  · simp [WithinP, SameLen, hlen]
  · rename_i edicts etching m p
    have hed' := hed edicts etching m p rfl
    simp only []
    split
    · rename_i s heq
      split at heq
      · exact (addLot_within _ _ _).panic_mem heq
      · cases heq
    · rename_i s heq
      split at heq
      · exact (addLot_within _ _ _).not_err heq
      · cases heq
    · exact applyEdicts_within tx _ edicts _ alloc0 hed' hlen

theorem runesPhase1_within (st0 : State) (un0 : Balances) (alloc0 : Allocated) (blk : Block) (txIndex : Nat) (tx : Tx)
    (hlen : alloc0.length = tx.outputs.length)
    (hcommit : ∀ i ∈ tx.inputs, commitSafe blk.height i)
    (hed : Valid.edictsInRange tx = true) :
    WithinP R (fun r => r.2.2.1.length = tx.outputs.length) (runesPhase1 st0 un0 alloc0 blk txIndex tx) := by
  unfold runesPhase1
  split
  · simpa [WithinP] using hlen
  · rename_i art hart
    have hed' : ∀ edicts e m p, art = .runestone edicts e m p → ∀ ed ∈ edicts, ed.output ≤ tx.outputs.length := by
      intro edicts e m p hA ed hmem
      subst hA
      simp only [Valid.edictsInRange, hart, List.all_eq_true, Bool.and_eq_true, decide_eq_true_eq] at hed
      exact (hed ed hmem).1
    split
    rename_i st1 un1O ev1 hmint
    have hm : Within R un1O := by
      show Within R (st1, un1O, ev1).2.1
      rw [← hmint]
      exact runesMint_within _ _ _ _ _
    split
    · rename_i heq; exact hm.panic_mem rfl
    · rename_i heq; exact hm.not_err rfl
    · rename_i un1
      have he := etched_within st1 blk txIndex tx art hcommit
      split
      · rename_i heq; exact he.panic_mem heq
      · rename_i heq; exact he.not_err heq
      · rename_i st2 et _
        have ha := runesAfterEdicts_within tx art et un1 alloc0 hlen hed'
        split
        · rename_i heq; exact ha.panic_mem heq
        · rename_i heq; exact ha.not_err heq
        · rename_i un3 alloc1 heq
          have hl := ha.of_ok heq
          simp only [SameLen] at hl
          split <;> simpa [WithinP] using hl

theorem runesPhase2_within (tx : Tx) (un : Balances) (alloc : Allocated)
    (hlen : alloc.length = tx.outputs.length) (hptr : Valid.pointerInRange tx = true) :
    Within R (runesPhase2 tx un alloc) := by
  unfold runesPhase2
  split
  · have := addAllTo_within un [] false
    split <;> simp_all [WithinP]
  · simp only []
    split
    · rename_i p hp
      split
      · -- the pointer assert cannot fire
        rename_i hge
        exfalso
        split at hp
        · rename_i a b c p' hart
          simp only [Valid.pointerInRange, hart] at hptr
          subst hp
          simp at hptr
          omega
        · cases hp
      · have := addAllTo_within un (alloc[p]?.getD []) true
        split <;> simp_all [WithinP]
    · split
      · rename_i v _
        have := addAllTo_within un (alloc[v]?.getD []) true
        split <;> simp_all [WithinP]
      · have := addAllTo_within un [] true
        split <;> simp_all [WithinP]

theorem indexRunesTx_within (st : State) (blk : Block) (txIndex : Nat) (tx : Tx) (bb : Balances)
    (hcommit : ∀ i ∈ tx.inputs, commitSafe blk.height i)
    (hed : Valid.edictsInRange tx = true) (hptr : Valid.pointerInRange tx = true) :
    Within R (indexRunesTx st blk txIndex tx bb) := by
  rw [indexRunesTx_eq]
  have h0 := takeInputs_within tx.inputs st []
  split
  · rename_i heq; exact h0.panic_mem heq
  · rename_i heq; exact h0.not_err heq
  · rename_i st0 un0 _
    have h1 := runesPhase1_within st0 un0 (tx.outputs.map (fun _ => [])) blk txIndex tx (by simp) hcommit hed
    split
    · rename_i heq; exact h1.panic_mem heq
    · rename_i heq; exact h1.not_err heq
    · rename_i st3 un alloc evs heq
      have hl := h1.of_ok heq
      simp only at hl
      have h2 := runesPhase2_within tx un alloc hl hptr
      split
      · rename_i heq; exact h2.panic_mem heq
      · rename_i heq; exact h2.not_err heq
      · rename_i alloc2 burned0 _
        have h3 := writeOutputs_within blk tx (enumFrom 0 alloc2) st3 burned0 evs
        split
        · rename_i heq; exact h3.panic_mem heq
        · rename_i heq; exact h3.not_err heq
        · rename_i st4 burned evs2 _
          have h4 := addAllTo_within burned bb false
          split
          · rename_i heq; exact h4.panic_mem heq
          · rename_i heq; exact h4.not_err heq
          · trivial

theorem indexRunesBlock_go_within (blk : Block) (l : List (Nat × Tx)) (st : State) (bb : Balances) (evs : List Event)
    (h : ∀ p ∈ l, (∀ i ∈ p.2.inputs, commitSafe blk.height i) ∧ Valid.edictsInRange p.2 = true ∧ Valid.pointerInRange p.2 = true) :
    Within R (indexRunesBlock.go blk l st bb evs) := by
  induction l generalizing st bb evs with
  | nil => simp [indexRunesBlock.go, WithinP]
  | cons p rest ih =>
    obtain ⟨i, tx⟩ := p
    obtain ⟨hc, he, hp⟩ := h (i, tx) List.mem_cons_self
    have h1 := indexRunesTx_within st blk i tx bb hc he hp
    simp only [indexRunesBlock.go]
    split
    · rename_i heq; exact h1.panic_mem heq
    · rename_i heq; exact h1.not_err heq
    · exact ih _ _ _ (fun q hq => h q (List.mem_cons_of_mem _ hq))

/-- the stateless facts about a transaction that the rune updater needs -/
def RuneSafe (height : Nat) (tx : Tx) : Prop :=
  (∀ i ∈ tx.inputs, commitSafe height i) ∧ Valid.edictsInRange tx = true ∧ Valid.pointerInRange tx = true

theorem mem_enumFrom_snd {α : Type} (l : List α) (k i : Nat) (a : α) (h : (i, a) ∈ enumFrom k l) : a ∈ l := by
  induction l generalizing k with
  | nil => simp [enumFrom] at h
  | cons b bs ih =>
    simp only [enumFrom, List.mem_cons, Prod.mk.injEq] at h
    rcases h with ⟨_, rfl⟩ | h
    · simp
    · exact List.mem_cons_of_mem _ (ih _ h)

theorem indexRunesBlock_within (st : State) (blk : Block) (h : ∀ tx ∈ blk.txs, RuneSafe blk.height tx) :
    Within R (indexRunesBlock st blk) := by
  unfold indexRunesBlock
  have h1 := indexRunesBlock_go_within blk (enumFrom 0 blk.txs) st [] []
    (fun p hp => h p.2 (mem_enumFrom_snd _ _ p.1 p.2 hp))
  split
  · rename_i heq; exact h1.panic_mem heq
  · rename_i heq; exact h1.not_err heq
  · rename_i st1 bb evs _
    have h2 := flushBurned_within bb st1
    split
    · rename_i heq; exact h2.panic_mem heq
    · rename_i heq; exact h2.not_err heq
    · trivial

end Ord.Index
