import OrdModel.Index.Store
import OrdModel.Proofs.IndexMiscAL
/-
C12 (schedule independence), definitions shared by the `IndexSched*` proof files.

* `Tri`/`tri`/`W`: the three cache-affected tables (`utxo`, `seq2sp`, `script2out`) of a `State`
  as one value, and the setter that replaces them.  Everything the block pipeline does besides
  input lookup and `flushCache` neither reads nor writes them ("commutes with `W`").
* `pushOpt`/`PushHom`/`tctx`/`tls`: the entries of the two special outpoints held in `InsCtx`
  are only ever appended to (`pushIns (getD empty)`); a transformer of them that commutes with
  such pushes commutes with the whole inscription pass.
* `State.Equiv`: extensional equality of index content.
-/
namespace Ord.Index.Sched
open Ord Ord.Index Outcome

/-- map over an `Outcome` -/
def omap {α β : Type} (f : α → β) : Outcome α → Outcome β
  | .ok a => .ok (f a)
  | .err e => .err e
  | .panic s => .panic s

@[simp] theorem omap_ok {α β : Type} (f : α → β) (a : α) : omap f (.ok a) = .ok (f a) := rfl
@[simp] theorem omap_err {α β : Type} (f : α → β) (e : String) : omap f (.err e : Outcome α) = .err e := rfl
@[simp] theorem omap_panic {α β : Type} (f : α → β) (e : String) : omap f (.panic e : Outcome α) = .panic e := rfl

/-- the three tables the UTXO cache is flushed into -/
structure Tri where
  utxo : List (OutPoint × UtxoEntry)
  seq2sp : List (Nat × SatPoint)
  script2out : List (List UInt8 × OutPoint)

def tri (st : State) : Tri := ⟨st.utxo, st.seq2sp, st.script2out⟩

/-- replace the three cache-affected tables -/
def W (st : State) (x : Tri) : State :=
  { st with utxo := x.utxo, seq2sp := x.seq2sp, script2out := x.script2out }

@[simp] theorem W_tri (st : State) : W st (tri st) = st := rfl
@[simp] theorem tri_W (st : State) (x : Tri) : tri (W st x) = x := rfl
@[simp] theorem W_W (st : State) (x y : Tri) : W (W st x) y = W st y := rfl

/-- everything but the three cache-affected tables -/
def core (st : State) : State := W st ⟨[], [], []⟩

theorem core_W (st : State) (x : Tri) : core (W st x) = core st := rfl

theorem eq_W_of_core {a b : State} (h : core a = core b) : b = W a (tri b) := by
  have : W (core a) (tri b) = W (core b) (tri b) := by rw [h]
  simpa [core] using this.symm

/-- `utxo_cache.entry(special).or_insert(empty)` followed by `push_inscription` -/
def pushOpt (n : Option UtxoEntry) (seq off : Nat) : Option UtxoEntry :=
  some (pushIns (n.getD UtxoEntry.empty) seq off)

/-- a transformer of an optional special-outpoint entry that commutes with pushes -/
def PushHom (g : Option UtxoEntry → Option UtxoEntry) : Prop :=
  ∀ n seq off, g (pushOpt n seq off) = pushOpt (g n) seq off

def tctx (gn gu : Option UtxoEntry → Option UtxoEntry) (c : InsCtx) : InsCtx :=
  { c with nullEntry := gn c.nullEntry, unboundEntry := gu c.unboundEntry }

def tls (x : Tri) (gn gu : Option UtxoEntry → Option UtxoEntry) (ls : LocState) : LocState :=
  { st := W ls.st x, ctx := tctx gn gu ls.ctx, outs := ls.outs }

/-- extensional equality of index content: the three cache-affected tables as finite maps /
a finite set (their list order depends on flush order), every other field syntactically -/
structure Equiv (a b : State) : Prop where
  core : core a = core b
  utxo : ∀ k, AL.get a.utxo k = AL.get b.utxo k
  seq2sp : ∀ k, AL.get a.seq2sp k = AL.get b.seq2sp k
  script2out : ∀ x, x ∈ a.script2out ↔ x ∈ b.script2out

theorem Equiv.refl (a : State) : Equiv a a := ⟨rfl, fun _ => rfl, fun _ => rfl, fun _ => Iff.rfl⟩
theorem Equiv.symm {a b : State} (h : Equiv a b) : Equiv b a :=
  ⟨h.core.symm, fun k => (h.utxo k).symm, fun k => (h.seq2sp k).symm, fun x => (h.script2out x).symm⟩
theorem Equiv.trans {a b c : State} (h1 : Equiv a b) (h2 : Equiv b c) : Equiv a c :=
  ⟨h1.core.trans h2.core, fun k => (h1.utxo k).trans (h2.utxo k), fun k => (h1.seq2sp k).trans (h2.seq2sp k),
   fun x => (h1.script2out x).trans (h2.script2out x)⟩

/-- no duplicate keys / rows in the three tables: the lists are finite maps / a finite set -/
structure TablesWF (st : State) : Prop where
  utxo : (AL.keys st.utxo).Nodup
  seq2sp : (AL.keys st.seq2sp).Nodup
  script2out : st.script2out.Nodup

end Ord.Index.Sched
