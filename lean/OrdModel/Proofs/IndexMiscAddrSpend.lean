import OrdModel.Proofs.IndexMiscAddrChain
/-
Group `ixmisc`, C17: the domain of OUTPOINT_TO_UTXO_ENTRY is exactly the set of outputs the chain
created and has not spent.
-/
namespace Ord.Index
open Outcome

/-- shape of one `indexTx` step as far as the UTXO table and cache are concerned -/
theorem indexTx_shape (cfg : Cfg) (blk : Block) (insOn : Bool) (off : Nat) (tx : Tx) (bc bc' : BlockCtx)
    (h : indexTx cfg blk insOn off tx bc = .ok bc') :
    ∃ (bc1 : BlockCtx) (inputs : List (TxIn × UtxoEntry)) (outs : List UtxoEntry),
      ((off = 0 ∧ bc1 = bc) ∨ (off ≠ 0 ∧ takeInputEntries cfg tx.inputs bc [] = .ok (bc1, inputs))) ∧
      bc'.st.utxo = bc1.st.utxo ∧ outs.length = tx.outputs.length ∧
      bc'.cache = cacheOuts tx.txid (enumFrom 0 outs) bc1.cache := by
  unfold indexTx at h
  extract_lets inputsO at h
  have h1 : ∀ q, inputsO = .ok q → (off = 0 ∧ q.1 = bc) ∨ (off ≠ 0 ∧ takeInputEntries cfg tx.inputs bc [] = .ok q) := by
    intro q hq
    simp only [inputsO] at hq
    split at hq
    · rename_i h0; obtain rfl := Outcome.ok.inj hq; exact Or.inl ⟨h0, rfl⟩
    · rename_i h0; exact Or.inr ⟨h0, hq⟩
  clear_value inputsO
  split at h
  · simp at h
  · simp at h
  · rename_i bc1 inputs
    have i1 := h1 _ rfl
    extract_lets inRanges src satsO at h
    have h2 : ∀ q, satsO = .ok q → q.1.st.utxo = bc1.st.utxo ∧ q.1.cache = bc1.cache ∧ q.2.1.length = tx.outputs.length := by
      intro q hq
      simp only [satsO] at hq
      split at hq
      · split at hq
        · simp at hq
        · rename_i r hr
          obtain rfl := Outcome.ok.inj hq
          refine ⟨?_, ?_, ?_⟩
          · simp only []; split <;> rfl
          · simp only []; split <;> rfl
          · exact PW_length (PW_sats tx.outputs 0 inRanges r hr)
      · obtain rfl := Outcome.ok.inj hq
        exact ⟨rfl, rfl, PW_length (PW_values tx.outputs)⟩
    clear_value satsO
    split at h
    · simp at h
    · simp at h
    · rename_i bc2 outs1 inRanges'
      obtain ⟨u2, c2, l1⟩ := h2 _ rfl
      simp only at u2 c2 l1
      extract_lets outs2 insO at h
      have l2 : outs2.length = tx.outputs.length := by
        simp only [outs2]
        split
        · simp [l1]
        · exact l1
      have h3 : ∀ q, insO = .ok q → q.1.st.utxo = bc1.st.utxo ∧ q.1.cache = bc1.cache ∧ q.2.length = tx.outputs.length := by
        intro q hq
        simp only [insO] at hq
        split at hq
        · split at hq
          · simp at hq
          · simp at hq
          · rename_i ls hls
            obtain rfl := Outcome.ok.inj hq
            obtain ⟨f1, _, f3, _⟩ := indexInscriptions_frame _ _ _ _ _ _ _ _ hls
            refine ⟨f1.trans u2, c2, ?_⟩
            have := congrArg List.length f3
            simp only [List.length_map] at this
            exact this.trans l2
        · obtain rfl := Outcome.ok.inj hq; exact ⟨u2, c2, l2⟩
      clear_value insO outs2
      split at h
      · simp at h
      · simp at h
      · rename_i bc3 outs3
        obtain ⟨u3, c3, l3⟩ := h3 _ rfl
        simp only at u3 c3 l3
        extract_lets cache at h
        obtain rfl := Outcome.ok.inj h
        exact ⟨bc1, inputs, outs3, i1, u3, l3, by show cacheOuts _ _ bc3.cache = _; rw [c3]⟩

/-- bookkeeping of the outpoints spent so far (`S`) against the table and the cache -/
structure SpendInv (txs : List Tx) (S : List OutPoint) (utxo : List (OutPoint × UtxoEntry)) (cache : Cache) : Prop where
  gone : ∀ o ∈ S, o.isSpecial = false → AL.get utxo o = none ∧ AL.get cache o = none
  known : ∀ o ∈ S, o.isSpecial = false → o.txid ∈ txs.map (·.txid)
  present : ∀ tx ∈ txs, ∀ v, v < tx.outputs.length →
    (⟨tx.txid, v⟩ : OutPoint) ∈ S ∨ (AL.get utxo ⟨tx.txid, v⟩).isSome = true ∨ (AL.get cache ⟨tx.txid, v⟩).isSome = true

theorem EntryOk.txid_mem {cfg : Cfg} {txs : List Tx} {o : OutPoint} {e : UtxoEntry} (h : EntryOk cfg txs o e) :
    o.txid ∈ txs.map (·.txid) := by
  obtain ⟨_, ⟨tx, htx, h1, _⟩, _, _⟩ := h
  exact List.mem_map.2 ⟨tx, htx, h1⟩

theorem takeInputEntries_spend (cfg : Cfg) (ha : cfg.indexAddresses = true) (pre seen : List Tx)
    (ins : List TxIn) (bc : BlockCtx) (acc : List (TxIn × UtxoEntry)) (r : BlockCtx × List (TxIn × UtxoEntry))
    (S : List OutPoint) (hinv : BlockInv cfg pre seen bc) (hs : SpendInv (pre ++ seen) S bc.st.utxo bc.cache)
    (h : takeInputEntries cfg ins bc acc = .ok r) :
    SpendInv (pre ++ seen) (S ++ ins.map (·.prev)) r.1.st.utxo r.1.cache := by
  induction ins generalizing bc acc S with
  | nil => simp only [takeInputEntries, Outcome.ok.injEq] at h; subst h; simpa using hs
  | cons i rest ih =>
    have hone : ∀ bc1 acc1, takeInputEntries cfg [i] bc acc = .ok (bc1, acc1) → BlockInv cfg pre seen bc1 :=
      fun bc1 acc1 h1 => takeInputEntries_inv cfg ha pre seen [i] bc acc (bc1, acc1) hinv h1
    have hS : S ++ (i :: rest).map (·.prev) = (S ++ [i.prev]) ++ rest.map (·.prev) := by simp
    rw [hS]
    simp only [takeInputEntries] at h
    split at h
    · -- cached
      rename_i e hget
      refine ih _ _ _ (hone _ (acc ++ [(i, e)]) (by simp [takeInputEntries, hget])) ?_ h
      obtain ⟨c1, c2, c3⟩ := hinv.cache i.prev e hget
      refine ⟨?_, ?_, ?_⟩
      · intro o ho hsp
        rcases List.mem_append.1 ho with ho | ho
        · exact ⟨(hs.gone o ho hsp).1, AL.get_erase_none hinv.cnodup (hs.gone o ho hsp).2⟩
        · simp only [List.mem_singleton] at ho; subst ho
          exact ⟨c2, AL.get_erase_self _ _ hinv.cnodup⟩
      · intro o ho hsp
        rcases List.mem_append.1 ho with ho | ho
        · exact hs.known o ho hsp
        · simp only [List.mem_singleton] at ho; subst ho
          have := c3.txid_mem
          simp only [List.map_append, List.mem_append]; exact Or.inr this
      · intro tx htx v hv
        rcases hs.present tx htx v hv with hp | hp | hp
        · exact Or.inl (List.mem_append_left _ hp)
        · exact Or.inr (Or.inl hp)
        · by_cases hk : i.prev = ⟨tx.txid, v⟩
          · exact Or.inl (List.mem_append_right _ (by simp [hk]))
          · exact Or.inr (Or.inr (by rw [AL.get_erase_ne _ hk]; exact hp))
    · rename_i hcache
      split at h
      · rename_i e hget
        rw [ha] at h
        simp only [if_true] at h
        split at h
        · rename_i hcont
          refine ih _ _ _ (hone _ (acc ++ [(i, e)]) (by simp [takeInputEntries, hcache, hget, ha]; simpa using hcont)) ?_ h
          have T := hinv.table
          refine ⟨?_, ?_, ?_⟩
          · intro o ho hsp
            rcases List.mem_append.1 ho with ho | ho
            · exact ⟨AL.get_erase_none T.nodup (hs.gone o ho hsp).1, (hs.gone o ho hsp).2⟩
            · simp only [List.mem_singleton] at ho; subst ho
              exact ⟨AL.get_erase_self _ _ T.nodup, hcache⟩
          · intro o ho hsp
            rcases List.mem_append.1 ho with ho | ho
            · exact hs.known o ho hsp
            · simp only [List.mem_singleton] at ho; subst ho
              have := (T.real i.prev e hget hsp).txid_mem
              simp only [List.map_append, List.mem_append]; exact Or.inl this
          · intro tx htx v hv
            rcases hs.present tx htx v hv with hp | hp | hp
            · exact Or.inl (List.mem_append_left _ hp)
            · by_cases hk : i.prev = ⟨tx.txid, v⟩
              · exact Or.inl (List.mem_append_right _ (by simp [hk]))
              · exact Or.inr (Or.inl (by show (AL.get (AL.erase bc.st.utxo i.prev) _).isSome = true; rw [AL.get_erase_ne _ hk]; exact hp))
            · exact Or.inr (Or.inr hp)
        · simp at h
      · simp at h

theorem SpendInv.congr {txs txs' : List Tx} {S S' : List OutPoint} {u : List (OutPoint × UtxoEntry)} {c : Cache}
    (h : SpendInv txs S u c) (ht : ∀ tx, tx ∈ txs' ↔ tx ∈ txs) (hS : ∀ o, o ∈ S' ↔ o ∈ S) : SpendInv txs' S' u c := by
  have hid : ∀ x, x ∈ txs'.map (·.txid) ↔ x ∈ txs.map (·.txid) := by
    intro x; simp only [List.mem_map]
    exact ⟨fun ⟨t, ht', e⟩ => ⟨t, (ht t).1 ht', e⟩, fun ⟨t, ht', e⟩ => ⟨t, (ht t).2 ht', e⟩⟩
  refine ⟨fun o ho => h.gone o ((hS o).1 ho), fun o ho hsp => (hid _).2 (h.known o ((hS o).1 ho) hsp), ?_⟩
  intro tx htx v hv
  rcases h.present tx ((ht tx).1 htx) v hv with hp | hp | hp
  · exact Or.inl ((hS _).2 hp)
  · exact Or.inr (Or.inl hp)
  · exact Or.inr (Or.inr hp)

theorem spendInv_cacheOuts (txs : List Tx) (S : List OutPoint) (u : List (OutPoint × UtxoEntry)) (c : Cache)
    (tx : Tx) (outs : List UtxoEntry) (h : SpendInv txs S u c) (hfresh : tx.txid ∉ txs.map (·.txid))
    (hl : outs.length = tx.outputs.length) :
    SpendInv (txs ++ [tx]) S u (cacheOuts tx.txid (enumFrom 0 outs) c) := by
  refine ⟨?_, ?_, ?_⟩
  · intro o ho hsp
    refine ⟨(h.gone o ho hsp).1, ?_⟩
    rw [get_cacheOuts]
    have : o.txid ≠ tx.txid := fun e => hfresh (e ▸ h.known o ho hsp)
    simp [this]; exact (h.gone o ho hsp).2
  · intro o ho hsp
    simp only [List.map_append, List.mem_append]; exact Or.inl (h.known o ho hsp)
  · intro tx' htx' v hv
    rcases List.mem_append.1 htx' with ht | ht
    · rcases h.present tx' ht v hv with hp | hp | hp
      · exact Or.inl hp
      · exact Or.inr (Or.inl hp)
      · refine Or.inr (Or.inr ?_)
        rw [get_cacheOuts]
        have : tx'.txid ≠ tx.txid := fun e => hfresh (e ▸ List.mem_map.2 ⟨tx', ht, rfl⟩)
        simp [this]; exact hp
    · simp only [List.mem_singleton] at ht; subst ht
      refine Or.inr (Or.inr ?_)
      rw [get_cacheOuts]
      have : v < outs.length := by omega
      simp [this]

/-- outpoints a transaction at position `off` of its block spends (position 0 = coinbase: none) -/
def spentOfTx (off : Nat) (tx : Tx) : List OutPoint := if off = 0 then [] else tx.inputs.map (·.prev)

theorem indexTx_spend (cfg : Cfg) (ha : cfg.indexAddresses = true) (pre seen : List Tx) (blk : Block) (insOn : Bool)
    (off : Nat) (tx : Tx) (bc bc' : BlockCtx) (S : List OutPoint) (hinv : BlockInv cfg pre seen bc)
    (hs : SpendInv (pre ++ seen) S bc.st.utxo bc.cache) (hfresh : tx.txid ∉ (pre ++ seen).map (·.txid))
    (h : indexTx cfg blk insOn off tx bc = .ok bc') :
    SpendInv (pre ++ (seen ++ [tx])) (S ++ spentOfTx off tx) bc'.st.utxo bc'.cache := by
  obtain ⟨bc1, inputs, outs, h1, hu, hl, hc⟩ := indexTx_shape cfg blk insOn off tx bc bc' h
  rw [hu, hc, ← List.append_assoc]
  refine spendInv_cacheOuts _ _ _ _ tx outs ?_ hfresh hl
  rcases h1 with ⟨h0, rfl⟩ | ⟨h0, ht⟩
  · simpa [spentOfTx, h0] using hs
  · have := takeInputEntries_spend cfg ha pre seen tx.inputs bc [] (bc1, inputs) S hinv hs ht
    simpa [spentOfTx, h0] using this

def spentOf (l : List (Nat × Tx)) : List OutPoint := l.flatMap (fun p => spentOfTx p.1 p.2)

theorem indexTxs_spend (cfg : Cfg) (ha : cfg.indexAddresses = true) (pre : List Tx) (blk : Block) (insOn : Bool)
    (l : List (Nat × Tx)) (seen : List Tx) (bc bc' : BlockCtx) (S : List OutPoint) (hinv : BlockInv cfg pre seen bc)
    (hs : SpendInv (pre ++ seen) S bc.st.utxo bc.cache)
    (hnd : ((pre ++ seen ++ l.map (·.2)).map (·.txid)).Nodup)
    (hnz : ∀ p ∈ l, p.2.txid ≠ 0)
    (h : indexTxs cfg blk insOn l bc = .ok bc') :
    SpendInv (pre ++ (seen ++ l.map (·.2))) (S ++ spentOf l) bc'.st.utxo bc'.cache := by
  induction l generalizing seen bc S with
  | nil => simp only [indexTxs, Outcome.ok.injEq] at h; subst h; simpa [spentOf] using hs
  | cons p rest ih =>
    obtain ⟨i, tx⟩ := p
    simp only [indexTxs] at h
    split at h
    · simp at h
    · simp at h
    · rename_i bc1 h1
      have hnd' := hnd
      simp only [List.map_cons, List.map_append, List.nodup_append, List.mem_append, List.mem_cons, List.nodup_cons] at hnd'
      have hf : tx.txid ∉ (pre ++ seen).map (·.txid) := by
        simp only [List.map_append, List.mem_append]
        intro hm
        rcases hm with hm | hm
        · exact hnd'.2.2 _ (Or.inl hm) _ (Or.inl rfl) rfl
        · exact hnd'.2.2 _ (Or.inr hm) _ (Or.inl rfl) rfl
      have hfp : tx.txid ∉ pre.map (·.txid) := fun hm => hf (by simp only [List.map_append, List.mem_append]; exact Or.inl hm)
      have i1 := indexTx_inv cfg ha pre seen blk insOn i tx bc bc1 hinv hfp (hnz (i, tx) (by simp)) h1
      have s1 := indexTx_spend cfg ha pre seen blk insOn i tx bc bc1 S hinv hs hf h1
      have := ih (seen ++ [tx]) bc1 (S ++ spentOfTx i tx) i1 s1 (by simpa [List.append_assoc] using hnd)
        (fun p hp => hnz p (List.mem_cons_of_mem _ hp)) h
      simpa [spentOf, List.append_assoc] using this

/-! `commit` and the domain of the table -/

theorem flushCache_get_none (cfg : Cfg) (cache : Cache) (st : State) (o : OutPoint)
    (h1 : AL.get st.utxo o = none) (h2 : o ∉ AL.keys cache) : AL.get (flushCache cfg st cache).utxo o = none := by
  induction cache generalizing st with
  | nil => exact h1
  | cons p rest ih =>
    obtain ⟨op, e⟩ := p
    simp only [AL.keys_cons, List.mem_cons, not_or] at h2
    show AL.get (flushCache cfg (flushEntry cfg st op e) rest).utxo o = none
    refine ih _ ?_ h2.2
    rw [flushEntry_utxo, AL.get_set_ne _ _ (fun e => h2.1 e.symm)]; exact h1

theorem flushCache_get_some (cfg : Cfg) (cache : Cache) (st : State) (o : OutPoint)
    (h : (AL.get st.utxo o).isSome = true ∨ o ∈ AL.keys cache) :
    (AL.get (flushCache cfg st cache).utxo o).isSome = true := by
  induction cache generalizing st with
  | nil =>
    show (AL.get st.utxo o).isSome = true
    rcases h with h | h
    · exact h
    · simp [AL.keys] at h
  | cons p rest ih =>
    obtain ⟨op, e⟩ := p
    show (AL.get (flushCache cfg (flushEntry cfg st op e) rest).utxo o).isSome = true
    refine ih _ ?_
    simp only [AL.keys_cons, List.mem_cons] at h
    rw [flushEntry_utxo, AL.get_set]
    by_cases ho : op = o
    · left; simp [ho]
    · have : (op == o) = false := by simp [ho]
      rw [this]
      rcases h with h | h | h
      · exact Or.inl h
      · exact absurd h.symm ho
      · exact Or.inr h

/-- order in which `index_utxo_entries` walks the transactions of a block -/
def blockOrder (blk : Block) : List (Nat × Tx) := (enumFrom 0 blk.txs).drop 1 ++ (enumFrom 0 blk.txs).take 1

theorem enumFrom_mem {l : List Tx} {n : Nat} {p : Nat × Tx} (h : p ∈ enumFrom n l) : n ≤ p.1 ∧ p.2 ∈ l := by
  induction l generalizing n with
  | nil => simp [enumFrom] at h
  | cons a l ih =>
    simp only [enumFrom, List.mem_cons] at h
    rcases h with rfl | h
    · simp
    · have := ih h; exact ⟨by omega, List.mem_cons_of_mem _ this.2⟩

theorem mem_enumFrom_of_mem {l : List Tx} (n : Nat) {tx : Tx} (h : tx ∈ l) : ∃ i, (i, tx) ∈ enumFrom n l := by
  induction l generalizing n with
  | nil => cases h
  | cons a l ih =>
    rcases List.mem_cons.1 h with rfl | h
    · exact ⟨n, by simp [enumFrom]⟩
    · obtain ⟨i, hi⟩ := ih (n + 1) h
      exact ⟨i, by simp [enumFrom, hi]⟩

theorem blockOrder_cases (blk : Block) :
    blockOrder blk = enumFrom 1 (blk.txs.drop 1) ++ (match blk.txs with | [] => [] | a :: _ => [(0, a)]) := by
  unfold blockOrder
  cases blk.txs with
  | nil => simp [enumFrom]
  | cons a l => simp [enumFrom]

theorem blockOrder_txs (blk : Block) (tx : Tx) : tx ∈ (blockOrder blk).map (·.2) ↔ tx ∈ blk.txs := by
  rw [blockOrder_cases]
  cases hb : blk.txs with
  | nil => simp [enumFrom]
  | cons a l =>
    simp only [List.drop_succ_cons, List.drop_zero, List.map_append, List.mem_append, List.map_cons, List.map_nil,
      List.mem_cons, List.not_mem_nil, or_false]
    constructor
    · rintro (h | h)
      · obtain ⟨p, hp, rfl⟩ := List.mem_map.1 h; exact Or.inr (enumFrom_mem hp).2
      · exact Or.inl h
    · rintro (h | h)
      · exact Or.inr h
      · obtain ⟨i, hi⟩ := mem_enumFrom_of_mem 1 h; exact Or.inl (List.mem_map.2 ⟨(i, tx), hi, rfl⟩)

/-- outpoints spent by a block: the inputs of every transaction but the first -/
def blockSpent (blk : Block) : List OutPoint := (blk.txs.drop 1).flatMap (fun tx => tx.inputs.map (·.prev))

theorem blockOrder_spent (blk : Block) (o : OutPoint) : o ∈ spentOf (blockOrder blk) ↔ o ∈ blockSpent blk := by
  rw [blockOrder_cases]
  unfold spentOf blockSpent
  simp only [List.flatMap_append, List.mem_append, List.mem_flatMap]
  constructor
  · rintro (⟨p, hp, ho⟩ | ⟨p, hp, ho⟩)
    · have := enumFrom_mem hp
      have h0 : p.1 ≠ 0 := by omega
      simp only [spentOfTx, h0, if_false] at ho
      exact ⟨p.2, this.2, ho⟩
    · cases hb : blk.txs with
      | nil => simp [hb] at hp
      | cons a l => simp only [hb, List.mem_singleton] at hp; subst hp; simp [spentOfTx] at ho
  · rintro ⟨tx, htx, ho⟩
    obtain ⟨i, hi⟩ := mem_enumFrom_of_mem 1 htx
    have := enumFrom_mem hi
    have h0 : i ≠ 0 := by simp only at this; omega
    exact Or.inl ⟨(i, tx), hi, by simpa [spentOfTx, h0] using ho⟩

theorem indexUtxoEntries_shape (cfg : Cfg) (st : State) (blk : Block) (r : State × List Event)
    (h : indexUtxoEntries cfg st blk = .ok r) :
    ∃ (bc0 bc : BlockCtx) (st3 : State) (special : Cache) (insOn : Bool),
      bc0.st = st ∧ bc0.cache = [] ∧ bc0.ins.nullEntry = none ∧ bc0.ins.unboundEntry = none ∧
      indexTxs cfg blk insOn (blockOrder blk) bc0 = .ok bc ∧ st3.utxo = bc.st.utxo ∧
      (∀ p ∈ special, p.1.isSpecial = true) ∧ r.1 = flushCache cfg st3 (bc.cache ++ special) := by
  unfold indexUtxoEntries at h
  extract_lets insOn coinbaseInputs bc0 order at h
  have hord : order = blockOrder blk := rfl
  clear_value order
  split at h
  · simp at h
  · simp at h
  · rename_i bc hbc
    extract_lets src st1 at h
    have hst1u : st1.utxo = bc.st.utxo := by simp only [st1, src]; try (split <;> rfl)
    clear_value st1
    split at h
    rename_i st2 nullNew lostFromSats heq
    have h2 : st2.utxo = st1.utxo := by
      split at heq
      · have e1 : st1 = st2 := congrArg Prod.fst heq
        rw [← e1]
      · split at heq
        have e1 := congrArg Prod.fst heq
        simp only at e1
        rw [← e1]
    extract_lets st3 special at h
    obtain rfl := Outcome.ok.inj h
    refine ⟨bc0, bc, st3, special, insOn, rfl, rfl, rfl, rfl, hord ▸ hbc, h2.trans hst1u, ?_, rfl⟩
    intro p hp
    simp only [special, List.mem_append] at hp
    rcases hp with hp | hp
    · cases hn : nullNew with
      | none => simp [hn] at hp
      | some e => simp only [hn, List.mem_singleton] at hp; subst hp; exact isSpecial_null
    · cases hn : bc.ins.unboundEntry with
      | none => simp [hn] at hp
      | some e => simp only [hn, List.mem_singleton] at hp; subst hp; exact isSpecial_unbound

theorem indexUtxoEntries_spend (cfg : Cfg) (ha : cfg.indexAddresses = true) (pre : List Tx) (st : State) (blk : Block)
    (r : State × List Event) (S : List OutPoint) (T : TableInv cfg pre st) (hs : SpendInv pre S st.utxo [])
    (hnd : ((pre ++ blk.txs).map (·.txid)).Nodup) (hnz : ∀ tx ∈ blk.txs, tx.txid ≠ 0)
    (h : indexUtxoEntries cfg st blk = .ok r) :
    SpendInv (pre ++ blk.txs) (S ++ blockSpent blk) r.1.utxo [] := by
  obtain ⟨bc0, bc, st3, special, insOn, e1, e2, e3, e4, htxs, hu3, hsp, hr⟩ := indexUtxoEntries_shape cfg st blk r h
  have hb0 : BlockInv cfg pre [] bc0 := by
    refine ⟨e1 ▸ T, by simp [e2, AL.keys], ?_, ?_⟩
    · intro o e he; simp [e2, AL.get] at he
    · exact ⟨fun e he => by simp [e3] at he, fun e he => by simp [e4] at he⟩
  have hs0 : SpendInv (pre ++ []) S bc0.st.utxo bc0.cache := by simpa [e1, e2] using hs
  have hperm : ∀ tx, tx ∈ (blockOrder blk).map (·.2) ↔ tx ∈ blk.txs := blockOrder_txs blk
  have hen : ∀ (l : List Tx) (n : Nat), (enumFrom n l).map (fun p : Nat × Tx => p.2) = l := by
    intro l; induction l with
    | nil => intro n; rfl
    | cons x xs ih => intro n; simp [enumFrom, ih]
  have hmap : (blockOrder blk).map (fun p : Nat × Tx => p.2) = blk.txs.drop 1 ++ blk.txs.take 1 := by
    unfold blockOrder; rw [List.map_append, List.map_drop, List.map_take, hen]
  have hp : List.Perm (blk.txs.drop 1 ++ blk.txs.take 1) blk.txs := by
    have := List.perm_append_comm (l₁ := blk.txs.drop 1) (l₂ := blk.txs.take 1)
    rw [List.take_append_drop] at this; exact this
  have hnd' : ((pre ++ [] ++ (blockOrder blk).map (fun p : Nat × Tx => p.2)).map (fun t : Tx => t.txid)).Nodup := by
    rw [List.append_nil, hmap]
    exact ((List.Perm.append_left pre hp).map _).nodup_iff.2 hnd
  have hnz' : ∀ p ∈ blockOrder blk, p.2.txid ≠ 0 :=
    fun p hp => hnz _ ((hperm p.2).1 (List.mem_map.2 ⟨p, hp, rfl⟩))
  have hb := indexTxs_inv cfg ha pre blk insOn (blockOrder blk) [] bc0 bc hb0
    (fun p hp => ⟨by
      have := hnd'
      simp only [List.append_nil, List.map_append, List.nodup_append] at this
      exact fun hm => this.2.2 _ hm _ (List.mem_map.2 ⟨p.2, List.mem_map.2 ⟨p, hp, rfl⟩, rfl⟩) rfl, hnz' p hp⟩) htxs
  have hsb := indexTxs_spend cfg ha pre blk insOn (blockOrder blk) [] bc0 bc S hb0 hs0 hnd' hnz' htxs
  simp only [List.nil_append] at hb hsb
  have hsb' : SpendInv (pre ++ blk.txs) (S ++ blockSpent blk) bc.st.utxo bc.cache := by
    refine hsb.congr ?_ ?_
    · intro tx; simp only [List.mem_append, hperm]
    · intro o; simp only [List.mem_append, blockOrder_spent]
  rw [hr]
  refine ⟨?_, hsb'.known, ?_⟩
  · intro o ho hsp'
    refine ⟨flushCache_get_none cfg _ _ o (by rw [hu3]; exact (hsb'.gone o ho hsp').1) ?_, rfl⟩
    simp only [AL.keys, List.map_append, List.mem_append, not_or]
    refine ⟨(AL.get_eq_none_iff _ _).1 (hsb'.gone o ho hsp').2, ?_⟩
    intro hm
    obtain ⟨p, hp, rfl⟩ := List.mem_map.1 hm
    rw [hsp p hp] at hsp'; cases hsp'
  · intro tx htx v hv
    rcases hsb'.present tx htx v hv with hp | hp | hp
    · exact Or.inl hp
    · exact Or.inr (Or.inl (flushCache_get_some cfg _ _ _ (Or.inl (by rw [hu3]; exact hp))))
    · refine Or.inr (Or.inl (flushCache_get_some cfg _ _ _ (Or.inr ?_)))
      simp only [AL.keys, List.map_append, List.mem_append]
      left
      cases hg : AL.get bc.cache ⟨tx.txid, v⟩ with
      | none => simp [hg] at hp
      | some e => exact AL.mem_keys_of_mem (AL.mem_of_get hg)

theorem applyBlock_utxo (cfg : Cfg) (ha : cfg.indexAddresses = true) (st : State) (blk : Block) (r : State × List Event)
    (h : applyBlock cfg st blk = .ok r) : ∃ q, indexUtxoEntries cfg st blk = .ok q ∧ r.1.utxo = q.1.utxo := by
  unfold applyBlock at h
  extract_lets r1 at h
  have h1 : r1 = indexUtxoEntries cfg st blk := by
    simp only [r1, ha, Bool.or_true, Bool.true_or, if_true]
  clear_value r1
  subst h1
  split at h
  · simp at h
  · simp at h
  · rename_i st1 ev1 hq
    extract_lets r2 at h
    have h2 : ∀ q, r2 = .ok q → AddrSame st1 q.1 := by
      intro q hq
      simp only [r2] at hq
      split at hq
      · exact indexRunesBlock_frame _ _ _ hq
      · obtain rfl := Outcome.ok.inj hq; exact AddrSame.refl _
    clear_value r2
    split at h
    · simp at h
    · simp at h
    · rename_i st2 ev2
      obtain ⟨hu, _⟩ := h2 _ rfl
      obtain rfl := Outcome.ok.inj h
      exact ⟨(st1, ev1), hq, hu⟩

/-- every outpoint spent by the chain (inputs of all transactions but the first of each block) -/
def spentList (chain : List Block) : List OutPoint := chain.flatMap blockSpent

theorem mem_spentList (chain : List Block) (o : OutPoint) : o ∈ spentList chain ↔ SpentBy chain o := by
  simp only [spentList, blockSpent, SpentBy, List.mem_flatMap, List.mem_map]

theorem run_spend (cfg : Cfg) (ha : cfg.indexAddresses = true) (chain : List Block) (st : State) (evs : List Event)
    (hnd : NoDupTxids chain) (hrun : run cfg chain = .ok (st, evs)) :
    SpendInv (allTxs chain) (spentList chain) st.utxo [] := by
  have := run_induct cfg (fun pre st _ => NoDupTxids pre →
      TableInv cfg (allTxs pre) st ∧ SpendInv (allTxs pre) (spentList pre) st.utxo [])
    (fun _ => ⟨by simpa [allTxs] using tableInv_empty cfg,
      ⟨by intro o ho; simp [spentList] at ho, by intro o ho; simp [spentList] at ho, by intro tx htx; simp [allTxs] at htx⟩⟩)
    (by
      intro pre st evs b st' ev' ih hb hnd'
      obtain ⟨hp, hf⟩ := hnd'.snoc
      obtain ⟨T, Sp⟩ := ih hp
      refine ⟨by rw [allTxs_snoc]; exact applyBlock_table cfg ha (allTxs pre) st b (st', ev') T hf hb, ?_⟩
      obtain ⟨q, hq, hu⟩ := applyBlock_utxo cfg ha st b (st', ev') hb
      have hn : ((allTxs pre ++ b.txs).map (·.txid)).Nodup := by
        have := hnd'.1; simpa [chainTxids, allTxs_snoc] using this
      have := indexUtxoEntries_spend cfg ha (allTxs pre) st b q (spentList pre) T Sp hn (fun tx htx => (hf tx htx).2) hq
      rw [allTxs_snoc]
      simp only at hu
      rw [hu]
      have hsl : spentList (pre ++ [b]) = spentList pre ++ blockSpent b := by simp [spentList]
      rw [hsl]; exact this)
    chain st evs hrun
  exact (this hnd).2

theorem eq_of_nodup_txids {l : List Tx} (hn : (l.map (·.txid)).Nodup) {a b : Tx} (ha : a ∈ l) (hb : b ∈ l)
    (h : a.txid = b.txid) : a = b := by
  induction l with
  | nil => cases ha
  | cons x xs ih =>
    simp only [List.map_cons, List.nodup_cons] at hn
    rcases List.mem_cons.1 ha with ha' | ha' <;> rcases List.mem_cons.1 hb with hb' | hb'
    · rw [ha', hb']
    · subst ha'
      have : a.txid ∈ xs.map (·.txid) := List.mem_map.2 ⟨b, hb', h.symm⟩
      exact absurd this hn.1
    · subst hb'
      have : b.txid ∈ xs.map (·.txid) := List.mem_map.2 ⟨a, ha', h⟩
      exact absurd this hn.1
    · exact ih hn.2 ha' hb'

end Ord.Index
