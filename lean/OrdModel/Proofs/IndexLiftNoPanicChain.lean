import OrdModel.Proofs.IndexLiftNoPanicBlock
/-
C16 lift, part 8: the chain induction.  With at least one of the inscription / address / sat
indexes on, the boundary invariant `Bnd` holds after every successfully indexed prefix of a valid
chain (`run_bnd`, via `run_induct`), hence the first pass never fails on the next block
(`utxoPassOk_of_validChain`); with the combination lemma of the C16 stream
(`run_no_failure_of_utxoPassOk`) and the rune-only theorem this is C16 for every configuration.
-/
namespace Ord.Index.NoPanic
open Ord Ord.Index Outcome Sched

/-- the sat / address / inscription pass is run (at least one of the three indexes is on) -/
def FirstPassOn (cfg : Cfg) : Prop := (cfg.indexInscriptions || cfg.indexAddresses || cfg.indexSats) = true

theorem applyBlock_bnd (cfg : Cfg) (hflag : FirstPassOn cfg) (st : State) (blk : Block) (st' : State) (ev : List Event)
    (vs vs' : Valid.VState) (hb : Bnd cfg vs st) (hc : Valid.checkBlock vs blk = some vs')
    (h : applyBlock cfg st blk = .ok (st', ev)) : Bnd cfg vs' st' := by
  obtain ⟨r, hr, hbr⟩ := indexUtxoEntries_valid cfg st blk vs vs' hb hc
  obtain ⟨st1, ev1⟩ := r
  unfold applyBlock at h
  unfold FirstPassOn at hflag
  simp only [hflag, if_true] at h
  rw [hr] at h
  simp only at h
  have hcore := InsLift.applyBlock_after cfg blk st1 ev1 st' ev h
  have he : st'.entries = st1.entries := InsLift.insCore_entries hcore
  have hu : st'.utxo = st1.utxo := InsLift.insCore_utxo hcore
  have hi : st'.id2seq = st1.id2seq := (congrArg State.id2seq hcore : _)
  have hs : st'.script2out = st1.script2out := (congrArg State.script2out hcore : _)
  have hcu : st'.cursed = st1.cursed := (congrArg State.cursed hcore : _)
  have hbl : st'.blessed = st1.blessed := (congrArg State.blessed hcore : _)
  exact ⟨by rw [he, hu, hs]; exact hbr.urel, hbr.uwf, hbr.tnodup, hbr.ids.congr he hi, by rw [hcu, hbl]; exact hbr.count⟩

/-- **the boundary invariant holds after every successfully indexed valid chain** -/
theorem run_bnd (cfg : Cfg) (hflag : FirstPassOn cfg) (chain : List Block) (st : State) (evs : List Event)
    (h : run cfg chain = .ok (st, evs)) (vs : Valid.VState) (hv : Valid.checkChain chain {} = some vs) :
    Bnd cfg vs st := by
  have := run_induct cfg (fun pre st _ => ∀ vs, Valid.checkChain pre {} = some vs → Bnd cfg vs st)
    (by
      intro vs hvs
      simp only [Valid.checkChain, Option.some.injEq] at hvs
      subst hvs
      exact Bnd.init cfg)
    (by
      intro pre st evs b st' ev' ih hb vs' hvs'
      obtain ⟨vs1, h1, h2⟩ := checkChain_snoc pre b {} vs' hvs'
      exact applyBlock_bnd cfg hflag st b st' ev' vs1 vs' (ih vs1 h1) h2 hb)
    chain st evs h
  exact this vs hv

/-- what was left of C16 (`UtxoPassOk`): discharged for every configuration that runs the first pass -/
theorem utxoPassOk_of_validChain (cfg : Cfg) (hflag : FirstPassOn cfg) (chain : List Block)
    (hv : Valid.validChain chain = true) : UtxoPassOk cfg chain := by
  intro pre b suf st evs hsplit hpre s hpanic
  unfold Valid.validChain at hv
  cases hcc : Valid.checkChain chain {} with
  | none => rw [hcc] at hv; cases hv
  | some vsF =>
    have hcc' : Valid.checkChain ((pre ++ [b]) ++ suf) {} = some vsF := by
      rw [← hcc, hsplit]; simp
    obtain ⟨vs', h1⟩ := checkChain_append (pre ++ [b]) suf {} vsF hcc'
    obtain ⟨vs, h2, h3⟩ := checkChain_snoc pre b {} vs' h1
    have hb := run_bnd cfg hflag pre st evs hpre vs h2
    obtain ⟨r, hr, _⟩ := indexUtxoEntries_valid cfg st b vs vs' hb h3
    rw [hr] at hpanic
    cases hpanic

theorem runesOnly_of_not_firstPass (cfg : Cfg) (h : ¬ FirstPassOn cfg) : cfg.runesOnly := by
  unfold FirstPassOn at h
  unfold Cfg.runesOnly
  cases h1 : cfg.indexInscriptions <;> cases h2 : cfg.indexAddresses <;> cases h3 : cfg.indexSats <;>
    simp_all

/-- **C16, every configuration**: indexing a valid chain neither panics nor returns an error. -/
theorem run_no_failure (chain : List Block) (hv : Valid.validChain chain = true) (cfg : Cfg) :
    (∀ s, run cfg chain ≠ .panic s) ∧ (∀ e, run cfg chain ≠ .err e) := by
  by_cases hflag : FirstPassOn cfg
  · exact run_no_failure_of_utxoPassOk cfg chain hv (utxoPassOk_of_validChain cfg hflag chain hv)
  · have hro := runesOnly_of_not_firstPass cfg hflag
    obtain ⟨he, hp⟩ := runFrom_runesOnly_within cfg hro chain {} (validChain_runeSafe chain hv) |>.within |> fun w =>
      (⟨fun (e : String) => w.not_err (e := e), fun (s : String) (hs : run cfg chain = .panic s) => w.panic_mem hs⟩ :
        (∀ e, run cfg chain ≠ .err e) ∧ (∀ s, run cfg chain = .panic s → s ∈ runeResidualSites))
    refine ⟨fun s hs => ?_, he⟩
    have hmem := hp s hs
    have hno := RuneLift.run_noLot_runesOnly cfg hro chain (validChain_lotChainOK chain hv) s hs
    exact hno (RuneLift.lotSites_eq ▸ hmem)

theorem run_isOk (chain : List Block) (hv : Valid.validChain chain = true) (cfg : Cfg) :
    (run cfg chain).isOk = true := by
  obtain ⟨hp, he⟩ := run_no_failure chain hv cfg
  cases hr : run cfg chain with
  | ok r => rfl
  | err e => exact absurd hr (he e)
  | panic s => exact absurd hr (hp s)

end Ord.Index.NoPanic
