import OrdModel.Index.Projection
import OrdModel.Index.Valid
import OrdModel.Proofs.IndexMiscAL
/-
C15 helper lemmas 8: every block of a valid chain (`Valid.validChain`) has the shape the C15
theorems ask for (`BlockShape`): the first transaction is the coinbase, no other transaction
has an input with the all-zero txid, no transaction has the all-zero txid.
-/
namespace Ord.Index
open Valid

/-- no unspent output of the spec-level UTXO set has the all-zero txid -/
def KeysNonZero (u : Utxos) : Prop := ∀ p ∈ u, p.1.txid ≠ 0

theorem lookup_mem : ∀ (u : Utxos) (op : OutPoint) (v : Nat), lookup u op = some v → (op, v) ∈ u
  | [], _, _, h => by simp [lookup] at h
  | (o, w) :: rest, op, v, h => by
    simp only [lookup] at h
    split at h
    · rename_i heq
      have : o = op := by simpa using heq
      simp only [Option.some.injEq] at h
      subst this; subst h
      exact List.mem_cons_self
    · exact List.mem_cons_of_mem _ (lookup_mem rest op v h)

theorem remove_sub : ∀ (u : Utxos) (op : OutPoint) (p : OutPoint × Nat), p ∈ remove u op → p ∈ u
  | [], _, _, h => by simp [remove] at h
  | (o, w) :: rest, op, p, h => by
    simp only [remove] at h
    split at h
    · exact List.mem_cons_of_mem _ h
    · rcases List.mem_cons.mp h with h | h
      · exact h ▸ List.mem_cons_self
      · exact List.mem_cons_of_mem _ (remove_sub rest op p h)

theorem spendInputs_shape : ∀ (ins : List TxIn) (u u' : Utxos) (vs : List Nat), KeysNonZero u →
    spendInputs ins u = some (u', vs) → (∀ i ∈ ins, i.prev.txid ≠ 0) ∧ KeysNonZero u'
  | [], u, u', vs, hk, h => by
    simp only [spendInputs, Option.some.injEq, Prod.mk.injEq] at h
    obtain ⟨rfl, _⟩ := h
    exact ⟨by simp, hk⟩
  | i :: rest, u, u', vs, hk, h => by
    simp only [spendInputs] at h
    split at h
    · cases h
    · split at h
      · cases h
      · rename_i v hl
        split at h
        · cases h
        · rename_i u2 vs2 hr
          simp only [Option.some.injEq, Prod.mk.injEq] at h
          obtain ⟨rfl, _⟩ := h
          have hk2 : KeysNonZero (remove u i.prev) := fun p hp => hk p (remove_sub u i.prev p hp)
          obtain ⟨a, b⟩ := spendInputs_shape rest _ _ _ hk2 hr
          refine ⟨?_, b⟩
          intro j hj
          rcases List.mem_cons.mp hj with rfl | hj
          · exact hk _ (lookup_mem u _ v hl)
          · exact a j hj

theorem newOutputs_keys (txid : Txid) (outs : List Nat) (h : txid ≠ 0) : KeysNonZero (newOutputs txid outs) := by
  intro p hp
  simp only [newOutputs, List.mem_map] at hp
  obtain ⟨q, _, rfl⟩ := hp
  exact h

theorem keys_append {a b : Utxos} (ha : KeysNonZero a) (hb : KeysNonZero b) : KeysNonZero (a ++ b) := by
  intro p hp
  rcases List.mem_append.mp hp with hp | hp
  · exact ha p hp
  · exact hb p hp

theorem txid_of_wellFormed (tx : Tx) (h : txWellFormed tx = true) : tx.txid ≠ 0 := by
  simp only [txWellFormed, Bool.and_eq_true, txidNonZero, bne_iff_ne, ne_eq] at h
  simp [h]

/- The proofs below are written to survive added guards in `checkTx` / `checkBlock` (the C16 stream
is still extending `Valid.lean`): every `if`/`match` is split, impossible branches are closed
automatically, and the facts needed are picked up by type or from the last split. -/

theorem checkTx_shape (height : Nat) (u u' : Utxos) (tx : Tx) (fee : Nat) (i : Nat) (hi : i ≠ 0) (hk : KeysNonZero u)
    (h : checkTx height u tx = some (u', fee)) : TxShape i tx = true ∧ KeysNonZero u' := by
  simp only [checkTx] at h
  cases hs : spendInputs tx.inputs u with
  | none => rw [hs] at h; simp at h
  | some r =>
    obtain ⟨u1, spent⟩ := r
    rw [hs] at h
    simp only at h
    split at h
    · rename_i hc
      simp only [Option.some.injEq, Prod.mk.injEq] at h
      obtain ⟨rfl, _⟩ := h
      have hwf : txWellFormed tx = true := by
        simp only [Bool.and_eq_true] at hc
        simp [hc]
      have htx := txid_of_wellFormed tx hwf
      obtain ⟨a, b⟩ := spendInputs_shape tx.inputs u u1 spent hk hs
      refine ⟨?_, keys_append b (newOutputs_keys tx.txid _ htx)⟩
      simp only [TxShape, hi, if_false, Bool.and_eq_true, bne_iff_ne, ne_eq, List.all_eq_true]
      exact ⟨htx, a⟩
    · cases h

theorem checkTxs_shape (height : Nat) : ∀ (txs : List Tx) (u u' : Utxos) (fees fees' : Nat) (n : Nat), KeysNonZero u →
    checkTxs height txs u fees = some (u', fees') →
    (∀ p ∈ enumFrom (n + 1) txs, TxShape p.1 p.2 = true) ∧ KeysNonZero u'
  | [], u, u', fees, fees', n, hk, h => by
    simp only [checkTxs, Option.some.injEq, Prod.mk.injEq] at h
    obtain ⟨rfl, _⟩ := h
    exact ⟨by simp [enumFrom], hk⟩
  | tx :: rest, u, u', fees, fees', n, hk, h => by
    simp only [checkTxs] at h
    cases hc : checkTx height u tx with
    | none => rw [hc] at h; simp at h
    | some r =>
      obtain ⟨u1, fee⟩ := r
      rw [hc] at h
      simp only at h
      obtain ⟨a, b⟩ := checkTx_shape height u u1 tx fee (n + 1) (by omega) hk hc
      obtain ⟨c, d⟩ := checkTxs_shape height rest u1 u' _ fees' (n + 1) b h
      refine ⟨?_, d⟩
      intro p hp
      simp only [enumFrom, List.mem_cons] at hp
      rcases hp with rfl | hp
      · exact a
      · exact c p hp

theorem checkBlock_shape (st st' : VState) (blk : Block) (hk : KeysNonZero st.utxos)
    (h : checkBlock st blk = some st') : BlockShape blk = true ∧ KeysNonZero st'.utxos := by
  cases htxs : blk.txs with
  | nil => simp [checkBlock, htxs] at h
  | cons cb rest =>
    cases hc : checkTxs blk.height rest st.utxos 0 with
    | none =>
      simp only [checkBlock, htxs, hc] at h
      repeat' (split at h)
      all_goals (simp at h)
    | some r =>
      obtain ⟨u, fees⟩ := r
      by_cases hcb : (coinbaseShape cb && txWellFormed cb) = true
      · obtain ⟨a, b⟩ := checkTxs_shape blk.height rest st.utxos u 0 fees 0 hk hc
        simp only [Bool.and_eq_true] at hcb
        have hcbid := txid_of_wellFormed cb hcb.2
        have hu : st'.utxos = u ++ newOutputs cb.txid (outValues cb) := by
          simp only [checkBlock, htxs, hc] at h
          repeat' (split at h)
          all_goals (simp only [Option.some.injEq, reduceCtorEq] at h)
          all_goals (first | (rw [← h]) | skip)
        refine ⟨?_, by rw [hu]; exact keys_append b (newOutputs_keys cb.txid _ hcbid)⟩
        simp only [BlockShape, htxs, List.isEmpty_cons, Bool.not_false, Bool.true_and, List.all_eq_true]
        intro p hp
        simp only [enumFrom, List.mem_cons] at hp
        rcases hp with rfl | hp
        · simp only [TxShape, if_true, Bool.and_eq_true, bne_iff_ne, ne_eq]
          refine ⟨hcbid, ?_⟩
          have hsh := hcb.1
          simp only [coinbaseShape] at hsh
          split at hsh
          · rename_i i hins
            rw [hins]
            simp only [Bool.and_eq_true] at hsh
            exact hsh.1
          · cases hsh
        · exact a p hp
      · simp [checkBlock, htxs, hcb] at h

theorem checkChain_shape : ∀ (chain : List Block) (st st' : VState), KeysNonZero st.utxos →
    checkChain chain st = some st' → ∀ b ∈ chain, BlockShape b = true
  | [], _, _, _, _ => by simp
  | b :: bs, st, st', hk, h => by
    simp only [checkChain] at h
    split at h
    · cases h
    · rename_i st1 hb
      obtain ⟨a, k1⟩ := checkBlock_shape st st1 b hk hb
      intro b' hb'
      rcases List.mem_cons.mp hb' with rfl | hb'
      · exact a
      · exact checkChain_shape bs st1 st' k1 h b' hb'

/-- every block of a valid chain has the shape the C15 theorems need -/
theorem blockShape_of_validChain (chain : List Block) (h : validChain chain = true) :
    ∀ b ∈ chain, BlockShape b = true := by
  unfold validChain at h
  cases hc : checkChain chain {} with
  | none => rw [hc] at h; simp at h
  | some st' => exact checkChain_shape chain {} st' (by intro p hp; cases hp) hc

end Ord.Index
