import OrdModel.Proofs.IndexMiscReplayUtxoPass
import OrdModel.Proofs.IndexLiftRuneSupplyChain
/-
C37 helper lemmas 4: burned totals.  Within a block the replayed burn sum of a rune is the
entry's `burned` plus the block's burn accumulator (`RuneUpdater::burned`, flushed into the
entries at the end of the block); a freshly etched id has no entry yet (`Runemint.RInv.ids`), so
the new entry's `burned = 0` agrees with the (absent = 0) sum.  Also `indexRunesTx_parts`: the
pieces of one `indexRunesTx` that the burned and balance proofs need.
-/
namespace Ord.Index
open Outcome

/-- replayed burn total of a rune (absent = 0) -/
def rb (rs : ReplayState) (id : RuneId) : Nat := (AL.get rs.burned id).getD 0
/-- `burned` of the rune's entry (absent = 0) -/
def EB (st : State) (id : RuneId) : Nat := ((AL.get st.runeEntries id).map (·.burned)).getD 0
/-- amount under `id` in a balance map (absent = 0) -/
def lk0 (m : Balances) (id : RuneId) : Nat := (AL.get m id).getD 0

theorem lk0_eq (m : Balances) (id : RuneId) : lk0 m id = Spec.lk m id := rfl

/-- events that are not `RuneBurned` -/
def BNeutral : Event → Prop
  | .runeBurned .. => False
  | _ => True

theorem applyEvent_bneutral (c : List Block) (rs : ReplayState) (e : Event) (h : BNeutral e) :
    (applyEvent c rs e).burned = rs.burned := by
  cases e with
  | inscriptionCreated _ _ _ loc _ _ => cases loc <;> rfl
  | runeBurned => exact absurd h (by simp [BNeutral])
  | _ => rfl

theorem foldl_bneutral (c : List Block) (evs : List Event) (h : ∀ e ∈ evs, BNeutral e) (rs : ReplayState) :
    (evs.foldl (applyEvent c) rs).burned = rs.burned := by
  induction evs generalizing rs with
  | nil => rfl
  | cons e rest ih =>
    simp only [List.foldl_cons]
    rw [ih (fun e he => h e (by simp [he]))]
    exact applyEvent_bneutral c rs e (h e (by simp))

theorem rb_bneutral (c : List Block) (evs : List Event) (h : ∀ e ∈ evs, BNeutral e) (rs : ReplayState) (id : RuneId) :
    rb (evs.foldl (applyEvent c) rs) id = rb rs id := by
  unfold rb; rw [foldl_bneutral c evs h rs]

/-- replaying the `RuneBurned` events of a transaction does to the replayed sums what
`addAllTo burned blockBurned` does to the block accumulator -/
theorem burn_fold (c : List Block) (h : Nat) (t : Txid) : ∀ (burned acc acc' : Balances) (rs : ReplayState)
    (X : RuneId → Nat), addAllTo burned acc false = .ok acc' → (∀ id, rb rs id = X id + lk0 acc id) →
    ∀ id, rb ((burned.map (fun (id, a) => Event.runeBurned a h id t)).foldl (applyEvent c) rs) id = X id + lk0 acc' id
  | [], acc, acc', rs, X, ha, hx => by
    simp only [addAllTo, Outcome.ok.injEq] at ha
    subst ha
    simpa using hx
  | (id0, b) :: rest, acc, acc', rs, X, ha, hx => by
    simp only [addAllTo, Bool.false_and, Bool.false_eq_true, if_false] at ha
    split at ha
    · rename_i acc1 hl
      simp only [List.map_cons, List.foldl_cons]
      refine burn_fold c h t rest acc1 acc' _ X ha ?_
      intro id
      unfold addLot at hl
      simp only at hl
      split at hl
      · simp only [Outcome.ok.injEq] at hl
        subst hl
        show (AL.get (AL.set rs.burned id0 ((AL.get rs.burned id0).getD 0 + b)) id).getD 0
          = X id + (AL.get (AL.set acc id0 ((AL.get acc id0).getD 0 + b)) id).getD 0
        rw [AL.get_set, AL.get_set]
        split
        · rename_i hid
          have : id0 = id := by simpa using hid
          subst this
          have := hx id0
          unfold rb lk0 at this
          simp only [Option.getD_some]
          omega
        · exact hx id
      · cases hl
    · cases ha
    · cases ha

/-! ### the pieces of one `indexRunesTx` -/

theorem mint_parts (st : State) (height : Nat) (id : RuneId) (s : State) (r : Option Nat)
    (hm : mint st height id = (s, r)) :
    s.balances = st.balances ∧ (∀ id', EB s id' = EB st id') ∧
    (∀ X, AL.get st.runeEntries X = none → AL.get s.runeEntries X = none) := by
  unfold mint at hm
  split at hm
  · simp only [Prod.mk.injEq] at hm; obtain ⟨rfl, rfl⟩ := hm; exact ⟨rfl, fun _ => rfl, fun _ h => h⟩
  · rename_i e he
    split at hm
    · simp only [Prod.mk.injEq] at hm; obtain ⟨rfl, rfl⟩ := hm; exact ⟨rfl, fun _ => rfl, fun _ h => h⟩
    · simp only [Prod.mk.injEq] at hm; obtain ⟨rfl, rfl⟩ := hm
      refine ⟨rfl, ?_, ?_⟩
      · intro id'
        show ((AL.get (AL.set st.runeEntries id _) id').map _).getD 0 = _
        rw [AL.get_set]
        split
        · rename_i hid
          have : id = id' := by simpa using hid
          subst this
          simp [EB, he]
        · rfl
      · intro X hX
        show AL.get (AL.set st.runeEntries id _) X = none
        rw [AL.get_set]
        split
        · rename_i hid
          have : id = X := by simpa using hid
          subst this
          rw [he] at hX; cases hX
        · exact hX

theorem mintTriple_parts {st0 : State} (mintId : Option RuneId) (un0 : Balances) (height : Nat) (txid : Txid)
    (M : State × Outcome Balances × List Event)
    (hM : (match mintId with
      | none => (st0, Outcome.ok un0, ([] : List Event))
      | some id =>
        match mint st0 height id with
        | (s, none) => (s, Outcome.ok un0, [])
        | (s, some amount) => (s, addLot un0 id amount, [Event.runeMinted amount height id txid])) = M) :
    M.1.balances = st0.balances ∧ (∀ id', EB M.1 id' = EB st0 id') ∧
    (∀ X, AL.get st0.runeEntries X = none → AL.get M.1.runeEntries X = none) ∧
    (∀ e ∈ M.2.2, ∃ a id, e = .runeMinted a height id txid) := by
  subst hM
  split
  · exact ⟨rfl, fun _ => rfl, fun _ h => h, by simp⟩
  · rename_i id
    split
    · rename_i s hm
      obtain ⟨h1, h2, h3⟩ := mint_parts st0 height id s none hm
      exact ⟨h1, h2, h3, by simp⟩
    · rename_i s amount hm
      obtain ⟨h1, h2, h3⟩ := mint_parts st0 height id s (some amount) hm
      exact ⟨h1, h2, h3, by simp⟩

theorem etched_parts (st : State) (blk : Block) (i : Nat) (tx : Tx) (art : Artifact) (st' : State)
    (et : Option (RuneId × Nat)) (h : etched st blk i tx art = .ok (st', et)) :
    st'.runeEntries = st.runeEntries ∧ st'.balances = st.balances ∧
    ∀ id rune, et = some (id, rune) → id = ⟨blk.height, i⟩ := by
  unfold etched at h
  dsimp only at h
  split at h
  · simp only [Outcome.ok.injEq, Prod.mk.injEq] at h; obtain ⟨rfl, rfl⟩ := h; exact ⟨rfl, rfl, by simp⟩
  · split at h
    · simp only [Outcome.ok.injEq, Prod.mk.injEq] at h; obtain ⟨rfl, rfl⟩ := h; exact ⟨rfl, rfl, by simp⟩
    · split at h
      · cases h
      · cases h
      · simp only [Outcome.ok.injEq, Prod.mk.injEq] at h; obtain ⟨rfl, rfl⟩ := h; exact ⟨rfl, rfl, by simp⟩
      · simp only [Outcome.ok.injEq, Prod.mk.injEq] at h; obtain ⟨rfl, rfl⟩ := h
        exact ⟨rfl, rfl, fun id rune he => by simp only [Option.some.injEq, Prod.mk.injEq] at he; exact he.1.symm⟩
  · simp only [Outcome.ok.injEq, Prod.mk.injEq] at h; obtain ⟨rfl, rfl⟩ := h
    exact ⟨rfl, rfl, fun id rune he => by simp only [Option.some.injEq, Prod.mk.injEq] at he; exact he.1.symm⟩

theorem createRuneEntry_parts (st : State) (blk : Block) (tx : Tx) (art : Artifact) (id : RuneId) (rune : Nat) :
    (createRuneEntry st blk tx art id rune).1.balances = st.balances ∧
    (AL.get st.runeEntries id = none → ∀ id', EB (createRuneEntry st blk tx art id rune).1 id' = EB st id') ∧
    (createRuneEntry st blk tx art id rune).2 = [.runeEtched blk.height id tx.txid] := by
  have hb : ∀ e : RuneEntry, (match art with
      | .cenotaph .. => (⟨id.block, 0, 0, tx.txid, 0, st.runes, 0, rune, 0, none, none, blk.time, false⟩ : RuneEntry)
      | .runestone _ (some e) _ _ =>
        ⟨id.block, 0, e.divisibility.getD 0, tx.txid, 0, st.runes, e.premine.getD 0, rune, e.spacers.getD 0,
          e.symbol, e.terms, blk.time, e.turbo⟩
      | .runestone _ none _ _ => default) = e → e.burned = 0 := by
    intro e he
    subst he
    split <;> rfl
  unfold createRuneEntry
  refine ⟨?_, ?_, rfl⟩
  · dsimp only
    split <;> rfl
  · intro habs id'
    dsimp only
    split <;> (dsimp only [EB]; rw [AL.get_set]; split
               · rename_i hid
                 have : id = id' := by simpa using hid
                 subst this
                 simp only [Option.map_some, Option.getD_some, habs, Option.map_none, Option.getD_none]
                 exact hb _ rfl
               · rfl)

/-- what a `RuneTransferred` row write looks like -/
def IsXfer (blk : Block) (tx : Tx) (e : Event) : Prop :=
  ∃ a op id, e = .runeTransferred a blk.height op id tx.txid

/-- phase-1 events: at most one `RuneMinted`, then at most one `RuneEtched`, all with this txid -/
def IsMintEtch (blk : Block) (tx : Tx) (e : Event) : Prop :=
  (∃ a id, e = .runeMinted a blk.height id tx.txid) ∨ (∃ id, e = .runeEtched blk.height id tx.txid)

/-- The pieces of one successful `indexRunesTx`. -/
theorem indexRunesTx_parts (st : State) (blk : Block) (i : Nat) (tx : Tx) (bb : Balances) (st' : State)
    (bb' : Balances) (evs : List Event) (hx : indexRunesTx st blk i tx bb = .ok (st', bb', evs)) :
    ∃ st0 un0 st3 evs1 alloc2 burned0 burned evs2,
      takeInputs tx.inputs st [] = .ok (st0, un0) ∧
      st3.balances = st0.balances ∧
      (AL.get st0.runeEntries ⟨blk.height, i⟩ = none → ∀ id, EB st3 id = EB st0 id) ∧
      (∀ e ∈ evs1, IsMintEtch blk tx e) ∧
      writeOutputs blk tx (enumFrom 0 alloc2) st3 burned0 evs1 = .ok (st', burned, evs2) ∧
      addAllTo burned bb false = .ok bb' ∧
      evs = evs2 ++ burned.map (fun (id, a) => Event.runeBurned a blk.height id tx.txid) := by
  unfold indexRunesTx at hx
  split at hx
  · cases hx
  · cases hx
  · rename_i st0 un0 hti
    dsimp only at hx
    split at hx
    · cases hx
    · cases hx
    · rename_i st3 un alloc evs1 hp1
      have hp : st3.balances = st0.balances ∧
          (AL.get st0.runeEntries ⟨blk.height, i⟩ = none → ∀ id, EB st3 id = EB st0 id) ∧
          (∀ e ∈ evs1, IsMintEtch blk tx e) := by
        split at hp1
        · simp only [Outcome.ok.injEq, Prod.mk.injEq] at hp1
          obtain ⟨rfl, -, -, rfl⟩ := hp1
          exact ⟨rfl, fun _ _ => rfl, by simp⟩
        · rename_i art hart
          have hM := fun mid => mintTriple_parts (st0 := st0) mid un0 blk.height tx.txid _ rfl
          split at hp1
          · cases hp1
          · cases hp1
          · split at hp1
            · cases hp1
            · cases hp1
            · rename_i st2 et het
              obtain ⟨he1, he2, he3⟩ := etched_parts _ _ _ _ _ _ _ het
              obtain ⟨m1, m2, m3, m4⟩ := hM _
              split at hp1
              · cases hp1
              · cases hp1
              · split at hp1
                · simp only [Outcome.ok.injEq, Prod.mk.injEq] at hp1
                  obtain ⟨rfl, -, -, rfl⟩ := hp1
                  obtain ⟨c1, c2, c3⟩ := createRuneEntry_parts st2 blk tx art _ _
                  have hid := he3 _ _ rfl
                  refine ⟨c1.trans (he2.trans m1), ?_, ?_⟩
                  · intro habs id
                    refine (c2 ?_ id).trans ?_
                    · rw [he1, hid]; exact m3 _ habs
                    · unfold EB; rw [he1]; exact m2 id
                  · intro e he
                    rcases List.mem_append.1 he with he | he
                    · exact Or.inl (m4 e he)
                    · rw [c3] at he
                      simp only [List.mem_singleton] at he
                      exact Or.inr ⟨_, he⟩
                · simp only [Outcome.ok.injEq, Prod.mk.injEq] at hp1
                  obtain ⟨rfl, -, -, rfl⟩ := hp1
                  refine ⟨he2.trans m1, ?_, fun e he => Or.inl (m4 e he)⟩
                  intro _ id
                  unfold EB
                  rw [he1]
                  exact m2 id
      split at hx
      · cases hx
      · cases hx
      · split at hx
        · cases hx
        · cases hx
        · rename_i st4 burned evs2 hwo
          split at hx
          · cases hx
          · cases hx
          · rename_i bb1 hadd
            simp only [Outcome.ok.injEq, Prod.mk.injEq] at hx
            obtain ⟨rfl, rfl, rfl⟩ := hx
            exact ⟨st0, un0, st3, evs1, _, _, burned, evs2, hti, hp.1, hp.2.1, hp.2.2, hwo, hadd, rfl⟩


/-! ### burned totals through a transaction, a block, `applyBlock`, `run` -/

/-- replayed burn sum = entry's `burned` + not yet flushed burns of the block -/
def BInv (rs : ReplayState) (st : State) (bb : Balances) : Prop := ∀ id, rb rs id = EB st id + lk0 bb id

theorem EB_congr {st st' : State} (h : st'.runeEntries = st.runeEntries) (id : RuneId) : EB st' id = EB st id := by
  unfold EB; rw [h]

theorem indexRunesTx_binv (c : List Block) {rs : ReplayState} {st : State} {bb : Balances} (h : BInv rs st bb)
    (blk : Block) (i : Nat) (tx : Tx) (st' : State) (bb' : Balances) (evs : List Event)
    (habs : AL.get st.runeEntries ⟨blk.height, i⟩ = none)
    (hx : indexRunesTx st blk i tx bb = .ok (st', bb', evs)) : BInv (evs.foldl (applyEvent c) rs) st' bb' := by
  obtain ⟨st0, un0, st3, evs1, alloc2, burned0, burned, evs2, hti, -, h3, hev1, hwo, hadd, rfl⟩ :=
    indexRunesTx_parts st blk i tx bb st' bb' evs hx
  have h0 := takeInputs_rframe _ _ _ _ _ hti
  obtain ⟨hre, add, rfl, hadd2⟩ := writeOutputs_rframe blk tx _ _ _ _ _ _ _ hwo
  have hEB : ∀ id, EB st' id = EB st id := fun id =>
    (EB_congr hre id).trans ((h3 (by rw [h0]; exact habs) id).trans (EB_congr h0 id))
  rw [List.foldl_append]
  refine burn_fold c blk.height tx.txid burned bb bb' _ (EB st') hadd ?_
  intro id
  rw [rb_bneutral, hEB id]
  · exact h id
  · intro e he
    rcases List.mem_append.1 he with he | he
    · rcases hev1 e he with ⟨a, id, rfl⟩ | ⟨id, rfl⟩ <;> trivial
    · obtain ⟨a, op, id, rfl⟩ := hadd2 e he
      trivial

theorem go_binv (c : List Block) (blk : Block) : ∀ (txs : List Tx) (t0 : Nat) (st : State) (bb : Balances)
    (evs0 : List Event) (st' : State) (bb' : Balances) (evs : List Event) (rs : ReplayState),
    Runemint.RInv st blk.height t0 → t0 + txs.length ≤ 4294967296 →
    BInv (evs0.foldl (applyEvent c) rs) st bb →
    indexRunesBlock.go blk (enumFrom t0 txs) st bb evs0 = .ok (st', bb', evs) →
    BInv (evs.foldl (applyEvent c) rs) st' bb'
  | [], t0, st, bb, evs0, st', bb', evs, rs, _, _, h, hg => by
    simp only [enumFrom, indexRunesBlock.go, Outcome.ok.injEq, Prod.mk.injEq] at hg
    obtain ⟨rfl, rfl, rfl⟩ := hg
    exact h
  | tx :: rest, t0, st, bb, evs0, st', bb', evs, rs, hR, hlen, h, hg => by
    simp only [enumFrom, indexRunesBlock.go] at hg
    simp only [List.length_cons] at hlen
    split at hg
    · cases hg
    · cases hg
    · rename_i st1 bb1 evs1 htx
      have habs : AL.get st.runeEntries ⟨blk.height, t0⟩ = none := by
        cases hg' : AL.get st.runeEntries ⟨blk.height, t0⟩ with
        | none => rfl
        | some e =>
          have := (hR.ids _ e hg').2.2
          unfold Runemint.idBefore at this; simp at this
      have hR1 := (Runemint.tx_step hR blk tx bb st1 bb1 evs1 rfl (by omega) htx).1
      refine go_binv c blk rest (t0 + 1) st1 bb1 _ st' bb' evs rs hR1 (by omega) ?_ hg
      rw [List.foldl_append]
      exact indexRunesTx_binv c h blk t0 tx st1 bb1 evs1 habs htx

theorem indexRunesBlock_binv (c : List Block) {rs : ReplayState} {st : State} {seen : List Tx}
    (hS : RuneLift.SInv seen st []) (hR : Runemint.RInv st blk.height 0) (h : BInv rs st [])
    (hlen : blk.txs.length ≤ 4294967296) (hnd : ((seen ++ blk.txs).map (·.txid)).Nodup)
    (st' : State) (evs : List Event) (hb : indexRunesBlock st blk = .ok (st', evs)) :
    BInv (evs.foldl (applyEvent c) rs) st' [] := by
  unfold indexRunesBlock at hb
  split at hb
  · cases hb
  · cases hb
  · rename_i st1 bb evs1 hgo
    split at hb
    · cases hb
    · cases hb
    · rename_i st2 hfl
      simp only [Outcome.ok.injEq, Prod.mk.injEq] at hb
      obtain ⟨rfl, rfl⟩ := hb
      have h1 := go_binv c blk blk.txs 0 st [] [] st1 bb evs1 rs hR (by omega) (by simpa using h) hgo
      have hS1 := (RuneLift.go_supply blk blk.txs 0 seen st [] [] st1 bb evs1 hS hR (by omega) hnd hgo).1
      obtain ⟨-, -, hget⟩ := RuneLift.flushBurned_entries bb st1 st2 hfl hS1.bbNodup hS1.entNodup
      intro id
      rw [h1 id]
      unfold EB lk0
      rw [hget id]
      cases hg : AL.get st1.runeEntries id with
      | none =>
        have := hS1.bbZero id hg
        unfold Spec.lk at this
        simp [this, AL.get]
      | some e =>
        simp [Spec.lk, AL.get]

theorem applyBlock_binv (c : List Block) (cfg : Cfg) {rs : ReplayState} {st : State} {seen : List Tx}
    (hS : RuneLift.SInv seen st []) (hR : Runemint.RInv st blk.height 0) (h : BInv rs st [])
    (hlen : blk.txs.length ≤ 4294967296) (hnd : ((seen ++ blk.txs).map (·.txid)).Nodup)
    (st' : State) (evs : List Event) (hb : applyBlock cfg st blk = .ok (st', evs)) :
    BInv (evs.foldl (applyEvent c) rs) st' [] := by
  unfold applyBlock at hb
  dsimp only at hb
  split at hb
  · cases hb
  · cases hb
  · rename_i st1 ev1 h1
    have hf : Runemint.RuneFrame st st1 ∧ InsOnly ev1 := by
      split at h1
      · exact ⟨RuneLift.indexUtxoEntries_frame cfg st blk st1 ev1 h1, (indexUtxoEntries_rsame cfg st blk st1 ev1 h1).2⟩
      · simp only [Outcome.ok.injEq, Prod.mk.injEq] at h1
        obtain ⟨rfl, rfl⟩ := h1
        exact ⟨RuneLift.frame_refl _, by simp [InsOnly]⟩
    have hS1 := RuneLift.SInv_of_frame hf.1 hS
    have hR1 := Runemint.RInv_of_frame hf.1 hR
    have hB1 : BInv (ev1.foldl (applyEvent c) rs) st1 [] := by
      intro id
      rw [rb_bneutral, EB_congr hf.1.1 id]
      · exact h id
      · intro e he
        have := hf.2 e he
        cases e <;> simp_all [BNeutral, evTxid]
    split at hb
    · cases hb
    · cases hb
    · rename_i st2 ev2 h2
      simp only [Outcome.ok.injEq, Prod.mk.injEq] at hb
      obtain ⟨rfl, rfl⟩ := hb
      rw [List.foldl_append]
      have : BInv (ev2.foldl (applyEvent c) (ev1.foldl (applyEvent c) rs)) st2 [] := by
        split at h2
        · exact indexRunesBlock_binv c hS1 hR1 hB1 hlen hnd st2 ev2 h2
        · simp only [Outcome.ok.injEq, Prod.mk.injEq] at h2
          obtain ⟨rfl, rfl⟩ := h2
          exact hB1
      intro id
      exact this id

/-- burned totals agree after every successfully indexed chain of consecutive blocks without a
repeated txid -/
theorem run_binv (c : List Block) (cfg : Cfg) (chain : List Block) (st : State) (evs : List Event)
    (hr : run cfg chain = .ok (st, evs)) (hc : RuneLift.SupplyChainOK chain) :
    ∀ id, rb (evs.foldl (applyEvent c) {}) id = EB st id := by
  have := run_induct cfg
    (fun pre st evs => RuneLift.SupplyChainOK pre →
      (RuneLift.SInv (pre.flatMap (·.txs)) st [] ∧ Runemint.RInv st pre.length 0) ∧
      BInv (evs.foldl (applyEvent c) {}) st [])
    (fun _ => ⟨⟨RuneLift.SInv_empty, Runemint.RInv_empty 0 0⟩, fun _ => rfl⟩)
    (fun pre st evs b st' ev' ih hb hok => by
      obtain ⟨hpre, hh, hl, hnd⟩ := RuneLift.supplyChainOK_snoc hok
      obtain ⟨⟨hS, hR⟩, hB⟩ := ih hpre
      have hR' := Runemint.applyBlock_inv cfg (RuneLift.frameOK cfg) hR b st' ev' hh hl hb
      have hS' := RuneLift.applyBlock_supply cfg hS hR b st' ev' hh hl hnd hb
      refine ⟨by simpa [List.flatMap_append] using And.intro hS' hR', ?_⟩
      rw [List.foldl_append]
      exact applyBlock_binv c cfg hS (hh ▸ hR) hB hl hnd st' ev' hb)
    chain st evs hr
  intro id
  have h := (this hc).2 id
  simpa [lk0, AL.get] using h

end Ord.Index
