import OrdModel.Server.Pagination
import OrdModel.Server.Oracle
/-
List lemmas behind the C18 pagination clauses: for every list length, page size and page number.
-/
namespace Ord.Server

variable {α : Type}

theorem pageOf_items (l : List α) (size page : Nat) :
    (pageOf l size page).1 = (l.drop (page * size)).take size := by
  simp [pageOf, List.take_take]

theorem pageOf_more (l : List α) (size page : Nat) :
    (pageOf l size page).2 = true ↔ (page + 1) * size < l.length := by
  simp only [pageOf, decide_eq_true_eq, List.length_take, List.length_drop]
  rw [Nat.add_mul, Nat.one_mul]
  omega

theorem pageOf_items_length_le (l : List α) (size page : Nat) :
    (pageOf l size page).1.length ≤ size := by
  rw [pageOf_items]; simp [List.length_take]; omega

/-- a page at or beyond the end of the list is empty and has no successor -/
theorem pageOf_beyond (l : List α) (size page : Nat) (h : l.length ≤ page * size) :
    pageOf l size page = ([], false) := by
  have hd : l.drop (page * size) = [] := List.drop_eq_nil_of_le h
  simp [pageOf, hd]

theorem pageOf_items_ne_nil (l : List α) (size page : Nat) :
    (pageOf l size page).1 ≠ [] ↔ 0 < size ∧ page * size < l.length := by
  rw [pageOf_items, Ne, ← List.length_eq_zero_iff, List.length_take, List.length_drop]
  omega

/-- `more` says exactly whether the next page is non-empty -/
theorem pageOf_more_iff_next (l : List α) (size page : Nat) (hs : 0 < size) :
    (pageOf l size page).2 = true ↔ (pageOf l size (page + 1)).1 ≠ [] := by
  rw [pageOf_more, pageOf_items_ne_nil]
  constructor
  · intro h; exact ⟨hs, h⟩
  · intro h; exact h.2

/-- the first `n` pages concatenate to the first `n * size` items -/
theorem pageOf_concat (l : List α) (size : Nat) :
    ∀ n, ((List.range n).map (fun p => (pageOf l size p).1)).flatten = l.take (n * size) := by
  intro n
  induction n with
  | zero => simp
  | succ n ih =>
    rw [List.range_succ, List.map_append, List.flatten_append, ih]
    simp only [List.map_cons, List.map_nil, List.flatten_cons, List.flatten_nil, List.append_nil, pageOf_items]
    rw [Nat.add_mul, Nat.one_mul, List.take_add]

/-- enough pages concatenate to the whole list -/
theorem pageOf_concat_all (l : List α) (size n : Nat) (h : l.length ≤ n * size) :
    ((List.range n).map (fun p => (pageOf l size p).1)).flatten = l := by
  rw [pageOf_concat, List.take_of_length_le h]

/-- the `i`-th item of the list is item `i % size` of page `i / size` -/
theorem pageOf_getElem (l : List α) (size : Nat) (hs : 0 < size) (i : Nat) :
    (pageOf l size (i / size)).1[i % size]? = l[i]? := by
  rw [pageOf_items, List.getElem?_take]
  have hm : i % size < size := Nat.mod_lt _ hs
  simp only [hm, if_true, List.getElem?_drop]
  congr 1
  rw [Nat.mul_comm]; exact Nat.div_add_mod i size

/-! ### checked / saturating variants -/

theorem pageChecked_ok (l : List α) (size page : Nat) (h : page * size < USIZE) :
    pageChecked l size page = .ok (pageOf l size page) := by
  simp [pageChecked, h]

theorem pageChecked_panic (l : List α) (size page : Nat) (h : USIZE ≤ page * size) :
    pageChecked l size page = .panic "page_index * page_size" := by
  simp [pageChecked, Nat.not_lt.mpr h]

theorem pageSat_eq_pageOf (l : List α) (size page : Nat) (hl : l.length < USIZE) :
    pageSat l size page = pageOf l size page := by
  unfold pageSat pageOf
  by_cases h : page * size < USIZE
  · simp [h]
  · have h1 : l.drop (USIZE - 1) = [] := List.drop_eq_nil_of_le (by omega)
    have h2 : l.drop (page * size) = [] := List.drop_eq_nil_of_le (by omega)
    simp [h, h1, h2]

/-! ### the children / parents accessors, unrepaired and repaired -/

theorem pageKids_unfixed (l : List α) (size page : Nat) :
    pageKids false l size page = pageChecked l size page := by
  simp [pageKids]

/-- with `saturating_mul` every page number answers, and answers the plain page -/
theorem pageKids_fixed (l : List α) (size page : Nat) (hl : l.length < USIZE) :
    pageKids true l size page = .ok (pageOf l size page) := by
  simp [pageKids, pageSat_eq_pageOf l size page hl]

/-- whichever variant the source has, a 200 answer is the plain page -/
theorem pageKids_ok (fixed : Bool) (l : List α) (size page : Nat) (hl : l.length < USIZE)
    (r : List α × Bool) (h : pageKids fixed l size page = .ok r) : r = pageOf l size page := by
  cases fixed with
  | true => rw [pageKids_fixed l size page hl] at h; cases h; rfl
  | false =>
    rw [pageKids_unfixed] at h
    by_cases hp : page * size < USIZE
    · rw [pageChecked_ok _ _ _ hp] at h; cases h; rfl
    · rw [pageChecked_panic _ _ _ (Nat.le_of_not_lt hp)] at h; cases h

/-! ### signed indexing -/

theorem nthSigned_nonneg (l : List α) (n : Nat) : nthSigned l (n : Int) = l[n]? := by
  have h : ¬ ((n : Int) < 0) := by omega
  simp [nthSigned, h]

/-- `-k` (`k ≥ 1`) is the `k`-th item from the end; `none` when the list is shorter -/
theorem nthSigned_neg (l : List α) (k : Nat) (hk : 1 ≤ k) :
    nthSigned l (-(k : Int)) = if k ≤ l.length then l[l.length - k]? else none := by
  have hneg : (-(k : Int)) < 0 := by omega
  have habs : (-(k : Int) + 1).natAbs = k - 1 := by omega
  simp only [nthSigned, hneg, if_true, habs]
  by_cases h : k ≤ l.length
  · simp only [h, if_true]
    rw [List.getElem?_reverse (by omega)]
    congr 1; omega
  · simp only [h, if_false]
    rw [List.getElem?_eq_none]; simp; omega

theorem nthSigned_last (l : List α) : nthSigned l (-1) = l.getLast? := by
  have := nthSigned_neg l 1 (Nat.le_refl 1)
  simp only [Int.natCast_one] at this
  rw [this]
  cases l with
  | nil => simp
  | cons a t =>
    simp only [List.length_cons, Nat.le_add_left, if_true, Nat.add_sub_cancel]
    rw [List.getLast?_eq_getElem?]; simp

/-! ### latest-inscriptions window -/

theorem downFrom_length (hi n : Nat) : (downFrom hi n).length = n := by
  induction n generalizing hi with
  | zero => rfl
  | succ n ih => simp [downFrom, ih]

/-- closed form of one page of `get_inscriptions_paginated` while the page starts inside the
table (`size * page ≤ n - 1`): the `min size (remaining)` newest remaining sequence numbers,
descending, and `more` exactly when at least `size` older ones remain below the window start -/
theorem latestSeqs_spec (n size page : Nat) (hn : 0 < n) (hp : size * page ≤ n - 1) :
    latestSeqs n size page =
      (downFrom (n - 1 - size * page) (min size (n - size * page)), decide (size ≤ n - 1 - size * page)) := by
  unfold latestSeqs
  have hn0 : n ≠ 0 := by omega
  simp only [hn0, if_false]
  by_cases hm : size ≤ n - 1 - size * page
  · have e1 : n - 1 - size * page - (n - 1 - size * page - size) + 1 = size + 1 := by omega
    have h4 : min size (n - size * page) = size := by omega
    simp [e1, hm, h4]
  · have e1 : n - 1 - size * page - (n - 1 - size * page - size) + 1 = n - size * page := by omega
    have hlt : ¬ size < n - size * page := by omega
    have h4 : min size (n - size * page) = n - size * page := by omega
    rw [e1, h4]
    simp [hlt, hm]

/-- beyond the end the window collapses onto sequence number 0: the page is NOT empty -/
theorem latestSeqs_beyond (n size page : Nat) (hn : 0 < n) (hp : n - 1 < size * page) :
    latestSeqs n size page = ([0], false) := by
  unfold latestSeqs
  have hn0 : n ≠ 0 := by omega
  have h0 : n - 1 - size * page = 0 := by omega
  have hs : size ≠ 0 := by intro h; subst h; simp at hp
  simp [hn0, h0, hs, downFrom]

/-! ### the oracle predicate is sound for `pageOf` -/

theorem pagesChain_of {l : List α} {size : Nat} (hs : 0 < size) :
    ∀ (k p : Nat), l.length ≤ (p + k) * size →
      pagesChain ((List.range' p (k + 1)).map (fun q => pageOf l size q)) = true := by
  intro k
  induction k with
  | zero =>
    intro p h
    simp only [Nat.add_zero] at h
    simp [List.range', pagesChain, pageOf_beyond l size p h]
  | succ k ih =>
    intro p h
    have hstep := ih (p + 1) (by rw [Nat.add_assoc, Nat.add_comm 1 k]; exact h)
    rw [show k + 1 + 1 = (k + 1) + 1 from rfl, List.range'_succ, List.map_cons]
    rw [List.range'_succ, List.map_cons] at hstep ⊢
    simp only [pagesChain, Bool.and_eq_true, beq_iff_eq]
    refine ⟨?_, hstep⟩
    have := pageOf_more_iff_next l size p hs
    cases hm : (pageOf l size p).2 <;> cases hn : (pageOf l size (p + 1)).1 <;> simp_all

end Ord.Server
