import OrdModel.Proofs.IndexSatsDen
import OrdModel.Index.Block
/-
One transaction: `fillOutput` / `indexTransactionSats` (the model of
`Updater::index_transaction_sats`) are `takeR`/`dropR`, hence `List.take`/`List.drop` on
ordinals, hence the BIP's `assignOutputs`.
-/
namespace Ord.Index

/-- `(sat, offset)` of the range starts that are not common -/
def rareOf (rs : Ranges) (off : Nat) : List (Nat × Nat) := (rangeStarts rs off).filter (fun p => satRare p.1)

theorem rareOf_nil (off : Nat) : rareOf [] off = [] := rfl

theorem rareOf_cons (s e : Nat) (rest : Ranges) (off : Nat) :
    rareOf ((s, e) :: rest) off = (if satRare s then [(s, off)] else []) ++ rareOf rest (off + (e - s)) := by
  simp only [rareOf, rangeStarts, List.filter_cons]
  split <;> simp

/-- `fillOutput` is exactly `takeR`/`dropR`, and fails exactly when the queue is too short -/
theorem fillOutput_spec (q : Ranges) (v d : Nat) :
    fillOutput q v d =
      if v ≤ lenR q then some ⟨takeR v q, dropR v q, rareOf (takeR v q) d⟩ else none := by
  induction q generalizing v d with
  | nil => cases v <;> simp [fillOutput, lenR, takeR, dropR, rareOf, rangeStarts]
  | cons r q ih =>
    obtain ⟨s, e⟩ := r
    cases v with
    | zero => simp [fillOutput, takeR, dropR, rareOf, rangeStarts]
    | succ n =>
      simp only [fillOutput, takeR, dropR, lenR]
      split
      · have h1 : n + 1 ≤ e - s + lenR q := by omega
        simp only [h1, if_true, rareOf_cons, rareOf_nil, List.append_nil]
      · rw [ih]
        by_cases h : n + 1 - (e - s) ≤ lenR q
        · have h1 : n + 1 ≤ e - s + lenR q := by omega
          simp only [h, h1, if_true, rareOf_cons]
        · have h1 : ¬ n + 1 ≤ e - s + lenR q := by omega
          simp only [h, h1, if_false]

/-- SAT_TO_SATPOINT rows of a transaction's outputs, `(sat, vout, offset)` -/
def rareRows : List Ranges → Nat → List (Nat × Nat × Nat)
  | [], _ => []
  | o :: os, vout => (rareOf o 0).map (fun (s, off) => (s, vout, off)) ++ rareRows os (vout + 1)

theorem indexTransactionSatsAux_spec (vs : List Nat) (vout : Nat) (q : Ranges) :
    indexTransactionSatsAux vs vout q =
      if vs.sum ≤ lenR q then
        some ⟨(BipR.assignOutputs vs q).1, (BipR.assignOutputs vs q).2, rareRows (BipR.assignOutputs vs q).1 vout⟩
      else none := by
  induction vs generalizing vout q with
  | nil => simp [indexTransactionSatsAux, BipR.assignOutputs, rareRows]
  | cons v vs ih =>
    simp only [indexTransactionSatsAux, fillOutput_spec, List.sum_cons, BipR.assignOutputs]
    by_cases hv : v ≤ lenR q
    · simp only [hv, if_true, ih, lenR_dropR]
      by_cases h2 : vs.sum ≤ lenR q - v
      · have : v + vs.sum ≤ lenR q := by omega
        simp only [h2, this, if_true, rareRows]
      · have : ¬ v + vs.sum ≤ lenR q := by omega
        simp only [h2, this, if_false]
    · have : ¬ v + vs.sum ≤ lenR q := by omega
      simp only [hv, this, if_false]

theorem indexTransactionSats_spec (vs : List Nat) (q : Ranges) :
    indexTransactionSats vs q =
      if vs.sum ≤ lenR q then
        some ⟨(BipR.assignOutputs vs q).1, (BipR.assignOutputs vs q).2, rareRows (BipR.assignOutputs vs q).1 0⟩
      else none := indexTransactionSatsAux_spec vs 0 q

/-- the range-level BIP is the BIP under `den` -/
theorem assignOutputsR_den (vs : List Nat) (q : Ranges) :
    ((BipR.assignOutputs vs q).1.map den, den (BipR.assignOutputs vs q).2) = Bip.assignOutputs vs (den q) := by
  induction vs generalizing q with
  | nil => simp [BipR.assignOutputs, Bip.assignOutputs]
  | cons v vs ih =>
    have := ih (dropR v q)
    simp only [BipR.assignOutputs, Bip.assignOutputs, List.map_cons, den_takeR, ← den_dropR]
    rw [← this]

theorem assignOutputsR_length (vs : List Nat) (q : Ranges) : (BipR.assignOutputs vs q).1.length = vs.length := by
  induction vs generalizing q with
  | nil => simp [BipR.assignOutputs]
  | cons v vs ih => simp [BipR.assignOutputs, ih]

theorem assignOutputs_length (vs : List Nat) (o : List Nat) : (Bip.assignOutputs vs o).1.length = vs.length := by
  induction vs generalizing o with
  | nil => simp [Bip.assignOutputs]
  | cons v vs ih => simp [Bip.assignOutputs, ih]

/-- nothing is created or destroyed: outputs in order followed by the rest are the inputs -/
theorem assignOutputs_flatten (vs : List Nat) (o : List Nat) :
    (Bip.assignOutputs vs o).1.flatten ++ (Bip.assignOutputs vs o).2 = o := by
  induction vs generalizing o with
  | nil => simp [Bip.assignOutputs]
  | cons v vs ih =>
    simp only [Bip.assignOutputs, List.flatten_cons, List.append_assoc, ih]
    exact List.take_append_drop v o

theorem assignOutputsR_flatten_den (vs : List Nat) (q : Ranges) :
    den ((BipR.assignOutputs vs q).1.flatten ++ (BipR.assignOutputs vs q).2) = den q := by
  induction vs generalizing q with
  | nil => simp [BipR.assignOutputs]
  | cons v vs ih =>
    simp only [BipR.assignOutputs, List.flatten_cons, List.append_assoc, den_append] at ih ⊢
    rw [ih, takeR_dropR_den]

theorem assignOutputsR_WF (vs : List Nat) (q : Ranges) (hq : WF q) :
    (∀ o ∈ (BipR.assignOutputs vs q).1, WF o) ∧ WF (BipR.assignOutputs vs q).2 := by
  induction vs generalizing q with
  | nil => simp [BipR.assignOutputs, hq]
  | cons v vs ih =>
    obtain ⟨h1, h2⟩ := ih (dropR v q) (WF_dropR v q hq)
    simp only [BipR.assignOutputs, List.mem_cons, forall_eq_or_imp]
    exact ⟨⟨WF_takeR v q hq, h1⟩, h2⟩

/-- each output of value `v` gets exactly `v` sats when the inputs suffice -/
theorem assignOutputsR_lens (vs : List Nat) (q : Ranges) (h : vs.sum ≤ lenR q) :
    (BipR.assignOutputs vs q).1.map lenR = vs := by
  induction vs generalizing q with
  | nil => simp [BipR.assignOutputs]
  | cons v vs ih =>
    simp only [List.sum_cons] at h
    simp only [BipR.assignOutputs, List.map_cons, lenR_takeR]
    rw [ih (dropR v q) (by rw [lenR_dropR]; omega)]
    congr 1; omega

/-- `a` is `b` with some ranges cut into consecutive pieces (never merged, never reordered) -/
inductive Splits : Ranges → Ranges → Prop
  | nil : Splits [] []
  | keep (r : Nat × Nat) {a b : Ranges} : Splits a b → Splits (r :: a) (r :: b)
  | cut {s m e : Nat} {a b : Ranges} : s < m → m < e → Splits a ((m, e) :: b) → Splits ((s, m) :: a) ((s, e) :: b)

theorem Splits.refl (q : Ranges) : Splits q q := by
  induction q with
  | nil => exact .nil
  | cons r q ih => exact .keep r ih

theorem Splits.trans {a b c : Ranges} (h1 : Splits a b) (h2 : Splits b c) : Splits a c := by
  induction h1 generalizing c with
  | nil => exact h2
  | keep r _ ih =>
    cases h2 with
    | keep _ h => exact .keep r (ih h)
    | cut hs he h => exact .cut hs he (ih h)
  | cut hs he _ ih =>
    cases h2 with
    | keep _ h => exact .cut hs he (ih (.keep _ h))
    | cut hs2 he2 h => exact .cut hs (by omega) (ih (.cut he he2 h))

theorem Splits.append_left (p : Ranges) {a b : Ranges} (h : Splits a b) : Splits (p ++ a) (p ++ b) := by
  induction p with
  | nil => exact h
  | cons r p ih => exact .keep r ih

theorem splits_takeR_dropR (n : Nat) (q : Ranges) (hq : WF q) : Splits (takeR n q ++ dropR n q) q := by
  rcases takeR_dropR_split n q hq with h | ⟨pre, s, m, e, post, hq', hs, he, ht, hd⟩
  · rw [h]; exact Splits.refl q
  · rw [ht, hd, hq', List.append_assoc]
    exact Splits.append_left pre (.cut hs he (Splits.refl _))

theorem splits_assignOutputsR (vs : List Nat) (q : Ranges) (hq : WF q) :
    Splits ((BipR.assignOutputs vs q).1.flatten ++ (BipR.assignOutputs vs q).2) q := by
  induction vs generalizing q with
  | nil => simpa [BipR.assignOutputs] using Splits.refl q
  | cons v vs ih =>
    simp only [BipR.assignOutputs, List.flatten_cons, List.append_assoc]
    exact Splits.trans (Splits.append_left _ (ih (dropR v q) (WF_dropR v q hq))) (splits_takeR_dropR v q hq)

theorem Splits.den_eq {a b : Ranges} (h : Splits a b) : den a = den b := by
  induction h with
  | nil => rfl
  | keep r _ ih => obtain ⟨s, e⟩ := r; simp [ih]
  | @cut s m e a b hs he _ ih =>
    simp only [den_cons] at ih ⊢
    rw [ih, ← List.append_assoc]
    congr 1
    have : e - s = (m - s) + (e - m) := by omega
    rw [this, ← List.range'_append_1]
    congr 2; omega

end Ord.Index
