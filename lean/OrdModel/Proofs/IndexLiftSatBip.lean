import OrdModel.Proofs.IndexLiftSatBlock
/-
Sat-side lift, part 4 (C01, block level): the sat-only projection of `applyBlock` is the BIP's
`assign_ordinals(block)` (`Bip.assignBlock`, `OrdModel/Index/Bip.lean`) on explicit ordinal
lists.

Simulation relation `BRel m tbl c`: the BIP's map of unspent outputs `m` is, outpoint by
outpoint, the overlay "cache `c` first, then table `tbl`" of the updater under `den`.  A spent
input leaves both (`gather` ≙ `takeInputEntries`), a created output enters both (`place` ≙ the
cache writes), the leftovers accumulate on the coinbase's ordinals, the coinbase is processed
last, its leftover is the block's unclaimed ordinals = the lost ranges appended to the null
outpoint; committing the cache (`flushCache`) turns the overlay into the new table.

The one place where updater and BIP differ is documented in notes/C01.md: an input found in the
cache is removed from the cache only, so an *older table entry under the same outpoint*
(duplicate txid, non-coinbase, spent again in the same block) would resurface.  Hypothesis
`NoShadow` excludes exactly that; it is implied by "no transaction of the block other than the
coinbase reuses the txid of an unspent output" (`noShadow_of_fresh`).  Duplicate *coinbases*
(the historical case) are covered: the coinbase is indexed last and displaces by `AL.set`.
-/
namespace Ord.Index
open Outcome Ord.Index.Sched

/-- the ordinals an entry holds -/
def ordsOf (e : UtxoEntry) : List Nat := den e.ranges

/-- **sat-only projection** of the UTXO table: outpoint ↦ its ordinals, in order -/
def satProj (u : List (OutPoint × UtxoEntry)) : Bip.Outs := u.map (fun p => (p.1, ordsOf p.2))

theorem get_satProj (u : List (OutPoint × UtxoEntry)) (op : OutPoint) :
    AL.get (satProj u) op = (AL.get u op).map ordsOf := by
  induction u with
  | nil => rfl
  | cons p u ih =>
    obtain ⟨k, e⟩ := p
    show AL.get ((k, ordsOf e) :: satProj u) op = _
    simp only [AL.get]
    by_cases h : (k == op) = true
    · simp [h]
    · simp [h, ih]

theorem keys_satProj (u : List (OutPoint × UtxoEntry)) : AL.keys (satProj u) = AL.keys u := by
  simp [AL.keys, satProj, List.map_map, Function.comp_def]

/-- what the BIP reads of a transaction -/
def btxOf (tx : Tx) : Bip.BTx := ⟨tx.txid, tx.inputs.map (·.prev), tx.outputs.map (·.value)⟩

/-- the simulation relation -/
structure BRel (m : Bip.Outs) (tbl : List (OutPoint × UtxoEntry)) (c : Cache) : Prop where
  get : ∀ op, AL.get m op = (ovN tbl c op).map ordsOf
  mN : (AL.keys m).Nodup
  tN : (AL.keys tbl).Nodup
  cN : (AL.keys c).Nodup

theorem AL_get_erase_ne_none {κ ν : Type} [BEq κ] [LawfulBEq κ] [DecidableEq κ] (l : List (κ × ν)) (k op : κ)
    (hn : (AL.keys l).Nodup) (h : AL.get (AL.erase l k) op ≠ none) : AL.get l op ≠ none := by
  rw [AL_get_erase _ _ _ hn] at h
  split at h
  · exact absurd rfl h
  · exact h

/-! ### spending: `takeInputEntries` ≙ `gather` -/

/-- the two ways a lookup step can succeed -/
theorem takeOne_cases (cfg : Cfg) (bc : BlockCtx) (i : TxIn) (bc' : BlockCtx) (e : UtxoEntry)
    (h : takeOne cfg bc i = .ok (bc', e)) :
    (AL.get bc.cache i.prev = some e ∧ bc'.cache = AL.erase bc.cache i.prev ∧ bc'.st.utxo = bc.st.utxo) ∨
    (AL.get bc.cache i.prev = none ∧ AL.get bc.st.utxo i.prev = some e ∧ bc'.cache = bc.cache ∧
      bc'.st.utxo = AL.erase bc.st.utxo i.prev) := by
  unfold takeOne at h
  split at h
  · rename_i e0 hc
    simp only [Outcome.ok.injEq, Prod.mk.injEq] at h
    obtain ⟨rfl, rfl⟩ := h
    exact Or.inl ⟨hc, rfl, rfl⟩
  · rename_i hc
    split at h
    · rename_i e0 ht
      simp only at h
      split at h
      · split at h
        · simp only [Outcome.ok.injEq, Prod.mk.injEq] at h
          obtain ⟨rfl, rfl⟩ := h
          exact Or.inr ⟨hc, ht, rfl, rfl⟩
        · cases h
      · simp only [Outcome.ok.injEq, Prod.mk.injEq] at h
        obtain ⟨rfl, rfl⟩ := h
        exact Or.inr ⟨hc, ht, rfl, rfl⟩
    · cases h

theorem takeOne_brel (cfg : Cfg) (bc : BlockCtx) (i : TxIn) (bc' : BlockCtx) (e : UtxoEntry) (m : Bip.Outs)
    (hR : BRel m bc.st.utxo bc.cache)
    (hsh : AL.get bc.cache i.prev ≠ none → AL.get bc.st.utxo i.prev = none)
    (h : takeOne cfg bc i = .ok (bc', e)) :
    AL.get m i.prev = some (ordsOf e) ∧ BRel (AL.erase m i.prev) bc'.st.utxo bc'.cache ∧
    (∀ op, AL.get bc'.cache op ≠ none → AL.get bc.cache op ≠ none) ∧
    (∀ op, AL.get bc'.st.utxo op ≠ none → AL.get bc.st.utxo op ≠ none) := by
  rcases takeOne_cases cfg bc i bc' e h with ⟨hc, hc', ht'⟩ | ⟨hc, ht, hc', ht'⟩
  · have htn : AL.get bc.st.utxo i.prev = none := hsh (by rw [hc]; simp)
    refine ⟨by rw [hR.get]; simp [ovN, hc], ⟨?_, AL.nodup_erase _ _ hR.mN, by rw [ht']; exact hR.tN,
      by rw [hc']; exact AL.nodup_erase _ _ hR.cN⟩, ?_, ?_⟩
    · intro op
      rw [AL_get_erase _ _ _ hR.mN, hc', ht']
      unfold ovN
      rw [AL_get_erase _ _ _ hR.cN]
      by_cases hk : i.prev = op
      · subst hk; simp [htn]
      · simp only [hk, if_false]; rw [hR.get]; rfl
    · intro op hop; rw [hc'] at hop; exact AL_get_erase_ne_none _ _ _ hR.cN hop
    · intro op hop; rw [ht'] at hop; exact hop
  · refine ⟨by rw [hR.get]; simp [ovN, hc, ht], ⟨?_, AL.nodup_erase _ _ hR.mN,
      by rw [ht']; exact AL.nodup_erase _ _ hR.tN, by rw [hc']; exact hR.cN⟩, ?_, ?_⟩
    · intro op
      rw [AL_get_erase _ _ _ hR.mN, hc', ht']
      unfold ovN
      rw [AL_get_erase _ _ _ hR.tN]
      by_cases hk : i.prev = op
      · subst hk; simp [hc]
      · simp only [hk, if_false]; rw [hR.get]; rfl
    · intro op hop; rw [hc'] at hop; exact hop
    · intro op hop; rw [ht'] at hop; exact AL_get_erase_ne_none _ _ _ hR.tN hop

theorem entryRanges_snoc (acc : List (TxIn × UtxoEntry)) (i : TxIn) (e : UtxoEntry) :
    den (entryRanges (acc ++ [(i, e)])) = den (entryRanges acc) ++ ordsOf e := by
  rw [entryRanges_append, den_append]
  simp [entryRanges, ordsOf]

theorem take_gather (cfg : Cfg) (ins : List TxIn) (bc : BlockCtx) (acc : List (TxIn × UtxoEntry))
    (bc' : BlockCtx) (acc' : List (TxIn × UtxoEntry)) (m : Bip.Outs)
    (hR : BRel m bc.st.utxo bc.cache)
    (hsh : ∀ i ∈ ins, AL.get bc.cache i.prev ≠ none → AL.get bc.st.utxo i.prev = none)
    (h : takeInputEntries cfg ins bc acc = .ok (bc', acc')) :
    ∃ m', Bip.gather (ins.map (·.prev)) m (den (entryRanges acc)) = some (m', den (entryRanges acc')) ∧
      BRel m' bc'.st.utxo bc'.cache ∧
      (∀ op, AL.get bc'.cache op ≠ none → AL.get bc.cache op ≠ none) ∧
      (∀ op, AL.get bc'.st.utxo op ≠ none → AL.get bc.st.utxo op ≠ none) := by
  induction ins generalizing bc acc m with
  | nil =>
    simp only [takeInputEntries, Outcome.ok.injEq, Prod.mk.injEq] at h
    obtain ⟨rfl, rfl⟩ := h
    exact ⟨m, rfl, hR, fun _ h => h, fun _ h => h⟩
  | cons i rest ih =>
    rw [takeInputEntries_cons] at h
    split at h
    · rename_i bc1 e h1
      obtain ⟨hg, hR1, hc1, ht1⟩ := takeOne_brel cfg bc i bc1 e m hR (hsh i (by simp)) h1
      have hsh1 : ∀ i' ∈ rest, AL.get bc1.cache i'.prev ≠ none → AL.get bc1.st.utxo i'.prev = none := by
        intro i' hi' hne
        have := hsh i' (by simp [hi']) (hc1 _ hne)
        apply Classical.byContradiction
        intro hcon
        exact ht1 _ hcon this
      obtain ⟨m', hg', hR', hc', ht'⟩ := ih bc1 _ (AL.erase m i.prev) hR1 hsh1 h
      refine ⟨m', ?_, hR', fun op h => hc1 op (hc' op h), fun op h => ht1 op (ht' op h)⟩
      simp only [List.map_cons, Bip.gather, hg]
      rw [← entryRanges_snoc]
      exact hg'
    · cases h
    · cases h

/-! ### creating: the cache writes ≙ `place` -/

theorem place_brel (txid : Txid) (outs : List UtxoEntry) (n : Nat) (m : Bip.Outs)
    (tbl : List (OutPoint × UtxoEntry)) (c : Cache) (hR : BRel m tbl c) :
    BRel (Bip.place txid (outs.map ordsOf) n m) tbl
      ((enumFrom n outs).foldl (fun c (p : Nat × UtxoEntry) => AL.set c ⟨txid, p.1⟩ p.2) c) := by
  induction outs generalizing n m c with
  | nil => exact hR
  | cons o outs ih =>
    simp only [List.map_cons, Bip.place, enumFrom, List.foldl_cons]
    apply ih
    refine ⟨?_, AL.nodup_set _ _ _ hR.mN, hR.tN, AL.nodup_set _ _ _ hR.cN⟩
    intro op
    rw [AL.get_set]
    unfold ovN
    rw [AL.get_set]
    by_cases hk : ((⟨txid, n⟩ : OutPoint) == op) = true
    · simp [hk]
    · simp only [hk, Bool.false_eq_true, if_false]; rw [hR.get]; rfl

theorem cacheIns_brel (txid : Txid) (outs : List UtxoEntry) (m : Bip.Outs)
    (tbl : List (OutPoint × UtxoEntry)) (c : Cache) (hR : BRel m tbl c) :
    BRel (Bip.place txid (outs.map ordsOf) 0 m) tbl (cacheIns txid outs c) :=
  place_brel txid outs 0 m tbl c hR

theorem fold_set_keys (txid : Txid) (outs : List UtxoEntry) (n : Nat) (c : Cache) (op : OutPoint)
    (h : AL.get ((enumFrom n outs).foldl (fun c (p : Nat × UtxoEntry) => AL.set c ⟨txid, p.1⟩ p.2) c) op ≠ none) :
    op.txid = txid ∨ AL.get c op ≠ none := by
  induction outs generalizing n c with
  | nil => exact Or.inr h
  | cons o outs ih =>
    simp only [enumFrom, List.foldl_cons] at h
    rcases ih _ _ h with h1 | h1
    · exact Or.inl h1
    · rw [AL.get_set] at h1
      by_cases hk : ((⟨txid, n⟩ : OutPoint) == op) = true
      · have : (⟨txid, n⟩ : OutPoint) = op := by simpa using hk
        subst this; exact Or.inl rfl
      · simp only [hk, Bool.false_eq_true, if_false] at h1; exact Or.inr h1

theorem cacheIns_keys (txid : Txid) (outs : List UtxoEntry) (c : Cache) (op : OutPoint)
    (h : AL.get (cacheIns txid outs c) op ≠ none) : op.txid = txid ∨ AL.get c op ≠ none :=
  fold_set_keys txid outs 0 c op h

/-! ### one transaction -/

/-- `index_transaction_sats` is the BIP's per-transaction assignment (= `c01_tx_matches_bip`) -/
theorem tx_matches_bip (values : List Nat) (inputs : Ranges) (t : TxSats)
    (h : indexTransactionSats values inputs = some t) :
    (t.outputs.map den, den t.leftover) = Bip.assignTx (den inputs) values := by
  rw [indexTransactionSats_spec] at h
  split at h
  · cases h; exact assignOutputsR_den values inputs
  · cases h

/-- provenance of the block's cache and table: cache entries were created by transactions with
txids in `T`; the table only ever shrinks during the block -/
structure BProv (T : List Txid) (tbl0 : List (OutPoint × UtxoEntry)) (bc : BlockCtx) : Prop where
  prov : ∀ op, AL.get bc.cache op ≠ none → op.txid ∈ T
  sub : ∀ op, AL.get bc.st.utxo op ≠ none → AL.get tbl0 op ≠ none

theorem map_ordsOf (outs : List UtxoEntry) (rss : List Ranges) (h : outs.map (·.ranges) = rss) :
    outs.map ordsOf = rss.map den := by
  rw [← h, List.map_map]; rfl

/-- a transaction that is not the coinbase: `gather`, `assignTx`, `place`, leftovers to the
coinbase's ordinals -/
theorem indexTx_bip_noncb (cfg : Cfg) (hs : cfg.indexSats = true) (blk : Block) (insOn : Bool) (off : Nat)
    (hoff : off ≠ 0) (tx : Tx) (bc bc' : BlockCtx) (m : Bip.Outs) (T : List Txid)
    (tbl0 : List (OutPoint × UtxoEntry))
    (hR : BRel m bc.st.utxo bc.cache) (hP : BProv T tbl0 bc) (hT : tx.txid ∈ T)
    (hsh : ∀ i ∈ tx.inputs, i.prev.txid ∈ T → AL.get tbl0 i.prev = none)
    (h : indexTx cfg blk insOn off tx bc = .ok bc') :
    ∃ m1 ords, Bip.gather (btxOf tx).inputs m [] = some (m1, ords) ∧
      BRel (Bip.place tx.txid (Bip.assignTx ords (btxOf tx).values).1 0 m1) bc'.st.utxo bc'.cache ∧
      den bc'.coinbaseInputs = den bc.coinbaseInputs ++ (Bip.assignTx ords (btxOf tx).values).2 ∧
      BProv T tbl0 bc' ∧ bc'.lostRanges = bc.lostRanges := by
  have eff := indexTx_satEff cfg hs blk insOn off tx bc bc' h
  obtain ⟨bc1, inputs, outs, r, htake, hr, houts, hcache, hutxo, -, hcbi, hlost⟩ := eff.ex
  simp only [hoff, if_false] at htake hr hcbi hlost
  have hsh' : ∀ i ∈ tx.inputs, AL.get bc.cache i.prev ≠ none → AL.get bc.st.utxo i.prev = none := by
    intro i hi hne
    have h0 := hsh i hi (hP.prov _ hne)
    apply Classical.byContradiction
    intro hcon
    exact hP.sub _ hcon h0
  obtain ⟨m1, hg, hR1, hc1, ht1⟩ := take_gather cfg tx.inputs bc [] bc1 inputs m hR hsh' htake
  have hb := tx_matches_bip _ _ r hr
  refine ⟨m1, den (entryRanges inputs), by simpa [btxOf, entryRanges] using hg, ?_, ?_, ?_, hlost⟩
  · have h1 : (Bip.assignTx (den (entryRanges inputs)) (btxOf tx).values).1 = outs.map ordsOf := by
      rw [map_ordsOf outs r.outputs houts]
      have := congrArg Prod.fst hb
      simpa [btxOf] using this.symm
    rw [h1, hcache, hutxo]
    exact cacheIns_brel tx.txid outs m1 _ _ hR1
  · have h2 : (Bip.assignTx (den (entryRanges inputs)) (btxOf tx).values).2 = den r.leftover := by
      have := congrArg Prod.snd hb
      simpa [btxOf] using this.symm
    rw [h2, hcbi, den_append]
  · refine ⟨fun op hop => ?_, fun op hop => ?_⟩
    · rw [hcache] at hop
      rcases cacheIns_keys _ _ _ _ hop with h1 | h1
      · rw [h1]; exact hT
      · exact hP.prov _ (hc1 _ h1)
    · rw [hutxo] at hop
      exact hP.sub _ (ht1 _ hop)

theorem indexTxs_bip (cfg : Cfg) (hs : cfg.indexSats = true) (blk : Block) (insOn : Bool) (l : List (Nat × Tx))
    (hl : ∀ p ∈ l, p.1 ≠ 0) (bc bc' : BlockCtx) (m : Bip.Outs) (cb : List Nat) (T : List Txid)
    (tbl0 : List (OutPoint × UtxoEntry))
    (hR : BRel m bc.st.utxo bc.cache) (hcb : den bc.coinbaseInputs = cb) (hP : BProv T tbl0 bc)
    (hT : ∀ p ∈ l, p.2.txid ∈ T)
    (hsh : ∀ p ∈ l, ∀ i ∈ p.2.inputs, i.prev.txid ∈ T → AL.get tbl0 i.prev = none)
    (h : indexTxs cfg blk insOn l bc = .ok bc') :
    ∃ m' cb', Bip.assignTxs (l.map (fun p => btxOf p.2)) m cb = some (m', cb') ∧
      BRel m' bc'.st.utxo bc'.cache ∧ den bc'.coinbaseInputs = cb' ∧ BProv T tbl0 bc' ∧
      bc'.lostRanges = bc.lostRanges := by
  induction l generalizing bc m cb with
  | nil =>
    simp only [indexTxs, Outcome.ok.injEq] at h
    subst h
    exact ⟨m, cb, rfl, hR, hcb, hP, rfl⟩
  | cons p l ih =>
    obtain ⟨i, tx⟩ := p
    simp only [indexTxs] at h
    split at h
    · cases h
    · cases h
    · rename_i bc1 h1
      obtain ⟨m1, ords, hg, hR1, hcb1, hP1, hl1⟩ := indexTx_bip_noncb cfg hs blk insOn i (hl (i, tx) (by simp)) tx bc bc1
        m T tbl0 hR hP (hT (i, tx) (by simp)) (hsh (i, tx) (by simp)) h1
      obtain ⟨m', cb', ha, hR', hcb', hP', hl'⟩ := ih (fun p hp => hl p (by simp [hp])) bc1 _ _ hR1 rfl hP1
        (fun p hp => hT p (by simp [hp])) (fun p hp => hsh p (by simp [hp])) h
      refine ⟨m', cb', ?_, hR', hcb', hP', hl'.trans hl1⟩
      simp only [List.map_cons, Bip.assignTxs, hg]
      rw [← hcb, ← hcb1]
      exact ha

/-- the coinbase: its outputs are filled from the coinbase's ordinals, what is left is lost -/
theorem indexTx_bip_cb (cfg : Cfg) (hs : cfg.indexSats = true) (blk : Block) (insOn : Bool)
    (tx : Tx) (bc bc' : BlockCtx) (m : Bip.Outs) (T : List Txid) (tbl0 : List (OutPoint × UtxoEntry))
    (hR : BRel m bc.st.utxo bc.cache) (hP : BProv T tbl0 bc)
    (h : indexTx cfg blk insOn 0 tx bc = .ok bc') :
    BRel (Bip.place tx.txid (Bip.assignOutputs (btxOf tx).values (den bc.coinbaseInputs)).1 0 m)
      bc'.st.utxo bc'.cache ∧
    den bc'.lostRanges = den bc.lostRanges ++ (Bip.assignOutputs (btxOf tx).values (den bc.coinbaseInputs)).2 ∧
    BProv (tx.txid :: T) tbl0 bc' := by
  have eff := indexTx_satEff cfg hs blk insOn 0 tx bc bc' h
  obtain ⟨bc1, inputs, outs, r, htake, hr, houts, hcache, hutxo, -, -, hlost⟩ := eff.ex
  simp only [if_true] at htake hr hlost
  obtain ⟨rfl, -⟩ := htake
  have hb := tx_matches_bip _ _ r hr
  rw [Bip.assignTx] at hb
  refine ⟨?_, ?_, ?_⟩
  · have h1 : (Bip.assignOutputs (btxOf tx).values (den bc1.coinbaseInputs)).1 = outs.map ordsOf := by
      rw [map_ordsOf outs r.outputs houts]
      have := congrArg Prod.fst hb
      simpa [btxOf] using this.symm
    rw [h1, hcache, hutxo]
    exact cacheIns_brel tx.txid outs m _ _ hR
  · have h2 : (Bip.assignOutputs (btxOf tx).values (den bc1.coinbaseInputs)).2 = den r.leftover := by
      have := congrArg Prod.snd hb
      simpa [btxOf] using this.symm
    rw [h2, hlost, den_append]
  · refine ⟨fun op hop => ?_, fun op hop => ?_⟩
    · rw [hcache] at hop
      rcases cacheIns_keys _ _ _ _ hop with h1 | h1
      · rw [h1]; exact List.mem_cons_self
      · exact List.mem_cons_of_mem _ (hP.prov _ h1)
    · rw [hutxo] at hop
      exact hP.sub _ hop

end Ord.Index
