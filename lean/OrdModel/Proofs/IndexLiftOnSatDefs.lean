import OrdModel.Proofs.IndexLiftSatC03
import OrdModel.Proofs.IndexLiftInsChain
/-
C03 lift to reachable states, part 1: the offset-tracking invariant as a *per-entry* predicate.

* `InsSat E R ins`: every listed `(seq, off)` of `ins` names an existing inscription entry of `E`
  that is bound to a sat `s`, and the `off`-th sat of the ranges `R` is `s`.
* `EntSat E e := InsSat E e.ranges e.ins` — a UTXO entry (table row, cache row, output entry under
  construction) lists bound inscriptions, each where its sat is.
* `InsNone E ins`: every listed `(seq, off)` names an existing entry that has no sat (what the
  unbound pseudo-output lists).
* `FlOK E R f`: a floating *old* inscription names an existing entry bound to a sat `s`, and the
  sat at the flotsam's offset of the ranges `R` (the concatenated input ranges; for saved flotsam
  the ranges queued for the coinbase) is `s`.
* `EntExt E E'`: the entry table only grows, and existing entries keep their sat.

`den`, `lenR`, `Ranges` are the sat group's (`Proofs/IndexSatsDen.lean`); `Insloc.den` is the same
function (`insloc_den_eq`).
-/
namespace Ord.Index.OnSatLift
open Ord Ord.Index Outcome Sched
open Ord.Index.Insloc hiding den den_nil den_cons den_append

theorem getElem?_append_some {α : Type} {l l' : List α} {k : Nat} {a : α} (h : l[k]? = some a) :
    (l ++ l')[k]? = some a := by
  obtain ⟨hk, _⟩ := List.getElem?_eq_some_iff.1 h
  rw [List.getElem?_append_left hk]; exact h

theorem den_append_some {R R' : Ranges} {k s : Nat} (h : (den R)[k]? = some s) :
    (den (R ++ R'))[k]? = some s := by
  rw [den_append]; exact getElem?_append_some h

theorem den_shift_some {P R : Ranges} {k s : Nat} (h : (den R)[k]? = some s) :
    (den (P ++ R))[lenR P + k]? = some s := by
  rw [den_append, List.getElem?_append_right (by rw [den_length]; omega), den_length]
  rw [show lenR P + k - lenR P = k by omega]; exact h

/-- every listed `(seq, off)` names an entry bound to a sat, which is the `off`-th sat of `R` -/
@[reducible] def InsSat (E : List InsEntry) (R : Ranges) (ins : List (Nat × Nat)) : Prop :=
  ∀ seq off, (seq, off) ∈ ins → ∃ (entry : InsEntry) (s : Nat), E[seq]? = some entry ∧
    entry.sat = some s ∧ (den R)[off]? = some s

/-- a UTXO entry lists bound inscriptions, each where its sat is -/
@[reducible] def EntSat (E : List InsEntry) (e : UtxoEntry) : Prop := InsSat E e.ranges e.ins

/-- every listed `(seq, off)` names an entry without a sat -/
@[reducible] def InsNone (E : List InsEntry) (ins : List (Nat × Nat)) : Prop :=
  ∀ seq off, (seq, off) ∈ ins → ∃ entry : InsEntry, E[seq]? = some entry ∧ entry.sat = none

/-- the entry table grows and entries keep their sat -/
@[reducible] def EntExt (E E' : List InsEntry) : Prop :=
  ∀ (i : Nat) (e : InsEntry), E[i]? = some e → ∃ e' : InsEntry, E'[i]? = some e' ∧ e'.sat = e.sat

/-- a floating old inscription is bound to a sat and points at it in `R` -/
@[reducible] def FlOK (E : List InsEntry) (R : Ranges) (f : Flotsam) : Prop :=
  ∀ seq osp, f.origin = .old seq osp → ∃ (entry : InsEntry) (s : Nat), E[seq]? = some entry ∧
    entry.sat = some s ∧ (den R)[f.offset]? = some s

theorem EntExt.refl (E : List InsEntry) : EntExt E E := fun _ e h => ⟨e, h, rfl⟩

theorem EntExt.trans {A B C : List InsEntry} (h1 : EntExt A B) (h2 : EntExt B C) : EntExt A C := by
  intro i e h
  obtain ⟨e1, g1, s1⟩ := h1 i e h
  obtain ⟨e2, g2, s2⟩ := h2 i e1 g1
  exact ⟨e2, g2, s2.trans s1⟩

theorem EntExt.of_eq {A B : List InsEntry} (h : B = A) : EntExt A B := h ▸ EntExt.refl A

theorem EntExt.append (E : List InsEntry) (x : List InsEntry) : EntExt E (E ++ x) :=
  fun _ e h => ⟨e, getElem?_append_some h, rfl⟩

theorem InsSat.nil (E : List InsEntry) (R : Ranges) : InsSat E R [] := by
  intro _ _ h; cases h

theorem InsSat.mono {E E' : List InsEntry} {R : Ranges} {ins : List (Nat × Nat)} (h : InsSat E R ins)
    (hx : EntExt E E') : InsSat E' R ins := by
  intro seq off hm
  obtain ⟨entry, s, h1, h2, h3⟩ := h seq off hm
  obtain ⟨e', g1, g2⟩ := hx seq entry h1
  exact ⟨e', s, g1, g2.trans h2, h3⟩

theorem InsSat.sub {E : List InsEntry} {R : Ranges} {ins ins' : List (Nat × Nat)} (h : InsSat E R ins)
    (hs : ∀ x ∈ ins', x ∈ ins) : InsSat E R ins' :=
  fun seq off hm => h seq off (hs _ hm)

theorem InsSat.append_ranges {E : List InsEntry} {R : Ranges} {ins : List (Nat × Nat)} (h : InsSat E R ins)
    (R' : Ranges) : InsSat E (R ++ R') ins := by
  intro seq off hm
  obtain ⟨entry, s, h1, h2, h3⟩ := h seq off hm
  exact ⟨entry, s, h1, h2, den_append_some h3⟩

theorem InsSat.append {E : List InsEntry} {R : Ranges} {a b : List (Nat × Nat)} (ha : InsSat E R a)
    (hb : InsSat E R b) : InsSat E R (a ++ b) := by
  intro seq off hm
  rcases List.mem_append.1 hm with hm | hm
  · exact ha seq off hm
  · exact hb seq off hm

theorem InsSat.push {E : List InsEntry} {R : Ranges} {ins : List (Nat × Nat)} (h : InsSat E R ins)
    (q off : Nat)
    (hq : ∃ (entry : InsEntry) (s : Nat), E[q]? = some entry ∧ entry.sat = some s ∧ (den R)[off]? = some s) :
    InsSat E R (ins ++ [(q, off)]) := by
  refine h.append ?_
  intro seq off' hm
  simp only [List.mem_singleton, Prod.mk.injEq] at hm
  obtain ⟨rfl, rfl⟩ := hm
  exact hq

theorem InsNone.nil (E : List InsEntry) : InsNone E [] := by
  intro _ _ h; cases h

theorem InsNone.mono {E E' : List InsEntry} {ins : List (Nat × Nat)} (h : InsNone E ins)
    (hx : EntExt E E') : InsNone E' ins := by
  intro seq off hm
  obtain ⟨entry, h1, h2⟩ := h seq off hm
  obtain ⟨e', g1, g2⟩ := hx seq entry h1
  exact ⟨e', g1, g2.trans h2⟩

theorem InsNone.append {E : List InsEntry} {a b : List (Nat × Nat)} (ha : InsNone E a)
    (hb : InsNone E b) : InsNone E (a ++ b) := by
  intro seq off hm
  rcases List.mem_append.1 hm with hm | hm
  · exact ha seq off hm
  · exact hb seq off hm

theorem InsNone.push {E : List InsEntry} {ins : List (Nat × Nat)} (h : InsNone E ins)
    (q off : Nat) (hq : ∃ entry : InsEntry, E[q]? = some entry ∧ entry.sat = none) :
    InsNone E (ins ++ [(q, off)]) := by
  refine h.append ?_
  intro seq off' hm
  simp only [List.mem_singleton, Prod.mk.injEq] at hm
  obtain ⟨rfl, rfl⟩ := hm
  exact hq

theorem EntSat.empty (E : List InsEntry) : EntSat E UtxoEntry.empty := InsSat.nil _ _

theorem EntSat.of_ins_nil {E : List InsEntry} {e : UtxoEntry} (h : e.ins = []) : EntSat E e := by
  unfold EntSat; rw [h]; exact InsSat.nil _ _

theorem EntSat.mono {E E' : List InsEntry} {e : UtxoEntry} (h : EntSat E e) (hx : EntExt E E') : EntSat E' e :=
  InsSat.mono h hx

theorem FlOK.mono {E E' : List InsEntry} {R : Ranges} {f : Flotsam} (h : FlOK E R f) (hx : EntExt E E') :
    FlOK E' R f := by
  intro seq osp ho
  obtain ⟨entry, s, h1, h2, h3⟩ := h seq osp ho
  obtain ⟨e', g1, g2⟩ := hx seq entry h1
  exact ⟨e', s, g1, g2.trans h2, h3⟩

theorem FlOK.append_ranges {E : List InsEntry} {R : Ranges} {f : Flotsam} (h : FlOK E R f) (R' : Ranges) :
    FlOK E (R ++ R') f := by
  intro seq osp ho
  obtain ⟨entry, s, h1, h2, h3⟩ := h seq osp ho
  exact ⟨entry, s, h1, h2, den_append_some h3⟩

theorem FlOK.of_new {E : List InsEntry} {R : Ranges} {f : Flotsam} (h : isNew f = true) : FlOK E R f := by
  intro seq osp ho
  simp [isNew, ho] at h

/-- `FlOK` looks at the origin's sequence number and the offset only -/
theorem FlOK.congr {E : List InsEntry} {R : Ranges} {f g : Flotsam} (h : FlOK E R f)
    (ho : ∀ seq osp, g.origin = .old seq osp → f.origin = .old seq osp) (hoff : g.offset = f.offset) :
    FlOK E R g := by
  intro seq osp hg
  obtain ⟨entry, s, h1, h2, h3⟩ := h seq osp (ho seq osp hg)
  exact ⟨entry, s, h1, h2, hoff ▸ h3⟩

/-! ### the invariant on a `LocState` while one transaction's flotsam is being placed -/

/-- `NR` = the sat ranges the null outpoint will hold after the block is flushed (what is stored
now followed by the block's lost ranges) -/
structure LsInv (NR : Ranges) (ls : LocState) : Prop where
  outs : ∀ e ∈ ls.outs, EntSat ls.st.entries e
  nul : ∀ ne, ls.ctx.nullEntry = some ne → InsSat ls.st.entries NR ne.ins
  unb : ∀ ue, ls.ctx.unboundEntry = some ue → InsNone ls.st.entries ue.ins

end Ord.Index.OnSatLift
