import OrdModel.Proofs.IndexInsnumUloc
/-
Group `insnum`, C07: the `parents.retain(|p| seen.insert(p) && potential_parents.contains(p))`
filter of `index_inscriptions`: named (`dedupParents`), tied to the model function by `rfl`
(`indexInscriptions_eq`), and specified (`dedupParents_spec`).
-/
namespace Ord.Index.Insnum
open Ord.Index

/-- the `parents.retain(|p| seen.insert(p) && potential_parents.contains(p))` filter, verbatim as in
`indexInscriptions` -/
def dedupParents (potential ps : List InscriptionId) : List InscriptionId :=
  (ps.foldl (fun (acc : List InscriptionId × List InscriptionId) p =>
    if acc.2.contains p then acc
    else (if potential.contains p then acc.1 ++ [p] else acc.1, acc.2 ++ [p])) ([], [])).1

theorem dedup_fold_inv (potential : List InscriptionId) : ∀ (ps : List InscriptionId) (acc : List InscriptionId × List InscriptionId),
    acc.1.Nodup → (∀ x ∈ acc.1, x ∈ acc.2) → (∀ x ∈ acc.1, x ∈ potential) →
    let r := ps.foldl (fun (acc : List InscriptionId × List InscriptionId) p =>
      if acc.2.contains p then acc
      else (if potential.contains p then acc.1 ++ [p] else acc.1, acc.2 ++ [p])) acc
    r.1.Nodup ∧ (∀ x ∈ r.1, x ∈ r.2) ∧ (∀ x ∈ r.1, x ∈ potential) ∧ (∀ x ∈ r.1, x ∈ acc.1 ∨ x ∈ ps) := by
  intro ps
  induction ps with
  | nil => intro acc h1 h2 h3; exact ⟨h1, h2, h3, fun x hx => Or.inl hx⟩
  | cons p rest ih =>
    intro acc h1 h2 h3
    simp only [List.foldl_cons]
    by_cases hc : acc.2.contains p = true
    · simp only [hc, if_true]
      obtain ⟨a, b, c, d⟩ := ih acc h1 h2 h3
      exact ⟨a, b, c, fun x hx => (d x hx).imp id (List.mem_cons_of_mem _)⟩
    · simp only [hc, if_false, Bool.false_eq_true]
      have hp2 : p ∉ acc.2 := by simpa using hc
      by_cases hpot : potential.contains p = true
      · simp only [hpot, if_true]
        obtain ⟨a, b, c, d⟩ := ih (acc.1 ++ [p], acc.2 ++ [p])
          (by
            rw [List.nodup_append]
            refine ⟨h1, by simp, ?_⟩
            intro x hx y hy
            simp at hy; subst hy
            intro hxy; subst hxy
            exact hp2 (h2 x hx))
          (by intro x hx; simp at hx ⊢; rcases hx with hx | hx; exact Or.inl (h2 x hx); exact Or.inr hx)
          (by intro x hx; simp at hx; rcases hx with hx | hx; exact h3 x hx; subst hx; simpa using hpot)
        refine ⟨a, b, c, fun x hx => ?_⟩
        rcases d x hx with hx | hx
        · simp at hx; rcases hx with hx | hx
          · exact Or.inl hx
          · subst hx; exact Or.inr List.mem_cons_self
        · exact Or.inr (List.mem_cons_of_mem _ hx)
      · simp only [hpot, if_false, Bool.false_eq_true]
        obtain ⟨a, b, c, d⟩ := ih (acc.1, acc.2 ++ [p]) h1
          (by intro x hx; simp; exact Or.inl (h2 x hx)) h3
        exact ⟨a, b, c, fun x hx => (d x hx).imp id (List.mem_cons_of_mem _)⟩

/-- the retained parents have no repeats, are among the purported parents and among the
potential parents (the ids of the transaction's floating list) -/
theorem dedupParents_spec (potential ps : List InscriptionId) :
    (dedupParents potential ps).Nodup ∧ (∀ x ∈ dedupParents potential ps, x ∈ ps ∧ x ∈ potential) := by
  obtain ⟨a, _, c, d⟩ := dedup_fold_inv potential ps ([], []) List.nodup_nil (by simp) (by simp)
  refine ⟨a, fun x hx => ⟨?_, c x hx⟩⟩
  rcases d x hx with h | h
  · simp at h
  · exact h
/-- `indexInscriptions` with the retain filter named -/
def indexInscriptions' (cfg : Cfg) (height time : Nat) (tx : Tx) (inputs : List (TxIn × UtxoEntry))
    (inputRanges : Option (List (Nat × Nat))) (ls : LocState) : Outcome LocState :=
  let jubilant := height ≥ cfg.jubileeHeight
  let totalOut := tx.outputs.foldl (fun a o => a + o.value) 0
  match scanInputs cfg ls.st jubilant tx.txid height totalOut inputs 0 { envelopes := tx.envelopes } with
  | .panic s => .panic s
  | .err e => .err e
  | .ok sc =>
    let hasNew := !tx.envelopes.isEmpty
    let st1 := if cfg.indexTransactions && hasNew then
        { ls.st with txid2tx := AL.set ls.st.txid2tx tx.txid tx.size } else ls.st
    let potential := sc.floating.map (·.id)
    let dedup (ps : List InscriptionId) : List InscriptionId := dedupParents potential ps
    let anyNew := sc.floating.any isNew
    if anyNew ∧ sc.totalInputValue < totalOut then .panic "total_input_value - total_output_value"
    else if anyNew ∧ sc.idCounter = 0 then .panic "division by zero"
    else
    let fee := if sc.idCounter = 0 then 0 else (sc.totalInputValue - totalOut) / sc.idCounter
    let floating := sc.floating.map (fun f => match f.origin with
      | .new c _ g h ps r u v => { f with origin := .new c fee g h (dedup ps) r u v }
      | .old .. => f)
    let isCoinbase := match tx.inputs with | i :: _ => i.prev.isNull | [] => false
    let floating := if isCoinbase then floating ++ ls.ctx.flotsam else floating
    let ctx1 := if isCoinbase then { ls.ctx with flotsam := [] } else ls.ctx
    let sorted := sortByKey (·.offset) floating
    let (locs, rest, outputValue) := assignOutputs tx.txid tx.outputs 0 0 sorted []
    match applyLocations cfg height time inputRanges locs { st := st1, ctx := ctx1, outs := ls.outs } with
    | .panic s => .panic s
    | .err e => .err e
    | .ok ls2 =>
      if isCoinbase then
        match applyLost cfg height time inputRanges outputValue rest ls2 with
        | .panic s => .panic s
        | .err e => .err e
        | .ok ls3 =>
          if ls3.ctx.reward < outputValue then .panic "self.reward - output_value"
          else .ok { ls3 with ctx := { ls3.ctx with lostSats := ls3.ctx.lostSats + (ls3.ctx.reward - outputValue) } }
      else
        if sc.totalInputValue < outputValue then .panic "total_input_value - output_value"
        else
        let carried := rest.map (fun f => { f with offset := ls2.ctx.reward + f.offset - outputValue })
        .ok { ls2 with ctx := { ls2.ctx with flotsam := ls2.ctx.flotsam ++ carried,
                                             reward := ls2.ctx.reward + (sc.totalInputValue - outputValue) } }


theorem indexInscriptions_eq (cfg : Cfg) (height time : Nat) (tx : Tx) (inputs : List (TxIn × UtxoEntry))
    (inputRanges : Option (List (Nat × Nat))) (ls : LocState) :
    indexInscriptions cfg height time tx inputs inputRanges ls = indexInscriptions' cfg height time tx inputs inputRanges ls := rfl
end Ord.Index.Insnum
