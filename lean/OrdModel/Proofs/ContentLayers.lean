/-
Helper lemmas for C19, part 1: the response-header layers.
-/
import OrdModel.Server.Content

namespace Ord.Server.Content
open Ord.Server.Csp

theorem applyLayer_fields (r : Response) (l : LayerKind) :
    (applyLayer r l).status = r.status ∧ (applyLayer r l).contentType = r.contentType ∧
    (applyLayer r l).contentEncoding = r.contentEncoding ∧ (applyLayer r l).cacheControl = r.cacheControl ∧
    (applyLayer r l).body = r.body ∧ (applyLayer r l).served = r.served := by
  cases l <;> simp [applyLayer] <;> split <;> simp

theorem applyLayers_fields (ls : List LayerKind) (r : Response) :
    (applyLayers ls r).status = r.status ∧ (applyLayers ls r).contentType = r.contentType ∧
    (applyLayers ls r).contentEncoding = r.contentEncoding ∧ (applyLayers ls r).cacheControl = r.cacheControl ∧
    (applyLayers ls r).body = r.body ∧ (applyLayers ls r).served = r.served := by
  induction ls generalizing r with
  | nil => simp [applyLayers]
  | cons l rest ih =>
    have h := applyLayer_fields r l
    have h2 := ih (applyLayer r l)
    simp only [applyLayers, List.foldl_cons] at h2 ⊢
    obtain ⟨a1, a2, a3, a4, a5, a6⟩ := h
    obtain ⟨b1, b2, b3, b4, b5, b6⟩ := h2
    exact ⟨b1.trans a1, b2.trans a2, b3.trans a3, b4.trans a4, b5.trans a5, b6.trans a6⟩

theorem applyLayer_csp_nonempty (r : Response) (l : LayerKind) (h : r.csp ≠ []) : (applyLayer r l).csp ≠ [] := by
  cases l <;> simp [applyLayer] <;> try exact h
  split <;> simp_all

theorem applyLayers_csp_nonempty (ls : List LayerKind) (r : Response) (h : r.csp ≠ []) :
    (applyLayers ls r).csp ≠ [] := by
  induction ls generalizing r with
  | nil => simpa [applyLayers] using h
  | cons l rest ih =>
    simp only [applyLayers, List.foldl_cons]
    exact ih _ (applyLayer_csp_nonempty r l h)

/-- a stack that contains the `if_not_present` layer always yields a CSP header -/
theorem applyLayers_csp_guaranteed (ls : List LayerKind) (r : Response) (h : cspGuaranteed ls = true) :
    (applyLayers ls r).csp ≠ [] := by
  induction ls generalizing r with
  | nil => simp [cspGuaranteed] at h
  | cons l rest ih =>
    simp only [applyLayers, List.foldl_cons]
    cases l
    case cspIfNotPresent =>
      apply applyLayers_csp_nonempty
      simp only [applyLayer]
      split <;> simp_all
    all_goals exact ih _ (by simpa [cspGuaranteed] using h)

/-- a stack without an overriding CSP layer leaves the handler's own policy untouched -/
theorem applyLayers_csp_preserved (ls : List LayerKind) (r : Response) (h : cspPreserved ls = true)
    (hr : r.csp ≠ []) : (applyLayers ls r).csp = r.csp := by
  induction ls generalizing r with
  | nil => simp [applyLayers]
  | cons l rest ih =>
    simp only [applyLayers, List.foldl_cons]
    have hl : l ≠ .cspOverriding ∧ cspPreserved rest = true := by
      simp only [cspPreserved, List.contains_cons, Bool.not_eq_true', Bool.or_eq_false_iff] at h ⊢
      refine ⟨?_, h.2⟩
      intro e; subst e; simp at h
    have h1 : (applyLayer r l).csp = r.csp := by
      cases l <;> simp [applyLayer] <;> try (split <;> simp_all)
      exact absurd rfl hl.1
    have := ih (applyLayer r l) hl.2 (by rw [h1]; exact hr)
    simpa [applyLayers, h1] using this

end Ord.Server.Content
