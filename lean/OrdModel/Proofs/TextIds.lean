import OrdModel.Proofs.TextDigits
import OrdModel.Text.SatPoint
import OrdModel.Text.InscriptionId
/-! Lemmas for `SatPoint::from_str` / `InscriptionId::from_str`: byte length of ASCII strings,
byte-index splitting, `rsplitOnce`, hash parsing. -/
namespace Ord.Text

theorem utf8Size_ascii {c : Char} (h : isAscii c = true) : c.utf8Size = 1 := by
  rw [Char.utf8Size_eq_one_iff]
  have h' : c.val.toNat < 128 := by simpa [isAscii] using h
  rw [UInt32.le_iff_toNat_le]
  have : (127 : UInt32).toNat = 127 := by decide
  omega

theorem utf8Len_fold (n : Nat) (s : List Char) :
    s.foldl (fun n c => n + c.utf8Size) n = n + utf8Len s := by
  unfold utf8Len
  induction s generalizing n with
  | nil => simp
  | cons c cs ih => simp only [List.foldl_cons]; rw [ih, ih (0 + c.utf8Size)]; omega

theorem utf8Len_cons (c : Char) (cs : List Char) : utf8Len (c :: cs) = c.utf8Size + utf8Len cs := by
  show List.foldl _ _ _ = _
  rw [List.foldl_cons, utf8Len_fold]; omega

theorem utf8Len_ascii {s : List Char} (h : s.all isAscii = true) : utf8Len s = s.length := by
  induction s with
  | nil => rfl
  | cons c cs ih =>
    simp only [List.all_cons, Bool.and_eq_true] at h
    rw [utf8Len_cons, utf8Size_ascii h.1, ih h.2]; simp; omega

theorem isAscii_of_isHexDigit {c : Char} (h : isHexDigit c = true) : isAscii c = true := by
  simp [isHexDigit, isDigit, isAscii] at *; omega

theorem isAscii_of_isDigit {c : Char} (h : isDigit c = true) : isAscii c = true := by
  simp [isDigit, isAscii] at *; omega

theorem all_ascii_of_hex {s : List Char} (h : s.all isHexDigit = true) : s.all isAscii = true := by
  rw [List.all_eq_true] at *
  intro c hc; exact isAscii_of_isHexDigit (h c hc)

theorem all_ascii_of_digits {s : List Char} (h : allDigits s = true) : s.all isAscii = true := by
  unfold allDigits at h
  rw [List.all_eq_true] at *
  intro c hc; exact isAscii_of_isDigit (h c hc)

/-- on an all-ASCII string every byte index within bounds is a char boundary -/
theorem splitAtByte_ascii {s : List Char} (h : s.all isAscii = true) (n : Nat) (hn : n ≤ s.length) :
    splitAtByte n s = some (s.take n, s.drop n) := by
  induction s generalizing n with
  | nil =>
    have : n = 0 := by simpa using hn
    subst this; simp [splitAtByte]
  | cons c cs ih =>
    simp only [List.all_cons, Bool.and_eq_true] at h
    rw [splitAtByte]
    by_cases h0 : n = 0
    · subst h0; simp
    · have h1 := utf8Size_ascii h.1
      have hle : c.utf8Size ≤ n := by omega
      have hle1 : 1 ≤ n := by omega
      simp only [h0, if_false, h1, hle1, if_true]
      rw [ih h.2 (n - 1) (by simp at hn; omega)]
      obtain ⟨m, rfl⟩ : ∃ m, n = m + 1 := ⟨n - 1, by omega⟩
      simp

theorem parseHash_some {s t : List Char} (h : parseHash s = some t) :
    s.length = 64 ∧ s.all isHexDigit = true ∧ t = s.map toLowerAscii := by
  unfold parseHash at h
  split at h
  · rename_i hh
    simp only [Option.some.injEq] at h
    refine ⟨?_, hh.2, h.symm⟩
    rw [← utf8Len_ascii (all_ascii_of_hex hh.2)]; exact hh.1
  · cases h

theorem rsplitOnce_some {sep : Char} {s a b : List Char} (h : rsplitOnce sep s = some (a, b)) :
    s = a ++ sep :: b ∧ sep ∉ b := by
  unfold rsplitOnce at h
  cases hs : splitOnce sep s.reverse with
  | none => simp [hs] at h
  | some p =>
    obtain ⟨x, y⟩ := p
    simp only [hs, Option.some.injEq, Prod.mk.injEq] at h
    obtain ⟨rfl, rfl⟩ := h
    obtain ⟨h1, h2⟩ := splitOnce_some hs
    refine ⟨?_, by simpa using h2⟩
    have := congrArg List.reverse h1
    simpa using this

end Ord.Text

namespace Ord.Text.SatPoint
open Ord Ord.Text

theorem parse_ne_panic (s : List Char) (site : String) : parse s ≠ .panic site := by
  unfold parse
  split
  · simp
  · split
    · simp
    · split <;> simp

theorem parseVout_ok {b : List Char} {v : Nat} (h : parseVout b = .ok v) :
    b ≠ [] ∧ allDigits b = true ∧ (1 < b.length → b.head? ≠ some '0') ∧ decVal b = v ∧ v < 2 ^ 32 := by
  unfold parseVout at h
  split at h
  · cases h
  · rename_i hc
    cases hp : parseUnsigned 32 b with
    | error e => simp [hp] at h
    | ok n =>
      simp only [hp, Except.ok.injEq] at h
      subst h
      obtain ⟨⟨ds, hds | hds, hne, hd, hv⟩, hlt⟩ := (parseUnsigned_ok_iff 32 b n).1 hp
      · subst hds
        refine ⟨hne, hd, ?_, hv, hlt⟩
        intro hlen h0
        apply hc
        rw [utf8Len_ascii (all_ascii_of_digits hd)]
        exact ⟨hlen, Or.inl h0⟩
      · subst hds
        exfalso; apply hc
        have : 1 < utf8Len ('+' :: ds) := by
          rw [utf8Len_cons]
          have : ('+' : Char).utf8Size = 1 := by decide
          rw [this, utf8Len_ascii (all_ascii_of_digits hd)]
          cases ds with
          | nil => exact absurd rfl hne
          | cons _ _ => simp
        exact ⟨this, Or.inr rfl⟩

theorem parseOutPoint_ok {op t : List Char} {v : Nat} (h : parseOutPoint op = .ok (t, v)) :
    ∃ a b, op = a ++ ':' :: b ∧ a.length = 64 ∧ a.all isHexDigit = true ∧ t = a.map toLowerAscii ∧
      b ≠ [] ∧ allDigits b = true ∧ (1 < b.length → b.head? ≠ some '0') ∧ decVal b = v ∧ v < 2 ^ 32 := by
  unfold parseOutPoint at h
  split at h
  · cases h
  · split at h
    · cases h
    · rename_i a b hs
      split at h
      · cases h
      · split at h
        · cases h
        · split at h
          · cases h
          · rename_i t' ht
            cases hv : parseVout b with
            | error e => simp [hv] at h
            | ok v' =>
              simp only [hv, Except.ok.injEq, Prod.mk.injEq] at h
              obtain ⟨rfl, rfl⟩ := h
              obtain ⟨h1, h2, h3⟩ := parseHash_some ht
              obtain ⟨hsf, _⟩ := splitOnce_some hs
              exact ⟨a, b, hsf, h1, h2, h3, parseVout_ok hv⟩

theorem parse_ok_denotes {s : List Char} {v : Val} (h : parse s = .ok v) : Denotes s v := by
  unfold parse at h
  split at h
  · cases h
  · rename_i op off hs
    cases hop : parseOutPoint op with
    | error e => simp [hop] at h
    | ok p =>
      obtain ⟨t, vo⟩ := p
      simp only [hop] at h
      cases hoff : parseUnsigned 64 off with
      | error e => simp [hoff] at h
      | ok o =>
        simp only [hoff, Outcome.ok.injEq] at h
        subst h
        obtain ⟨a, b, hab, h1, h2, h3, h4, h5, h6, h7, h8⟩ := parseOutPoint_ok hop
        obtain ⟨hsf, _⟩ := rsplitOnce_some hs
        obtain ⟨hn, hlt⟩ := (parseUnsigned_ok_iff 64 off o).1 hoff
        refine ⟨a, b, off, ?_, h1, h2, h3, h4, h5, h6, h7, h8, hn, hlt⟩
        rw [hsf, hab]

end Ord.Text.SatPoint

namespace Ord.Text.InscriptionId
open Ord Ord.Text

theorem parse_facts {s : List Char} (h1 : ¬ s.any (fun c => !isAscii c) = true)
    (h2 : ¬ utf8Len s < 66) :
    s.all isAscii = true ∧ 66 ≤ s.length := by
  have ha : s.all isAscii = true := by
    rw [List.all_eq_true]
    intro c hc
    rw [List.any_eq_true] at h1
    cases hh : isAscii c with
    | true => rfl
    | false => exact absurd ⟨c, hc, by simp [hh]⟩ h1
  refine ⟨ha, ?_⟩
  rw [utf8Len_ascii ha] at h2; omega

/-- **no slicing panic**: the ASCII check precedes every byte-index slice -/
theorem parse_ne_panic (s : List Char) (site : String) : parse s ≠ .panic site := by
  unfold parse
  split
  · simp
  · rename_i h1
    split
    · simp
    · rename_i h2
      obtain ⟨ha, hl⟩ := parse_facts h1 h2
      rw [splitAtByte_ascii ha 64 (by omega), splitAtByte_ascii ha 65 (by omega)]
      simp only
      have : s[64]? = some (s[64]'(by omega)) := List.getElem?_eq_getElem (by omega)
      rw [this]
      simp only
      split
      · simp
      · split
        · simp
        · split <;> simp

theorem parse_ok_denotes {s : List Char} {v : Val} (h : parse s = .ok v) : Denotes s v := by
  unfold parse at h
  split at h
  · cases h
  · rename_i h1
    split at h
    · cases h
    · rename_i h2
      obtain ⟨ha, hl⟩ := parse_facts h1 h2
      rw [splitAtByte_ascii ha 64 (by omega), splitAtByte_ascii ha 65 (by omega)] at h
      simp only at h
      have hget : s[64]? = some (s[64]'(by omega)) := List.getElem?_eq_getElem (by omega)
      rw [hget] at h
      simp only at h
      split at h
      · cases h
      · rename_i hsep
        have hsep' : s[64]'(by omega) = 'i' := by
          simpa using hsep
        cases ht : parseHash (s.take 64) with
        | none => simp [ht] at h
        | some t =>
          simp only [ht] at h
          cases hp : parseUnsigned 32 (s.drop 65) with
          | error e => simp [hp] at h
          | ok n =>
            simp only [hp, Outcome.ok.injEq] at h
            subst h
            obtain ⟨h1', h2', h3'⟩ := parseHash_some ht
            obtain ⟨hn, hlt⟩ := (parseUnsigned_ok_iff 32 _ n).1 hp
            refine ⟨s.take 64, s.drop 65, ?_, h1', h2', h3', hn, hlt⟩
            have hd : s.drop 64 = s[64] :: s.drop 65 := by
              rw [List.drop_eq_getElem_cons (by omega)]
            rw [← hsep', ← hd, List.take_append_drop]

end Ord.Text.InscriptionId
