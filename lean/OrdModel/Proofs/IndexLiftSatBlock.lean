import OrdModel.Proofs.IndexLiftSatTx
/-
Sat-side lift, part 3: the partition invariant of C02 through the real `applyBlock` for EVERY
configuration with the sat index on (inscription index, rune index, address index,
transaction index on or off), hence in every reachable state of the full index model.

Same pool argument as `IndexSatsBlock` (which had the inscription and rune passes switched
off); `indexTx` enters only through `TxSatEff` (part 2), the rune pass through
`indexRunesBlock_satSame` (part 1).  Where the old proof used `bc'.ins = bc.ins` it now uses
`NoRanges`: the special-outpoint entries accumulated by the inscription pass carry no ranges.
-/
namespace Ord.Index
open Outcome Ord.Index.Sched

theorem cacheIns_pool (txid : Txid) (outs : List UtxoEntry) (cache : Cache) :
    ∃ d, (allRanges (cacheIns txid outs cache) ++ d).Perm (allRanges cache ++ outs.flatMap (·.ranges)) :=
  cache_fold_pool txid outs 0 cache

theorem flatMap_ranges_eq_flatten (outs : List UtxoEntry) : outs.flatMap (·.ranges) = (outs.map (·.ranges)).flatten := by
  rw [List.flatMap_def]

/-- a transaction that is not the coinbase keeps the pool good (inscription pass on or off) -/
theorem indexTx_noncb_full (cfg : Cfg) (hs : cfg.indexSats = true) (blk : Block) (insOn : Bool) (off : Nat)
    (hoff : off ≠ 0) (tx : Tx) (bc bc' : BlockCtx) (B : Nat) (g : GoodR B (poolR bc))
    (h : indexTx cfg blk insOn off tx bc = .ok bc') :
    GoodR B (poolR bc') ∧ (NoRanges bc.ins → NoRanges bc'.ins) ∧ bc'.st.height = bc.st.height := by
  have eff := indexTx_satEff cfg hs blk insOn off tx bc bc' h
  refine ⟨?_, eff.noRanges, eff.height⟩
  obtain ⟨bc1, inputs, outs, r, htake, hr, houts, hcache, hutxo, -, hcbi, hlost⟩ := eff.ex
  simp only [hoff, if_false] at htake hr hcbi hlost
  obtain ⟨hp, hcb1, hlost1, -, -⟩ := takeInputEntries_pool cfg tx.inputs bc [] bc1 inputs htake
  obtain ⟨-, hden, hwf⟩ := indexTransactionSats_facts _ _ r hr
  obtain ⟨d, hd⟩ := cacheIns_pool tx.txid outs bc1.cache
  rw [flatMap_ranges_eq_flatten, houts] at hd
  simp only [poolR, hcache, hutxo, hcbi, hlost]
  have g1 : GoodR B ((allRanges bc1.st.utxo ++ allRanges bc1.cache ++ bc.coinbaseInputs ++ bc.lostRanges)
      ++ entryRanges inputs) := by
    refine g.perm (perm_of_counts fun x => ?_)
    have := hp.count_eq x
    simp only [poolR, entryRanges, List.flatMap_nil, List.append_nil, List.count_append] at this ⊢
    omega
  have g2 := GoodR.replace (y := r.outputs.flatten ++ r.leftover) hden (hwf (WF_append.mp g1.1).2) g1
  refine GoodR.sub (d := d) (perm_of_counts fun x => ?_) g2
  have := hd.count_eq x
  simp only [List.count_append] at this ⊢
  omega

/-- the coinbase (indexed last) turns the coinbase inputs into its outputs and the lost ranges -/
theorem indexTx_cb_full (cfg : Cfg) (hs : cfg.indexSats = true) (blk : Block) (insOn : Bool) (tx : Tx)
    (bc bc' : BlockCtx) (B : Nat) (g : GoodR B (poolR bc))
    (h : indexTx cfg blk insOn 0 tx bc = .ok bc') :
    GoodR B (poolR' bc') ∧ (NoRanges bc.ins → NoRanges bc'.ins) ∧ bc'.st.height = bc.st.height := by
  have eff := indexTx_satEff cfg hs blk insOn 0 tx bc bc' h
  refine ⟨?_, eff.noRanges, eff.height⟩
  obtain ⟨bc1, inputs, outs, r, htake, hr, houts, hcache, hutxo, -, -, hlost⟩ := eff.ex
  simp only [if_true] at htake hr hlost
  obtain ⟨rfl, -⟩ := htake
  obtain ⟨-, hden, hwf⟩ := indexTransactionSats_facts _ _ r hr
  obtain ⟨d, hd⟩ := cacheIns_pool tx.txid outs bc1.cache
  rw [flatMap_ranges_eq_flatten, houts] at hd
  simp only [poolR', hcache, hutxo, hlost]
  have g1 : GoodR B ((allRanges bc1.st.utxo ++ allRanges bc1.cache ++ bc1.lostRanges) ++ bc1.coinbaseInputs) := by
    refine g.perm (perm_of_counts fun x => ?_)
    simp only [poolR, List.count_append]
    omega
  have g2 := GoodR.replace (y := r.outputs.flatten ++ r.leftover) hden (hwf (WF_append.mp g1.1).2) g1
  refine GoodR.sub (d := d) (perm_of_counts fun x => ?_) g2
  have := hd.count_eq x
  simp only [List.count_append] at this ⊢
  omega

theorem indexTxs_noncb_full (cfg : Cfg) (hs : cfg.indexSats = true) (blk : Block) (insOn : Bool) (l : List (Nat × Tx))
    (hl : ∀ p ∈ l, p.1 ≠ 0) (bc bc' : BlockCtx) (B : Nat) (g : GoodR B (poolR bc))
    (h : indexTxs cfg blk insOn l bc = .ok bc') :
    GoodR B (poolR bc') ∧ (NoRanges bc.ins → NoRanges bc'.ins) ∧ bc'.st.height = bc.st.height := by
  induction l generalizing bc with
  | nil =>
    simp only [indexTxs, Outcome.ok.injEq] at h
    subst h; exact ⟨g, id, rfl⟩
  | cons p l ih =>
    obtain ⟨i, tx⟩ := p
    simp only [indexTxs] at h
    split at h
    · cases h
    · cases h
    · rename_i bc1 h1
      obtain ⟨g1, e1, e2⟩ := indexTx_noncb_full cfg hs blk insOn i (hl (i, tx) (by simp)) tx bc bc1 B g h1
      obtain ⟨g2, e3, e4⟩ := ih (fun p hp => hl p (by simp [hp])) bc1 g1 h
      exact ⟨g2, fun hn => e3 (e1 hn), e4.trans e2⟩

/-- all transactions of a block in the updater's order (`skip(1).chain(take(1))`) -/
theorem indexTxs_order_pool_full (cfg : Cfg) (hs : cfg.indexSats = true) (blk : Block) (insOn : Bool)
    (bc0 bc : BlockCtx) (B : Nat) (g : GoodR B (poolR bc0))
    (h : indexTxs cfg blk insOn (List.drop 1 (enumFrom 0 blk.txs) ++ List.take 1 (enumFrom 0 blk.txs)) bc0 = .ok bc) :
    GoodR B (poolR' bc) ∧ (NoRanges bc0.ins → NoRanges bc.ins) ∧ bc.st.height = bc0.st.height := by
  cases htx : blk.txs with
  | nil =>
    simp only [htx, enumFrom, List.drop_nil, List.take_nil, List.append_nil, indexTxs, Outcome.ok.injEq] at h
    subst h
    refine ⟨GoodR.sub (d := bc0.coinbaseInputs) (perm_of_counts fun x => ?_) g, id, rfl⟩
    simp only [poolR, poolR', List.count_append]; omega
  | cons t ts =>
    simp only [htx, enumFrom, List.drop_succ_cons, List.drop_zero, List.take_succ_cons, List.take_zero] at h
    obtain ⟨bc1, h1, h2⟩ := indexTxs_append cfg blk insOn _ _ bc0 bc h
    obtain ⟨g1, e1, e2⟩ := indexTxs_noncb_full cfg hs blk insOn _ (enumFrom_succ_ne_zero 0 ts) bc0 bc1 B g h1
    simp only [indexTxs] at h2
    split at h2
    · cases h2
    · cases h2
    · rename_i bc2 h3
      simp only [Outcome.ok.injEq] at h2
      subst h2
      obtain ⟨g2, e3, e4⟩ := indexTx_cb_full cfg hs blk insOn t bc1 bc2 B g1 h3
      exact ⟨g2, fun hn => e3 (e1 hn), e4.trans e2⟩

theorem allRanges_specialOf (n u : Option UtxoEntry) :
    allRanges (specialOf n u) = (n.map (·.ranges)).getD [] ++ (u.map (·.ranges)).getD [] := by
  cases n <;> cases u <;> simp [specialOf, allRanges]

/-- the ranges the end-of-block special rows carry: the lost ranges of the block, nothing else -/
theorem special_ranges (cfg : Cfg) (blk : Block) (insOn : Bool) (bc : BlockCtx) (hn : NoRanges bc.ins) :
    allRanges (specialOf (endState cfg blk insOn bc).2 bc.ins.unboundEntry) = bc.lostRanges := by
  have hu : (bc.ins.unboundEntry.map (·.ranges)).getD [] = [] := by
    cases hue : bc.ins.unboundEntry with
    | none => rfl
    | some e => simp [hn.2 e hue]
  rw [allRanges_specialOf, hu, List.append_nil]
  unfold endState
  cases hE : bc.lostRanges.isEmpty
  · simp only [Bool.false_eq_true, if_false]
    cases hne : bc.ins.nullEntry with
    | none => simp [UtxoEntry.merged, UtxoEntry.empty]
    | some e => simp [UtxoEntry.merged, hn.1 e hne]
  · simp only [if_true]
    have hl : bc.lostRanges = [] := List.isEmpty_iff.mp hE
    cases hne : bc.ins.nullEntry with
    | none => simp [hl]
    | some e => simp [hn.1 e hne, hl]

theorem endState_utxo_height (cfg : Cfg) (blk : Block) (insOn : Bool) (bc : BlockCtx) :
    (endState cfg blk insOn bc).1.utxo = bc.st.utxo ∧ (endState cfg blk insOn bc).1.height = bc.st.height := by
  unfold endState
  cases insOn <;> cases bc.lostRanges.isEmpty <;> exact ⟨rfl, rfl⟩

/-- **one block keeps the table partitioned** (sat index on; everything else arbitrary) -/
theorem indexUtxoEntries_partition_full (cfg : Cfg) (hs : cfg.indexSats = true)
    (st : State) (blk : Block) (st' : State) (evs : List Event) (hh : blk.height = st.height)
    (inv : GoodR (startingSat st.height) (allRanges st.utxo))
    (h : indexUtxoEntries cfg st blk = .ok (st', evs)) :
    GoodR (startingSat (st.height + 1)) (allRanges st'.utxo) ∧ st'.height = st.height := by
  rw [indexUtxoEntries_eq] at h
  have g0 : GoodR (startingSat (st.height + 1)) (poolR (bc0A cfg st blk)) := by
    simp only [poolR, bc0A, coinbaseInputsOf, allRanges_nil, List.append_nil, hs, true_and, hh]
    rw [startingSat_succ]
    split
    · rename_i hpos
      exact inv.add_range (by omega)
    · rename_i hz
      have : subsidy st.height = 0 := by omega
      rw [this]; simpa using inv
  have hn0 : NoRanges (bc0A cfg st blk).ins := by simp [NoRanges, bc0A]
  split at h
  · cases h
  · cases h
  · rename_i bc hbc
    obtain ⟨g1, hnr, hhe⟩ := indexTxs_order_pool_full cfg hs blk _ _ bc _ g0 hbc
    have hn := hnr hn0
    simp only [Outcome.ok.injEq, Prod.mk.injEq] at h
    obtain ⟨rfl, -⟩ := h
    have hsp := special_ranges cfg blk (insOnOf cfg blk) bc hn
    obtain ⟨hu3, hh3⟩ := endState_utxo_height cfg blk (insOnOf cfg blk) bc
    obtain ⟨⟨d, hd⟩, hht⟩ := flushCache_pool cfg
      (bc.cache ++ specialOf (endState cfg blk (insOnOf cfg blk) bc).2 bc.ins.unboundEntry)
      (endState cfg blk (insOnOf cfg blk) bc).1
    refine ⟨GoodR.sub (d := d) (perm_of_counts fun x => ?_) g1, hht.trans (hh3.trans hhe)⟩
    have := hd.count_eq x
    simp only [poolR', allRanges_append, hsp, hu3, List.count_append] at this ⊢
    omega

/-- `applyBlock` keeps the table partitioned — every configuration with the sat index on -/
theorem applyBlock_partition_full (cfg : Cfg) (hs : cfg.indexSats = true)
    (st : State) (blk : Block) (st' : State) (evs : List Event)
    (hh : blk.height = st.height) (inv : SatsPartitioned st)
    (h : applyBlock cfg st blk = .ok (st', evs)) :
    SatsPartitioned st' ∧ st'.height = st.height + 1 := by
  simp only [applyBlock, hs, Bool.or_true, if_true] at h
  split at h
  · cases h
  · cases h
  · rename_i st1 ev1 h1
    obtain ⟨g, hhe⟩ := indexUtxoEntries_partition_full cfg hs st blk st1 ev1 hh
      ((satsPartitioned_iff_goodR st).mp inv) h1
    split at h
    · cases h
    · cases h
    · rename_i st2 ev2 h2
      simp only [Outcome.ok.injEq, Prod.mk.injEq] at h
      obtain ⟨rfl, -⟩ := h
      have hss : SatSame st1 st2 := by
        split at h2
        · exact indexRunesBlock_satSame _ _ _ h2
        · simp only [Outcome.ok.injEq, Prod.mk.injEq] at h2
          rw [← h2.1]; exact SatSame.refl _
      refine ⟨(satsPartitioned_iff_goodR _).mpr ?_, by simp [hss.height, hhe]⟩
      simpa [hss.height, hss.utxo, hhe] using g

/-- **every reachable state of the full index model is partitioned** (sat index on; any other
flags; any chain the indexer accepts, duplicate txids included) -/
theorem reachable_partition_full (cfg : Cfg) (hs : cfg.indexSats = true)
    (chain : List Block) (hc : ChainHeights chain) (st : State) (evs : List Event)
    (h : run cfg chain = .ok (st, evs)) : SatsPartitioned st ∧ st.height = chain.length := by
  have := run_induct cfg (fun pre st _ => ChainHeights pre → SatsPartitioned st ∧ st.height = pre.length)
    (fun _ => ⟨satsPartitioned_empty.toSatsPartitioned, rfl⟩)
    (by
      intro pre st evs b st' ev' ih hb hch
      have hpre : ChainHeights pre := by
        intro i hi'
        have := hch i (by simp; omega)
        simpa [List.getElem_append_left hi'] using this
      obtain ⟨inv, hlen⟩ := ih hpre
      have hbh : b.height = st.height := by
        have := hch pre.length (by simp)
        simpa [hlen] using this
      obtain ⟨inv', hh'⟩ := applyBlock_partition_full cfg hs st b st' ev' hbh inv hb
      exact ⟨inv', by simp [hh', hlen]⟩)
    chain st evs h
  exact this hc

end Ord.Index
