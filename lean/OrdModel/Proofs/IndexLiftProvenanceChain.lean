import OrdModel.Proofs.IndexLiftProvenanceTx
/-
C07, provenance on reachable states, part 3: one block and the chain.  The tracked relation is
instantiated with `Witness cfg chain`: there is a block of the chain and a transaction in it —
with the block context the updater had just before that transaction, computed by the model from
the chain prefix — that reveals the child and spends or reveals the parent.
-/
namespace Ord.Index.Prov
open Ord Ord.Index Outcome Sched Insloc Insnum InsLift

/-- `bc` is the updater's block context just before the `k`-th transaction (in indexing order
`blockOrder`: the coinbase last) of block `b`, the blocks `pre` having been indexed from the empty
index -/
def BeforeTx (cfg : Cfg) (pre : List Block) (b : Block) (k : Nat) (bc : BlockCtx) : Prop :=
  ∃ (st0 : State) (ev0 : List Event), run cfg pre = .ok (st0, ev0) ∧
    indexTxs cfg b (insOnOf cfg b) ((blockOrder b).take k) (bc0A cfg st0 b) = .ok bc

/-- a transaction of `chain` reveals `cid` and spends or reveals `pid`; the index held at most `n`
inscriptions just before it -/
def Witness (cfg : Cfg) (chain : List Block) : Rel := fun pid cid n =>
  ∃ (pre : List Block) (b : Block) (post : List Block) (k i : Nat) (tx : Tx) (bc : BlockCtx),
    chain = pre ++ b :: post ∧ (blockOrder b)[k]? = some (i, tx) ∧ BeforeTx cfg pre b k bc ∧
    insOnOf cfg b = true ∧ (∃ bc', indexTx cfg b (insOnOf cfg b) i tx bc = .ok bc') ∧
    RevealedBy tx cid ∧ (SpentBy bc i tx pid ∨ RevealedBy tx pid) ∧ bc.st.entries.length ≤ n

theorem witness_mono (cfg : Cfg) (chain : List Block) : Mono (Witness cfg chain) := by
  rintro pid cid n m ⟨pre, b, post, k, i, tx, bc, h1, h2, h3, h4, h5, h6, h7, h8⟩ hle
  exact ⟨pre, b, post, k, i, tx, bc, h1, h2, h3, h4, h5, h6, h7, Nat.le_trans h8 hle⟩

theorem witness_snoc (cfg : Cfg) (chain : List Block) (blk : Block) (pid cid : InscriptionId) (n : Nat)
    (h : Witness cfg chain pid cid n) : Witness cfg (chain ++ [blk]) pid cid n := by
  obtain ⟨pre, b, post, k, i, tx, bc, h1, h2, h3, h4, h5, h6, h7, h8⟩ := h
  exact ⟨pre, b, post ++ [blk], k, i, tx, bc, by rw [h1]; simp, h2, h3, h4, h5, h6, h7, h8⟩

/-! ### the chain fold -/

theorem runFrom_snoc (cfg : Cfg) (pre : List Block) (b : Block) (st0 st st' : State) (evs ev' : List Event)
    (h : runFrom cfg st0 pre = .ok (st, evs)) (hb : applyBlock cfg st b = .ok (st', ev')) :
    runFrom cfg st0 (pre ++ [b]) = .ok (st', evs ++ ev') := by
  induction pre generalizing st0 evs with
  | nil =>
    simp only [runFrom, Outcome.ok.injEq, Prod.mk.injEq] at h
    obtain ⟨rfl, rfl⟩ := h
    simp [runFrom, hb]
  | cons x rest ih =>
    simp only [runFrom] at h
    split at h
    · cases h
    · cases h
    · rename_i st1 ev1 hx
      split at h
      · cases h
      · cases h
      · rename_i st2 ev2 hrest
        simp only [Outcome.ok.injEq, Prod.mk.injEq] at h
        obtain ⟨rfl, rfl⟩ := h
        simp only [List.cons_append, runFrom, hx, ih st1 ev2 hrest, List.append_assoc]

theorem run_snoc (cfg : Cfg) (pre : List Block) (b : Block) (st st' : State) (evs ev' : List Event)
    (h : run cfg pre = .ok (st, evs)) (hb : applyBlock cfg st b = .ok (st', ev')) :
    run cfg (pre ++ [b]) = .ok (st', evs ++ ev') :=
  runFrom_snoc cfg pre b {} st st' evs ev' h hb

/-! ### one block -/

theorem applyBlock_pinv (cfg : Cfg) (pre : List Block) (st : State) (evs : List Event) (b : Block) (st' : State)
    (ev' : List Event) (hrun : run cfg pre = .ok (st, evs)) (hinv : PInv (Witness cfg pre) (tabs st))
    (h : applyBlock cfg st b = .ok (st', ev')) : PInv (Witness cfg (pre ++ [b])) (tabs st') := by
  have hweak : PInv (Witness cfg (pre ++ [b])) (tabs st) :=
    PInvL.weaken (fun a c n hw => witness_snoc cfg pre b a c n hw) hinv
  unfold applyBlock at h
  cases hflags : (cfg.indexInscriptions || cfg.indexAddresses || cfg.indexSats) with
  | false =>
    simp only [hflags, Bool.false_eq_true, if_false] at h
    rw [tabs_of_insCore (applyBlock_after cfg b st [] st' ev' h)]; exact hweak
  | true =>
    simp only [hflags, if_true] at h
    cases hu : indexUtxoEntries cfg st b with
    | panic e => rw [hu] at h; cases h
    | err e => rw [hu] at h; cases h
    | ok r =>
      obtain ⟨a1, ev1⟩ := r
      rw [hu] at h
      simp only at h
      rw [tabs_of_insCore (applyBlock_after cfg b a1 ev1 st' ev' h)]
      rw [indexUtxoEntries_eq] at hu
      cases ht : indexTxs cfg b (insOnOf cfg b) (blockOrder b) (bc0A cfg st b) with
      | panic e => rw [ht] at hu; cases hu
      | err e => rw [ht] at hu; cases hu
      | ok bc =>
        rw [ht] at hu
        simp only [Outcome.ok.injEq, Prod.mk.injEq] at hu
        rw [← hu.1, tabs_of_core (flushCache_core cfg _ _), endState_tabs]
        have hfin : BInvP (Witness cfg (pre ++ [b])) bc := by
          refine indexTxs_prefix_induct cfg b (insOnOf cfg b) (blockOrder b) (bc0A cfg st b)
            (BInvP (Witness cfg (pre ++ [b]))) ?_ (blockOrder b) [] (bc0A cfg st b) bc (by simp) (by simp [indexTxs]) ht
            ⟨hweak, fun f hf => by cases hf⟩
          intro k i tx bck bck' hk htake htx hP
          refine (indexTx_pinv (witness_mono cfg _) cfg b (insOnOf cfg b) i tx bck bck' hP ?_ htx).1
          intro hon pid cid hc hp
          exact ⟨pre, b, [], k, i, tx, bck, rfl, hk, ⟨st, evs, hrun, htake⟩, hon, ⟨bck', htx⟩, hc, hp, Nat.le_refl _⟩
        exact hfin.pinv

/-! ### the chain -/

/-- **Provenance on every reachable state**: after any chain, every row `(p, c)` of the children
table has a witness transaction in the chain that reveals (the id of) `c` and spends or reveals
(the id of) `p`. -/
theorem run_pinv (cfg : Cfg) (chain : List Block) (st : State) (evs : List Event)
    (h : run cfg chain = .ok (st, evs)) : PInv (Witness cfg chain) (tabs st) := by
  have := run_induct cfg (fun pre st evs => run cfg pre = .ok (st, evs) ∧ PInv (Witness cfg pre) (tabs st))
    ⟨rfl, pinv_empty _⟩ ?_ chain st evs h
  · exact this.2
  · intro pre st evs b st' ev' hP hb
    exact ⟨run_snoc cfg pre b st st' evs ev' hP.1 hb, applyBlock_pinv cfg pre st evs b st' ev' hP.1 hP.2 hb⟩

end Ord.Index.Prov
