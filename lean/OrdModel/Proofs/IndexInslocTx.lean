import OrdModel.Proofs.IndexInslocAssign
namespace Ord.Index.Insloc
open Ord Ord.Index Outcome

/-! ### `index_inscriptions` for one transaction, split at the end of the input scan -/

def txIsCoinbase (tx : Tx) : Bool := match tx.inputs with | i :: _ => i.prev.isNull | [] => false

def txTotalOut (tx : Tx) : Nat := tx.outputs.foldl (fun a o => a + o.value) 0

/-- fee and parent normalisation of the scanned flotsam (changes nothing C03/C04 look at) -/
def txFloating (tx : Tx) (sc : ScanState) : List Flotsam :=
    let totalOut := txTotalOut tx
    let potential := sc.floating.map (·.id)
    let dedup (ps : List InscriptionId) : List InscriptionId :=
      (ps.foldl (fun (acc : List InscriptionId × List InscriptionId) p =>
        if acc.2.contains p then acc
        else (if potential.contains p then acc.1 ++ [p] else acc.1, acc.2 ++ [p])) ([], [])).1
    let fee := if sc.idCounter = 0 then 0 else (sc.totalInputValue - totalOut) / sc.idCounter
    sc.floating.map (fun f => match f.origin with
      | .new c _ g h ps r u v => { f with origin := .new c fee g h (dedup ps) r u v }
      | .old .. => f)

/-- everything after the input scan: sort, assign to outputs, place, carry or lose the rest -/
def placeTx (cfg : Cfg) (height time : Nat) (tx : Tx) (inputRanges : Option (List (Nat × Nat)))
    (isCoinbase : Bool) (totalIn : Nat) (floating : List Flotsam) (st1 : State) (ls : LocState) :
    Outcome LocState :=
    let floating := if isCoinbase then floating ++ ls.ctx.flotsam else floating
    let ctx1 := if isCoinbase then { ls.ctx with flotsam := [] } else ls.ctx
    let sorted := sortByKey (·.offset) floating
    let r := assignOutputs tx.txid tx.outputs 0 0 sorted []
    match applyLocations cfg height time inputRanges r.1 { st := st1, ctx := ctx1, outs := ls.outs } with
    | .panic s => .panic s
    | .err e => .err e
    | .ok ls2 =>
      if isCoinbase then
        match applyLost cfg height time inputRanges r.2.2 r.2.1 ls2 with
        | .panic s => .panic s
        | .err e => .err e
        | .ok ls3 =>
          if ls3.ctx.reward < r.2.2 then .panic "self.reward - output_value"
          else .ok { ls3 with ctx := { ls3.ctx with lostSats := ls3.ctx.lostSats + (ls3.ctx.reward - r.2.2) } }
      else
        if totalIn < r.2.2 then .panic "total_input_value - output_value"
        else
        let carried := r.2.1.map (fun f => { f with offset := ls2.ctx.reward + f.offset - r.2.2 })
        .ok { ls2 with ctx := { ls2.ctx with flotsam := ls2.ctx.flotsam ++ carried,
                                             reward := ls2.ctx.reward + (totalIn - r.2.2) } }

theorem indexInscriptions_eq (cfg : Cfg) (height time : Nat) (tx : Tx) (inputs : List (TxIn × UtxoEntry))
    (rs : Option (List (Nat × Nat))) (ls : LocState) :
    indexInscriptions cfg height time tx inputs rs ls =
      match scanInputs cfg ls.st (height ≥ cfg.jubileeHeight) tx.txid height (txTotalOut tx) inputs 0
          { envelopes := tx.envelopes } with
      | .panic s => .panic s
      | .err e => .err e
      | .ok sc =>
        if sc.floating.any isNew ∧ sc.totalInputValue < txTotalOut tx then .panic "total_input_value - total_output_value"
        else if sc.floating.any isNew ∧ sc.idCounter = 0 then .panic "division by zero"
        else
          placeTx cfg height time tx rs (txIsCoinbase tx) sc.totalInputValue (txFloating tx sc)
            (if cfg.indexTransactions && !tx.envelopes.isEmpty then
              { ls.st with txid2tx := AL.set ls.st.txid2tx tx.txid tx.size } else ls.st) ls := rfl


theorem oldSeqs_perm {a b : List Flotsam} (h : a.Perm b) : (oldSeqs a).Perm (oldSeqs b) :=
  List.Perm.filterMap _ h

theorem newCount_perm {a b : List Flotsam} (h : a.Perm b) : newCount a = newCount b :=
  (List.Perm.filter _ h).length_eq

theorem oldSeqs_map_kind (g : Flotsam → Flotsam)
    (hold : ∀ f s o, f.origin = .old s o → (g f).origin = .old s o)
    (hnew : ∀ f, isNew f = true → isNew (g f) = true) (l : List Flotsam) :
    oldSeqs (l.map g) = oldSeqs l ∧ newCount (l.map g) = newCount l := by
  induction l with
  | nil => simp
  | cons a rest ih =>
    simp only [List.map_cons]
    cases ho : a.origin with
    | old s osp =>
      have ho' : (g a).origin = .old s osp := hold a s osp ho
      rw [(oldSeqs_cons_old _ _ s osp ho').1, (oldSeqs_cons_old _ _ s osp ho').2,
        (oldSeqs_cons_old _ _ s osp ho).1, (oldSeqs_cons_old _ _ s osp ho).2, ih.1, ih.2]
      exact ⟨rfl, rfl⟩
    | new c f gg hd ps r u v =>
      have hn : isNew a = true := by simp [isNew, ho]
      have hn' : isNew (g a) = true := hnew a hn
      rw [(oldSeqs_cons_new _ _ hn').1, (oldSeqs_cons_new _ _ hn').2,
        (oldSeqs_cons_new _ _ hn).1, (oldSeqs_cons_new _ _ hn).2, ih.1, ih.2]
      exact ⟨rfl, rfl⟩

theorem oldSeqs_map_origin (g : Flotsam → Flotsam) (hg : ∀ f, (g f).origin = f.origin) (l : List Flotsam) :
    oldSeqs (l.map g) = oldSeqs l ∧ newCount (l.map g) = newCount l :=
  oldSeqs_map_kind g (fun f s o h => by rw [hg, h]) (fun f h => by simpa [isNew, hg] using h) l

theorem txFloating_kind (tx : Tx) (sc : ScanState) :
    oldSeqs (txFloating tx sc) = oldSeqs sc.floating ∧ newCount (txFloating tx sc) = newCount sc.floating := by
  unfold txFloating
  apply oldSeqs_map_kind
  · intro f s o h; simp [h]
  · intro f h
    cases ho : f.origin with
    | old s o => simp [isNew, ho] at h
    | new => simp [isNew]

theorem count_range'_append (a s m n : Nat) :
    List.count a (List.range' s (m + n)) = List.count a (List.range' s m) + List.count a (List.range' (s + m) n) := by
  rw [← List.range'_append_1, List.count_append]

/-- C04, one transaction after the input scan: every scanned flotsam (and, in the coinbase, every
flotsam saved from the block's fee spends) is either placed exactly once — on an output entry, the
null entry or the unbound entry — or (non-coinbase only) saved once for the coinbase; new ones
receive consecutive fresh sequence numbers. -/
theorem placeTx_conserve (cfg : Cfg) (height time : Nat) (tx : Tx) (rs : Option (List (Nat × Nat)))
    (cb : Bool) (totalIn : Nat) (floating : List Flotsam) (st1 : State) (ls ls' : LocState)
    (he : st1.entries = ls.st.entries) (hu : st1.utxo = ls.st.utxo)
    (h : placeTx cfg height time tx rs cb totalIn floating st1 ls = .ok ls') :
    (located ls'.outs ls'.ctx ++ oldSeqs ls'.ctx.flotsam).Perm
      (located ls.outs ls.ctx ++ oldSeqs ls.ctx.flotsam ++ oldSeqs floating ++
        List.range' ls.st.entries.length (ls'.st.entries.length - ls.st.entries.length)) ∧
    ls'.st.entries.length + newCount ls'.ctx.flotsam =
      ls.st.entries.length + newCount ls.ctx.flotsam + newCount floating ∧
    (cb = true → ls'.ctx.flotsam = []) ∧
    ls'.st.utxo = ls.st.utxo ∧ ls'.outs.length = ls.outs.length := by
  cases cb with
  | true =>
    simp only [placeTx, ↓reduceIte] at h
    split at h
    · simp at h
    · simp at h
    · next ls2 h2 =>
      split at h
      · simp at h
      · simp at h
      · next ls3 h3 =>
        split at h
        · simp at h
        · simp only [ok.injEq] at h; subst h
          obtain ⟨p2, l2, e2, u2, _, _, f2, _, _⟩ := (applyLocations_steps _ _ _ _ _ _ _ h2).conserve
          obtain ⟨p3, l3, e3, u3, _, _, f3, _, _⟩ := (applyLost_steps _ _ _ _ _ _ _ _ h3).conserve
          obtain ⟨hc, _⟩ := assignOutputs_conserve tx.txid tx.outputs 0 0
            (sortByKey (·.offset) (floating ++ ls.ctx.flotsam)) []
          have hsp := sortByKey_perm (·.offset) (floating ++ ls.ctx.flotsam)
          simp only [List.map_nil, List.nil_append] at hc
          rw [← hc] at hsp
          have hold := fun a => (oldSeqs_perm hsp).count_eq a
          have hnew := newCount_perm hsp
          simp only [oldSeqs_append, newCount_append, List.count_append] at hold hnew
          simp only at e2 e3 f2 f3 l2 l3 u2 u3
          refine ⟨?_, ?_, ?_, ?_, ?_⟩
          · rw [List.perm_iff_count]; intro a
            have c2 := p2.count_eq a
            have c3 := p3.count_eq a
            have hk : ls3.st.entries.length - ls.st.entries.length =
                newCount (List.map (·.2.1) (assignOutputs tx.txid tx.outputs 0 0
                  (sortByKey (·.offset) (floating ++ ls.ctx.flotsam)) []).1) +
                newCount (assignOutputs tx.txid tx.outputs 0 0
                  (sortByKey (·.offset) (floating ++ ls.ctx.flotsam)) []).2.1 := by
              rw [e3, e2, he]; omega
            simp only
            rw [hk, f3, f2]
            have := hold a
            have hr := count_range'_append a ls.st.entries.length
              (newCount (List.map (·.2.1) (assignOutputs tx.txid tx.outputs 0 0
                  (sortByKey (·.offset) (floating ++ ls.ctx.flotsam)) []).1))
              (newCount (assignOutputs tx.txid tx.outputs 0 0
                  (sortByKey (·.offset) (floating ++ ls.ctx.flotsam)) []).2.1)
            rw [e2, he] at c3
            simp only [located, List.count_append, oldSeqs_nil, List.count_nil, he] at c2 c3 hr ⊢
            omega
          · simp only
            rw [f3, f2, e3, e2, he]; simp only [newCount_nil]; omega
          · intro _; simp only; rw [f3, f2]
          · simp only; rw [u3, u2, hu]
          · simp only; rw [l3, l2]
  | false =>
    simp only [placeTx, Bool.false_eq_true, ↓reduceIte] at h
    split at h
    · simp at h
    · simp at h
    · next ls2 h2 =>
      split at h
      · simp at h
      · simp only [ok.injEq] at h; subst h
        obtain ⟨p2, l2, e2, u2, _, _, f2, r2, _⟩ := (applyLocations_steps _ _ _ _ _ _ _ h2).conserve
        obtain ⟨hc, _⟩ := assignOutputs_conserve tx.txid tx.outputs 0 0 (sortByKey (·.offset) floating) []
        have hsp := sortByKey_perm (·.offset) floating
        simp only [List.map_nil, List.nil_append] at hc
        rw [← hc] at hsp
        have hold := fun a => (oldSeqs_perm hsp).count_eq a
        have hnew := newCount_perm hsp
        simp only [oldSeqs_append, newCount_append, List.count_append] at hold hnew
        simp only at e2 f2 l2 u2
        obtain ⟨hm1, hm2⟩ := oldSeqs_map_origin
          (fun f => { f with offset := ls2.ctx.reward + f.offset -
            (assignOutputs tx.txid tx.outputs 0 0 (sortByKey (·.offset) floating) []).2.2 })
          (fun _ => rfl) (assignOutputs tx.txid tx.outputs 0 0 (sortByKey (·.offset) floating) []).2.1
        refine ⟨?_, ?_, by simp, ?_, ?_⟩
        · rw [List.perm_iff_count]; intro a
          have c2 := p2.count_eq a
          simp only
          rw [oldSeqs_append, hm1, f2, e2, he]
          have := hold a
          simp only [located, List.count_append, Nat.add_sub_cancel_left] at c2 ⊢
          rw [he] at c2
          omega
        · simp only
          rw [newCount_append, hm2, f2, e2, he]; omega
        · simp only; rw [u2, hu]
        · simp only; rw [l2]

end Ord.Index.Insloc
