import OrdModel.Proofs.IndexLiftSatRows
/-
Sat-side lift, part 14 (C02, rare sats): `RowsOK` through the end of the block (lost ranges,
commit) and over chains; the rare-sat clause for reachable states.
-/
namespace Ord.Index
open Outcome Ord.Index.Sched

theorem indexTxs_rows_noncb (cfg : Cfg) (hs : cfg.indexSats = true) (blk : Block) (insOn : Bool) (l : List (Nat × Tx))
    (hl : ∀ p ∈ l, p.1 ≠ 0) (bc bc' : BlockCtx) (B : Nat) (g : GoodR B (poolR bc))
    (hrows : RowsOK bc.st.sat2sp (bc.st.utxo ++ bc.cache))
    (h : indexTxs cfg blk insOn l bc = .ok bc') :
    GoodR B (poolR bc') ∧ RowsOK bc'.st.sat2sp (bc'.st.utxo ++ bc'.cache) := by
  induction l generalizing bc with
  | nil => simp only [indexTxs, Outcome.ok.injEq] at h; subst h; exact ⟨g, hrows⟩
  | cons p l ih =>
    obtain ⟨i, tx⟩ := p
    simp only [indexTxs] at h
    split at h
    · cases h
    · cases h
    · rename_i bc1 h1
      obtain ⟨g1, -, -⟩ := indexTx_noncb_full cfg hs blk insOn i (hl (i, tx) (by simp)) tx bc bc1 B g h1
      exact ih (fun p hp => hl p (by simp [hp])) bc1 g1 (indexTx_rows cfg hs blk insOn i tx bc bc1 B g hrows h1) h

/-- facts about the block's cache that need the chain hypothesis `BlockPlain` -/
theorem indexTxs_cache_facts (cfg : Cfg) (hs : cfg.indexSats = true) (blk : Block) (insOn : Bool)
    (l : List (Nat × Tx)) (hz : ∀ p ∈ l, p.2.txid ≠ 0) (b b' : BlockCtx)
    (hN : (AL.keys b.cache).Nodup) (hp : ∀ op, AL.get b.cache op ≠ none → op.isSpecial = false)
    (h : indexTxs cfg blk insOn l b = .ok b') :
    (AL.keys b'.cache).Nodup ∧ ∀ op, AL.get b'.cache op ≠ none → op.isSpecial = false := by
  induction l generalizing b with
  | nil => simp only [indexTxs, Outcome.ok.injEq] at h; subst h; exact ⟨hN, hp⟩
  | cons p l ih =>
    obtain ⟨i, tx⟩ := p
    simp only [indexTxs] at h
    split at h
    · cases h
    · cases h
    · rename_i b1 h1
      refine ih (fun p hp => hz p (by simp [hp])) b1 (indexTx_cache_nodup cfg hs blk insOn i tx b b1 hN h1) ?_ h
      obtain ⟨b0, inputs, outs, r, htake, -, -, hcache, -⟩ := (indexTx_satEff cfg hs blk insOn i tx b b1 h1).ex
      intro op hop
      rw [hcache] at hop
      rcases cacheIns_keys _ _ _ _ hop with h2 | h2
      · exact isSpecial_false_of_txid (by rw [h2]; exact hz (i, tx) (by simp))
      · by_cases hz0 : i = 0
        · simp only [hz0, if_true] at htake; rw [htake.1] at h2; exact hp op h2
        · simp only [hz0, if_false] at htake
          exact hp op ((takeInputEntries_mono cfg _ _ _ _ _ htake).1 op h2)

theorem mem_blockOrder (blk : Block) (p : Nat × Tx) (hp : p ∈ blockOrder blk) : p.2 ∈ blk.txs := by
  cases htx : blk.txs with
  | nil => simp [blockOrder, htx, enumFrom] at hp
  | cons t ts =>
    have ho : blockOrder blk = enumFrom 1 ts ++ [(0, t)] := by simp [blockOrder, htx, enumFrom]
    rw [ho, List.mem_append] at hp
    rcases hp with hp | hp
    · have hm : p.2 ∈ ts := by
        have := List.mem_map_of_mem (f := (·.2)) hp
        rwa [Ord.Index.enumFrom_map_snd] at this
      simp [hm]
    · simp only [List.mem_singleton] at hp
      subst hp; simp

theorem endState_sat2sp (cfg : Cfg) (blk : Block) (insOn : Bool) (bc : BlockCtx) :
    (endState cfg blk insOn bc).1.sat2sp = (lostRare bc.st.sat2sp bc.lostRanges bc.st.lostSats).1 := by
  unfold endState
  cases hE : bc.lostRanges.isEmpty
  · cases insOn <;> rfl
  · have hl : bc.lostRanges = [] := List.isEmpty_iff.mp hE
    rw [hl]
    cases insOn <;> rfl

theorem flushCache_sat2sp (cfg : Cfg) (c : Cache) (st : State) : (flushCache cfg st c).sat2sp = st.sat2sp := by
  have h0 := congrArg State.sat2sp (flushCache_core cfg c st)
  exact h0

/-- **the end of the block keeps the rows right**: the lost ranges get their rows at the null
outpoint (offsets counted from `lostSats` = the size of what is already there), the commit moves
the cache entries to the table unchanged -/
theorem endBlock_rows (cfg : Cfg) (blk : Block) (insOn : Bool) (bc : BlockCtx) (B : Nat)
    (g : GoodR B (poolR' bc)) (hrows : RowsOK bc.st.sat2sp (bc.st.utxo ++ bc.cache))
    (hnr : NoRanges bc.ins) (hnl : lenR (rangesAt bc.st.utxo OutPoint.null) = bc.st.lostSats)
    (hkT : (AL.keys bc.st.utxo).Nodup) (hkC : (AL.keys bc.cache).Nodup)
    (hcsp : ∀ op, AL.get bc.cache op ≠ none → op.isSpecial = false) :
    RowsOK (flushCache cfg (endState cfg blk insOn bc).1
        (bc.cache ++ specialOf (endState cfg blk insOn bc).2 bc.ins.unboundEntry)).sat2sp
      (flushCache cfg (endState cfg blk insOn bc).1
        (bc.cache ++ specialOf (endState cfg blk insOn bc).2 bc.ins.unboundEntry)).utxo := by
  obtain ⟨hu3, -⟩ := endState_utxo_height cfg blk insOn bc
  rw [flushCache_sat2sp, endState_sat2sp]
  obtain ⟨hw, hnd, -⟩ := g
  simp only [poolR'] at hw hnd
  have hwl : WF bc.lostRanges := (WF_append.1 hw).2
  have hwtc : WF (allRanges (bc.st.utxo ++ bc.cache)) := by rw [allRanges_append]; exact (WF_append.1 hw).1
  rw [den_append] at hnd
  have hndl : (den bc.lostRanges).Nodup := (List.nodup_append.1 hnd).2.1
  have hstartsN : (bc.lostRanges.map (·.1)).Nodup := (starts_sublist_den _ hwl).nodup hndl
  -- rows of entries that were in table or cache are not touched by the lost rows
  have hkeep : ∀ op e, (op, e) ∈ bc.st.utxo ++ bc.cache → ∀ s o, (s, o) ∈ rareOf e.ranges 0 →
      AL.get (lostRare bc.st.sat2sp bc.lostRanges bc.st.lostSats).1 s = some ⟨op, o⟩ := by
    intro op e hm s o hso
    have hsd : s ∈ den (allRanges bc.st.utxo ++ allRanges bc.cache) := by
      rw [← allRanges_append]
      exact mem_allRanges_den hm (rare_mem_den _ (wf_of_mem_allRanges hm hwtc) _ _ _ hso)
    rw [lostRare_fst_notin _ _ _ _ (fun hc => (List.nodup_append.1 hnd).2.2 s hsd s
      ((starts_sublist_den _ hwl).subset hc) rfl)]
    exact hrows op e hm s o hso
  -- the committed table as a finite map
  have hkeys : (AL.keys (bc.cache ++ specialOf (endState cfg blk insOn bc).2 bc.ins.unboundEntry)).Nodup := by
    rw [keys_append]
    refine List.nodup_append.2 ⟨hkC, keys_specialOf_nodup _ _, ?_⟩
    intro a ha b hb' hab
    subst hab
    have h1 := keys_specialOf_special _ _ a hb'
    have h2 := hcsp a (by rw [Ne, AL.get_eq_none_iff]; exact fun hc => hc ha)
    rw [h1] at h2; cases h2
  have hkF := flushCache_keys_nodup cfg (bc.cache ++ specialOf (endState cfg blk insOn bc).2 bc.ins.unboundEntry)
    (endState cfg blk insOn bc).1 (by rw [hu3]; exact hkT)
  intro op e' hm s o hso
  have hget := AL.get_of_mem hkF hm
  rw [get_flushCache_utxo cfg _ _ hkeys, AL_get_append, hu3] at hget
  by_cases hsp : op.isSpecial = true
  · -- a special outpoint
    have hcn : AL.get bc.cache op = none := by
      apply Classical.byContradiction
      intro hcon
      have := hcsp op hcon
      rw [hsp] at this; cases this
    rw [hcn] at hget
    simp only at hget
    cases hq : AL.get (specialOf (endState cfg blk insOn bc).2 bc.ins.unboundEntry) op with
    | none =>
      rw [hq] at hget
      exact hkeep op e' (List.mem_append_left _ (AL.mem_of_get hget)) s o hso
    | some en =>
      rw [hq] at hget
      simp only [Option.some.injEq] at hget
      -- ranges of the merged entry
      have hrng : e'.ranges = rangesAt bc.st.utxo op ++ en.ranges := by
        rw [← hget]
        unfold eff rangesAt
        rw [if_pos hsp]
        cases AL.get bc.st.utxo op with
        | none => simp
        | some old => simp [UtxoEntry.merged]
      rw [hrng, rareOf_append, List.mem_append] at hso
      rcases hso with hso | hso
      · -- the old part
        cases hold : AL.get bc.st.utxo op with
        | none => simp [rangesAt, hold, rareOf_nil] at hso
        | some old =>
          have : rangesAt bc.st.utxo op = old.ranges := by simp [rangesAt, hold]
          rw [this] at hso
          exact hkeep op old (List.mem_append_left _ (AL.mem_of_get hold)) s o hso
      · -- the new part: only the null outpoint gets ranges
        rw [get_specialOf] at hq
        by_cases hnull : op = OutPoint.null
        · subst hnull
          simp only [if_true] at hq
          have hr := endState_null_ranges cfg blk insOn bc hnr
          rw [hq] at hr
          simp only [Option.map_some, Option.getD_some] at hr
          rw [hr, Nat.zero_add, hnl] at hso
          exact lostRare_fst_mem _ _ _ hstartsN s o hso
        · simp only [hnull, if_false] at hq
          split at hq
          · have := hnr.2 en hq
            rw [this, rareOf_nil] at hso; cases hso
          · cases hq
  · have hsp' : op.isSpecial = false := by simpa using hsp
    have hq : AL.get (specialOf (endState cfg blk insOn bc).2 bc.ins.unboundEntry) op = none := by
      rw [get_specialOf]
      have h1 : op ≠ OutPoint.null := by intro h; subst h; cases hsp'
      have h2 : op ≠ OutPoint.unbound := by intro h; subst h; cases hsp'
      simp [h1, h2]
    cases hc : AL.get bc.cache op with
    | some e =>
      rw [hc] at hget
      simp only [Option.some.injEq] at hget
      rw [eff_nonspecial e hsp'] at hget
      subst hget
      exact hkeep op e (List.mem_append_right _ (AL.mem_of_get hc)) s o hso
    | none =>
      rw [hc, hq] at hget
      simp only at hget
      exact hkeep op e' (List.mem_append_left _ (AL.mem_of_get hget)) s o hso

/-- the chain invariant of the rare-sat clause -/
structure RowsInv (st : State) : Prop where
  part : SatsPartitioned st
  nullLen : NullLen st
  keys : (AL.keys st.utxo).Nodup
  rows : RowsOK st.sat2sp st.utxo

theorem applyBlock_rows (cfg : Cfg) (hs : cfg.indexSats = true) (st : State) (blk : Block)
    (st' : State) (evs : List Event) (hh : blk.height = st.height) (hb : BlockPlain blk) (inv : RowsInv st)
    (h : applyBlock cfg st blk = .ok (st', evs)) : RowsInv st' ∧ st'.height = st.height + 1 := by
  obtain ⟨part', hh'⟩ := applyBlock_partition_full cfg hs st blk st' evs hh inv.part h
  refine ⟨⟨part', applyBlock_nullLen cfg hs st blk st' evs hb inv.nullLen h,
    applyBlock_keys_nodup cfg hs st blk st' evs inv.keys h, ?_⟩, hh'⟩
  simp only [applyBlock, hs, Bool.or_true, if_true] at h
  split at h
  · cases h
  · cases h
  · rename_i st1 ev1 h1
    split at h
    · cases h
    · cases h
    · rename_i st2 ev2 hr
      simp only [Outcome.ok.injEq, Prod.mk.injEq] at h
      obtain ⟨rfl, -⟩ := h
      have hss : SatSame st1 st2 := by
        split at hr
        · exact indexRunesBlock_satSame _ _ _ hr
        · simp only [Outcome.ok.injEq, Prod.mk.injEq] at hr
          rw [← hr.1]; exact SatSame.refl _
      show RowsOK st2.sat2sp st2.utxo
      rw [hss.utxo, hss.sat2sp]
      rw [indexUtxoEntries_eq] at h1
      have g0 : GoodR (startingSat (st.height + 1)) (poolR (bc0A cfg st blk)) := by
        simp only [poolR, bc0A, coinbaseInputsOf, allRanges_nil, List.append_nil, hs, true_and, hh]
        rw [startingSat_succ]
        split
        · rename_i hpos
          exact ((satsPartitioned_iff_goodR st).mp inv.part).add_range (by omega)
        · rename_i hz
          have : subsidy st.height = 0 := by omega
          rw [this]; simpa using (satsPartitioned_iff_goodR st).mp inv.part
      have r0 : RowsOK (bc0A cfg st blk).st.sat2sp ((bc0A cfg st blk).st.utxo ++ (bc0A cfg st blk).cache) := by
        simpa [bc0A] using inv.rows
      split at h1
      · cases h1
      · cases h1
      · rename_i bc hbc
        simp only [Outcome.ok.injEq, Prod.mk.injEq] at h1
        obtain ⟨rfl, -⟩ := h1
        have hn0 : NoRanges (bc0A cfg st blk).ins := by simp [NoRanges, bc0A]
        have hnr := indexTxs_noRanges cfg hs blk _ _ _ bc hbc hn0
        obtain ⟨hkC, hcsp⟩ := indexTxs_cache_facts cfg hs blk _ _
          (fun p hp => hb.nonzero p.2 (mem_blockOrder blk p hp)) _ bc (by simp [bc0A, AL.keys])
          (by intro op hop; simp [bc0A, AL.get] at hop) hbc
        have hkT : (AL.keys bc.st.utxo).Nodup := indexTxs_keys_nodup cfg hs blk _ _ _ bc inv.keys hbc
        -- null entry and LostSats through the transactions
        have hspl : ∀ p ∈ blockOrder blk, p.1 ≠ 0 → ∀ i ∈ p.2.inputs, i.prev.isSpecial = false := by
          intro p hp h0 i hi
          cases htx : blk.txs with
          | nil => simp [blockOrder, htx, enumFrom] at hp
          | cons t ts =>
            have ho : blockOrder blk = enumFrom 1 ts ++ [(0, t)] := by simp [blockOrder, htx, enumFrom]
            rw [ho, List.mem_append] at hp
            rcases hp with hp | hp
            · have hm : p.2 ∈ ts := by
                have := List.mem_map_of_mem (f := (·.2)) hp
                rwa [Ord.Index.enumFrom_map_snd] at this
              exact hb.noSpecialSpend p.2 (by rw [htx]; simpa using hm) i hi
            · simp only [List.mem_singleton] at hp
              subst hp; exact absurd rfl h0
        obtain ⟨en, el⟩ := indexTxs_null cfg hs blk _ _ hspl _ bc hbc
        have hnl : lenR (rangesAt bc.st.utxo OutPoint.null) = bc.st.lostSats := by
          unfold rangesAt; rw [en, el]; exact inv.nullLen
        -- pool and rows through the transactions
        have hfin : GoodR (startingSat (st.height + 1)) (poolR' bc) ∧
            RowsOK bc.st.sat2sp (bc.st.utxo ++ bc.cache) := by
          cases htx : blk.txs with
          | nil =>
            have : blockOrder blk = [] := by simp [blockOrder, htx, enumFrom]
            rw [this] at hbc
            simp only [indexTxs, Outcome.ok.injEq] at hbc
            subst hbc
            refine ⟨GoodR.sub (d := (bc0A cfg st blk).coinbaseInputs) (perm_of_counts fun x => ?_) g0, r0⟩
            simp only [poolR, poolR', List.count_append]; omega
          | cons t ts =>
            have ho : blockOrder blk = enumFrom 1 ts ++ [(0, t)] := by simp [blockOrder, htx, enumFrom]
            rw [ho] at hbc
            obtain ⟨bc1, hi1, hi2⟩ := indexTxs_append cfg blk _ _ _ _ bc hbc
            obtain ⟨g1, r1⟩ := indexTxs_rows_noncb cfg hs blk _ _ (enumFrom_succ_ne_zero 0 ts) _ bc1 _ g0 r0 hi1
            simp only [indexTxs] at hi2
            split at hi2
            · cases hi2
            · cases hi2
            · rename_i bc2 hi3
              simp only [Outcome.ok.injEq] at hi2
              subst hi2
              exact ⟨(indexTx_cb_full cfg hs blk _ t bc1 bc2 _ g1 hi3).1,
                indexTx_rows cfg hs blk _ 0 t bc1 bc2 _ g1 r1 hi3⟩
        exact endBlock_rows cfg blk _ bc _ hfin.1 hfin.2 hnr hnl hkT hkC hcsp

theorem rowsInv_empty : RowsInv ({} : State) :=
  ⟨satsPartitioned_empty.toSatsPartitioned, nullLen_empty, by simp [AL.keys],
   by intro op e hm; cases hm⟩

/-- **in every reachable state every non-common range start has its SAT_TO_SATPOINT row** -/
theorem reachable_rows (cfg : Cfg) (hs : cfg.indexSats = true) (chain : List Block) (hc : ChainHeights chain)
    (hp : ChainPlain chain) (st : State) (evs : List Event) (h : run cfg chain = .ok (st, evs)) :
    RowsInv st := by
  have := run_induct cfg (fun pre st _ => ChainHeights pre → ChainPlain pre → RowsInv st ∧ st.height = pre.length)
    (fun _ _ => ⟨rowsInv_empty, rfl⟩)
    (by
      intro pre st evs b st' ev' ih hb hch hpl
      have hpre : ChainHeights pre := by
        intro i hi'
        have := hch i (by simp; omega)
        simpa [List.getElem_append_left hi'] using this
      obtain ⟨inv, hlen⟩ := ih hpre (fun b' hb' => hpl b' (by simp [hb']))
      have hbh : b.height = st.height := by
        have := hch pre.length (by simp)
        simpa [hlen] using this
      obtain ⟨inv', hh'⟩ := applyBlock_rows cfg hs st b st' ev' hbh (hpl b (by simp)) inv hb
      exact ⟨inv', by simp [hh', hlen]⟩)
    chain st evs h
  exact (this hc hp).1

end Ord.Index
