import OrdModel.Index.Render
import OrdModel.Proofs.IndexSchedDefs
/-
C12 (schedule independence): the canonical text dump (`renderSection`) is invariant under
`Sched.Equiv` — sorting the rows of a section erases the list order of the three
cache-affected tables.
-/
namespace Ord.Index.Sched
open Ord Ord.Index

/-! ### sorting erases order -/

theorem sortStrings_sorted (l : List String) : List.Pairwise (fun a b : String => a ≤ b) (sortStrings l) := by
  have h := List.pairwise_mergeSort (le := fun a b : String => decide (a ≤ b))
    (fun a b c hab hbc => by
      simp only [decide_eq_true_eq] at hab hbc ⊢
      exact String.le_trans hab hbc)
    (fun a b => by
      simp only [Bool.or_eq_true, decide_eq_true_eq]
      exact String.le_total a b) l
  unfold sortStrings
  exact h.imp (fun {a b} hab => by simpa using hab)

theorem sortStrings_perm_self (l : List String) : (sortStrings l).Perm l := by
  unfold sortStrings
  exact List.mergeSort_perm l _

theorem sortStrings_perm {l₁ l₂ : List String} (h : l₁.Perm l₂) : sortStrings l₁ = sortStrings l₂ := by
  refine List.Perm.eq_of_pairwise (le := fun a b : String => a ≤ b)
    (fun a b _ _ hab hba => String.le_antisymm hab hba) (sortStrings_sorted l₁) (sortStrings_sorted l₂) ?_
  exact (sortStrings_perm_self l₁).trans (h.trans (sortStrings_perm_self l₂).symm)

/-! ### finite sets / finite maps as lists -/

theorem set_perm {α : Type} {l₁ l₂ : List α} (h1 : l₁.Nodup) (h2 : l₂.Nodup)
    (h : ∀ x, x ∈ l₁ ↔ x ∈ l₂) : l₁.Perm l₂ :=
  (List.perm_ext_iff_of_nodup h1 h2).2 h

theorem nodup_of_nodup_map {α β : Type} (f : α → β) (l : List α) (h : (l.map f).Nodup) : l.Nodup := by
  induction l with
  | nil => exact List.nodup_nil
  | cons x xs ih =>
    simp only [List.map_cons, List.nodup_cons] at h ⊢
    exact ⟨fun hm => h.1 (List.mem_map.2 ⟨x, hm, rfl⟩), ih h.2⟩

theorem al_perm {κ ν : Type} [BEq κ] [LawfulBEq κ] {l₁ l₂ : List (κ × ν)}
    (h1 : (AL.keys l₁).Nodup) (h2 : (AL.keys l₂).Nodup) (h : ∀ k, AL.get l₁ k = AL.get l₂ k) :
    l₁.Perm l₂ := by
  refine set_perm (nodup_of_nodup_map _ _ h1) (nodup_of_nodup_map _ _ h2) ?_
  rintro ⟨k, v⟩
  rw [← AL.get_some_iff_mem h1, ← AL.get_some_iff_mem h2, h k]

theorem nodup_eraseDups {α : Type} [BEq α] [LawfulBEq α] (n : Nat) :
    ∀ l : List α, l.length ≤ n → l.eraseDups.Nodup := by
  induction n with
  | zero =>
    intro l hl
    have : l = [] := List.eq_nil_of_length_eq_zero (Nat.le_zero.1 hl)
    subst this
    simp
  | succ n ih =>
    intro l hl
    cases l with
    | nil => simp
    | cons a as =>
      rw [List.eraseDups_cons, List.nodup_cons]
      refine ⟨fun hm => ?_, ih _ ?_⟩
      · have := (List.mem_eraseDups.1 hm)
        simp at this
      · have := List.length_filter_le (fun b => !b == a) as
        simp only [List.length_cons] at hl
        omega

theorem eraseDups_perm {α : Type} [BEq α] [LawfulBEq α] {l₁ l₂ : List α}
    (h : ∀ x, x ∈ l₁ ↔ x ∈ l₂) : l₁.eraseDups.Perm l₂.eraseDups := by
  refine set_perm (nodup_eraseDups _ _ (Nat.le_refl _)) (nodup_eraseDups _ _ (Nat.le_refl _)) ?_
  intro x
  rw [List.mem_eraseDups, List.mem_eraseDups, h x]

/-! ### rows of a section -/

/-- the "addr" row of one script -/
def addrRow (st : State) (k : List UInt8) : String :=
  s!"script2outpoints {bytesHex k} {",".intercalate (sortStrings ((st.script2out.filter (·.1 == k)).map (·.2.render)))}"

theorem addrRow_eq {a b : State} (hp : a.script2out.Perm b.script2out) (k : List UInt8) :
    addrRow a k = addrRow b k := by
  unfold addrRow
  rw [sortStrings_perm ((hp.filter (·.1 == k)).map (·.2.render))]

theorem addrRows_perm {a b : State} (hp : a.script2out.Perm b.script2out) :
    (((a.script2out.map (·.1)).eraseDups).map (addrRow a)).Perm
      (((b.script2out.map (·.1)).eraseDups).map (addrRow b)) := by
  have hf : addrRow a = addrRow b := funext (addrRow_eq hp)
  rw [hf]
  refine List.Perm.map _ (eraseDups_perm ?_)
  intro x
  exact (hp.map (·.1)).mem_iff

theorem sectionRows_addr (cfg : Cfg) (st : State) :
    sectionRows cfg st "addr" = ((st.script2out.map (·.1)).eraseDups).map (addrRow st) := rfl

theorem sectionRows_utxo (cfg : Cfg) (st : State) :
    sectionRows cfg st "utxo" = st.utxo.map (fun (op, e) => renderUtxo cfg op e) := rfl

/-- rows of the "ins" section, parametrised by the `seq2sp` table -/
def insRows (st : State) (s2 : List (Nat × SatPoint)) : List String :=
  st.entries.map renderEntry
    ++ st.id2seq.map (fun (i, s) => s!"id2seq {i.render} {s}")
    ++ st.num2seq.map (fun (n, s) => s!"num2seq {n} {s}")
    ++ s2.map (fun (s, sp) => s!"seq2satpoint {s} {sp.render}")
    ++ (groupPairs st.sat2seq).map (fun (k, vs) => s!"sat2seq {k} {",".intercalate (vs.map toString)}")
    ++ (groupPairs st.children).map (fun (k, vs) => s!"children {k} {",".intercalate (vs.map toString)}")
    ++ st.coll2latest.map (fun (c, l) => s!"collection2latest {c} {l}")
    ++ (groupPairs st.latest2coll).map (fun (k, vs) => s!"latest2collection {k} {",".intercalate (vs.map toString)}")
    ++ st.gallery.map (fun g => s!"gallery {g}")
    ++ st.home.map (fun (s, i) => s!"home {s} {i.render}")
    ++ st.height2lastseq.map (fun (h, s) => s!"height2lastseq {h} {s}")

theorem sectionRows_ins (cfg : Cfg) (st : State) :
    sectionRows cfg st "ins" = insRows st st.seq2sp := rfl

theorem insRows_core (st : State) (s2 : List (Nat × SatPoint)) : insRows st s2 = insRows (core st) s2 := rfl

theorem insRows_perm (st : State) {s₁ s₂ : List (Nat × SatPoint)} (h : s₁.Perm s₂) :
    (insRows st s₁).Perm (insRows st s₂) := by
  unfold insRows
  repeat' first
    | exact List.Perm.refl _
    | exact h.map _
    | apply List.Perm.append

/-- a section other than the three that read a cache-affected table reads `core` only -/
theorem sectionRows_core (cfg : Cfg) (st : State) (name : String)
    (h1 : name ≠ "utxo") (h2 : name ≠ "ins") (h3 : name ≠ "addr") :
    sectionRows cfg st name = sectionRows cfg (core st) name := by
  unfold sectionRows
  split <;> first | rfl | contradiction

theorem sectionRows_perm (cfg : Cfg) (a b : State) (h : Equiv a b) (ha : TablesWF a) (hb : TablesWF b)
    (name : String) : (sectionRows cfg a name).Perm (sectionRows cfg b name) := by
  by_cases h1 : name = "utxo"
  · subst h1
    rw [sectionRows_utxo, sectionRows_utxo]
    exact (al_perm ha.utxo hb.utxo h.utxo).map _
  by_cases h2 : name = "ins"
  · subst h2
    rw [sectionRows_ins, sectionRows_ins, insRows_core a, insRows_core b, h.core]
    exact insRows_perm _ (al_perm ha.seq2sp hb.seq2sp h.seq2sp)
  by_cases h3 : name = "addr"
  · subst h3
    rw [sectionRows_addr, sectionRows_addr]
    exact addrRows_perm (set_perm ha.script2out hb.script2out h.script2out)
  rw [sectionRows_core cfg a name h1 h2 h3, sectionRows_core cfg b name h1 h2 h3, h.core]

/-- the canonical dump (sorted rows of every section) cannot distinguish extensionally equal
index contents -/
theorem renderSection_equiv (cfg : Cfg) (a b : State) (h : Equiv a b) (ha : TablesWF a) (hb : TablesWF b)
    (name : String) : renderSection cfg a name = renderSection cfg b name := by
  unfold renderSection
  rw [sortStrings_perm (sectionRows_perm cfg a b h ha hb name)]

end Ord.Index.Sched
