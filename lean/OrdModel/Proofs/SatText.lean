import OrdModel.Num.SatNotation
/-! Text lemmas for C30/C31: decimal printing/parsing, `splitOnce`, character classes. -/
namespace Ord.SatNotation

/-! ### digit characters -/

theorem digitChar_facts : ∀ d, d < 10 →
    isDigit (digitChar d) = true ∧ digitVal (digitChar d) = d ∧ isAsciiLower (digitChar d) = false ∧
    digitChar d ≠ '+' ∧ digitChar d ≠ '-' ∧ digitChar d ≠ '.' ∧ digitChar d ≠ '%' ∧
    digitChar d ≠ degreeSym ∧ digitChar d ≠ minuteSym ∧ digitChar d ≠ secondSym ∧ digitChar d ≠ thirdSym := by
  decide

theorem isDigit_digitChar {d : Nat} (h : d < 10) : isDigit (digitChar d) = true := (digitChar_facts d h).1
theorem digitVal_digitChar {d : Nat} (h : d < 10) : digitVal (digitChar d) = d := (digitChar_facts d h).2.1

/-- a digit is none of the characters the dispatch or the splitters look for -/
theorem isDigit_sep {c : Char} (h : isDigit c = true) :
    isAsciiLower c = false ∧ c ≠ '+' ∧ c ≠ '-' ∧ c ≠ '.' ∧ c ≠ '%' ∧
    c ≠ degreeSym ∧ c ≠ minuteSym ∧ c ≠ secondSym ∧ c ≠ thirdSym := by
  simp only [isDigit, Bool.and_eq_true, decide_eq_true_eq] at h
  have h0 : '0'.toNat = 48 := by decide
  have h9 : '9'.toNat = 57 := by decide
  rw [h0, h9] at h
  refine ⟨?_, ?_, ?_, ?_, ?_, ?_, ?_, ?_, ?_⟩
  · simp only [isAsciiLower, Bool.and_eq_false_iff, decide_eq_false_iff_not]
    have : 'a'.toNat = 97 := by decide
    rw [this]; omega
  all_goals (intro hc; subst hc; revert h; decide)

/-! ### printing -/

theorem decDigitsAux_append (n : Nat) : ∀ acc, decDigitsAux n acc = decDigitsAux n [] ++ acc := by
  induction n using Nat.strongRecOn with
  | _ n ih =>
    intro acc
    rw [decDigitsAux]
    conv => rhs; rw [decDigitsAux]
    split
    · simp
    · rw [ih (n / 10) (by omega) (digitChar (n % 10) :: acc), ih (n / 10) (by omega) [digitChar (n % 10)]]
      simp

theorem decDigits_lt {n : Nat} (h : n < 10) : decDigits n = [digitChar n] := by
  unfold decDigits; rw [decDigitsAux]; simp [h]

theorem decDigits_ge {n : Nat} (h : ¬ n < 10) : decDigits n = decDigits (n / 10) ++ [digitChar (n % 10)] := by
  unfold decDigits; rw [decDigitsAux]; simp only [h, dite_false]
  rw [decDigitsAux_append]

theorem decDigits_all_digits (n : Nat) : ∀ c ∈ decDigits n, isDigit c = true := by
  induction n using Nat.strongRecOn with
  | _ n ih =>
    intro c hc
    rcases Nat.lt_or_ge n 10 with h | h
    · rw [decDigits_lt h] at hc
      simp at hc; subst hc; exact isDigit_digitChar h
    · rw [decDigits_ge (by omega)] at hc
      rcases List.mem_append.mp hc with hc | hc
      · exact ih (n / 10) (by omega) c hc
      · simp at hc; subst hc; exact isDigit_digitChar (Nat.mod_lt _ (by omega))

theorem decDigits_ne_nil (n : Nat) : decDigits n ≠ [] := by
  rcases Nat.lt_or_ge n 10 with h | h
  · rw [decDigits_lt h]; simp
  · rw [decDigits_ge (by omega)]; simp

/-! ### parsing what was printed -/

/-- `parseDigits` over an appended digit: one more loop iteration at the end -/
theorem parseDigits_append (w : Nat) : ∀ (xs ys : List Char) (a : Nat),
    parseDigits w (xs ++ ys) a =
      match parseDigits w xs a with
      | .ok a' => parseDigits w ys a'
      | .error e => .error e := by
  intro xs
  induction xs with
  | nil => intro ys a; simp [parseDigits]
  | cons c cs ih =>
    intro ys a
    simp only [List.cons_append, parseDigits]
    split
    · split
      · exact ih ys _
      · rfl
    · rfl

theorem parseDigits_mono (w : Nat) : ∀ (xs : List Char) (a r : Nat),
    parseDigits w xs a = .ok r → a ≤ r ∨ xs = [] := by
  intro xs
  induction xs with
  | nil => intro a r _; exact Or.inr rfl
  | cons c cs ih =>
    intro a r h
    simp only [parseDigits] at h
    split at h
    · split at h
      · rcases ih _ _ h with h' | h'
        · left; omega
        · subst h'; simp [parseDigits] at h; left; omega
      · cases h
    · cases h

/-- feeding the printed digits of `n` to the loop from accumulator `a` -/
theorem parseDigits_decDigits (w n : Nat) : ∀ a, a * 10 ^ (decDigits n).length + n < 2 ^ w →
    parseDigits w (decDigits n) a = .ok (a * 10 ^ (decDigits n).length + n) := by
  induction n using Nat.strongRecOn with
  | _ n ih =>
    intro a hlt
    rcases Nat.lt_or_ge n 10 with h | h
    · rw [decDigits_lt h] at hlt ⊢
      simp only [List.length_cons, List.length_nil, Nat.zero_add, Nat.pow_one] at hlt ⊢
      simp [parseDigits, isDigit_digitChar h, digitVal_digitChar h, hlt]
    · have hlen : (decDigits n).length = (decDigits (n / 10)).length + 1 := by
        rw [decDigits_ge (by omega)]; simp
      rw [hlen, Nat.pow_succ] at hlt ⊢
      rw [decDigits_ge (by omega), parseDigits_append]
      have hsplit : n = 10 * (n / 10) + n % 10 := (Nat.div_add_mod n 10).symm
      generalize hP : 10 ^ (decDigits (n / 10)).length = P at hlt ⊢
      have hmod : n % 10 < 10 := Nat.mod_lt _ (by omega)
      have hkey : (a * P + n / 10) * 10 + n % 10 = a * (P * 10) + n := by
        rw [Nat.add_mul, Nat.mul_assoc]; omega
      have hpre : a * P + n / 10 < 2 ^ w := by omega
      rw [ih (n / 10) (by omega) a (by rw [hP]; exact hpre), hP]
      simp only [parseDigits, isDigit_digitChar hmod, digitVal_digitChar hmod, if_true]
      rw [hkey]; simp [hlt]

theorem parseUInt_decDigits (w n : Nat) (h : n < 2 ^ w) : parseUInt w (decDigits n) = .ok n := by
  have hnn := decDigits_ne_nil n
  have hall := decDigits_all_digits n
  have hp := parseDigits_decDigits w n 0 (by simpa using h)
  cases hd : decDigits n with
  | nil => exact absurd hd hnn
  | cons c rest =>
    have hc : isDigit c = true := hall c (by rw [hd]; simp)
    obtain ⟨_, hplus, hminus, _⟩ := isDigit_sep hc
    rw [hd] at hp
    unfold parseUInt
    have h1 : (c == '+') = false := by simpa using hplus
    have h2 : (c == '-') = false := by simpa using hminus
    simp only [h1, h2, Bool.or_false, Bool.and_false]
    simpa using hp

/-! ### splitOnce -/

theorem splitOnce_append (d : Char) : ∀ (xs ys : List Char), (∀ c ∈ xs, c ≠ d) →
    splitOnce d (xs ++ d :: ys) = some (xs, ys) := by
  intro xs
  induction xs with
  | nil => intro ys _; simp [splitOnce]
  | cons c cs ih =>
    intro ys h
    have hc : c ≠ d := h c (by simp)
    simp only [List.cons_append, splitOnce, hc, if_false]
    rw [ih ys (fun c' hc' => h c' (by simp [hc']))]

theorem splitOnce_none (d : Char) : ∀ xs : List Char, (∀ c ∈ xs, c ≠ d) → splitOnce d xs = none := by
  intro xs
  induction xs with
  | nil => intro _; rfl
  | cons c cs ih =>
    intro h
    have hc : c ≠ d := h c (by simp)
    simp only [splitOnce, hc, if_false]
    rw [ih (fun c' hc' => h c' (by simp [hc']))]

end Ord.SatNotation
