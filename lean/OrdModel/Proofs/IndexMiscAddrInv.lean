import OrdModel.Proofs.IndexMiscAddrOuts
/-
Group `ixmisc`, C17: the invariant of the address index and its preservation by the steps of
`index_utxo_entries` (taking the input entries, caching the output entries).
-/
namespace Ord.Index
open Outcome

namespace AL
variable {κ ν : Type} [BEq κ] [LawfulBEq κ]

theorem get_erase_some {l : List (κ × ν)} (hn : (keys l).Nodup) {k o : κ} {v : ν}
    (h : get (erase l k) o = some v) : o ≠ k ∧ get l o = some v := by
  by_cases hk : k = o
  · subst hk; rw [get_erase_self l k hn] at h; cases h
  · rw [get_erase_ne l hk] at h; exact ⟨fun e => hk e.symm, h⟩

theorem get_erase_none {l : List (κ × ν)} (hn : (keys l).Nodup) {k o : κ}
    (h : get l o = none) : get (erase l k) o = none := by
  by_cases hk : k = o
  · subst hk; exact get_erase_self l k hn
  · rw [get_erase_ne l hk]; exact h
end AL

theorem isSpecial_false_of_txid {o : OutPoint} (h : o.txid ≠ 0) : o.isSpecial = false := by
  simp [OutPoint.isSpecial, h]

theorem txid_zero_of_isSpecial {o : OutPoint} (h : o.isSpecial = true) : o.txid = 0 := by
  simp [OutPoint.isSpecial] at h; exact h.1

/-- `out` is output `o.vout` of the transaction in `txs` whose txid is `o.txid` -/
def CreatedByTxs (txs : List Tx) (o : OutPoint) (out : TxOut) : Prop :=
  ∃ tx ∈ txs, tx.txid = o.txid ∧ tx.outputs[o.vout]? = some out

/-- the entry carries the script and the value of the output that created it -/
def EntryOk (cfg : Cfg) (txs : List Tx) (o : OutPoint) (e : UtxoEntry) : Prop :=
  ∃ out, CreatedByTxs txs o out ∧ e.script = out.script ∧ e.totalValue cfg = out.value

theorem EntryOk.mono {cfg : Cfg} {txs txs' : List Tx} (hs : ∀ tx ∈ txs, tx ∈ txs') {o : OutPoint} {e : UtxoEntry}
    (h : EntryOk cfg txs o e) : EntryOk cfg txs' o e := by
  obtain ⟨out, ⟨tx, htx, h1, h2⟩, h3, h4⟩ := h
  exact ⟨out, ⟨tx, hs tx htx, h1, h2⟩, h3, h4⟩

/-- invariant of the committed tables (address index on) -/
structure TableInv (cfg : Cfg) (txs : List Tx) (st : State) : Prop where
  nodup : (AL.keys st.utxo).Nodup
  exact : AddrExact st
  rows : st.script2out.Nodup
  special : ∀ o e, AL.get st.utxo o = some e → o.isSpecial = true → e.script = []
  real : ∀ o e, AL.get st.utxo o = some e → o.isSpecial = false → EntryOk cfg txs o e

theorem TableInv.mono {cfg : Cfg} {txs txs' : List Tx} {st : State} (hs : ∀ tx ∈ txs, tx ∈ txs')
    (h : TableInv cfg txs st) : TableInv cfg txs' st :=
  ⟨h.nodup, h.exact, h.rows, h.special, fun o e h1 h2 => (h.real o e h1 h2).mono hs⟩

theorem TableInv.congr {cfg : Cfg} {txs : List Tx} {st st' : State} (h : TableInv cfg txs st)
    (hu : st'.utxo = st.utxo) (hr : st'.script2out = st.script2out) : TableInv cfg txs st' := by
  refine ⟨hu ▸ h.nodup, ?_, hr ▸ h.rows, ?_, ?_⟩
  · intro s o; rw [hu, hr]; exact h.exact s o
  · intro o e; rw [hu]; exact h.special o e
  · intro o e; rw [hu]; exact h.real o e

/-- invariant inside a block: the tables, plus the UTXO cache of the block -/
structure BlockInv (cfg : Cfg) (pre seen : List Tx) (bc : BlockCtx) : Prop where
  table : TableInv cfg pre bc.st
  cnodup : (AL.keys bc.cache).Nodup
  cache : ∀ o e, AL.get bc.cache o = some e →
    o.isSpecial = false ∧ AL.get bc.st.utxo o = none ∧ EntryOk cfg seen o e
  ctx : bc.ins.SpecialOk

theorem BlockInv.congr {cfg : Cfg} {pre seen : List Tx} {a b : BlockCtx} (h : BlockInv cfg pre seen a)
    (hu : b.st.utxo = a.st.utxo) (hr : b.st.script2out = a.st.script2out) (hc : b.cache = a.cache)
    (hi : a.ins.SpecialOk → b.ins.SpecialOk) : BlockInv cfg pre seen b := by
  refine ⟨h.table.congr hu hr, hc ▸ h.cnodup, ?_, hi h.ctx⟩
  intro o e; rw [hc, hu]; exact h.cache o e

theorem takeInputEntries_inv (cfg : Cfg) (ha : cfg.indexAddresses = true) (pre seen : List Tx)
    (ins : List TxIn) (bc : BlockCtx) (acc : List (TxIn × UtxoEntry)) (r : BlockCtx × List (TxIn × UtxoEntry))
    (hinv : BlockInv cfg pre seen bc) (h : takeInputEntries cfg ins bc acc = .ok r) :
    BlockInv cfg pre seen r.1 := by
  induction ins generalizing bc acc with
  | nil => simp only [takeInputEntries, Outcome.ok.injEq] at h; subst h; exact hinv
  | cons i rest ih =>
    simp only [takeInputEntries] at h
    split at h
    · -- cached
      refine ih _ _ ?_ h
      refine ⟨hinv.table, AL.nodup_erase _ _ hinv.cnodup, ?_, hinv.ctx⟩
      intro o e he
      exact hinv.cache o e (AL.get_erase_some hinv.cnodup he).2
    · split at h
      · rename_i e hget
        rw [ha] at h
        simp only [if_true] at h
        split at h
        · refine ih _ _ ?_ h
          have T := hinv.table
          refine ⟨⟨AL.nodup_erase _ _ T.nodup, ?_, T.rows.filter _, ?_, ?_⟩, hinv.cnodup, ?_, hinv.ctx⟩
          · intro s o
            simp only [List.mem_filter, Bool.not_eq_true', beq_eq_false_iff_ne, ne_eq]
            by_cases ho : o = i.prev
            · subst ho
              rw [AL.get_erase_self _ _ T.nodup]
              constructor
              · rintro ⟨hm, hne⟩
                obtain ⟨e', he', hs⟩ := (T.exact s i.prev).1 hm
                rw [hget] at he'; cases he'
                exact absurd (by rw [hs]) hne
              · rintro ⟨e', he', _⟩; cases he'
            · rw [AL.get_erase_ne _ (fun e => ho e.symm)]
              rw [← T.exact s o]
              constructor
              · exact fun h => h.1
              · exact fun h => ⟨h, fun heq => ho (Prod.mk.inj heq).2⟩
          · intro o e' he'; exact T.special o e' (AL.get_erase_some T.nodup he').2
          · intro o e' he'; exact T.real o e' (AL.get_erase_some T.nodup he').2
          · intro o e' he'
            obtain ⟨h1, h2, h3⟩ := hinv.cache o e' he'
            exact ⟨h1, AL.get_erase_none T.nodup h2, h3⟩
        · simp at h
      · simp at h

/-- what the cached output entries of a transaction look like -/
def OutRel (cfg : Cfg) (o : TxOut) (e : UtxoEntry) : Prop := e.script = o.script ∧ e.totalValue cfg = o.value

theorem blockInv_cacheOuts (cfg : Cfg) (pre seen : List Tx) (bc : BlockCtx) (tx : Tx) (outs : List UtxoEntry)
    (hinv : BlockInv cfg pre seen bc) (hfresh : tx.txid ∉ pre.map (·.txid)) (hnz : tx.txid ≠ 0)
    (hpw : PW (OutRel cfg) tx.outputs outs) :
    BlockInv cfg pre (seen ++ [tx]) { bc with cache := cacheOuts tx.txid (enumFrom 0 outs) bc.cache } := by
  refine ⟨hinv.table, nodup_cacheOuts _ _ _ hinv.cnodup, ?_, hinv.ctx⟩
  intro o e he
  rw [get_cacheOuts] at he
  split at he
  · rename_i hc
    simp only [Nat.sub_zero] at he
    obtain ⟨out, hout, hs, hv⟩ := PW_index hpw he
    have hsp : o.isSpecial = false := isSpecial_false_of_txid (by rw [hc.1]; exact hnz)
    refine ⟨hsp, ?_, out, ⟨tx, by simp, hc.1.symm, hout⟩, hs, hv⟩
    cases hg : AL.get bc.st.utxo o with
    | none => rfl
    | some e0 =>
      obtain ⟨_, ⟨tx0, htx0, h1, _⟩, _, _⟩ := hinv.table.real o e0 hg hsp
      exact absurd (List.mem_map.2 ⟨tx0, htx0, h1.trans hc.1⟩) hfresh
  · obtain ⟨h1, h2, h3⟩ := hinv.cache o e he
    exact ⟨h1, h2, h3.mono (fun t ht => List.mem_append_left _ ht)⟩

theorem totalValue_congr (cfg : Cfg) (e e' : UtxoEntry) (h : e.base = e'.base) : e.totalValue cfg = e'.totalValue cfg := by
  simp only [UtxoEntry.base, Prod.mk.injEq] at h
  simp [UtxoEntry.totalValue, h.1, h.2.1]

theorem indexTx_inv (cfg : Cfg) (ha : cfg.indexAddresses = true) (pre seen : List Tx) (blk : Block) (insOn : Bool)
    (off : Nat) (tx : Tx) (bc bc' : BlockCtx) (hinv : BlockInv cfg pre seen bc)
    (hfresh : tx.txid ∉ pre.map (·.txid)) (hnz : tx.txid ≠ 0)
    (h : indexTx cfg blk insOn off tx bc = .ok bc') : BlockInv cfg pre (seen ++ [tx]) bc' := by
  unfold indexTx at h
  extract_lets inputsO at h
  have h1 : ∀ q, inputsO = .ok q → BlockInv cfg pre seen q.1 := by
    intro q hq
    simp only [inputsO] at hq
    split at hq
    · obtain rfl := Outcome.ok.inj hq; exact hinv
    · exact takeInputEntries_inv cfg ha pre seen _ _ _ _ hinv hq
  clear_value inputsO
  split at h
  · simp at h
  · simp at h
  · rename_i bc1 inputs
    have i1 := h1 _ rfl
    simp only at i1
    extract_lets inRanges src satsO at h
    have h2 : ∀ q, satsO = .ok q → BlockInv cfg pre seen q.1 ∧
        PW (fun o e => e.totalValue cfg = o.value) tx.outputs q.2.1 := by
      intro q hq
      simp only [satsO] at hq
      split at hq
      · rename_i hs
        split at hq
        · simp at hq
        · rename_i r hr
          obtain rfl := Outcome.ok.inj hq
          refine ⟨?_, ?_⟩
          · simp only []
            split
            · exact i1.congr rfl rfl rfl id
            · exact i1.congr rfl rfl rfl id
          · have := PW_sats tx.outputs 0 inRanges r hr
            refine PW_mono ?_ this
            intro o e he
            simp [UtxoEntry.totalValue, hs, he]
      · rename_i hs
        obtain rfl := Outcome.ok.inj hq
        refine ⟨i1, PW_mono ?_ (PW_values tx.outputs)⟩
        intro o e he
        simp [UtxoEntry.totalValue, hs, he]
    clear_value satsO
    split at h
    · simp at h
    · simp at h
    · rename_i bc2 outs1 inRanges
      obtain ⟨i2, p1⟩ := h2 _ rfl
      simp only at i2 p1
      extract_lets outs2 insO at h
      have p2 : PW (OutRel cfg) tx.outputs outs2 := by
        simp only [outs2, ha, if_true]
        refine PW_zip_map _ ?_ p1
        intro o e he
        exact ⟨rfl, by simpa [UtxoEntry.totalValue] using he⟩
      have h3 : ∀ q, insO = .ok q → BlockInv cfg pre seen q.1 ∧ PW (OutRel cfg) tx.outputs q.2 := by
        intro q hq
        simp only [insO] at hq
        split at hq
        · split at hq
          · simp at hq
          · simp at hq
          · rename_i ls hls
            obtain rfl := Outcome.ok.inj hq
            obtain ⟨f1, f2, f3, f4⟩ := indexInscriptions_frame _ _ _ _ _ _ _ _ hls
            refine ⟨i2.congr f1 f2 rfl f4, PW_of_map_base ?_ f3 p2⟩
            intro o e e' hb he
            have hb' := hb
            simp only [UtxoEntry.base, Prod.mk.injEq] at hb'
            exact ⟨hb'.2.2 ▸ he.1, (totalValue_congr cfg e e' hb) ▸ he.2⟩
        · obtain rfl := Outcome.ok.inj hq; exact ⟨i2, p2⟩
      clear_value insO outs2
      split at h
      · simp at h
      · simp at h
      · rename_i bc3 outs3
        obtain ⟨i3, p3⟩ := h3 _ rfl
        simp only at i3 p3
        extract_lets cache at h
        obtain rfl := Outcome.ok.inj h
        exact blockInv_cacheOuts cfg pre seen bc3 tx outs3 i3 hfresh hnz p3

theorem indexTxs_inv (cfg : Cfg) (ha : cfg.indexAddresses = true) (pre : List Tx) (blk : Block) (insOn : Bool)
    (l : List (Nat × Tx)) (seen : List Tx) (bc bc' : BlockCtx) (hinv : BlockInv cfg pre seen bc)
    (hfresh : ∀ p ∈ l, p.2.txid ∉ pre.map (·.txid) ∧ p.2.txid ≠ 0)
    (h : indexTxs cfg blk insOn l bc = .ok bc') : BlockInv cfg pre (seen ++ l.map (·.2)) bc' := by
  induction l generalizing seen bc with
  | nil => simp only [indexTxs, Outcome.ok.injEq] at h; subst h; simpa using hinv
  | cons p rest ih =>
    obtain ⟨i, tx⟩ := p
    simp only [indexTxs] at h
    split at h
    · simp at h
    · simp at h
    · rename_i bc1 h1
      have hf := hfresh (i, tx) (by simp)
      have i1 := indexTx_inv cfg ha pre seen blk insOn i tx bc bc1 hinv hf.1 hf.2 h1
      have := ih (seen ++ [tx]) bc1 i1 (fun p hp => hfresh p (List.mem_cons_of_mem _ hp)) h
      simpa [List.append_assoc] using this

end Ord.Index
