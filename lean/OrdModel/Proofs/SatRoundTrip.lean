import OrdModel.Proofs.SatText
import OrdModel.Proofs.SatBasic
/-! Round-trip lemmas for C30: what the printers produce is dispatched to and accepted by the
matching parser with the original value. -/
namespace Ord.SatNotation
open Ord Ord.Epoch

theorem any_lower_false_of_digits {cs : List Char} (h : ∀ c ∈ cs, isDigit c = true) :
    cs.any isAsciiLower = false := by
  rw [List.any_eq_false]
  intro c hc; rw [(isDigit_sep (h c hc)).1]; simp

theorem not_mem_of_digits {cs : List Char} (h : ∀ c ∈ cs, isDigit c = true) {d : Char}
    (hd : isDigit d = false) : ∀ c ∈ cs, c ≠ d := by
  intro c hc heq; subst heq; rw [h c hc] at hd; cases hd

theorem contains_false_of_digits {cs : List Char} (h : ∀ c ∈ cs, isDigit c = true) {d : Char}
    (hd : isDigit d = false) : cs.contains d = false := by
  rw [List.contains_eq_mem]
  simp only [decide_eq_false_iff_not]
  intro hm; exact not_mem_of_digits h hd d hm rfl

/-! ### integer -/

theorem dispatch_integer (n : Nat) : dispatch (decDigits n) = .integer := by
  have h := decDigits_all_digits n
  unfold dispatch
  rw [any_lower_false_of_digits h, contains_false_of_digits h (by decide),
    contains_false_of_digits h (by decide), contains_false_of_digits h (by decide)]
  simp

theorem fromStr_printInteger (df pf : Bool) (s : Nat) (hs : s < SUPPLY) (fc : FloatClass) :
    fromStrWith df pf (printInteger s) fc = .ok s := by
  unfold fromStrWith printInteger
  rw [dispatch_integer]
  simp only [fromInteger]
  rw [parseUInt_decDigits 64 s (by unfold SUPPLY at hs; omega)]
  have : ¬ s > LAST := by unfold LAST; omega
  simp [this]

/-! ### decimal -/

theorem dispatch_decimal (h k : Nat) : dispatch (printDecimal h k) = .decimal := by
  have h1 := decDigits_all_digits h
  have h2 := decDigits_all_digits k
  unfold dispatch printDecimal
  simp only [List.any_append, List.any_cons, List.contains_append, List.contains_cons,
    any_lower_false_of_digits h1, any_lower_false_of_digits h2,
    contains_false_of_digits h1 (show isDigit degreeSym = false by decide),
    contains_false_of_digits h2 (show isDigit degreeSym = false by decide),
    contains_false_of_digits h1 (show isDigit '%' = false by decide),
    contains_false_of_digits h2 (show isDigit '%' = false by decide),
    (by decide : isAsciiLower '.' = false), (by decide : (degreeSym == '.') = false),
    (by decide : ('%' == '.') = false)]
  simp

theorem fromDecimal_print (h k : Nat) (hh : h < 6930000) (hk : k < Height.subsidy h) :
    fromDecimal (printDecimal h k) = .ok (Height.startingSat h + k) := by
  unfold fromDecimal printDecimal
  rw [splitOnce_append '.' _ _ (not_mem_of_digits (decDigits_all_digits h) (by decide))]
  simp only
  rw [parseUInt_decDigits 32 h (by omega)]
  have hsub : Height.subsidy h ≤ 5000000000 := by
    unfold Height.subsidy
    have : ∀ e, e < 33 → Epoch.subsidy e ≤ 5000000000 := by decide
    exact this _ (by unfold Epoch.ofHeight SUBSIDY_HALVING_INTERVAL; omega)
  simp only
  rw [parseUInt_decDigits 64 k (by omega)]
  have hlt := (Sat.compose h k hh hk).1
  have : ¬ k ≥ Height.subsidy h := by omega
  simp only [this, if_false, satAt, Outcome.addW]
  have : Height.startingSat h + k < 2 ^ 64 := by unfold SUPPLY at hlt; omega
  simp [this]

end Ord.SatNotation

namespace Ord.SatNotation
open Ord Ord.Epoch

/-! ### name -/

theorem letter_facts : ∀ i, i < 26 → isAsciiLower (Sat.letter i) = true ∧ (Sat.letter i).toNat = 97 + i := by
  decide

theorem nameAux_append (x : Nat) : ∀ acc, Sat.nameAux x acc = Sat.nameAux x [] ++ acc := by
  induction x using Nat.strongRecOn with
  | _ x ih =>
    intro acc
    rw [Sat.nameAux]
    conv => rhs; rw [Sat.nameAux]
    split
    · simp
    · rw [ih ((x - 1) / 26) (by omega) (_ :: acc), ih ((x - 1) / 26) (by omega) [_]]
      simp

theorem nameAux_zero : Sat.nameAux 0 [] = [] := by rw [Sat.nameAux]; simp

theorem nameAux_pos {x : Nat} (h : 0 < x) :
    Sat.nameAux x [] = Sat.nameAux ((x - 1) / 26) [] ++ [Sat.letter ((x - 1) % 26)] := by
  rw [Sat.nameAux]
  have : ¬ x = 0 := by omega
  simp only [this, dite_false]
  rw [nameAux_append]

theorem nameAux_all_lower (x : Nat) : ∀ c ∈ Sat.nameAux x [], isAsciiLower c = true := by
  induction x using Nat.strongRecOn with
  | _ x ih =>
    intro c hc
    rcases Nat.eq_zero_or_pos x with h | h
    · subst h; rw [nameAux_zero] at hc; cases hc
    · rw [nameAux_pos h] at hc
      rcases List.mem_append.mp hc with hc | hc
      · exact ih _ (by omega) c hc
      · simp at hc; subst hc; exact (letter_facts _ (Nat.mod_lt _ (by omega))).1

theorem nameAux_ne_nil {x : Nat} (h : 0 < x) : Sat.nameAux x [] ≠ [] := by
  rw [nameAux_pos h]; simp

theorem fromNameLoop_append : ∀ (xs ys : List Char) (a : Nat),
    fromNameLoop (xs ++ ys) a =
      match fromNameLoop xs a with
      | .ok a' => fromNameLoop ys a'
      | .err e => .err e
      | .panic p => .panic p := by
  intro xs
  induction xs with
  | nil => intro ys a; simp [fromNameLoop]
  | cons c cs ih =>
    intro ys a
    simp only [List.cons_append, fromNameLoop]
    split
    · split
      · split
        · split
          · split
            · split
              · rfl
              · exact ih ys _
            · rfl
            · rfl
          · rfl
          · rfl
        · rfl
        · rfl
      · rfl
      · rfl
    · rfl

/-- one loop iteration on a letter, from an in-range accumulator -/
theorem fromNameLoop_letter (i a : Nat) (hi : i < 26) (ha : a * 26 + (i + 1) ≤ SUPPLY) :
    fromNameLoop [Sat.letter i] a = .ok (a * 26 + (i + 1)) := by
  obtain ⟨hl, hn⟩ := letter_facts i hi
  unfold SUPPLY at ha
  have ha' : (97:Nat) = 'a'.toNat := by decide
  have hp : (2:Nat) ^ 64 = 18446744073709551616 := by decide
  have h1 : a * 26 < 18446744073709551616 := by omega
  have h2 : a * 26 + (97 + i) < 18446744073709551616 := by omega
  have h3 : 97 ≤ a * 26 + (97 + i) := by omega
  have h4 : a * 26 + (i + 1) < 18446744073709551616 := by omega
  have h5 : ¬ a * 26 + (i + 1) > 2099999997690000 := by omega
  have h6 : a * 26 + (97 + i) - 97 + 1 = a * 26 + (i + 1) := by omega
  simp only [fromNameLoop, hl, if_true, Outcome.mulW, Outcome.addW, Outcome.subW, hn, hp, h1, ← ha', h2, h3, h4,
    SUPPLY, h5, if_false, h6]

theorem fromNameLoop_nameAux (x : Nat) : ∀ a, a * 26 ^ (Sat.nameAux x []).length + x ≤ SUPPLY →
    fromNameLoop (Sat.nameAux x []) a = .ok (a * 26 ^ (Sat.nameAux x []).length + x) := by
  induction x using Nat.strongRecOn with
  | _ x ih =>
    intro a hle
    rcases Nat.eq_zero_or_pos x with h | h
    · subst h; rw [nameAux_zero]; simp [fromNameLoop]
    · have hlen : (Sat.nameAux x []).length = (Sat.nameAux ((x - 1) / 26) []).length + 1 := by
        rw [nameAux_pos h]; simp
      rw [hlen, Nat.pow_succ] at hle ⊢
      rw [nameAux_pos h, fromNameLoop_append]
      generalize hP : 26 ^ (Sat.nameAux ((x - 1) / 26) []).length = P at hle ⊢
      have hmod : (x - 1) % 26 < 26 := Nat.mod_lt _ (by omega)
      have hsplit : x - 1 = 26 * ((x - 1) / 26) + (x - 1) % 26 := (Nat.div_add_mod _ 26).symm
      have hkey : (a * P + (x - 1) / 26) * 26 + ((x - 1) % 26 + 1) = a * (P * 26) + x := by
        rw [Nat.add_mul, Nat.mul_assoc]; omega
      have hpre : a * P + (x - 1) / 26 ≤ SUPPLY := by omega
      rw [ih _ (by omega) a (by rw [hP]; exact hpre), hP]
      simp only
      rw [fromNameLoop_letter _ _ hmod (by rw [hkey]; exact hle), hkey]

theorem dispatch_name {x : Nat} (h : 0 < x) : dispatch (Sat.nameAux x []) = .name := by
  unfold dispatch
  have hnn := nameAux_ne_nil h
  have hall := nameAux_all_lower x
  have : (Sat.nameAux x []).any isAsciiLower = true := by
    cases hc : Sat.nameAux x [] with
    | nil => exact absurd hc hnn
    | cons c cs => simp [hall c (by rw [hc]; simp)]
  simp [this]

theorem fromName_name (s : Nat) (hs : s < SUPPLY) : fromName (Sat.nameAux (SUPPLY - s) []) = .ok s := by
  unfold fromName
  have := fromNameLoop_nameAux (SUPPLY - s) 0 (by simp)
  rw [this]
  simp only [Nat.zero_mul, Nat.zero_add, Outcome.subW]
  have h1 : SUPPLY - s ≤ SUPPLY := by omega
  simp only [h1, if_true]
  congr 1; omega

end Ord.SatNotation
