import OrdModel.Proofs.SatRarityClass
import OrdModel.Proofs.SatText
/-!
Charm lemmas for C29: `Sat::nineball` ⇔ height 9, `Sat::coin`, `Sat::palindrome` (the
digit-reversal loop, no overflow below the supply) = "the decimal digits read the same in both
directions", and the bits of the flag word `Sat::charms` builds.
-/
namespace Ord.Sat
open Ord.Epoch

/-! ### nineball, coin -/

theorem nineball_iff (s : Nat) (hs : s < SUPPLY) : nineball s = true ↔ heightN s = 9 := by
  have h9 : Height.startingSat 9 = 45000000000 := by decide
  have s9 : Height.subsidy 9 = 5000000000 := by decide
  unfold nineball COIN_VALUE
  simp only [Bool.and_eq_true, decide_eq_true_eq]
  constructor
  · rintro ⟨h1, h2⟩
    obtain ⟨_, hH, _, _⟩ := compose 9 (s - 45000000000) (by omega) (by omega)
    rw [h9, show 45000000000 + (s - 45000000000) = s by omega] at hH
    exact hH
  · intro h
    obtain ⟨hsum, hk⟩ := decompose s hs
    rw [h, h9] at hsum
    rw [h, s9] at hk
    omega

theorem coin_iff (s : Nat) : coin s = true ↔ s % 100000000 = 0 := by
  unfold coin COIN_VALUE
  rw [isMultipleOf_pos _ (by omega)]
  simp

/-! ### palindrome -/

/-- decimal digits, least significant first (`fuel` ≥ number of digits; none for 0) -/
def rdigits : Nat → Nat → List Nat
  | 0, _ => []
  | f + 1, n => if n = 0 then [] else (n % 10) :: rdigits f (n / 10)

/-- value of a digit string read most significant first, on top of `acc` -/
def valBE (acc : Nat) (ds : List Nat) : Nat := ds.foldl (fun a d => a * 10 + d) acc

theorem rdigits_zero (f : Nat) : rdigits f 0 = [] := by cases f <;> simp [rdigits]

theorem rdigits_lt (f n : Nat) : ∀ d ∈ rdigits f n, d < 10 := by
  induction f generalizing n with
  | zero => intro d hd; simp [rdigits] at hd
  | succ f ih =>
    intro d hd
    unfold rdigits at hd
    split at hd
    · simp at hd
    · rcases List.mem_cons.mp hd with h | h
      · omega
      · exact ih _ d h

/-- the loop of `Sat::palindrome` reads the digits least significant first; no overflow when the
result stays below 2^64 -/
theorem reverseDigitsO_eq (f : Nat) : ∀ (n rev d : Nat), n < 10 ^ d → (rev + 1) * 10 ^ d ≤ 2 ^ 64 →
    reverseDigitsO f n rev = .ok (valBE rev (rdigits f n)) := by
  induction f with
  | zero => intro n rev d _ _; rfl
  | succ f ih =>
    intro n rev d hn hb
    unfold reverseDigitsO rdigits
    by_cases h0 : n = 0
    · simp [h0, valBE]
    · cases d with
      | zero => simp at hn; omega
      | succ d =>
        rw [Nat.pow_succ] at hn hb
        have hp : 0 < 10 ^ d := Nat.pow_pos (by omega)
        have h1 : rev * 10 + n % 10 < 2 ^ 64 := by
          have : (rev + 1) * 10 ≤ (rev + 1) * (10 ^ d * 10) :=
            Nat.mul_le_mul_left _ (by omega)
          omega
        have h2 : rev * 10 < 2 ^ 64 := by omega
        have hb' : (rev * 10 + n % 10 + 1) * 10 ^ d ≤ 2 ^ 64 := by
          have : (rev * 10 + n % 10 + 1) * 10 ^ d ≤ ((rev + 1) * 10) * 10 ^ d :=
            Nat.mul_le_mul_right _ (by omega)
          rw [Nat.mul_assoc, Nat.mul_comm 10] at this
          omega
        have hn' : n / 10 < 10 ^ d := by omega
        simp only [h0, if_false, Outcome.mulW, Outcome.addW, h1, h2, if_true]
        rw [ih (n / 10) (rev * 10 + n % 10) d hn' hb']
        simp [valBE]

/-- reading the digits back most significant first gives the number -/
theorem valBE_reverse_rdigits (f : Nat) : ∀ n, n < 10 ^ f → valBE 0 (rdigits f n).reverse = n := by
  induction f with
  | zero => intro n hn; simp at hn; subst hn; rfl
  | succ f ih =>
    intro n hn
    unfold rdigits
    by_cases h0 : n = 0
    · simp [h0, valBE]
    · rw [Nat.pow_succ] at hn
      have := ih (n / 10) (by omega)
      simp only [h0, if_false, List.reverse_cons, valBE, List.foldl_append, List.foldl_cons,
        List.foldl_nil] at this ⊢
      rw [this]; omega

/-- positional notation is injective on digit strings of equal length -/
theorem valBE_inj : ∀ (xs ys : List Nat) (a b : Nat), xs.length = ys.length →
    (∀ d ∈ xs, d < 10) → (∀ d ∈ ys, d < 10) → valBE a xs = valBE b ys → a = b ∧ xs = ys := by
  intro xs
  induction xs with
  | nil =>
    intro ys a b hl _ _ h
    cases ys with
    | nil => exact ⟨h, rfl⟩
    | cons y ys => simp at hl
  | cons x xs ih =>
    intro ys a b hl hx hy h
    cases ys with
    | nil => simp at hl
    | cons y ys =>
      simp only [valBE, List.foldl_cons] at h
      obtain ⟨h1, h2⟩ := ih ys (a * 10 + x) (b * 10 + y) (by simpa using hl)
        (fun d hd => hx d (List.mem_cons_of_mem _ hd)) (fun d hd => hy d (List.mem_cons_of_mem _ hd)) h
      have := hx x (List.mem_cons_self ..)
      have := hy y (List.mem_cons_self ..)
      refine ⟨by omega, ?_⟩
      rw [h2]; congr 1; omega

open SatNotation in
/-- `Display` of a positive number is its digit string, most significant first -/
theorem decDigits_eq_rdigits (f : Nat) : ∀ n, 0 < n → n < 10 ^ f →
    decDigits n = (rdigits f n).reverse.map digitChar := by
  induction f with
  | zero => intro n h0 hn; simp at hn; omega
  | succ f ih =>
    intro n h0 hn
    rw [Nat.pow_succ] at hn
    unfold rdigits
    rw [if_neg (by omega)]
    rcases Nat.lt_or_ge n 10 with h | h
    · rw [decDigits_lt h, Nat.div_eq_of_lt h, rdigits_zero, Nat.mod_eq_of_lt h]; rfl
    · rw [decDigits_ge (by omega), ih (n / 10) (by omega) (by omega)]
      simp

open SatNotation in
theorem map_digitChar_inj : ∀ (xs ys : List Nat), (∀ d ∈ xs, d < 10) → (∀ d ∈ ys, d < 10) →
    xs.map digitChar = ys.map digitChar → xs = ys := by
  intro xs
  induction xs with
  | nil => intro ys _ _ h; cases ys with
    | nil => rfl
    | cons y ys => simp at h
  | cons x xs ih =>
    intro ys hx hy h
    cases ys with
    | nil => simp at h
    | cons y ys =>
      simp only [List.map_cons, List.cons.injEq] at h
      have hx0 := hx x (List.mem_cons_self ..)
      have hy0 := hy y (List.mem_cons_self ..)
      have e : x = y := by
        have := congrArg digitVal h.1
        rwa [digitVal_digitChar hx0, digitVal_digitChar hy0] at this
      rw [e, ih ys (fun d hd => hx d (List.mem_cons_of_mem _ hd))
        (fun d hd => hy d (List.mem_cons_of_mem _ hd)) h.2]

/-- `Sat::palindrome` does not overflow below 10^19 (so below the supply) and says whether the
decimal digits of the number read the same in both directions -/
theorem palindromeO_ok (s : Nat) (hs : s < 10 ^ 19) :
    palindromeO s = .ok (SatSpec.isPalindrome s) := by
  have hrev := reverseDigitsO_eq 20 s 0 19 hs (by decide)
  rw [palindromeO_of s _ hrev]
  congr 1
  rcases Nat.eq_zero_or_pos s with h0 | hpos
  · subst h0
    unfold SatSpec.isPalindrome
    rw [rdigits_zero, SatNotation.decDigits_lt (by omega)]
    rfl
  · have hs20 : s < 10 ^ 20 := Nat.lt_trans hs (by decide)
    have hval := valBE_reverse_rdigits 20 s hs20
    have hdig := decDigits_eq_rdigits 20 s hpos hs20
    have hlt := rdigits_lt 20 s
    unfold SatSpec.isPalindrome
    simp only []
    rw [hdig]
    generalize rdigits 20 s = L at hval hdig hlt ⊢
    by_cases hp : L.reverse = L
    · -- palindrome: both sides true
      have e1 : valBE 0 L = s := by rw [← hp]; exact hval
      have e2 : (List.map SatNotation.digitChar L.reverse).reverse = List.map SatNotation.digitChar L.reverse := by
        rw [← List.map_reverse, List.reverse_reverse, hp]
      rw [e1, e2]; simp
    · have e1 : ¬ s = valBE 0 L := by
        intro hc
        rw [← hval] at hc
        have := valBE_inj L.reverse L 0 0 (by simp) (fun d hd => hlt d (by simpa using hd)) hlt hc
        exact hp this.2
      have e2 : ¬ (List.map SatNotation.digitChar L.reverse =
          (List.map SatNotation.digitChar L.reverse).reverse) := by
        intro hc
        rw [← List.map_reverse, List.reverse_reverse] at hc
        exact hp (map_digitChar_inj _ _ (fun d hd => hlt d (by simpa using hd)) hlt hc)
      have b1 : (s == valBE 0 L) = false := by rw [beq_eq_false_iff_ne]; exact e1
      have b2 : (List.map SatNotation.digitChar L.reverse ==
          (List.map SatNotation.digitChar L.reverse).reverse) = false := by
        rw [beq_eq_false_iff_ne]; exact e2
      rw [b1, b2]

/-! ### the flag word -/

/-- what each bit of the word `Sat::charms` builds says -/
theorem charmsOf_testBit (nine pal coin : Bool) (r : Rarity) (c : Charm) :
    (charmsOf nine pal coin r).testBit c.bit =
      match c with
      | .coin => coin
      | .nineball => nine
      | .palindrome => pal
      | .uncommon => decide (r = .uncommon)
      | .rare => decide (r = .rare)
      | .epic => decide (r = .epic)
      | .legendary => decide (r = .legendary)
      | .mythic => decide (r = .mythic)
      | _ => false := by
  cases c <;> cases r <;> cases nine <;> cases pal <;> cases coin <;> rfl

/-- the word of the model is the word of the specification (same four summands) -/
theorem charmsOf_eq_spec (s h k : Nat) :
    charmsOf (nineball s) (SatSpec.isPalindrome s) (coin s) (SatSpec.rarity h k) =
      SatSpec.charms s h k := by
  unfold charmsOf SatSpec.charms
  have e1 : (if nineball s = true then Charm.nineball.flag else 0) =
      (if 45000000000 ≤ s ∧ s < 50000000000 then 2 ^ 5 else 0) := by
    unfold nineball COIN_VALUE
    simp only [Bool.and_eq_true, decide_eq_true_eq]; rfl
  have e2 : (if coin s = true then Charm.coin.flag else 0) =
      (if s % 100000000 = 0 then 2 ^ 0 else 0) := by
    by_cases hc : s % 100000000 = 0
    · rw [if_pos ((coin_iff s).2 hc), if_pos hc]; rfl
    · rw [if_neg (fun h => hc ((coin_iff s).1 h)), if_neg hc]
  rw [e1, e2]
  generalize SatSpec.rarity h k = r
  cases r <;> rfl

end Ord.Sat
