import OrdModel.Proofs.TextDecimal
import OrdModel.Num.Decimal_fixed
/-! Lemmas for the repaired `Decimal::from_str` (`Num/Decimal_fixed.lean`). -/
namespace Ord.DecimalFixed
open Ord Ord.Text Ord.Decimal

theorem parseFraction_ne_panic (f : List Char) (site : String) : parseFraction f ≠ .panic site := by
  unfold parseFraction
  split
  · simp
  · split
    · simp
    · dsimp only
      split
      · simp
      · split
        · simp
        · split <;> simp

/-- the repaired parser has no reachable panic site -/
theorem fromStr_ne_panic (s : List Char) (site : String) : fromStr s ≠ .panic site := by
  unfold fromStr
  split
  · rename_i i f _
    split
    · simp
    · split
      · simp
      · rename_i iv _
        cases hpf : parseFraction f with
        | err e => simp
        | panic p => exact absurd hpf (parseFraction_ne_panic f p)
        | ok r =>
          obtain ⟨d, sc⟩ := r
          simp only
          split <;> simp
  · split <;> simp

theorem trimZeros_spec (f : List Char) :
    f = trimZeros f ++ List.replicate (trailingZeros f) '0' ∧
      (trimZeros f).length + trailingZeros f = f.length := by
  obtain ⟨pre, h⟩ := trailingZeros_split f
  have hl := trailingZeros_le f
  have hlen : pre.length = f.length - trailingZeros f := by
    have := congrArg List.length h
    simp at this; omega
  have : trimZeros f = pre := by
    unfold trimZeros
    conv => lhs; arg 2; rw [h]
    rw [← hlen, List.take_left]
  rw [this]
  exact ⟨h, by omega⟩

theorem parseFraction_ok {f : List Char} {dv sc : Nat} (h : parseFraction f = .ok (dv, sc)) :
    allDigits f = true ∧ sc ≤ f.length ∧ decVal f * 10 ^ sc = dv * 10 ^ f.length ∧ sc < 256 := by
  unfold parseFraction at h
  by_cases hf : f = []
  · subst hf; simp at h; obtain ⟨rfl, rfl⟩ := h
    simp [allDigits, decVal, decFold]
  · simp only [hf, if_false] at h
    by_cases hd : allDigits f = true
    · simp only [hd, Bool.not_true, Bool.false_eq_true, if_false] at h
      obtain ⟨hsplit, hlen⟩ := trimZeros_spec f
      have hval : decVal f = decVal (trimZeros f) * 10 ^ trailingZeros f := by
        conv => lhs; rw [hsplit]
        rw [decVal_append, decVal_replicate_zero, List.length_replicate]; simp
      by_cases hs : trimZeros f = []
      · simp only [hs, if_true, Outcome.ok.injEq, Prod.mk.injEq] at h
        obtain ⟨rfl, rfl⟩ := h
        rw [hs] at hval
        refine ⟨hd, Nat.zero_le _, ?_, by omega⟩
        rw [hval]; simp [decVal, decFold]
      · simp only [hs, if_false] at h
        cases hp : parseUnsigned 128 (trimZeros f) with
        | error e => simp [hp] at h
        | ok d =>
          simp only [hp] at h
          by_cases h256 : 256 ≤ (trimZeros f).length
          · simp [h256] at h
          · simp only [h256, if_false, Outcome.ok.injEq, Prod.mk.injEq] at h
            obtain ⟨rfl, rfl⟩ := h
            have hdig : allDigits (trimZeros f) = true := by
              rw [hsplit, allDigits_append, Bool.and_eq_true] at hd; exact hd.1
            obtain ⟨⟨ds, hds | hds, _, _, hv⟩, _⟩ := (parseUnsigned_ok_iff 128 _ d).1 hp
            · refine ⟨hd, by omega, ?_, by omega⟩
              rw [hval, hds, hv, ← hlen, hds, Nat.pow_add]
              generalize 10 ^ ds.length = A
              generalize 10 ^ trailingZeros f = B
              grind
            · rw [hds, allDigits_cons] at hdig; simp [isDigit_plus] at hdig
    · simp [hd] at h

/-- **soundness of the repaired parser, for every string** -/
theorem fromStr_ok_denotes {s : List Char} {dec : Dec} (h : fromStr s = .ok dec) :
    ∃ num den, Denotes s num den ∧ dec.value * 10 ^ den = num * 10 ^ dec.scale ∧
      dec.value < U128 ∧ dec.scale < 256 := by
  unfold fromStr at h
  cases hs : splitOnce '.' s with
  | none =>
    rw [hs] at h
    cases hp : parseUnsigned 128 s with
    | error e => simp [hp] at h
    | ok v =>
      simp only [hp, Outcome.ok.injEq] at h
      subst h
      obtain ⟨hn, hlt⟩ := (parseUnsigned_ok_iff 128 s v).1 hp
      exact ⟨v, 0, Or.inl ⟨hn, rfl⟩, by simp, hlt, by simp⟩
  | some p =>
    obtain ⟨i, f⟩ := p
    rw [hs] at h
    simp only at h
    obtain ⟨hsf, _⟩ := splitOnce_some hs
    by_cases h1 : i = [] ∧ f = []
    · simp [h1] at h
    · simp only [h1, if_false] at h
      have hi : ∃ iv, (if i = [] then Except.ok 0 else parseUnsigned 128 i) = .ok iv ∧
          (i = [] ∧ iv = 0 ∨ Numeral i iv) := by
        cases hp : (if i = [] then Except.ok 0 else parseUnsigned 128 i) with
        | error e => rw [hp] at h; simp at h
        | ok iv =>
          refine ⟨iv, rfl, ?_⟩
          by_cases hi0 : i = []
          · simp [hi0] at hp; exact Or.inl ⟨hi0, hp.symm⟩
          · simp only [hi0, if_false] at hp
            exact Or.inr ((parseUnsigned_ok_iff 128 i iv).1 hp).1
      obtain ⟨iv, hiv, hin⟩ := hi
      rw [hiv] at h
      simp only at h
      cases hpf : parseFraction f with
      | err e => simp [hpf] at h
      | panic e => simp [hpf] at h
      | ok r =>
        obtain ⟨dv, sc⟩ := r
        simp only [hpf] at h
        by_cases c : U128 ≤ 10 ^ sc ∨ U128 ≤ iv * 10 ^ sc ∨ U128 ≤ iv * 10 ^ sc + dv
        · simp [c] at h
        · simp only [c, if_false, Outcome.ok.injEq] at h
          subst h
          obtain ⟨hfd, hle, hval, hsc⟩ := parseFraction_ok hpf
          refine ⟨iv * 10 ^ f.length + decVal f, f.length,
            Or.inr ⟨i, f, hsf, hfd, rfl, h1, iv, hin, rfl⟩, ?_, by simp only; omega, hsc⟩
          simp only
          have : (iv * 10 ^ f.length + decVal f) * 10 ^ sc = iv * 10 ^ f.length * 10 ^ sc + decVal f * 10 ^ sc := by
            grind
          rw [this, hval]; grind

/-- the round trip of `fromStr_printScaled`, for the repaired parser -/
theorem fromStr_printScaled (a d : Nat) (ha : a < U128) (hd : 10 ^ d < U128) :
    ∃ s dec, printScaled a d = .ok s ∧ fromStr s = .ok dec ∧ dec.scale ≤ d ∧
      dec.value * 10 ^ (d - dec.scale) = a := by
  have hd38 := pow_lt_U128 hd
  have hpos : 0 < 10 ^ d := Nat.pow_pos (by omega)
  have hdm := Nat.div_add_mod a (10 ^ d)
  have hwhole_le : a / 10 ^ d ≤ a := Nat.div_le_self _ _
  obtain ⟨hwd, hwv, _⟩ := natDigits_spec (a / 10 ^ d)
  have hwne := natDigits_ne_nil (a / 10 ^ d)
  have hparse_whole : parseUnsigned 128 (natDigits (a / 10 ^ d)) = .ok (a / 10 ^ d) := by
    have := parseUnsigned_digits 128 _ hwne hwd (by rw [hwv]; unfold U128 at ha; omega)
    rwa [hwv] at this
  unfold printScaled
  by_cases hfrac : a % 10 ^ d = 0
  · simp only [hfrac, if_true]
    refine ⟨_, ⟨a / 10 ^ d, 0⟩, rfl, ?_, Nat.zero_le _, ?_⟩
    · unfold fromStr
      rw [splitOnce_of_not_mem _ (dot_not_mem_natDigits _), hparse_whole]
    · simp only [Nat.sub_zero]; rw [Nat.mul_comm]; omega
  · simp only [hfrac, if_false]
    obtain ⟨f, w, hs, hf10, hwle, hwpos, hfe, hflt⟩ :=
      stripZeros_spec (a % 10 ^ d) (a % 10 ^ d) d (by omega) (Nat.le_refl _) (Nat.mod_lt _ hpos)
    rw [hs]
    obtain ⟨hfd, hfv, init, hinit⟩ := natDigits_spec f
    have hflen : (natDigits f).length ≤ w := natDigits_length_le f w hwpos hflt
    obtain ⟨hpd, hpv, hpl⟩ := padZeros_spec w (natDigits f) hfd hflen
    have hw38 : w ≤ 38 := by omega
    have hpw := pow_le_U128 hw38
    have hFne : padZeros w (natDigits f) ≠ [] := by
      intro h; rw [h] at hpl; simp at hpl; omega
    have htz : trailingZeros (padZeros w (natDigits f)) = 0 := by
      unfold padZeros; rw [hinit, ← List.append_assoc]
      exact trailingZeros_snoc _ _ ((digitChar_spec f).2.2 hf10)
    have hparseF : parseUnsigned 128 (padZeros w (natDigits f)) = .ok f := by
      have := parseUnsigned_digits 128 _ hFne hpd (by rw [hpv, hfv]; unfold U128 at hpw; omega)
      rwa [hpv, hfv] at this
    have htrim : trimZeros (padZeros w (natDigits f)) = padZeros w (natDigits f) := by
      unfold trimZeros; rw [htz, Nat.sub_zero, List.take_length]
    have hfrac' : parseFraction (padZeros w (natDigits f)) = .ok (f, w) := by
      unfold parseFraction
      have h3 : ¬ 256 ≤ w := by omega
      simp only [hFne, if_false, hpd, Bool.not_true, Bool.false_eq_true, htrim, hparseF, hpl, h3]
    have hval : (a / 10 ^ d * 10 ^ w + f) * 10 ^ (d - w) = a := by
      have hp : 10 ^ d = 10 ^ w * 10 ^ (d - w) := by rw [← Nat.pow_add]; congr 1; omega
      have : (a / 10 ^ d * 10 ^ w + f) * 10 ^ (d - w) = a / 10 ^ d * (10 ^ w * 10 ^ (d - w)) + f * 10 ^ (d - w) := by
        grind
      rw [this, ← hp, hfe, Nat.mul_comm]; exact hdm
    have hpos2 : 0 < 10 ^ (d - w) := Nat.pow_pos (by omega)
    have hle : a / 10 ^ d * 10 ^ w + f ≤ a := by
      calc a / 10 ^ d * 10 ^ w + f = (a / 10 ^ d * 10 ^ w + f) * 1 := by omega
        _ ≤ (a / 10 ^ d * 10 ^ w + f) * 10 ^ (d - w) := Nat.mul_le_mul_left _ hpos2
        _ = a := hval
    refine ⟨_, ⟨a / 10 ^ d * 10 ^ w + f, w⟩, rfl, ?_, hwle, hval⟩
    unfold fromStr
    rw [splitOnce_append _ _ (dot_not_mem_natDigits _)]
    simp only [hwne, if_false, hparse_whole, hfrac', false_and]
    have c : ¬ (U128 ≤ 10 ^ w ∨ U128 ≤ a / 10 ^ d * 10 ^ w ∨ U128 ≤ a / 10 ^ d * 10 ^ w + f) := by omega
    simp only [c, if_false]

end Ord.DecimalFixed
