import OrdModel.Proofs.IndexLiftInsChain
import OrdModel.Proofs.IndexSchedValid
/-
Lift of the inscription-side invariants, part 10: C16's chain-validity predicate
(`Valid.validChain`: consensus rules as far as the indexer can tell) implies the chain hypotheses
of the lift (`InsChain`, `EnvChain`), so the reachable-state theorems hold for every valid chain.
-/
namespace Ord.Index.InsLift
open Ord Ord.Index Sched Insloc

theorem coinbaseShape_facts (cb : Tx) (h : Valid.coinbaseShape cb = true) :
    txIsCoinbase cb = true ∧ ∀ i ∈ cb.inputs, i.prev.isNull = true := by
  unfold Valid.coinbaseShape at h
  split at h
  · rename_i i heq
    simp only [Bool.and_eq_true] at h
    refine ⟨by simp [txIsCoinbase, heq, h.1], ?_⟩
    intro j hj
    rw [heq] at hj
    simp only [List.mem_singleton] at hj
    subst hj
    exact h.1
  · cases h

theorem envelopesFrom_facts (nIn : Nat) (envs : List Envelope) :
    ∀ (prev : Option (Nat × Nat)), Valid.envelopesFrom nIn prev envs = true →
    (envs.map (·.input)).Pairwise (· ≤ ·) ∧ (∀ e ∈ envs, e.input < nIn) ∧
    (∀ i o, prev = some (i, o) → ∀ e ∈ envs, i ≤ e.input) := by
  induction envs with
  | nil => intro prev _; exact ⟨List.Pairwise.nil, (fun _ h => by cases h), (fun _ _ _ _ h => by cases h)⟩
  | cons e rest ih =>
    intro prev h
    cases prev with
    | none =>
      simp only [Valid.envelopesFrom, Bool.and_eq_true, decide_eq_true_eq] at h
      obtain ⟨h1, h2, h3⟩ := ih _ h.2
      refine ⟨?_, ?_, fun i o hp => by cases hp⟩
      · simp only [List.map_cons, List.pairwise_cons]
        refine ⟨?_, h1⟩
        intro x hx
        obtain ⟨e', he', rfl⟩ := List.mem_map.1 hx
        exact h3 e.input 0 rfl e' he'
      · intro e' he'
        rcases List.mem_cons.1 he' with rfl | he'
        · exact h.1.1
        · exact h2 e' he'
    | some p =>
      obtain ⟨i, o⟩ := p
      simp only [Valid.envelopesFrom, Bool.and_eq_true, Bool.or_eq_true, decide_eq_true_eq, beq_iff_eq] at h
      obtain ⟨h1, h2, h3⟩ := ih _ h.2
      have hie : i ≤ e.input := by
        rcases h.1.2 with hh | hh
        · omega
        · omega
      refine ⟨?_, ?_, ?_⟩
      · simp only [List.map_cons, List.pairwise_cons]
        refine ⟨?_, h1⟩
        intro x hx
        obtain ⟨e', he', rfl⟩ := List.mem_map.1 hx
        exact h3 e.input e.offset rfl e' he'
      · intro e' he'
        rcases List.mem_cons.1 he' with rfl | he'
        · exact h.1.1
        · exact h2 e' he'
      · intro i' o' hp e' he'
        simp only [Option.some.injEq, Prod.mk.injEq] at hp
        obtain ⟨rfl, rfl⟩ := hp
        rcases List.mem_cons.1 he' with rfl | he'
        · exact hie
        · exact Nat.le_trans hie (h3 e.input e.offset rfl e' he')

theorem sortedNat_of_pairwise (l : List Nat) (h : l.Pairwise (· ≤ ·)) : sortedNat l = true := by
  induction l with
  | nil => rfl
  | cons a rest ih =>
    cases rest with
    | nil => rfl
    | cons b rest' =>
      rw [List.pairwise_cons] at h
      simp only [sortedNat, Bool.and_eq_true, decide_eq_true_eq]
      exact ⟨h.1 b List.mem_cons_self, ih h.2⟩

theorem envelopesWF_of_wellFormed (tx : Tx) (h : Valid.txWellFormed tx = true) : envelopesWF tx = true := by
  simp only [Valid.txWellFormed, Bool.and_eq_true] at h
  have he : Valid.envelopesWellFormed tx = true := h.1.1.1.2
  unfold Valid.envelopesWellFormed at he
  obtain ⟨h1, h2, _⟩ := envelopesFrom_facts _ _ _ he
  simp only [envelopesWF, envelopeInputsWF, Bool.and_eq_true, List.all_eq_true, decide_eq_true_eq]
  refine ⟨sortedNat_of_pairwise _ h1, ?_⟩
  intro x hx
  obtain ⟨e, he', rfl⟩ := List.mem_map.1 hx
  exact h2 e he'

theorem checkTx_wf (height : Nat) (u u' : Valid.Utxos) (tx : Tx) (fee : Nat)
    (h : Valid.checkTx height u tx = some (u', fee)) : envelopesWF tx = true := by
  simp only [Valid.checkTx] at h
  split at h
  · cases h
  · split at h
    · rename_i hc
      simp only [Bool.and_eq_true] at hc
      exact envelopesWF_of_wellFormed tx hc.1.1.1
    · cases h

theorem checkTxs_wf (height : Nat) (txs : List Tx) (u u' : Valid.Utxos) (fees fees' : Nat)
    (h : Valid.checkTxs height txs u fees = some (u', fees')) : ∀ tx ∈ txs, envelopesWF tx = true := by
  induction txs generalizing u fees with
  | nil => intro _ ht; cases ht
  | cons tx rest ih =>
    simp only [Valid.checkTxs] at h
    split at h
    · cases h
    · rename_i u1 fee hc
      intro t ht
      rcases List.mem_cons.1 ht with rfl | ht
      · exact checkTx_wf _ _ _ _ _ hc
      · exact ih _ _ h t ht

theorem checkBlock_ins (st st' : Valid.VState) (blk : Block) (h : Valid.checkBlock st blk = some st') :
    blk.height = st.height ∧ st'.height = st.height + 1 ∧
    (∃ cb rest, blk.txs = cb :: rest ∧ txIsCoinbase cb = true ∧ ∀ i ∈ cb.inputs, i.prev.isNull = true) ∧
    (∀ tx ∈ blk.txs.drop 1, envelopesWF tx = true) := by
  unfold Valid.checkBlock at h
  split at h
  · cases h
  · rename_i cb rest htxs
    split at h
    · cases h
    · rename_i hh
      have hheight : blk.height = st.height := by simpa using hh
      -- block-size guard (`maxBlockTxs`)
      split at h
      · cases h
      · split at h
        · cases h
        · rename_i hcb
          have hcb : Valid.coinbaseShape cb = true ∧ Valid.txWellFormed cb = true := by
            cases h1 : Valid.coinbaseShape cb <;> cases h2 : Valid.txWellFormed cb <;> simp_all
          split at h
          · cases h
          · rename_i txids hf
            split at h
            · cases h
            · rename_i u fees hc
              dsimp only at h
              split at h
              · simp only [Option.some.injEq] at h
                obtain ⟨c1, c2⟩ := coinbaseShape_facts cb hcb.1
                refine ⟨hheight, by rw [← h], ⟨cb, rest, htxs, c1, c2⟩, ?_⟩
                intro tx ht
                rw [htxs] at ht
                exact checkTxs_wf _ _ _ _ _ _ hc tx (by simpa using ht)
              · cases h

theorem checkChain_ins (chain : List Block) (st st' : Valid.VState) (h : Valid.checkChain chain st = some st') :
    (∀ b ∈ chain, ∃ cb rest, b.txs = cb :: rest ∧ txIsCoinbase cb = true ∧ ∀ i ∈ cb.inputs, i.prev.isNull = true) ∧
    (∀ b ∈ chain, ∀ tx ∈ b.txs.drop 1, envelopesWF tx = true) ∧
    chain.Pairwise (fun a b => a.height ≤ b.height) ∧ (∀ b ∈ chain, st.height ≤ b.height) := by
  induction chain generalizing st with
  | nil => exact ⟨(fun _ h => by cases h), (fun _ h => by cases h), List.Pairwise.nil, (fun _ h => by cases h)⟩
  | cons b bs ih =>
    simp only [Valid.checkChain] at h
    split at h
    · cases h
    · rename_i st1 hb
      obtain ⟨b1, b2, b3, b4⟩ := checkBlock_ins _ _ _ hb
      obtain ⟨i1, i2, i3, i4⟩ := ih st1 h
      refine ⟨?_, ?_, ?_, ?_⟩
      · intro x hx
        rcases List.mem_cons.1 hx with rfl | hx
        · exact b3
        · exact i1 x hx
      · intro x hx
        rcases List.mem_cons.1 hx with rfl | hx
        · exact b4
        · exact i2 x hx
      · rw [List.pairwise_cons]
        refine ⟨?_, i3⟩
        intro x hx
        have := i4 x hx
        omega
      · intro x hx
        rcases List.mem_cons.1 hx with rfl | hx
        · omega
        · have := i4 x hx
          omega

/-- a consensus-valid chain (C16's predicate) satisfies the chain hypotheses of the lift -/
theorem insChain_of_validChain (chain : List Block) (h : Valid.validChain chain = true) :
    InsChain chain ∧ EnvChain chain := by
  have hcond := ChainCond.of_validChain chain h
  unfold Valid.validChain at h
  cases hc : Valid.checkChain chain {} with
  | none => rw [hc] at h; cases h
  | some st' =>
    obtain ⟨h1, h2, h3, _⟩ := checkChain_ins chain {} st' hc
    refine ⟨⟨hcond, ?_, h3⟩, ⟨h2, ?_⟩⟩
    · intro b hb
      obtain ⟨cb, rest, htxs, hcb, _⟩ := h1 b hb
      exact ⟨cb, rest, htxs, hcb⟩
    · intro b hb cb hhead
      obtain ⟨cb', rest, htxs, _, hnull⟩ := h1 b hb
      rw [htxs] at hhead
      simp only [List.head?_cons, Option.some.injEq] at hhead
      subst hhead
      exact hnull

end Ord.Index.InsLift
