import OrdModel.Codec.ScriptW5
/-! Helper lemmas for `Codec/ScriptW5.lean`: fuel irrelevance of `instrFuel`, and the
builder/iterator round trip `instructions (pushSlice b ++ rest) = push b :: instructions rest`. -/
namespace Ord.ScriptW5

theorem toNat_ofNat_lt {n : Nat} (h : n < 256) : (UInt8.ofNat n).toNat = n := by
  simp [UInt8.toNat_ofNat', Nat.mod_eq_of_lt h]

/-- any fuel above the number of bytes gives the same answer -/
theorem instrFuel_irrel : ∀ (f g : Nat) (bs : Bytes), bs.length < f → bs.length < g →
    instrFuel f bs = instrFuel g bs := by
  intro f
  induction f with
  | zero => intro g bs h; omega
  | succ f ih =>
    intro g bs hf hg
    cases g with
    | zero => omega
    | succ g =>
      cases bs with
      | nil => simp [instrFuel]
      | cons b rest =>
        simp only [List.length_cons] at hf hg
        have key : ∀ (n : Nat) (r : Bytes), r.length ≤ rest.length →
            takeSlice n r (instrFuel f) = takeSlice n r (instrFuel g) := by
          intro n r hr
          unfold takeSlice
          split
          · have h1 : (r.drop n).length < f := by simp; omega
            have h2 : (r.drop n).length < g := by simp; omega
            rw [ih g (r.drop n) h1 h2]
          · rfl
        simp only [instrFuel]
        rw [key b.toNat rest (Nat.le_refl _),
          key (leValue (rest.take 1)) (rest.drop 1) (by simp),
          key (leValue (rest.take 2)) (rest.drop 2) (by simp),
          key (leValue (rest.take 4)) (rest.drop 4) (by simp),
          ih g rest (by omega) (by omega)]

theorem instructions_nil : instructions [] = [] := by
  simp [instructions, instrFuel]

/-- unfolding of `instructions` on a non-empty script, with the recursive calls again
`instructions` -/
theorem instructions_cons (b : UInt8) (rest : Bytes) :
    instructions (b :: rest) =
      if b.toNat ≤ 0x4b then takeSlice b.toNat rest instructions
      else if b.toNat = 0x4c then
        if 1 ≤ rest.length then takeSlice (leValue (rest.take 1)) (rest.drop 1) instructions
        else [.error]
      else if b.toNat = 0x4d then
        if 2 ≤ rest.length then takeSlice (leValue (rest.take 2)) (rest.drop 2) instructions
        else [.error]
      else if b.toNat = 0x4e then
        if 4 ≤ rest.length then takeSlice (leValue (rest.take 4)) (rest.drop 4) instructions
        else [.error]
      else .ok (.op b) :: instructions rest := by
  have key : ∀ (n : Nat) (r : Bytes), r.length ≤ rest.length →
      takeSlice n r (instrFuel (rest.length + 1)) = takeSlice n r instructions := by
    intro n r hr
    unfold takeSlice
    split
    · have h1 : (r.drop n).length < rest.length + 1 := by simp; omega
      rw [instructions, instrFuel_irrel _ ((r.drop n).length + 1) _ h1 (by omega)]
    · rfl
  simp only [instructions, List.length_cons, instrFuel]
  rw [key b.toNat rest (Nat.le_refl _),
    key (leValue (rest.take 1)) (rest.drop 1) (by simp),
    key (leValue (rest.take 2)) (rest.drop 2) (by simp),
    key (leValue (rest.take 4)) (rest.drop 4) (by simp)]

theorem takeSlice_append (data rest : Bytes) (k : Bytes → List Item) :
    takeSlice data.length (data ++ rest) k = .ok (.push data) :: k rest := by
  simp [takeSlice]

/-- **Key lemma**: what the builder's `push_slice` writes, the iterator reads back as exactly
that push, and continues right after it. -/
theorem instructions_pushSlice (data rest : Bytes) (h : data.length < 2 ^ 32) :
    instructions (pushSlice data ++ rest) = .ok (.push data) :: instructions rest := by
  unfold pushSlice
  by_cases h1 : data.length < 0x4c
  · have hb : (UInt8.ofNat data.length).toNat = data.length := toNat_ofNat_lt (by omega)
    simp only [h1, if_true, List.cons_append]
    rw [instructions_cons, hb]
    have : data.length ≤ 0x4b := by omega
    simp only [this, if_true]
    exact takeSlice_append data rest instructions
  · by_cases h2 : data.length < 0x100
    · have hb : (UInt8.ofNat data.length).toNat = data.length := toNat_ofNat_lt (by omega)
      simp only [h1, h2, if_true, if_false, List.cons_append]
      rw [instructions_cons]
      have e : (0x4c : UInt8).toNat = 0x4c := rfl
      simp only [e]
      have hlen : 1 ≤ (UInt8.ofNat data.length :: (data ++ rest)).length := by simp
      simp only [show ¬ (0x4c ≤ 0x4b) by omega, if_false, if_true, hlen]
      simp only [List.take_succ_cons, List.take_zero, List.drop_succ_cons, List.drop_zero, leValue, hb]
      simpa using takeSlice_append data rest instructions
    · by_cases h3 : data.length < 0x10000
      · have hb0 : (UInt8.ofNat (data.length % 0x100)).toNat = data.length % 0x100 :=
          toNat_ofNat_lt (by omega)
        have hb1 : (UInt8.ofNat (data.length / 0x100)).toNat = data.length / 0x100 :=
          toNat_ofNat_lt (by omega)
        simp only [h1, h2, h3, if_true, if_false, List.cons_append]
        rw [instructions_cons]
        have e : (0x4d : UInt8).toNat = 0x4d := rfl
        simp only [e]
        simp only [show ¬ (0x4d ≤ 0x4b) by omega, show ¬ (0x4d = 0x4c) by omega, if_false, if_true]
        have hlen : 2 ≤ (UInt8.ofNat (data.length % 0x100) :: UInt8.ofNat (data.length / 0x100) ::
            (data ++ rest)).length := by simp
        simp only [hlen, if_true]
        simp only [List.take_succ_cons, List.take_zero, List.drop_succ_cons, List.drop_zero, leValue,
          hb0, hb1]
        have hv : data.length % 0x100 + 256 * (data.length / 0x100 + 256 * 0) = data.length := by omega
        rw [hv]
        exact takeSlice_append data rest instructions
      · have hb0 : (UInt8.ofNat (data.length % 0x100)).toNat = data.length % 0x100 :=
          toNat_ofNat_lt (by omega)
        have hb1 : (UInt8.ofNat (data.length / 0x100 % 0x100)).toNat = data.length / 0x100 % 0x100 :=
          toNat_ofNat_lt (by omega)
        have hb2 : (UInt8.ofNat (data.length / 0x10000 % 0x100)).toNat =
            data.length / 0x10000 % 0x100 := toNat_ofNat_lt (by omega)
        have hb3 : (UInt8.ofNat (data.length / 0x1000000)).toNat = data.length / 0x1000000 :=
          toNat_ofNat_lt (by
            have : (2:Nat) ^ 32 = 4294967296 := by decide
            omega)
        simp only [h1, h2, h3, if_false, List.cons_append]
        rw [instructions_cons]
        have e : (0x4e : UInt8).toNat = 0x4e := rfl
        simp only [e]
        simp only [show ¬ (0x4e ≤ 0x4b) by omega, show ¬ (0x4e = 0x4c) by omega,
          show ¬ (0x4e = 0x4d) by omega, if_false, if_true]
        have hlen : 4 ≤ (UInt8.ofNat (data.length % 0x100) :: UInt8.ofNat (data.length / 0x100 % 0x100) ::
            UInt8.ofNat (data.length / 0x10000 % 0x100) :: UInt8.ofNat (data.length / 0x1000000) ::
            (data ++ rest)).length := by simp
        simp only [hlen, if_true]
        simp only [List.take_succ_cons, List.take_zero, List.drop_succ_cons, List.drop_zero, leValue,
          hb0, hb1, hb2, hb3]
        have hv : data.length % 0x100 + 256 * (data.length / 0x100 % 0x100 +
            256 * (data.length / 0x10000 % 0x100 + 256 * (data.length / 0x1000000 + 256 * 0))) =
            data.length := by omega
        rw [hv]
        exact takeSlice_append data rest instructions

theorem instructions_plainOp (b : UInt8) (rest : Bytes) (h : isPlainOp b = true) :
    instructions (b :: rest) = .ok (.op b) :: instructions rest := by
  have h' : 0x4e < b.toNat := by simpa [isPlainOp] using h
  rw [instructions_cons]
  simp only [show ¬ b.toNat ≤ 0x4b by omega, show ¬ b.toNat = 0x4c by omega,
    show ¬ b.toNat = 0x4d by omega, show ¬ b.toNat = 0x4e by omega, if_false]

/-- a whole list of builder-written instructions reads back unchanged, whatever follows -/
theorem instructions_encode (is : List Instr) (rest : Bytes)
    (h : ∀ i ∈ is, i.encodable = true) :
    instructions (encode is ++ rest) = is.map .ok ++ instructions rest := by
  induction is with
  | nil => simp [encode]
  | cons i is ih =>
    have hi := h i (by simp)
    have his : ∀ j ∈ is, j.encodable = true := fun j hj => h j (by simp [hj])
    cases i with
    | push bs =>
      have : bs.length < 2 ^ 32 := by simpa [Instr.encodable] using hi
      simp only [encode, encodeInstr, List.append_assoc, List.map_cons, List.cons_append]
      rw [instructions_pushSlice _ _ this, ih his]
    | op b =>
      have : isPlainOp b = true := by simpa [Instr.encodable] using hi
      simp only [encode, encodeInstr, List.cons_append, List.nil_append, List.map_cons]
      rw [instructions_plainOp _ _ this, ih his]

theorem encode_append (xs ys : List Instr) : encode (xs ++ ys) = encode xs ++ encode ys := by
  induction xs with
  | nil => simp [encode]
  | cons x xs ih => simp [encode, ih]

/-- the iterator never yields more items than there are bytes (fuel form) -/
theorem instrFuel_length_le : ∀ (f : Nat) (bs : Bytes), (instrFuel f bs).length ≤ bs.length := by
  intro f
  induction f with
  | zero => intro bs; simp [instrFuel]
  | succ f ih =>
    intro bs
    cases bs with
    | nil => simp [instrFuel]
    | cons b rest =>
      have key : ∀ (n : Nat) (r : Bytes), r.length ≤ rest.length →
          (takeSlice n r (instrFuel f)).length ≤ rest.length + 1 := by
        intro n r hr
        unfold takeSlice
        split
        · have := ih (r.drop n)
          simp only [List.length_cons, List.length_drop] at this ⊢
          omega
        · simp
      simp only [instrFuel, List.length_cons]
      have k0 := key b.toNat rest (Nat.le_refl _)
      have k1 := key (leValue (rest.take 1)) (rest.drop 1) (by simp)
      have k2 := key (leValue (rest.take 2)) (rest.drop 2) (by simp)
      have k4 := key (leValue (rest.take 4)) (rest.drop 4) (by simp)
      have kr := ih rest
      split
      · exact k0
      · split
        · split
          · exact k1
          · simp
        · split
          · split
            · exact k2
            · simp
          · split
            · split
              · exact k4
              · simp
            · simp; exact kr

theorem instructions_length_le (bs : Bytes) : (instructions bs).length ≤ bs.length :=
  instrFuel_length_le _ bs

end Ord.ScriptW5
