import OrdModel.Wallet.BatchCommit
import OrdModel.Wallet.Builder
/-!
Helper lemmas for the commit-guard clause of C21 (`OrdModel/Wallet/BatchCommit.lean`), and the
bridge from the planner's wallet view to the builder model's `Wallet`
(`OrdModel/Wallet/Builder.lean`, C20): `create_batch_transactions` hands the very same maps and
sets (`wallet_inscriptions`, `utxos`, `locked_utxos`, `runic_utxos`) to `TransactionBuilder::new`.
-/
namespace Ord.BatchCommit

variable {α : Type} [DecidableEq α]

/-- what a completed run of the loop establishes -/
theorem guardLoop_ok (re : Bool) (s : α × Nat) :
    ∀ (l : List (α × Nat)) (r0 r : Bool), guardLoop re s l r0 = .ok r →
      (∀ sp ∈ l, sp.1 = s.1 → sp = s) ∧ (r = (r0 || decide (s ∈ l))) ∧ (s ∈ l → re = true) := by
  intro l
  induction l with
  | nil => intro r0 r h; simp [guardLoop] at h; simp [h]
  | cons a l ih =>
    intro r0 r h
    unfold guardLoop at h
    by_cases ha : a = s
    · rw [if_pos ha] at h
      cases re with
      | false => simp at h
      | true =>
        simp only [if_true] at h
        obtain ⟨h1, h2, _⟩ := ih true r h
        refine ⟨?_, ?_, fun _ => rfl⟩
        · intro sp hsp hop
          rcases List.mem_cons.1 hsp with rfl | hsp
          · exact ha
          · exact h1 sp hsp hop
        · simp [h2, ha]
    · rw [if_neg ha] at h
      by_cases hop : a.1 = s.1
      · rw [if_pos hop] at h; simp at h
      · rw [if_neg hop] at h
        obtain ⟨h1, h2, h3⟩ := ih r0 r h
        refine ⟨?_, ?_, ?_⟩
        · intro sp hsp hop'
          rcases List.mem_cons.1 hsp with rfl | hsp
          · exact absurd hop' hop
          · exact h1 sp hsp hop'
        · have : (s = a) = False := by simpa using fun h => ha h.symm
          simp [h2, List.mem_cons, this]
        · intro hs
          rcases List.mem_cons.1 hs with rfl | hs
          · exact absurd rfl ha
          · exact h3 hs

/-- decomposition of an accepting run of the guard -/
theorem commitGuard_ok {v : View α} {re : Bool} {ex : Option (α × Nat)} {s : α × Nat} {r : Bool}
    (h : commitGuard v re ex = .ok (s, r)) :
    selectSatpoint v ex = .ok s ∧ guardLoop re s v.inscriptions false = .ok r ∧
      (re = true → r = true) := by
  unfold commitGuard at h
  cases hs : selectSatpoint v ex with
  | error e => rw [hs] at h; simp at h
  | ok s' =>
    rw [hs] at h
    simp only at h
    cases hg : guardLoop re s' v.inscriptions false with
    | error e => rw [hg] at h; simp at h
    | ok r' =>
      rw [hg] at h
      simp only at h
      by_cases hc : (re && !r') = true
      · rw [if_pos hc] at h; simp at h
      · rw [if_neg hc] at h
        simp only [Except.ok.injEq, Prod.mk.injEq] at h
        obtain ⟨rfl, rfl⟩ := h
        refine ⟨rfl, hg, ?_⟩
        intro hre
        cases r' <;> simp_all

/-- an automatically selected satpoint is the first candidate of the utxo list -/
theorem selectSatpoint_auto {v : View α} {s : α × Nat} (h : selectSatpoint v none = .ok s) :
    ∃ u, v.utxos.find? (isCandidate v) = some u ∧ s = (u.op, 0) := by
  unfold selectSatpoint at h
  cases hf : v.utxos.find? (isCandidate v) with
  | none => rw [hf] at h; simp at h
  | some u =>
    rw [hf] at h
    simp only [Except.ok.injEq] at h
    exact ⟨u, rfl, h.symm⟩

theorem inscribedOutput_iff (ins : List (α × Nat)) (op : α) :
    inscribedOutput ins op = true ↔ ∃ sp ∈ ins, sp.1 = op := by
  simp [inscribedOutput, List.any_eq_true]

/-! ## the planner's view as the builder model's wallet state (outpoints = `Nat` ranks) -/

open Ord.Builder in
/-- `TransactionBuilder::new(satpoint, wallet_inscriptions, utxos.clone(), locked_utxos.clone(),
runic_utxos, …)`: the same maps and sets -/
def View.toBuilder (v : View Nat) : Ord.Builder.Wallet :=
  { amounts := v.utxos.map (fun u => (u.op, u.value))
    inscriptions := v.inscriptions
    locked := (v.utxos.filter (·.locked)).map (·.op)
    runic := (v.utxos.filter (·.runic)).map (·.op) }

theorem lookup_map_isSome (us : List (Utxo Nat)) (op : Nat) :
    ((us.map (fun u => (u.op, u.value))).lookup op).isSome = true → ∃ u ∈ us, u.op = op := by
  induction us with
  | nil => simp
  | cons a us ih =>
    intro h
    simp only [List.map_cons, List.lookup] at h
    by_cases hop : op = a.op
    · exact ⟨a, List.mem_cons_self, hop.symm⟩
    · have hb : (op == a.op) = false := by simpa using hop
      rw [hb] at h
      obtain ⟨u, hu, hu'⟩ := ih h
      exact ⟨u, List.mem_cons_of_mem _ hu, hu'⟩

open Ord.Builder in
/-- what the builder's `isCardinal` says about the planner's view -/
theorem isCardinal_toBuilder (v : View Nat) (op : Nat) (h : isCardinal v.toBuilder op = true) :
    inscribedOutput v.inscriptions op = false ∧
      ∀ u ∈ v.utxos, u.op = op → u.locked = false ∧ u.runic = false := by
  simp only [isCardinal, View.toBuilder, Bool.not_eq_true', Bool.or_eq_false_iff] at h
  obtain ⟨⟨hr, hi⟩, hl⟩ := h
  refine ⟨by simpa [inscribedOutput] using hi, ?_⟩
  intro u hu hop
  constructor
  · cases hlk : u.locked with
    | false => rfl
    | true =>
      exfalso
      have : op ∈ (v.utxos.filter (·.locked)).map (·.op) :=
        List.mem_map.2 ⟨u, List.mem_filter.2 ⟨hu, hlk⟩, hop⟩
      simp [this] at hl
  · cases hrk : u.runic with
    | false => rfl
    | true =>
      exfalso
      have : op ∈ (v.utxos.filter (·.runic)).map (·.op) :=
        List.mem_map.2 ⟨u, List.mem_filter.2 ⟨hu, hrk⟩, hop⟩
      simp [this] at hr

end Ord.BatchCommit
