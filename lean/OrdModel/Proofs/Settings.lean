import OrdModel.Settings
import OrdModel.Generated.SettingsOr
/-!
Helper lemmas for C36 (settings precedence).  The property statements are in
`OrdModel/Theorems/C36.lean`.  `G` abbreviates the namespace of the generated tables.
-/
namespace Ord.Settings

namespace G
export Ord.Generated.SettingsOr (F Ty Comb OptSrc Getter Dflt Src Ch fieldTypes orTable optionsTable
  envTable envKeysAreUpperFieldNames defaultsTable sourceOrder rpcPorts dataDirSuffix chainNames)
/-- `F.all` of the generated file -/
abbrev allF : List F := Ord.Generated.SettingsOr.F.all
end G

/-! ### model field ↔ generated field -/

def toG : Field → G.F
  | .bitcoinDataDir => .bitcoinDataDir | .bitcoinRpcLimit => .bitcoinRpcLimit
  | .bitcoinRpcPassword => .bitcoinRpcPassword | .bitcoinRpcUrl => .bitcoinRpcUrl
  | .bitcoinRpcUsername => .bitcoinRpcUsername | .chain => .chain
  | .commitInterval => .commitInterval | .config => .config | .configDir => .configDir
  | .cookieFile => .cookieFile | .dataDir => .dataDir | .heightLimit => .heightLimit
  | .hidden => .hidden | .httpPort => .httpPort | .index => .index
  | .indexAddresses => .indexAddresses | .indexCacheSize => .indexCacheSize
  | .indexRunes => .indexRunes | .indexSats => .indexSats
  | .indexTransactions => .indexTransactions | .integrationTest => .integrationTest
  | .maxSavepoints => .maxSavepoints | .noIndexInscriptions => .noIndexInscriptions
  | .savepointInterval => .savepointInterval | .serverPassword => .serverPassword
  | .serverUrl => .serverUrl | .serverUsername => .serverUsername

/-- a field added to (or removed from) the Rust struct makes this match non-exhaustive (or refer
to a missing constructor), so the theorem module stops compiling -/
def ofG : G.F → Field
  | .bitcoinDataDir => .bitcoinDataDir | .bitcoinRpcLimit => .bitcoinRpcLimit
  | .bitcoinRpcPassword => .bitcoinRpcPassword | .bitcoinRpcUrl => .bitcoinRpcUrl
  | .bitcoinRpcUsername => .bitcoinRpcUsername | .chain => .chain
  | .commitInterval => .commitInterval | .config => .config | .configDir => .configDir
  | .cookieFile => .cookieFile | .dataDir => .dataDir | .heightLimit => .heightLimit
  | .hidden => .hidden | .httpPort => .httpPort | .index => .index
  | .indexAddresses => .indexAddresses | .indexCacheSize => .indexCacheSize
  | .indexRunes => .indexRunes | .indexSats => .indexSats
  | .indexTransactions => .indexTransactions | .integrationTest => .integrationTest
  | .maxSavepoints => .maxSavepoints | .noIndexInscriptions => .noIndexInscriptions
  | .savepointInterval => .savepointInterval | .serverPassword => .serverPassword
  | .serverUrl => .serverUrl | .serverUsername => .serverUsername

def chToG : Chain → G.Ch
  | .mainnet => .mainnet | .regtest => .regtest | .signet => .signet
  | .testnet => .testnet | .testnet4 => .testnet4

/-- shape of a field according to its Rust type -/
def kindOfTy : G.Ty → Kind
  | .bool => .switch
  | .optIdSet => .set
  | _ => .opt

/-- the combinator `Settings::or` must use for a field of the given Rust type -/
def expectedComb : G.Ty → G.Comb
  | .bool => .boolOr
  | .optIdSet => .setUnion
  | _ => .optOr

/-- the `from_env` getter a field of the given Rust type must use (`String` and `PathBuf` differ
only in the conversion, which the model does not distinguish) -/
def expectedGetter : G.Ty → G.Getter
  | .optPath => .getPath | .optString => .getString | .optU16 => .getU16 | .optU32 => .getU32
  | .optUsize => .getUsize | .optChain => .getChain | .optIdSet => .getInscriptions | .bool => .getBool

def combOfG : G.Comb → Option Comb
  | .optOr => some .optOr | .boolOr => some .boolOr | .setUnion => some .setUnion | .other => none

/-- What a `from_env` getter closure yields for the raw value of its variable (`none` = the
`failed to parse environment variable` error). -/
def getterSem : G.Getter → Option String → Option FV
  | .getBool, v => some (.switch (match v with | some s => !s.isEmpty | none => false))
  | .getString, v => some (.opt (v.map .text))
  | .getPath, v => some (.opt (v.map .text))
  | .getChain, none => some (.opt none)
  | .getChain, some s => (Chain.fromStr s).map fun c => .opt (some (.chain c))
  | .getU16, none => some (.opt none)
  | .getU16, some s => (parseUnsigned 16 s).map fun n => .opt (some (.num n))
  | .getU32, none => some (.opt none)
  | .getU32, some s => (parseUnsigned 32 s).map fun n => .opt (some (.num n))
  | .getUsize, none => some (.opt none)
  | .getUsize, some s => (parseUnsigned 64 s).map fun n => .opt (some (.num n))
  | .getInscriptions, none => some (.set none)
  | .getInscriptions, some s => (parseInscriptionList s).map fun l => .set (some l)

/-! ### `or` -/

theorem map_or' {α β : Type} (g : α → β) (x y : Option α) :
    (x.or y).map g = (x.map g).or (y.map g) := by
  cases x <;> simp

theorem firstSome3 {α : Type} (a b c : Option α) : firstSome [a, b, c] = (a.or b).or c := by
  cases a <;> cases b <;> cases c <;> rfl

theorem or_get (a b : Settings) (f : Field) :
    (a.or b).get f = f.kind.comb.apply (a.get f) (b.get f) := by
  cases f <;> simp [Settings.or, Settings.get, Field.kind, Kind.comb, Comb.apply, map_or']

/-- shape of `get` by kind -/
theorem get_opt (s : Settings) (f : Field) (h : f.kind = .opt) : s.get f = .opt (s.getOpt f) := by
  cases f <;> simp_all [Field.kind, Settings.getOpt, Settings.get]

theorem get_switch (s : Settings) (f : Field) (h : f.kind = .switch) :
    s.get f = .switch (s.getSwitch f) := by
  cases f <;> simp_all [Field.kind, Settings.getSwitch, Settings.get]

theorem get_set (s : Settings) (f : Field) (h : f.kind = .set) : s.get f = .set s.hidden := by
  cases f <;> simp_all [Field.kind, Settings.get]

theorem getSet_hidden (s : Settings) : s.getSet .hidden = s.hidden.getD [] := by
  cases h : s.hidden <;> simp [Settings.getSet, Settings.get, h]

/-! ### injectivity of the payload wrappers -/

theorem map_text_inj {a b : Option String} (h : a.map Val.text = b.map Val.text) : a = b := by
  cases a <;> cases b <;> simp_all
theorem map_num_inj {a b : Option Nat} (h : a.map Val.num = b.map Val.num) : a = b := by
  cases a <;> cases b <;> simp_all
theorem map_chain_inj {a b : Option Chain} (h : a.map Val.chain = b.map Val.chain) : a = b := by
  cases a <;> cases b <;> simp_all

/-! ### `or_defaults` -/

theorem orDefaults_ok (p : Params) (s r : Settings) (h : s.orDefaults p = .ok r) :
    ∃ bdd dd0, resolveBitcoinDataDir p s = .ok bdd ∧ resolveDataDir p s = .ok dd0 ∧
      r = fillDefaults p s bdd dd0 := by
  unfold Settings.orDefaults at h
  cases hb : resolveBitcoinDataDir p s with
  | error e => simp [hb] at h
  | ok bdd =>
    cases hd : resolveDataDir p s with
    | error e => simp [hb, hd] at h
    | ok dd0 =>
      simp only [hb, hd, Except.ok.injEq] at h
      exact ⟨bdd, dd0, rfl, rfl, h.symm⟩

/-- the C36 predicate holds for every field of the result of `or_defaults` applied to the three
sources combined in precedence order -/
theorem orDefaults_fieldSpec (p : Params) (fl en cf r : Settings)
    (h : ((fl.or en).or cf).orDefaults p = .ok r) (f : Field) :
    fieldSpec p fl en cf r f = true := by
  obtain ⟨bdd, dd0, hb, hd, rfl⟩ := orDefaults_ok p _ r h
  cases f
  case bitcoinDataDir =>
    simp only [resolveBitcoinDataDir, Settings.or] at hb
    simp [fieldSpec, Field.kind, fillDefaults, Settings.getOpt, Settings.get, firstSome3, defaultOf, Settings.or]
    cases h1 : fl.bitcoinDataDir <;> cases h2 : en.bitcoinDataDir <;> cases h3 : cf.bitcoinDataDir <;>
      cases h4 : p.homeDir <;> simp_all
  case cookieFile =>
    simp [fieldSpec, Field.kind, fillDefaults, Settings.getOpt, Settings.get, firstSome3, defaultOf, Settings.or]
    cases fl.cookieFile <;> cases en.cookieFile <;> cases cf.cookieFile <;> simp
  case index =>
    simp [fieldSpec, Field.kind, fillDefaults, Settings.getOpt, Settings.get, firstSome3, defaultOf, Settings.or]
    cases fl.index <;> cases en.index <;> cases cf.index <;> simp
  case dataDir =>
    simp only [resolveDataDir, defaultDataDir, Settings.or] at hd
    simp [fieldSpec, Field.kind, fillDefaults, Settings.getOpt, Settings.get, firstSome3, Settings.or]
    cases h1 : fl.dataDir <;> cases h2 : en.dataDir <;> cases h3 : cf.dataDir <;>
      cases h4 : p.dataDir <;> simp_all
  case hidden =>
    simp [fieldSpec, Field.kind, fillDefaults, Settings.getSet, Settings.get, Settings.or]
    cases fl.hidden <;> cases en.hidden <;> cases cf.hidden <;> simp <;> grind
  all_goals
    simp [fieldSpec, Field.kind, fillDefaults, Settings.getOpt, Settings.getSwitch, Settings.get,
      firstSome3, defaultOf, Settings.or, map_or']

/-! ### `merge` -/

theorem firstSome4 {α : Type} (a b c d : Option α) :
    firstSome [a, b, c, d] = (a.or b).or (c.or d) := by
  cases a <;> cases b <;> cases c <;> cases d <;> rfl

theorem configSearchDir_ok (p : Params) (fl en : Settings) (dir : String)
    (h : configSearchDir p (fl.or en) = .ok dir) :
    match firstSome [fl.configDir, en.configDir, fl.dataDir, en.dataDir] with
    | some d => dir = d
    | none => defaultDataDir p = .ok dir := by
  unfold configSearchDir at h
  rw [firstSome4]
  simp only [Settings.or] at h
  cases hx : (fl.configDir.or en.configDir).or (fl.dataDir.or en.dataDir) with
  | none => simpa [hx] using h
  | some d => simp only [hx, Except.ok.injEq] at h; exact h.symm

theorem checkCredentials_ok (s r : Settings) (h : checkCredentials s = .ok r) : r = s := by
  unfold checkCredentials at h
  split at h
  · cases h
  · cases h
  · split at h
    · cases h
    · cases h
    · injection h with h; exact h.symm

theorem merge_ok (p : Params) (fs : FileSystem) (o : Options) (env : EnvMap) (r : Settings)
    (h : merge p fs o env = .ok r) :
    ∃ e path c, fromEnv env = .ok e ∧ configPath p fs ((fromOptions o).or e) = .ok path ∧
      loadConfig fs path = .ok c ∧ (((fromOptions o).or e).or c).orDefaults p = .ok r ∧
      checkCredentials r = .ok r := by
  unfold merge at h
  cases he : fromEnv env with
  | error x => simp [he] at h
  | ok e =>
    cases hp : configPath p fs ((fromOptions o).or e) with
    | error x => simp [he, hp] at h
    | ok path =>
      cases hc : loadConfig fs path with
      | error x => simp [he, hp, hc] at h
      | ok c =>
        cases hd : (((fromOptions o).or e).or c).orDefaults p with
        | error x => simp [he, hp, hc, hd] at h
        | ok r' =>
          simp only [he, hp, hc, hd] at h
          have hr := checkCredentials_ok _ _ h
          subst hr
          exact ⟨e, path, c, rfl, hp, hc, hd, h⟩

/-! ### `from_env` -/

theorem getParsed_ok {α : Type} (parse : String → Option α) (env : EnvMap) (key : String) (v : Option α)
    (h : getParsed parse env key = .ok v) :
    (env key = none ∧ v = none) ∨ (∃ s a, env key = some s ∧ parse s = some a ∧ v = some a) := by
  unfold getParsed at h
  cases hk : env key with
  | none => simp [hk] at h; simp [h]
  | some s =>
    simp only [hk] at h
    cases hp : parse s with
    | none => simp [hp] at h
    | some a => simp [hp] at h; exact Or.inr ⟨s, a, rfl, hp, h.symm⟩

theorem fromEnv_ok (env : EnvMap) (e : Settings) (h : fromEnv env = .ok e) (f : Field) :
    ∃ g, (G.envTable.lookup (toG f)) = some (g, f.envKey) ∧ getterSem g (env f.envKey) = some (e.get f) := by
  unfold fromEnv at h
  cases h1 : getParsed (parseUnsigned 32) env "BITCOIN_RPC_LIMIT" <;> simp only [h1] at h <;> try cases h
  cases h2 : getParsed Chain.fromStr env "CHAIN" <;> simp only [h2] at h <;> try cases h
  cases h3 : getParsed (parseUnsigned 64) env "COMMIT_INTERVAL" <;> simp only [h3] at h <;> try cases h
  cases h4 : getParsed (parseUnsigned 32) env "HEIGHT_LIMIT" <;> simp only [h4] at h <;> try cases h
  cases h5 : getParsed parseInscriptionList env "HIDDEN" <;> simp only [h5] at h <;> try cases h
  cases h6 : getParsed (parseUnsigned 16) env "HTTP_PORT" <;> simp only [h6] at h <;> try cases h
  cases h7 : getParsed (parseUnsigned 64) env "INDEX_CACHE_SIZE" <;> simp only [h7] at h <;> try cases h
  cases h8 : getParsed (parseUnsigned 64) env "MAX_SAVEPOINTS" <;> simp only [h8] at h <;> try cases h
  cases h9 : getParsed (parseUnsigned 64) env "SAVEPOINT_INTERVAL" <;> simp only [h9] at h <;> try cases h
  replace h1 := getParsed_ok _ _ _ _ h1
  replace h2 := getParsed_ok _ _ _ _ h2
  replace h3 := getParsed_ok _ _ _ _ h3
  replace h4 := getParsed_ok _ _ _ _ h4
  replace h5 := getParsed_ok _ _ _ _ h5
  replace h6 := getParsed_ok _ _ _ _ h6
  replace h7 := getParsed_ok _ _ _ _ h7
  replace h8 := getParsed_ok _ _ _ _ h8
  replace h9 := getParsed_ok _ _ _ _ h9
  cases f
  case bitcoinRpcLimit =>
    refine ⟨.getU32, by decide, ?_⟩
    rcases h1 with ⟨hk, rfl⟩ | ⟨s, a, hk, hp, rfl⟩
    · simp [getterSem, Field.envKey, Settings.get, hk]
    · simp [getterSem, Field.envKey, Settings.get, hk, hp]
  case chain =>
    refine ⟨.getChain, by decide, ?_⟩
    rcases h2 with ⟨hk, rfl⟩ | ⟨s, a, hk, hp, rfl⟩
    · simp [getterSem, Field.envKey, Settings.get, hk]
    · simp [getterSem, Field.envKey, Settings.get, hk, hp]
  case commitInterval =>
    refine ⟨.getUsize, by decide, ?_⟩
    rcases h3 with ⟨hk, rfl⟩ | ⟨s, a, hk, hp, rfl⟩
    · simp [getterSem, Field.envKey, Settings.get, hk]
    · simp [getterSem, Field.envKey, Settings.get, hk, hp]
  case heightLimit =>
    refine ⟨.getU32, by decide, ?_⟩
    rcases h4 with ⟨hk, rfl⟩ | ⟨s, a, hk, hp, rfl⟩
    · simp [getterSem, Field.envKey, Settings.get, hk]
    · simp [getterSem, Field.envKey, Settings.get, hk, hp]
  case hidden =>
    refine ⟨.getInscriptions, by decide, ?_⟩
    rcases h5 with ⟨hk, rfl⟩ | ⟨s, a, hk, hp, rfl⟩
    · simp [getterSem, Field.envKey, Settings.get, hk]
    · simp [getterSem, Field.envKey, Settings.get, hk, hp]
  case httpPort =>
    refine ⟨.getU16, by decide, ?_⟩
    rcases h6 with ⟨hk, rfl⟩ | ⟨s, a, hk, hp, rfl⟩
    · simp [getterSem, Field.envKey, Settings.get, hk]
    · simp [getterSem, Field.envKey, Settings.get, hk, hp]
  case indexCacheSize =>
    refine ⟨.getUsize, by decide, ?_⟩
    rcases h7 with ⟨hk, rfl⟩ | ⟨s, a, hk, hp, rfl⟩
    · simp [getterSem, Field.envKey, Settings.get, hk]
    · simp [getterSem, Field.envKey, Settings.get, hk, hp]
  case maxSavepoints =>
    refine ⟨.getUsize, by decide, ?_⟩
    rcases h8 with ⟨hk, rfl⟩ | ⟨s, a, hk, hp, rfl⟩
    · simp [getterSem, Field.envKey, Settings.get, hk]
    · simp [getterSem, Field.envKey, Settings.get, hk, hp]
  case savepointInterval =>
    refine ⟨.getUsize, by decide, ?_⟩
    rcases h9 with ⟨hk, rfl⟩ | ⟨s, a, hk, hp, rfl⟩
    · simp [getterSem, Field.envKey, Settings.get, hk]
    · simp [getterSem, Field.envKey, Settings.get, hk, hp]
  case indexAddresses =>
    refine ⟨.getBool, by decide, ?_⟩
    simp only [getterSem, Field.envKey, Settings.get, getBool]
    cases env _ <;> rfl
  case indexRunes =>
    refine ⟨.getBool, by decide, ?_⟩
    simp only [getterSem, Field.envKey, Settings.get, getBool]
    cases env _ <;> rfl
  case indexSats =>
    refine ⟨.getBool, by decide, ?_⟩
    simp only [getterSem, Field.envKey, Settings.get, getBool]
    cases env _ <;> rfl
  case indexTransactions =>
    refine ⟨.getBool, by decide, ?_⟩
    simp only [getterSem, Field.envKey, Settings.get, getBool]
    cases env _ <;> rfl
  case integrationTest =>
    refine ⟨.getBool, by decide, ?_⟩
    simp only [getterSem, Field.envKey, Settings.get, getBool]
    cases env _ <;> rfl
  case noIndexInscriptions =>
    refine ⟨.getBool, by decide, ?_⟩
    simp only [getterSem, Field.envKey, Settings.get, getBool]
    cases env _ <;> rfl
  case bitcoinDataDir => exact ⟨.getPath, by decide, by simp [getterSem, Field.envKey, Settings.get]⟩
  case config => exact ⟨.getPath, by decide, by simp [getterSem, Field.envKey, Settings.get]⟩
  case configDir => exact ⟨.getPath, by decide, by simp [getterSem, Field.envKey, Settings.get]⟩
  case cookieFile => exact ⟨.getPath, by decide, by simp [getterSem, Field.envKey, Settings.get]⟩
  case dataDir => exact ⟨.getPath, by decide, by simp [getterSem, Field.envKey, Settings.get]⟩
  case index => exact ⟨.getPath, by decide, by simp [getterSem, Field.envKey, Settings.get]⟩
  all_goals exact ⟨.getString, by decide, by simp [getterSem, Field.envKey, Settings.get]⟩

theorem getParsed_error {α : Type} (parse : String → Option α) (env : EnvMap) (key : String) (x : Err)
    (h : getParsed parse env key = .error x) :
    x = .envParse key ∧ ∃ s, env key = some s ∧ parse s = none := by
  unfold getParsed at h
  cases hk : env key with
  | none => simp [hk] at h
  | some s =>
    simp only [hk] at h
    cases hp : parse s with
    | none => simp [hp] at h; exact ⟨h.symm, s, rfl, hp⟩
    | some a => simp [hp] at h

/-- the converse: `from_env` fails exactly on a field whose variable does not parse, and names it -/
theorem fromEnv_error (env : EnvMap) (err : Err) (h : fromEnv env = .error err) :
    ∃ f g, G.envTable.lookup (toG f) = some (g, f.envKey) ∧ err = .envParse f.envKey ∧
      getterSem g (env f.envKey) = none := by
  unfold fromEnv at h
  cases h1 : getParsed (parseUnsigned 32) env "BITCOIN_RPC_LIMIT" with
  | error x =>
    simp only [h1] at h; cases h
    obtain ⟨rfl, s, hk, hp⟩ := getParsed_error _ _ _ _ h1
    exact ⟨.bitcoinRpcLimit, .getU32, by decide, rfl, by simp [getterSem, Field.envKey, hk, hp]⟩
  | ok v1 =>
  simp only [h1] at h
  cases h2 : getParsed Chain.fromStr env "CHAIN" with
  | error x =>
    simp only [h2] at h; cases h
    obtain ⟨rfl, s, hk, hp⟩ := getParsed_error _ _ _ _ h2
    exact ⟨.chain, .getChain, by decide, rfl, by simp [getterSem, Field.envKey, hk, hp]⟩
  | ok v2 =>
  simp only [h2] at h
  cases h3 : getParsed (parseUnsigned 64) env "COMMIT_INTERVAL" with
  | error x =>
    simp only [h3] at h; cases h
    obtain ⟨rfl, s, hk, hp⟩ := getParsed_error _ _ _ _ h3
    exact ⟨.commitInterval, .getUsize, by decide, rfl, by simp [getterSem, Field.envKey, hk, hp]⟩
  | ok v3 =>
  simp only [h3] at h
  cases h4 : getParsed (parseUnsigned 32) env "HEIGHT_LIMIT" with
  | error x =>
    simp only [h4] at h; cases h
    obtain ⟨rfl, s, hk, hp⟩ := getParsed_error _ _ _ _ h4
    exact ⟨.heightLimit, .getU32, by decide, rfl, by simp [getterSem, Field.envKey, hk, hp]⟩
  | ok v4 =>
  simp only [h4] at h
  cases h5 : getParsed parseInscriptionList env "HIDDEN" with
  | error x =>
    simp only [h5] at h; cases h
    obtain ⟨rfl, s, hk, hp⟩ := getParsed_error _ _ _ _ h5
    exact ⟨.hidden, .getInscriptions, by decide, rfl, by simp [getterSem, Field.envKey, hk, hp]⟩
  | ok v5 =>
  simp only [h5] at h
  cases h6 : getParsed (parseUnsigned 16) env "HTTP_PORT" with
  | error x =>
    simp only [h6] at h; cases h
    obtain ⟨rfl, s, hk, hp⟩ := getParsed_error _ _ _ _ h6
    exact ⟨.httpPort, .getU16, by decide, rfl, by simp [getterSem, Field.envKey, hk, hp]⟩
  | ok v6 =>
  simp only [h6] at h
  cases h7 : getParsed (parseUnsigned 64) env "INDEX_CACHE_SIZE" with
  | error x =>
    simp only [h7] at h; cases h
    obtain ⟨rfl, s, hk, hp⟩ := getParsed_error _ _ _ _ h7
    exact ⟨.indexCacheSize, .getUsize, by decide, rfl, by simp [getterSem, Field.envKey, hk, hp]⟩
  | ok v7 =>
  simp only [h7] at h
  cases h8 : getParsed (parseUnsigned 64) env "MAX_SAVEPOINTS" with
  | error x =>
    simp only [h8] at h; cases h
    obtain ⟨rfl, s, hk, hp⟩ := getParsed_error _ _ _ _ h8
    exact ⟨.maxSavepoints, .getUsize, by decide, rfl, by simp [getterSem, Field.envKey, hk, hp]⟩
  | ok v8 =>
  simp only [h8] at h
  cases h9 : getParsed (parseUnsigned 64) env "SAVEPOINT_INTERVAL" with
  | error x =>
    simp only [h9] at h; cases h
    obtain ⟨rfl, s, hk, hp⟩ := getParsed_error _ _ _ _ h9
    exact ⟨.savepointInterval, .getUsize, by decide, rfl, by simp [getterSem, Field.envKey, hk, hp]⟩
  | ok v9 => simp [h9] at h

/-! ### `load` -/

theorem stripOrd_iff (name key : String) : stripOrd name = some key ↔ name = "ORD_" ++ key := by
  unfold stripOrd
  constructor
  · intro h
    split at h
    · rename_i rest hl
      injection h with h
      subst h
      apply String.toList_inj.mp
      simp [hl, String.toList_append]
    · cases h
  · intro h
    subst h
    simp [String.toList_append]

theorem loadEnv_eq (vars : List (String × String)) (key : String) :
    loadEnv vars key = (vars.reverse.find? (fun kv => decide (kv.1 = "ORD_" ++ key))).map (·.2) := by
  unfold loadEnv
  congr 2
  funext kv
  rw [Bool.eq_iff_iff]
  simp [stripOrd_iff]

end Ord.Settings
