import OrdModel.Proofs.EnvelopeParse
/-! `parse` (= `ParsedEnvelope::from(RawEnvelope)`) described field by field for an arbitrary
payload. -/
namespace Ord.Envelope
open Ord Ord.ScriptW5

/-- the ten `Tag::take` calls in the order of the code -/
structure Taken where
  contentEncoding : Option Bytes
  contentType : Option Bytes
  delegate : Option Bytes
  metadata : Option Bytes
  metaprotocol : Option Bytes
  parents : List Bytes
  pointer : Option Bytes
  properties : Option Bytes
  propertyEncoding : Option Bytes
  rune : Option Bytes
  rest : FieldMap

def takeAll (m0 : FieldMap) : Taken :=
  let t1 := take tagContentEncoding m0
  let t2 := take tagContentType t1.2
  let t3 := take tagDelegate t2.2
  let t4 := take tagMetadata t3.2
  let t5 := take tagMetaprotocol t4.2
  let t6 := takeArray tagParent t5.2
  let t7 := take tagPointer t6.2
  let t8 := take tagProperties t7.2
  let t9 := take tagPropertyEncoding t8.2
  let t10 := take tagRune t9.2
  { contentEncoding := t1.1, contentType := t2.1, delegate := t3.1, metadata := t4.1,
    metaprotocol := t5.1, parents := t6.1, pointer := t7.1, properties := t8.1,
    propertyEncoding := t9.1, rune := t10.1, rest := t10.2 }

def evenKey (k : Bytes) : Bool :=
  match k.head? with
  | some lsb => lsb.toNat % 2 = 0
  | none => false

/-- the part of the payload that holds the tag/value pairs -/
def fieldPart (payload : List Bytes) : List Bytes :=
  payload.take ((bodyPos 0 payload).getD payload.length)

def bodyOf (payload : List Bytes) : Option Bytes :=
  (bodyPos 0 payload).map (fun i => (payload.drop (i + 1)).flatten)

/-- `parse` with the tuple patterns replaced by projections -/
theorem parse_eq (e : Raw) :
    parse e =
      let cf := collectFields (fieldPart e.payload) []
      let T := takeAll cf.1
      .ok {
        input := e.input, offset := e.offset, pushnum := e.pushnum, stutter := e.stutter,
        payload := {
          body := bodyOf e.payload
          contentEncoding := T.contentEncoding, contentType := T.contentType,
          delegate := T.delegate
          duplicateField := cf.1.any (fun kv => decide (kv.2.length > 1))
          incompleteField := cf.2
          metadata := T.metadata, metaprotocol := T.metaprotocol, parents := T.parents,
          pointer := T.pointer, properties := T.properties,
          propertyEncoding := T.propertyEncoding, rune := T.rune
          unrecognizedEvenField := T.rest.any (fun kv => evenKey kv.1) } } := by
  unfold parse
  cases hb : bodyPos 0 e.payload with
  | none =>
    simp [fieldPart, bodyOf, hb, takeAll]
    rfl
  | some i =>
    have := bodyPos_bounds e.payload 0 i hb
    have h1 : i ≤ e.payload.length := by omega
    have h2 : i + 1 ≤ e.payload.length := by omega
    simp [fieldPart, bodyOf, hb, takeAll, h1, h2]
    rfl

/-- the value `parse` returns, as a term -/
def parsedOf (e : Raw) : Parsed :=
  { input := e.input, offset := e.offset, pushnum := e.pushnum, stutter := e.stutter,
    payload := {
      body := bodyOf e.payload
      contentEncoding := (takeAll (collectFields (fieldPart e.payload) []).1).contentEncoding
      contentType := (takeAll (collectFields (fieldPart e.payload) []).1).contentType
      delegate := (takeAll (collectFields (fieldPart e.payload) []).1).delegate
      duplicateField := (collectFields (fieldPart e.payload) []).1.any (fun kv => decide (kv.2.length > 1))
      incompleteField := (collectFields (fieldPart e.payload) []).2
      metadata := (takeAll (collectFields (fieldPart e.payload) []).1).metadata
      metaprotocol := (takeAll (collectFields (fieldPart e.payload) []).1).metaprotocol
      parents := (takeAll (collectFields (fieldPart e.payload) []).1).parents
      pointer := (takeAll (collectFields (fieldPart e.payload) []).1).pointer
      properties := (takeAll (collectFields (fieldPart e.payload) []).1).properties
      propertyEncoding := (takeAll (collectFields (fieldPart e.payload) []).1).propertyEncoding
      rune := (takeAll (collectFields (fieldPart e.payload) []).1).rune
      unrecognizedEvenField :=
        (takeAll (collectFields (fieldPart e.payload) []).1).rest.any (fun kv => evenKey kv.1) } }

theorem parse_eq' (e : Raw) : parse e = .ok (parsedOf e) := parse_eq e

/-- what is left under key `k` after the ten takes, as a function of the initial values `v` -/
def remaining (v : Bytes → List Bytes) (k : Bytes) : List Bytes :=
  if k = [tagRune] then (v [tagRune]).tail
  else if k = [tagPropertyEncoding] then (v [tagPropertyEncoding]).tail
  else if k = [tagProperties] then []
  else if k = [tagPointer] then (v [tagPointer]).tail
  else if k = [tagParent] then []
  else if k = [tagMetaprotocol] then (v [tagMetaprotocol]).tail
  else if k = [tagMetadata] then []
  else if k = [tagDelegate] then (v [tagDelegate]).tail
  else if k = [tagContentType] then (v [tagContentType]).tail
  else if k = [tagContentEncoding] then (v [tagContentEncoding]).tail
  else v k

def joinOpt (vs : List Bytes) : Option Bytes := if vs = [] then none else some vs.flatten

theorem takeAll_spec (m0 : FieldMap) (hm : WF m0) :
    let T := takeAll m0
    T.contentEncoding = (vals m0 [tagContentEncoding]).head? ∧
    T.contentType = (vals m0 [tagContentType]).head? ∧
    T.delegate = (vals m0 [tagDelegate]).head? ∧
    T.metadata = joinOpt (vals m0 [tagMetadata]) ∧
    T.metaprotocol = (vals m0 [tagMetaprotocol]).head? ∧
    T.parents = vals m0 [tagParent] ∧
    T.pointer = (vals m0 [tagPointer]).head? ∧
    T.properties = joinOpt (vals m0 [tagProperties]) ∧
    T.propertyEncoding = (vals m0 [tagPropertyEncoding]).head? ∧
    T.rune = (vals m0 [tagRune]).head? ∧
    WF T.rest ∧ ∀ k, vals T.rest k = remaining (vals m0) k := by
  obtain ⟨a1, w1, v1⟩ := take_plain tagContentEncoding (by decide) m0 hm
  obtain ⟨a2, w2, v2⟩ := take_plain tagContentType (by decide) _ w1
  obtain ⟨a3, w3, v3⟩ := take_plain tagDelegate (by decide) _ w2
  obtain ⟨a4, w4, v4⟩ := take_chunked tagMetadata (by decide) _ w3
  obtain ⟨a5, w5, v5⟩ := take_plain tagMetaprotocol (by decide) _ w4
  obtain ⟨a6, w6, v6⟩ := takeArray_spec tagParent _ w5
  obtain ⟨a7, w7, v7⟩ := take_plain tagPointer (by decide) _ w6
  obtain ⟨a8, w8, v8⟩ := take_chunked tagProperties (by decide) _ w7
  obtain ⟨a9, w9, v9⟩ := take_plain tagPropertyEncoding (by decide) _ w8
  obtain ⟨a10, w10, v10⟩ := take_plain tagRune (by decide) _ w9
  have ne : ∀ (a b : UInt8), a ≠ b → ([a] : Bytes) ≠ [b] := by
    intro a b h e; exact h (by simpa using e)
  simp only [takeAll]
  refine ⟨a1, ?_, ?_, ?_, ?_, ?_, ?_, ?_, ?_, ?_, w10, ?_⟩
  · rw [a2]; simp only [v1]; simp [ne tagContentType tagContentEncoding (by decide)]
  · rw [a3]; simp only [v2, v1]
    simp [ne tagDelegate tagContentType (by decide), ne tagDelegate tagContentEncoding (by decide)]
  · rw [a4]; simp only [v3, v2, v1]
    simp [joinOpt, ne tagMetadata tagDelegate (by decide), ne tagMetadata tagContentType (by decide),
      ne tagMetadata tagContentEncoding (by decide)]
  · rw [a5]; simp only [v4, v3, v2, v1]
    simp [ne tagMetaprotocol tagMetadata (by decide), ne tagMetaprotocol tagDelegate (by decide),
      ne tagMetaprotocol tagContentType (by decide), ne tagMetaprotocol tagContentEncoding (by decide)]
  · rw [a6]; simp only [v5, v4, v3, v2, v1]
    simp [ne tagParent tagMetaprotocol (by decide), ne tagParent tagMetadata (by decide),
      ne tagParent tagDelegate (by decide), ne tagParent tagContentType (by decide),
      ne tagParent tagContentEncoding (by decide)]
  · rw [a7]; simp only [v6, v5, v4, v3, v2, v1]
    simp [ne tagPointer tagParent (by decide), ne tagPointer tagMetaprotocol (by decide),
      ne tagPointer tagMetadata (by decide), ne tagPointer tagDelegate (by decide),
      ne tagPointer tagContentType (by decide), ne tagPointer tagContentEncoding (by decide)]
  · rw [a8]; simp only [v7, v6, v5, v4, v3, v2, v1]
    simp [joinOpt, ne tagProperties tagPointer (by decide), ne tagProperties tagParent (by decide),
      ne tagProperties tagMetaprotocol (by decide), ne tagProperties tagMetadata (by decide),
      ne tagProperties tagDelegate (by decide), ne tagProperties tagContentType (by decide),
      ne tagProperties tagContentEncoding (by decide)]
  · rw [a9]; simp only [v8, v7, v6, v5, v4, v3, v2, v1]
    simp [ne tagPropertyEncoding tagProperties (by decide),
      ne tagPropertyEncoding tagPointer (by decide), ne tagPropertyEncoding tagParent (by decide),
      ne tagPropertyEncoding tagMetaprotocol (by decide), ne tagPropertyEncoding tagMetadata (by decide),
      ne tagPropertyEncoding tagDelegate (by decide), ne tagPropertyEncoding tagContentType (by decide),
      ne tagPropertyEncoding tagContentEncoding (by decide)]
  · rw [a10]; simp only [v9, v8, v7, v6, v5, v4, v3, v2, v1]
    simp [ne tagRune tagPropertyEncoding (by decide), ne tagRune tagProperties (by decide),
      ne tagRune tagPointer (by decide), ne tagRune tagParent (by decide),
      ne tagRune tagMetaprotocol (by decide), ne tagRune tagMetadata (by decide),
      ne tagRune tagDelegate (by decide), ne tagRune tagContentType (by decide),
      ne tagRune tagContentEncoding (by decide)]
  · intro k
    simp only [v10, v9, v8, v7, v6, v5, v4, v3, v2, v1]
    simp [remaining,
      ne tagRune tagPropertyEncoding (by decide), ne tagRune tagProperties (by decide),
      ne tagRune tagPointer (by decide), ne tagRune tagParent (by decide),
      ne tagRune tagMetaprotocol (by decide), ne tagRune tagMetadata (by decide),
      ne tagRune tagDelegate (by decide), ne tagRune tagContentType (by decide),
      ne tagRune tagContentEncoding (by decide),
      ne tagPropertyEncoding tagProperties (by decide),
      ne tagPropertyEncoding tagPointer (by decide), ne tagPropertyEncoding tagParent (by decide),
      ne tagPropertyEncoding tagMetaprotocol (by decide), ne tagPropertyEncoding tagMetadata (by decide),
      ne tagPropertyEncoding tagDelegate (by decide), ne tagPropertyEncoding tagContentType (by decide),
      ne tagPropertyEncoding tagContentEncoding (by decide),
      ne tagPointer tagParent (by decide), ne tagPointer tagMetaprotocol (by decide),
      ne tagPointer tagMetadata (by decide), ne tagPointer tagDelegate (by decide),
      ne tagPointer tagContentType (by decide), ne tagPointer tagContentEncoding (by decide),
      ne tagMetaprotocol tagMetadata (by decide), ne tagMetaprotocol tagDelegate (by decide),
      ne tagMetaprotocol tagContentType (by decide), ne tagMetaprotocol tagContentEncoding (by decide),
      ne tagDelegate tagContentType (by decide), ne tagDelegate tagContentEncoding (by decide),
      ne tagContentType tagContentEncoding (by decide)]

end Ord.Envelope
