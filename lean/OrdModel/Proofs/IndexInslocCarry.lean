import OrdModel.Proofs.IndexInslocScan
namespace Ord.Index.Insloc
open Ord Ord.Index Outcome

/-- C03 fee carry (non-coinbase transaction): what is not placed on an output is saved for the
coinbase at offset `reward + offset − Σ outputs`, behind everything saved before, and the reward
grows by this transaction's fee. -/
theorem placeTx_carry (cfg : Cfg) (height time : Nat) (tx : Tx) (rs : Option (List (Nat × Nat)))
    (totalIn : Nat) (floating : List Flotsam) (st1 : State) (ls ls' : LocState)
    (h : placeTx cfg height time tx rs false totalIn floating st1 ls = .ok ls') :
    let r := assignOutputs tx.txid tx.outputs 0 0 (sortByKey (·.offset) floating) []
    r.2.2 = (tx.outputs.map (·.value)).sum ∧ r.2.2 ≤ totalIn ∧
    ls'.ctx.flotsam = ls.ctx.flotsam ++
      r.2.1.map (fun f => { f with offset := ls.ctx.reward + f.offset - r.2.2 }) ∧
    ls'.ctx.reward = ls.ctx.reward + (totalIn - r.2.2) ∧
    ls'.ctx.lostSats = ls.ctx.lostSats ∧
    (∀ f ∈ r.2.1, r.2.2 ≤ f.offset) := by
  simp only [placeTx, Bool.false_eq_true, ↓reduceIte] at h
  split at h
  · simp at h
  · simp at h
  · next ls2 h2 =>
    split at h
    · simp at h
    · next hge =>
      simp only [ok.injEq] at h; subst h
      obtain ⟨_, _, _, _, _, _, f2, r2, c2⟩ := (applyLocations_steps _ _ _ _ _ _ _ h2).conserve
      obtain ⟨_, hv⟩ := assignOutputs_conserve tx.txid tx.outputs 0 0 (sortByKey (·.offset) floating) []
      obtain ⟨_, hrest⟩ := assignOutputs_place tx.txid tx.outputs 0 0 (sortByKey (·.offset) floating) []
        (sortByKey_sorted _ _) (fun _ _ => Nat.zero_le _)
      simp only at f2 r2 c2
      refine ⟨by simpa using hv, by omega, ?_, ?_, c2, ?_⟩
      · simp only; rw [f2, r2]
      · simp only; rw [r2]
      · intro f hf
        have := (hrest f hf).2
        rw [hv]; simpa using this

/-- C03 lost sats (coinbase): the block's lost-sat counter grows by what the coinbase leaves
unclaimed, and nothing stays saved. -/
theorem placeTx_coinbase (cfg : Cfg) (height time : Nat) (tx : Tx) (rs : Option (List (Nat × Nat)))
    (totalIn : Nat) (floating : List Flotsam) (st1 : State) (ls ls' : LocState)
    (h : placeTx cfg height time tx rs true totalIn floating st1 ls = .ok ls') :
    let out := (tx.outputs.map (·.value)).sum
    out ≤ ls.ctx.reward ∧ ls'.ctx.lostSats = ls.ctx.lostSats + (ls.ctx.reward - out) ∧
    ls'.ctx.reward = ls.ctx.reward ∧ ls'.ctx.flotsam = [] := by
  simp only [placeTx, ↓reduceIte] at h
  split at h
  · simp at h
  · simp at h
  · next ls2 h2 =>
    split at h
    · simp at h
    · simp at h
    · next ls3 h3 =>
      split at h
      · simp at h
      · next hge =>
        simp only [ok.injEq] at h; subst h
        obtain ⟨_, _, _, _, _, _, f2, r2, c2⟩ := (applyLocations_steps _ _ _ _ _ _ _ h2).conserve
        obtain ⟨_, _, _, _, _, _, f3, r3, c3⟩ := (applyLost_steps _ _ _ _ _ _ _ _ h3).conserve
        obtain ⟨_, hv⟩ := assignOutputs_conserve tx.txid tx.outputs 0 0
          (sortByKey (·.offset) (floating ++ ls.ctx.flotsam)) []
        simp only at f2 r2 c2
        simp only [Nat.zero_add] at hv
        rw [hv] at hge
        rw [r3, r2] at hge
        refine ⟨by omega, ?_, ?_, ?_⟩
        · simp only; rw [c3, c2, r3, r2, hv]
        · simp only; rw [r3, r2]
        · simp only; rw [f3, f2]

end Ord.Index.Insloc
