import OrdModel.Proofs.IndexLiftSatBipChain
/-
Sat-side lift, part 7 (C02, exact partition): on chains without duplicate txids nothing is ever
displaced, so the ordinals held by the table are not only pairwise distinct and mined but ALL of
`0 … startingSat height - 1` (`SatsPartitionedExact`).

Provenance: every table key is special or has the txid of an earlier transaction of the chain
(`TblProv`), every cache key the txid of an earlier transaction of the block; with distinct
txids a created outpoint is in neither, so `AL.set` appends (`AL_get_none_set`) and the pool
(table ++ cache ++ coinbase inputs ++ lost ranges) is permuted exactly.
-/
namespace Ord.Index
open Outcome Ord.Index.Sched

/-- every key of the table is a special outpoint or was created by a transaction in `seen` -/
def TblProv (seen : List Txid) (tbl : List (OutPoint × UtxoEntry)) : Prop :=
  ∀ op, AL.get tbl op ≠ none → op.isSpecial = true ∨ op.txid ∈ seen

theorem get_erase_ne_none {κ ν : Type} [BEq κ] [LawfulBEq κ] (l : List (κ × ν)) (k op : κ)
    (h : AL.get (AL.erase l k) op ≠ none) : AL.get l op ≠ none := by
  intro hcon
  apply h
  rw [AL.get_eq_none_iff] at hcon ⊢
  exact fun hm => hcon (AL.keys_erase_subset _ _ _ hm)

theorem takeInputEntries_mono (cfg : Cfg) (ins : List TxIn) (bc : BlockCtx) (acc : List (TxIn × UtxoEntry))
    (bc' : BlockCtx) (acc' : List (TxIn × UtxoEntry))
    (h : takeInputEntries cfg ins bc acc = .ok (bc', acc')) :
    (∀ op, AL.get bc'.cache op ≠ none → AL.get bc.cache op ≠ none) ∧
    (∀ op, AL.get bc'.st.utxo op ≠ none → AL.get bc.st.utxo op ≠ none) := by
  induction ins generalizing bc acc with
  | nil =>
    simp only [takeInputEntries, Outcome.ok.injEq, Prod.mk.injEq] at h
    obtain ⟨rfl, rfl⟩ := h
    exact ⟨fun _ h => h, fun _ h => h⟩
  | cons i rest ih =>
    rw [takeInputEntries_cons] at h
    split at h
    · rename_i bc1 e h1
      obtain ⟨hc, ht⟩ := ih bc1 _ h
      rcases takeOne_cases cfg bc i bc1 e h1 with ⟨-, hc1, ht1⟩ | ⟨-, -, hc1, ht1⟩
      · refine ⟨fun op hop => ?_, fun op hop => ?_⟩
        · have := hc op hop; rw [hc1] at this; exact get_erase_ne_none _ _ _ this
        · have := ht op hop; rw [ht1] at this; exact this
      · refine ⟨fun op hop => ?_, fun op hop => ?_⟩
        · have := hc op hop; rw [hc1] at this; exact this
        · have := ht op hop; rw [ht1] at this; exact get_erase_ne_none _ _ _ this
    · cases h
    · cases h

/-! ### no displacement -/

theorem fold_set_fresh (txid : Txid) (outs : List UtxoEntry) (n : Nat) (c : Cache)
    (hf : ∀ k, n ≤ k → AL.get c ⟨txid, k⟩ = none) :
    allRanges ((enumFrom n outs).foldl (fun c (p : Nat × UtxoEntry) => AL.set c ⟨txid, p.1⟩ p.2) c) =
      allRanges c ++ outs.flatMap (·.ranges) := by
  induction outs generalizing n c with
  | nil => simp [enumFrom]
  | cons o outs ih =>
    simp only [enumFrom, List.foldl_cons, List.flatMap_cons]
    rw [ih (n + 1)]
    · rw [AL_get_none_set (hf n (Nat.le_refl _))]
      simp [allRanges_append, allRanges_cons, allRanges_nil]
    · intro k hk
      rw [AL.get_set_ne]
      · exact hf k (by omega)
      · intro heq
        have := congrArg OutPoint.vout heq
        simp at this
        omega

theorem cacheIns_fresh (txid : Txid) (outs : List UtxoEntry) (c : Cache)
    (hf : ∀ k, AL.get c ⟨txid, k⟩ = none) :
    allRanges (cacheIns txid outs c) = allRanges c ++ outs.flatMap (·.ranges) :=
  fold_set_fresh txid outs 0 c (fun k _ => hf k)

/-- flushing a cache whose non-special keys are not in the table (and pairwise distinct) only
adds ranges -/
theorem flushCache_exact (cfg : Cfg) (c : Cache) (st : State) (hn : (AL.keys c).Nodup)
    (hf : ∀ op, AL.get c op ≠ none → op.isSpecial = false → AL.get st.utxo op = none) :
    (allRanges (flushCache cfg st c).utxo).Perm (allRanges st.utxo ++ allRanges c) := by
  induction c generalizing st with
  | nil => simp [flushCache, allRanges_nil]
  | cons p c ih =>
    obtain ⟨op, e⟩ := p
    simp only [AL.keys_cons, List.nodup_cons] at hn
    rw [flushCache_cons]
    have h1 : (allRanges (flushEntry cfg st op e).utxo).Perm (allRanges st.utxo ++ e.ranges) := by
      rw [flushEntry_utxo]
      by_cases hsp : op.isSpecial = true
      · cases hg : AL.get st.utxo op with
        | none =>
          have : eff st.utxo op e = e := by unfold eff; rw [if_pos hsp, hg]
          rw [this, AL_get_none_set hg]
          simp [allRanges_append, allRanges_cons, allRanges_nil]
        | some old =>
          have : eff st.utxo op e = UtxoEntry.merged old e := by unfold eff; rw [if_pos hsp, hg]
          rw [this]
          exact allRanges_set_merged hg e.ranges (by simp [UtxoEntry.merged])
      · have hsp' : op.isSpecial = false := by simpa using hsp
        have hg := hf op (by simp [AL.get]) hsp'
        rw [eff_nonspecial e hsp', AL_get_none_set hg]
        simp [allRanges_append, allRanges_cons, allRanges_nil]
    have h2 := ih (flushEntry cfg st op e) hn.2 (by
      intro op' hop' hsp'
      have hne : op ≠ op' := by
        intro heq; subst heq
        exact hop' ((AL.get_eq_none_iff _ _).2 hn.1)
      rw [flushEntry_utxo, AL.get_set_ne _ _ hne]
      apply hf op' _ hsp'
      simp only [AL.get]
      have : (op == op') = false := by simpa using hne
      simpa [this] using hop')
    refine h2.trans (perm_of_counts fun x => ?_)
    have := h1.count_eq x
    simp only [allRanges_cons, List.count_append] at this ⊢
    omega

/-! ### one transaction, exactly -/

/-- a transaction with a txid not yet in the cache permutes the pool exactly -/
theorem indexTx_exact (cfg : Cfg) (hs : cfg.indexSats = true) (blk : Block) (insOn : Bool) (off : Nat)
    (tx : Tx) (bc bc' : BlockCtx) (S : List Txid)
    (hp : ∀ op, AL.get bc.cache op ≠ none → op.txid ∈ S) (hfresh : tx.txid ∉ S)
    (h : indexTx cfg blk insOn off tx bc = .ok bc') :
    (den (if off = 0 then poolR' bc' else poolR bc')).Perm (den (poolR bc)) ∧
    (∀ op, AL.get bc'.cache op ≠ none → op.txid ∈ tx.txid :: S) ∧
    (∀ op, AL.get bc'.st.utxo op ≠ none → AL.get bc.st.utxo op ≠ none) := by
  have eff := indexTx_satEff cfg hs blk insOn off tx bc bc' h
  obtain ⟨bc1, inputs, outs, r, htake, hr, houts, hcache, hutxo, -, hcbi, hlost⟩ := eff.ex
  obtain ⟨-, hden, -⟩ := indexTransactionSats_facts _ _ r hr
  by_cases hoff : off = 0
  · subst hoff
    simp only [if_true] at htake hr hcbi hlost hden ⊢
    obtain ⟨rfl, -⟩ := htake
    have hf : ∀ k, AL.get bc1.cache ⟨tx.txid, k⟩ = none := by
      intro k
      apply Classical.byContradiction
      intro hcon
      exact hfresh (hp _ hcon)
    have hc := cacheIns_fresh tx.txid outs bc1.cache hf
    rw [flatMap_ranges_eq_flatten, houts] at hc
    refine ⟨?_, ?_, ?_⟩
    · simp only [poolR', poolR, hcache, hutxo, hlost, hc, den_append] at hden ⊢
      refine List.perm_iff_count.mpr fun x => ?_
      have := congrArg (List.count x) hden
      simp only [List.count_append] at this ⊢
      omega
    · intro op hop
      rw [hcache] at hop
      rcases cacheIns_keys _ _ _ _ hop with h1 | h1
      · rw [h1]; exact List.mem_cons_self
      · exact List.mem_cons_of_mem _ (hp _ h1)
    · intro op hop; rw [hutxo] at hop; exact hop
  · simp only [hoff, if_false] at htake hr hcbi hlost hden ⊢
    obtain ⟨hperm, -, -, -, -⟩ := takeInputEntries_pool cfg tx.inputs bc [] bc1 inputs htake
    obtain ⟨hc1, ht1⟩ := takeInputEntries_mono cfg tx.inputs bc [] bc1 inputs htake
    have hf : ∀ k, AL.get bc1.cache ⟨tx.txid, k⟩ = none := by
      intro k
      apply Classical.byContradiction
      intro hcon
      exact hfresh (hp _ (hc1 _ hcon))
    have hc := cacheIns_fresh tx.txid outs bc1.cache hf
    rw [flatMap_ranges_eq_flatten, houts] at hc
    refine ⟨?_, ?_, ?_⟩
    · have hp2 := den_perm hperm
      simp only [poolR, hcache, hutxo, hcbi, hlost, hc, den_append, entryRanges, List.flatMap_nil, den_nil,
        List.append_nil] at hden hp2 ⊢
      refine List.perm_iff_count.mpr fun x => ?_
      have e1 := congrArg (List.count x) hden
      have e2 := hp2.count_eq x
      simp only [List.count_append] at e1 e2 ⊢
      omega
    · intro op hop
      rw [hcache] at hop
      rcases cacheIns_keys _ _ _ _ hop with h1 | h1
      · rw [h1]; exact List.mem_cons_self
      · exact List.mem_cons_of_mem _ (hp _ (hc1 _ h1))
    · intro op hop; rw [hutxo] at hop; exact ht1 _ hop

end Ord.Index
