import OrdModel.Proofs.BuilderNoPanic
/-! No-panic for stage 4 (`add_value`): a budget invariant (`outputs + unused utxos ≤ wallet
total`) rules out every `Amount` overflow once the wallet total is below 2^64. -/
namespace Ord.Builder
open Ord Ord.Outcome

/-- invariant of stages 1–4: remaining utxos are wallet keys, there is an output, and
outputs + remaining utxos never exceed the wallet total -/
structure Inv (w : Wallet) (st : St) : Prop where
  utxos_keys : ∀ u ∈ st.utxos, (w.amounts.lookup u).isSome
  outputs_ne : st.outputs ≠ []
  budget : outSum st.outputs + inSum w st.utxos ≤ walletTotal w

theorem inSum_erase (w : Wallet) : ∀ (l : List Nat) (u : Nat), u ∈ l →
    inSum w (l.erase u) + inVal w u = inSum w l := by
  intro l
  induction l with
  | nil => intro u h; simp at h
  | cons x rest ih =>
    intro u h
    by_cases hx : x = u
    · subst hx; simp [List.erase_cons_head, inSum]; omega
    · have hm : u ∈ rest := by
        rcases List.mem_cons.1 h with h | h
        · exact absurd h.symm hx
        · exact h
      have hbeq : (x == u) = false := by simp [hx]
      simp only [List.erase_cons, hbeq, inSum]
      have := ih u hm
      simp only [Bool.false_eq_true, if_false, inSum]; omega

theorem mem_keys_of_lookup : ∀ (l : List (Nat × Nat)) (u v : Nat), l.lookup u = some v → u ∈ l.map (·.1) := by
  intro l
  induction l with
  | nil => intro u v h; simp [List.lookup] at h
  | cons x rest ih =>
    intro u v h
    simp only [List.lookup] at h
    split at h
    · rename_i heq
      simp only [beq_iff_eq] at heq
      simp [heq]
    · simp only [List.map_cons, List.mem_cons]
      exact Or.inr (ih u v h)

theorem outSum_updLast_add {site s : String} {x : Nat} :
    ∀ (outs : List TxOut), outs ≠ [] → outSum outs + x < U64 →
      ∃ outs', updLast site (fun v => amountAdd s v x) outs = .ok outs' ∧
        outSum outs' = outSum outs + x ∧ outs' ≠ [] := by
  intro outs
  induction outs with
  | nil => intro h; contradiction
  | cons o rest ih =>
    intro _ hlt
    cases rest with
    | nil =>
      have : o.2 + x < U64 := by simp only [outSum] at hlt; omega
      exact ⟨[(o.1, o.2 + x)], by simp [updLast, amountAdd, this], by simp [outSum], by simp⟩
    | cons o' rest' =>
      have hlt' : outSum (o' :: rest') + x < U64 := by simp only [outSum] at hlt ⊢; omega
      obtain ⟨l, hl, hs, _⟩ := ih (by simp) hlt'
      refine ⟨o :: l, by simp [updLast, hl], ?_, by simp⟩
      simp only [outSum] at hs ⊢; omega

theorem inVal_le_inSum (w : Wallet) : ∀ (l : List Nat) (u : Nat), u ∈ l → inVal w u ≤ inSum w l := by
  intro l u h
  have := inSum_erase w l u h
  omega

theorem addLoop_no_panic (env : Env) (w : Wallet) (s : String) (htot : walletTotal w < U64) :
    ∀ (fuel deficit : Nat) (st : St), st.utxos.length < fuel → Inv w st →
      addLoop env w fuel deficit st ≠ .panic s := by
  intro fuel
  induction fuel with
  | zero => intro d st h; omega
  | succ n ih =>
    intro d st hl inv
    unfold addLoop
    split
    · simp only
      split
      · split
        · simp
        · rename_i s' hs'
          exact absurd hs' (selectCardinal_no_panic w _ _ _ s' inv.utxos_keys)
        · rename_i utxo value utxos' hsel
          obtain ⟨_, hlk, hmem, rfl⟩ := selectCardinal_ok hsel
          split
          · simp
          · have hv : inVal w utxo = value := inVal_of_lookup hlk
            have he := inSum_erase w st.utxos utxo hmem
            have hb := inv.budget
            obtain ⟨outs', ho, hs, hne⟩ := outSum_updLast_add (site := "unwrap-none@add_value")
              (s := "amount-add@add_value") (x := value) st.outputs inv.outputs_ne (by omega)
            rw [ho]
            apply ih
            · show (st.utxos.erase utxo).length < n
              have h1 := List.length_erase_of_mem hmem
              have h2 : 0 < st.utxos.length := List.length_pos_of_mem hmem
              omega
            · exact ⟨fun u hu => inv.utxos_keys u (List.mem_of_mem_erase hu), hne, by
                show outSum outs' + inSum w (st.utxos.erase utxo) ≤ walletTotal w
                omega⟩
      · simp
    · simp

theorem lastOut_ok {site : String} : ∀ (outs : List TxOut), outs ≠ [] → ∃ o, lastOut site outs = .ok o := by
  intro outs
  induction outs with
  | nil => intro h; contradiction
  | cons o rest ih =>
    intro _
    cases rest with
    | nil => exact ⟨o, by simp [lastOut]⟩
    | cons o' rest' =>
      obtain ⟨l, hl⟩ := ih (by simp)
      exact ⟨l, by simp [lastOut, hl]⟩

theorem addValue_no_panic (env : Env) (w : Wallet) (r : Request) (s : String) (htot : walletTotal w < U64)
    (st : St) (inv : Inv w st) : addValue env w r st ≠ .panic s := by
  unfold addValue
  obtain ⟨last, hlast⟩ := lastOut_ok (site := "unwrap-none@add_value") st.outputs inv.outputs_ne
  simp only [bind_def, hlast, Outcome.bind]
  split
  · split
    · exact addLoop_no_panic env w s htot _ _ _ (by omega) inv
    · simp
  · simp

/-! ### the invariant holds after stages 1–3 -/

theorem padLoop_inv (w : Wallet) (d : Nat) :
    ∀ (fuel : Nat) (st st' : St), padLoop w d fuel st = .ok st' → Inv w st → Inv w st' := by
  intro fuel
  induction fuel with
  | zero => intro st st' h; simp [padLoop] at h
  | succ n ih =>
    intro st st' h inv
    unfold padLoop at h
    split at h
    · simp at h
    · rename_i o outs ho
      split at h
      · split at h
        · simp at h
        · simp at h
        · rename_i utxo size utxos' hsel
          obtain ⟨_, hlk, hmem, rfl⟩ := selectCardinal_ok hsel
          split at h
          · simp at h
          · simp at h
          · rename_i v hadd
            simp only [amountAdd_eq_ok] at hadd
            refine ih _ _ h ⟨fun u hu => inv.utxos_keys u (List.mem_of_mem_erase hu), by simp, ?_⟩
            have hv : inVal w utxo = size := inVal_of_lookup hlk
            have he := inSum_erase w st.utxos utxo hmem
            have hb := inv.budget
            rw [ho] at hb
            show outSum ((o.1, v) :: outs) + inSum w (st.utxos.erase utxo) ≤ walletTotal w
            simp only [outSum] at hb ⊢; omega
      · simp only [Outcome.ok.injEq] at h; subst h; exact inv

theorem inv_after_stage3 {env : Env} {w : Wallet} {r : Request} (wf : WF12 env w r)
    {s1 s2 s3 : St} (h1 : selectOutgoing env w r (initial w r) = .ok s1)
    (h2 : alignOutgoing w r s1 = .ok s2) (h3 : padAlignmentOutput env w r s2 = .ok s3) : Inv w s3 := by
  obtain ⟨amount, ha, hoff, hu, _, hshape⟩ := alignOutgoing_shape wf h1 h2
  have hmem := mem_keys_of_lookup _ _ _ ha
  have he := inSum_erase w _ _ hmem
  have hv : inVal w r.outgoing.1 = amount := inVal_of_lookup ha
  have inv2 : Inv w s2 := by
    refine ⟨?_, ?_, ?_⟩
    · intro u hu'
      rw [hu] at hu'
      exact lookup_isSome_of_mem_keys _ _ (List.mem_of_mem_erase hu')
    · rcases hshape with ⟨ho, _⟩ | ⟨ho, _⟩ <;> simp [ho]
    · rw [hu]
      unfold walletTotal
      rcases hshape with ⟨ho, _⟩ | ⟨ho, _⟩ <;> simp only [ho, outSum] <;> omega
  unfold padAlignmentOutput at h3
  split at h3
  · simp at h3
  · split at h3
    · simp only [Outcome.ok.injEq] at h3; subst h3; exact inv2
    · split at h3
      · simp at h3
      · exact padLoop_inv w _ _ _ _ h3 inv2

end Ord.Builder
