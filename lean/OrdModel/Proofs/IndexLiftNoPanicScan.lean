import OrdModel.Proofs.IndexLiftNoPanicInv
import OrdModel.Proofs.IndexInslocAssign
/-
C16 lift, part 3: the input scan of `index_inscriptions` (`scanOld` / `curseOf` / `scanNew` /
`scanInputs`) under the invariants: no entry lookup fails, and the resulting flotsam is accounted
for (`ScanInv`): old flotsam names existing entries, new bound flotsam lies below the input total
(or below the output total, for a pointer), the number of new flotsam is `id_counter`, which is at
most the number of envelopes.
-/
namespace Ord.Index.NoPanic
open Ord Ord.Index Outcome Sched

theorem WithinP.weaken {α : Type} {S : List String} {P : α → Prop} {o : Outcome α} (h : WithinP [] P o) :
    WithinP S P o := by
  cases o with
  | ok a => exact h
  | err e => exact h
  | panic s => simp [WithinP] at h

theorem within_of_ok {α : Type} {S : List String} {P : α → Prop} {o : Outcome α} {a : α}
    (h : o = .ok a) (hp : P a) : WithinP S P o := by subst h; exact hp

/-- no envelope of the list is the first envelope of the first input -/
def NoFirst (envs : List Envelope) : Prop := ∀ env ∈ envs, env.input ≠ 0 ∨ env.offset ≠ 0

/-- all but the head are not the first envelope of the first input -/
def EnvTail : List Envelope → Prop
  | [] => True
  | _ :: rest => NoFirst rest

theorem EnvTail.of_noFirst {envs : List Envelope} (h : NoFirst envs) : EnvTail envs := by
  cases envs with
  | nil => trivial
  | cons a rest => exact fun e he => h e (List.mem_cons_of_mem _ he)

/-- `ParsedEnvelope::from_transaction`'s numbering: only the very first envelope can be the first
envelope of the first input -/
theorem envelopesFrom_noFirst (nIn : Nat) (prev : Nat × Nat) (envs : List Envelope)
    (h : Valid.envelopesFrom nIn (some prev) envs = true) : NoFirst envs := by
  induction envs generalizing prev with
  | nil => intro e he; cases he
  | cons a rest ih =>
    obtain ⟨i, o⟩ := prev
    simp only [Valid.envelopesFrom, Bool.and_eq_true, Bool.or_eq_true, beq_iff_eq, decide_eq_true_eq] at h
    intro e he
    rcases List.mem_cons.1 he with rfl | he
    · rcases h.1.2 with h1 | h1
      · right; omega
      · left; omega
    · exact ih _ h.2 e he

theorem envelopesWellFormed_tail (tx : Tx) (h : Valid.envelopesWellFormed tx = true) : EnvTail tx.envelopes := by
  unfold Valid.envelopesWellFormed at h
  cases he : tx.envelopes with
  | nil => trivial
  | cons a rest =>
    rw [he] at h
    simp only [Valid.envelopesFrom, Bool.and_eq_true] at h
    exact envelopesFrom_noFirst _ _ _ h.2

/-- every id recorded in `inscribed_offsets` so far belongs to an indexed inscription -/
def InscribedOld (st : State) (ins : List (Nat × InscriptionId × Nat)) : Prop :=
  ∀ (off : Nat) (id : InscriptionId) (c : Nat), AL.get ins off = some (id, c) → ∃ seq, AL.get st.id2seq id = some seq

theorem InscribedOld.bump {st : State} {ins : List (Nat × InscriptionId × Nat)} (h : InscribedOld st ins)
    (off : Nat) (id : InscriptionId) (hid : ∃ seq, AL.get st.id2seq id = some seq) :
    InscribedOld st (bumpOffset ins off id) := by
  intro off' id' c' hg
  unfold bumpOffset at hg
  split at hg
  · rename_i id0 c0 h0
    rw [AL.get_set] at hg
    split at hg
    · simp only [Option.some.injEq, Prod.mk.injEq] at hg
      exact hg.1 ▸ h off id0 c0 h0
    · exact h off' id' c' hg
  · rw [AL.get_set] at hg
    split at hg
    · simp only [Option.some.injEq, Prod.mk.injEq] at hg
      exact hg.1 ▸ hid
    · exact h off' id' c' hg

/-- where `curseOf` can fail -/
theorem curseOf_panic (st : State) (env : Envelope) (ins : List (Nat × InscriptionId × Nat)) (off : Nat) (s : String)
    (h : curseOf st env ins off = .panic s) :
    env.input = 0 ∧ env.offset = 0 ∧ ∃ id count, AL.get ins off = some (id, count) ∧
      (AL.get st.id2seq id = none ∨ ∃ seq, AL.get st.id2seq id = some seq ∧ st.entries[seq]? = none) := by
  unfold curseOf at h
  repeat' split at h
  all_goals first
    | (cases h; done)
    | (refine ⟨by omega, by omega, _, _, ‹_›, ?_⟩
       first
         | exact Or.inl ‹_›
         | exact Or.inr ⟨_, ‹_›, ‹_›⟩)

theorem curseOf_not_err (st : State) (env : Envelope) (ins : List (Nat × InscriptionId × Nat)) (off : Nat) (e : String) :
    curseOf st env ins off ≠ .err e := (curseOf_U st env ins off).not_err

theorem curseOf_ok (st : State) (hids : IdsOK st) (env : Envelope) (ins : List (Nat × InscriptionId × Nat)) (off : Nat)
    (h : env.input = 0 → env.offset = 0 → InscribedOld st ins) : ∃ c, curseOf st env ins off = .ok c := by
  cases hc : curseOf st env ins off with
  | ok c => exact ⟨c, rfl⟩
  | err e => exact absurd hc (curseOf_not_err _ _ _ _ _)
  | panic s =>
    exfalso
    obtain ⟨h1, h2, id, count, hg, hbad⟩ := curseOf_panic _ _ _ _ _ hc
    obtain ⟨seq, hseq⟩ := h h1 h2 off id count hg
    rcases hbad with hbad | ⟨seq', hs', hnone⟩
    · rw [hseq] at hbad; cases hbad
    · have := hids.lt id seq' hs'
      rw [List.getElem?_eq_none_iff] at hnone
      omega

structure ScanInv (st : State) (totalOut C : Nat) (envs : List Envelope) (sc : ScanState) : Prop where
  old : ∀ f ∈ sc.floating, OldOK st.entries.length f
  off : ∀ f ∈ sc.floating, NewBound f → f.offset < sc.totalInputValue ∨ f.offset < totalOut
  cnt : countNew sc.floating = sc.idCounter
  env : sc.idCounter + envs.length = C
  tail : EnvTail envs
  insc : InscribedOld st sc.inscribed ∨ NoFirst envs

theorem countNew_snoc (l : List Flotsam) (f : Flotsam) :
    countNew (l ++ [f]) = countNew l + (if isNew f = true then 1 else 0) := by
  rw [countNew_append, countNew_cons]; simp [countNew]

theorem scanOld_valid (st : State) (hids : IdsOK st) (prev : OutPoint) (base totalOut C : Nat)
    (l : List (Nat × Nat)) (sc : ScanState) (envs : List Envelope)
    (hl : ∀ p ∈ l, p.1 < st.entries.length) (hsc : ScanInv st totalOut C envs sc) :
    ∃ sc', scanOld st prev base l sc = .ok sc' ∧ ScanInv st totalOut C envs sc' ∧
      sc'.totalInputValue = sc.totalInputValue ∧ sc'.envelopes = sc.envelopes := by
  induction l generalizing sc with
  | nil => exact ⟨sc, rfl, hsc, rfl, rfl⟩
  | cons p rest ih =>
    obtain ⟨seq, off⟩ := p
    have hlt : seq < st.entries.length := hl (seq, off) List.mem_cons_self
    simp only [scanOld]
    rw [List.getElem?_eq_getElem hlt]
    simp only
    have hmem : st.entries[seq] ∈ st.entries := List.getElem_mem hlt
    obtain ⟨sc', h1, h2, h3, h4⟩ := ih
      { sc with floating := sc.floating ++ [⟨st.entries[seq].id, base + off, .old seq ⟨prev, off⟩⟩],
                inscribed := bumpOffset sc.inscribed (base + off) st.entries[seq].id }
      (fun p hp => hl p (List.mem_cons_of_mem _ hp))
      { old := by
          intro f hf
          rcases List.mem_append.1 hf with hf | hf
          · exact hsc.old f hf
          · simp only [List.mem_singleton] at hf
            subst hf
            intro s sp hs
            simp only [Origin.old.injEq] at hs
            omega
        off := by
          intro f hf hnb
          rcases List.mem_append.1 hf with hf | hf
          · exact hsc.off f hf hnb
          · simp only [List.mem_singleton] at hf
            subst hf
            obtain ⟨c, fee, g, h, ps, r, v, hh⟩ := hnb
            cases hh
        cnt := by
          show countNew (sc.floating ++ _) = sc.idCounter
          rw [countNew_snoc]
          simp [isNew, hsc.cnt]
        env := hsc.env
        tail := hsc.tail
        insc := by
          rcases hsc.insc with h | h
          · exact Or.inl (h.bump _ _ (hids.has _ hmem))
          · exact Or.inr h }
    exact ⟨sc', h1, h2, h3, h4⟩

theorem NoFirst.tail {a : Envelope} {rest : List Envelope} (h : NoFirst (a :: rest)) : NoFirst rest :=
  fun e he => h e (List.mem_cons_of_mem _ he)

theorem scanNew_valid (st : State) (hids : IdsOK st) (jub : Bool) (txid : Txid) (ii off iv totalOut C : Nat)
    (envs : List Envelope) (sc : ScanState) (hoff : off + iv ≤ sc.totalInputValue)
    (hsc : ScanInv st totalOut C envs sc) :
    ∃ sc', scanNew st jub txid ii off iv totalOut envs sc = .ok sc' ∧ ScanInv st totalOut C sc'.envelopes sc' ∧
      sc'.totalInputValue = sc.totalInputValue := by
  induction envs generalizing sc with
  | nil => exact ⟨{ sc with envelopes := [] }, rfl, ⟨hsc.old, hsc.off, hsc.cnt, hsc.env, hsc.tail, hsc.insc⟩, rfl⟩
  | cons env rest ih =>
    simp only [scanNew]
    split
    · exact ⟨{ sc with envelopes := env :: rest }, rfl, ⟨hsc.old, hsc.off, hsc.cnt, hsc.env, hsc.tail, hsc.insc⟩, rfl⟩
    · obtain ⟨curse, hcurse⟩ := curseOf_ok st hids env sc.inscribed off (by
        intro h1 h2
        rcases hsc.insc with h | h
        · exact h
        · rcases h env List.mem_cons_self with h | h
          · exact absurd h1 h
          · exact absurd h2 h)
      rw [hcurse]
      simp only
      have hnf : NoFirst rest := hsc.tail
      refine ih _ hoff
        { old := ?_, off := ?_, cnt := ?_, env := ?_, tail := EnvTail.of_noFirst hnf, insc := Or.inr hnf }
      · intro f hf
        rcases List.mem_append.1 hf with hf | hf
        · exact hsc.old f hf
        · simp only [List.mem_singleton] at hf
          subst hf
          intro s sp hs
          cases hs
      · intro f hf hnb
        rcases List.mem_append.1 hf with hf | hf
        · exact hsc.off f hf hnb
        · simp only [List.mem_singleton] at hf
          subst hf
          obtain ⟨c, fee, g, h, ps, r, v, hh⟩ := hnb
          simp only [Origin.new.injEq] at hh
          have hu := hh.2.2.2.2.2.2.1
          simp only [Bool.or_eq_false_iff, beq_eq_false_iff_ne, ne_eq] at hu
          have hiv : iv ≠ 0 := hu.1.1
          have key : ∀ x, x = (match env.pointer with
              | some p => if p < totalOut then p else off
              | none => off) → x < sc.totalInputValue ∨ x < totalOut := by
            intro x hx
            split at hx
            · split at hx
              · right; omega
              · left; omega
            · left; omega
          exact key _ rfl
      · show countNew (sc.floating ++ _) = sc.idCounter + 1
        rw [countNew_snoc]
        simp [isNew, hsc.cnt]
      · have := hsc.env
        simp only [List.length_cons] at this
        show sc.idCounter + 1 + rest.length = C
        omega

/-- total value the scan attributes to the inputs -/
def sumIn (cfg : Cfg) (height : Nat) : List (TxIn × UtxoEntry) → Nat
  | [] => 0
  | (txin, e) :: rest => (if txin.prev.isNull then subsidy height else e.totalValue cfg) + sumIn cfg height rest

theorem scanInputs_valid (cfg : Cfg) (st : State) (hids : IdsOK st) (jub : Bool) (txid : Txid)
    (height totalOut C : Nat) (l : List (TxIn × UtxoEntry)) (i : Nat) (sc : ScanState)
    (hl : ∀ p ∈ l, p.1.prev.isNull = false → ∀ q ∈ p.2.ins, q.1 < st.entries.length)
    (hsc : ScanInv st totalOut C sc.envelopes sc) :
    ∃ sc', scanInputs cfg st jub txid height totalOut l i sc = .ok sc' ∧ ScanInv st totalOut C sc'.envelopes sc' ∧
      sc'.totalInputValue = sc.totalInputValue + sumIn cfg height l := by
  induction l generalizing i sc with
  | nil => exact ⟨sc, rfl, hsc, by simp [sumIn]⟩
  | cons p rest ih =>
    obtain ⟨txin, entry⟩ := p
    simp only [scanInputs]
    split
    · rename_i hnull
      obtain ⟨sc', h1, h2, h3⟩ := ih (i + 1) { sc with totalInputValue := sc.totalInputValue + subsidy height }
        (fun p hp => hl p (List.mem_cons_of_mem _ hp))
        { old := hsc.old
          off := fun f hf hnb => (hsc.off f hf hnb).imp (fun h => Nat.lt_of_lt_of_le h (Nat.le_add_right _ _)) id
          cnt := hsc.cnt, env := hsc.env, tail := hsc.tail, insc := hsc.insc }
      refine ⟨sc', h1, h2, ?_⟩
      rw [h3]
      simp only [sumIn, hnull, if_true]
      omega
    · rename_i hnull
      have hnull' : txin.prev.isNull = false := by simpa using hnull
      have hseqs : ∀ q ∈ sortByKey (·.1) entry.ins, q.1 < st.entries.length := by
        intro q hq
        exact hl (txin, entry) List.mem_cons_self hnull' q ((Insloc.sortByKey_perm _ _).mem_iff.1 hq)
      obtain ⟨sc1, e1, i1, t1, v1⟩ := scanOld_valid st hids txin.prev sc.totalInputValue totalOut C
        (sortByKey (·.1) entry.ins) sc sc.envelopes hseqs hsc
      rw [e1]
      simp only
      obtain ⟨sc3, e3, i3, t3⟩ := scanNew_valid st hids jub txid i sc1.totalInputValue (entry.totalValue cfg) totalOut C
        sc1.envelopes { sc1 with totalInputValue := sc1.totalInputValue + entry.totalValue cfg } (Nat.le_refl _)
        { old := i1.old
          off := fun f hf hnb => (i1.off f hf hnb).imp (fun h => Nat.lt_of_lt_of_le h (Nat.le_add_right _ _)) id
          cnt := i1.cnt, env := v1 ▸ i1.env, tail := v1 ▸ i1.tail, insc := v1 ▸ i1.insc }
      rw [e3]
      simp only
      obtain ⟨sc', h1, h2, h3⟩ := ih (i + 1) sc3 (fun p hp => hl p (List.mem_cons_of_mem _ hp)) i3
      refine ⟨sc', h1, h2, ?_⟩
      rw [h3, t3]
      simp only [sumIn, hnull', Bool.false_eq_true, if_false, t1]
      omega

end Ord.Index.NoPanic
