import OrdModel.Proofs.BuilderFull4
/-! The final stage evaluated on a well-shaped state, and the funding conditions `Cond` under
which stages 5–7 (`strip_value`, `deduct_fee`, `build`) succeed. -/
namespace Ord.Builder
open Ord Ord.Outcome

theorem checkRecipientValue_of_TargetOk {env : Env} {r : Request} {v : Nat} (h : TargetOk env r v)
    (hslop : (match r.target with
      | .postage => MAX_POSTAGE
      | .exact p => p
      | .value _ => max (env.dust r.change0) (env.dust r.change1)) + env.fee ADDITIONAL_OUTPUT_VBYTES < U64) :
    checkRecipientValue env r v = .ok () := by
  unfold checkRecipientValue
  unfold TargetOk at h
  cases ht : r.target with
  | value t =>
    simp only [ht] at h hslop
    have h1 : t ≤ v := h.1
    have h2 : v - t ≤ max (env.dust r.change0) (env.dust r.change1) + env.fee ADDITIONAL_OUTPUT_VBYTES := by omega
    simp [subW, h1, amountAdd, hslop, assert, h2, Outcome.bind]
  | postage =>
    simp only [ht] at h hslop
    simp [amountAdd, hslop, assert, h, Outcome.bind]
  | exact p =>
    simp only [ht] at h hslop
    simp [amountAdd, hslop, assert, h, Outcome.bind]

/-- the final stage succeeds on a state of the expected shape -/
theorem buildFinal_eval {env : Env} {w : Wallet} {r : Request} {st : St} {amount T : Nat}
    {pre post : List TxOut}
    (hnd : (w.amounts.map (·.1)).Nodup) (ha : w.amounts.lookup r.outgoing.1 = some amount)
    (hoff : r.outgoing.2 < amount)
    (hkeys : ∀ u ∈ st.inputs, (w.amounts.lookup u).isSome)
    (honce : (st.inputs.filter (fun i => i == r.outgoing.1)).length = 1)
    (ho : st.outputs = pre ++ (r.recipient, T) :: post)
    (hpre : outSum pre = prefixBefore w r.outgoing.1 st.inputs + r.outgoing.2)
    (hlt : inSum w st.inputs < U64) (hT : 0 < T)
    (hcpre : ChangeOnly r pre) (hcpost : ChangeOnly r post)
    (hcnt : countScript r.change0 st.outputs ≤ 1 ∧ countScript r.change1 st.outputs ≤ 1)
    (hrv : checkRecipientValue env r T = .ok ())
    (hfee : outSum st.outputs + env.fee (vsize st.inputs.length st.outputs) = inSum w st.inputs)
    (hdust : ∀ o ∈ st.outputs, env.dust o.1 ≤ o.2) :
    buildFinal env w r st = .ok { inputs := st.inputs, outputs := st.outputs } := by
  have hin := mem_of_filter_one honce
  have hv : inVal w r.outgoing.1 = amount := inVal_of_lookup ha
  have hso := buildSatOffset_eq w r.outgoing (by omega) st.inputs 0 hin hkeys (by omega)
  have hsum : outSum st.outputs = outSum pre + T + outSum post := by
    rw [ho, outSum_append]; simp only [outSum]; omega
  have hfind := buildFindOutput_eval r.recipient (outSum pre) T post hT pre 0 (by omega) (by omega)
  have hchk := buildCheckOutputs_eval env r (outSum pre) T post hcpost hrv pre 0 hcpre (by omega) (by omega)
  have hcr : countScript r.recipient st.outputs = 1 := by
    rw [ho, countScript_append, countScript_zero (fun o ho' => (hcpre o ho').1)]
    have : countScript r.recipient ((r.recipient, T) :: post) = 1 + countScript r.recipient post := by
      simp [countScript, List.filter_cons]; omega
    rw [this, countScript_zero (fun o ho' => (hcpost o ho').1)]
  have hsi := buildSumInputs_eval w st.inputs 0 hkeys (by omega)
  have hsub := buildSubOutputs_eval st.outputs (inSum w st.inputs) (by omega)
  have hd := buildDust_eval env st.outputs hdust
  have hf1 := filter_amounts_one r.outgoing.1 r.outgoing.2 w.amounts amount hnd ha hoff
  have hfeq : inSum w st.inputs - outSum st.outputs = env.fee (vsize st.inputs.length st.outputs) := by omega
  unfold buildFinal
  simp only [Nat.zero_add] at hso hsi
  rw [← hpre] at hso
  rw [← ho] at hfind hchk
  simp only [bind_def, assert, hf1, honce, beq_self_eq_true, if_true, Outcome.bind, hso, hfind, hcr, hcnt,
    and_self, decide_true, hchk, hsi, hsub, hfeq, hd]

theorem TargetOk_of_parts {env : Env} {r : Request} {v : Nat} (h1 : CapOk env r v) (h2 : ReachOk r v)
    (h3 : NotAboveOk env r v) : TargetOk env r v := by
  unfold TargetOk; unfold CapOk at h1; unfold ReachOk at h2; unfold NotAboveOk at h3
  cases ht : r.target <;> simp only [ht] at h1 h2 h3 ⊢
  · exact ⟨h2, h3⟩
  · exact h1
  · exact h1

/-- **Funding conditions.**  `n` inputs, alignment outputs `pre`, recipient output value `R`
after `add_value`, next unused change script `c`.  Each field excludes one panic class
(named in its comment); together they are what `strip_value`, `deduct_fee` and `build` assume of
`add_value`'s result without checking it. -/
structure Cond (env : Env) (r : Request) (n : Nat) (pre : List TxOut) (R : Nat) (c : Script) : Prop where
  /-- `dust + fee(vsize + 43)` in `strip_value` fits in an `Amount` (u64) -/
  strip_no_overflow :
    env.fee (vsize n (pre ++ [(r.recipient, R)])) ≤ R →
    R - env.fee (vsize n (pre ++ [(r.recipient, R)])) > (maxTarget r.target).1 →
    env.dust c + env.fee (vsize n (pre ++ [(r.recipient, R)]) + ADDITIONAL_OUTPUT_VBYTES) < U64
  /-- `cap + slop` in `build` fits in an `Amount` -/
  slop_no_overflow : (match r.target with
      | .postage => MAX_POSTAGE
      | .exact p => p
      | .value _ => max (env.dust r.change0) (env.dust r.change1)) + env.fee ADDITIONAL_OUTPUT_VBYTES < U64
  /-- the recipient-side value exceeds the real fee: excludes `Option::unwrap()` on `None` in
  `deduct_fee` and `invariant: deducting fee does not consume sat` -/
  fee_lt_value : feeFinal env r n pre R c < R
  /-- excludes `invariant: last output can pay fee` -/
  change_pays_fee : strips env r n pre R c → feeFinal env r n pre R c ≤ R - (maxTarget r.target).2
  /-- excludes `invariant: outgoing sat is sent to recipient` (zero target) -/
  target_pos : strips env r n pre R c → 0 < (maxTarget r.target).2
  /-- excludes `invariant: excess postage is stripped` -/
  postage_cap : ¬ strips env r n pre R c → CapOk env r (R - feeFinal env r n pre R c)
  /-- excludes `Option::unwrap()` on `None` in `build` (recipient below `Target::Value`) -/
  value_reached : ¬ strips env r n pre R c → ReachOk r (R - feeFinal env r n pre R c)
  /-- excludes `invariant: output equals target value` -/
  value_not_above : ¬ strips env r n pre R c → NotAboveOk env r (R - feeFinal env r n pre R c)
  /-- excludes `invariant: all outputs are above dust limit` -/
  no_dust : ∀ o ∈ finalOuts env r n pre R c, env.dust o.1 ≤ o.2

end Ord.Builder
