import OrdModel.Wallet.BuilderCond
/-! Helper lemmas for C20: the `Outcome` monad, and what an `ok` of the final stage `build`
(every assertion passed) says about the transaction. -/
namespace Ord.Builder
open Ord Ord.Outcome

@[simp] theorem bind_def {α β} (x : Outcome α) (f : α → Outcome β) : (x >>= f) = Outcome.bind x f := rfl
@[simp] theorem pure_def {α} (a : α) : (pure a : Outcome α) = .ok a := rfl

theorem bind_eq_ok {α β} {x : Outcome α} {f : α → Outcome β} {b : β} :
    Outcome.bind x f = .ok b ↔ ∃ a, x = .ok a ∧ f a = .ok b := by
  cases x <;> simp [Outcome.bind]

theorem bind_eq_panic {α β} {x : Outcome α} {f : α → Outcome β} {s : String} :
    Outcome.bind x f = .panic s ↔ x = .panic s ∨ ∃ a, x = .ok a ∧ f a = .panic s := by
  cases x <;> simp [Outcome.bind]

@[simp] theorem assert_eq_ok {c : Bool} {s : String} {u : Unit} : assert c s = .ok u ↔ c = true := by
  cases c <;> simp [assert]

theorem assert_eq_panic {c : Bool} {s t : String} : assert c s = .panic t ↔ c = false ∧ t = s := by
  cases c <;> simp [assert, eq_comm]

@[simp] theorem subW_eq_ok {s : String} {a b c : Nat} : subW s a b = .ok c ↔ b ≤ a ∧ c = a - b := by
  unfold subW; split <;> simp [eq_comm] <;> omega

@[simp] theorem amountAdd_eq_ok {s : String} {a b c : Nat} : amountAdd s a b = .ok c ↔ a + b < U64 ∧ c = a + b := by
  unfold amountAdd; split <;> simp [eq_comm] <;> omega

@[simp] theorem u64Add_eq_ok {s : String} {a b c : Nat} : u64Add s a b = .ok c ↔ a + b < U64 ∧ c = a + b := by
  unfold u64Add; split <;> simp [eq_comm] <;> omega

theorem inVal_of_lookup {w : Wallet} {op v : Nat} (h : w.amounts.lookup op = some v) : inVal w op = v := by
  simp [inVal, h]

/-! ### the loops of `build` -/

theorem buildSatOffset_some (w : Wallet) (out : Nat × Nat) :
    ∀ (ins : List Nat) (acc so : Nat), buildSatOffset w out ins acc = .ok (some so) →
      out.1 ∈ ins ∧ so = acc + prefixBefore w out.1 ins + out.2 := by
  intro ins
  induction ins with
  | nil => intro acc so h; simp [buildSatOffset] at h
  | cons i rest ih =>
    intro acc so h
    unfold buildSatOffset at h
    by_cases hi : i = out.1
    · simp only [hi, if_true] at h
      split at h <;> simp_all [prefixBefore]
    · simp only [hi, if_false] at h
      split at h
      · simp at h
      · rename_i v hv
        split at h
        · obtain ⟨hm, hs⟩ := ih _ _ h
          refine ⟨List.mem_cons_of_mem _ hm, ?_⟩
          simp only [prefixBefore, hi, if_false, inVal_of_lookup hv]; omega
        · simp at h

theorem buildFindOutput_true (rcp : Script) (so : Nat) :
    ∀ (outs : List TxOut) (acc : Nat), buildFindOutput rcp so outs acc = .ok true →
      so < acc + outSum outs := by
  intro outs
  induction outs with
  | nil => intro acc h; simp [buildFindOutput] at h
  | cons o rest ih =>
    intro acc h
    unfold buildFindOutput at h
    split at h
    · split at h
      · simp only [outSum]; omega
      · have := ih _ h; simp only [outSum]; omega
    · simp at h

def TargetOk (env : Env) (r : Request) (v : Nat) : Prop :=
  match r.target with
  | .value t => t ≤ v ∧ v ≤ t + max (env.dust r.change0) (env.dust r.change1) + env.fee ADDITIONAL_OUTPUT_VBYTES
  | .postage => v ≤ MAX_POSTAGE + env.fee ADDITIONAL_OUTPUT_VBYTES
  | .exact p => v ≤ p + env.fee ADDITIONAL_OUTPUT_VBYTES

theorem checkRecipientValue_ok {env : Env} {r : Request} {v : Nat}
    (h : checkRecipientValue env r v = .ok ()) : TargetOk env r v := by
  unfold checkRecipientValue at h
  unfold TargetOk
  cases ht : r.target with
  | value t =>
    simp only [ht, bind_def] at h
    obtain ⟨over, h7, h8⟩ := bind_eq_ok.1 h
    obtain ⟨cap, h9, h10⟩ := bind_eq_ok.1 h8
    simp only [subW_eq_ok] at h7
    simp only [amountAdd_eq_ok] at h9
    simp only [assert_eq_ok, decide_eq_true_eq] at h10
    simp only; omega
  | postage =>
    simp only [ht, bind_def] at h
    obtain ⟨cap, h9, h10⟩ := bind_eq_ok.1 h
    simp only [amountAdd_eq_ok] at h9
    simp only [assert_eq_ok, decide_eq_true_eq] at h10
    simp only; omega
  | exact p =>
    simp only [ht, bind_def] at h
    obtain ⟨cap, h9, h10⟩ := bind_eq_ok.1 h
    simp only [amountAdd_eq_ok] at h9
    simp only [assert_eq_ok, decide_eq_true_eq] at h10
    simp only; omega

theorem buildCheckOutputs_ok (env : Env) (r : Request) (so : Nat) :
    ∀ (outs : List TxOut) (off : Nat), buildCheckOutputs env r so outs off = .ok () →
      (∀ o ∈ outs, o.1 = r.recipient ∨ o.1 = r.change0 ∨ o.1 = r.change1) ∧
      (∀ o ∈ outs, o.1 = r.recipient → TargetOk env r o.2) ∧
      ((∃ o ∈ outs, o.1 = r.recipient) → off + outStart r.recipient outs = so) := by
  intro outs
  induction outs with
  | nil => intro off _; simp
  | cons o rest ih =>
    intro off h
    unfold buildCheckOutputs at h
    simp only [bind_def] at h
    obtain ⟨_, h1, h2⟩ := bind_eq_ok.1 h
    obtain ⟨off', h3, h4⟩ := bind_eq_ok.1 h2
    simp only [u64Add_eq_ok] at h3
    obtain ⟨ihD, ihF, ihS⟩ := ih _ h4
    unfold checkOutput at h1
    by_cases ho : o.1 = r.recipient
    · simp only [ho, if_true, bind_def] at h1
      obtain ⟨_, h5, h6⟩ := bind_eq_ok.1 h1
      simp only [assert_eq_ok, beq_iff_eq] at h6
      have hT : TargetOk env r o.2 := checkRecipientValue_ok h5
      refine ⟨?_, ?_, ?_⟩
      · intro o' ho'
        rcases List.mem_cons.1 ho' with rfl | hm
        · exact Or.inl ho
        · exact ihD _ hm
      · intro o' ho' hr
        rcases List.mem_cons.1 ho' with rfl | hm
        · exact hT
        · exact ihF _ hm hr
      · intro _
        simp only [outStart, ho, if_true]; omega
    · simp only [ho, if_false] at h1
      simp only [assert_eq_ok, decide_eq_true_eq] at h1
      refine ⟨?_, ?_, ?_⟩
      · intro o' ho'
        rcases List.mem_cons.1 ho' with rfl | hm
        · exact Or.inr h1
        · exact ihD _ hm
      · intro o' ho' hr
        rcases List.mem_cons.1 ho' with rfl | hm
        · exact absurd hr ho
        · exact ihF _ hm hr
      · intro ⟨o', ho', hr⟩
        rcases List.mem_cons.1 ho' with rfl | hm
        · exact absurd hr ho
        · have := ihS ⟨o', hm, hr⟩
          simp only [outStart, ho, if_false]; omega

theorem buildSumInputs_ok (w : Wallet) :
    ∀ (ins : List Nat) (acc s : Nat), buildSumInputs w ins acc = .ok s → s = acc + inSum w ins := by
  intro ins
  induction ins with
  | nil => intro acc s h; simp_all [buildSumInputs, inSum]
  | cons i rest ih =>
    intro acc s h
    unfold buildSumInputs at h
    split at h
    · simp at h
    · rename_i v hv
      split at h
      · have := ih _ _ h
        simp only [inSum, inVal_of_lookup hv]; omega
      · simp at h

theorem buildSubOutputs_ok :
    ∀ (outs : List TxOut) (acc s : Nat), buildSubOutputs outs acc = .ok s → s + outSum outs = acc := by
  intro outs
  induction outs with
  | nil => intro acc s h; simp_all [buildSubOutputs, outSum]
  | cons o rest ih =>
    intro acc s h
    unfold buildSubOutputs at h
    split at h
    · have := ih _ _ h
      simp only [outSum]; omega
    · simp at h

theorem buildDust_ok (env : Env) :
    ∀ (outs : List TxOut), buildDust env outs = .ok () → ∀ o ∈ outs, env.dust o.1 ≤ o.2 := by
  intro outs
  induction outs with
  | nil => intro _ o ho; simp at ho
  | cons o rest ih =>
    intro h o' ho'
    unfold buildDust at h
    split at h
    · rcases List.mem_cons.1 ho' with rfl | hm
      · assumption
      · exact ih h _ hm
    · simp at h

theorem countScript_pos {s : Script} {outs : List TxOut} (h : countScript s outs = 1) :
    ∃ o ∈ outs, o.1 = s := by
  unfold countScript at h
  have : (outs.filter (fun o => decide (o.1 = s))) ≠ [] := by
    intro h'; simp [h'] at h
  obtain ⟨o, ho⟩ := List.exists_mem_of_ne_nil _ this
  simp only [List.mem_filter, decide_eq_true_eq] at ho
  exact ⟨o, ho.1, ho.2⟩

/-- what a successful final stage establishes (everything except (b), (c) and the existence
of the outgoing sat, which come from the earlier stages) -/
theorem buildFinal_ok {env : Env} {w : Wallet} {r : Request} {st : St} {tx : Tx}
    (h : buildFinal env w r st = .ok tx) :
    tx = { inputs := st.inputs, outputs := st.outputs } ∧
    (tx.inputs.filter (fun i => i == r.outgoing.1)).length = 1 ∧
    countScript r.recipient tx.outputs = 1 ∧
    outStart r.recipient tx.outputs = prefixBefore w r.outgoing.1 tx.inputs + r.outgoing.2 ∧
    outStart r.recipient tx.outputs < outSum tx.outputs ∧
    PostD r tx ∧ PostE env tx ∧ PostF env r tx ∧ PostG env w tx := by
  unfold buildFinal at h
  simp only [bind_def] at h
  obtain ⟨_, _, h⟩ := bind_eq_ok.1 h
  obtain ⟨_, hIn, h⟩ := bind_eq_ok.1 h
  obtain ⟨found, hSo, h⟩ := bind_eq_ok.1 h
  cases found with
  | none => simp at h
  | some so =>
    simp only at h
    obtain ⟨fo, hFo, h⟩ := bind_eq_ok.1 h
    obtain ⟨_, hfo, h⟩ := bind_eq_ok.1 h
    obtain ⟨_, hCnt, h⟩ := bind_eq_ok.1 h
    obtain ⟨_, _, h⟩ := bind_eq_ok.1 h
    obtain ⟨_, hChk, h⟩ := bind_eq_ok.1 h
    obtain ⟨sumIn, hSum, h⟩ := bind_eq_ok.1 h
    obtain ⟨af, hSub, h⟩ := bind_eq_ok.1 h
    obtain ⟨_, hFee, h⟩ := bind_eq_ok.1 h
    obtain ⟨_, hDust, h⟩ := bind_eq_ok.1 h
    simp only [Outcome.ok.injEq] at h
    simp only [assert_eq_ok, beq_iff_eq] at hIn hfo hCnt hFee
    rw [hfo] at hFo
    obtain ⟨_, hso⟩ := buildSatOffset_some w r.outgoing _ _ _ hSo
    have hlt := buildFindOutput_true _ _ _ _ hFo
    obtain ⟨hD, hF, hS⟩ := buildCheckOutputs_ok env r so _ _ hChk
    have hstart := hS (countScript_pos hCnt)
    have h1 := buildSumInputs_ok w _ _ _ hSum
    have h2 := buildSubOutputs_ok _ _ _ hSub
    have h3 := buildDust_ok env _ hDust
    subst h
    refine ⟨rfl, hIn, hCnt, by simp only; omega, by simp only; omega, hD, h3, ?_, ?_⟩
    · intro o ho hr
      have := hF o ho hr
      unfold TargetOk at this
      cases ht : r.target <;> simp only [ht] at this ⊢ <;> exact this
    · unfold PostG; simp only; omega

end Ord.Builder
