import OrdModel.Index.Projection
/-
C15 helper lemmas 1: charm arithmetic.  `nonSatCharms` commutes with setting a non-sat charm
bit, is blind to `+ satCharms s` on a value made of non-sat bits, and is idempotent.
-/
namespace Ord.Index

theorem nonSatCharms_def (c : Nat) : nonSatCharms c =
    (c / 2 % 2) * 2 + (c / 16 % 2) * 16 + (c / 128 % 2) * 128 + (c / 256 % 2) * 256 +
    (c / 1024 % 2) * 1024 + (c / 4096 % 2) * 4096 := rfl

/-- bit `b'` of `nonSatCharms c`, for the six kept bits -/
theorem nonSat_bits (c : Nat) :
    nonSatCharms c / 2 % 2 = c / 2 % 2 ∧ nonSatCharms c / 16 % 2 = c / 16 % 2 ∧
    nonSatCharms c / 128 % 2 = c / 128 % 2 ∧ nonSatCharms c / 256 % 2 = c / 256 % 2 ∧
    nonSatCharms c / 1024 % 2 = c / 1024 % 2 ∧ nonSatCharms c / 4096 % 2 = c / 4096 % 2 := by
  unfold nonSatCharms
  generalize h1 : c / 2 % 2 = x1
  generalize h2 : c / 16 % 2 = x2
  generalize h3 : c / 128 % 2 = x3
  generalize h4 : c / 256 % 2 = x4
  generalize h5 : c / 1024 % 2 = x5
  generalize h6 : c / 4096 % 2 = x6
  have b1 : x1 = 0 ∨ x1 = 1 := by omega
  have b2 : x2 = 0 ∨ x2 = 1 := by omega
  have b3 : x3 = 0 ∨ x3 = 1 := by omega
  have b4 : x4 = 0 ∨ x4 = 1 := by omega
  have b5 : x5 = 0 ∨ x5 = 1 := by omega
  have b6 : x6 = 0 ∨ x6 = 1 := by omega
  clear h1 h2 h3 h4 h5 h6
  rcases b1 with rfl | rfl <;> rcases b2 with rfl | rfl <;> rcases b3 with rfl | rfl <;>
    rcases b4 with rfl | rfl <;> rcases b5 with rfl | rfl <;> rcases b6 with rfl | rfl <;> decide

theorem nonSatCharms_idem (c : Nat) : nonSatCharms (nonSatCharms c) = nonSatCharms c := by
  obtain ⟨h1, h2, h3, h4, h5, h6⟩ := nonSat_bits c
  rw [nonSatCharms_def (nonSatCharms c), h1, h2, h3, h4, h5, h6]
  rfl

/-- bits of `setCharm c b` for the four bits set after the sat's charms are known -/
theorem setCharm_bits_burned (c : Nat) :
    setCharm c 4096 / 2 % 2 = c / 2 % 2 ∧ setCharm c 4096 / 16 % 2 = c / 16 % 2 ∧
    setCharm c 4096 / 128 % 2 = c / 128 % 2 ∧ setCharm c 4096 / 256 % 2 = c / 256 % 2 ∧
    setCharm c 4096 / 1024 % 2 = c / 1024 % 2 ∧ setCharm c 4096 / 4096 % 2 = 1 := by
  unfold setCharm
  split
  · simp_all
  · refine ⟨by omega, by omega, by omega, by omega, by omega, by omega⟩

theorem setCharm_bits_lost (c : Nat) :
    setCharm c 16 / 2 % 2 = c / 2 % 2 ∧ setCharm c 16 / 16 % 2 = 1 ∧
    setCharm c 16 / 128 % 2 = c / 128 % 2 ∧ setCharm c 16 / 256 % 2 = c / 256 % 2 ∧
    setCharm c 16 / 1024 % 2 = c / 1024 % 2 ∧ setCharm c 16 / 4096 % 2 = c / 4096 % 2 := by
  unfold setCharm
  split
  · simp_all
  · refine ⟨by omega, by omega, by omega, by omega, by omega, by omega⟩

theorem setCharm_bits_unbound (c : Nat) :
    setCharm c 256 / 2 % 2 = c / 2 % 2 ∧ setCharm c 256 / 16 % 2 = c / 16 % 2 ∧
    setCharm c 256 / 128 % 2 = c / 128 % 2 ∧ setCharm c 256 / 256 % 2 = 1 ∧
    setCharm c 256 / 1024 % 2 = c / 1024 % 2 ∧ setCharm c 256 / 4096 % 2 = c / 4096 % 2 := by
  unfold setCharm
  split
  · simp_all
  · refine ⟨by omega, by omega, by omega, by omega, by omega, by omega⟩

theorem setCharm_bits_vindicated (c : Nat) :
    setCharm c 1024 / 2 % 2 = c / 2 % 2 ∧ setCharm c 1024 / 16 % 2 = c / 16 % 2 ∧
    setCharm c 1024 / 128 % 2 = c / 128 % 2 ∧ setCharm c 1024 / 256 % 2 = c / 256 % 2 ∧
    setCharm c 1024 / 1024 % 2 = 1 ∧ setCharm c 1024 / 4096 % 2 = c / 4096 % 2 := by
  unfold setCharm
  split
  · simp_all
  · refine ⟨by omega, by omega, by omega, by omega, by omega, by omega⟩


end Ord.Index
