import OrdModel.Index.Projection
/-
C15 helper lemmas 1: charm arithmetic.  `nonSatCharms` commutes with setting a non-sat charm
bit, is blind to `+ satCharms s` on a value made of non-sat bits, and is idempotent.
-/
namespace Ord.Index

theorem nonSatCharms_def (c : Nat) : nonSatCharms c =
    (c / 2 % 2) * 2 + (c / 16 % 2) * 16 + (c / 128 % 2) * 128 + (c / 256 % 2) * 256 +
    (c / 1024 % 2) * 1024 + (c / 4096 % 2) * 4096 := rfl

/-- bit `b'` of `nonSatCharms c`, for the six kept bits -/
theorem nonSat_bits (c : Nat) :
    nonSatCharms c / 2 % 2 = c / 2 % 2 ∧ nonSatCharms c / 16 % 2 = c / 16 % 2 ∧
    nonSatCharms c / 128 % 2 = c / 128 % 2 ∧ nonSatCharms c / 256 % 2 = c / 256 % 2 ∧
    nonSatCharms c / 1024 % 2 = c / 1024 % 2 ∧ nonSatCharms c / 4096 % 2 = c / 4096 % 2 := by
  unfold nonSatCharms
  generalize h1 : c / 2 % 2 = x1
  generalize h2 : c / 16 % 2 = x2
  generalize h3 : c / 128 % 2 = x3
  generalize h4 : c / 256 % 2 = x4
  generalize h5 : c / 1024 % 2 = x5
  generalize h6 : c / 4096 % 2 = x6
  have b1 : x1 = 0 ∨ x1 = 1 := by omega
  have b2 : x2 = 0 ∨ x2 = 1 := by omega
  have b3 : x3 = 0 ∨ x3 = 1 := by omega
  have b4 : x4 = 0 ∨ x4 = 1 := by omega
  have b5 : x5 = 0 ∨ x5 = 1 := by omega
  have b6 : x6 = 0 ∨ x6 = 1 := by omega
  clear h1 h2 h3 h4 h5 h6
  rcases b1 with rfl | rfl <;> rcases b2 with rfl | rfl <;> rcases b3 with rfl | rfl <;>
    rcases b4 with rfl | rfl <;> rcases b5 with rfl | rfl <;> rcases b6 with rfl | rfl <;> decide

theorem nonSatCharms_idem (c : Nat) : nonSatCharms (nonSatCharms c) = nonSatCharms c := by
  obtain ⟨h1, h2, h3, h4, h5, h6⟩ := nonSat_bits c
  rw [nonSatCharms_def (nonSatCharms c), h1, h2, h3, h4, h5, h6]
  rfl

/-- bits of `setCharm c b` for the four bits set after the sat's charms are known -/
theorem setCharm_bits_burned (c : Nat) :
    setCharm c 4096 / 2 % 2 = c / 2 % 2 ∧ setCharm c 4096 / 16 % 2 = c / 16 % 2 ∧
    setCharm c 4096 / 128 % 2 = c / 128 % 2 ∧ setCharm c 4096 / 256 % 2 = c / 256 % 2 ∧
    setCharm c 4096 / 1024 % 2 = c / 1024 % 2 ∧ setCharm c 4096 / 4096 % 2 = 1 := by
  unfold setCharm
  split
  · simp_all
  · refine ⟨by omega, by omega, by omega, by omega, by omega, by omega⟩

theorem setCharm_bits_lost (c : Nat) :
    setCharm c 16 / 2 % 2 = c / 2 % 2 ∧ setCharm c 16 / 16 % 2 = 1 ∧
    setCharm c 16 / 128 % 2 = c / 128 % 2 ∧ setCharm c 16 / 256 % 2 = c / 256 % 2 ∧
    setCharm c 16 / 1024 % 2 = c / 1024 % 2 ∧ setCharm c 16 / 4096 % 2 = c / 4096 % 2 := by
  unfold setCharm
  split
  · simp_all
  · refine ⟨by omega, by omega, by omega, by omega, by omega, by omega⟩

theorem setCharm_bits_unbound (c : Nat) :
    setCharm c 256 / 2 % 2 = c / 2 % 2 ∧ setCharm c 256 / 16 % 2 = c / 16 % 2 ∧
    setCharm c 256 / 128 % 2 = c / 128 % 2 ∧ setCharm c 256 / 256 % 2 = 1 ∧
    setCharm c 256 / 1024 % 2 = c / 1024 % 2 ∧ setCharm c 256 / 4096 % 2 = c / 4096 % 2 := by
  unfold setCharm
  split
  · simp_all
  · refine ⟨by omega, by omega, by omega, by omega, by omega, by omega⟩

theorem setCharm_bits_vindicated (c : Nat) :
    setCharm c 1024 / 2 % 2 = c / 2 % 2 ∧ setCharm c 1024 / 16 % 2 = c / 16 % 2 ∧
    setCharm c 1024 / 128 % 2 = c / 128 % 2 ∧ setCharm c 1024 / 256 % 2 = c / 256 % 2 ∧
    setCharm c 1024 / 1024 % 2 = 1 ∧ setCharm c 1024 / 4096 % 2 = c / 4096 % 2 := by
  unfold setCharm
  split
  · simp_all
  · refine ⟨by omega, by omega, by omega, by omega, by omega, by omega⟩



theorem setCharm_def (c b : Nat) : setCharm c b = if (c / b) % 2 = 1 then c else c + b := rfl

theorem nonSatCharms_setBurned (c : Nat) :
    nonSatCharms (setCharm c charmBurned) = setCharm (nonSatCharms c) charmBurned := by
  obtain ⟨h1, h2, h3, h4, h5, h6⟩ := setCharm_bits_burned c
  obtain ⟨u0, u1, u2, u3, u4, g6⟩ := nonSat_bits c
  show nonSatCharms (setCharm c 4096) = setCharm (nonSatCharms c) 4096
  rw [nonSatCharms_def (setCharm c 4096), h1, h2, h3, h4, h5, h6, setCharm_def (nonSatCharms c), g6, nonSatCharms_def c]
  have b1 : c / 2 % 2 < 2 := Nat.mod_lt _ (by decide)
  have b2 : c / 16 % 2 < 2 := Nat.mod_lt _ (by decide)
  have b3 : c / 128 % 2 < 2 := Nat.mod_lt _ (by decide)
  have b4 : c / 256 % 2 < 2 := Nat.mod_lt _ (by decide)
  have b5 : c / 1024 % 2 < 2 := Nat.mod_lt _ (by decide)
  have b6 : c / 4096 % 2 < 2 := Nat.mod_lt _ (by decide)
  clear h1 h2 h3 h4 h5 h6
  generalize c / 2 % 2 = x1 at *
  generalize c / 16 % 2 = x2 at *
  generalize c / 128 % 2 = x3 at *
  generalize c / 256 % 2 = x4 at *
  generalize c / 1024 % 2 = x5 at *
  generalize c / 4096 % 2 = x6 at *
  generalize nonSatCharms c = y at *
  split <;> omega

theorem nonSatCharms_setLost (c : Nat) :
    nonSatCharms (setCharm c charmLost) = setCharm (nonSatCharms c) charmLost := by
  obtain ⟨h1, h2, h3, h4, h5, h6⟩ := setCharm_bits_lost c
  obtain ⟨u0, g2, u2, u3, u4, u5⟩ := nonSat_bits c
  show nonSatCharms (setCharm c 16) = setCharm (nonSatCharms c) 16
  rw [nonSatCharms_def (setCharm c 16), h1, h2, h3, h4, h5, h6, setCharm_def (nonSatCharms c), g2, nonSatCharms_def c]
  have b1 : c / 2 % 2 < 2 := Nat.mod_lt _ (by decide)
  have b2 : c / 16 % 2 < 2 := Nat.mod_lt _ (by decide)
  have b3 : c / 128 % 2 < 2 := Nat.mod_lt _ (by decide)
  have b4 : c / 256 % 2 < 2 := Nat.mod_lt _ (by decide)
  have b5 : c / 1024 % 2 < 2 := Nat.mod_lt _ (by decide)
  have b6 : c / 4096 % 2 < 2 := Nat.mod_lt _ (by decide)
  clear h1 h2 h3 h4 h5 h6
  generalize c / 2 % 2 = x1 at *
  generalize c / 16 % 2 = x2 at *
  generalize c / 128 % 2 = x3 at *
  generalize c / 256 % 2 = x4 at *
  generalize c / 1024 % 2 = x5 at *
  generalize c / 4096 % 2 = x6 at *
  generalize nonSatCharms c = y at *
  split <;> omega

theorem nonSatCharms_setUnbound (c : Nat) :
    nonSatCharms (setCharm c charmUnbound) = setCharm (nonSatCharms c) charmUnbound := by
  obtain ⟨h1, h2, h3, h4, h5, h6⟩ := setCharm_bits_unbound c
  obtain ⟨u0, u1, u2, g4, u4, u5⟩ := nonSat_bits c
  show nonSatCharms (setCharm c 256) = setCharm (nonSatCharms c) 256
  rw [nonSatCharms_def (setCharm c 256), h1, h2, h3, h4, h5, h6, setCharm_def (nonSatCharms c), g4, nonSatCharms_def c]
  have b1 : c / 2 % 2 < 2 := Nat.mod_lt _ (by decide)
  have b2 : c / 16 % 2 < 2 := Nat.mod_lt _ (by decide)
  have b3 : c / 128 % 2 < 2 := Nat.mod_lt _ (by decide)
  have b4 : c / 256 % 2 < 2 := Nat.mod_lt _ (by decide)
  have b5 : c / 1024 % 2 < 2 := Nat.mod_lt _ (by decide)
  have b6 : c / 4096 % 2 < 2 := Nat.mod_lt _ (by decide)
  clear h1 h2 h3 h4 h5 h6
  generalize c / 2 % 2 = x1 at *
  generalize c / 16 % 2 = x2 at *
  generalize c / 128 % 2 = x3 at *
  generalize c / 256 % 2 = x4 at *
  generalize c / 1024 % 2 = x5 at *
  generalize c / 4096 % 2 = x6 at *
  generalize nonSatCharms c = y at *
  split <;> omega

theorem nonSatCharms_setVindicated (c : Nat) :
    nonSatCharms (setCharm c charmVindicated) = setCharm (nonSatCharms c) charmVindicated := by
  obtain ⟨h1, h2, h3, h4, h5, h6⟩ := setCharm_bits_vindicated c
  obtain ⟨u0, u1, u2, u3, g5, u5⟩ := nonSat_bits c
  show nonSatCharms (setCharm c 1024) = setCharm (nonSatCharms c) 1024
  rw [nonSatCharms_def (setCharm c 1024), h1, h2, h3, h4, h5, h6, setCharm_def (nonSatCharms c), g5, nonSatCharms_def c]
  have b1 : c / 2 % 2 < 2 := Nat.mod_lt _ (by decide)
  have b2 : c / 16 % 2 < 2 := Nat.mod_lt _ (by decide)
  have b3 : c / 128 % 2 < 2 := Nat.mod_lt _ (by decide)
  have b4 : c / 256 % 2 < 2 := Nat.mod_lt _ (by decide)
  have b5 : c / 1024 % 2 < 2 := Nat.mod_lt _ (by decide)
  have b6 : c / 4096 % 2 < 2 := Nat.mod_lt _ (by decide)
  clear h1 h2 h3 h4 h5 h6
  generalize c / 2 % 2 = x1 at *
  generalize c / 16 % 2 = x2 at *
  generalize c / 128 % 2 = x3 at *
  generalize c / 256 % 2 = x4 at *
  generalize c / 1024 % 2 = x5 at *
  generalize c / 4096 % 2 = x6 at *
  generalize nonSatCharms c = y at *
  split <;> omega

theorem hasCharm_nonSat_vindicated (c : Nat) :
    hasCharm (nonSatCharms c) charmVindicated = hasCharm c charmVindicated := by
  obtain ⟨_, _, _, _, g5, _⟩ := nonSat_bits c
  show (nonSatCharms c / 1024 % 2 == 1) = (c / 1024 % 2 == 1)
  rw [g5]

/-- `rarityCharm` is one of six values -/

theorem rarityCharm_cases (s : Nat) :
    rarityCharm s = 2048 ∨ rarityCharm s = 8 ∨ rarityCharm s = 4 ∨ rarityCharm s = 64 ∨ rarityCharm s = 512 ∨
    rarityCharm s = 0 := by
  unfold rarityCharm charmMythic charmLegendary charmEpic charmRare charmUncommon
  simp only []
  split
  · exact Or.inl rfl
  · split
    · exact Or.inr (Or.inl rfl)
    · split
      · exact Or.inr (Or.inr (Or.inl rfl))
      · split
        · exact Or.inr (Or.inr (Or.inr (Or.inl rfl)))
        · split
          · exact Or.inr (Or.inr (Or.inr (Or.inr (Or.inl rfl))))
          · exact Or.inr (Or.inr (Or.inr (Or.inr (Or.inr rfl))))

/-- the shape of `Sat::charms`: a sum of distinct sat-derived bits -/

theorem satCharms_shape (s : Nat) : ∃ a b c r : Nat, (a = 0 ∨ a = 1) ∧ (b = 0 ∨ b = 1) ∧ (c = 0 ∨ c = 1) ∧
    (r = 2048 ∨ r = 8 ∨ r = 4 ∨ r = 64 ∨ r = 512 ∨ r = 0) ∧ satCharms s = 32 * a + 8192 * b + c + r := by
  refine ⟨if 45000000000 ≤ s ∧ s < 50000000000 then 1 else 0, if satPalindrome s then 1 else 0,
    if s % 100000000 = 0 then 1 else 0, rarityCharm s, ?_, ?_, ?_, rarityCharm_cases s, ?_⟩
  · split <;> simp
  · split <;> simp
  · split <;> simp
  · unfold satCharms charmNineball charmPalindrome charmCoin
    split <;> split <;> split <;> omega

/-- adding the sat's charms to a value made of `cursed`/`reinscription` bits is invisible -/

theorem nonSatCharms_add_satCharms (c1 s : Nat) (h : c1 = 0 ∨ c1 = 2 ∨ c1 = 128 ∨ c1 = 130) :
    nonSatCharms (c1 + satCharms s) = c1 := by
  obtain ⟨a, b, c, r, ha, hb, hc, hr, he⟩ := satCharms_shape s
  rw [he]
  rcases h with rfl | rfl | rfl | rfl <;>
    rcases hr with rfl | rfl | rfl | rfl | rfl | rfl <;>
    rcases ha with rfl | rfl <;> rcases hb with rfl | rfl <;> rcases hc with rfl | rfl <;> rfl

theorem nonSatCharms_c1 (c1 : Nat) (h : c1 = 0 ∨ c1 = 2 ∨ c1 = 128 ∨ c1 = 130) : nonSatCharms c1 = c1 := by
  rcases h with rfl | rfl | rfl | rfl <;> rfl

/-- the value before the sat's charms are or-ed in -/

theorem c1_cases (cursed reinscription : Bool) :
    (if reinscription then setCharm (if cursed then charmCursed else 0) charmReinscription
      else (if cursed then charmCursed else 0)) = 0 ∨
    (if reinscription then setCharm (if cursed then charmCursed else 0) charmReinscription
      else (if cursed then charmCursed else 0)) = 2 ∨
    (if reinscription then setCharm (if cursed then charmCursed else 0) charmReinscription
      else (if cursed then charmCursed else 0)) = 128 ∨
    (if reinscription then setCharm (if cursed then charmCursed else 0) charmReinscription
      else (if cursed then charmCursed else 0)) = 130 := by
  cases cursed <;> cases reinscription <;> decide

end Ord.Index
