import OrdModel.Proofs.IndexSchedFrameRunes
/-
Lift of the inscription-side invariants, part 4: the rune pass (`indexRunesBlock`) writes only
the rune tables (`runeEntries`, `rune2id`, `balances`, `txid2rune`, `seq2rune`, `runes`,
`reservedRunes`); every other field of the state — in particular every inscription table and
counter — is left alone.
-/
namespace Ord.Index.InsLift
open Ord Ord.Index Outcome Sched

/-- the state with the rune tables blanked: everything the rune pass does not write -/
def insView (st : State) : State :=
  { st with runeEntries := [], rune2id := [], balances := [], txid2rune := [], seq2rune := [], runes := 0,
            reservedRunes := 0 }

theorem mint_iv (st : State) (height : Nat) (id : RuneId) : insView (mint st height id).1 = insView st := by
  unfold mint
  split
  · rfl
  · split
    · rfl
    · rfl

theorem etched_iv (st : State) (blk : Block) (i : Nat) (tx : Tx) (art : Artifact) (r : State × Option (RuneId × Nat))
    (h : etched st blk i tx art = .ok r) : insView r.1 = insView st := by
  unfold etched at h
  extract_lets named at h
  clear_value named
  split at h
  · obtain rfl := Outcome.ok.inj h; rfl
  · split at h
    · obtain rfl := Outcome.ok.inj h; rfl
    · split at h
      · simp at h
      · simp at h
      · obtain rfl := Outcome.ok.inj h; rfl
      · obtain rfl := Outcome.ok.inj h; rfl
  · obtain rfl := Outcome.ok.inj h; rfl

theorem createRuneEntry_iv (st : State) (blk : Block) (tx : Tx) (art : Artifact) (id : RuneId) (rune : Nat) :
    insView (createRuneEntry st blk tx art id rune).1 = insView st := by
  unfold createRuneEntry
  extract_lets number entry st1 st2
  show insView st2 = insView st
  simp only [st2]
  split
  · rfl
  · rfl

theorem takeInputs_iv (ins : List TxIn) (st : State) (un : Balances) (r : State × Balances)
    (h : takeInputs ins st un = .ok r) : insView r.1 = insView st := by
  induction ins generalizing st un with
  | nil => simp only [takeInputs, Outcome.ok.injEq] at h; subst h; rfl
  | cons i rest ih =>
    simp only [takeInputs] at h
    split at h
    · exact ih _ _ h
    · split at h
      · exact (ih _ _ h).trans rfl
      · simp at h
      · simp at h

theorem writeOutputs_iv (blk : Block) (tx : Tx) (l : List (Nat × Balances)) (st : State) (burned : Balances)
    (evs : List Event) (r : State × Balances × List Event)
    (h : writeOutputs blk tx l st burned evs = .ok r) : insView r.1 = insView st := by
  induction l generalizing st burned evs with
  | nil => simp only [writeOutputs, Outcome.ok.injEq] at h; subst h; rfl
  | cons p rest ih =>
    obtain ⟨vout, bs⟩ := p
    simp only [writeOutputs] at h
    repeat' (split at h)
    all_goals first | (exact (ih _ _ _ h).trans rfl) | (simp at h; done)

theorem flushBurned_iv (bb : Balances) (st st' : State) (h : flushBurned bb st = .ok st') :
    insView st' = insView st := by
  induction bb generalizing st with
  | nil => simp only [flushBurned, Outcome.ok.injEq] at h; subst h; rfl
  | cons p rest ih =>
    obtain ⟨id, b⟩ := p
    simp only [flushBurned] at h
    split at h
    · simp at h
    · split at h
      · simp at h
      · exact (ih _ h).trans rfl

theorem rtxMint_iv (st0 : State) (un0 : Balances) (blk : Block) (tx : Tx) (mintId : Option RuneId) :
    insView (rtxMint st0 un0 blk tx mintId).1 = insView st0 := by
  unfold rtxMint
  cases mintId with
  | none => rfl
  | some id =>
    simp only
    have := mint_iv st0 blk.height id
    cases hm : mint st0 blk.height id with
    | mk s o =>
      rw [hm] at this
      cases o <;> exact this

theorem rtxEtch_iv (blk : Block) (txIndex : Nat) (tx : Tx) (art : Artifact) (alloc0 : Allocated)
    (st1 : State) (un1O : Outcome Balances) (ev1 : List Event) (q : State × Balances × Allocated × List Event)
    (h : rtxEtch blk txIndex tx art alloc0 st1 un1O ev1 = .ok q) : insView q.1 = insView st1 := by
  unfold rtxEtch at h
  cases un1O with
  | panic s => cases h
  | err e => cases h
  | ok un1 =>
    simp only at h
    cases he : etched st1 blk txIndex tx art with
    | panic s => rw [he] at h; cases h
    | err e => rw [he] at h; cases h
    | ok r =>
      obtain ⟨st2, et⟩ := r
      have fe := etched_iv _ _ _ _ _ _ he
      rw [he] at h
      simp only at h fe
      cases hr : rtxEdicts tx art alloc0 un1 et with
      | panic s => rw [hr] at h; cases h
      | err e => rw [hr] at h; cases h
      | ok r2 =>
        obtain ⟨un3, alloc1⟩ := r2
        rw [hr] at h
        cases et with
        | none =>
          simp only [Outcome.ok.injEq] at h
          rw [← h]; exact fe
        | some p =>
          obtain ⟨id, rune⟩ := p
          simp only [Outcome.ok.injEq] at h
          rw [← h]
          exact (createRuneEntry_iv _ _ _ _ _ _).trans fe

theorem rtxPhase1_iv (st0 : State) (un0 : Balances) (blk : Block) (txIndex : Nat) (tx : Tx)
    (q : State × Balances × Allocated × List Event)
    (h : rtxPhase1 st0 un0 blk txIndex tx = .ok q) : insView q.1 = insView st0 := by
  unfold rtxPhase1 at h
  cases ha : tx.artifact with
  | none =>
    rw [ha] at h
    simp only [Outcome.ok.injEq] at h
    rw [← h]
  | some art =>
    rw [ha] at h
    simp only at h
    exact (rtxEtch_iv _ _ _ _ _ _ _ _ _ h).trans (rtxMint_iv _ _ _ _ _)

theorem rtxRest_iv (blk : Block) (tx : Tx) (bb : Balances) (st3 : State) (un : Balances)
    (alloc : Allocated) (evs : List Event) (r : State × Balances × List Event)
    (h : rtxRest blk tx bb st3 un alloc evs = .ok r) : insView r.1 = insView st3 := by
  unfold rtxRest at h
  cases hp : rtxPhase2 tx un alloc with
  | panic s => rw [hp] at h; cases h
  | err e => rw [hp] at h; cases h
  | ok r1 =>
    obtain ⟨alloc2, burned0⟩ := r1
    rw [hp] at h
    simp only at h
    cases hw : writeOutputs blk tx (enumFrom 0 alloc2) st3 burned0 evs with
    | panic s => rw [hw] at h; cases h
    | err e => rw [hw] at h; cases h
    | ok r2 =>
      obtain ⟨st4, burned, evs2⟩ := r2
      have fw := writeOutputs_iv _ _ _ _ _ _ _ hw
      rw [hw] at h
      simp only at h fw
      cases hadd : addAllTo burned bb false with
      | panic s => rw [hadd] at h; cases h
      | err e => rw [hadd] at h; cases h
      | ok b =>
        rw [hadd] at h
        simp only [Outcome.ok.injEq] at h
        rw [← h]; exact fw

theorem indexRunesTx_iv (st : State) (blk : Block) (i : Nat) (tx : Tx) (bb : Balances)
    (r : State × Balances × List Event) (h : indexRunesTx st blk i tx bb = .ok r) :
    insView r.1 = insView st := by
  rw [Sched.indexRunesTx_eq] at h
  cases ht : takeInputs tx.inputs st [] with
  | panic s => rw [ht] at h; cases h
  | err e => rw [ht] at h; cases h
  | ok r0 =>
    obtain ⟨st0, un0⟩ := r0
    have f0 := takeInputs_iv _ _ _ _ ht
    rw [ht] at h
    simp only at h f0
    cases hp : rtxPhase1 st0 un0 blk i tx with
    | panic s => rw [hp] at h; cases h
    | err e => rw [hp] at h; cases h
    | ok q =>
      obtain ⟨st3, un, alloc, evs⟩ := q
      have f1 := rtxPhase1_iv _ _ _ _ _ _ hp
      rw [hp] at h
      simp only at h f1
      exact ((rtxRest_iv _ _ _ _ _ _ _ _ h).trans f1).trans f0

theorem indexRunesBlock_go_iv (blk : Block) (l : List (Nat × Tx)) (st : State) (bb : Balances) (evs : List Event)
    (r : State × Balances × List Event) (h : indexRunesBlock.go blk l st bb evs = .ok r) :
    insView r.1 = insView st := by
  induction l generalizing st bb evs with
  | nil => simp only [indexRunesBlock.go, Outcome.ok.injEq] at h; subst h; rfl
  | cons p rest ih =>
    obtain ⟨i, tx⟩ := p
    simp only [indexRunesBlock.go] at h
    split at h
    · simp at h
    · simp at h
    · rename_i st' bb' evs' h1
      exact (ih _ _ _ h).trans (indexRunesTx_iv _ _ _ _ _ _ h1)

/-- the rune pass leaves every non-rune field alone -/
theorem indexRunesBlock_iv (st : State) (blk : Block) (r : State × List Event)
    (h : indexRunesBlock st blk = .ok r) : insView r.1 = insView st := by
  unfold indexRunesBlock at h
  split at h
  · simp at h
  · simp at h
  · rename_i st1 bb evs h1
    have f1 := indexRunesBlock_go_iv _ _ _ _ _ _ h1
    split at h
    · simp at h
    · simp at h
    · rename_i st2 h2
      obtain rfl := Outcome.ok.inj h
      exact (flushBurned_iv _ _ _ h2).trans f1

end Ord.Index.InsLift
