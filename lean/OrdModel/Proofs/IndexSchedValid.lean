import OrdModel.Proofs.IndexSchedMain
import OrdModel.Index.Valid
/-
C12 helper lemmas 10: the chain-validity predicate of C16 (`Valid.validChain`: consensus rules as
far as the indexer can tell) implies C12's `ChainCond`.
-/
namespace Ord.Index.Sched
open Ord Ord.Index

/-- no key of the spec-level UTXO set has the all-zero txid -/
def UOk (u : Valid.Utxos) : Prop := ∀ p ∈ u, p.1.txid ≠ 0

theorem lookup_mem (u : Valid.Utxos) (op : OutPoint) (v : Nat) (h : Valid.lookup u op = some v) : (op, v) ∈ u := by
  induction u with
  | nil => simp [Valid.lookup] at h
  | cons p rest ih =>
    obtain ⟨o, w⟩ := p
    simp only [Valid.lookup] at h
    split at h
    · rename_i heq
      have : o = op := by simpa using heq
      simp only [Option.some.injEq] at h
      subst this; subst h; exact List.mem_cons_self
    · exact List.mem_cons_of_mem _ (ih h)

theorem remove_sub (u : Valid.Utxos) (op : OutPoint) (p : OutPoint × Nat) (h : p ∈ Valid.remove u op) : p ∈ u := by
  induction u with
  | nil => simp [Valid.remove] at h
  | cons q rest ih =>
    obtain ⟨o, w⟩ := q
    simp only [Valid.remove] at h
    split at h
    · exact List.mem_cons_of_mem _ h
    · rcases List.mem_cons.1 h with h | h
      · rw [h]; exact List.mem_cons_self
      · exact List.mem_cons_of_mem _ (ih h)

theorem nonspecial_of_txid {op : OutPoint} (h : op.txid ≠ 0) : op.isSpecial = false := by
  cases hs : op.isSpecial with
  | false => rfl
  | true => exact absurd (special_txid hs) h

theorem spendInputs_ok (ins : List TxIn) (u u' : Valid.Utxos) (vs : List Nat)
    (h : Valid.spendInputs ins u = some (u', vs)) (hu : UOk u) :
    UOk u' ∧ ∀ i ∈ ins, i.prev.isSpecial = false := by
  induction ins generalizing u u' vs with
  | nil =>
    simp only [Valid.spendInputs, Option.some.injEq, Prod.mk.injEq] at h
    rw [← h.1]; exact ⟨hu, fun _ hi => (by cases hi)⟩
  | cons i rest ih =>
    simp only [Valid.spendInputs] at h
    split at h
    · cases h
    · split at h
      · cases h
      · rename_i v hl
        split at h
        · cases h
        · rename_i u1 vs1 hr
          simp only [Option.some.injEq, Prod.mk.injEq] at h
          have hu1 : UOk (Valid.remove u i.prev) := fun p hp => hu p (remove_sub _ _ p hp)
          obtain ⟨h1, h2⟩ := ih _ _ _ hr hu1
          rw [← h.1]
          refine ⟨h1, ?_⟩
          intro j hj
          rcases List.mem_cons.1 hj with hj | hj
          · subst hj
            exact nonspecial_of_txid (hu _ (lookup_mem _ _ _ hl))
          · exact h2 j hj

theorem newOutputs_ok (txid : Txid) (outs : List Nat) (h : txid ≠ 0) : UOk (Valid.newOutputs txid outs) := by
  intro p hp
  simp only [Valid.newOutputs, List.mem_map] at hp
  obtain ⟨q, _, hq⟩ := hp
  rw [← hq]; exact h

theorem UOk.append {u v : Valid.Utxos} (hu : UOk u) (hv : UOk v) : UOk (u ++ v) := by
  intro p hp
  rcases List.mem_append.1 hp with h | h
  · exact hu p h
  · exact hv p h

theorem txWellFormed_nonzero (tx : Tx) (h : Valid.txWellFormed tx = true) : tx.txid ≠ 0 := by
  simp only [Valid.txWellFormed, Valid.txidNonZero, Bool.and_eq_true, bne_iff_ne, ne_eq] at h
  exact h.1.1.1.1

theorem checkTx_ok (height : Nat) (u u' : Valid.Utxos) (tx : Tx) (fee : Nat)
    (h : Valid.checkTx height u tx = some (u', fee)) (hu : UOk u) :
    UOk u' ∧ tx.txid ≠ 0 ∧ ∀ i ∈ tx.inputs, i.prev.isSpecial = false := by
  simp only [Valid.checkTx] at h
  split at h
  · cases h
  · rename_i u1 spent hs
    split at h
    · rename_i hc
      simp only [Bool.and_eq_true] at hc
      have h0 := txWellFormed_nonzero tx hc.1.1.1
      simp only [Option.some.injEq, Prod.mk.injEq] at h
      obtain ⟨h1, h2⟩ := spendInputs_ok _ _ _ _ hs hu
      rw [← h.1]
      exact ⟨h1.append (newOutputs_ok _ _ h0), h0, h2⟩
    · cases h

theorem checkTxs_ok (height : Nat) (txs : List Tx) (u u' : Valid.Utxos) (fees fees' : Nat)
    (h : Valid.checkTxs height txs u fees = some (u', fees')) (hu : UOk u) :
    UOk u' ∧ ∀ tx ∈ txs, tx.txid ≠ 0 ∧ ∀ i ∈ tx.inputs, i.prev.isSpecial = false := by
  induction txs generalizing u fees with
  | nil =>
    simp only [Valid.checkTxs, Option.some.injEq, Prod.mk.injEq] at h
    rw [← h.1]; exact ⟨hu, fun _ ht => (by cases ht)⟩
  | cons tx rest ih =>
    simp only [Valid.checkTxs] at h
    split at h
    · cases h
    · rename_i u1 fee hc
      obtain ⟨h1, h2, h3⟩ := checkTx_ok _ _ _ _ _ hc hu
      obtain ⟨h4, h5⟩ := ih _ _ h h1
      refine ⟨h4, ?_⟩
      intro t ht
      rcases List.mem_cons.1 ht with ht | ht
      · subst ht; exact ⟨h2, h3⟩
      · exact h5 t ht

theorem freshTxids_ok (l : List Txid) (seen seen' : List Txid) (h : Valid.freshTxids seen l = some seen')
    (hn : seen.Nodup) : seen'.Nodup ∧ l.Nodup ∧ (∀ t ∈ l, t ∉ seen) ∧ ∀ t, t ∈ seen' ↔ t ∈ seen ∨ t ∈ l := by
  induction l generalizing seen with
  | nil =>
    simp only [Valid.freshTxids, Option.some.injEq] at h
    subst h
    exact ⟨hn, List.nodup_nil, fun _ ht => (by cases ht), fun t => (by simp)⟩
  | cons t rest ih =>
    simp only [Valid.freshTxids] at h
    split at h
    · cases h
    · rename_i hc
      have htn : t ∉ seen := by simpa using hc
      obtain ⟨h1, h2, h3, h4⟩ := ih (t :: seen) h (List.nodup_cons.2 ⟨htn, hn⟩)
      refine ⟨h1, List.nodup_cons.2 ⟨fun hm => h3 t hm List.mem_cons_self, h2⟩, ?_, ?_⟩
      · intro x hx
        rcases List.mem_cons.1 hx with hx | hx
        · subst hx; exact htn
        · exact fun hs => h3 x hx (List.mem_cons_of_mem _ hs)
      · intro x
        rw [h4 x]
        simp only [List.mem_cons]
        constructor
        · rintro ((h | h) | h)
          · exact Or.inr (Or.inl h)
          · exact Or.inl h
          · exact Or.inr (Or.inr h)
        · rintro (h | h | h)
          · exact Or.inl (Or.inr h)
          · exact Or.inl (Or.inl h)
          · exact Or.inr h

theorem checkBlock_ok (st st' : Valid.VState) (blk : Block) (h : Valid.checkBlock st blk = some st')
    (hu : UOk st.utxos) (hn : st.txids.Nodup) :
    UOk st'.utxos ∧ st'.txids.Nodup ∧ (∀ tx ∈ blk.txs, tx.txid ≠ 0) ∧
    (∀ tx ∈ blk.txs.drop 1, ∀ i ∈ tx.inputs, i.prev.isSpecial = false) ∧
    (blk.txs.map (·.txid)).Nodup ∧ (∀ t ∈ blk.txs.map (·.txid), t ∉ st.txids) ∧
    (∀ t, t ∈ st'.txids ↔ t ∈ st.txids ∨ t ∈ blk.txs.map (·.txid)) := by
  unfold Valid.checkBlock at h
  split at h
  · cases h
  · rename_i cb rest htxs
    split at h
    · cases h
    · split at h
      · cases h
      · -- block-size guard (`maxBlockTxs`)
        split at h
        · cases h
        · rename_i hcb
          have hcb : Valid.coinbaseShape cb = true ∧ Valid.txWellFormed cb = true := by
            cases h1 : Valid.coinbaseShape cb <;> cases h2 : Valid.txWellFormed cb <;> simp_all
          split at h
          · cases h
          · rename_i txids hf
            split at h
            · cases h
            · rename_i u fees hc
              dsimp only at h
              split at h
              · simp only [Option.some.injEq] at h
                obtain ⟨f1, f2, f3, f4⟩ := freshTxids_ok _ _ _ hf hn
                obtain ⟨c1, c2⟩ := checkTxs_ok _ _ _ _ _ _ hc hu
                have h0 := txWellFormed_nonzero cb hcb.2
                rw [← h]
                refine ⟨c1.append (newOutputs_ok _ _ h0), f1, ?_, ?_, ?_, ?_, ?_⟩
                · intro tx ht
                  rw [htxs] at ht
                  rcases List.mem_cons.1 ht with ht | ht
                  · subst ht; exact h0
                  · exact (c2 tx ht).1
                · intro tx ht
                  rw [htxs] at ht
                  exact (c2 tx (by simpa using ht)).2
                · exact f2
                · exact f3
                · exact f4
              · cases h

theorem checkChain_ok (chain : List Block) (st st' : Valid.VState) (h : Valid.checkChain chain st = some st')
    (hu : UOk st.utxos) (hn : st.txids.Nodup) :
    (chainTxids chain).Nodup ∧ (∀ t ∈ chainTxids chain, t ∉ st.txids) ∧
    (∀ b ∈ chain, ∀ tx ∈ b.txs, tx.txid ≠ 0) ∧
    (∀ b ∈ chain, ∀ tx ∈ b.txs.drop 1, ∀ i ∈ tx.inputs, i.prev.isSpecial = false) := by
  induction chain generalizing st with
  | nil => exact ⟨List.nodup_nil, fun _ h => (by cases h), fun _ h => (by cases h), fun _ h => (by cases h)⟩
  | cons b bs ih =>
    simp only [Valid.checkChain] at h
    split at h
    · cases h
    · rename_i st1 hb
      obtain ⟨b1, b2, b3, b4, b5, b6, b7⟩ := checkBlock_ok _ _ _ hb hu hn
      obtain ⟨i1, i2, i3, i4⟩ := ih st1 h b1 b2
      rw [chainTxids_cons]
      refine ⟨?_, ?_, ?_, ?_⟩
      · rw [List.nodup_append]
        refine ⟨b5, i1, ?_⟩
        intro x hx y hy hxy
        subst hxy
        exact i2 x hy ((b7 x).2 (Or.inr hx))
      · intro t ht
        rcases List.mem_append.1 ht with ht | ht
        · exact b6 t ht
        · exact fun hs => i2 t ht ((b7 t).2 (Or.inl hs))
      · intro b' hb'
        rcases List.mem_cons.1 hb' with hb' | hb'
        · subst hb'; exact b3
        · exact i3 b' hb'
      · intro b' hb'
        rcases List.mem_cons.1 hb' with hb' | hb'
        · subst hb'; exact b4
        · exact i4 b' hb'

/-- a consensus-valid chain (C16's predicate) satisfies C12's conditions -/
theorem ChainCond.of_validChain (chain : List Block) (h : Valid.validChain chain = true) : ChainCond chain := by
  unfold Valid.validChain at h
  cases hc : Valid.checkChain chain {} with
  | none => rw [hc] at h; cases h
  | some st' =>
    obtain ⟨h1, _, h3, h4⟩ := checkChain_ok chain {} st' hc (fun _ hp => by cases hp) List.nodup_nil
    exact ⟨h1, h3, h4⟩

end Ord.Index.Sched
