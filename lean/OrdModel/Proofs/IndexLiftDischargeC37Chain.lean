import OrdModel.Proofs.IndexLiftDischargeC37Block
import OrdModel.Proofs.IndexLiftDischargeChain
import OrdModel.Proofs.IndexMiscReplayBurned
/-
C37, inscription components, part 4: all transactions of a block, the commit (`flushCache`: this
is where SEQUENCE_NUMBER_TO_SATPOINT is written, from the `ins` lists of the flushed entries), the
rune pass (emits no inscription event), `applyBlock`, and the chain.

At the commit C04's invariant is used twice: `InsPartitioned` of the state after the block turns
"listed at `(o, off)` in the committed UTXO table" into "`seq2sp` row `(o, off)`", and
`InsPartitioned` of the state before the block shows that re-writing the rows of the inscriptions
already sitting at the null / unbound outpoint (the flush merges those entries) changes nothing.
-/
namespace Ord.Index.ReplayIns
open Ord Ord.Index Outcome Sched Insloc InsLift

/-! ### all transactions of a block -/

theorem indexTxs_btrack (c : List Block) (cfg : Cfg) (blk : Block) (insOn : Bool) (rs0 : ReplayState)
    (hz : isOpReturnOut c OutPoint.null = false) (l : List (Nat × Tx)) (seen : List Txid)
    (h0 : ∀ p ∈ l, p.2.txid ≠ 0) (hnd : (l.map (·.2.txid)).Nodup) (hfresh : ∀ p ∈ l, p.2.txid ∉ seen)
    (hsp : ∀ p ∈ l, p.1 ≠ 0 → ∀ i ∈ p.2.inputs, i.prev.isSpecial = false)
    (hfind : ∀ p ∈ l, findTx c p.2.txid = some p.2)
    (bc bc' : BlockCtx) (hinv : MInv cfg seen bc) (hoff : insOn = false → bc.st.entries.length = 0)
    (hB : BTrack c rs0 bc) (h : indexTxs cfg blk insOn l bc = .ok bc') : BTrack c rs0 bc' := by
  induction l generalizing seen bc with
  | nil =>
    simp only [indexTxs, Outcome.ok.injEq] at h
    subst h; exact hB
  | cons p rest ih =>
    obtain ⟨i, tx⟩ := p
    simp only [indexTxs] at h
    split at h
    · cases h
    · cases h
    · rename_i bc1 h1
      have hB1 := indexTx_btrack c cfg blk insOn i tx seen bc bc1 rs0 hinv (h0 (i, tx) List.mem_cons_self)
        (hfresh (i, tx) List.mem_cons_self) (hsp (i, tx) List.mem_cons_self) hoff
        (hfind (i, tx) List.mem_cons_self) hz hB h1
      obtain ⟨m1, _, _, off1⟩ := indexTx_minv cfg blk insOn i tx seen bc bc1 hinv (h0 (i, tx) List.mem_cons_self)
        (hfresh (i, tx) List.mem_cons_self) (hsp (i, tx) List.mem_cons_self) hoff h1
      simp only [List.map_cons, List.nodup_cons] at hnd
      have hoff1 : insOn = false → bc1.st.entries.length = 0 := by
        intro hi; rw [(off1 hi).1]; exact hoff hi
      exact ih (tx.txid :: seen) (fun p hp => h0 p (List.mem_cons_of_mem _ hp)) hnd.2
        (fun p hp => by
          intro hcon
          rcases List.mem_cons.1 hcon with hc | hc
          · exact hnd.1 (List.mem_map.2 ⟨p, hp, hc⟩)
          · exact hfresh p (List.mem_cons_of_mem _ hp) hc)
        (fun p hp => hsp p (List.mem_cons_of_mem _ hp))
        (fun p hp => hfind p (List.mem_cons_of_mem _ hp)) bc1 m1 hoff1 hB1 h

/-! ### replaying events that do not name a sequence number -/

theorem applyEvent_loc_ne (c : List Block) (rs : ReplayState) (e : Event) (s : Nat) (h : evSeq e ≠ some s) :
    AL.get (applyEvent c rs e).loc s = AL.get rs.loc s := by
  cases e with
  | inscriptionCreated _ _ _ loc _ q =>
    have hq : q ≠ s := fun hq => h (by rw [hq]; rfl)
    cases loc <;> exact AL.get_set_ne _ _ hq
  | inscriptionTransferred _ _ _ _ q =>
    have hq : q ≠ s := fun hq => h (by rw [hq]; rfl)
    exact AL.get_set_ne _ _ hq
  | runeBurned => rfl
  | runeEtched => rfl
  | runeMinted => rfl
  | runeTransferred => rfl

theorem foldl_loc_untouched (c : List Block) (evs : List Event) (rs : ReplayState) (s : Nat)
    (h : s ∉ evs.filterMap evSeq) : AL.get (evs.foldl (applyEvent c) rs).loc s = AL.get rs.loc s := by
  induction evs generalizing rs with
  | nil => rfl
  | cons e rest ih =>
    simp only [List.foldl_cons]
    have h1 : evSeq e ≠ some s := by
      intro he
      apply h
      simp [he]
    have h2 : s ∉ rest.filterMap evSeq := by
      intro hm
      apply h
      rw [List.filterMap_cons]
      split
      · exact hm
      · exact List.mem_cons_of_mem _ hm
    rw [ih _ h2, applyEvent_loc_ne c rs e s h1]

theorem applyEvent_noSeq (c : List Block) (rs : ReplayState) (e : Event) (h : evSeq e = none) :
    (applyEvent c rs e).loc = rs.loc ∧ (applyEvent c rs e).ids = rs.ids ∧
    (applyEvent c rs e).charms = rs.charms ∧ (applyEvent c rs e).unbound = rs.unbound := by
  cases e with
  | inscriptionCreated => cases h
  | inscriptionTransferred => cases h
  | runeBurned => exact ⟨rfl, rfl, rfl, rfl⟩
  | runeEtched => exact ⟨rfl, rfl, rfl, rfl⟩
  | runeMinted => exact ⟨rfl, rfl, rfl, rfl⟩
  | runeTransferred => exact ⟨rfl, rfl, rfl, rfl⟩

theorem foldl_noSeq (c : List Block) (evs : List Event) (rs : ReplayState) (h : ∀ e ∈ evs, evSeq e = none) :
    (evs.foldl (applyEvent c) rs).loc = rs.loc ∧ (evs.foldl (applyEvent c) rs).ids = rs.ids ∧
    (evs.foldl (applyEvent c) rs).charms = rs.charms ∧ (evs.foldl (applyEvent c) rs).unbound = rs.unbound := by
  induction evs generalizing rs with
  | nil => exact ⟨rfl, rfl, rfl, rfl⟩
  | cons e rest ih =>
    simp only [List.foldl_cons]
    obtain ⟨a1, a2, a3, a4⟩ := applyEvent_noSeq c rs e (h e List.mem_cons_self)
    obtain ⟨b1, b2, b3, b4⟩ := ih (applyEvent c rs e) (fun e' he' => h e' (List.mem_cons_of_mem _ he'))
    exact ⟨b1.trans a1, b2.trans a2, b3.trans a3, b4.trans a4⟩

/-! ### the rune pass emits no inscription event -/

theorem indexRunesTx_noSeq (st : State) (blk : Block) (i : Nat) (tx : Tx) (bb : Balances) (st' : State)
    (bb' : Balances) (evs : List Event) (hx : indexRunesTx st blk i tx bb = .ok (st', bb', evs)) :
    ∀ e ∈ evs, evSeq e = none := by
  obtain ⟨st0, un0, st3, evs1, alloc2, burned0, burned, evs2, _, _, _, hme, hwo, _, rfl⟩ :=
    indexRunesTx_parts st blk i tx bb st' bb' evs hx
  obtain ⟨_, add, rfl, hadd⟩ := writeOutputs_rframe blk tx _ _ _ _ _ _ _ hwo
  intro e he
  rcases List.mem_append.1 he with he | he
  · rcases List.mem_append.1 he with he | he
    · rcases hme e he with ⟨a, id, rfl⟩ | ⟨id, rfl⟩ <;> rfl
    · obtain ⟨a, op, id, rfl⟩ := hadd e he; rfl
  · obtain ⟨x, _, rfl⟩ := List.mem_map.1 he; rfl

theorem go_noSeq (blk : Block) : ∀ (l : List (Nat × Tx)) (st : State) (bb : Balances) (evs0 : List Event)
    (st' : State) (bb' : Balances) (evs : List Event),
    indexRunesBlock.go blk l st bb evs0 = .ok (st', bb', evs) → (∀ e ∈ evs0, evSeq e = none) →
    ∀ e ∈ evs, evSeq e = none := by
  intro l
  induction l with
  | nil =>
    intro st bb evs0 st' bb' evs hg h0
    simp only [indexRunesBlock.go, Outcome.ok.injEq, Prod.mk.injEq] at hg
    obtain ⟨_, _, rfl⟩ := hg
    exact h0
  | cons p rest ih =>
    intro st bb evs0 st' bb' evs hg h0
    obtain ⟨i, tx⟩ := p
    simp only [indexRunesBlock.go] at hg
    split at hg
    · cases hg
    · cases hg
    · rename_i st1 bb1 evs1 htx
      refine ih _ _ _ _ _ _ hg ?_
      intro e he
      rcases List.mem_append.1 he with he | he
      · exact h0 e he
      · exact indexRunesTx_noSeq _ _ _ _ _ _ _ _ htx e he

theorem indexRunesBlock_noSeq (st : State) (blk : Block) (st' : State) (evs : List Event)
    (hb : indexRunesBlock st blk = .ok (st', evs)) : ∀ e ∈ evs, evSeq e = none := by
  unfold indexRunesBlock at hb
  split at hb
  · cases hb
  · cases hb
  · rename_i st1 bb evs1 hgo
    split at hb
    · cases hb
    · cases hb
    · simp only [Outcome.ok.injEq, Prod.mk.injEq] at hb
      obtain ⟨_, rfl⟩ := hb
      exact go_noSeq blk _ _ _ _ _ _ _ hgo (fun _ h => by cases h)

/-- the rune pass and the header write after the UTXO pass: only rune events are appended, and the
inscription side of the state is untouched -/
theorem applyBlock_tail (cfg : Cfg) (blk : Block) (a1 : State) (ev1 : List Event) (a' : State) (ev : List Event)
    (h : (match (if cfg.indexRunes && blk.height ≥ cfg.firstRuneHeight then indexRunesBlock a1 blk else .ok (a1, []) :
            Outcome (State × List Event)) with
          | .panic e => .panic e
          | .err e => .err e
          | .ok (st2, ev2) =>
            .ok ({ st2 with headers := st2.headers ++ [(blk.height, blk.hash)], height := st2.height + 1 }, ev1 ++ ev2)
        : Outcome (State × List Event)) = .ok (a', ev)) :
    insCore a' = insCore a1 ∧ ∃ ev2, ev = ev1 ++ ev2 ∧ ∀ e ∈ ev2, evSeq e = none := by
  refine ⟨applyBlock_after cfg blk a1 ev1 a' ev h, ?_⟩
  cases hcond : (cfg.indexRunes && decide (blk.height ≥ cfg.firstRuneHeight)) with
  | false =>
    simp only [hcond, Bool.false_eq_true, if_false, Outcome.ok.injEq, Prod.mk.injEq] at h
    exact ⟨[], h.2.symm, fun _ h => by cases h⟩
  | true =>
    simp only [hcond, if_true] at h
    cases hr : indexRunesBlock a1 blk with
    | panic e => rw [hr] at h; cases h
    | err e => rw [hr] at h; cases h
    | ok r =>
      obtain ⟨st2, ev2⟩ := r
      rw [hr] at h
      simp only [Outcome.ok.injEq, Prod.mk.injEq] at h
      exact ⟨ev2, h.2.symm, indexRunesBlock_noSeq _ _ _ _ hr⟩

/-! ### the commit -/

theorem eff_ins (tbl : List (OutPoint × UtxoEntry)) (op : OutPoint) (e : UtxoEntry) (s off : Nat) :
    (s, off) ∈ (eff tbl op e).ins ↔
      ((s, off) ∈ e.ins ∨ (op.isSpecial = true ∧ ∃ old, AL.get tbl op = some old ∧ (s, off) ∈ old.ins)) := by
  unfold eff
  cases hs : op.isSpecial with
  | false => simp
  | true =>
    simp only [if_true]
    cases hg : AL.get tbl op with
    | none => simp
    | some old =>
      simp only [UtxoEntry.merged, List.mem_append, Option.some.injEq, exists_eq_left', true_and]
      exact Or.comm

theorem endNull_ins (cfg : Cfg) (blk : Block) (insOn : Bool) (bc : BlockCtx) (s off : Nat) :
    (∃ e2, (endState cfg blk insOn bc).2 = some e2 ∧ (s, off) ∈ e2.ins) ↔
      (∃ e, bc.ins.nullEntry = some e ∧ (s, off) ∈ e.ins) := by
  unfold endState
  cases bc.lostRanges.isEmpty with
  | true => exact Iff.rfl
  | false =>
    simp only [Bool.false_eq_true, if_false, Option.some.injEq, exists_eq_left', UtxoEntry.merged, List.append_nil]
    exact mem_getD_empty _ _ _

theorem endState_unbound (cfg : Cfg) (blk : Block) (insOn : Bool) (bc : BlockCtx) :
    (endState cfg blk insOn bc).1.unbound = bc.st.unbound := by
  unfold endState
  cases insOn <;> cases bc.lostRanges.isEmpty <;> rfl

/-- the listings of the block context are exactly the listings of the cache that is flushed -/
theorem flushList_listed (cfg : Cfg) (blk : Block) (insOn : Bool) (bc : BlockCtx) (o : OutPoint) (s off : Nat) :
    CacheListed (bc.cache ++ specialOf (endState cfg blk insOn bc).2 bc.ins.unboundEntry) o s off ↔
      bcListed bc o s off := by
  have hn := endNull_ins cfg blk insOn bc s off
  unfold CacheListed bcListed LsListed
  constructor
  · rintro ⟨e, hm, hs⟩
    rcases List.mem_append.1 hm with hm | hm
    · exact Or.inl ⟨e, hm, hs⟩
    · right; right
      unfold specialOf at hm
      rcases List.mem_append.1 hm with hm | hm
      · left
        cases hN : (endState cfg blk insOn bc).2 with
        | none => rw [hN] at hm; cases hm
        | some e2 =>
          rw [hN] at hm
          simp only [List.mem_singleton, Prod.mk.injEq] at hm
          obtain ⟨rfl, rfl⟩ := hm
          exact ⟨rfl, hn.1 ⟨e, hN, hs⟩⟩
      · right
        cases hU : bc.ins.unboundEntry with
        | none => rw [hU] at hm; cases hm
        | some e2 =>
          rw [hU] at hm
          simp only [List.mem_singleton, Prod.mk.injEq] at hm
          obtain ⟨rfl, rfl⟩ := hm
          exact ⟨rfl, e, rfl, hs⟩
  · rintro (⟨e, hm, hs⟩ | ⟨v, e, hv, _, _⟩ | ⟨rfl, hx⟩ | ⟨rfl, e, he, hs⟩)
    · exact ⟨e, List.mem_append_left _ hm, hs⟩
    · simp at hv
    · obtain ⟨e2, hN, hs2⟩ := hn.2 hx
      refine ⟨e2, List.mem_append_right _ ?_, hs2⟩
      unfold specialOf
      rw [hN]
      exact List.mem_append_left _ List.mem_cons_self
    · refine ⟨e, List.mem_append_right _ ?_, hs⟩
      unfold specialOf
      rw [he]
      exact List.mem_append_right _ List.mem_cons_self

theorem flushCache_unbound (cfg : Cfg) (c : Cache) (st : State) : (flushCache cfg st c).unbound = st.unbound :=
  core_unbound (flushCache_core cfg c st)

/-! ### one block -/

/-- the replayed inscription components agree with the tables -/
structure RInvIns (rs : ReplayState) (st : State) : Prop where
  einv : EInv rs st
  loc : ∀ s, AL.get rs.loc s = AL.get st.seq2sp s

theorem RInvIns.congr {rs rs' : ReplayState} {st st' : State} (h : RInvIns rs st)
    (h1 : rs'.loc = rs.loc) (h2 : rs'.ids = rs.ids) (h3 : rs'.charms = rs.charms) (h4 : rs'.unbound = rs.unbound)
    (hc : insCore st' = insCore st) : RInvIns rs' st' := by
  have he : st'.entries = st.entries := insCore_entries hc
  have hq : st'.seq2sp = st.seq2sp := insCore_seq2sp hc
  have hu : st'.unbound = st.unbound := by
    have := congrArg State.unbound hc; exact this
  refine ⟨⟨fun s => ?_, fun s => ?_, ?_⟩, fun s => ?_⟩
  · rw [h2, he]; exact h.einv.ids s
  · rw [h3, he]; exact h.einv.charms s
  · rw [h4, hu]; exact h.einv.unbound
  · rw [h1, hq]; exact h.loc s

/-- **One block (index and commit) keeps the replayed inscription components in step with the
tables**, given C04's block-boundary invariant before the block. -/
theorem applyBlock_replay (c : List Block) (cfg : Cfg) (seen : List Txid) (st : State) (blk : Block) (st' : State)
    (ev : List Event) (rs0 : ReplayState) (hS : SInv cfg seen st) (hb : BlockIns cfg seen st blk)
    (hfind : ∀ tx ∈ blk.txs, findTx c tx.txid = some tx) (hz : isOpReturnOut c OutPoint.null = false)
    (hR : RInvIns rs0 st) (h : applyBlock cfg st blk = .ok (st', ev)) :
    RInvIns (ev.foldl (applyEvent c) rs0) st' := by
  obtain ⟨hS', _, _⟩ := applyBlock_sinv cfg seen st blk st' ev hS hb h
  unfold applyBlock at h
  cases hflags : (cfg.indexInscriptions || cfg.indexAddresses || cfg.indexSats) with
  | false =>
    simp only [hflags, Bool.false_eq_true, if_false] at h
    obtain ⟨hc, ev2, hev, hno⟩ := applyBlock_tail cfg blk st [] st' ev h
    rw [hev, List.nil_append]
    obtain ⟨f1, f2, f3, f4⟩ := foldl_noSeq c ev2 rs0 hno
    exact hR.congr f1 f2 f3 f4 hc
  | true =>
    simp only [hflags, if_true] at h
    cases hu : indexUtxoEntries cfg st blk with
    | panic e => rw [hu] at h; cases h
    | err e => rw [hu] at h; cases h
    | ok r =>
      obtain ⟨a1, ev1⟩ := r
      rw [hu] at h
      simp only at h
      obtain ⟨hc, ev2, hev, hno⟩ := applyBlock_tail cfg blk a1 ev1 st' ev h
      rw [hev, List.foldl_append]
      obtain ⟨f1, f2, f3, f4⟩ := foldl_noSeq c ev2 (ev1.foldl (applyEvent c) rs0) hno
      refine RInvIns.congr ?_ f1 f2 f3 f4 hc
      -- the UTXO / inscription pass and the commit
      have hpartA1 : InsPartitioned cfg a1 := insPartitioned_congr hS'.part hc.symm
      rw [indexUtxoEntries_eq] at hu
      cases ht : indexTxs cfg blk (insOnOf cfg blk) (blockOrder blk) (bc0A cfg st blk) with
      | panic e => rw [ht] at hu; cases hu
      | err e => rw [ht] at hu; cases hu
      | ok bc =>
        rw [ht] at hu
        simp only [Outcome.ok.injEq, Prod.mk.injEq] at hu
        obtain ⟨ha1, hev1⟩ := hu
        obtain ⟨cb, rest, htxs, hcb⟩ := hb.coinbase
        obtain ⟨f0, fnd, ffresh, fsp, _⟩ := blockOrder_facts seen blk hb.ok
        have hstart := MInv.start hS blk
        have hoff0 : insOnOf cfg blk = false → (bc0A cfg st blk).st.entries.length = 0 := hb.off
        obtain ⟨m, _, fl, off⟩ := indexTxs_minv cfg blk (insOnOf cfg blk) (blockOrder blk) seen f0 fnd ffresh fsp
          _ bc hstart hoff0 ht
        have hfindO : ∀ p ∈ blockOrder blk, findTx c p.2.txid = some p.2 := by
          intro p hp
          apply hfind
          unfold blockOrder at hp
          rcases List.mem_append.1 hp with hp | hp
          · exact (mem_enumFrom _ _ _ ((List.drop_sublist _ _).subset hp)).2
          · exact (mem_enumFrom _ _ _ ((List.take_sublist _ _).subset hp)).2
        have hB0 : BTrack c rs0 (bc0A cfg st blk) := by
          refine ⟨hR.einv, ⟨fun o s off hl => ?_, fun s hs => by cases hs⟩⟩
          exfalso
          rcases hl with ⟨e, hm, _⟩ | ⟨v, e, hv, _, _⟩ | ⟨_, e, he, _⟩ | ⟨_, e, he, _⟩
          · cases hm
          · simp at hv
          · cases he
          · cases he
        have hB := indexTxs_btrack c cfg blk (insOnOf cfg blk) rs0 hz (blockOrder blk) seen f0 fnd ffresh fsp
          hfindO _ bc hstart hoff0 hB0 ht
        have hsubT := indexTxs_sub _ _ _ _ _ _ ht
        have hsq : bc.st.seq2sp = st.seq2sp := hsubT.1
        have hsu : ∀ p ∈ bc.st.utxo, p ∈ st.utxo := hsubT.2.1
        have hfl : bc.ins.flotsam = [] := by
          cases hi : insOnOf cfg blk with
          | true => exact fl hi _ (0, cb) (blockOrder_cons blk cb rest htxs) hcb
          | false => exact (off hi).2
        have htriE := endState_tri cfg blk (insOnOf cfg blk) bc
        have hEu : (endState cfg blk (insOnOf cfg blk) bc).1.utxo = bc.st.utxo := congrArg Tri.utxo htriE
        have hEq : (endState cfg blk (insOnOf cfg blk) bc).1.seq2sp = bc.st.seq2sp := congrArg Tri.seq2sp htriE
        have hn : (AL.keys (bc.cache ++ specialOf (endState cfg blk (insOnOf cfg blk) bc).2 bc.ins.unboundEntry)).Nodup := by
          rw [keys_append, List.nodup_append]
          refine ⟨m.binv.cinv.nodup, nodup_keys_specialOf _ _, ?_⟩
          intro a ha b hb' hab
          subst hab
          have h1 := m.binv.noSp a ha
          rw [mem_keys_specialOf _ _ a hb'] at h1; cases h1
        have hlist := flushList_listed cfg blk (insOnOf cfg blk) bc
        rw [← hev1]
        refine ⟨?_, fun s => ?_⟩
        · refine hB.einv.congr ?_ ?_
          · rw [← ha1, flushCache_entries, endState_entries]
          · rw [← ha1, flushCache_unbound, endState_unbound]
        · by_cases hsT : s ∈ bc.ins.events.filterMap evSeq
          · -- announced in this block: listed where the replay says, hence (C04) its row is there
            rcases hB.track.found s hsT with ⟨o, off', hl, hg⟩ | hf
            · obtain ⟨e2, hm2, hs2⟩ := (hlist o s off').2 hl
              have hget : AL.get (bc.cache ++ specialOf (endState cfg blk (insOnOf cfg blk) bc).2 bc.ins.unboundEntry) o =
                  some e2 := AL.get_of_mem hn hm2
              have hgu := get_flushCache_utxo cfg _ (endState cfg blk (insOnOf cfg blk) bc).1 hn o
              rw [hget, ha1] at hgu
              simp only at hgu
              have hin : (o, s, off') ∈ allIns a1.utxo :=
                (mem_allIns _ _ _ _).2 ⟨_, AL.mem_of_get hgu, (eff_ins _ _ _ _ _).2 (Or.inl hs2)⟩
              rw [hg, hpartA1.sp_of_listed o s off' hin]
            · rw [hfl] at hf; cases hf
          · -- not announced in this block: neither the replay nor the commit changes its row
            rw [foldl_loc_untouched c _ rs0 s hsT, hR.loc s, ← ha1]
            cases hi : cfg.indexInscriptions with
            | false => rw [flushCache_seq2sp_noIns cfg _ _ hi, hEq, hsq]
            | true =>
              rcases flushCache_seq2sp_cases cfg hi _ (endState cfg blk (insOnOf cfg blk) bc).1 hn s with
                ⟨_, hg⟩ | ⟨op, hop, e', off', hu', hm', hg⟩
              · rw [hg, hEq, hsq]
              · rw [hg]
                have hgu := get_flushCache_utxo cfg _ (endState cfg blk (insOnOf cfg blk) bc).1 hn op
                cases hgc : AL.get (bc.cache ++ specialOf (endState cfg blk (insOnOf cfg blk) bc).2 bc.ins.unboundEntry) op with
                | none => exact absurd hop ((AL.get_eq_none_iff _ _).1 hgc)
                | some e0 =>
                  rw [hgc, hu'] at hgu
                  simp only [Option.some.injEq] at hgu
                  rw [hgu] at hm'
                  rcases (eff_ins _ _ _ _ _).1 hm' with h1 | ⟨_, old, hold, h1⟩
                  · exfalso
                    exact hsT (hB.track.touched op s off' ((hlist op s off').1 ⟨e0, AL.mem_of_get hgc, h1⟩))
                  · rw [hEu] at hold
                    have hmem : (op, old) ∈ st.utxo := hsu _ (AL.mem_of_get hold)
                    exact hS.part.sp_of_listed op s off' ((mem_allIns _ _ _ _).2 ⟨old, hmem, h1⟩)

/-! ### the chain -/

theorem find_of_nodup (l : List Tx) (tx : Tx) (h : tx ∈ l) (hnd : (l.map (·.txid)).Nodup) :
    l.find? (fun x => x.txid == tx.txid) = some tx := by
  induction l with
  | nil => cases h
  | cons a rest ih =>
    simp only [List.map_cons, List.nodup_cons] at hnd
    rcases List.mem_cons.1 h with rfl | h
    · simp
    · have hne : a.txid ≠ tx.txid := fun he => hnd.1 (he ▸ List.mem_map.2 ⟨tx, h, rfl⟩)
      rw [List.find?_cons]
      have : (a.txid == tx.txid) = false := by simpa using hne
      rw [this]; exact ih h hnd.2

/-- with pairwise distinct txids, the chain lookup of `replay` finds every transaction of the chain
under its own txid -/
theorem findTx_of_nodup : ∀ (c : List Block), (Sched.chainTxids c).Nodup → ∀ b ∈ c, ∀ tx ∈ b.txs,
    findTx c tx.txid = some tx
  | [], _, b, hb, _, _ => by cases hb
  | b0 :: bs, hnd, b, hb, tx, htx => by
    rw [Sched.chainTxids_cons, List.nodup_append] at hnd
    obtain ⟨h1, h2, h3⟩ := hnd
    simp only [findTx]
    rcases List.mem_cons.1 hb with rfl | hb
    · rw [find_of_nodup _ tx htx h1]
    · have hnone : b0.txs.find? (fun x => x.txid == tx.txid) = none := by
        rw [List.find?_eq_none]
        intro x hx
        have : x.txid ≠ tx.txid := h3 x.txid (List.mem_map.2 ⟨x, hx, rfl⟩) tx.txid
          (List.mem_map.2 ⟨tx, List.mem_flatMap.2 ⟨b, hb, htx⟩, rfl⟩)
        simpa using this
      rw [hnone]; exact findTx_of_nodup bs h2 b hb tx htx

theorem findTx_none : ∀ (c : List Block) (t : Txid), (∀ b ∈ c, ∀ tx ∈ b.txs, tx.txid ≠ t) → findTx c t = none
  | [], _, _ => rfl
  | b0 :: bs, t, h => by
    simp only [findTx]
    have hnone : b0.txs.find? (fun x => x.txid == t) = none := by
      rw [List.find?_eq_none]
      intro x hx
      simpa using h b0 List.mem_cons_self x hx
    rw [hnone]
    exact findTx_none bs t (fun b hb => h b (List.mem_cons_of_mem _ hb))

theorem isOpReturnOut_null (c : List Block) (h : ∀ b ∈ c, ∀ tx ∈ b.txs, tx.txid ≠ 0) :
    isOpReturnOut c OutPoint.null = false := by
  unfold isOpReturnOut
  have : OutPoint.null.txid = 0 := rfl
  rw [this, findTx_none c 0 h]

theorem RInvIns.init : RInvIns {} {} := by
  refine ⟨⟨fun s => ?_, fun s => ?_, rfl⟩, fun s => rfl⟩
  · show AL.get ([] : List (Nat × InscriptionId)) s = _
    simp [AL.get]
  · show AL.get ([] : List (Nat × Nat)) s = _
    simp [AL.get]

/-- **The replayed inscription components agree with the tables after every chain** satisfying
C04's chain hypotheses (`InsChainOK`), `c` being any chain whose lookup finds the transactions
indexed (in the theorems: the chain itself). -/
theorem run_replayIns (c : List Block) (cfg : Cfg) (hz : isOpReturnOut c OutPoint.null = false)
    (chain : List Block) (st : State) (evs : List Event) (h : run cfg chain = .ok (st, evs))
    (hc : InsChainOK [] chain) (hfind : ∀ b ∈ chain, ∀ tx ∈ b.txs, findTx c tx.txid = some tx) :
    RInvIns (evs.foldl (applyEvent c) {}) st := by
  have := run_induct cfg
    (fun pre st evs => InsChainOK [] pre → (∀ b ∈ pre, ∀ tx ∈ b.txs, findTx c tx.txid = some tx) →
      ChainInv cfg pre st ∧ RInvIns (evs.foldl (applyEvent c) {}) st) ?_ ?_ chain st evs h
  · exact (this hc hfind).2
  · intro _ _
    exact ⟨⟨SInv.init cfg, fun h => by simp at h⟩, RInvIns.init⟩
  · intro pre st evs b st' ev' hP hb hq hf
    obtain ⟨hCI, hR⟩ := hP hq.snoc.1 (fun b' hb' => hf b' (List.mem_append_left _ hb'))
    have hbi := blockIns_of_chainInv cfg pre st b hq hCI
    refine ⟨chainInv_step cfg pre st b st' ev' hq hCI hb, ?_⟩
    rw [List.foldl_append]
    exact applyBlock_replay c cfg _ st b st' ev' _ hCI.1 hbi (hf b (by simp)) hz hR hb

/-- lookup in the projection of the entry table -/
theorem get_enumFrom_map {α β : Type} (f : α → β) (l : List α) (n s : Nat) :
    AL.get ((enumFrom n l).map (fun p => (p.1, f p.2))) s = if s < n then none else (l[s - n]?).map f := by
  induction l generalizing n with
  | nil => simp [enumFrom, AL.get]
  | cons a rest ih =>
    simp only [enumFrom, List.map_cons, AL.get]
    by_cases hs : n = s
    · subst hs; simp
    · have hb : (n == s) = false := by simpa using hs
      rw [hb]
      simp only [Bool.false_eq_true, if_false]
      rw [ih (n + 1)]
      by_cases hlt : s < n
      · rw [if_pos (by omega), if_pos hlt]
      · rw [if_neg (by omega), if_neg hlt]
        have : s - n = (s - (n + 1)) + 1 := by omega
        rw [this]; simp

/-! ### the executable agreement predicate of the oracle line -/

instance instLawfulBEqInscriptionIdC37 : LawfulBEq InscriptionId where
  eq_of_beq {a b} h := by
    cases a; cases b
    have h' : (_ == _ && _ == _) = true := h
    simp only [Bool.and_eq_true, beq_iff_eq] at h'
    rw [h'.1, h'.2]
  rfl {a} := by
    cases a
    show (_ == _ && _ == _) = true
    simp

theorem alAgree_of_get_eq {κ ν : Type} [BEq κ] [BEq ν] [LawfulBEq ν] (a b : List (κ × ν))
    (h : ∀ k, AL.get a k = AL.get b k) : alAgree a b = true := by
  unfold alAgree
  simp only [Bool.and_eq_true, List.all_eq_true]
  exact ⟨fun p _ => by rw [h p.1]; exact beq_self_eq_true _, fun p _ => by rw [h p.1]; exact beq_self_eq_true _⟩

theorem alAgreeD_of_get_eq {κ : Type} [BEq κ] (a b : List (κ × Nat))
    (h : ∀ k, (AL.get a k).getD 0 = (AL.get b k).getD 0) : alAgreeD a b = true := by
  unfold alAgreeD
  simp only [Bool.and_eq_true, List.all_eq_true]
  exact ⟨fun p _ => by rw [h p.1]; exact beq_self_eq_true _, fun p _ => by rw [h p.1]; exact beq_self_eq_true _⟩

/-- componentwise agreement (maps equal pointwise, lists equal) gives the executable `agrees` -/
theorem agrees_of_components (a b : ReplayState)
    (h1 : ∀ s, AL.get a.loc s = AL.get b.loc s) (h2 : ∀ s, AL.get a.charms s = AL.get b.charms s)
    (h3 : ∀ s, AL.get a.ids s = AL.get b.ids s) (h4 : a.unbound = b.unbound) (h5 : a.runes = b.runes)
    (h6 : ∀ id, AL.get a.mints id = AL.get b.mints id)
    (h7 : ∀ id, (AL.get a.burned id).getD 0 = (AL.get b.burned id).getD 0)
    (h8 : a.balances = b.balances) (h9 : a.leftover = b.leftover) : a.agrees b = true := by
  unfold ReplayState.agrees
  rw [alAgree_of_get_eq _ _ h1, alAgree_of_get_eq _ _ h2, alAgree_of_get_eq _ _ h3, alAgree_of_get_eq _ _ h6,
    alAgreeD_of_get_eq _ _ h7, alAgree_of_get_eq _ _ (fun k => by rw [h8]), h4, h5, h9]
  simp

end Ord.Index.ReplayIns
