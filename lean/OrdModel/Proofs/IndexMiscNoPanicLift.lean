import OrdModel.Proofs.IndexMiscNoPanicChain
import OrdModel.Proofs.IndexLiftRuneC16
/-
C16, part 5: `validChain` implies the hypotheses of the rune lift (`RuneLift.LotChainOK`: blocks
consecutive from height 0 with ≤ 2^32 transactions each, no txid twice, every etching's supply in
range), so the three supply-conservation sites of the rune updater are excluded on valid chains.
-/
namespace Ord.Index
open Outcome

theorem freshTxids_spec (ts seen seen' : List Txid) (h : Valid.freshTxids seen ts = some seen')
    (hn : seen.Nodup) : seen' = ts.reverse ++ seen ∧ (ts ++ seen).Nodup := by
  induction ts generalizing seen with
  | nil =>
    simp only [Valid.freshTxids, Option.some.injEq] at h
    subst h
    simpa using hn
  | cons t rest ih =>
    simp only [Valid.freshTxids] at h
    split at h
    · cases h
    · rename_i hc
      have hnot : t ∉ seen := by simpa using hc
      obtain ⟨he, hnd⟩ := ih (t :: seen) h (List.nodup_cons.2 ⟨hnot, hn⟩)
      refine ⟨by simp [he], ?_⟩
      rw [List.cons_append]
      exact List.perm_middle.nodup_iff.1 hnd

theorem checkTxs_wellFormed (height : Nat) (txs : List Tx) (u : Valid.Utxos) (fees : Nat) (r : Valid.Utxos × Nat)
    (h : Valid.checkTxs height txs u fees = some r) : ∀ tx ∈ txs, Valid.txWellFormed tx = true := by
  induction txs generalizing u fees with
  | nil => intro tx htx; cases htx
  | cons t rest ih =>
    simp only [Valid.checkTxs] at h
    split at h
    · cases h
    · rename_i u' fee hct
      intro tx htx
      rcases List.mem_cons.1 htx with rfl | hmem
      · unfold Valid.checkTx at hct
        split at hct
        · cases hct
        · simp only at hct
          split at hct
          · rename_i hc
            simp only [Bool.and_eq_true] at hc
            exact hc.1.1.1
          · cases hct
      · exact ih u' (fees + fee) h tx hmem

theorem supply_of_wellFormed (tx : Tx) (h : Valid.txWellFormed tx = true) : Valid.etchingSupplyInRange tx = true := by
  simp only [Valid.txWellFormed, Bool.and_eq_true] at h
  exact h.2

/-- what `checkChain` establishes about heights, block sizes, txids and etching supplies -/
theorem checkChain_facts (chain : List Block) (st st' : Valid.VState) (h : Valid.checkChain chain st = some st')
    (hn : st.txids.Nodup) :
    (∀ i (hi : i < chain.length), chain[i].height = st.height + i ∧ chain[i].txs.length ≤ 4294967296) ∧
    (((chain.flatMap (·.txs)).map (·.txid)) ++ st.txids).Nodup ∧
    (∀ b ∈ chain, ∀ tx ∈ b.txs, Valid.etchingSupplyInRange tx = true) := by
  induction chain generalizing st with
  | nil => exact ⟨fun i hi => by simp at hi, by simpa using hn, fun b hb => by cases hb⟩
  | cons b bs ih =>
    simp only [Valid.checkChain] at h
    split at h
    · cases h
    · rename_i st1 hb1
      obtain ⟨cb, rest, txids, u, fees, hb, hheight, hlen, _, hwf, hfresh, hct, hh1, ht1⟩ :=
        checkBlock_facts st st1 b hb1
      obtain ⟨hte, htn⟩ := freshTxids_spec _ _ _ hfresh hn
      have hn1 : st1.txids.Nodup := by
        rw [ht1, hte]
        exact ((List.reverse_perm _).append_right _).nodup_iff.2 htn
      obtain ⟨ihH, ihT, ihS⟩ := ih st1 h hn1
      refine ⟨?_, ?_, ?_⟩
      · intro i hi
        cases i with
        | zero => exact ⟨by simpa using hheight, hlen⟩
        | succ j =>
          have := ihH j (by simpa using hi)
          simp only [List.getElem_cons_succ]
          rw [hh1] at this
          exact ⟨by omega, this.2⟩
      · rw [ht1, hte] at ihT
        simp only [List.flatMap_cons, List.map_append]
        have p1 : List.Perm ((b.txs.map (·.txid) ++ (bs.flatMap (·.txs)).map (·.txid)) ++ st.txids)
            (((bs.flatMap (·.txs)).map (·.txid) ++ b.txs.map (·.txid)) ++ st.txids) :=
          List.perm_append_comm.append_right _
        have p2 : List.Perm ((bs.flatMap (·.txs)).map (·.txid) ++ (b.txs.map (·.txid) ++ st.txids))
            ((bs.flatMap (·.txs)).map (·.txid) ++ ((b.txs.map (·.txid)).reverse ++ st.txids)) :=
          ((List.reverse_perm _).symm.append_right _).append_left _
        rw [List.append_assoc ((bs.flatMap (·.txs)).map (·.txid))] at p1
        exact (p1.trans p2).nodup_iff.2 ihT
      · intro b' hb' tx htx
        rcases List.mem_cons.1 hb' with rfl | hmem
        · rw [hb] at htx
          rcases List.mem_cons.1 htx with rfl | hm
          · exact supply_of_wellFormed _ hwf
          · exact supply_of_wellFormed _ (checkTxs_wellFormed _ _ _ _ _ hct tx hm)
        · exact ihS b' hmem tx htx

/-- a valid chain satisfies the hypotheses of the rune lift -/
theorem validChain_lotChainOK (chain : List Block) (h : Valid.validChain chain = true) :
    RuneLift.LotChainOK chain := by
  unfold Valid.validChain at h
  cases hc : Valid.checkChain chain {} with
  | none => rw [hc] at h; cases h
  | some st' =>
    obtain ⟨hH, hT, hS⟩ := checkChain_facts chain {} st' hc (by simp)
    refine ⟨⟨?_, ?_⟩, hS⟩
    · intro i hi
      have := hH i hi
      exact ⟨by simpa using this.1, this.2⟩
    · simpa using hT

/-- prefixes of valid chains are valid -/
theorem checkChain_append (a c : List Block) (st st' : Valid.VState)
    (h : Valid.checkChain (a ++ c) st = some st') : ∃ st1, Valid.checkChain a st = some st1 := by
  induction a generalizing st with
  | nil => exact ⟨st, rfl⟩
  | cons b bs ih =>
    simp only [List.cons_append, Valid.checkChain] at h ⊢
    split at h
    · cases h
    · rename_i st1 hb
      exact ih st1 h

theorem validChain_prefix (a c : List Block) (h : Valid.validChain (a ++ c) = true) : Valid.validChain a = true := by
  unfold Valid.validChain at h ⊢
  cases hc : Valid.checkChain (a ++ c) {} with
  | none => rw [hc] at h; cases h
  | some st' =>
    obtain ⟨st1, h1⟩ := checkChain_append a c {} st' hc
    rw [h1]; rfl

end Ord.Index
